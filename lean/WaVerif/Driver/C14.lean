import WaVerif.Base.Proto
import WaVerif.Model.C14Hex
import WaVerif.Model.C14Hash
/-! Line protocol over the executable C14 models (core-only).  Byte strings are lowercase hex ("-" = empty),
numbers decimal.  One output line per input line; unknown ops answer `bad-op`. -/
open WaVerif WaVerif.Proto WaVerif.C14 WaVerif.C14.Gen

def optBytes (r : Option (List Nat)) : String :=
  match r with
  | some bs => toHex bs ++ " nil"
  | none => "err"

def crcTableFor (poly : Nat) : List Nat :=
  if poly = crcIEEEPoly then crcIEEETable
  else if poly = crcCastagnoliPoly then crcCastagnoliTable
  else crcMakeTable poly

def handleHash (ws : List String) : Option String :=
  match ws with
  | ["crc.ieee", h] => (parseHex h).map fun bs => toString (crcChecksumIEEE bs)
  | ["crc.update", c, p, h] => do
      let c ← parseNat c; let p ← parseNat p; let bs ← parseHex h
      pure (toString (crcUpdate (crcTableFor p) c bs))
  | ["crc.bitwise", c, p, h] => do
      let c ← parseNat c; let p ← parseNat p; let bs ← parseHex h
      pure (toString (crcBitwise p c bs))
  | ["crc.tab", p, i] => do
      let p ← parseNat p; let i ← parseNat i
      pure (toString ((crcTableFor p).getD i 0))
  | ["adler", h] => (parseHex h).map fun bs => toString (adlerChecksum bs)
  | ["adler.spec", h] => (parseHex h).map fun bs => toString (adlerSpec bs)
  | ["fnv32", h] => (parseHex h).map fun bs => toString (fnv32 bs)
  | ["fnv32a", h] => (parseHex h).map fun bs => toString (fnv32a bs)
  | ["fnv64", h] => (parseHex h).map fun bs => toString (fnv64 bs)
  | ["fnv64a", h] => (parseHex h).map fun bs => toString (fnv64a bs)
  | _ => none

def handleHex (ws : List String) : Option String :=
  match ws with
  | ["hex.enc", h] => (parseHex h).map fun bs => toHex (hexEncode bs)
  | ["hex.dec", h] => (parseHex h).map fun bs => optBytes (hexDecode bs)
  | ["hex.enclen", n] => (parseNat n).map fun n => toString (hexEncodedLen n)
  | ["hex.declen", n] => (parseNat n).map fun n => toString (hexDecodedLen n)
  | _ => none

def handle (line : String) : String :=
  let ws := words line
  match handleHex ws with
  | some r => r
  | none =>
  match handleHash ws with
  | some r => r
  | none => "bad-op"

def main : IO Unit := lineLoop handle
