import WaVerif.Base.Proto
import WaVerif.Model.C14Hex
import WaVerif.Model.C14Hash
import WaVerif.Model.C14Conv
import WaVerif.Model.C14Utf8
import WaVerif.Model.C14B64
import WaVerif.Model.C14B32
import WaVerif.Model.C14Bits
import WaVerif.Model.C14Sort
import WaVerif.Model.C14Md5
/-! Line protocol over the executable C14 models (core-only).  Byte strings are lowercase hex ("-" = empty),
numbers decimal.  One output line per input line; unknown ops answer `bad-op`. -/
open WaVerif WaVerif.Proto WaVerif.C14 WaVerif.C14.Gen

def optBytes (r : Option (List Nat)) : String :=
  match r with
  | some bs => toHex bs ++ " nil"
  | none => "err"

def crcTableFor (poly : Nat) : List Nat :=
  if poly = crcIEEEPoly then crcIEEETable
  else if poly = crcCastagnoliPoly then crcCastagnoliTable
  else crcMakeTable poly

def handleHash (ws : List String) : Option String :=
  match ws with
  | ["crc.ieee", h] => (parseHex h).map fun bs => toString (crcChecksumIEEE bs)
  | ["crc.update", c, p, h] => do
      let c ← parseNat c; let p ← parseNat p; let bs ← parseHex h
      pure (toString (crcUpdate (crcTableFor p) c bs))
  | ["crc.bitwise", c, p, h] => do
      let c ← parseNat c; let p ← parseNat p; let bs ← parseHex h
      pure (toString (crcBitwise p c bs))
  | ["crc.tab", p, i] => do
      let p ← parseNat p; let i ← parseNat i
      pure (toString ((crcTableFor p).getD i 0))
  | ["adler", h] => (parseHex h).map fun bs => toString (adlerChecksum bs)
  | ["adler.spec", h] => (parseHex h).map fun bs => toString (adlerSpec bs)
  | ["fnv32", h] => (parseHex h).map fun bs => toString (fnv32 bs)
  | ["fnv32a", h] => (parseHex h).map fun bs => toString (fnv32a bs)
  | ["fnv64", h] => (parseHex h).map fun bs => toString (fnv64 bs)
  | ["fnv64a", h] => (parseHex h).map fun bs => toString (fnv64a bs)
  | ["md5", h] => (parseHex h).map fun bs => toHex (Md5.sum bs)
  | _ => none

def handleHex (ws : List String) : Option String :=
  match ws with
  | ["hex.enc", h] => (parseHex h).map fun bs => toHex (hexEncode bs)
  | ["hex.dec", h] => (parseHex h).map fun bs => optBytes (hexDecode bs)
  | ["hex.enclen", n] => (parseNat n).map fun n => toString (hexEncodedLen n)
  | ["hex.declen", n] => (parseNat n).map fun n => toString (hexDecodedLen n)
  | _ => none

def showPRes : PRes → String
  | .ok n => s!"{n} nil"
  | .range n => s!"{n} range"
  | .syntax => "0 syntax"
  | .base => "0 base"
  | .bits => "0 bits"

def handleConv (ws : List String) : Option String :=
  match ws with
  | ["conv.fmtu", u, b] => do
      let u ← parseNat u; let b ← parseNat b
      pure (toHex (formatUint u b))
  | ["conv.fmti", v, b] => do
      let v ← parseInt v; let b ← parseNat b
      pure (toHex (formatInt v b))
  | ["conv.parseu", h, b, bits] => do
      let s ← parseHex h; let b ← parseInt b; let bits ← parseInt bits
      pure (showPRes (parseUint s b bits))
  | ["conv.parsei", h, b, bits] => do
      let s ← parseHex h; let b ← parseInt b; let bits ← parseInt bits
      pure (showPRes (C14.parseInt s b bits))
  | _ => none

def showPair (p : Nat × Nat) : String := s!"{p.1} {p.2}"

def handleUtf8 (ws : List String) : Option String :=
  match ws with
  | ["utf8.enc", r] => (parseInt r).map fun r => toHex (encodeRune r)
  | ["utf8.len", r] => (parseInt r).map fun r => toString (runeLen r)
  | ["utf8.validrune", r] => (parseInt r).map fun r => toString (validRune r)
  | ["utf8.dec", h] => (parseHex h).map fun bs => showPair (decodeRune bs)
  | ["utf8.decspec", h] => (parseHex h).map fun bs => showPair (decodeSpec bs)
  | ["utf8.declast", h] => (parseHex h).map fun bs => showPair (decodeLastRune bs)
  | ["utf8.valid", h] => (parseHex h).map fun bs => toString (valid bs)
  | ["utf8.count", h] => (parseHex h).map fun bs => toString (runeCount bs)
  | ["utf8.full", h] => (parseHex h).map fun bs => toString (fullRune bs)
  | _ => none

def enc64Of (n : String) : Option B64Enc :=
  if n = "Std" then some encStd else if n = "URL" then some encURL
  else if n = "RawStd" then some encRawStd else if n = "RawURL" then some encRawURL else none

def enc32Of (n : String) : Option B64Enc :=
  if n = "Std" then some enc32Std else if n = "Hex" then some enc32Hex else none

def handleB (ws : List String) : Option String :=
  match ws with
  | ["b64.enc", e, h] => do let e ← enc64Of e; let bs ← parseHex h; pure (toHex (b64Encode e bs))
  | ["b64.dec", e, h] => do let e ← enc64Of e; let bs ← parseHex h; pure (optBytes (b64Decode e bs))
  | ["b64.enclen", e, n] => do let e ← enc64Of e; let n ← parseNat n; pure (toString (b64EncodedLen e n))
  | ["b64.declen", e, n] => do let e ← enc64Of e; let n ← parseNat n; pure (toString (b64DecodedLen e n))
  | ["b32.enc", e, h] => do let e ← enc32Of e; let bs ← parseHex h; pure (toHex (b32Encode e bs))
  | ["b32.dec", e, h] => do let e ← enc32Of e; let bs ← parseHex h; pure (optBytes (b32Decode e bs))
  | ["b32.enclen", n] => (parseNat n).map fun n => toString (b32EncodedLen n)
  | ["b32.declen", n] => (parseNat n).map fun n => toString (b32DecodedLen n)
  | _ => none

def bv (w : Nat) (s : String) : Option (BitVec w) := (parseNat s).map (BitVec.ofNat w)

def showBV2 {w : Nat} (p : BitVec w × BitVec w) : String := s!"{p.1.toNat} {p.2.toNat}"

def handleBits (ws : List String) : Option String :=
  match ws with
  | ["bits.OnesCount8", x] => (bv 8 x).map fun x => toString (onesCount8 x)
  | ["bits.OnesCount16", x] => (bv 16 x).map fun x => toString (onesCount16 x)
  | ["bits.OnesCount32", x] => (bv 32 x).map fun x => toString (onesCount32 x)
  | ["bits.OnesCount64", x] => (bv 64 x).map fun x => toString (onesCount64 x)
  | ["bits.Len8", x] => (bv 8 x).map fun x => toString (len8 x)
  | ["bits.Len16", x] => (bv 16 x).map fun x => toString (len16 x)
  | ["bits.Len32", x] => (bv 32 x).map fun x => toString (len32 x)
  | ["bits.Len64", x] => (bv 64 x).map fun x => toString (len64 x)
  | ["bits.LeadingZeros8", x] => (bv 8 x).map fun x => toString (leadingZeros8 x)
  | ["bits.LeadingZeros16", x] => (bv 16 x).map fun x => toString (leadingZeros16 x)
  | ["bits.LeadingZeros32", x] => (bv 32 x).map fun x => toString (leadingZeros32 x)
  | ["bits.LeadingZeros64", x] => (bv 64 x).map fun x => toString (leadingZeros64 x)
  | ["bits.TrailingZeros8", x] => (bv 8 x).map fun x => toString (trailingZeros8 x)
  | ["bits.TrailingZeros16", x] => (bv 16 x).map fun x => toString (trailingZeros16 x)
  | ["bits.TrailingZeros32", x] => (bv 32 x).map fun x => toString (trailingZeros32 x)
  | ["bits.TrailingZeros64", x] => (bv 64 x).map fun x => toString (trailingZeros64 x)
  | ["bits.Reverse8", x] => (bv 8 x).map fun x => toString (reverse8 x).toNat
  | ["bits.Reverse16", x] => (bv 16 x).map fun x => toString (reverse16 x).toNat
  | ["bits.Reverse32", x] => (bv 32 x).map fun x => toString (reverse32 x).toNat
  | ["bits.Reverse64", x] => (bv 64 x).map fun x => toString (reverse64 x).toNat
  | ["bits.ReverseBytes16", x] => (bv 16 x).map fun x => toString (reverseBytes16 x).toNat
  | ["bits.ReverseBytes32", x] => (bv 32 x).map fun x => toString (reverseBytes32 x).toNat
  | ["bits.ReverseBytes64", x] => (bv 64 x).map fun x => toString (reverseBytes64 x).toNat
  | ["bits.RotateLeft8", x, k] => do let x ← bv 8 x; let k ← parseInt k; pure (toString (rotateLeftW x k).toNat)
  | ["bits.RotateLeft16", x, k] => do let x ← bv 16 x; let k ← parseInt k; pure (toString (rotateLeftW x k).toNat)
  | ["bits.RotateLeft32", x, k] => do let x ← bv 32 x; let k ← parseInt k; pure (toString (rotateLeftW x k).toNat)
  | ["bits.RotateLeft64", x, k] => do let x ← bv 64 x; let k ← parseInt k; pure (toString (rotateLeftW x k).toNat)
  | ["bits.Add64", x, y, c] => do let x ← bv 64 x; let y ← bv 64 y; let c ← bv 64 c; pure (showBV2 (add64 x y c))
  | ["bits.Add32", x, y, c] => do let x ← bv 32 x; let y ← bv 32 y; let c ← bv 32 c; pure (showBV2 (add32 x y c))
  | ["bits.Sub64", x, y, c] => do let x ← bv 64 x; let y ← bv 64 y; let c ← bv 64 c; pure (showBV2 (sub64 x y c))
  | ["bits.Sub32", x, y, c] => do let x ← bv 32 x; let y ← bv 32 y; let c ← bv 32 c; pure (showBV2 (sub32 x y c))
  | ["bits.Mul32", x, y] => do let x ← bv 32 x; let y ← bv 32 y; pure (showBV2 (mul32 x y))
  | ["bits.Mul64", x, y] => do let x ← parseNat x; let y ← parseNat y; pure (showPair (mul64 x y))
  | ["bits.Div64", h, l, y] => do
      let h ← parseNat h; let l ← parseNat l; let y ← parseNat y
      match div64 h l y with
      | some p => pure (showPair p)
      | none => pure "panic"
  | ["bits.Rem64", h, l, y] => do
      let h ← parseNat h; let l ← parseNat l; let y ← parseNat y
      if y = 0 then pure "panic" else
      match div64 (h % y) l y with
      | some p => pure (toString p.2)
      | none => pure "panic"
  | _ => none

def handleSort (ws : List String) : Option String :=
  match ws with
  | "sort.ints" :: vs => do
      let xs ← vs.mapM parseInt
      pure (" ".intercalate ((sortInts xs).map toString))
  | "sort.strs" :: vs => do
      let xs ← vs.mapM parseHex
      pure (" ".intercalate ((sortStrings xs).map toHex))
  | _ => none

def firstSome (fs : List (List String → Option String)) (ws : List String) : String :=
  match fs with
  | [] => "bad-op"
  | f :: rest => match f ws with
    | some r => r
    | none => firstSome rest ws

def handle (line : String) : String :=
  firstSome [handleHex, handleHash, handleConv, handleUtf8, handleB, handleBits, handleSort] (words line)

def main : IO Unit := lineLoop handle
