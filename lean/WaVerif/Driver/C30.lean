import WaVerif.Base.Proto
import WaVerif.Model.C30
import WaVerif.Gen.C30
open WaVerif WaVerif.Proto WaVerif.C30

/-! line protocol (model of `wa test`, `cfgCurrent` regenerated from the source):
`run <pkg> <initOutHex> <g0> F1 F2 …` with
   `F = name:T|E:0|1:N|O|P:<declhex>:R|P|A|X|T:<a>:<b>:<outhex>:<bump>:<printsG 0|1>:<comments>`
   (`<comments>` = the comment groups of the body, `;` between groups, `,` between comments, each
    `L<hex>` for `//text` or `B<hex>` for `/*text*/`, `-` = none; N|O|P:<declhex> is the declaration the
    generator INTENDED — the driver reports `specdecl=false` if `declSpec` of the comments differs;
    the run uses `loaderDecl markerAnywhereCurrent` of the comments)
   (package init output and the value init gives the global counter; per function: kind, selected,
    declaration + hex text, end: Returns / Panics a=msg b=pos / Assert a=msg b=pos / eXits a=decimal
    code / Traps, own output after the optional counter line, counter increment, prints the counter;
    texts hex-encoded ASCII, `-` = empty)
 → `status=<n>|<line>|<line>…` — the verdict lines as `wa test` prints them (`DUMP` = raw dump
   block, `FAIL`/`ok`/`?` without package name and time)
`loaderror`, `notestfiles`, `cfg` -/

def textOfHex (h : String) : Option Text := (parseHex h).map (·.map Char.ofNat)

def splitColon (s : String) : List String := s.splitOn ":"

def parseEnd (k a b : String) : Option End :=
  match k with
  | "R" => some .returns
  | "P" => do some (.panics (← textOfHex a) (← textOfHex b))
  | "A" => do some (.assertFails (← textOfHex a) (← textOfHex b))
  | "X" => do some (.exits (← parseNat a))
  | "T" => some .traps
  | _ => none

def parseComment (c : String) : Option Comment :=
  match c.toList with
  | 'L' :: h => (textOfHex (String.ofList h)).map Comment.line
  | 'B' :: h => (textOfHex (String.ofList h)).map Comment.block
  | _ => none

def parseGroups (s : String) : Option (List Group) :=
  if s = "-" then some [] else
  (s.splitOn ";").mapM (fun g => (g.splitOn ",").mapM parseComment)

def parseFn (tok : String) : Option (SrcFn × Decl) :=
  match splitColon tok with
  | [name, kind, sel, dk, dh, ek, a, b, oh, bump, pg, cm] => do
    let dt ← textOfHex dh
    let decl ← (match dk with
      | "N" => some Decl.none
      | "O" => some (Decl.output dt)
      | "P" => some (Decl.panic dt)
      | _ => none)
    let e ← parseEnd ek a b
    let out ← textOfHex oh
    let k ← parseNat bump
    let gs ← parseGroups cm
    some (⟨⟨name.toList, kind == "E", sel == "1", .none, k, pg == "1", out, e⟩, gs⟩, decl)
  | _ => none

/-- Go's `%q` for the characters the generators use -/
def quote (t : Text) : String :=
  let body := t.foldl (fun acc c =>
    if c = '"' then acc ++ "\\\"" else if c = '\\' then acc ++ "\\\\"
    else if c = '\n' then acc ++ "\\n" else if c = '\t' then acc ++ "\\t" else acc.push c) ""
  "\"" ++ body ++ "\""

def render (pkg : String) : Line → String
  | .header n => s!"---- {pkg}.{String.ofList n}"
  | .expectPanicGotNil => "    expect panic, got = nil"
  | .expectPanic e g => s!"    expect(panic) = {quote e}, got = {quote g}"
  | .expectOut e g => s!"    expect = {quote e}, got = {quote g}"
  | .dump => "DUMP"
  | .fail => "FAIL"
  | .ok => "ok"
  | .noTestFiles => "?"

def showRun (pkg : String) (r : List Line × Nat) : String :=
  "|".intercalate (s!"status={r.2}" :: r.1.map (render pkg))

def parseAll : List String → Option (List (SrcFn × Decl))
  | [] => some []
  | t :: ts => do
    let f ← parseFn t
    let r ← parseAll ts
    some (f :: r)

def handle (line : String) : String :=
  match words line with
  | ["cfg"] => s!"testAbortFAIL={cfgCurrent.testAbortFAIL} exampleAbortFAIL={cfgCurrent.exampleAbortFAIL} initOutputLeaks={cfgCurrent.initOutputLeaks} markerAnywhere={markerAnywhereCurrent}"
  | ["loaderror"] => showRun "" (run cfgCurrent .loadError)
  | ["notestfiles"] => showRun "" (run cfgCurrent .noTestFiles)
  | "run" :: pkg :: ioh :: g0 :: toks => match parseAll toks, textOfHex ioh, parseNat g0 with
    | some parsed, some io, some g =>
      let p : Pkg := ⟨io, g⟩
      let srcs := parsed.map (·.1)
      let r := runSrc cfgCurrent markerAnywhereCurrent p srcs
      let fns := contractFns p srcs
      let specok := parsed.all (fun x => decide (declSpec x.1.comments = x.2))
      let meet := decide (allMeet fns)
      let guarded := fns.all (fun f => !f.selected || Guarded f)
      s!"{showRun pkg r}|meet={meet} guarded={guarded} specdecl={specok}"
    | _, _, _ => "bad-op"
  | _ => "bad-op"

def main : IO Unit := lineLoop handle
