import WaVerif.Base.Proto
import WaVerif.Model.C22
open WaVerif WaVerif.Proto WaVerif.C22

def joinC22 (xs : List String) : String := if xs.isEmpty then "-" else ",".intercalate xs

def editsStr (es : List Edit) : String :=
  joinC22 (es.map fun e => s!"{e.start}:{e.stop}:{toHex e.new}")

def parseEdits (s : String) : Option (List Edit) :=
  if s = "-" then some [] else
  (s.splitOn ",").mapM fun x =>
    match x.splitOn ":" with
    | [a, b, h] => do
      let a ← parseInt a
      let b ← parseInt b
      let h ← parseHex h
      some (⟨a, b, h⟩ : Edit)
    | _ => none

def parseDiags (s : String) : Option (List Diag) :=
  if s = "-" then some [] else
  (s.splitOn ",").mapM fun x =>
    match x.splitOn ":" with
    | [a, b, c] => do
      let a ← parseNat a
      let b ← parseNat b
      let c ← parseNat c
      some (⟨a, b, c⟩ : Diag)
    | _ => none

def errStr : VErr → String
  | .oob => "err:oob"
  | .overlap => "err:overlap"
  | .wrongSize => "PANIC wrong size"

def applyStr (src : List Nat) (es : List Edit) : String :=
  match apply src es with
  | .ok out => "ok:" ++ toHex out
  | .error e => errStr e

/-- unified text; additionally the model checks its own reference interpreter on the hunks -/
def unifiedStr (fix : Bool) (src : List Nat) (es : List Edit) (ctx : Nat) : String :=
  match toUnified fix src es ctx with
  | .error e => errStr e
  | .ok hs =>
    let selfcheck : Bool :=
      match apply src es with
      | .ok out => patchHunks fix (splitLines src) 0 0 hs == some (splitLines out)
      | .error _ => true
    if selfcheck then toHex (render hs) else "MODEL-PATCH-MISMATCH"

/-- Bool mirror of `ValidLcsFrom` -/
def checkLcs (a b : List Nat) : Nat → Nat → List Diag → Bool
  | pa, pb, [] => decide (pa ≤ a.length) && decide (pb ≤ b.length)
  | pa, pb, d :: rest =>
    decide (pa ≤ d.x) && decide (pb ≤ d.y) && decide (d.x + d.len ≤ a.length) && decide (d.y + d.len ≤ b.length) &&
    ((a.drop d.x).take d.len == (b.drop d.y).take d.len) && checkLcs a b (d.x + d.len) (d.y + d.len) rest

def opD (a b : List Nat) (l : List Diag) (fix : Bool) : String :=
  let es := stringsEdits a b l
  let (sa, sb) := if isASCII a && isASCII b then (a, b) else (decodeRunes a, decodeRunes b)
  let c := if a = b then true else checkLcs sa sb 0 0 l
  let g := joinC22 (l.map fun d => s!"{d.x}:{d.y}:{d.len}")
  s!"G{g} E{editsStr es} A{applyStr a es} U{unifiedStr fix a es 3} C{if c then "ok" else "bad"}"

def opA (src : List Nat) (es : List Edit) (ctx : Nat) (fix : Bool) : String :=
  let le := match lineEdits src es with
    | .ok l => editsStr l
    | .error e => errStr e
  s!"A{applyStr src es} L{le} U{unifiedStr fix src es ctx}"

def opX (alen blen : Nat) (l : List Diag) : String :=
  joinC22 ((toDiffs l alen blen).map fun d => s!"{d.start}:{d.stop}:{d.replStart}:{d.replStop}")

def handle (line : String) : String :=
  match words line with
  | ["D", a, b, g, f] =>
    match parseHex a, parseHex b, parseDiags g with
    | some a, some b, some g => opD a b g (f = "1")
    | _, _, _ => "bad-op"
  | ["A", s, es, ctx, f] =>
    match parseHex s, parseEdits es, parseNat ctx with
    | some s, some es, some ctx => opA s es ctx (f = "1")
    | _, _, _ => "bad-op"
  | ["X", a, b, g] =>
    match parseNat a, parseNat b, parseDiags g with
    | some a, some b, some g => opX a b g
    | _, _, _ => "bad-op"
  | _ => "bad-op"

def main : IO Unit := lineLoop handle
