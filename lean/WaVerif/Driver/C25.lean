import WaVerif.Base.Proto
import WaVerif.Model.C25
open WaVerif WaVerif.Proto WaVerif.C25 WaVerif.Stream

def parseSplits (s : String) : Option (List Nat) :=
  (s.splitOn ",").mapM (fun x => x.toNat?)

def parseHexes (hs : List String) : Option (List (List Nat)) := hs.mapM parseHex

def hexList (ps : List (List Nat)) : String :=
  if ps.isEmpty then "none" else ",".intercalate (ps.map toHex)

def showSlip (splits : List Nat) (stream : List Nat) : String :=
  let cs := chunkBy splits stream.length 0 stream
  let (pk, tail) := readAllC (Buffered.ofChunks cs)
  s!"pk={hexList pk} tail={toHex tail} end=eof"

def showMux (splits : List Nat) (stream : List Nat) : String :=
  let cs := chunkBy splits stream.length 0 stream
  let pk := muxReadAllC (Buffered.ofChunks cs)
  if pk.isEmpty then "pk=none" else
  "pk=" ++ ",".intercalate (pk.map fun (ft, p) => (toHex [ft]) ++ ":" ++ toHex p)

def parseFramed (s : String) : Option (Nat × List Nat) :=
  match s.splitOn ":" with
  | [a, b] => do
    let fa ← parseHex a
    let pb ← parseHex b
    match fa with
    | [ft] => some (ft, pb)
    | _ => none
  | _ => none

def bv16Hex (v : BitVec 16) : String := toHex [v.toNat / 256, v.toNat % 256]

def handle (line : String) : String :=
  match words line with
  | "slip" :: sp :: hs =>
    match parseSplits sp, parseHexes hs with
    | some splits, some ps =>
      let stream := ps.flatMap encode
      s!"stream={toHex stream} " ++ showSlip splits stream
    | _, _ => "bad-op"
  | ["raw", sp, h] =>
    match parseSplits sp, parseHex h with
    | some splits, some stream => showSlip splits stream
    | _, _ => "bad-op"
  | "mux" :: sp :: hs =>
    match parseSplits sp, hs.mapM parseFramed with
    | some splits, some fs =>
      let stream := fs.flatMap fun (ft, p) => muxWrite ft p
      s!"stream={toHex stream} " ++ showMux splits stream
    | _, _ => "bad-op"
  | ["rawmux", sp, h] =>
    match parseSplits sp, parseHex h with
    | some splits, some stream => showMux splits stream
    | _, _ => "bad-op"
  | "alias" :: who :: bh :: specs =>
    -- the model has no mutable memory: a write call cannot change the caller's buffer
    let parseOL (x : String) : Option (Nat × Nat) :=
      match x.splitOn ":" with
      | [a, b] => do let o ← a.toNat?; let n ← b.toNat?; some (o, n)
      | _ => none
    match parseHex bh, specs.mapM parseOL with
    | some buf, some ols =>
      let ps := ols.map fun (o, n) => (buf.drop o).take n
      let sent := ",".intercalate (ps.map toHex)
      if who = "slip" then
        s!"clobber=none sent={sent} " ++ showSlip [3] (ps.flatMap encode)
      else match parseHex who with
        | some [ft] => s!"clobber=none sent={sent} " ++ showMux [3] (ps.flatMap fun p => muxWrite ft p)
        | _ => "bad-op"
    | _, _ => "bad-op"
  | ["fcs", h] =>
    match parseHex h with
    | some d =>
      let app := appendFcs d
      s!"fcs={bv16Hex (calcFcs d)} app={toHex app} good={checkFcs app} self={checkFcs d}"
    | none => "bad-op"
  | _ => "bad-op"

def main : IO Unit := lineLoop handle
