import WaVerif.Base.Proto
import WaVerif.Gen.C10Wat
open WaVerif WaVerif.Proto WaVerif.C10 WaVerif.C10.Wat

/-! Driver for the REGENERATED helper functions of malloc.wat (Gen/C10Wat.lean):
  hcfg <pages> <maxPages> <stackPtr> <heapBase> <cap>   → ok
  h <function> <i32 args...>                            → `ok <results...>` | `trap` -/

def handleW (st : Option Config) (line : String) : Option Config × String :=
  match words line with
  | ["hcfg", a, b, c, d, e] =>
    match parseNat a, parseNat b, parseNat c, parseNat d, parseNat e with
    | some pages, some maxPages, some sp, some base, some cap =>
      (some { pages := pages, maxPages := maxPages, stackPtr := sp, heapBase := base, cap := cap }, "ok")
    | _, _, _, _, _ => (st, "bad-op")
  | "h" :: name :: args =>
    match st with
    | none => (st, "bad-op")
    | some cfg =>
      let vals := args.map parseInt
      if vals.any Option.isNone then (st, "bad-op") else
      match findFunc Gen.funcs name with
      | none => (st, "bad-op")
      | some _ =>
        match callFn Gen.funcs (glOf cfg) name (vals.map (fun v => wrap32 (v.getD 0))) with
        | some rs => (st, " ".intercalate ("ok" :: rs.map toString))
        | none => (st, "trap")
  | _ => (st, "bad-op")

def main : IO Unit := stateLoop (none : Option Config) handleW
