import WaVerif.Base.Proto
import WaVerif.Model.C31
/-! C31 driver: executes straight-line integer / memory code with the reference semantics.

* `x  <sig> <prog> <hex args…>`   run `prog` (comma-separated WAT-like tokens, immediates after `=`) on the arguments
* `xm <sig> <prog> <hex args…>`   same on a one-page memory (limit 4 pages) holding the test pattern; appends `#size:fnv32`
* `g <hex deltas…>`               the `memory.grow` probe sequence of the harness on a fresh memory
Output: `ok <hex results>` | `trap <kind>` | `stuck`.  sig = `ii:i` (i = i32, I = i64). -/
open WaVerif WaVerif.Proto WaVerif.Wasm WaVerif.C31

def hexNat (s : String) : Option Nat :=
  if s.isEmpty then none else
  s.toList.foldl (fun acc c => match acc, hexDigit c with
    | some a, some d => some (a * 16 + d)
    | _, _ => none) (some 0)

def natHex (n : Nat) : String := String.ofList (Nat.toDigits 16 n)

def binK : String → Option BinK
  | "add" => some .add | "sub" => some .sub | "mul" => some .mul | "div_s" => some .div_s | "div_u" => some .div_u
  | "rem_s" => some .rem_s | "rem_u" => some .rem_u | "and" => some .and | "or" => some .or | "xor" => some .xor
  | "shl" => some .shl | "shr_s" => some .shr_s | "shr_u" => some .shr_u | "rotl" => some .rotl | "rotr" => some .rotr
  | _ => none

def relK : String → Option RelK
  | "eq" => some .eq | "ne" => some .ne | "lt_s" => some .lt_s | "lt_u" => some .lt_u | "gt_s" => some .gt_s | "gt_u" => some .gt_u
  | "le_s" => some .le_s | "le_u" => some .le_u | "ge_s" => some .ge_s | "ge_u" => some .ge_u
  | _ => none

def unK : String → Option UnK
  | "clz" => some .clz | "ctz" => some .ctz | "popcnt" => some .popcnt
  | _ => none

def tyOf : String → Option Ty
  | "i32" => some .i32 | "i64" => some .i64 | _ => none

/-- `load`, `load8_s`, … → (bytes (0 = full width), signed) -/
def loadKind : String → Option (Nat × Bool)
  | "load" => some (0, false) | "load8_s" => some (1, true) | "load8_u" => some (1, false)
  | "load16_s" => some (2, true) | "load16_u" => some (2, false) | "load32_s" => some (4, true) | "load32_u" => some (4, false)
  | _ => none

def storeKind : String → Option Nat
  | "store" => some 0 | "store8" => some 1 | "store16" => some 2 | "store32" => some 4
  | _ => none

def parseInstr (tok : String) : Option C31.Instr :=
  let (name, imm) := match tok.splitOn "=" with
    | [a, b] => (a, b.toNat?)
    | _ => (tok, none)
  match name with
  | "select" => some .select
  | "drop" => some (.num .drop)
  | "memory.size" => some .memSize
  | "memory.grow" => some .memGrow
  | "memory.fill" => some .memFill
  | "memory.copy" => some .memCopy
  | "local.get" => imm.map fun k => .num (.localGet k)
  | "i32.wrap_i64" => some (.num .wrap_i64)
  | "i64.extend_i32_s" => some (.num .extend_i32_s)
  | "i64.extend_i32_u" => some (.num .extend_i32_u)
  | "i32.const" => imm.map fun k => .num (.const32 (BitVec.ofNat 32 k))
  | "i64.const" => imm.map fun k => .num (.const64 (BitVec.ofNat 64 k))
  | _ =>
    match name.splitOn "." with
    | [t, op] => do
      let ty ← tyOf t
      if op = "eqz" then some (.num (.eqz ty))
      else match binK op, relK op, unK op, loadKind op, storeKind op with
        | some k, _, _, _, _ => some (.num (.bin ty k))
        | _, some k, _, _, _ => some (.num (.rel ty k))
        | _, _, some k, _, _ => some (.num (.un ty k))
        | _, _, _, some (n, sx), _ => some (.load ty (if n = 0 then bits ty / 8 else n) sx (imm.getD 0))
        | _, _, _, _, some n => some (.store ty (if n = 0 then bits ty / 8 else n) (imm.getD 0))
        | _, _, _, _, _ => none
    | _ => none

def parseProg (s : String) : Option (List C31.Instr) := (s.splitOn ",").mapM parseInstr

def parseArgs (sig : List Char) (args : List String) : Option (List Val) :=
  match sig, args with
  | [], [] => some []
  | 'i' :: cs, a :: as => do let n ← hexNat a; let r ← parseArgs cs as; some (.i32 (BitVec.ofNat 32 n) :: r)
  | 'I' :: cs, a :: as => do let n ← hexNat a; let r ← parseArgs cs as; some (.i64 (BitVec.ofNat 64 n) :: r)
  | _, _ => none

def patternByte (i : Nat) : BitVec 8 := BitVec.ofNat 8 (i * 7 + (i >>> 8) * 13 + 1)

def patternMem : Mem := { bytes := Array.ofFn (n := pageSize) fun i => patternByte i.val, maxPages := 4 }
def zeroMem : Mem := { bytes := Array.replicate pageSize 0, maxPages := 4 }

def fnv32 (b : Array (BitVec 8)) : UInt32 :=
  b.foldl (fun h x => (h ^^^ UInt32.ofNat x.toNat) * 16777619) 0x811c9dc5

def pad8 (s : String) : String := String.ofList (List.replicate (8 - s.length) '0') ++ s

def memTag (m : Mem) : String := s!"#{m.size}:{pad8 (natHex (fnv32 m.bytes).toNat)}"

def showTrap : TrapK → String
  | .div0 => "div0" | .ovf => "ovf" | .oob => "oob"

def showVals (st : List Val) : String :=
  st.reverse.foldl (fun acc v => acc ++ " " ++ natHex (valNat v)) "ok"

def splitSig (sig : String) : List Char × List Char :=
  match sig.splitOn ":" with
  | [p, r] => (p.toList, r.toList)
  | _ => ([], [])

def sigTy : Char → Ty
  | 'I' => .i64
  | _ => .i32

/-- run and also validate: the program must type-check against the declared signature -/
def runProg (sig prog : String) (args : List String) (m : Mem) : String × Mem :=
  let (ps, rs) := splitSig sig
  match parseProg prog, parseArgs ps args with
  | some code, some loc =>
    if tyExec (ps.map sigTy) code [] != some (rs.reverse.map sigTy) then ("ill-typed", m) else
    match exec loc code ([], m) with
    | .ok (st, m') => (showVals st, m')
    | .trap k => ("trap " ++ showTrap k, m)
    | .stuck => ("stuck", m)
  | none, _ => ("no-parse-prog", m)
  | _, none => ("bad-args", m)

def call1 (prog : String) (sig : String) (args : List Nat) (m : Mem) : String × Mem :=
  runProg sig prog (args.map natHex) m

def growSeq (ds : List Nat) : String :=
  let rec go (ds : List Nat) (m : Mem) (acc : String) : String :=
    match ds with
    | [] => acc
    | d :: rest =>
      let (r1, m) := call1 "local.get=0,memory.grow" "i:i" [d] m
      let (r2, m) := call1 "memory.size" ":i" [] m
      let pages := m.pages
      let acc := acc ++ " [" ++ r1 ++ " " ++ r2
      let (acc, m) :=
        if pages > 0 then
          let (r3, m) := call1 "local.get=0,local.get=1,i32.store8=0" "ii:" [(pages * pageSize + 4294967295) % 4294967296, 0xab] m
          let (r4, m) := call1 "local.get=0,i32.load8_u=0" "i:i" [(pages * pageSize + 4294967295) % 4294967296] m
          (acc ++ " " ++ r3 ++ " " ++ r4, m)
        else (acc, m)
      let (r5, m) := call1 "local.get=0,local.get=1,i32.store8=0" "ii:" [pages * pageSize % 4294967296, 0xcd] m
      let (r6, m) := call1 "local.get=0,i32.load8_u=1" "i:i" [(pages * pageSize + 4294967295) % 4294967296] m
      go rest m (acc ++ " " ++ r5 ++ " " ++ r6 ++ " " ++ memTag m ++ "]")
  go ds zeroMem "g"

def handle (line : String) : String :=
  match words line with
  | "x" :: sig :: prog :: args => (runProg sig prog args zeroMem).1
  | "xm" :: sig :: prog :: args =>
    let (r, m) := runProg sig prog args patternMem
    r ++ " " ++ memTag m
  | "g" :: ds =>
    match ds.mapM hexNat with
    | some ds => growSeq ds
    | none => "bad-op"
  | _ => "bad-op"

def main : IO Unit := lineLoop handle
