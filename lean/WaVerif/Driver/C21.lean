import WaVerif.Base.Proto
import WaVerif.Model.C21
import WaVerif.Gen.C21Filter
open WaVerif WaVerif.Proto WaVerif.C21

/-! Line protocol (same ops as harness/c21):
  reset
  open   <uri> <hex>
  change <uri> <chg>,<chg>,...|-      chg = F:<rangeLength>:<hex> | R:<sl>:<sc>:<el>:<ec>:<rangeLength>:<hex>
  posoff <hex> <line> <char>
  apply  <hex stored> <chg>,...
model-only ops (compared with the python client):
  client <hex doc> <sl> <sc> <el> <ec> <hex text>     -> ok <hex> | invalid   (simple-rule client)
  lspclient ...                                       -> same with the LSP three-terminator client
  classify <hex doc> <line> <char>                    -> valid <idx> | mid | aftercr | none , lsp=<idx|none> nolonecr=<0|1>
-/

def perr : PErr → String
  | .lineRange => "line"
  | .eofCol => "eof"
  | .eolCol => "eol"
  | .badUtf8 => "utf8"

def aerr : AErr → String
  | .pos e => perr e
  | .nilRange => "nilrange"
  | .reversed => "reversed"
  | .noChanges => "nochanges"

def parseChange (s : String) : Option SChange :=
  match s.splitOn ":" with
  | ["F", rl, h] => do
    let rl ← parseNat rl
    let t ← parseHex h
    some { range := none, rangeLength := rl, text := t }
  | ["R", a, b, c, d, rl, h] => do
    let a ← parseNat a; let b ← parseNat b; let c ← parseNat c; let d ← parseNat d
    let rl ← parseNat rl
    let t ← parseHex h
    some { range := some ⟨⟨a, b⟩, ⟨c, d⟩⟩, rangeLength := rl, text := t }
  | _ => none

def parseChanges (s : String) : Option (List SChange) :=
  if s = "-" then some [] else (s.splitOn ",").mapM parseChange

abbrev St := List (String × List Nat)

def lookup (st : St) (uri : String) : List Nat := (st.lookup uri).getD []
def store (st : St) (uri : String) (v : List Nat) : St := (uri, v) :: st.filter (·.1 ≠ uri)

/-- the URI filter of `DidChange`, regenerated from /repo (Gen/C21Filter.lean) -/
def passesFilter (uri : String) : Bool :=
  match WaVerif.C21.Gen.didChangeSuffixes with
  | none => true
  | some sufs => sufs.any (fun s => uri.endsWith s)

def optIdx : Option Nat → String
  | some i => toString i
  | none => "none"

def clientOp (idx : List Char → Pos → Option Nat) (d a b c e t : String) : String :=
  match parseHex d, parseNat a, parseNat b, parseNat c, parseNat e, parseHex t with
  | some d, some a, some b, some c, some e, some t =>
    match decodeAll d.length d, decodeAll t.length t with
    | some doc, some txt =>
      match clientApplyRange idx doc ⟨⟨a, b⟩, ⟨c, e⟩⟩ txt with
      | some r => "ok " ++ toHex (utf8 r)
      | none => "invalid"
    | _, _ => "bad-utf8"
  | _, _, _, _, _, _ => "bad-op"

def step (st : St) (line : String) : St × String :=
  match words line with
  | ["reset"] => ([], "ok")
  | ["open", uri, h] =>
    match parseHex h with
    | some t => let st' := store st uri (didOpen t); (st', "ok " ++ toHex (lookup st' uri))
    | none => (st, "bad-op")
  | ["change", uri, cs] =>
    match parseChanges cs with
    | some cs =>
      let (t, e) := didChange (passesFilter uri) (lookup st uri) cs
      let st' := store st uri t
      (st', (match e with | none => "ok" | some e => "err " ++ aerr e) ++ " " ++ toHex t)
    | none => (st, "bad-op")
  | ["posoff", h, l, c] =>
    match parseHex h, parseNat l, parseNat c with
    | some bs, some l, some c =>
      (st, match positionOffset bs l c with | .ok n => s!"ok {n}" | .error e => "err " ++ perr e)
    | _, _, _ => (st, "bad-op")
  | ["apply", h, cs] =>
    match parseHex h, parseChanges cs with
    | some bs, some cs =>
      (st, match applyIncremental bs cs with | .ok t => "ok " ++ toHex t | .error e => "err " ++ aerr e)
    | _, _ => (st, "bad-op")
  | ["client", d, a, b, c, e, t] => (st, clientOp charIndex d a b c e t)
  | ["lspclient", d, a, b, c, e, t] => (st, clientOp lspCharIndex d a b c e t)
  | ["classify", d, l, c] =>
    match parseHex d, parseNat l, parseNat c with
    | some d, some l, some c =>
      match decodeAll d.length d with
      | some doc =>
        let p : Pos := ⟨l, c⟩
        let cls := match charIndex doc p with
          | some i => s!"valid {i}"
          | none => if midSurrogate doc p then "mid" else if afterCR doc p then "aftercr" else "none"
        (st, s!"{cls} lsp={optIdx (lspCharIndex doc p)} nolonecr={if NoLoneCR doc then 1 else 0}")
      | none => (st, "bad-utf8")
    | _, _, _ => (st, "bad-op")
  | _ => (st, "bad-op")

def main : IO Unit := stateLoop ([] : St) step
