import WaVerif.Base.Proto
import WaVerif.Model.C19
open WaVerif WaVerif.Proto WaVerif.C19

def showRes {α} [ToString α] : Res α → String
  | .ok (v, n) => s!"ok {v} {n}"
  | .error .eof => "err eof"
  | .error .overflow => "err overflow"

def handle (line : String) : String :=
  match words line with
  | ["encu", v] => match parseNat v with
    | some n => toHex (encU n)
    | none => "bad-op"
  | ["encs", v] => match parseInt v with
    | some n => toHex (encS n)
    | none => "bad-op"
  | [op, h] => match parseHex h with
    | none => "bad-op"
    | some bs =>
      if op = "decu32" then showRes (decodeU32 bs)
      else if op = "decs32" then showRes (decodeS32 bs)
      else if op = "decs33" then showRes (decodeS33 bs)
      else if op = "decs64" then showRes (decodeS64 bs)
      else "bad-op"
  | _ => "bad-op"

def main : IO Unit := lineLoop handle
