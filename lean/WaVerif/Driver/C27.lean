import WaVerif.Base.Proto
import WaVerif.Model.C27
open WaVerif WaVerif.Proto WaVerif.C27

/-- names travel hex-encoded, joined by ','.
    `sort <names>`   -> the names in the model's order (`sortBy bytesLe`), i.e. what `compile` emits
    `set <names> <name>` -> membership after order-insensitive set collection
    `any <bits>` / `count <nats>` -> the two other folds -/
def parseNames (s : String) : Option (List (List Nat)) :=
  if s = "-" then some [] else (s.splitOn ",").mapM parseHex

def showNames (l : List (List Nat)) : String :=
  if l.isEmpty then "-" else ",".intercalate (l.map toHex)

def handle (line : String) : String :=
  match words line with
  | ["sort", ns] => match parseNames ns with
    | some l => showNames (compile bytesLe id id l)
    | none => "bad-op"
  | ["unsorted", ns] => match parseNames ns with
    | some l => showNames (compileUnsorted id l)
    | none => "bad-op"
  | ["set", ns, k] => match parseNames ns, parseHex k with
    | some l, some k => if memSet (collectSet id l) k then "true" else "false"
    | _, _ => "bad-op"
  | ["count", ns] => match parseNames ns with
    | some l => toString (countBy List.length l)
    | none => "bad-op"
  | _ => "bad-op"

def main : IO Unit := lineLoop handle
