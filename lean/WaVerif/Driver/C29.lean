import WaVerif.Base.Proto
import WaVerif.Model.C29
import WaVerif.Gen.C29
open WaVerif WaVerif.Proto WaVerif.C29

/-! line protocol (model of `wa run`, table = `cfgCurrent` regenerated from the source):
`status <wa|wat|wasm> <unreadable|compile|module|normal|exit|panic|trap> [n]`
  → `status=<s> out=<0|1> after=<0|1> expected=<0|1>`   (after: is code after the terminating action run)   (expected: does the property's predicate hold for s)
`sound` → `sound=<true|false> pinned=<true|false>` -/

def parseInput : String → Option Input
  | "wa" => some .wa | "wat" => some .wat | "wasm" => some .wasm | _ => none

def parseOutcome : String → Option Nat → Option Outcome
  | "unreadable", _ => some .unreadable
  | "compile", _ => some .compileError
  | "module", _ => some .moduleError
  | "normal", _ => some .normal
  | "exit", some n => some (.exit n)
  | "panic", _ => some .panic
  | "trap", _ => some .trap
  | _, _ => none

def b01 (b : Bool) : String := if b then "1" else "0"

def answer (inp : Input) (o : Outcome) : String :=
  let s := status cfgCurrent inp o
  s!"status={s} out={b01 (showsOutput inp o)} after={b01 (runsPastEnd inp o)} expected={b01 (decide (Expected o s))}"

def handle (line : String) : String :=
  match words line with
  | ["sound"] => s!"sound={Sound cfgCurrent} pinned={decide (cfgCurrent = cfgPinned)}"
  | ["status", i, o] => match parseInput i, parseOutcome o none with
    | some inp, some oc => answer inp oc
    | _, _ => "bad-op"
  | ["status", i, o, n] => match parseInput i, parseOutcome o (parseNat n) with
    | some inp, some oc => answer inp oc
    | _, _ => "bad-op"
  | _ => "bad-op"

def main : IO Unit := lineLoop handle
