import WaVerif.Base.Proto
import WaVerif.Model.C09
open WaVerif WaVerif.Proto WaVerif.C09

def showList (xs : List Nat) : String := " ".intercalate (xs.map toString)

def handleC09 (line : String) : String :=
  match words line with
  | "norm" :: _ => normLine ((line.drop 5).toString)
  | ["kw", t] => match t.toNat? with
    | some n => match kwImage n with
      | some img => "img " ++ showList img
      | none => "none"
    | none => "bad-op"
  | ["ident", h] => normIdentHex h
  | ["props"] =>
    s!"inj={kwMapInjective} cover={kwMapCoversShared} total={kwMapTotal} lookup={lookupSeparatesModes && lookupRowsComplete} " ++
    s!"texts={keywordTextsDistinct} punct={punctModeIndependent} sel={selectorIsPeriod} clauses={consumerClausesClosed} bclauses={builtinClausesClosed} " ++
    s!"uinj={universeInjective} utotal={universeTotal} uone={universeExactlyOne}"
  | ["mismatch"] =>
    let nm (i : Nat) : String := (Gen.names[i]?).getD "?"
    "doc=" ++ ",".intercalate (docPairsMismatch.map fun (z, e) => nm z ++ "/" ++ nm e) ++
    " backend=" ++ ",".intercalate (backendPairsMismatch.map fun (e, z) => nm e ++ "/" ++ nm z) ++
    " wzen=" ++ ",".intercalate (wzEnglishMismatch.map nm)
  | _ => "bad-op"

def main : IO Unit := lineLoop handleC09
