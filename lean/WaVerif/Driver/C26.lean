import WaVerif.Base.Proto
import WaVerif.Model.C26
open WaVerif WaVerif.Proto WaVerif.C26 WaVerif.Stream

def parseSplits (s : String) : Option (List Nat) :=
  (s.splitOn ",").mapM (fun x => x.toNat?)

def hexList (ps : List (List Nat)) : String :=
  if ps.isEmpty then "none" else ",".intercalate (ps.map toHex)

def errName : Err → String
  | .eof => "eof" | .ueof => "ueof" | .delim => "delim" | .hdr => "hdr" | .range => "range" | .toolong => "toolong"

def showAll (splits : List Nat) (cap : Nat) (stream : List Nat) : String :=
  let cs := chunkBy splits stream.length 0 stream
  let (out, e) := readAllBaseC cap (stream.length + 1) (Buffered.ofChunks cs)
  s!"out={hexList out} end={errName e}"

def bytesToString (bs : List Nat) : String :=
  (String.fromUTF8? (ByteArray.mk (bs.map (·.toUInt8)).toArray)).getD "<invalid utf8>"

def showDecoded : Decoded → String
  | .ok t => "ok " ++ bytesToString t
  | .errType => "err ProtocolMessage.type"
  | .errRequest => "err Request.command"
  | .errResponse => "err Response.command"
  | .errEvent => "err Event.event"

def handle (line : String) : String :=
  match words line with
  | "base" :: sp :: bs :: hs =>
    match parseSplits sp, bs.toNat?, hs.mapM parseHex with
    | some splits, some cap, some cs =>
      let stream := cs.flatMap writeBase
      s!"stream={toHex stream} " ++ showAll splits cap stream
    | _, _, _ => "bad-op"
  | ["rawbase", sp, bs, h] =>
    match parseSplits sp, bs.toNat?, parseHex h with
    | some splits, some cap, some stream => showAll splits cap stream
    | _, _, _ => "bad-op"
  | ["basebig", _, ns] =>
    match ns.toNat? with
    | some n =>
      let hdr := writeHeader n
      -- the stream is `hdr ++ content` with `content.length = n`: `readBase` = `readLen` on the
      -- header, then `takeN n content = content`
      match readLen hdr with
      | .ok (v, []) => if v = n then s!"hdr={toHex hdr} ok {v} same" else s!"hdr={toHex hdr} MODEL-LENGTH {v}"
      | .ok (_, _) => "MODEL-LEFTOVER"
      | .error e => s!"hdr={toHex hdr} err {errName e}"
    | none => "bad-op"
  | ["kind", t, c, e, s] =>
    match parseHex t, parseHex c, parseHex e with
    | some t, some c, some e => showDecoded (decodeKind t c e (s = "t"))
    | _, _, _ => "bad-op"
  | _ => "bad-op"

def main : IO Unit := lineLoop handle
