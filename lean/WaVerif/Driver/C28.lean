import WaVerif.Base.Proto
import WaVerif.Model.C28
open WaVerif WaVerif.Proto WaVerif.C28

/-- `run <0|1 locked> <turns>` with turns like `0b,1b,0r,0f` -> the read log `reader:seen,...` (`-` empty; seen `n` = none) -/
def parseTurn (t : String) : Option (Sess × Act) :=
  match t.toList.reverse with
  | c :: ds =>
    match (String.ofList ds.reverse).toNat? with
    | some s =>
      if c = 'b' then some (s, .begin) else if c = 'r' then some (s, .read)
      else if c = 'f' then some (s, .finish) else if c = 'x' then some (s, .crash) else none
    | none => none
  | [] => none

def showLog (l : List (Sess × Option Sess)) : String :=
  if l.isEmpty then "-" else
  ",".intercalate (l.map fun e => toString e.1 ++ ":" ++ (match e.2 with | some s => toString s | none => "n"))

def handle (line : String) : String :=
  match words line with
  | ["run", lk, ts] =>
    match (if ts = "-" then some [] else (ts.splitOn ",").mapM parseTurn) with
    | some sched => showLog (run ⟨lk = "1", true⟩ sched).log
    | none => "bad-op"
  | _ => "bad-op"

def main : IO Unit := lineLoop handle
