import WaVerif.Base.Proto
import WaVerif.Model.C05
/-!
Driver for C05 (`wamodel_c05`).

* `cfg align <mnemonic>:<parser default>:<printer omits> …`  — the alignment table extracted from
  the real parser / printer (checks/c05.py); a memory instruction's `align=` is left out exactly when
  the alignment equals the parser's default AND the real printer leaves that value out too.
* `mod <canonical dump words>` — the dump of a real `ast.Module` (harness/c05).  Answer:
  `ok rt=<0|1> | <token words>`: the model's `print` of that module, rendered in the format of the
  harness's `tokens` op, and whether `parse (print m)` gives back a module that prints the same;
  or `outside <reason>` when the module uses something the model grammar does not cover.
* `toks <token words>` — run the model's `parse` on a token stream delivered by the real scanner;
  answer `parsed <token words of print (parse ts)>` or `noparse`.
-/
open WaVerif WaVerif.Proto WaVerif.C05


def hexStr (h : String) : Except String String :=
  match parseHex h with
  | some bs => .ok (String.fromUTF8! (ByteArray.mk (bs.map (·.toUInt8)).toArray))
  | none => .error s!"bad hex {h}"

def allDigits (s : String) : Bool := !s.isEmpty && s.toList.all Char.isDigit

/-- `-` = absent / empty, `$hex` = name -/
def rdName : List String → Except String (Option String × List String)
  | "-" :: r => .ok (none, r)
  | w :: r =>
    if w.startsWith "$" then do
      let s ← hexStr (w.drop 1).toString
      if s.isEmpty then .ok (none, r) else .ok (some s, r)
    else .error s!"name expected, got {w}"
  | [] => .error "eof"

/-- a definition's name: must print as `$name` -/
def rdDefName (ws : List String) : Except String (Option String × List String) := do
  let (n, r) ← rdName ws
  match n with
  | some s => if (s.front).isDigit then .error "outside numeric-looking-identifier" else .ok (n, r)
  | none => .ok (none, r)

/-- a reference: `$name` or a number; the empty string is what the real printer cannot print -/
def rdIdx (ws : List String) : Except String (Idx × List String) := do
  let (n, r) ← rdName ws
  match n with
  | none => .error "outside empty-name-reference"
  | some s =>
    if allDigits s then .ok (.num s.toNat!, r)
    else if (s.front).isDigit then .error "outside numeric-looking-identifier"
    else .ok (.name s, r)

def rdNat : List String → Except String (Nat × List String)
  | w :: r => match w.toNat? with
    | some n => .ok (n, r)
    | none => .error s!"nat expected, got {w}"
  | [] => .error "eof"

def rdInt : List String → Except String (Int × List String)
  | w :: r => match w.toInt? with
    | some n => .ok (n, r)
    | none => .error s!"int expected, got {w}"
  | [] => .error "eof"

def rdTy : List String → Except String (ValTy × List String)
  | w :: r => match ValTy.ofKw w with
    | some t => .ok (t, r)
    | none => .error s!"type expected, got {w}"
  | [] => .error "eof"

def rdStr : List String → Except String (List Nat × List String)
  | w :: r =>
    if w.startsWith "s" then
      match parseHex (if w.length = 1 then "-" else (w.drop 1).toString) with
      | some bs => .ok (bs, r)
      | none => .error "bad string"
    else .error s!"string expected, got {w}"
  | [] => .error "eof"

def rdMany {α : Type} (f : List String → Except String (α × List String)) : Nat → List String → Except String (List α × List String)
  | 0, ws => .ok ([], ws)
  | n + 1, ws => do
    let (x, r) ← f ws
    let (xs, r') ← rdMany f n r
    .ok (x :: xs, r')

def rdCounted {α : Type} (f : List String → Except String (α × List String)) (ws : List String) : Except String (List α × List String) := do
  let (n, r) ← rdNat ws
  rdMany f n r

def rdField (ws : List String) : Except String (Field × List String) := do
  let (n, r) ← rdDefName ws
  let (t, r) ← rdTy r
  .ok (⟨n, t⟩, r)

def optMax (n : Nat) : Option Nat := if n = 0 then none else some n

/-- alignment table: mnemonic ↦ (parser default, value the real printer leaves out) -/
abbrev AlignTab := List (String × Nat × Nat)

def memargS (tab : AlignTab) (op : String) (align off : Nat) : List SExp :=
  let offS := if off = 0 then [] else [K "offset", K "=", A (.int off)]
  let skip := match tab.lookup op with
    | some (d, o) => d = o && align = d
    | none => false
  offS ++ (if skip then [] else [K "align", K "=", A (.int align)])

def blockArgs (label : Option String) (res : List ValTy) : List SExp :=
  optName label ++ resultsS res

def isSub (pat s : String) : Bool := (s.splitOn pat).length > 1

mutual
partial def rdInstr (tab : AlignTab) : List String → Except String (List Instr × List String)
  | [] => .error "eof"
  | op :: ws =>
    if op = "block" || op = "loop" then do
      let (lb, r) ← rdDefName ws
      let (res, r) ← rdCounted rdTy r
      let (body, r) ← rdInstrs tab r
      .ok (⟨op, blockArgs lb res⟩ :: body ++ [⟨"end", []⟩], r)
    else if op = "if" then do
      let (lb, r) ← rdDefName ws
      let (res, r) ← rdCounted rdTy r
      let (body, r) ← rdInstrs tab r
      let (els, r) ← rdInstrs tab r
      let elsS := if els.isEmpty then [] else ⟨"else", []⟩ :: els
      .ok (⟨op, blockArgs lb res⟩ :: body ++ elsS ++ [⟨"end", []⟩], r)
    else if op = "br" || op = "br_if" || op = "call" || op = "local.get" || op = "local.set" || op = "local.tee"
         || op = "global.get" || op = "global.set" || op = "table.get" || op = "table.set" then do
      let (i, r) ← rdIdx ws
      .ok ([⟨op, [i.toS]⟩], r)
    else if op = "br_table" then do
      let (is, r) ← rdCounted rdIdx ws
      .ok ([⟨op, is.map Idx.toS⟩], r)
    else if op = "call_indirect" then do
      let (t, r) ← rdName ws
      let (ty, r) ← rdIdx r
      let tS ← match t with
        | none => pure []
        | some s => if allDigits s then pure [A (.int s.toNat!)]
                    else if (s.front).isDigit then throw "outside numeric-looking-identifier" else pure [A (.id s)]
      .ok ([⟨op, tS ++ [L [K "type", ty.toS]]⟩], r)
    else if op = "select" then
      match ws with
      | "-" :: r => .ok ([⟨op, []⟩], r)
      | _ => do
        let (t, r) ← rdTy ws
        .ok ([⟨op, [L [K "result", t.toS]]⟩], r)
    else if isSub "load" op || isSub "store" op then do
      let (al, r) ← rdNat ws
      let (off, r) ← rdNat r
      .ok ([⟨op, memargS tab op al off⟩], r)
    else if op = "memory.init" || op = "i32.const" || op = "i64.const" then do
      let (v, r) ← rdInt ws
      .ok ([⟨op, [A (.int v)]⟩], r)
    else if op = "f32.const" || op = "f64.const" then
      match ws with
      | w :: r =>
        match (w.drop 1).toString.toNat? with
        | some b => .ok ([⟨op, [A (.flt (if op = "f32.const" then 32 else 64) b)]⟩], r)
        | none => .error "bad float bits"
      | [] => .error "eof"
    else .ok ([⟨op, []⟩], ws)
partial def rdInstrs (tab : AlignTab) (ws : List String) : Except String (List Instr × List String) := do
  let (n, r) ← rdNat ws
  let rec go : Nat → List String → Except String (List Instr × List String)
    | 0, r => .ok ([], r)
    | k + 1, r => do
      let (a, r) ← rdInstr tab r
      let (b, r) ← go k r
      .ok (a ++ b, r)
  go n r
end

def signedOf (bits : Nat) (w : Nat) : Int := if bits < 2 ^ (w - 1) then bits else (bits : Int) - 2 ^ w

partial def rdModule (tab : AlignTab) (ws : List String) (m : Module) : Except String Module :=
  match ws with
  | [] => .error "missing Z"
  | "Z" :: _ => .ok { m with imports := m.imports.reverse, exports := m.exports.reverse, types := m.types.reverse,
                             globals := m.globals.reverse, funcs := m.funcs.reverse, data := m.data.reverse,
                             elems := m.elems.reverse }
  | "M" :: r => do
    let (n, r) ← rdDefName r
    rdModule tab r { m with name := n }
  | "T" :: r => do
    let (n, r) ← rdDefName r
    let (ps, r) ← rdCounted rdField r
    let (rs, r) ← rdCounted rdTy r
    rdModule tab r { m with types := ⟨n, ⟨ps.map (·.ty), rs⟩⟩ :: m.types }
  | "I" :: "F" :: r => do
    let (mo, r) ← rdStr r
    let (nm, r) ← rdStr r
    let (id, r) ← rdIdx r
    let (ps, r) ← rdCounted rdField r
    let (rs, r) ← rdCounted rdTy r
    rdModule tab r { m with imports := .func mo nm id ⟨ps.map (·.ty), rs⟩ :: m.imports }
  | "I" :: "G" :: r => do
    let (mo, r) ← rdStr r
    let (nm, r) ← rdStr r
    let (id, r) ← rdIdx r
    let (t, r) ← rdTy r
    rdModule tab r { m with imports := .global mo nm id t :: m.imports }
  | "I" :: "M" :: r => do
    let (mo, r) ← rdStr r
    let (nm, r) ← rdStr r
    let (id, r) ← rdName r
    let (mn, r) ← rdNat r
    let (mx, r) ← rdNat r
    rdModule tab r { m with imports := .memory mo nm id mn (optMax mx) :: m.imports }
  | "I" :: "B" :: _ => .error "outside import-table"
  | "E" :: k :: r => do
    let (nm, r) ← rdStr r
    let (ix, r) ← rdIdx r
    if k = "f" then rdModule tab r m     -- inline function export: printed with the function
    else
      let kd ← match k with
        | "F" => pure ExKind.func | "G" => pure ExKind.global | "M" => pure ExKind.memory | "B" => pure ExKind.table
        | _ => throw "bad export kind"
      rdModule tab r { m with exports := ⟨nm, kd, ix⟩ :: m.exports }
  | "Y" :: r => do
    let (n, r) ← rdDefName r
    match r with
    | a :: r => do
      let (mn, r) ← rdNat r
      let (mx, r) ← rdNat r
      rdModule tab r { m with memory := some ⟨n, a = "i64", mn, optMax mx⟩ }
    | [] => .error "eof"
  | "B" :: r => do
    let (n, r) ← rdDefName r
    let (mn, r) ← rdNat r
    let (mx, r) ← rdNat r
    rdModule tab (r.drop 1) { m with table := some ⟨n, mn, optMax mx⟩ }
  | "G" :: r => do
    let (n, r) ← rdDefName r
    let (_, r) ← rdName r
    let (mu, r) ← rdNat r
    let (t, r) ← rdTy r
    let (b, r) ← rdNat r
    let v : Num := match t with
      | .i32 => .int (signedOf b 32)
      | .i64 => .int (signedOf b 64)
      | .f32 => .flt 32 b
      | .f64 => .flt 64 b
    rdModule tab r { m with globals := ⟨n, mu = 1, t, v⟩ :: m.globals }
  | "F" :: r => do
    let (n, r) ← rdDefName r
    let nm ← match n with
      | some s => pure s
      | none => throw "outside unnamed-func"
    let (ex, r) ← rdName r
    let (ps, r) ← rdCounted rdField r
    let (rs, r) ← rdCounted rdTy r
    let (ls, r) ← rdCounted rdField r
    let (body, r) ← rdInstrs tab r
    rdModule tab r { m with funcs := ⟨nm, ex.map (fun s => s.toUTF8.toList.map (·.toNat)), ps, rs, ls, body⟩ :: m.funcs }
  | "D" :: r => do
    let (n, r) ← rdDefName r
    let (off, r) ← rdNat r
    match r with
    | h :: r =>
      match parseHex h with
      | some bs => rdModule tab r { m with data := ⟨n, off, bs⟩ :: m.data }
      | none => .error "bad data hex"
    | [] => .error "eof"
  | "L" :: r => do
    let (_, r) ← rdName r
    let (off, r) ← rdNat r
    let (fs, r) ← rdCounted rdIdx r
    rdModule tab r { m with elems := ⟨off, fs⟩ :: m.elems }
  | "S" :: r => do
    let (i, r) ← rdIdx r
    rdModule tab r { m with start := some i }
  | w :: _ => .error s!"bad record {w}"

def hexOfString (s : String) : String :=
  let bs := s.toUTF8.toList.map (·.toNat)
  if bs.isEmpty then "" else toHex bs

def renderTok : Tok → String
  | .lp => "("
  | .rp => ")"
  | .atom (.kw s) => "k" ++ s
  | .atom (.op s) => "k" ++ s
  | .atom (.id s) => "$" ++ hexOfString s
  | .atom (.str b) => "s" ++ (if b.isEmpty then "" else toHex b)
  | .atom (.int i) => "n" ++ toString i
  | .atom (.flt w b) => s!"f{w}:{b}"

def render (ts : List Tok) : String := " ".intercalate (ts.map renderTok)

/-- token words of the real scanner → model tokens (`k<word>` is a mnemonic iff `isIns`) -/
def isMnemonic (s : String) : Bool :=
  isSub "." s || ["unreachable", "nop", "block", "loop", "if", "else", "end", "br", "br_if", "br_table", "return",
    "call", "call_indirect", "drop", "select"].contains s

def tokOfWord (w : String) : Option Tok :=
  if w = "(" then some .lp else if w = ")" then some .rp
  else if w.startsWith "k" then
    let s := (w.drop 1).toString
    some (.atom (if isMnemonic s then .op s else .kw s))
  else if w.startsWith "$" then
    match hexStr (w.drop 1).toString with
    | .ok s => some (.atom (.id s))
    | .error _ => none
  else if w.startsWith "s" then
    (parseHex (if w.length = 1 then "-" else (w.drop 1).toString)).map (fun b => .atom (.str b))
  else if w.startsWith "n" then ((w.drop 1).toString.toInt?).map (fun i => .atom (.int i))
  else if w.startsWith "f32:" then ((w.drop 4).toString.toNat?).map (fun b => .atom (.flt 32 b))
  else if w.startsWith "f64:" then ((w.drop 4).toString.toNat?).map (fun b => .atom (.flt 64 b))
  else none

def handle (tab : AlignTab) (line : String) : AlignTab × String :=
  match words line with
  | "cfg" :: "align" :: rest =>
    let t := rest.filterMap fun w =>
      match w.splitOn ":" with
      | [a, b, c] => match b.toNat?, c.toNat? with
        | some x, some y => some (a, x, y)
        | _, _ => none
      | _ => none
    (t, s!"ok {t.length}")
  | "mod" :: ws =>
    match rdModule tab ws (Module.empty none) with
    | .error e => (tab, if e.startsWith "outside" then e else "bad-dump " ++ e)
    | .ok m =>
      let ts := print m
      let rt := match parse ts with
        | some m' => if print m' = ts then "1" else "0"
        | none => "0"
      (tab, s!"ok rt={rt} | {render ts}")
  | "toks" :: ws =>
    match mapOpt tokOfWord ws with
    | none => (tab, "noparse bad-token")
    | some ts =>
      match parse ts with
      | some m => (tab, "parsed " ++ render (print m))
      | none => (tab, "noparse")
  | _ => (tab, "bad-op")

def main : IO Unit := stateLoop ([] : AlignTab) handle
