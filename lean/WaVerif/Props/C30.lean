import WaVerif.Model.C30
import WaVerif.Lemmas.C30
import WaVerif.Gen.C30
/-!
# C30 — property theorems (`wa test` verdicts match the tests' contracts)

`PassIffStatement` / `FailStatement` are the two sentences of the property at full strength, for
every suite of test/example functions with any mix of behaviours.  (The only hypothesis, `WF`:
a function that declares an expected panic prints nothing else — the statement does not say what
output before the panic means, and the runner compares the whole stdout.)

Both are FALSE of the current code, for three independent root causes, each with a concrete
witness that the check replays against the real `wa test`:
* the expected-panic comparison is a prefix match (`witnessPrefix`),
* a declaration with no text is stored as the sentinel `?` (`witnessEmptyMeets`, `witnessSentinel`),
* a failing function without expected panic exits early without the `FAIL` line (`witnessAbort`,
  only when the regenerated `cfg` says the early-exit blocks do not print it) — repaired in /repo.

Module state: the theorems quantify over lists of functions whose behaviour is already resolved
(`Fn`, with the flag `fresh` = first function on a fresh module instance); `resolved pkg l` computes
that list from the functions as written (`SFn`: global counter bumped / printed) by threading the
counter and the reloads, and `suite_*` restate the theorems for `run cfg (.fns pkg l)`.  Output
printed during package initialisation belongs to no function: if `RunFunc` lets it leak into the
first function's stdout (`cfg.initOutputLeaks`), a suite that meets every contract is reported
FAIL (`init_output_leak_fails`); `guarded_statement_iff_sound` shows the guarded statement holds
exactly when the early exits print FAIL and init output does not leak.

The `_partial` theorems prove both sentences for every suite whose selected functions avoid the
first two causes (`Guarded`); the FAIL sentence additionally needs the early exits to print FAIL,
which is exactly the parameter regenerated from the source (`guarded_fail_statement_iff`).
-/
namespace WaVerif.C30

def PassIffStatement (cfg : Cfg) : Prop :=
  ∀ (io : Text) (l : List Fn), (∀ f ∈ l, f.selected = true → WF f = true) →
    ((Line.ok ∈ (runList cfg io l).1 ∧ (runList cfg io l).2 = 0) ↔ allMeet l)

def FailStatement (cfg : Cfg) : Prop :=
  ∀ (io : Text) (l : List Fn), (∀ f ∈ l, f.selected = true → WF f = true) → ¬ allMeet l →
    (Line.fail ∈ (runList cfg io l).1 ∧ (runList cfg io l).2 ≠ 0)

/-- both sentences restricted to suites that avoid the prefix-match and sentinel causes; any
package initialisation output `io`, any placement of the `fresh` flags -/
def GuardedStatement (cfg : Cfg) : Prop :=
  ∀ (io : Text) (l : List Fn), (∀ f ∈ l, f.selected = true → Guarded f = true) →
    (((Line.ok ∈ (runList cfg io l).1 ∧ (runList cfg io l).2 = 0) ↔ allMeet l) ∧
     (¬ allMeet l → (Line.fail ∈ (runList cfg io l).1 ∧ (runList cfg io l).2 ≠ 0)))

def CfgSound (cfg : Cfg) : Bool := cfg.testAbortFAIL && cfg.exampleAbortFAIL && !cfg.initOutputLeaks

/-- init output cannot reach any function's captured stdout -/
def NoLeak (cfg : Cfg) (io : Text) : Prop := cfg.initOutputLeaks = false ∨ io = []

/-! ## what holds: the `_partial` theorems -/

theorem allPass_iff_allMeet (cfg : Cfg) (io : Text) (l : List Fn)
    (hg : ∀ f ∈ l, f.selected = true → Guarded f = true) (hl : NoLeak cfg io) :
    (∀ f ∈ l, f.selected = true → (runFn cfg io f).2 = .pass) ↔ allMeet l := by
  have hl' : ∀ f : Fn, cfg.initOutputLeaks = false ∨ io = [] ∨ f.fresh = false := by
    intro f; rcases hl with h | h
    · exact Or.inl h
    · exact Or.inr (Or.inl h)
  constructor
  · intro h f hf hs
    exact (runFn_pass_iff_meets cfg io f (hg f hf hs) (hl' f)).1 (h f hf hs)
  · intro h f hf hs
    exact (runFn_pass_iff_meets cfg io f (hg f hf hs) (hl' f)).2 (h f hf hs)

/-- `ok` and status 0 exactly when every selected function meets its contract -/
theorem pass_iff_all_meet_contract_partial (cfg : Cfg) (io : Text) (l : List Fn)
    (hg : ∀ f ∈ l, f.selected = true → Guarded f = true) (hl : NoLeak cfg io) :
    (Line.ok ∈ (runList cfg io l).1 ∧ (runList cfg io l).2 = 0) ↔ allMeet l := by
  simp only [runList]
  rw [runAll_ok_iff, runAll_status_zero_iff]
  simp only [true_and, and_self]
  exact allPass_iff_allMeet cfg io l hg hl

/-- the printed verdict and the status always agree with each other -/
theorem ok_iff_status_zero (cfg : Cfg) (io : Text) (l : List Fn) :
    Line.ok ∈ (runList cfg io l).1 ↔ (runList cfg io l).2 = 0 := by
  simp only [runList]
  rw [runAll_ok_iff, runAll_status_zero_iff]

/-- a failing function always makes the status non-zero -/
theorem fail_nonzero_partial (cfg : Cfg) (io : Text) (l : List Fn)
    (hg : ∀ f ∈ l, f.selected = true → Guarded f = true) (hl : NoLeak cfg io) (hn : ¬ allMeet l) :
    (runList cfg io l).2 ≠ 0 := by
  intro h0
  apply hn
  have := (runAll_status_zero_iff cfg io l false).1 (by simpa [runList] using h0)
  exact (allPass_iff_allMeet cfg io l hg hl).1 this.2

/-- … and FAIL is printed, provided the early exits that are taken print it -/
theorem fail_prints_FAIL_and_nonzero_partial (cfg : Cfg) (io : Text) (l : List Fn)
    (hg : ∀ f ∈ l, f.selected = true → Guarded f = true) (hl : NoLeak cfg io)
    (ha : ∀ f ∈ l, f.selected = true → Aborts f = true → abortFAIL cfg f = true)
    (hn : ¬ allMeet l) :
    Line.fail ∈ (runList cfg io l).1 ∧ (runList cfg io l).2 ≠ 0 := by
  refine ⟨?_, fail_nonzero_partial cfg io l hg hl hn⟩
  simp only [runList]
  apply runAll_fail_mem cfg io l false ha
  right
  have : ¬ ∀ f ∈ l, f.selected = true → (runFn cfg io f).2 = .pass :=
    fun h => hn ((allPass_iff_allMeet cfg io l hg hl).1 h)
  simpa using this

-- the hypotheses are satisfiable by a non-trivial suite (a failing assert next to a passing example)
def exampleSuite : List Fn :=
  [⟨['T', 'e', 's', 't', 'A'], false, true, .none, ⟨[], .assertFails ['x'] ['a', ':', '1']⟩, true⟩,
   ⟨['E', 'x', 'a', 'm', 'p', 'l', 'e', 'B'], true, true, .output ['3'], ⟨['3'], .returns⟩, false⟩]

example : (∀ f ∈ exampleSuite, f.selected = true → Guarded f = true) ∧ ¬ allMeet exampleSuite ∧
    (∀ f ∈ exampleSuite, f.selected = true → Aborts f = true → abortFAIL cfgRepaired f = true) ∧
    NoLeak cfgRepaired ['i', 'n', 'i', 't'] := by
  refine ⟨by decide, by decide, by decide, Or.inl rfl⟩

/-! ## init output belongs to no function -/

/-- an example that prints `1` and declares `1`, first on a fresh instance of a package whose
initialisation prints `x` -/
def witnessInitLeak : List Fn :=
  [⟨['E', 'x', 'a', 'm', 'p', 'l', 'e', 'L'], true, true, .output ['1'], ⟨['1'], .returns⟩, true⟩]

/-- if the buffers are not reset after instantiation, the suite meets every contract and FAILs -/
theorem init_output_leak_fails (a b : Bool) :
    (runList ⟨a, b, true⟩ ['x'] witnessInitLeak).2 = 1 ∧
    Line.fail ∈ (runList ⟨a, b, true⟩ ['x'] witnessInitLeak).1 ∧ allMeet witnessInitLeak := by
  cases a <;> cases b <;> decide

/-- with the reset in place the same suite passes whatever the package prints during init -/
theorem init_output_not_attributed (cfg : Cfg) (h : cfg.initOutputLeaks = false) (io : Text) :
    runList cfg io witnessInitLeak = ([.ok], 0) := by
  simp [runList, witnessInitLeak, runAll, runFn, runFnCore, captured, h, declInfo, obs]

/-- the guarded statement holds for a table iff both early-exit blocks print FAIL and init output
does not leak -/
theorem guarded_statement_iff_sound (cfg : Cfg) : GuardedStatement cfg ↔ CfgSound cfg = true := by
  constructor
  · intro h
    obtain ⟨a, b, c⟩ := cfg
    have h1 := (h [] [⟨['T'], false, true, .none, ⟨[], .traps⟩, true⟩] (by decide)).2 (by decide)
    have h2 := (h [] [⟨['E'], true, true, .none, ⟨[], .traps⟩, true⟩] (by decide)).2 (by decide)
    have h3 := (h ['x'] witnessInitLeak (by decide)).1.2 (by decide)
    cases a <;> cases b <;> cases c <;>
      simp [runList, witnessInitLeak, runAll, runFn, runFnCore, captured, joinOut, declInfo, obs, abortFAIL, CfgSound] at h1 h2 h3 ⊢
  · intro hs io l hg
    obtain ⟨a, b, c⟩ := cfg
    simp [CfgSound] at hs
    obtain ⟨⟨ha, hb⟩, hc⟩ := hs
    subst ha; subst hb; subst hc
    have hl : NoLeak ⟨true, true, false⟩ io := Or.inl rfl
    refine ⟨pass_iff_all_meet_contract_partial _ io l hg hl, fun hn => ?_⟩
    apply fail_prints_FAIL_and_nonzero_partial _ io l hg hl _ hn
    intro f _ _ _
    cases hx : f.isExample <;> simp [abortFAIL, hx]

/-! ## the suite as written (module state threaded by `resolved`) -/

theorem suite_pass_iff_all_meet_contract_partial (cfg : Cfg) (pkg : Pkg) (sl : List SFn)
    (hg : ∀ f ∈ resolved pkg sl, f.selected = true → Guarded f = true) (hl : NoLeak cfg pkg.initOut) :
    (Line.ok ∈ (run cfg (.fns pkg sl)).1 ∧ (run cfg (.fns pkg sl)).2 = 0) ↔ allMeet (resolved pkg sl) :=
  pass_iff_all_meet_contract_partial cfg pkg.initOut (resolved pkg sl) hg hl

theorem suite_fail_prints_FAIL_and_nonzero (cfg : Cfg) (hs : CfgSound cfg = true) (pkg : Pkg) (sl : List SFn)
    (hg : ∀ f ∈ resolved pkg sl, f.selected = true → Guarded f = true) (hn : ¬ allMeet (resolved pkg sl)) :
    Line.fail ∈ (run cfg (.fns pkg sl)).1 ∧ (run cfg (.fns pkg sl)).2 ≠ 0 :=
  (((guarded_statement_iff_sound cfg).2 hs) pkg.initOut (resolved pkg sl) hg).2 hn

/-! ## the package as written: which comment is the declaration -/

/-- both sentences for packages as written (contract = the declarations as written, `declSpec`) -/
def SrcGuardedStatement (cfg : Cfg) (markerAnywhere : Bool) : Prop :=
  ∀ (pkg : Pkg) (l : List SrcFn), (∀ f ∈ contractFns pkg l, f.selected = true → Guarded f = true) →
    (((Line.ok ∈ (runSrc cfg markerAnywhere pkg l).1 ∧ (runSrc cfg markerAnywhere pkg l).2 = 0) ↔
        allMeet (contractFns pkg l)) ∧
     (¬ allMeet (contractFns pkg l) →
        (Line.fail ∈ (runSrc cfg markerAnywhere pkg l).1 ∧ (runSrc cfg markerAnywhere pkg l).2 ≠ 0)))

/-- the loader finds the declaration as written when it scans every comment of a group -/
theorem loaderDecl_eq_spec (gs : List Group) : loaderDecl true gs = declSpec gs := rfl

theorem src_guarded_statement_of_sound (cfg : Cfg) (hs : CfgSound cfg = true) : SrcGuardedStatement cfg true := by
  intro pkg l hg
  exact (guarded_statement_iff_sound cfg).2 hs pkg.initOut (contractFns pkg l) hg

/-- `// note` / `// Output:` / `// y` in one group, the test prints `x` -/
def witnessMarkerSecond : List SrcFn :=
  [⟨⟨['T', 'e', 's', 't', 'M'], false, true, .none, 0, false, ['x'], .returns⟩,
    [[.line [' ', 'n', 'o', 't', 'e'], .line markerOut, .line [' ', 'y']]]⟩]

example : declSpec [[.line [' ', 'n', 'o', 't', 'e'], .line markerOut, .line [' ', 'y']]] = .output ['y'] := by decide
example : loaderDecl false [[.line [' ', 'n', 'o', 't', 'e'], .line markerOut, .line [' ', 'y']]] = .none := by decide

/-- if the scan looks only at the first comment of each group, a declaration that is not the first
line of its group is dropped: the mismatching test is reported `ok` -/
theorem marker_first_only_passes_mismatch (cfg : Cfg) :
    runSrc cfg false ⟨[], 0⟩ witnessMarkerSecond = ([.ok], 0) ∧ ¬ allMeet (contractFns ⟨[], 0⟩ witnessMarkerSecond) := by
  obtain ⟨a, b, c⟩ := cfg
  cases a <;> cases b <;> cases c <;> decide

theorem marker_first_only_breaks (cfg : Cfg) : ¬ SrcGuardedStatement cfg false := by
  intro h
  have hw := marker_first_only_passes_mismatch cfg
  have := (h ⟨[], 0⟩ witnessMarkerSecond (by decide)).1.1 (by rw [hw.1]; decide)
  exact hw.2 this

/-- scanning the whole group, the same package FAILs as it should (sound table) -/
theorem marker_anywhere_reports_mismatch :
    (runSrc cfgRepaired true ⟨[], 0⟩ witnessMarkerSecond).2 = 1 ∧
    Line.fail ∈ (runSrc cfgRepaired true ⟨[], 0⟩ witnessMarkerSecond).1 := by decide

/-! ## the table regenerated from the current source -/

theorem cfgCurrent_sound_checked : (CfgSound cfgCurrent && markerAnywhereCurrent) = cfgCurrentSound := by decide

theorem current_verdict :
    (cfgCurrentSound = true → GuardedStatement cfgCurrent ∧ SrcGuardedStatement cfgCurrent markerAnywhereCurrent) ∧
    (cfgCurrentSound = false → ¬ (GuardedStatement cfgCurrent ∧ SrcGuardedStatement cfgCurrent markerAnywhereCurrent)) := by
  rw [← cfgCurrent_sound_checked]
  constructor
  · intro h
    simp at h
    refine ⟨(guarded_statement_iff_sound _).2 h.1, ?_⟩
    rw [h.2]; exact src_guarded_statement_of_sound _ h.1
  · intro h ⟨h1, h2⟩
    have hs := (guarded_statement_iff_sound _).1 h1
    cases hm : markerAnywhereCurrent
    · rw [hm] at h2; exact marker_first_only_breaks _ h2
    · simp [hs, hm] at h

/-! ## what does not hold: witnesses -/

/-- declared `// Output(panic): boom`, panics with "boomer": passes (prefix match) -/
def witnessPrefix : List Fn :=
  [⟨['T', 'e', 's', 't', 'B'], false, true, .panic ['b', 'o', 'o', 'm'],
    ⟨[], .panics ['b', 'o', 'o', 'm', 'e', 'r'] ['a', ':', '1']⟩, true⟩]

/-- declared `// Output:` with no text and prints nothing: meets its contract but FAILs (`expect = "?"`) -/
def witnessEmptyMeets : List Fn :=
  [⟨['E', 'x', 'a', 'm', 'p', 'l', 'e', 'E'], true, true, .output [], ⟨[], .returns⟩, true⟩]

/-- declared `// Output:` with no text and prints `?`: passes without meeting its contract -/
def witnessSentinel : List Fn :=
  [⟨['E', 'x', 'a', 'm', 'p', 'l', 'e', 'Q'], true, true, .output [], ⟨['?'], .returns⟩, true⟩]

/-- a failing assertion in a plain test -/
def witnessAbort : List Fn :=
  [⟨['T', 'e', 's', 't', 'A'], false, true, .none, ⟨[], .assertFails ['x'] ['a', ':', '1']⟩, true⟩]

theorem witnessPrefix_passes (cfg : Cfg) :
    runList cfg [] witnessPrefix = ([.ok], 0) ∧ ¬ allMeet witnessPrefix := by
  obtain ⟨a, b, c⟩ := cfg
  cases a <;> cases b <;> cases c <;> decide

theorem witnessEmptyMeets_fails (cfg : Cfg) :
    (runList cfg [] witnessEmptyMeets).2 = 1 ∧ Line.fail ∈ (runList cfg [] witnessEmptyMeets).1 ∧
    allMeet witnessEmptyMeets := by
  obtain ⟨a, b, c⟩ := cfg
  cases a <;> cases b <;> cases c <;> decide

theorem witnessSentinel_passes (cfg : Cfg) :
    runList cfg [] witnessSentinel = ([.ok], 0) ∧ ¬ allMeet witnessSentinel := by
  obtain ⟨a, b, c⟩ := cfg
  cases a <;> cases b <;> cases c <;> decide

theorem witnessAbort_no_FAIL_pinned :
    runList cfgPinned [] witnessAbort = ([.dump], 1) ∧ ¬ allMeet witnessAbort := by decide

/-- the first sentence is false whatever the parameters -/
theorem pass_iff_all_meet_contract_false (cfg : Cfg) : ¬ PassIffStatement cfg := by
  intro h
  have hw := witnessPrefix_passes cfg
  have := (h [] witnessPrefix (by decide)).1 (by rw [hw.1]; decide)
  exact hw.2 this

/-- … also in the other direction: a suite that meets every contract is reported FAIL -/
theorem pass_iff_all_meet_contract_false_converse (cfg : Cfg) :
    ∃ l, (∀ f ∈ l, f.selected = true → WF f = true) ∧ allMeet l ∧ (runList cfg [] l).2 ≠ 0 := by
  refine ⟨witnessEmptyMeets, by decide, (witnessEmptyMeets_fails cfg).2.2, ?_⟩
  rw [(witnessEmptyMeets_fails cfg).1]; decide

/-- the second sentence is false whatever the parameters (a failing function passes) -/
theorem fail_prints_FAIL_and_nonzero_false (cfg : Cfg) : ¬ FailStatement cfg := by
  intro h
  have hw := witnessPrefix_passes cfg
  have := (h [] witnessPrefix (by decide) hw.2).2
  rw [hw.1] at this
  exact this rfl

/-- on the pinned commit it is false even for guarded suites: a failing assertion prints no FAIL -/
theorem fail_prints_FAIL_false_pinned : ¬ GuardedStatement cfgPinned := by
  intro h
  have := ((h [] witnessAbort (by decide)).2 witnessAbort_no_FAIL_pinned.2).1
  rw [witnessAbort_no_FAIL_pinned.1] at this
  simp at this

/-- with the repair (and the reset in place) the guarded statement holds -/
theorem guarded_statement_repaired : GuardedStatement cfgRepaired :=
  (guarded_statement_iff_sound cfgRepaired).2 rfl

/-! ## other suites -/
theorem no_test_files_status (cfg : Cfg) : run cfg .noTestFiles = ([.noTestFiles], 0) := rfl
theorem load_error_status (cfg : Cfg) : (run cfg .loadError).2 = 1 := rfl

end WaVerif.C30
