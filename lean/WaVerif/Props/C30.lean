import WaVerif.Model.C30
import WaVerif.Lemmas.C30
import WaVerif.Gen.C30
/-!
# C30 — property theorems (`wa test` verdicts match the tests' contracts)

`PassIffStatement` / `FailStatement` are the two sentences of the property at full strength, for
every suite of test/example functions with any mix of behaviours.  (The only hypothesis, `WF`:
a function that declares an expected panic prints nothing else — the statement does not say what
output before the panic means, and the runner compares the whole stdout.)

Both are FALSE of the current code, for three independent root causes, each with a concrete
witness that the check replays against the real `wa test`:
* the expected-panic comparison is a prefix match (`witnessPrefix`),
* a declaration with no text is stored as the sentinel `?` (`witnessEmptyMeets`, `witnessSentinel`),
* a failing function without expected panic exits early without the `FAIL` line (`witnessAbort`,
  only when the regenerated `cfg` says the early-exit blocks do not print it).

The `_partial` theorems prove both sentences for every suite whose selected functions avoid the
first two causes (`Guarded`); the FAIL sentence additionally needs the early exits to print FAIL,
which is exactly the parameter regenerated from the source (`guarded_fail_statement_iff`).
-/
namespace WaVerif.C30

def PassIffStatement (cfg : Cfg) : Prop :=
  ∀ l : List Fn, (∀ f ∈ l, f.selected = true → WF f = true) →
    ((Line.ok ∈ (run cfg (.fns l)).1 ∧ (run cfg (.fns l)).2 = 0) ↔ allMeet l)

def FailStatement (cfg : Cfg) : Prop :=
  ∀ l : List Fn, (∀ f ∈ l, f.selected = true → WF f = true) → ¬ allMeet l →
    (Line.fail ∈ (run cfg (.fns l)).1 ∧ (run cfg (.fns l)).2 ≠ 0)

/-- the FAIL sentence restricted to suites that avoid the prefix-match and sentinel causes -/
def GuardedFailStatement (cfg : Cfg) : Prop :=
  ∀ l : List Fn, (∀ f ∈ l, f.selected = true → Guarded f = true) → ¬ allMeet l →
    (Line.fail ∈ (run cfg (.fns l)).1 ∧ (run cfg (.fns l)).2 ≠ 0)

/-! ## what holds: the `_partial` theorems (any `cfg`) -/

theorem allPass_iff_allMeet (cfg : Cfg) (l : List Fn) (hg : ∀ f ∈ l, f.selected = true → Guarded f = true) :
    (∀ f ∈ ordered l, f.selected = true → (runFn cfg f).2 = .pass) ↔ allMeet l := by
  constructor
  · intro h f hf hs
    exact (runFn_pass_iff_meets cfg f (hg f hf hs)).1 (h f ((mem_ordered l f).2 hf) hs)
  · intro h f hf hs
    have hf' := (mem_ordered l f).1 hf
    exact (runFn_pass_iff_meets cfg f (hg f hf' hs)).2 (h f hf' hs)

/-- `ok` and status 0 exactly when every selected function meets its contract -/
theorem pass_iff_all_meet_contract_partial (cfg : Cfg) (l : List Fn)
    (hg : ∀ f ∈ l, f.selected = true → Guarded f = true) :
    (Line.ok ∈ (run cfg (.fns l)).1 ∧ (run cfg (.fns l)).2 = 0) ↔ allMeet l := by
  simp only [run]
  rw [runAll_ok_iff, runAll_status_zero_iff]
  simp only [true_and, and_self]
  exact allPass_iff_allMeet cfg l hg

/-- each half separately: the printed verdict and the status agree with each other -/
theorem ok_iff_status_zero (cfg : Cfg) (l : List Fn) :
    Line.ok ∈ (run cfg (.fns l)).1 ↔ (run cfg (.fns l)).2 = 0 := by
  simp only [run]
  rw [runAll_ok_iff, runAll_status_zero_iff]

/-- a failing function always makes the status non-zero -/
theorem fail_nonzero_partial (cfg : Cfg) (l : List Fn)
    (hg : ∀ f ∈ l, f.selected = true → Guarded f = true) (hn : ¬ allMeet l) :
    (run cfg (.fns l)).2 ≠ 0 := by
  intro h0
  apply hn
  have := (runAll_status_zero_iff cfg (ordered l) false).1 (by simpa [run] using h0)
  exact (allPass_iff_allMeet cfg l hg).1 this.2

/-- … and FAIL is printed, provided the early exits that are taken print it -/
theorem fail_prints_FAIL_and_nonzero_partial (cfg : Cfg) (l : List Fn)
    (hg : ∀ f ∈ l, f.selected = true → Guarded f = true)
    (ha : ∀ f ∈ l, f.selected = true → Aborts f = true → abortFAIL cfg f = true)
    (hn : ¬ allMeet l) :
    Line.fail ∈ (run cfg (.fns l)).1 ∧ (run cfg (.fns l)).2 ≠ 0 := by
  refine ⟨?_, fail_nonzero_partial cfg l hg hn⟩
  simp only [run]
  apply runAll_fail_mem cfg (ordered l) false
  · intro f hf; exact ha f ((mem_ordered l f).1 hf)
  · right
    have : ¬ ∀ f ∈ ordered l, f.selected = true → (runFn cfg f).2 = .pass :=
      fun h => hn ((allPass_iff_allMeet cfg l hg).1 h)
    simpa using this

-- the hypotheses are satisfiable by a non-trivial suite (a failing assert next to a passing example)
def exampleSuite : List Fn :=
  [⟨['T', 'e', 's', 't', 'A'], false, true, .none, ⟨[], .assertFails ['x'] ['a', ':', '1']⟩⟩,
   ⟨['E', 'x', 'a', 'm', 'p', 'l', 'e', 'B'], true, true, .output ['3'], ⟨['3'], .returns⟩⟩]

example : (∀ f ∈ exampleSuite, f.selected = true → Guarded f = true) ∧ ¬ allMeet exampleSuite ∧
    (∀ f ∈ exampleSuite, f.selected = true → Aborts f = true → abortFAIL cfgRepaired f = true) := by decide

/-- the guarded FAIL sentence holds for a table iff both early-exit blocks print FAIL -/
theorem guarded_fail_statement_iff (cfg : Cfg) :
    GuardedFailStatement cfg ↔ (cfg.testAbortFAIL = true ∧ cfg.exampleAbortFAIL = true) := by
  constructor
  · intro h
    obtain ⟨a, b⟩ := cfg
    have h1 := h [⟨['T'], false, true, .none, ⟨[], .traps⟩⟩] (by decide) (by decide)
    have h2 := h [⟨['E'], true, true, .none, ⟨[], .traps⟩⟩] (by decide) (by decide)
    cases a <;> cases b <;> simp [run, ordered, runAll, runFn, declInfo, obs, abortFAIL] at h1 h2 ⊢
  · rintro ⟨ht, he⟩ l hg hn
    apply fail_prints_FAIL_and_nonzero_partial cfg l hg _ hn
    intro f _ _ _
    cases hx : f.isExample <;> simp [abortFAIL, hx, ht, he]

/-! ## the table regenerated from the current source -/

theorem cfgCurrent_flags_checked :
    (cfgCurrent.testAbortFAIL && cfgCurrent.exampleAbortFAIL) = cfgCurrentAbortFAIL := by decide

theorem current_fail_verdict :
    (cfgCurrentAbortFAIL = true → GuardedFailStatement cfgCurrent) ∧
    (cfgCurrentAbortFAIL = false → ¬ GuardedFailStatement cfgCurrent) := by
  rw [← cfgCurrent_flags_checked, guarded_fail_statement_iff]
  constructor
  · intro h; simpa using h
  · intro h h'; simp [h'.1, h'.2] at h

/-! ## what does not hold: witnesses -/

/-- declared `// Output(panic): boom`, panics with "boomer": passes (prefix match) -/
def witnessPrefix : List Fn :=
  [⟨['T', 'e', 's', 't', 'B'], false, true, .panic ['b', 'o', 'o', 'm'],
    ⟨[], .panics ['b', 'o', 'o', 'm', 'e', 'r'] ['a', ':', '1']⟩⟩]

/-- declared `// Output:` with no text and prints nothing: meets its contract but FAILs (`expect = "?"`) -/
def witnessEmptyMeets : List Fn :=
  [⟨['E', 'x', 'a', 'm', 'p', 'l', 'e', 'E'], true, true, .output [], ⟨[], .returns⟩⟩]

/-- declared `// Output:` with no text and prints `?`: passes without meeting its contract -/
def witnessSentinel : List Fn :=
  [⟨['E', 'x', 'a', 'm', 'p', 'l', 'e', 'Q'], true, true, .output [], ⟨['?'], .returns⟩⟩]

/-- a failing assertion in a plain test -/
def witnessAbort : List Fn :=
  [⟨['T', 'e', 's', 't', 'A'], false, true, .none, ⟨[], .assertFails ['x'] ['a', ':', '1']⟩⟩]

theorem witnessPrefix_passes (cfg : Cfg) :
    run cfg (.fns witnessPrefix) = ([.ok], 0) ∧ ¬ allMeet witnessPrefix := by
  obtain ⟨a, b⟩ := cfg
  cases a <;> cases b <;> decide

theorem witnessEmptyMeets_fails (cfg : Cfg) :
    (run cfg (.fns witnessEmptyMeets)).2 = 1 ∧ Line.fail ∈ (run cfg (.fns witnessEmptyMeets)).1 ∧
    allMeet witnessEmptyMeets := by
  obtain ⟨a, b⟩ := cfg
  cases a <;> cases b <;> decide

theorem witnessSentinel_passes (cfg : Cfg) :
    run cfg (.fns witnessSentinel) = ([.ok], 0) ∧ ¬ allMeet witnessSentinel := by
  obtain ⟨a, b⟩ := cfg
  cases a <;> cases b <;> decide

theorem witnessAbort_no_FAIL_pinned :
    run cfgPinned (.fns witnessAbort) = ([.dump], 1) ∧ ¬ allMeet witnessAbort := by decide

/-- the first sentence is false whatever the early exits print -/
theorem pass_iff_all_meet_contract_false (cfg : Cfg) : ¬ PassIffStatement cfg := by
  intro h
  have hw := witnessPrefix_passes cfg
  have := (h witnessPrefix (by decide)).1 (by rw [hw.1]; decide)
  exact hw.2 this

/-- … also in the other direction: a suite that meets every contract is reported FAIL -/
theorem pass_iff_all_meet_contract_false_converse (cfg : Cfg) :
    ∃ l, (∀ f ∈ l, f.selected = true → WF f = true) ∧ allMeet l ∧ (run cfg (.fns l)).2 ≠ 0 := by
  refine ⟨witnessEmptyMeets, by decide, (witnessEmptyMeets_fails cfg).2.2, ?_⟩
  rw [(witnessEmptyMeets_fails cfg).1]; decide

/-- the second sentence is false whatever the early exits print (a failing function passes) -/
theorem fail_prints_FAIL_and_nonzero_false (cfg : Cfg) : ¬ FailStatement cfg := by
  intro h
  have hw := witnessPrefix_passes cfg
  have := (h witnessPrefix (by decide) hw.2).2
  rw [hw.1] at this
  exact this rfl

/-- on the pinned commit it is false even for guarded suites: a failing assertion prints no FAIL -/
theorem fail_prints_FAIL_false_pinned : ¬ GuardedFailStatement cfgPinned := by
  intro h
  have := (h witnessAbort (by decide) witnessAbort_no_FAIL_pinned.2).1
  rw [witnessAbort_no_FAIL_pinned.1] at this
  simp at this

/-- with the repair the guarded FAIL sentence holds -/
theorem fail_prints_FAIL_and_nonzero_repaired : GuardedFailStatement cfgRepaired :=
  (guarded_fail_statement_iff cfgRepaired).2 ⟨rfl, rfl⟩

/-! ## other suites -/
theorem no_test_files_status : run cfg .noTestFiles = ([.noTestFiles], 0) := rfl
theorem load_error_status : (run cfg .loadError).2 = 1 := rfl

end WaVerif.C30
