import WaVerif.Model.C06
import WaVerif.Lemmas.C06
import WaVerif.Lemmas.C06Mod
import WaVerif.Lemmas.C06Run
/-!
# C06 — property theorems (dead-code stripping preserves behaviour)

Every `theorem` in this file is an obligation of the check and is axiom-audited.

* the specified pass (`Module.strip`, `Model/C06.lean`): roots kept, kept set call-closed, exactly the
  unreachable functions removed, result well-formed, fuel = number of function names suffices,
  and — over the abstract interpreter `run` — every root (and every sequence of roots, with
  `call_indirect` / table copies) runs in the stripped module exactly as in the original;
* the transcription of the real pass (`Module.realStrip`): equal to the specified pass on
  `RealSubset`, and `decide`-checked witnesses of the three ways it leaves that subset
  (import referenced only from `elem` / only exported, `table.set`, export with empty name).
-/
namespace WaVerif.C06

set_option linter.unusedSectionVars false

variable {ν : Type} [DecidableEq ν]

/-! ## the walk -/

/-- the recursive walk over `block` / `loop` / `if` bodies finds exactly the calls occurring at any depth -/
theorem walk_finds_nested_calls (f : ν) (is : List (Instr ν)) : f ∈ callsL is ↔ Occ f is :=
  ⟨occ_of_mem_callsL is, mem_callsL_of_occ⟩

example : (7 : Nat) ∈ callsL [.other, .block [.loop [.ite [.other] [.call 7]]]] := by decide

/-- the walk does not stop at any instruction: whatever precedes a `call` (in particular a top-level
or nested `return` / `unreachable` / `br`, all `.other`), the call after it is an edge — dead code
is still printed, so `strip_valid_refs` needs its targets kept -/
theorem walk_never_stops (f : ν) (pre post : List (Instr ν)) : f ∈ callsL (pre ++ .call f :: post) := by
  induction pre with
  | nil => simp [callsL, Instr.calls]
  | cons i is ih => simp only [List.cons_append, callsL, List.mem_append]; exact Or.inr ih

/-- `$main … return ; call $cleanup` with `$cleanup` referenced nowhere else (corpus/C06/dead_code_after_return.wat) -/
def exDeadCode : Module Nat :=
  { imports := [], funcs := [⟨1, [.other, .other, .call 2]⟩, ⟨2, []⟩, ⟨3, [.call 2]⟩],
    start := none, exports := [⟨true, 1⟩], elems := [] }

example : exDeadCode.strip.funcNames = [1, 2] := by decide

/-! ## the marked set -/

theorem mark_iff_reach {m : Module ν} (hwf : WF m) (x : ν) : x ∈ m.mark ↔ Reach m x :=
  mark_iff_reach' hwf x

/-- fuel sufficiency: any fuel ≥ the number of function names computes exactly the reachable set -/
theorem fuel_sufficient {m : Module ν} (hwf : WF m) {fuel : Nat} (hf : m.names.length ≤ fuel) (x : ν) :
    x ∈ close m.callees fuel m.roots [] ↔ Reach m x :=
  close_iff_reach hwf hf x

/-- with any fuel at all the closure never marks an unreachable name (too little fuel can only lose names) -/
theorem any_fuel_sound (m : Module ν) (fuel : Nat) (x : ν) (h : x ∈ close m.callees fuel m.roots []) :
    Reach m x :=
  close_sound m.callees (Reach m) (fun _ ha _ hb => Reach.step ha hb) fuel m.roots []
    (fun _ hr => Reach.root hr) (by simp) x h

/-- a chain 1 → 2 → 3 exported at 1, one import 0 -/
def exChain : Module Nat :=
  { imports := [0]
    funcs := [⟨1, [.block [.call 2]]⟩, ⟨2, [.ite [] [.call 3]]⟩, ⟨3, [.call 0]⟩, ⟨4, [.call 1]⟩]
    start := none, exports := [⟨true, 1⟩], elems := [] }

example : WF exChain := by decide
example : exChain.mark = [0, 3, 2, 1] := by decide
example : exChain.strip.funcNames = [1, 2, 3] ∧ exChain.strip.imports = [0] := by decide

/-- the bound is about visited names: with less fuel than reachable names a reachable one is lost -/
theorem fuel_too_small_loses : ∃ x, x ∈ exChain.mark ∧ x ∉ close exChain.callees 3 exChain.roots [] :=
  ⟨0, by decide, by decide⟩

/-! ## the stripped module -/

theorem roots_kept {m : Module ν} (hwf : WF m) : ∀ r ∈ m.roots, r ∈ m.strip.names := by
  intro r hr
  exact mem_names_stripWith.mpr ⟨hwf.roots_def r hr, (mark_iff_reach hwf r).mpr (Reach.root hr)⟩

theorem kept_call_closed {m : Module ν} (hwf : WF m) :
    ∀ f ∈ m.strip.funcs, ∀ g ∈ callsL f.body, g ∈ m.strip.names := by
  intro f hf g hg
  simp only [Module.strip, Module.stripWith, List.mem_filter, decide_eq_true_eq] at hf
  have hreach : Reach m g :=
    Reach.step ((mark_iff_reach hwf f.name).mp hf.2) (by rw [callees_of_mem hwf.nodup hf.1]; exact hg)
  exact mem_names_stripWith.mpr ⟨hwf.calls_def f hf.1 g hg, (mark_iff_reach hwf g).mpr hreach⟩

/-- exactly the reachable names are kept -/
theorem kept_only_reachable {m : Module ν} (hwf : WF m) (x : ν) :
    x ∈ m.strip.names ↔ x ∈ m.names ∧ Reach m x := by
  rw [Module.strip, mem_names_stripWith, mark_iff_reach hwf]

/-- … so exactly the unreachable functions and function imports are removed -/
theorem removed_iff_unreachable {m : Module ν} (hwf : WF m) (x : ν) (hx : x ∈ m.names) :
    x ∉ m.strip.names ↔ ¬ Reach m x := by
  rw [kept_only_reachable hwf]
  constructor
  · intro h hr; exact h ⟨hx, hr⟩
  · intro h hr; exact h hr.2

/-- a reachable name is a name of the module, so "kept = reachable" -/
theorem kept_iff_reach {m : Module ν} (hwf : WF m) (x : ν) : x ∈ m.strip.names ↔ Reach m x := by
  rw [kept_only_reachable hwf]
  exact ⟨fun h => h.2, fun h => ⟨reach_mem_names hwf h, h⟩⟩

/-- nothing else changes: start, exports and element segments are those of the input; the kept
functions are functions of the input (bodies untouched) in the same order; likewise imports -/
theorem strip_keeps_rest (m : Module ν) :
    m.strip.start = m.start ∧ m.strip.exports = m.exports ∧ m.strip.elems = m.elems ∧
    List.Sublist m.strip.funcs m.funcs ∧ List.Sublist m.strip.imports m.imports :=
  ⟨rfl, rfl, rfl, List.filter_sublist, List.filter_sublist⟩

/-- every function name referenced in the stripped module (call target, start, export, element
entry) is defined in it, and names stay distinct -/
theorem strip_valid_refs {m : Module ν} (hwf : WF m) : WF m.strip where
  nodup := List.Nodup.sublist (stripWith_names_sublist m m.mark) hwf.nodup
  roots_def := fun r hr => roots_kept hwf r (by simpa [Module.strip, stripWith_roots] using hr)
  calls_def := kept_call_closed hwf

example : WF exChain.strip := strip_valid_refs (by decide)

/-! ## behaviour -/

variable {σ : Type}

/-- if two environments agree on a call-closed set `S`, every function of `S` runs identically in
both (same result, same final state) from every state whose table entries are in `S`; and the
table stays in `S` -/
theorem run_congr_closed (S : ν → Prop) (env₁ env₂ : ν → Option (Code ν σ))
    (hEq : ∀ g, S g → env₁ g = env₂ g)
    (hClosed : ∀ g p, S g → env₁ g = some (.body p) → ∀ h ∈ p.calls, S h) :
    ∀ n, CallAgree S (run env₁ n) (run env₂ n) := by
  intro n
  induction n with
  | zero =>
    intro g st _ _
    simp [run]
  | succ n ih =>
    intro g st hg ht
    simp only [run]
    rw [← hEq g hg]
    cases hc : env₁ g with
    | none => simp
    | some c =>
      cases c with
      | host h =>
        simp only
        cases h st.data with
        | none => simp
        | some d =>
          refine ⟨trivial, ?_⟩
          intro st' e
          simp only [Res.ok.injEq] at e
          subst e
          exact ht
      | body p =>
        simp only
        exact exec_congr S _ _ ih p st (hClosed g p hg hc) ht

/-- the element segments only hold roots, so the initial table is inside the marked set -/
theorem initial_table_marked {m : Module ν} (hwf : WF m) (d : σ) :
    TblIn (fun g => g ∈ m.mark) ({ data := d, tbl := m.elems.map some } : St ν σ) := by
  intro g hg
  simp only [List.mem_map, Option.some.injEq] at hg
  obtain ⟨a, ha, rfl⟩ := hg
  exact (mark_iff_reach hwf a).mpr (Reach.root (by simp [Module.roots, ha]))

theorem strip_agrees {m : Module ν} (hwf : WF m) {env : ν → Option (Code ν σ)} (hs : Sound m env) (n : Nat) :
    CallAgree (fun g => g ∈ m.mark) (run (restrict env m.strip.names) n) (run env n) := by
  apply run_congr_closed
  · intro g hg
    have : g ∈ m.strip.names :=
      mem_names_stripWith.mpr ⟨reach_mem_names hwf ((mark_iff_reach hwf g).mp hg), hg⟩
    simp [restrict, this]
  · intro g p hg he h hh
    have hg' : g ∈ m.strip.names :=
      mem_names_stripWith.mpr ⟨reach_mem_names hwf ((mark_iff_reach hwf g).mp hg), hg⟩
    simp only [restrict, hg', if_true] at he
    exact (mark_iff_reach hwf h).mpr (Reach.step ((mark_iff_reach hwf g).mp hg) (hs g p he h hh))

/-- **behaviour preservation**: calling any root (start function, exported function, table entry)
of the stripped module gives exactly the result and final state it gives in the original, for
every state whose funcref table holds marked functions (in particular the initial one), every
call depth bound; deleted functions are never reached (`Res.undefined` would differ) -/
theorem strip_preserves {m : Module ν} (hwf : WF m) {env : ν → Option (Code ν σ)} (hs : Sound m env)
    {f : ν} (hf : f ∈ m.roots) {st : St ν σ} (ht : TblIn (fun g => g ∈ m.mark) st) (n : Nat) :
    run (restrict env m.strip.names) n f st = run env n f st :=
  (strip_agrees hwf hs n f st ((mark_iff_reach hwf f).mpr (Reach.root hf)) ht).1

theorem strip_agrees_seq {m : Module ν} (hwf : WF m) {env : ν → Option (Code ν σ)} (hs : Sound m env)
    (n : Nat) : ∀ (fs : List ν), (∀ f ∈ fs, f ∈ m.roots) → ∀ (st : St ν σ), TblIn (fun g => g ∈ m.mark) st →
      runSeq (restrict env m.strip.names) n fs st = runSeq env n fs st ∧
      ∀ st', runSeq (restrict env m.strip.names) n fs st = .ok st' → TblIn (fun g => g ∈ m.mark) st'
  | [], _, st, ht => ⟨rfl, fun st' e => by simp only [runSeq] at e; cases e; exact ht⟩
  | f :: fs, hfs, st, ht => by
    simp only [runSeq]
    have hA := strip_agrees hwf hs n f st
      ((mark_iff_reach hwf f).mpr (Reach.root (hfs f (by simp)))) ht
    exact bind_congr_inv hA.1 hA.2 (fun st' ht' =>
      strip_agrees_seq hwf hs n fs (fun g hg => hfs g (by simp [hg])) st' ht')

/-- … and for every sequence of calls on roots, each starting from the state the previous left -/
theorem strip_preserves_seq {m : Module ν} (hwf : WF m) {env : ν → Option (Code ν σ)} (hs : Sound m env)
    (n : Nat) (fs : List ν) (hfs : ∀ f ∈ fs, f ∈ m.roots) (st : St ν σ) (ht : TblIn (fun g => g ∈ m.mark) st) :
    runSeq (restrict env m.strip.names) n fs st = runSeq env n fs st :=
  (strip_agrees_seq hwf hs n fs hfs st ht).1

/-- the hypotheses are satisfiable: a two-function module whose export calls through the table -/
def exEnv : Nat → Option (Code Nat Nat)
  | 1 => some (.body (.callInd (fun _ => 0) (.call 2 .ret)))
  | 2 => some (.body (.op (· + 1) .ret))
  | 3 => some (.body (.op (· + 100) .ret))
  | _ => none

def exMod : Module Nat :=
  { imports := [], funcs := [⟨1, [.call 2]⟩, ⟨2, []⟩, ⟨3, []⟩], start := none, exports := [⟨true, 1⟩], elems := [2] }

example : WF exMod := by decide
example : Sound exMod exEnv := by
  intro f p h g hg
  match f, h with
  | 1, h => cases h; revert g; decide
  | 2, h => cases h; simp [Prog.calls] at hg
  | 3, h => cases h; simp [Prog.calls] at hg
example : exMod.strip.funcNames = [1, 2] := by decide

/-! ## the real pass -/

omit [DecidableEq ν] in
theorem close_congr_fun {succ₁ succ₂ : ν → List ν} [DecidableEq ν] (h : ∀ x, succ₁ x = succ₂ x) :
    close succ₁ = close succ₂ := by
  have : succ₁ = succ₂ := funext h
  rw [this]

/-- on the modules where (as far as the variant needs it) every root is a defined function, every
export has a non-empty name and no `table.set` occurs, the real pass returns exactly the
specified stripped module -/
theorem real_eq_spec (v : Variant) {m : Module ν} (hwf : WF m) (hsub : RealSubset v m) :
    m.realStrip v = some m.strip := by
  have hsucc : ∀ x, m.realSucc v x = m.callees x := by
    intro x
    unfold Module.realSucc Module.callees
    split
    · rename_i f hl
      cases hv : v.tableSetLookup with
      | false => simp
      | true => simp [hsub.no_table_set hv f (lookup_some hl).1]
    · rfl
  have hsuccD : ∀ x, m.realSuccD v x = m.callees x := by
    intro x
    unfold Module.realSuccD
    rw [hsucc x]
    exact List.filter_eq_self.mpr (fun y hy => by simpa using callees_sub_names hwf x y hy)
  have hroots : ∀ x, x ∈ m.realRoots v ↔ x ∈ m.roots := by
    intro x
    have hexp : x ∈ (m.exports.filter (fun e => e.named || !v.skipUnnamedExports)).map (·.fn) ↔
        x ∈ m.exports.map (·.fn) := by
      simp only [List.mem_map, List.mem_filter]
      constructor
      · rintro ⟨e, ⟨he, _⟩, rfl⟩; exact ⟨e, he, rfl⟩
      · rintro ⟨e, he, rfl⟩
        refine ⟨e, ⟨he, ?_⟩, rfl⟩
        cases hv : v.skipUnnamedExports with
        | false => simp
        | true => simp [hsub.exports_named hv e he]
    have hdom : x ∈ m.roots → x ∈ (if v.importRoots then m.names else m.funcNames) := by
      intro hx
      cases hv : v.importRoots with
      | false => simpa using hsub.roots_defined hv x hx
      | true => simpa using hwf.roots_def x hx
    simp only [Module.realRoots, List.mem_filter, decide_eq_true_eq, Bool.decide_or, Bool.or_eq_true, hexp]
    have hr : x ∈ m.roots ↔ (m.start = some x ∨ x ∈ m.elems ∨ x ∈ m.exports.map (·.fn)) := by
      simp only [Module.roots, List.mem_append, Option.mem_toList]
      constructor
      · rintro ((h | h) | h)
        · exact Or.inl h
        · exact Or.inr (Or.inr h)
        · exact Or.inr (Or.inl h)
      · rintro (h | h | h)
        · exact Or.inl (Or.inl h)
        · exact Or.inr h
        · exact Or.inl (Or.inr h)
    constructor
    · rintro ⟨_, h⟩; exact hr.mpr h
    · intro h; exact ⟨hdom h, hr.mp h⟩
  have hU : ∀ a ∈ m.names, ∀ b ∈ m.callees a, b ∈ m.names := fun a _ b hb => callees_sub_names hwf a b hb
  have hrr : ∀ r ∈ m.realRoots v, r ∈ m.names := fun r hr => hwf.roots_def r ((hroots r).mp hr)
  have hcR := close_complete m.callees m.names hU m.names.length (m.realRoots v) [] hrr (by simp)
    List.nodup_nil (by simp) (by simp)
  have hcS := close_complete m.callees m.names hU m.names.length m.roots [] hwf.roots_def (by simp)
    List.nodup_nil (by simp) (by simp)
  have hmark : ∀ x, x ∈ m.realMark v ↔ x ∈ m.mark := by
    intro x
    unfold Module.realMark Module.mark
    rw [close_congr_fun hsuccD]
    constructor
    · exact close_sound m.callees (fun y => y ∈ close m.callees m.names.length m.roots [])
        (fun a ha b hb => hcS.2 a ha b hb) _ _ _
        (fun r hr => hcS.1 r ((hroots r).mp hr)) (by simp) x
    · exact close_sound m.callees (fun y => y ∈ close m.callees m.names.length (m.realRoots v) [])
        (fun a ha b hb => hcR.2 a ha b hb) _ _ _
        (fun r hr => hcR.1 r ((hroots r).mpr hr)) (by simp) x
  have hpan : m.panicsWith v (m.realMark v) = false := by
    have : (m.realMark v).any (fun x => (m.realSucc v x).any (fun t => t ∉ m.names)) = false := by
      simp only [List.any_eq_false, List.any_eq_true, decide_eq_true_eq, not_exists, not_and,
        Decidable.not_not]
      intro x _ t ht
      rw [hsucc x] at ht
      exact callees_sub_names hwf x t ht
    rw [Module.panicsWith, this, Bool.and_false]
  simp only [Module.realStrip, hpan, Bool.false_eq_true, if_false, Option.some.injEq]
  simp only [Module.strip, Module.stripWith]
  congr 1
  · exact List.filter_congr (fun x _ => by simp [hmark x])
  · exact List.filter_congr (fun f _ => by simp [hmark f.name])

/-- the repaired pass (proposed_fixes/C06-roots-and-table-set.diff) is the specified pass on every
well-formed module -/
theorem real_fixed_eq_spec {m : Module ν} (hwf : WF m) : m.realStrip fixedVariant = some m.strip :=
  real_eq_spec fixedVariant hwf ⟨fun h => absurd h (by decide), fun h => absurd h (by decide), fun h => absurd h (by decide)⟩

example : RealSubset pinnedVariant exChain :=
  ⟨fun _ => by decide, fun _ => by decide, fun _ => by decide⟩
example : exChain.realStrip pinnedVariant = some exChain.strip :=
  real_eq_spec _ (by decide) ⟨fun _ => by decide, fun _ => by decide, fun _ => by decide⟩

/-! ### where the pinned pass leaves the property (witnesses replayed on the real code by the check) -/

/-- `(import "env" "h" (func $0)) (table 1 funcref) (elem (i32.const 0) $0) (func $1 (export "f") …call_indirect…)` -/
def exElemImport : Module Nat :=
  { imports := [0], funcs := [⟨1, [.other]⟩], start := none, exports := [⟨true, 1⟩], elems := [0] }

/-- an import referenced only from an element segment is removed although the segment still names it:
the pinned pass's output is not well-formed (the specified pass keeps the import) -/
theorem real_drops_elem_only_import :
    WF exElemImport ∧ (∃ s, exElemImport.realStrip pinnedVariant = some s ∧ s.imports = [] ∧ ¬ WF s) ∧
    exElemImport.strip.imports = [0] :=
  ⟨by decide, ⟨_, rfl, by decide, by decide⟩, by decide⟩

/-- `(import "env" "h" (func $0)) (export "h2" (func $0))` — a re-exported import is removed as well -/
def exExportImport : Module Nat :=
  { imports := [0], funcs := [⟨1, []⟩], start := none, exports := [⟨true, 0⟩, ⟨true, 1⟩], elems := [] }

theorem real_drops_exported_import :
    WF exExportImport ∧ ∃ s, exExportImport.realStrip pinnedVariant = some s ∧ ¬ WF s :=
  ⟨by decide, _, rfl, by decide⟩

/-- a reachable function containing `table.set $t` where no function is called `$t`: `p.funcs[$t]` is nil -/
def exTableSet : Module Nat :=
  { imports := [], funcs := [⟨1, [.ite [.tableSet 9] []]⟩], start := none, exports := [⟨true, 1⟩], elems := [] }

theorem real_panics_on_table_set : WF exTableSet ∧ (exTableSet.realStrip pinnedVariant).isNone = true ∧
    exTableSet.strip.funcNames = [1] :=
  ⟨by decide, by decide, by decide⟩

/-- `(func $1 …) (export "" (func $1))`: an export whose name is the empty string is not a root for the pinned pass -/
def exEmptyExport : Module Nat :=
  { imports := [], funcs := [⟨1, []⟩], start := none, exports := [⟨false, 1⟩], elems := [] }

theorem real_ignores_empty_export_name :
    WF exEmptyExport ∧ ∃ s, exEmptyExport.realStrip pinnedVariant = some s ∧ s.funcs.length = 0 ∧ ¬ WF s :=
  ⟨by decide, _, rfl, by decide, by decide⟩

/-- the repaired pass handles the four witnesses -/
example : exElemImport.realStrip fixedVariant = some exElemImport.strip := real_fixed_eq_spec (by decide)
example : exTableSet.realStrip fixedVariant = some exTableSet.strip := real_fixed_eq_spec (by decide)

end WaVerif.C06
