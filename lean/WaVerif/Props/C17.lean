import WaVerif.Lemmas.C17Rv
import WaVerif.Gen.C17Riscv
import WaVerif.Lemmas.C17LaTable
import WaVerif.Gen.C17Loong64
import WaVerif.Lemmas.C17X64
/-!
# C17 — property theorems (native instruction encoders vs. specification decoders)

Every `theorem` in this file is an obligation of the check and is axiom-audited.
`Gen.*` is regenerated from the repo's opcode tables on every run.
-/
set_option maxRecDepth 16384

namespace WaVerif.C17

section RiscV
open Rv

/-! ## RISC-V -/

/-- Every format: unpacking the packed word returns every field — each register number, funct
field and immediate including sign and alignment bits. -/
theorem rv_unpack_pack (fmt : Fmt) (f : Fields) (h : InRange fmt f) : unpack fmt (pack fmt f) = f := by
  obtain ⟨opc, f3, f7, rd, rs1, rs2, rs3, imm⟩ := f
  cases fmt <;> simp only [InRange] at h
  · obtain ⟨h1, h2, h3, h4, h5, h6, h7, h8⟩ := h
    subst h7 h8
    simp only [pack, unpack, packR_norm _ _ _ _ _ _ h1 h2 h4 h5 h6 h3, fOpc, fF3, fF7, fRd, fRs1, fRs2, Fields.mk.injEq]
    obtain ⟨x1, x2, x3, x4, x5, x6, _⟩ := xR _ _ _ _ _ _ h3 h1 h2 h4 h5 h6 _ rfl
    exact ⟨x1, x3, x6, x2, x4, x5, trivial, trivial⟩
  · obtain ⟨h1, h2, h3, h4, h5, h6, h7, h8⟩ := h
    subst h8
    simp only [pack, unpack, packR4_norm _ _ _ _ _ _ _ h1 h2 h4 h5 h6 h3 h7, fOpc, fF3, fF2, fRd, fRs1, fRs2, fRs3, Fields.mk.injEq]
    obtain ⟨x1, x2, x3, x4, x5, x6, x7, _⟩ := xR4 _ _ _ _ _ _ _ h7 h3 h1 h2 h4 h5 h6 _ rfl
    exact ⟨x1, x3, x6, x2, x4, x5, x7, trivial⟩
  · obtain ⟨h1, h2, h3, h4, h5, h6, h7, h8, h9⟩ := h
    subst h3 h6 h7
    have hu := toU32_mod4096 imm
    have hs := sext12_mod imm ⟨h8, h9⟩
    simp only [pack, unpack]
    generalize toU32 imm = u at hu ⊢
    simp only [packI_norm _ _ _ _ _ h1 h2 h4 h5, fOpc, fF3, fRd, fRs1, immI, Fields.mk.injEq]
    obtain ⟨x1, x2, x3, x4, x5, _⟩ := xI (u % 4096) _ _ _ _ (by omega) h1 h2 h4 h5 _ rfl
    refine ⟨x1, x3, trivial, x2, x4, trivial, trivial, ?_⟩
    rw [x5, show u % 4096 % 4096 = u % 4096 by omega, hu]; exact hs
  · obtain ⟨h1, h2, h3, h4, h5, h6, h7, h8, h9⟩ := h
    subst h3 h4 h7
    have hu := toU32_mod4096 imm
    have hs := sext12_mod imm ⟨h8, h9⟩
    simp only [pack, unpack]
    generalize toU32 imm = u at hu ⊢
    simp only [packS_norm _ _ _ _ _ h1 h2 h5 h6, fOpc, fF3, fRs1, fRs2, immS, Fields.mk.injEq]
    obtain ⟨x1, x2, x3, x4, x5, x6, _⟩ := xS (u % 4096 / 32) (u % 32) _ _ _ _ (by omega) (by omega) h1 h2 h5 h6 _ rfl
    refine ⟨x1, x2, trivial, trivial, x3, x4, trivial, ?_⟩
    rw [x5, x6, decompS, hu]; exact hs
  · obtain ⟨h1, h2, h3, h4, h5, h6, h7, h8, h9, h10⟩ := h
    subst h3 h4 h7
    have hu := toU32_mod8192 imm
    have hs := sext13_mod imm ⟨h8, by omega⟩
    have he : toU32 imm % 2 = 0 := by unfold toU32; omega
    simp only [pack, unpack]
    generalize toU32 imm = u at hu he ⊢
    simp only [packB_norm _ _ _ _ _ h1 h2 h5 h6, fOpc, fF3, fRs1, fRs2, immB, Fields.mk.injEq]
    obtain ⟨x1, x2, x3, x4, x5, x6, x7, x8, _⟩ :=
      xB (u / 4096 % 2) (u / 32 % 64) (u / 2 % 16) (u / 2048 % 2) _ _ _ _ (by omega) (by omega) (by omega) (by omega) h1 h2 h5 h6 _ rfl
    refine ⟨x1, x2, trivial, trivial, x3, x4, trivial, ?_⟩
    rw [x5, x6, x7, x8, decompB u he, hu]; exact hs
  · obtain ⟨h1, h2, h3, h4, h5, h6, h7, h8, h9⟩ := h
    subst h2 h3 h5 h6 h7
    have hu : toU32 imm % 1048576 = imm.toNat := by unfold toU32; omega
    simp only [pack, unpack]
    generalize toU32 imm = u at hu ⊢
    simp only [packU_norm _ _ _ h1 h4, fOpc, fRd, immU, Fields.mk.injEq]
    obtain ⟨x1, x2, x3, _⟩ := xU (u % 1048576) _ _ (by omega) h1 h4 _ rfl
    refine ⟨x1, trivial, trivial, x2, trivial, trivial, trivial, ?_⟩
    rw [x3, hu]; omega
  · obtain ⟨h1, h2, h3, h4, h5, h6, h7, h8, h9, h10⟩ := h
    subst h2 h3 h5 h6 h7
    have hu := toU32_mod2m imm
    have hs := sext21_mod imm ⟨h8, by omega⟩
    have he : toU32 imm % 2 = 0 := by unfold toU32; omega
    simp only [pack, unpack]
    generalize toU32 imm = u at hu he ⊢
    simp only [packJ_norm _ _ _ h1 h4, fOpc, fRd, immJ, Fields.mk.injEq]
    obtain ⟨x1, x2, x3, x4, x5, x6, _⟩ :=
      xJ (u / 1048576 % 2) (u / 2 % 1024) (u / 2048 % 2) (u / 4096 % 256) _ _ (by omega) (by omega) (by omega) (by omega) h1 h4 _ rfl
    refine ⟨x1, trivial, trivial, x2, trivial, trivial, trivial, ?_⟩
    rw [x3, x4, x5, x6, decompJ u he, hu]; exact hs

example : InRange .B { opc := 0x63, f3 := 1, rs1 := 31, rs2 := 17, imm := -4096 } := by decide
example : InRange .J { opc := 0x6f, rd := 1, imm := 1048574 } := by decide
example : ¬ InRange .J { opc := 0x6f, rd := 1, imm := 3 } := by decide

/-- every entry of the hand-written ISA reference is well-formed (field widths, operand classes fit
the format) -/
theorem rv_isa_wf : ∀ e ∈ isaTable, e.wf = true := by decide

/-- the reference lists each mnemonic once -/
theorem rv_isa_mnemonics_nodup : (isaTable.map (·.mn)).Nodup := by decide

/-- No two entries of the reference can match the same word: the specification decoder is
deterministic, its result does not depend on table order. -/
theorem rv_table_prefix_free (a b : Isa) (ha : a ∈ isaTable) (hb : b ∈ isaTable) (xlen w : Nat)
    (hma : a.matchesW xlen w = true) (hmb : b.matchesW xlen w = true) : a = b := by
  have hp : pairwiseDisjoint isaTable = true := by decide
  rcases mem_of_pairwiseDisjoint isaTable hp a ha b hb with h | h | h
  · exact h
  · exact (disjoint_sound a b xlen w h hma hmb).elim
  · exact (disjoint_sound b a xlen w h hmb hma).elim

/-- FP rows of the repo's table that do not carry the manual's encoding on the pinned tree
(recorded findings; see checks/c17.py).  A row leaves this list only by being repaired. -/
def rvKnownBadRows : List Mn := [
  .FMIN_S, .FMAX_S, .FSQRT_S, .FNMADD_S, .FNMSUB_S, .FCVT_W_S, .FCVT_L_S, .FCVT_S_W, .FCVT_S_L, .FCVT_WU_S,
  .FCVT_LU_S, .FCVT_S_WU, .FCVT_S_LU, .FSGNJN_S, .FSGNJX_S, .FMV_X_W, .FMV_W_X, .FEQ_S, .FLT_S, .FCLASS_S,
  .FMAX_D, .FSQRT_D, .FMADD_D, .FMSUB_D, .FNMADD_D, .FNMSUB_D, .FCVT_W_D, .FCVT_L_D, .FCVT_D_W, .FCVT_D_L,
  .FCVT_WU_D, .FCVT_LU_D, .FCVT_D_WU, .FCVT_D_LU, .FCVT_S_D, .FCVT_D_S, .FSGNJN_D, .FSGNJX_D, .FMV_X_D,
  .FMV_D_X, .FEQ_D, .FLT_D, .FCLASS_D]

/-- full-strength statement: every row of the regenerated table carries the manual's encoding -/
def RvTableMatchesIsaStatement : Prop := ∀ r ∈ Gen.riscvTable, rowMatchesIsa r = true

/-- Every row of the REGENERATED `_AOpContextTable` outside the recorded FP findings carries
exactly the opcode / funct3 / funct7 / fixed-rs2 / shamt flag / argument marks the manual gives for
its mnemonic. -/
theorem rv_table_matches_isa_partial : ∀ r ∈ Gen.riscvTable, r.mn ∉ rvKnownBadRows → rowMatchesIsa r = true := by
  decide

/-- the table has one row per mnemonic -/
theorem rv_table_mnemonics_nodup : (Gen.riscvTable.map (·.mn)).Nodup := by decide

/-- full-strength statement about `checkArgImm`'s ranges -/
def RvRangesMatchIsaStatement : Prop := Gen.riscvRanges = isaRanges

/-- the I, S, B and shift-amount ranges enforced by `checkArgImm` are the ISA's -/
theorem rv_ranges_match_isa_partial :
    Gen.riscvRanges.i = isaRanges.i ∧ Gen.riscvRanges.s = isaRanges.s ∧ Gen.riscvRanges.b = isaRanges.b ∧
    Gen.riscvRanges.sh32 = isaRanges.sh32 ∧ Gen.riscvRanges.sh64 = isaRanges.sh64 := by decide

/-- Decode ∘ encode: for every reference entry `e` and every table row `r` that carries `e`'s
encoding, whatever operands the encoder model accepts (any register of the right class, any
immediate in the ISA range incl. sign and alignment) the specification decoder recovers the
mnemonic and exactly those operands, in RV32 and RV64 mode. -/
theorem rv_decode_encode (e : Isa) (he : e ∈ isaTable) (r : Row) (hr : rowIsa r e = true)
    (xlen : Nat) (a : Ops) (w : Nat)
    (hrm : if e.f3.isNone ∧ (e.fmt = .R ∨ e.fmt = .R4) then a.rm < 8 else a.rm = 0)
    (h : encode r e xlen a = .ok w) :
    specDecode xlen w = some (e.mn, a) := by
  have hwf := rv_isa_wf e he
  have key : e.matchesW xlen w = true ∧ e.operands xlen w = a := by
    cases hfmt : e.fmt
    · refine dec_R e hfmt hwf r hr xlen a w ?_ h
      simp only [hfmt] at hrm
      split <;> rename_i h3 <;> simp [h3] at hrm <;> exact hrm
    · refine dec_R4 e hfmt hwf r hr xlen a w ?_ h
      have : e.f3.isNone = true := by
        simp only [Isa.wf, hfmt, Bool.and_eq_true] at hwf
        exact hwf.2.1.1.1.1.1.1.1.2
      simp [hfmt, this] at hrm; exact hrm
    · exact dec_I e hfmt hwf r hr xlen a w (by simp [hfmt] at hrm; exact hrm) h
    · exact dec_S e hfmt hwf r hr xlen a w (by simp [hfmt] at hrm; exact hrm) h
    · exact dec_B e hfmt hwf r hr xlen a w (by simp [hfmt] at hrm; exact hrm) h
    · exact dec_U e hfmt hwf r hr xlen a w (by simp [hfmt] at hrm; exact hrm) h
    · exact dec_J e hfmt hwf r hr xlen a w (by simp [hfmt] at hrm; exact hrm) h
  unfold specDecode
  rw [find?_unique isaTable _ e he key.1 (fun x hx hpx => rv_table_prefix_free x e hx he xlen w hpx key.1)]
  simp [key.2]

/-- the hypotheses of `rv_decode_encode` are satisfiable: `sraiw x31, x1, 31` on RV64 and
`jal x1, -1048576` -/
example : ∃ e ∈ isaTable, ∃ r ∈ Gen.riscvTable, rowIsa r e = true ∧
    encode r e 64 { rd := 32, rs1 := 2, rs2 := 0, rs3 := 0, imm := 31 } = .ok 0x41f0df9b := by
  refine ⟨iSh .SRAIW Opc.OP_IMM_32 5 0x20 5 true, by decide, ?_⟩
  refine ⟨{ mn := .SRAIW, opcode := 27, fmt := 3, marks := 101, funct3 := 5, funct7 := 32, rs2 := none, shamt := true }, by decide, by decide, by decide⟩

/-- composition: every good row of the regenerated table round-trips through the specification decoder -/
theorem rv_table_rows_roundtrip (r : Row) (_hr : r ∈ Gen.riscvTable) (hg : rowMatchesIsa r = true)
    (xlen : Nat) (a : Ops) (w : Nat) :
    ∃ e ∈ isaTable, e.mn = r.mn ∧
      ((if e.f3.isNone ∧ (e.fmt = .R ∨ e.fmt = .R4) then a.rm < 8 else a.rm = 0) →
        encode r e xlen a = .ok w → specDecode xlen w = some (r.mn, a)) := by
  unfold rowMatchesIsa at hg
  split at hg
  · rename_i e hl
    have he : e ∈ isaTable := List.mem_of_find?_eq_some hl
    have hmn : r.mn = e.mn := by
      simp only [rowIsa, Bool.and_eq_true, beq_iff_eq] at hg
      exact hg.1.1.1.1.1.1.1
    exact ⟨e, he, hmn.symm, fun hrm h => by rw [hmn]; exact rv_decode_encode e he r hg xlen a w hrm h⟩
  · simp at hg

end RiscV

section LoongArch
open La
/-! ## LoongArch64 -/

/-- Every format: unpacking the packed word returns the value of every segment — every register
number, every immediate piece (split offsets included) and the opcode bits. -/
theorem la_unpack_pack (fm : La.Fm) (vs : List Nat) (h : La.fits (La.layout fm) vs) :
    La.unpackSegs (La.layout fm) (La.packSegs (La.layout fm) vs) = vs := La.unpack_pack _ _ h

example : La.fits (La.layout .fcj_offset) [31, 7, 0, 65535, 18] := by simp only [La.layout, La.fits, La.Seg.width]; decide
example : ¬ La.fits (La.layout .f3R) [32, 0, 0, 8] := by simp only [La.layout, La.fits, La.Seg.width]; decide

/-- every reference entry: 32-bit value, no opcode bit inside an operand field, mask = mask of the layout -/
theorem la_isa_wf : ∀ e ∈ La.isaTable, e.wf = true := La.isaTable_wf

/-- per format: widths sum to 32, register fields are unsplit 5/3-bit fields, the immediate's pieces share
one kind and tile its field value -/
theorem la_layouts_ok : ∀ fm : La.Fm, La.layoutOK fm = true := La.layoutOK_all

/-- No two reference entries match the same word (CSRXCHG is told from CSRRD/CSRWR by rj ≥ 2): the
specification decoder is deterministic. -/
theorem la_table_prefix_free (a b : La.Isa) (ha : a ∈ La.isaTable) (hb : b ∈ La.isaTable) (w : Nat)
    (hma : a.matchesW w = true) (hmb : b.matchesW w = true) : a = b := by
  rcases La.mem_of_pairwiseDisjoint _ La.isaTable_pairwiseDisjoint a ha b hb with h | h | h
  · exact h
  · exact (La.disjoint_sound a b w h hma hmb).elim
  · exact (La.disjoint_sound b a w h hmb hma).elim

def laKnownBadRows : List La.Mn := [.ADDU16I_D]

def LaTableMatchesIsaStatement : Prop := ∀ r ∈ Gen.loong64Table, La.rowMatchesIsa r = true

/-- Every row of the REGENERATED `_AOpContextTable` outside the recorded finding carries exactly the value,
mask and format of the reference entry of its mnemonic (and the mask is the one derived from the format's
layout, `la_isa_wf`). -/
theorem la_table_matches_isa_partial :
    ∀ r ∈ Gen.loong64Table, r.mn ∉ laKnownBadRows → ∃ e ∈ La.isaTable, La.rowIsa r e = true :=
  La.mergeOK_sound laKnownBadRows La.isaTable Gen.loong64Table (by decide)

/-- Decode ∘ encode: for every reference entry `e` and every table row `r` that carries `e`'s encoding,
whatever operands the encoder model accepts (registers of the right class, numbers that fit their field,
immediates in the signed/unsigned range of their width, aligned branch offsets in range) the
specification decoder recovers the mnemonic and exactly those operands. -/
theorem la_decode_encode (e : La.Isa) (he : e ∈ La.isaTable) (r : La.Row) (hr : La.rowIsa r e = true)
    (a : La.Ops) (w : Nat) (h : La.encode r a = .ok w) :
    La.specDecode w = some (e.mn, a) := by
  have hwf := La.isaTable_wf e he
  simp only [Isa.wf, Bool.and_eq_true, decide_eq_true_eq, beq_iff_eq] at hwf
  obtain ⟨⟨hv32, hvm⟩, hmask⟩ := hwf
  simp only [rowIsa, Bool.and_eq_true, beq_iff_eq] at hr
  obtain ⟨⟨⟨⟨_, hrv⟩, hrf⟩, hrm⟩, _⟩ := hr
  have hok := layoutOK_all e.fmt
  simp only [layoutOK, Bool.and_eq_true, beq_iff_eq] at hok
  obtain ⟨⟨hsum, _⟩, _⟩ := hok
  simp only [encode, hrf, hrv, hrm] at h
  split at h
  · simp at h
  · rename_i hun
    split at h
    · simp at h
    · rename_i hcsr
      split at h
      · rename_i vs hsv
        simp only [Res.ok.injEq] at h
        have hv0 : e.mask &&& e.value = e.value := by rw [Nat.and_comm]; exact hvm
        rw [hv0] at hsv
        obtain ⟨hlt, hland⟩ := encode_mask (layout e.fmt) hsum _ a e.value hv32 vs hsv
        rw [← hmask, hvm, h] at hland
        rw [h] at hlt
        have hm : e.matchesW w = true := by
          simp only [Isa.matchesW, Bool.and_eq_true, decide_eq_true_eq, beq_iff_eq, Bool.or_eq_true, Bool.not_eq_true']
          refine ⟨⟨hlt, hland⟩, ?_⟩
          by_cases hc : e.fmt = .f2R_csr
          · right
            -- the rj field of the packed word is the register number, which the encoder required to be ≥ 2
            simp only [hc, beq_self_eq_true, Bool.true_and, Bool.or_eq_true, beq_iff_eq, not_or] at hcsr
            rw [hc] at hsv
            simp only [layout, segVals, unpackSegs, Seg.width, immWidth, Ops.reg, reduceCtorEq, if_false, if_true] at hsv
            rw [← h]
            split at hsv
            · rename_i t1 ws1 hf1 hs1
              split at hs1
              · rename_i t2 ws2 hf2 hs2
                simp only [Option.some.injEq] at hsv hs1
                subst hsv; subst hs1
                simp only [regField] at hf2
                split at hf2
                · simp only [Option.some.injEq] at hf2
                  rw [hc]
                  simp only [layout, packSegs, Seg.width]
                  have : t1 / 2 ^ 0 % 2 ^ 5 < 32 := Nat.mod_lt _ (by decide)
                  omega
                · simp at hf2
              · simp at hs1
            · simp at hsv
          · left; simp [Isa.rjGe2, hc]
        have hops : decodeOps (layout e.fmt) w = a := by
          rw [← h]; exact ops_roundtrip e.fmt a e.value vs (by simpa using hun) hsv
        unfold specDecode
        rw [find?_unique isaTable _ e he hm (fun x hx hpx => la_table_prefix_free x e hx he w hpx hm)]
        simp [hops]
      · simp at h

/-- the hypotheses are satisfiable: `bceqz $fcc7, -4194304` (most negative 21-bit word offset, split field) -/
example : ∃ r ∈ Gen.loong64Table, ∃ e ∈ La.isaTable, La.rowIsa r e = true ∧
    La.encode r { rd := 0, rs1 := 76, rs2 := 0, rs3 := 0, imm := -4194304 } = .ok 0x480000f0 := by
  refine ⟨⟨.BCEQZ, 0xfc000300, 0x48000000, .fcj_offset, true⟩, by decide, ⟨.BCEQZ, 0x48000000, 0xfc000300, .fcj_offset⟩, by decide, by decide, by decide⟩

/-- composition: every good row of the regenerated table round-trips through the specification decoder -/
theorem la_table_rows_roundtrip (r : La.Row) (hr : r ∈ Gen.loong64Table) (hg : r.mn ∉ laKnownBadRows)
    (a : La.Ops) (w : Nat) (h : La.encode r a = .ok w) : La.specDecode w = some (r.mn, a) := by
  obtain ⟨e, he, hre⟩ := la_table_matches_isa_partial r hr hg
  have := la_decode_encode e he r hre a w h
  have hmn : r.mn = e.mn := by
    simp only [La.rowIsa, Bool.and_eq_true, beq_iff_eq] at hre
    exact hre.1.1.1.1
  rw [hmn]; exact this
end LoongArch

/-! ## x86-64 (bonus: the modelled operand form `op reg, [base + disp]`) -/

theorem x64_modrm_roundtrip (md reg rm : Nat) (h1 : md < 4) (h2 : reg < 8) (h3 : rm < 8) :
    X64.unModrm (X64.modrm md reg rm) = (md, reg, rm) ∧ X64.modrm md reg rm < 256 := by
  simp only [X64.unModrm, X64.modrm, Prod.mk.injEq]; refine ⟨⟨?_, ?_, ?_⟩, ?_⟩ <;> omega

/-- `[REX] opcode ModRM [SIB] [disp8|disp32]` decodes back to operand size, both register numbers
(REX.R / REX.B extension bits, SIB for rsp/r12, forced displacement for rbp/r13) and the displacement,
for every register pair and every 32-bit displacement.  The model is tied to the real
`x64.Encode(mov r, [base+disp])` bytes by the correspondence run. -/
theorem x64_rm_decode_encode (opc w reg base : Nat) (d : Int) (ho : opc < 64 ∨ 80 ≤ opc) (hw : w < 2) (hr : reg < 16)
    (hb : base < 16) (hd : -2147483648 ≤ d ∧ d ≤ 2147483647) :
    X64.decodeRM opc (X64.encodeRM opc w reg base d) = some (w, reg, base, d) :=
  X64.rm_decode_encode opc w reg base d ho hw hr hb hd

example : X64.encodeRM 0x8b 1 9 12 (-129) = [0x4d, 0x8b, 0x8c, 0x24, 0x7f, 0xff, 0xff, 0xff] := by decide

end WaVerif.C17
