import WaVerif.Lemmas.C18
/-!
# C18 — property theorems (PC-relative hi/lo splitting)

Every `theorem` in this file is an obligation of the check and is axiom-audited.
All proofs are kernel-only (`omega`, `simp only`, `decide`, rewriting): no `bv_decide`.
-/
namespace WaVerif.C18

/-! ## RISC-V: `SplitOffset` / `CombineOffset` -/

/-- every one of the 2^32 offsets recombines exactly -/
theorem split_combine (d : BitVec 32) :
    combineOffset (splitOffset d).1 (splitOffset d).2 = d := by
  simp only [combineOffset, splitOffset]
  bv_omega

/-- the low part is a signed 12-bit immediate -/
theorem split_lo_range (d : BitVec 32) :
    -2048 ≤ (splitOffset d).2.toInt ∧ (splitOffset d).2.toInt ≤ 2047 := by
  have := (split_int d).2
  omega

/-- the high part needs 21 signed bits: it is `2^19` exactly for the top 2048 offsets
(`d ≥ 2^31 - 2^11`); the RISC-V encoder's U-type range check `[-2^20, 2^20)` accepts it and keeps
its low 20 bits. -/
theorem split_hi_range (d : BitVec 32) :
    -524288 ≤ (splitOffset d).1.toInt ∧ (splitOffset d).1.toInt ≤ 524288 ∧
    ((splitOffset d).1.toInt = 524288 ↔ 2147483648 - 2048 ≤ d.toInt) := by
  have := (split_int d).1
  have := @BitVec.toInt_lt 32 d
  have := @BitVec.le_toInt 32 d
  omega

/-- the split is *the* hi/lo decomposition: `hi = ⌊(d + 2^11) / 2^12⌋`, `lo = d - 2^12·hi` over ℤ -/
theorem split_exact (d : BitVec 32) :
    (splitOffset d).1.toInt = (d.toInt + 2048) / 4096 ∧
    d.toInt = 4096 * (splitOffset d).1.toInt + (splitOffset d).2.toInt := by
  have := split_int d
  omega

private theorem field20_shl (hi : BitVec 32) : (hi.setWidth 20).setWidth 32 <<< 12 = hi <<< 12 := by
  apply BitVec.eq_of_toNat_eq
  simp only [BitVec.toNat_shiftLeft, BitVec.toNat_setWidth, Nat.shiftLeft_eq]
  omega

private theorem field12_sext32 (lo : BitVec 32) (h : -2048 ≤ lo.toInt ∧ lo.toInt ≤ 2047) :
    (lo.setWidth 12).signExtend 32 = lo := by
  apply BitVec.eq_of_toInt_eq
  rw [toInt_sext32 12 (by omega)]
  have h1 := BitVec.toInt_eq_toNat_cond (lo.setWidth 12)
  have h2 : (lo.setWidth 12).toNat = lo.toNat % 2 ^ 12 := BitVec.toNat_setWidth _ _
  have h3 := BitVec.toInt_eq_toNat_cond lo
  have := lo.isLt
  omega

/-- RV32: what `auipc`+`addi` compute from the emitted 20-bit and 12-bit fields is `pc + d`,
for every pc and every offset (arithmetic modulo 2^32). -/
theorem rv32_cpu_target (pc d : BitVec 32) :
    cpuRv32 pc (splitOffset d).1 (splitOffset d).2 = pc + d := by
  unfold cpuRv32
  rw [field20_shl, field12_sext32 _ (split_lo_range d), BitVec.add_assoc]
  have := split_combine d
  unfold combineOffset at this
  rw [this]

/-- `MakeAbs` followed by the repo's `GetTargetAddress` at pc 0 gives the address back -/
theorem makeAbs_target (a : BitVec 32) :
    getTargetAddress 0#32 (makeAbs a).1 (makeAbs a).2 = a := by
  unfold getTargetAddress makeAbs
  rw [split_combine]
  apply BitVec.eq_of_toNat_eq
  simp only [BitVec.toNat_setWidth, BitVec.toNat_add, BitVec.toNat_signExtend, BitVec.toNat_ofNat]
  have := a.isLt
  split <;> omega

private theorem sext_setWidth_of_fits (x : BitVec 64) (h : Fits32 x) :
    (x.setWidth 32).signExtend 64 = x := by
  unfold Fits32 at h
  apply BitVec.eq_of_toInt_eq
  rw [toInt_sext64 32 (by omega)]
  have h1 := BitVec.toInt_eq_toNat_cond (x.setWidth 32)
  have h2 : (x.setWidth 32).toNat = x.toNat % 2 ^ 32 := BitVec.toNat_setWidth _ _
  have h3 := BitVec.toInt_eq_toNat_cond x
  have := x.isLt
  omega

/-- `MakePCRel`: whenever `target - pc` fits an `int32`, adding the recombined, sign-extended
offset to the 64-bit pc gives the target. -/
theorem makePCRel_target (t pc : BitVec 64) (h : Fits32 (t - pc)) :
    pc + (combineOffset (makePCRel t pc).1 (makePCRel t pc).2).signExtend 64 = t := by
  unfold makePCRel
  rw [split_combine, sext_setWidth_of_fits _ h, BitVec.add_comm, BitVec.sub_add_cancel]

example : Fits32 (0x7FFFFFF0#64 - 0x80000000#64) := by decide

/-- … and without any range condition the low 32 bits are right (this is what the repo's
`GetTargetAddress` on `uint32` addresses observes). -/
theorem getTargetAddress_makePCRel (t pc : BitVec 32) :
    getTargetAddress pc (makePCRel (t.setWidth 64) (pc.setWidth 64)).1
      (makePCRel (t.setWidth 64) (pc.setWidth 64)).2 = t := by
  unfold getTargetAddress makePCRel
  rw [split_combine]
  apply BitVec.eq_of_toNat_eq
  simp only [BitVec.toNat_setWidth, BitVec.toNat_add, BitVec.toNat_signExtend, BitVec.toNat_sub]
  have := t.isLt; have := pc.isLt
  split <;> omega

private theorem add_eq_of_toInt (a b d : BitVec 64) (h : a.toInt + b.toInt = d.toInt) : a + b = d := by
  apply BitVec.eq_of_toNat_eq
  rw [BitVec.toNat_add]
  have h1 := BitVec.toInt_eq_toNat_cond a
  have h2 := BitVec.toInt_eq_toNat_cond b
  have h3 := BitVec.toInt_eq_toNat_cond d
  have := a.isLt; have := b.isLt; have := d.isLt
  omega

/-- RV64: `auipc` sign-extends `imm20 << 12`, so the pair reaches the target exactly when
`-2^31 ≤ target - pc < 2^31 - 2^11`. -/
theorem rv64_cpu_target (t pc : BitVec 64) (h : InAuipcRange64 (t - pc)) :
    cpuRv64 pc (makePCRel t pc).1 (makePCRel t pc).2 = t := by
  unfold InAuipcRange64 at h
  unfold cpuRv64 makePCRel
  generalize hd : t - pc = D at *
  have hD : ((D.setWidth 32).toInt) = D.toInt := by
    have h1 := BitVec.toInt_eq_toNat_cond (D.setWidth 32)
    have h2 : (D.setWidth 32).toNat = D.toNat % 2 ^ 32 := BitVec.toNat_setWidth _ _
    have h3 := BitVec.toInt_eq_toNat_cond D
    have := D.isLt
    omega
  obtain ⟨hhi, hlo⟩ := split_int (D.setWidth 32)
  have hlor := split_lo_range (D.setWidth 32)
  rw [hD] at hhi hlo
  generalize (splitOffset (D.setWidth 32)).1 = hi at *
  generalize (splitOffset (D.setWidth 32)).2 = lo at *
  rw [field20_shl, BitVec.add_assoc]
  have e1 : ((hi <<< 12).signExtend 64).toInt = 4096 * hi.toInt := by
    rw [toInt_sext64 32 (by omega)]
    have h1 := BitVec.toInt_eq_toNat_cond (hi <<< 12)
    have h2 : (hi <<< 12).toNat = hi.toNat * 4096 % 2 ^ 32 := by
      rw [BitVec.toNat_shiftLeft, Nat.shiftLeft_eq]
    have h3 := BitVec.toInt_eq_toNat_cond hi
    have := hi.isLt
    omega
  have e2 : (sext12 lo).toInt = lo.toInt := by
    unfold sext12
    rw [toInt_sext64 12 (by omega)]
    have h1 := BitVec.toInt_eq_toNat_cond (lo.setWidth 12)
    have h2 : (lo.setWidth 12).toNat = lo.toNat % 2 ^ 12 := BitVec.toNat_setWidth _ _
    have h3 := BitVec.toInt_eq_toNat_cond lo
    have := lo.isLt
    omega
  have key : (hi <<< 12).signExtend 64 + sext12 lo = D := add_eq_of_toInt _ _ D (by omega)
  rw [key, ← hd, BitVec.add_comm, BitVec.sub_add_cancel]

example : InAuipcRange64 (0x80000028#64 - 0x80000000#64) := by decide

/-- the guard of `rv64_cpu_target` is tight: for the top 2048 offsets that `MakePCRel` still
accepts (`Fits32`), the RV64 pair lands 2^32 below the target.  (Remark: an ISA reach limit —
`ld` reports "relocation truncated" there; on RV32, `rv32_cpu_target` has no exception.) -/
theorem rv64_guard_tight :
    Fits32 (0x7FFFFFFF#64 - 0#64) ∧
    cpuRv64 0#64 (makePCRel 0x7FFFFFFF#64 0#64).1 (makePCRel 0x7FFFFFFF#64 0#64).2
      = 0x7FFFFFFF#64 - 0x100000000#64 := by decide

/-! ## LoongArch64: `MakeLa64PCRel` and the `pcalau12i`+`addi.d` pair -/

/-- for every pc and every target within the `pcalau12i` range, the address the CPU computes from
the emitted (hi20, lo12) pair is the target -/
theorem la64_cpu_target (pc t : BitVec 64) (h : InPcalauRange pc t) :
    cpuLa64 pc (makeLa64PCRel t pc).1 (makeLa64PCRel t pc).2 = t := by
  unfold InPcalauRange at h
  obtain ⟨f1, f2, _, _⟩ := la64_fields (t - (pc &&& ~~~0xFFF#64)) h
  simp only [cpuLa64, makeLa64PCRel]
  rw [page_add, BitVec.add_assoc, shl12_add_eq _ _ _ _ f1 f2]
  · rw [BitVec.add_comm, BitVec.sub_add_cancel]
  · rw [BitVec.toNat_shiftLeft, Nat.shiftLeft_eq]; omega

example : InPcalauRange 0x12000010c#64 0x120010130#64 := by decide
example : InPcalauRange 0xFFFFFFFFFFFFF004#64 0x10#64 := by decide   -- pc + delta wraps

/-- the emitted values already are 20-bit / 12-bit fields: the encoder's masks
(`Imm & 0xFFFFF`, `Imm & 0xFFF`) do not change them (no range condition needed). -/
theorem la64_fields_fit (pc t : BitVec 64) :
    (makeLa64PCRel t pc).1.toNat < 1048576 ∧ (makeLa64PCRel t pc).2.toNat < 4096 := by
  simp only [makeLa64PCRel]
  constructor
  · rw [toNat_and_fffff]; omega
  · rw [BitVec.toNat_setWidth, toNat_and_fff]; omega

/-- Remark (not part of the property): the repo's own inverse `GetTargetAddressLa64` omits the
sign extension of both fields, so inside the range it returns the target exactly when both
fields are non-negative as signed fields (`lo12 < 0x800` and `hi20 < 0x80000`). -/
theorem getTargetAddressLa64_agrees_iff (pc t : BitVec 64) (h : InPcalauRange pc t) :
    getTargetAddressLa64 pc (makeLa64PCRel t pc).1 (makeLa64PCRel t pc).2 = t ↔
      ((makeLa64PCRel t pc).2.toNat < 2048 ∧ (makeLa64PCRel t pc).1.toNat < 524288) := by
  unfold InPcalauRange at h
  obtain ⟨f1, f2, g1, g2, _, _⟩ := la64_fields (t - (pc &&& ~~~0xFFF#64)) h
  simp only [getTargetAddressLa64, makeLa64PCRel]
  have ht : t = (pc &&& ~~~0xFFF#64) + (t - (pc &&& ~~~0xFFF#64)) := by
    rw [BitVec.add_comm, BitVec.sub_add_cancel]
  generalize t - (pc &&& ~~~0xFFF#64) = delta at *
  generalize (BitVec.setWidth 32 (delta &&& 0xFFF#64)) = lo at *
  generalize ((if (0x800#32).sle lo then (delta.sshiftRight 12).setWidth 32 + 1#32
      else (delta.sshiftRight 12).setWidth 32) &&& 0xFFFFF#32) = hi at *
  have s1 := sext20_toInt hi g1
  have s2 := sext12_toInt lo g2
  have n1 := toNat_sext_small hi (by omega)
  have n2 := toNat_sext_small lo (by omega)
  have hsh : (hi.signExtend 64 <<< 12).toNat = hi.toNat * 4096 := by
    rw [BitVec.toNat_shiftLeft, Nat.shiftLeft_eq, n1]; omega
  rw [page_add _ _ (by omega), BitVec.add_assoc]
  conv => lhs; rhs; rw [ht]
  rw [BitVec.add_right_inj, ← BitVec.toNat_inj, BitVec.toNat_add, hsh, n2]
  have hdc := BitVec.toInt_eq_toNat_cond delta
  have := delta.isLt
  omega

end WaVerif.C18
