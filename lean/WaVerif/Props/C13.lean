import WaVerif.Model.C13Spec
import WaVerif.Model.C13RB
import WaVerif.Lemmas.C13Spec
import WaVerif.Lemmas.C13Tree
import WaVerif.Lemmas.C13Rotate
import WaVerif.Lemmas.C13Insert
import WaVerif.Lemmas.C13Slots
import WaVerif.Lemmas.C13Inv
import WaVerif.Lemmas.C13Splice
/-!
# C13 — property theorems (runtime maps behave as finite maps)

Every `theorem` in this file is an obligation of the check and is axiom-audited.

Part 1 is about the specification model (`Model/C13Spec.lean`: association list in slot order), for
every history of any length.  Part 2 is about the mirror (`Model/C13RB.lean`: the transcription of
`map.wa` over an explicit store).
-/
namespace WaVerif.C13

open WaVerif.C13Spec

/-! ## Part 1 — the specification model is a finite map, for every history -/

section spec
variable {K V : Type} [DecidableEq K]

/-- the key list never contains a key twice -/
theorem keys_nodup (ops : List (Op K V)) : (keys (run ops)).Nodup := (agree_run ops).1

/-- lookups (and with them comma-ok) agree with the mathematical finite map -/
theorem lookup_agrees (ops : List (Op K V)) (k : K) : lookup k (run ops) = denote ops k := (agree_run ops).2 k

/-- every observation a program can make of the model is the observation of the mathematical map:
`m[k]` yields the stored value or the zero value, `v, ok := m[k]` additionally whether `k` is present -/
theorem observe_lookup_agrees (zero : V) (ops : List (Op K V)) (k : K) :
    observe zero (run ops) (.get k) = .val ((denote ops k).getD zero) ∧
    observe zero (run ops) (.commaOk k) = .valOk ((denote ops k).getD zero) (denote ops k).isSome := by
  simp only [observe, lookup_agrees, and_self]

/-- `len` is the number of present keys: it equals the length of EVERY duplicate-free enumeration
of the support of the mathematical map -/
theorem len_eq_card (ops : List (Op K V)) (ks : List K) (hn : ks.Nodup)
    (hks : ∀ k, k ∈ ks ↔ (denote ops k).isSome) : len (run ops) = ks.length := by
  have h := agree_run ops
  have hp : (keys (run ops)).Perm ks := by
    rw [List.perm_ext_iff_of_nodup h.1 hn]
    intro k
    rw [hks k, ← h.2 k]
    exact mem_keys_iff_lookup_isSome
  have := hp.length_eq
  simpa [keys, len] using this

/-- such an enumeration exists (so `len_eq_card` is not vacuous): the key list itself -/
theorem support_enumerable (ops : List (Op K V)) :
    ∃ ks : List K, ks.Nodup ∧ ∀ k, k ∈ ks ↔ (denote ops k).isSome :=
  ⟨keys (run ops), keys_nodup ops, fun k => by rw [← lookup_agrees]; exact mem_keys_iff_lookup_isSome⟩

/-- a `range` loop visits each present key exactly once, with its current value, and nothing else -/
theorem range_visits_each_once (ops : List (Op K V)) :
    ((range (run ops)).map Prod.fst).Nodup ∧
    ∀ k v, (k, v) ∈ range (run ops) ↔ denote ops k = some v := by
  have h := agree_run ops
  refine ⟨h.1, fun k v => ?_⟩
  rw [← h.2 k]
  exact (lookup_eq_some_iff h.1).symm

/-- slot order, insert: a new key goes to the end, a present key keeps its slot -/
theorem insert_slot_order (k : K) (v : V) (m : SMap K V) :
    (k ∉ keys m → insert k v m = m ++ [(k, v)]) ∧ (k ∈ keys m → keys (insert k v m) = keys m) := by
  refine ⟨insert_of_not_mem v, fun h => ?_⟩
  rw [keys_insert, if_pos h]

/-- slot order, delete: the last slot moves into the vacated one ("swap with last") -/
theorem delete_slot_order (k : K) (v : V) (a b : SMap K V) (l : K × V) (h : k ∉ keys a) :
    delete k (a ++ (k, v) :: b ++ [l]) = a ++ l :: b ∧ delete k (a ++ [(k, v)]) = a :=
  ⟨delete_middle v a b l h, delete_last v a h⟩

example : run [Op.set 1 10, .set 2 20, .set 3 30, .set 1 11, .del 1, .get 2] = [(3, 30), (2, 20)] := by decide
example : (denote [Op.set 1 10, .set 2 20, .del 1] : FMap Nat Nat) 2 = some 20 := by decide
example : (1 : Nat) ∉ keys [((2 : Nat), (5 : Nat))] := by decide

end spec

/-! ## Part 2 — the mirror of `map.wa` -/

open WaVerif.C13RB

/-- well-formed store: the decidable invariant the driver monitors (`Model/C13RB.wfReport`) -/
def WF (s : St) : Prop := wf s = true


/-! ### search / Lookup on a store that represents a binary search tree -/

/-- `mapImp.Lookup` (the `search` loop + the comma-ok result) on ANY store whose root represents a
binary search tree `t` is lookup in `t`'s in-order association list.  `t.height < s.fuel` says the
loop is given enough fuel (the driver reports `fault` otherwise). -/
theorem search_correct_of_BST (s : St) (t : RTree) (k : Int)
    (hr : Rep s s.root t) (hb : BST t) (hf : t.height < s.fuel) :
    C13RB.lookup s k = C13Spec.lookup k t.toList ∧
    (∀ p, search s k = some p → (p = 0 ↔ k ∉ keys t.toList)) := by
  have hs : search s k = some (t.find k) := searchFrom_rep k hr hf
  have hl : C13RB.lookup s k = C13Spec.lookup k t.toList := by
    unfold C13RB.lookup
    rw [hs, ← lookup_eq_spec k hb]
    have h := find_lookup (s := s) k hr
    cases e : t.find k with
    | zero => simp [h.1 e]
    | succ p => simp only; rw [h.2 (by omega), e]
  refine ⟨hl, fun p hp => ?_⟩
  rw [hs] at hp
  cases hp
  rw [← C13Spec.lookup_eq_none_iff, ← lookup_eq_spec k hb]
  have h := find_lookup (s := s) k hr
  constructor
  · exact h.1
  · intro hn
    apply Classical.byContradiction
    intro hne
    rw [h.2 hne] at hn
    cases hn

/-- the in-order sequence of a BST has no repeated key, so `C13Spec.lookup` on it is membership -/
theorem bst_inorder_keys_nodup (t : RTree) (hb : BST t) : (keys t.toList).Nodup := bst_keys_nodup hb

/-! ### rotations preserve the in-order sequence -/

/-- `leftRotate x` on a store that represents `x(a, y(b, c))` at `x` (distinct nodes, `x`'s parent
outside the subtree): afterwards `y` represents `y(x(a, b), c)`, whose in-order key/value and pointer
sequences are unchanged, and the pointer that led to `x` (root or a child field of `x`'s parent) leads to `y`. -/
theorem rotate_preserves_inorder (s : St) (a b c : RTree) (x y : Nat) (kx vx ky vy : Int)
    (hr : Rep s x (.node a x kx vx (.node b y ky vy c)))
    (hnd : (RTree.node a x kx vx (.node b y ky vy c)).ptrs.Nodup)
    (hpx : s.parentOf x ∉ (RTree.node a x kx vx (.node b y ky vy c)).ptrs) :
    Rep (leftRotate s x) y (.node (.node a x kx vx b) y ky vy c) ∧
    (RTree.node (.node a x kx vx b) y ky vy c).toList = (RTree.node a x kx vx (.node b y ky vy c)).toList ∧
    (RTree.node (.node a x kx vx b) y ky vy c).ptrs = (RTree.node a x kx vx (.node b y ky vy c)).ptrs ∧
    (leftRotate s x).root = (if s.parentOf x = 0 then y else s.root) ∧
    (leftRotate s x).nodes = s.nodes ∧
    (s.parentOf x ≠ 0 → s.parentOf x < s.heap.size →
      ((leftRotate s x).nd (s.parentOf x)).left = (if x = (s.nd (s.parentOf x)).left then y else (s.nd (s.parentOf x)).left) ∧
      ((leftRotate s x).nd (s.parentOf x)).right = (if x = (s.nd (s.parentOf x)).left then (s.nd (s.parentOf x)).right else y)) := by
  have hrep := leftRotate_rep s a b c x y kx vx ky vy hr hnd hpx
  obtain ⟨_, hx0, hxs, hkx, hvx, ha, hyr⟩ := hr
  obtain ⟨hy, hy0, hys, hky, hvy, hb, hc⟩ := hyr
  simp only [RTree.ptrs, List.nodup_append, List.nodup_cons, List.mem_append, List.mem_cons, not_or] at hnd hpx
  obtain ⟨hna, ⟨⟨hxb, hxy', hxc⟩, hnb, ⟨hyc, hnc⟩, hbc⟩, hax⟩ := hnd
  obtain ⟨hpa, hpxx, hpb, hpy, hpc⟩ := hpx
  have hxy : x ≠ (s.nd x).right := by rw [hy]; exact hxy'
  have hbx : x ≠ (s.nd (s.nd x).right).left := by
    rcases rep_root_zero_or_mem hb with e | e
    · rw [e]; exact hx0
    · intro e'; rw [← e'] at e; exact hxb e
  refine ⟨hrep, by simp [RTree.toList], by simp [RTree.ptrs], ?_, leftRotate_nodes s x, fun hp0 hps => ?_⟩
  · rw [leftRotate_root s x hy0 hxy hbx, hy]
  · have := leftRotate_at_parent s x hy0 hxy hbx hp0 hps hpxx (by rw [hy]; exact hpy)
    rw [hy] at this
    exact this

/-- mirror image: `rightRotate x` on `x(y(a, b), c)` yields `y(a, x(b, c))` -/
theorem rotate_right_preserves_inorder (s : St) (a b c : RTree) (x y : Nat) (kx vx ky vy : Int)
    (hr : Rep s x (.node (.node a y ky vy b) x kx vx c))
    (hnd : (RTree.node (.node a y ky vy b) x kx vx c).ptrs.Nodup)
    (hpx : s.parentOf x ∉ (RTree.node (.node a y ky vy b) x kx vx c).ptrs) :
    Rep (rightRotate s x) y (.node a y ky vy (.node b x kx vx c)) ∧
    (RTree.node a y ky vy (.node b x kx vx c)).toList = (RTree.node (.node a y ky vy b) x kx vx c).toList ∧
    (RTree.node a y ky vy (.node b x kx vx c)).ptrs = (RTree.node (.node a y ky vy b) x kx vx c).ptrs ∧
    (rightRotate s x).root = (if s.parentOf x = 0 then y else s.root) ∧
    (rightRotate s x).nodes = s.nodes := by
  have hrep := rightRotate_rep s a b c x y kx vx ky vy hr hnd hpx
  obtain ⟨_, hx0, hxs, hkx, hvx, hyr, hc⟩ := hr
  obtain ⟨hy, hy0, hys, hky, hvy, ha, hb⟩ := hyr
  simp only [RTree.ptrs, List.nodup_append, List.nodup_cons, List.mem_append, List.mem_cons] at hnd
  obtain ⟨⟨hna, ⟨hyb, hnb⟩, hab⟩, ⟨hxc, hnc⟩, hlx⟩ := hnd
  have hxy' : x ≠ y := fun e => hlx y (by simp) x (by simp) e.symm
  have hxy : x ≠ (s.nd x).left := by rw [hy]; exact hxy'
  have hbx : x ≠ (s.nd (s.nd x).left).right := by
    rcases rep_root_zero_or_mem hb with e | e
    · rw [e]; exact hx0
    · intro e'; rw [← e'] at e; exact hlx x (by simp [e]) x (by simp) rfl
  refine ⟨hrep, by simp [RTree.toList], by simp [RTree.ptrs], ?_, rightRotate_nodes s x⟩
  rw [rightRotate_root s x hy0 hxy hbx, hy]


/-! ### rotations anywhere in the tree, and the two fix-up loops, preserve the in-order sequence

`TInv s t` (Lemmas/C13Inv.lean): the root represents `t`, nodes pairwise distinct, every `parentIdx`
leads to the tree parent (NIL for the root), every tree node sits in the slot its `NodeIdx` names,
every slot holds a tree node, NIL's child pointers are NIL.  Colours are NOT part of it: red-black
balance is monitored, not proved. -/

/-- a rotation at ANY node of the tree (or at NIL, or at a node without the needed child: no-op)
preserves the whole-tree invariant; the represented tree is the pure rotation, same in-order
key/value and node sequences -/
theorem rotation_anywhere_preserves_invariant {s : St} {t : RTree} (h : TInv s t) {x : Nat} (hx : x ∈ t.ptrs ∨ x = 0) :
    (TInv (leftRotate s x) (t.rotL x) ∧ (t.rotL x).toList = t.toList ∧ (t.rotL x).ptrs = t.ptrs) ∧
    (TInv (rightRotate s x) (t.rotR x) ∧ (t.rotR x).toList = t.toList ∧ (t.rotR x).ptrs = t.ptrs) :=
  ⟨⟨tinv_leftRotate h hx, RTree.rotL_toList x t, RTree.rotL_ptrs x t⟩,
   ⟨tinv_rightRotate h hx, RTree.rotR_toList x t, RTree.rotR_ptrs x t⟩⟩

/-- `insertFixup` (any fuel, started at any tree node): the store stays well formed and represents a
tree with the SAME in-order key/value sequence and the same nodes — so every lookup is unchanged -/
theorem insertFixup_preserves_inorder (f : Nat) {s : St} {t : RTree} (h : TInv s t) {z : Nat} (hz : z ∈ t.ptrs ∨ z = 0) :
    ∃ t', TInv (insertFixup f s z) t' ∧ t'.toList = t.toList ∧ t'.ptrs = t.ptrs :=
  good_insertFixup f ⟨t, h, rfl, rfl⟩ z hz

/-- `deleteFixup` likewise (started at any pointer: `x` may be NIL) -/
theorem deleteFixup_preserves_inorder (f : Nat) {s : St} {t : RTree} (h : TInv s t) (x : Nat) :
    ∃ t', TInv (deleteFixup f s x) t' ∧ t'.toList = t.toList ∧ t'.ptrs = t.ptrs :=
  good_deleteFixup f ⟨t, h, rfl, rfl⟩ x

/-! ### Delete -/

/-- FULL-STRENGTH refinement statement for `Delete`: on every well-formed store, `Delete` yields a
well-formed store whose slot list is (a permutation of) the spec's `delete` of the slot list and
whose lookups are those of the spec. -/
def DeleteRefinesSpec (fixed : Bool) : Prop :=
  ∀ (s : St) (k : Int), WF s →
    WF (C13RB.delete fixed s k) ∧
    (slots (C13RB.delete fixed s k)).Perm (C13Spec.delete k (slots s)) ∧
    ∀ q, C13RB.lookup (C13RB.delete fixed s k) q = C13Spec.lookup q (C13Spec.delete k (slots s))

/-- the witness history: keys 1 … 10 (values 10 … 100), then `delete(m, 4)`; node 4 has two children -/
def witnessSets : List (Op Int Int) :=
  (List.range 10).map fun i => Op.set (Int.ofNat (i + 1)) (Int.ofNat ((i + 1) * 10))

/-- the tree the witness store represents before the delete -/
def witnessTree : RTree :=
  .node (.node (.node .leaf 1 1 10 .leaf) 2 2 20 (.node .leaf 3 3 30 .leaf)) 4 4 40
    (.node (.node .leaf 5 5 50 .leaf) 6 6 60
      (.node (.node .leaf 7 7 70 .leaf) 8 8 80 (.node .leaf 9 9 90 (.node .leaf 10 10 100 .leaf))))

/-- the hypotheses of `search_correct_of_BST` and `rotate_preserves_inorder` are satisfiable: the
witness store represents `witnessTree` at its root (node 4, whose right child is node 6 and whose parent is NIL) -/
example : Rep (C13RB.run false witnessSets) (C13RB.run false witnessSets).root witnessTree ∧
    (C13RB.run false witnessSets).root = 4 ∧ (C13RB.run false witnessSets).parentOf 4 = 0 ∧
    witnessTree.ptrs.Nodup ∧ witnessTree.height < (C13RB.run false witnessSets).fuel := by decide


/-! ### the insert path (allocation, descent loop, linking — everything before `insertFixup`) -/

/-- `Update` of a NEW key on a store whose root represents a BST `t` with pairwise distinct nodes:
the allocation appends the slot, the descent loop of `insert` ends (`.at y`, enough fuel), and after
the linking step the root represents the BST insertion `t.ins k v z` of the new node `z` — again a BST
with distinct nodes, whose in-order association list has exactly the lookups of a finite-map update.
(`insertFixup` then only recolours and rotates; rotations preserve the in-order list by
`rotate_preserves_inorder`; its loop as a whole is covered by the monitored invariants, not proved.) -/
theorem insert_path_refines_spec (s : St) (t : RTree) (k v : Int)
    (hr : Rep s s.root t) (hnd : t.ptrs.Nodup) (hb : BST t) (hf : t.height < s.fuel)
    (hk : k ∉ keys t.toList) (h0 : 0 < s.heap.size) :
    ∃ y, insDescend (alloc s k v).fuel (alloc s k v) ((alloc s k v).nd s.heap.size).key (alloc s k v).root 0 = .at y ∧
      Rep (attach (alloc s k v) s.heap.size y) (attach (alloc s k v) s.heap.size y).root (t.ins k v s.heap.size) ∧
      BST (t.ins k v s.heap.size) ∧ (t.ins k v s.heap.size).ptrs.Nodup ∧
      (attach (alloc s k v) s.heap.size y).nodes = s.nodes.push s.heap.size ∧
      (∀ q, C13Spec.lookup q (t.ins k v s.heap.size).toList = if q = k then some v else C13Spec.lookup q t.toList) := by
  have hfr := alloc_fresh s k v h0
  have hr1 : Rep (alloc s k v) (alloc s k v).root t := by rw [alloc_root]; exact alloc_rep k v hr
  have hzt : s.heap.size ∉ t.ptrs := fun hm => Nat.lt_irrefl _ (rep_ptrs_ne_zero hr _ hm).2
  have hf1 : t.height < (alloc s k v).fuel := by
    unfold St.fuel at *; rw [alloc_size]; omega
  refine ⟨t.attachPtr k 0, ?_, ?_, bst_ins k v _ t hb hk, nodup_ptrs_ins k v _ t hnd hzt, ?_, lookup_ins k v _ t hb hk⟩
  · rw [hfr.key]; exact insDescend_rep k t _ 0 _ hr1 hf1 hk
  · cases t with
    | leaf =>
      have ho := attach_other (alloc s k v) s.heap.size 0 s.heap.size hfr.ne0
      simp only [RTree.attachPtr, RTree.ins]
      have hroot : (attach (alloc s k v) s.heap.size 0).root = s.heap.size := by simp [attach]
      rw [hroot]
      exact ⟨rfl, hfr.ne0, by rw [attach_size]; exact hfr.inb, by rw [attach_key]; exact hfr.key,
        by rw [attach_val]; exact hfr.val, by rw [ho.1]; exact hfr.left, by rw [ho.2]; exact hfr.right⟩
    | node l p k' v' r =>
      have hy := RTree.attachPtr_mem k (.node l p k' v' r) 0 (by simp)
      have hy0 : (RTree.node l p k' v' r).attachPtr k 0 ≠ 0 := (rep_ptrs_ne_zero hr _ hy).1
      have hroot : (attach (alloc s k v) s.heap.size ((RTree.node l p k' v' r).attachPtr k 0)).root = (alloc s k v).root := by
        rw [attach_ne_zero _ _ _ hy0]; split <;> simp
      rw [hroot]
      exact attach_rep hfr _ _ 0 (by simp) hr1 hnd hzt hk
  · rw [attach_nodes, alloc_nodes]

/-- hypotheses satisfiable: the witness store and key 11 -/
example : (11 : Int) ∉ keys witnessTree.toList ∧ 0 < (C13RB.run false witnessSets).heap.size := by decide

theorem witness_wf : WF (C13RB.run false witnessSets) := by unfold WF; decide

theorem witness_two_children : childCount (C13RB.run false witnessSets) 4 = some 2 := by decide

/-- what the pinned code does on the witness: 4 is still found, 5 is lost, and the store is broken -/
theorem witness_pinned_behaviour :
    let s := C13RB.delete false (C13RB.run false witnessSets) 4
    C13RB.lookup s 4 = some 40 ∧ C13RB.lookup s 5 = none ∧ len s = 9 ∧
    slots s = [(1, 10), (2, 20), (3, 30), (10, 100), (5, 50), (6, 60), (7, 70), (8, 80), (9, 90)] ∧
    wf s = false := by decide


/-- PARTIAL refinement that holds of the pinned code for EVERY shape of the tree (two-child nodes
included): the slot level.  If `search` finds node `z` for `k` and `z` sits in its own slot
(`nodes = NIL :: A ++ z :: C`, `z.NodeIdx = |A| + 1`, no key `k` before it), then the slot list — what
`len` and `range` observe — after `Delete` is exactly the specification's swap-with-last `delete`.
(The tree surgery of `delete(z)`, fix-up loop included, never touches `nodes`, `Key`, `Val`, `NodeIdx`.) -/
theorem delete_slots_refine (s : St) (k : Int) (z : Nat) (A C : List Nat)
    (hs : search s k = some z) (hz : z ≠ 0)
    (hN : s.nodes.toList = 0 :: (A ++ z :: C)) (hidx : (s.nd z).idx = A.length + 1)
    (hk : (s.nd z).key = k) (hA : k ∉ keys (A.map (kv s))) :
    slots (C13RB.delete false s k) = C13Spec.delete k (slots s) ∧
    len (C13RB.delete false s k) = len s - 1 := by
  obtain ⟨z', rfl⟩ : ∃ z', z = z' + 1 := ⟨z - 1, by omega⟩
  have hd : C13RB.delete false s k = vacate (treeDelete false s (z' + 1)).1 (treeDelete false s (z' + 1)).2 := by
    unfold C13RB.delete; rw [hs]
  have hkv := sameKV_treeDelete_pinned s (z' + 1)
  rw [hd, treeDelete_pinned_snd]
  have hN1 : (treeDelete false s (z' + 1)).1.nodes.toList = 0 :: (A ++ (z' + 1) :: C) := by rw [hkv.nodes]; exact hN
  have hidx1 : ((treeDelete false s (z' + 1)).1.nd (z' + 1)).idx = A.length + 1 := by rw [hkv.idx]; exact hidx
  have hmap : ∀ L : List Nat, L.map (kv (treeDelete false s (z' + 1)).1) = L.map (kv s) :=
    fun L => List.map_congr_left (fun q _ => kv_of_sameKV hkv q)
  have hzkv : kv s (z' + 1) = (k, (s.nd (z' + 1)).val) := by simp [kv, hk]
  constructor
  · rcases List.eq_nil_or_concat C with rfl | ⟨B, l, hC⟩
    · rw [vacate_slots_last _ _ A hN1 hidx1, hmap, slots_eq, hN]
      simp only [List.drop_succ_cons, List.drop_zero, List.map_append, List.map_cons, List.map_nil, hzkv]
      exact (delete_last _ _ hA).symm
    · rw [List.concat_eq_append] at hC
      subst hC
      have hN2 : (treeDelete false s (z' + 1)).1.nodes.toList = 0 :: (A ++ (z' + 1) :: B ++ [l]) := by
        rw [hN1]; simp
      rw [vacate_slots_middle _ _ A B l hN2 hidx1, hmap, hmap, kv_of_sameKV hkv, slots_eq, hN]
      simp only [List.drop_succ_cons, List.drop_zero, List.map_append, List.map_cons, List.map_nil, hzkv]
      have := delete_middle (s.nd (z' + 1)).val (A.map (kv s)) (B.map (kv s)) (kv s l) hA
      simp only [List.append_assoc, List.cons_append] at this ⊢
      exact this.symm
  · unfold C13RB.len
    have : (vacate (treeDelete false s (z' + 1)).1 (z' + 1)).nodes.size = s.nodes.size - 1 := by
      rw [vacate_nodes]; split <;> simp [hkv.nodes]
    rw [this]

/-- the hypotheses hold on the witness (node 4 = pointer 4 sits in slot 4, two children) -/
example : let s := C13RB.run false witnessSets
    search s 4 = some 4 ∧ s.nodes.toList = 0 :: ([1, 2, 3] ++ 4 :: [5, 6, 7, 8, 9, 10]) ∧ (s.nd 4).idx = [1, 2, 3].length + 1 ∧
    (s.nd 4).key = 4 ∧ (4 : Int) ∉ keys ([1, 2, 3].map (kv s)) := by decide


/-- the invariant is satisfiable: the witness store (keys 1 … 10) -/
theorem witness_tinv : TInv (C13RB.run false witnessSets) witnessTree :=
  ⟨by decide, by decide, by decide, by decide, by decide, by decide, by decide, by decide⟩

/-- PARTIAL refinement at the tree level, for a node with AT MOST ONE child (pinned code).  On any store
whose root represents a BST `t` with distinct nodes and correct parent links, if `search` finds `z` for `k`
and `z` has at most one child, then (1) `delete(z)` is the unlinking step `spliceOut` followed by
`deleteFixup` when `z` was black, (2) after the unlinking step the root represents `t.remove z`, a BST whose
in-order list is `t`'s without `k`'s entry, and (3) every `Lookup` on that store is the finite-map delete.
`deleteFixup` then preserves the in-order sequence (`deleteFixup_preserves_inorder`) and the slot
bookkeeping refines the spec (`delete_slots_refine`); gluing these across the intermediate store (whose
slot array still lists the unlinked node) is monitored by the driver, not proved. -/
theorem delete_refines_spec_partial (s : St) (t : RTree) (k : Int) (z : Nat)
    (hr : Rep s s.root t) (hn : t.ptrs.Nodup) (hp : POK s 0 t) (hb : BST t) (hf : t.height < s.fuel)
    (hs : search s k = some z) (hz : z ≠ 0)
    (h1 : (s.nd z).left = 0 ∨ (s.nd z).right = 0) :
    (treeDelete false s z).1 =
      (if ((spliceOut s z).nd z).red = false
       then deleteFixup (spliceOut s z).fuel (spliceOut s z) (if (s.nd z).left ≠ 0 then (s.nd z).left else (s.nd z).right)
       else spliceOut s z) ∧
    Rep (spliceOut s z) (spliceOut s z).root (t.remove z) ∧ BST (t.remove z) ∧
    (∃ L R v, t.toList = L ++ (k, v) :: R ∧ (t.remove z).toList = L ++ R) ∧
    (∀ q, C13RB.lookup (spliceOut s z) q = if q = k then none else C13Spec.lookup q t.toList) := by
  have hfind : search s k = some (t.find k) := searchFrom_rep k hr hf
  have hzf : z = t.find k := by rw [hs] at hfind; exact Option.some.inj hfind
  have hfm := find_mem (s := s) k hr (hzf ▸ hz)
  rw [← hzf] at hfm
  obtain ⟨hzm, hzk⟩ := hfm
  have hrep := spliceOut_rep s z t hr hn hp hzm
  have hbst := bst_remove z t hb
  obtain ⟨L, R, e1, e2⟩ := remove_toList hr hn hzm h1
  rw [hzk] at e1
  refine ⟨treeDelete_le1 s z h1, hrep, hbst, ⟨L, R, _, e1, e2⟩, fun q => ?_⟩
  have hf' : (t.remove z).height < (spliceOut s z).fuel := by
    have := height_remove_le z t
    unfold St.fuel at *
    rw [spliceOut_size]
    omega
  rw [(search_correct_of_BST (spliceOut s z) (t.remove z) q hrep hbst hf').1, e2]
  have hkn := bst_keys_nodup hb
  rw [e1] at hkn
  rw [lookup_remove_middle L R _ hkn q, e1]

/-- hypotheses satisfiable: the witness store and key 5 (a leaf: no children) -/
example : search (C13RB.run false witnessSets) 5 = some 5 ∧ ((C13RB.run false witnessSets).nd 5).left = 0 ∧
    POK (C13RB.run false witnessSets) 0 witnessTree ∧ BST witnessTree := by decide

/-- the full statement is FALSE of the pinned code (`fixed = false`) -/
theorem delete_refines_spec_false : ¬ DeleteRefinesSpec false := by
  intro h
  have h4 := (h (C13RB.run false witnessSets) 4 witness_wf).2.2 4
  revert h4
  decide

/-- the same witness under the repaired `delete` (`proposed_fixes/C13-delete-two-children.diff`) -/
theorem witness_fixed_behaviour :
    let s := C13RB.delete true (C13RB.run true witnessSets) 4
    C13RB.lookup s 4 = none ∧ C13RB.lookup s 5 = some 50 ∧ len s = 9 ∧
    slots s = [(1, 10), (2, 20), (3, 30), (5, 50), (10, 100), (6, 60), (7, 70), (8, 80), (9, 90)] ∧
    wf s = true := by decide

end WaVerif.C13
