import WaVerif.Model.C13Spec
import WaVerif.Model.C13RB
import WaVerif.Lemmas.C13Spec
/-!
# C13 — property theorems (runtime maps behave as finite maps)

Every `theorem` in this file is an obligation of the check and is axiom-audited.

Part 1 is about the specification model (`Model/C13Spec.lean`: association list in slot order), for
every history of any length.  Part 2 is about the mirror (`Model/C13RB.lean`: the transcription of
`map.wa` over an explicit store).
-/
namespace WaVerif.C13

open WaVerif.C13Spec

/-! ## Part 1 — the specification model is a finite map, for every history -/

section spec
variable {K V : Type} [DecidableEq K]

/-- the key list never contains a key twice -/
theorem keys_nodup (ops : List (Op K V)) : (keys (run ops)).Nodup := (agree_run ops).1

/-- lookups (and with them comma-ok) agree with the mathematical finite map -/
theorem lookup_agrees (ops : List (Op K V)) (k : K) : lookup k (run ops) = denote ops k := (agree_run ops).2 k

/-- every observation a program can make of the model is the observation of the mathematical map:
`m[k]` yields the stored value or the zero value, `v, ok := m[k]` additionally whether `k` is present -/
theorem observe_lookup_agrees (zero : V) (ops : List (Op K V)) (k : K) :
    observe zero (run ops) (.get k) = .val ((denote ops k).getD zero) ∧
    observe zero (run ops) (.commaOk k) = .valOk ((denote ops k).getD zero) (denote ops k).isSome := by
  simp only [observe, lookup_agrees, and_self]

/-- `len` is the number of present keys: it equals the length of EVERY duplicate-free enumeration
of the support of the mathematical map -/
theorem len_eq_card (ops : List (Op K V)) (ks : List K) (hn : ks.Nodup)
    (hks : ∀ k, k ∈ ks ↔ (denote ops k).isSome) : len (run ops) = ks.length := by
  have h := agree_run ops
  have hp : (keys (run ops)).Perm ks := by
    rw [List.perm_ext_iff_of_nodup h.1 hn]
    intro k
    rw [hks k, ← h.2 k]
    exact mem_keys_iff_lookup_isSome
  have := hp.length_eq
  simpa [keys, len] using this

/-- such an enumeration exists (so `len_eq_card` is not vacuous): the key list itself -/
theorem support_enumerable (ops : List (Op K V)) :
    ∃ ks : List K, ks.Nodup ∧ ∀ k, k ∈ ks ↔ (denote ops k).isSome :=
  ⟨keys (run ops), keys_nodup ops, fun k => by rw [← lookup_agrees]; exact mem_keys_iff_lookup_isSome⟩

/-- a `range` loop visits each present key exactly once, with its current value, and nothing else -/
theorem range_visits_each_once (ops : List (Op K V)) :
    ((range (run ops)).map Prod.fst).Nodup ∧
    ∀ k v, (k, v) ∈ range (run ops) ↔ denote ops k = some v := by
  have h := agree_run ops
  refine ⟨h.1, fun k v => ?_⟩
  rw [← h.2 k]
  exact (lookup_eq_some_iff h.1).symm

/-- slot order, insert: a new key goes to the end, a present key keeps its slot -/
theorem insert_slot_order (k : K) (v : V) (m : SMap K V) :
    (k ∉ keys m → insert k v m = m ++ [(k, v)]) ∧ (k ∈ keys m → keys (insert k v m) = keys m) := by
  refine ⟨insert_of_not_mem v, fun h => ?_⟩
  rw [keys_insert, if_pos h]

/-- slot order, delete: the last slot moves into the vacated one ("swap with last") -/
theorem delete_slot_order (k : K) (v : V) (a b : SMap K V) (l : K × V) (h : k ∉ keys a) :
    delete k (a ++ (k, v) :: b ++ [l]) = a ++ l :: b ∧ delete k (a ++ [(k, v)]) = a :=
  ⟨delete_middle v a b l h, delete_last v a h⟩

example : run [Op.set 1 10, .set 2 20, .set 3 30, .set 1 11, .del 1, .get 2] = [(3, 30), (2, 20)] := by decide
example : (denote [Op.set 1 10, .set 2 20, .del 1] : FMap Nat Nat) 2 = some 20 := by decide
example : (1 : Nat) ∉ keys [((2 : Nat), (5 : Nat))] := by decide

end spec

/-! ## Part 2 — the mirror of `map.wa` -/

open WaVerif.C13RB

/-- well-formed store: the decidable invariant the driver monitors (`Model/C13RB.wfReport`) -/
def WF (s : St) : Prop := wf s = true

/-- FULL-STRENGTH refinement statement for `Delete`: on every well-formed store, `Delete` yields a
well-formed store whose slot list is (a permutation of) the spec's `delete` of the slot list and
whose lookups are those of the spec. -/
def DeleteRefinesSpec (fixed : Bool) : Prop :=
  ∀ (s : St) (k : Int), WF s →
    WF (C13RB.delete fixed s k) ∧
    (slots (C13RB.delete fixed s k)).Perm (C13Spec.delete k (slots s)) ∧
    ∀ q, C13RB.lookup (C13RB.delete fixed s k) q = C13Spec.lookup q (C13Spec.delete k (slots s))

/-- the witness history: keys 1 … 10 (values 10 … 100), then `delete(m, 4)`; node 4 has two children -/
def witnessSets : List (Op Int Int) :=
  (List.range 10).map fun i => Op.set (Int.ofNat (i + 1)) (Int.ofNat ((i + 1) * 10))

theorem witness_wf : WF (C13RB.run false witnessSets) := by unfold WF; decide

theorem witness_two_children : childCount (C13RB.run false witnessSets) 4 = some 2 := by decide

/-- what the pinned code does on the witness: 4 is still found, 5 is lost, and the store is broken -/
theorem witness_pinned_behaviour :
    let s := C13RB.delete false (C13RB.run false witnessSets) 4
    C13RB.lookup s 4 = some 40 ∧ C13RB.lookup s 5 = none ∧ len s = 9 ∧
    slots s = [(1, 10), (2, 20), (3, 30), (10, 100), (5, 50), (6, 60), (7, 70), (8, 80), (9, 90)] ∧
    wf s = false := by decide

/-- the full statement is FALSE of the pinned code (`fixed = false`) -/
theorem delete_refines_spec_false : ¬ DeleteRefinesSpec false := by
  intro h
  have h4 := (h (C13RB.run false witnessSets) 4 witness_wf).2.2 4
  revert h4
  decide

/-- the same witness under the repaired `delete` (`proposed_fixes/C13-delete-two-children.diff`) -/
theorem witness_fixed_behaviour :
    let s := C13RB.delete true (C13RB.run true witnessSets) 4
    C13RB.lookup s 4 = none ∧ C13RB.lookup s 5 = some 50 ∧ len s = 9 ∧
    slots s = [(1, 10), (2, 20), (3, 30), (5, 50), (10, 100), (6, 60), (7, 70), (8, 80), (9, 90)] ∧
    wf s = true := by decide

end WaVerif.C13
