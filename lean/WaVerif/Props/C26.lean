import WaVerif.Lemmas.C26
/-!
# C26 — debug-adapter messages survive stream framing; type dispatch is total and unambiguous

Every `theorem` in this file is an obligation of the check and is axiom-audited.
Framing constants and the three constructor tables are the regenerated `WaVerif.Gen.C26`.
(The JSON field-level round trip of every registered type is explored on the real code by the
check; JSON marshalling itself is Go's library.)
-/
namespace WaVerif.C26
open WaVerif.Gen.C26 WaVerif.Stream

/-! ## the regenerated constants are the ones the model transcribes -/

theorem header_regex_is_modelled : cHeaderRegex = "^Content-Length: ([0-9]+)$" := by decide
theorem regex_prefix_is_writer_prefix : regexPrefix = cHeaderPrefix := by decide
theorem header_suffix_is_delimiter : cHeaderSuffix = 13 :: lfCrLf ∧ cCrLfCrLf = 13 :: lfCrLf := by decide
theorem max_length_fits_int64 : cContentMaxLength < 2 ^ 63 := by decide

/-! ## decimal -/

/-- `%d` produces a non-empty string of ASCII digits that `ParseInt` reads back as the same number -/
theorem decimal_roundtrip (n : Nat) :
    decDigits n ≠ [] ∧ (∀ d ∈ decDigits n, isDigit d = true) ∧ parseDec (decDigits n) = n :=
  ⟨decDigits_ne_nil n, decDigits_isDigit n, parseDec_decDigits n⟩

/-! ## one message -/

theorem read_len_write_header (n : Nat) (hn : n ≤ cContentMaxLength) (rest : List Nat) :
    readLen (writeHeader n ++ rest) = .ok (n, rest) := by
  have hsuf := header_suffix_is_delimiter.1
  have hnocr : ∀ b ∈ cHeaderPrefix ++ decDigits n, b ≠ 13 := by
    intro b hb
    simp only [List.mem_append] at hb
    rcases hb with hb | hb
    · have : ∀ x ∈ cHeaderPrefix, x ≠ 13 := by decide
      exact this b hb
    · exact isDigit_ne_cr (decDigits_isDigit n b hb)
  have hs : writeHeader n ++ rest = (cHeaderPrefix ++ decDigits n) ++ 13 :: (lfCrLf ++ rest) := by
    simp [writeHeader, hsuf]
  unfold readLen
  rw [hs, takeUntil_append 13 _ _ hnocr []]
  simp only [List.nil_append]
  have h3 : takeN 3 (lfCrLf ++ rest) [] = some (lfCrLf, rest) := takeN_append lfCrLf rest []
  rw [h3]
  simp only
  have hv : headerValue (cHeaderPrefix ++ decDigits n ++ [13]) lfCrLf = .ok n := by
    unfold headerValue
    rw [if_neg (by simp), trimCr_snoc, ← regex_prefix_is_writer_prefix,
      matchHeader_prefix _ (decDigits_ne_nil n) (decDigits_isDigit n)]
    simp only [parseDec_decDigits]
    have := max_length_fits_int64
    rw [if_neg (by omega), if_neg (by omega)]
  rw [hv]

/-- `ReadBaseMessage` on the output of `WriteBaseMessage` followed by anything returns exactly the
content and leaves exactly what followed — for every content up to the 4 MiB limit. -/
theorem read_write_base (c rest : List Nat) (hc : c.length ≤ cContentMaxLength) :
    readBase (writeBase c ++ rest) = .ok (c, rest) := by
  unfold readBase writeBase
  rw [List.append_assoc, read_len_write_header _ hc]
  simp only
  have := takeN_append c rest []
  simp only [List.nil_append] at this
  rw [this]

example : readBase (writeBase [123, 13, 10, 13, 10, 125] ++ [67]) = .ok ([123, 13, 10, 13, 10, 125], [67]) :=
  read_write_base _ _ (by decide)

/-- The excluded point: `WriteBaseMessage` does not enforce the limit `ReadBaseMessage` enforces;
a longer content is written but refused by the reader (compared with the real code at 4 MiB + 1). -/
theorem too_long_rejected (c rest : List Nat) (hc : cContentMaxLength < c.length) (h63 : c.length < 2 ^ 63) :
    readBase (writeBase c ++ rest) = .error .toolong := by
  have hsuf := header_suffix_is_delimiter.1
  have hnocr : ∀ b ∈ cHeaderPrefix ++ decDigits c.length, b ≠ 13 := by
    intro b hb
    simp only [List.mem_append] at hb
    rcases hb with hb | hb
    · have : ∀ x ∈ cHeaderPrefix, x ≠ 13 := by decide
      exact this b hb
    · exact isDigit_ne_cr (decDigits_isDigit _ b hb)
  have hs : writeBase c ++ rest = (cHeaderPrefix ++ decDigits c.length) ++ 13 :: (lfCrLf ++ (c ++ rest)) := by
    simp [writeBase, writeHeader, hsuf]
  unfold readBase readLen
  rw [hs, takeUntil_append 13 _ _ hnocr []]
  simp only [List.nil_append]
  have h3 : takeN 3 (lfCrLf ++ (c ++ rest)) [] = some (lfCrLf, c ++ rest) :=
    takeN_append lfCrLf (c ++ rest) []
  rw [h3]
  simp only
  have hv : headerValue (cHeaderPrefix ++ decDigits c.length ++ [13]) lfCrLf = .error .toolong := by
    unfold headerValue
    rw [if_neg (by simp), trimCr_snoc, ← regex_prefix_is_writer_prefix,
      matchHeader_prefix _ (decDigits_ne_nil _) (decDigits_isDigit _)]
    simp only [parseDec_decDigits]
    rw [if_neg (by omega), if_pos hc]
  rw [hv]

/-! ## a stream of messages, arbitrary chunking -/

theorem base_stream_roundtrip_rest (cs : List (List Nat)) (h : ∀ c ∈ cs, c.length ≤ cContentMaxLength)
    (rest : List Nat) :
    readAllBase (cs.flatMap writeBase ++ rest) = (cs ++ (readAllBase rest).1, (readAllBase rest).2) := by
  induction cs with
  | nil => simp
  | cons c cs ih =>
    have hc := h c (by simp)
    have hcs : ∀ d ∈ cs, d.length ≤ cContentMaxLength := fun d hd => h d (by simp [hd])
    rw [List.flatMap_cons, List.append_assoc, readAllBase_ok (read_write_base c _ hc), ih hcs]
    simp

/-- every sequence of contents is read back exactly and in order; the reader then reports EOF -/
theorem base_stream_roundtrip (cs : List (List Nat)) (h : ∀ c ∈ cs, c.length ≤ cContentMaxLength) :
    readAllBase (cs.flatMap writeBase) = (cs, .eof) := by
  have h0 : readAllBase [] = ([], .eof) := readAllBase_error (by simp [readBase, readLen, takeUntil])
  have := base_stream_roundtrip_rest cs h []
  simpa [h0] using this

example : readAllBase ([[1, 2], [], [13]].flatMap writeBase) = ([[1, 2], [], [13]], .eof) :=
  base_stream_roundtrip _ (by decide)

/-- However the transport splits the stream into reads (every read returns ≥ 1 byte until EOF) and
whatever the size of the reader's buffer, `ReadBaseMessage` called repeatedly computes exactly what
it computes on the unsplit stream. -/
theorem base_chunking_irrelevant (cap : Nat) (hcap : 1 ≤ cap) (cs : Chunks) (hwf : ChunksWF cs)
    (fuel : Nat) (hf : cs.flatten.length < fuel) :
    readAllBaseC cap fuel (Buffered.ofChunks cs) = readAllBase cs.flatten := by
  rw [readAllBaseC_flat cap fuel _ (ofChunks_wf hcap hwf) (by simpa using hf), ofChunks_flat]

/-- The framing half of the property: every content sequence, every chunking, every buffer size. -/
theorem read_write_base_chunked (contents : List (List Nat))
    (h : ∀ c ∈ contents, c.length ≤ cContentMaxLength)
    (cap : Nat) (hcap : 1 ≤ cap) (cs : Chunks) (hwf : ChunksWF cs)
    (hcs : cs.flatten = contents.flatMap writeBase) (fuel : Nat) (hf : cs.flatten.length < fuel) :
    readAllBaseC cap fuel (Buffered.ofChunks cs) = (contents, .eof) := by
  rw [base_chunking_irrelevant cap hcap cs hwf fuel hf, hcs, base_stream_roundtrip contents h]

/-! ## dispatch over the regenerated constructor tables -/

/-- the byte-string literals of the model are the strings of codec.go -/
theorem kind_literals :
    sRequest = "request".toList.map Char.toNat ∧ sResponse = "response".toList.map Char.toNat ∧
    sEvent = "event".toList.map Char.toNat ∧ sErrorResponse = "ErrorResponse".toList.map Char.toNat := by
  decide

set_option maxRecDepth 16384 in
theorem request_names_distinct : (requestTable.map Prod.fst).Nodup :=
  nodup_of_codes bcode _ (by decide)
set_option maxRecDepth 16384 in
theorem response_names_distinct : (responseTable.map Prod.fst).Nodup :=
  nodup_of_codes bcode _ (by decide)
set_option maxRecDepth 16384 in
theorem event_names_distinct : (eventTable.map Prod.fst).Nodup :=
  nodup_of_codes bcode _ (by decide)

/-- Totality: for every registered row, a message carrying the row's `type` and `command`/`event`
(and `success = true` for a response) is dispatched to exactly the row's constructor. -/
theorem dispatch_total : ∀ r ∈ allRows, decodeRow r = .ok r.goType := by
  intro r hr
  simp only [allRows, List.mem_append, List.mem_map] at hr
  rcases hr with (⟨p, hp, rfl⟩ | ⟨p, hp, rfl⟩) | ⟨p, hp, rfl⟩
  · have := lookup_of_mem_nodup requestTable p.1 p.2 request_names_distinct hp
    simp [decodeRow, decodeKind, this]
  · have := lookup_of_mem_nodup responseTable p.1 p.2 response_names_distinct hp
    have h1 : sResponse ≠ sRequest := by decide
    simp [decodeRow, decodeKind, this, h1]
  · have := lookup_of_mem_nodup eventTable p.1 p.2 event_names_distinct hp
    have h1 : sEvent ≠ sRequest := by decide
    have h2 : sEvent ≠ sResponse := by decide
    simp [decodeRow, decodeKind, this, h1, h2]

set_option maxRecDepth 16384 in
/-- Injectivity: no Go type is registered twice and none is `ErrorResponse`; so the Go type of a
message determines its row, and (with `dispatch_total`) a message with its row's attributes decodes
to its own type and to no other. -/
theorem dispatch_injective : (sErrorResponse :: allRows.map (·.goType)).Nodup :=
  nodup_of_codes bcode _ (by decide)

/-- a failed response is decoded as `ErrorResponse` whatever its command -/
theorem failed_response_is_error (command event : List Nat) :
    decodeKind sResponse command event false = .ok sErrorResponse := by
  have h1 : sResponse ≠ sRequest := by decide
  simp [decodeKind, h1]

set_option maxRecDepth 16384 in
/-- requests and responses are registered for exactly the same commands -/
theorem request_response_same_commands :
    (requestTable.map (fun r => bcode r.1)) = (responseTable.map (fun r => bcode r.1)) := by decide

/-! ## a message cut short is never delivered -/

theorem takeN_short : ∀ (n : Nat) (s acc : List Nat), s.length < n → takeN n s acc = none
  | 0, s, acc, h => by omega
  | n + 1, [], acc, _ => by simp [takeN]
  | n + 1, b :: rest, acc, h => by
    rw [takeN]; exact takeN_short n rest _ (by simpa using h)

/-- A message whose content is cut short (connection dropped mid-message) is never delivered:
`ReadBaseMessage` reports EOF (nothing of the content arrived) or unexpected EOF. -/
theorem base_truncated_content (c : List Nat) (hc : c.length ≤ cContentMaxLength) (k : Nat) (hk : k < c.length) :
    readBase (writeHeader c.length ++ c.take k) = .error (if k = 0 then .eof else .ueof) := by
  unfold readBase
  rw [read_len_write_header c.length hc]
  simp only []
  rw [takeN_short c.length (c.take k) [] (by simp; omega)]
  cases k with
  | zero => simp
  | succ j =>
    have : (c.take (j + 1)).isEmpty = false := by
      cases c with
      | nil => simp at hk
      | cons a t => simp
    simp [this]

example : readBase (writeHeader 3 ++ [1, 2]) = .error .ueof := base_truncated_content [1, 2, 3] (by decide) 2 (by decide)

end WaVerif.C26
