import WaVerif.Lemmas.C22Utf8
/-!
# C22 — property theorems (text diffs)

Every `theorem` in this file is an obligation of the check and is axiom-audited.
Model: `WaVerif/Model/C22.lean`.  The LCS search is a parameter: the theorems assume its
contract `ValidLcs` (evaluated at run time on every generated pair).
-/
namespace WaVerif.C22

/-! ## lcs.toDiffs -/

/-- **toDiffs is correct under the LCS contract**: applying the diffs to `a` gives `b`
(any element type: bytes for the ASCII path, runes otherwise). -/
theorem toDiffs_correct {α : Type} [DecidableEq α] (l : List Diag) (a b : List α) (h : ValidLcs l a b) :
    applyDiffs a b 0 (toDiffs l a.length b.length) = b := by
  have := toDiffsGo_correct a b l 0 0 h
  simpa [toDiffs] using this

/-- the diffs are in order, do not overlap and stay inside `a` -/
theorem toDiffs_chain {α : Type} [DecidableEq α] (l : List Diag) (a b : List α) (h : ValidLcs l a b) :
    DiffChain a.length 0 (toDiffs l a.length b.length) :=
  toDiffsGo_chain a b l 0 0 h

example : ValidLcs [⟨0, 0, 2⟩, ⟨3, 2, 1⟩] [1, 2, 9, 3] [1, 2, 3, 7] := by decide
example : toDiffs [⟨0, 0, 2⟩, ⟨3, 2, 1⟩] 4 4 = [⟨2, 3, 2, 2⟩, ⟨4, 4, 3, 4⟩] := by decide

/-! ## rune offsets → byte offsets -/

/-- **diffRunes**: for rune sequences `a`, `b` and diagonals satisfying the contract, the byte
edits fall on rune boundaries of `utf8 a`, are sorted / non-overlapping / in bounds, and
`Apply(utf8 a, edits) = utf8 b`. -/
theorem diffRunes_bytes (a b : List Nat) (l : List Diag) (h : ValidLcs l a b) :
    let es := diffRunes a b (toDiffs l a.length b.length)
    (∀ e ∈ es, OnBoundary a e.start ∧ OnBoundary a e.stop) ∧
    EditChain (utf8 a).length 0 es ∧
    apply (utf8 a) es = .ok (utf8 b) := by
  intro es
  have hc := toDiffs_chain l a b h
  have hb := diffRunesGo_boundary a b _ 0 hc
  have hch := diffRunesGo_chain a b _ 0 hc
  have hap := applyGo_diffRunesGo a b _ 0 hc
  simp only [List.take_zero, utf8Len, List.map_nil, List.sum_nil] at hb hch hap
  have hch' : EditChain (utf8 a).length 0 es := by
    rw [length_utf8]; exact hch
  refine ⟨hb, hch', ?_⟩
  rw [apply_of_chain (utf8 a) es hch']
  have : applyGo (utf8 a) 0 es = utf8 (applyDiffs a b 0 (toDiffs l a.length b.length)) := hap
  rw [this, toDiffs_correct l a b h]

/-- ASCII path (`diffASCII`): byte diffs are used as they are; correct for ANY bytes -/
theorem diffASCII_apply (a b : List Nat) (l : List Diag) (h : ValidLcs l a b) :
    apply a (diffASCII b (toDiffs l a.length b.length)) = .ok b := by
  have hc := toDiffs_chain l a b h
  have key : ∀ (ds : List RDiff) (last : Nat), DiffChain a.length last ds →
      EditChain a.length last (diffASCII b ds) ∧ applyGo a last (diffASCII b ds) = applyDiffs a b last ds := by
    intro ds
    induction ds with
    | nil => intro last _; simp [diffASCII, EditChain, applyGo, applyDiffs]
    | cons d rest ih =>
      intro last hcc
      simp only [DiffChain] at hcc
      obtain ⟨h1, h2, h3, hrest⟩ := hcc
      have ⟨i1, i2⟩ := ih d.stop hrest
      constructor
      · simp only [diffASCII, List.map_cons, EditChain]
        exact ⟨by omega, by omega, by omega, i1⟩
      · simp only [diffASCII, List.map_cons, applyGo, applyDiffs, Int.toNat_natCast]
        simp only [diffASCII] at i2
        rw [i2]
  have ⟨k1, k2⟩ := key _ 0 hc
  rw [apply_of_chain a _ k1, k2, toDiffs_correct l a b h]

/-- **Strings / Bytes**: for well-formed UTF-8 `s`, `t` and diagonals satisfying the contract on
the sequences the search is run on, `Apply(s, Strings(s,t)) = t`. -/
theorem strings_apply (s t : List Nat) (hs : ValidUtf8 s) (ht : ValidUtf8 t) (l : List Diag)
    (hl : if isASCII s && isASCII t then ValidLcs l s t else ValidLcs l (decodeRunes s) (decodeRunes t)) :
    apply s (stringsEdits s t l) = .ok t := by
  unfold stringsEdits
  by_cases heq : s = t
  · subst heq
    simp only [if_true]
    exact apply_of_chain s [] (by simp [EditChain])
  · simp only [heq, if_false]
    by_cases hasc : (isASCII s && isASCII t) = true
    · simp only [hasc, if_true] at hl ⊢
      exact diffASCII_apply s t l hl
    · simp only [hasc] at hl ⊢
      have := (diffRunes_bytes (decodeRunes s) (decodeRunes t) l hl).2.2
      unfold ValidUtf8 at hs ht
      rw [hs, ht] at this
      exact this

/-- the edits `Strings` returns for well-formed UTF-8 are sorted, non-overlapping, in bounds -/
theorem strings_edits_chain (s t : List Nat) (hs : ValidUtf8 s) (l : List Diag)
    (hl : if isASCII s && isASCII t then ValidLcs l s t else ValidLcs l (decodeRunes s) (decodeRunes t))
    (hne : s ≠ t) (hna : (isASCII s && isASCII t) = false) :
    EditChain s.length 0 (stringsEdits s t l) ∧
    ∀ e ∈ stringsEdits s t l, OnBoundary (decodeRunes s) e.start ∧ OnBoundary (decodeRunes s) e.stop := by
  unfold stringsEdits
  simp only [hne, if_false, hna]
  simp only [hna] at hl
  have := diffRunes_bytes (decodeRunes s) (decodeRunes t) l hl
  unfold ValidUtf8 at hs
  rw [hs] at this
  exact ⟨this.2.1, this.1⟩

example : ValidUtf8 [0xC3, 0xA9, 0x61] := by decide
example : ¬ ValidUtf8 [0xFF, 0x20, 0x61] := by decide
example : decodeRunes [0xC3, 0xA9, 0x61] = [0xE9, 0x61] := by decide
example : (if isASCII [0xC3, 0xA9, 0x61] && isASCII [0xC3, 0xA9, 0x62] then ValidLcs [⟨0, 0, 1⟩] [0xC3, 0xA9, 0x61] [0xC3, 0xA9, 0x62]
    else ValidLcs [⟨0, 0, 1⟩] (decodeRunes [0xC3, 0xA9, 0x61]) (decodeRunes [0xC3, 0xA9, 0x62])) := by decide

/-- The statement without the well-formedness guard is FALSE of model and code: for
`"\xff a"` / `"\xff b"` the edit is `{4,5,"b"}` and `Apply` rejects it (recorded finding). -/
def StringsApplyAnyBytesStatement : Prop :=
  ∀ (s t : List Nat) (l : List Diag),
    (if isASCII s && isASCII t then ValidLcs l s t else ValidLcs l (decodeRunes s) (decodeRunes t)) →
    apply s (stringsEdits s t l) = .ok t

theorem strings_apply_any_bytes_false : ¬ StringsApplyAnyBytesStatement := by
  intro h
  have := h [0xFF, 0x20, 0x61] [0xFF, 0x20, 0x62] [⟨0, 0, 2⟩] (by decide)
  revert this
  decide

/-! ## Apply and the order in which edits are supplied -/

theorem apply_sorts (src : List Nat) (es : List Edit) : apply src es = apply src (sortEdits es) := by
  have hs : (sortEdits es).Pairwise (fun a b => editLE a b = true) :=
    List.pairwise_mergeSort editLE_trans editLE_total es
  have h2 : sortEdits (sortEdits es) = sortEdits es := List.mergeSort_of_pairwise hs
  unfold apply validate
  simp only [validate_order src es, validate_order src (sortEdits es), h2, ite_self]

/-- **order independence**: two lists holding the same edits, no two distinct edits sharing
both offsets (insertions at one point are applied in the order given, so they are excluded),
produce the same result (or the same error). -/
theorem apply_order_independent (src : List Nat) (es es' : List Edit) (hp : es.Perm es')
    (hd : ∀ a b, a ∈ es → b ∈ es → a.start = b.start → a.stop = b.stop → a = b) :
    apply src es = apply src es' := by
  rw [apply_sorts src es, apply_sorts src es']
  have h1 : (sortEdits es).Pairwise (fun a b => editLE a b = true) :=
    List.pairwise_mergeSort editLE_trans editLE_total es
  have h2 : (sortEdits es').Pairwise (fun a b => editLE a b = true) :=
    List.pairwise_mergeSort editLE_trans editLE_total es'
  have hperm : (sortEdits es).Perm (sortEdits es') :=
    ((List.mergeSort_perm es editLE).trans hp).trans (List.mergeSort_perm es' editLE).symm
  have : sortEdits es = sortEdits es' := by
    apply List.Perm.eq_of_pairwise (le := fun a b => editLE a b = true) _ h1 h2 hperm
    intro a b ha hb hab hba
    have ha' : a ∈ es := (List.mergeSort_perm es editLE).subset ha
    have hb' : b ∈ es := hp.symm.subset ((List.mergeSort_perm es' editLE).subset hb)
    simp only [editLE, Bool.or_eq_true, Bool.and_eq_true, decide_eq_true_eq] at hab hba
    exact hd a b ha' hb' (by omega) (by omega)
  rw [this]

example : apply [97, 98, 99] [⟨0, 1, [89]⟩, ⟨2, 3, [88]⟩] = .ok [89, 98, 88] := by decide

/-- the size bookkeeping of `Apply` never trips (`panic("wrong size")` is unreachable) -/
theorem apply_never_wrong_size (src : List Nat) (es : List Edit) : apply src es ≠ .error .wrongSize := by
  rw [apply_sorts]
  unfold apply validate
  simp only [validate_order src (sortEdits es)]
  have h2 : sortEdits (sortEdits es) = sortEdits es :=
    List.mergeSort_of_pairwise (List.pairwise_mergeSort editLE_trans editLE_total es)
  rw [h2]
  cases hv : validateGo (↑src.length) (sortEdits es) (↑src.length) 0 with
  | error e =>
    cases e with
    | wrongSize => exact absurd hv (validateGo_ne_wrongSize _ _ _ _)
    | oob => simp
    | overlap => simp
  | ok sz =>
    have hc := chain_of_validateGo _ _ _ _ _ (Int.le_refl 0) hv
    have hv' := validateGo_chain _ _ (src.length : Int) 0 (Int.le_refl 0) hc
    rw [hv] at hv'
    injection hv' with hv'
    have hl := length_applyGo src _ 0 (Nat.zero_le _) hc
    simp only [hv', hl]
    simp

/-! ## the guard `ValidUtf8` is exactly "is the encoding of Unicode scalar values" -/

/-- decoding the encoding of scalar values (no surrogates, ≤ U+10FFFF) gives them back … -/
theorem decode_utf8_scalars (rs : List Nat) (h : ∀ r ∈ rs, Scalar r) : decodeRunes (utf8 rs) = rs :=
  decodeRunes_utf8 rs h

/-- … so every such encoding satisfies the guard of `strings_apply` -/
theorem validUtf8_of_scalars (rs : List Nat) (h : ∀ r ∈ rs, Scalar r) : ValidUtf8 (utf8 rs) := by
  unfold ValidUtf8; rw [decodeRunes_utf8 rs h]

example : ∀ r ∈ [0x61, 0xE9, 0x4F60, 0x1F600], Scalar r := by decide

/-! ## unified rendering — statement only (decided by the oracle, not proved)

`patchHunks` is the reference interpreter; the compiled model evaluates this statement on
every generated case (a failure shows up as a correspondence difference), the check's
python interpreter evaluates it on the real code's text output.  With `fixJoin = false`
(the pinned code) the new-side start lines are wrong after joined edits, so only the
non-strict form can hold there (recorded finding + proposed fix). -/
def UnifiedPatchStatement (fixJoin : Bool) : Prop :=
  ∀ (src : List Nat) (es : List Edit) (ctx : Nat) (out : List Nat) (hs : List Hunk),
    0 < ctx → apply src es = .ok out → toUnified fixJoin src es ctx = .ok hs →
    patchHunks fixJoin (splitLines src) 0 0 hs = some (splitLines out)

/-- the strict form is false of the pinned code (`fixJoin = false` with strict checking):
lines `a`..`l`, edits on lines 1, 5 and 12, one context line… kept small: 2 context lines are
not needed; witness evaluated by `decide` on sorted edits. -/
def joinedWitnessSrc : List Nat := [97,10, 98,10, 99,10, 100,10, 101,10, 102,10, 103,10, 104,10, 105,10, 106,10]
def joinedWitnessEdits : List Edit := [⟨0, 1, [88]⟩, ⟨4, 5, [89]⟩, ⟨18, 19, [90]⟩]

theorem unified_new_start_wrong_in_pinned_code :
    (match toUnified false joinedWitnessSrc joinedWitnessEdits 1 with
     | .ok hs => patchHunks true (splitLines joinedWitnessSrc) 0 0 hs
     | .error _ => none) = none ∧
    (match toUnified true joinedWitnessSrc joinedWitnessEdits 1 with
     | .ok hs => patchHunks true (splitLines joinedWitnessSrc) 0 0 hs
     | .error _ => none) = some (splitLines [88,10, 98,10, 89,10, 100,10, 101,10, 102,10, 103,10, 104,10, 105,10, 90,10]) := by
  decide

end WaVerif.C22
