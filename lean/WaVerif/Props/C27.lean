import WaVerif.Lemmas.C27
import WaVerif.Gen.C27Sites
/-! # C27 — compilation is deterministic: property theorems

What is proved is the ABSTRACTION: a pipeline that sorts what it collected from a map by an injective
key, or that only accumulates order-insensitively, yields the same output for every iteration order the
Go runtime may choose.  That every map `range` of the compiler has one of these two shapes (or cannot
reach the output) is a REGENERATED, audited static fact (`Gen/C27Sites.lean`, `sites_accounted_claim`);
byte-identity of real builds is explored by the check (N builds in one process × N processes). -/
namespace WaVerif.C27
open List

variable {μ κ ω : Type}

/-- Sorting by an injective key gives the same list for any permutation of a duplicate-free input. -/
theorem sort_perm_invariant {le : κ → κ → Bool} (hle : LinearLe le) (key : μ → κ)
    {l l' : List μ} (hp : l ~ l') (hn : (l.map key).Nodup) :
    sortBy le key l = sortBy le key l' := by
  have hperm : sortBy le key l ~ sortBy le key l' :=
    (sortBy_perm le key l).trans (hp.trans (sortBy_perm le key l').symm)
  refine Perm.eq_of_pairwise (le := KeyLe le key) ?_ (sortBy_sorted hle key l) (sortBy_sorted hle key l') hperm
  intro a b ha hb hab hba
  have ha' : a ∈ l := (sortBy_perm le key l).mem_iff.mp ha
  have hb' : b ∈ l := hp.symm.mem_iff.mp ((sortBy_perm le key l').mem_iff.mp hb)
  exact key_inj_of_nodup hn a b ha' hb' (hle.antisymm _ _ hab hba)

example : sortBy (fun a b : Nat => decide (a ≤ b)) (fun p : Nat × Nat => p.1) [(3, 0), (1, 7), (2, 5)]
    = sortBy (fun a b : Nat => decide (a ≤ b)) (fun p : Nat × Nat => p.1) [(2, 5), (3, 0), (1, 7)] := by decide

/-- the result of the sort is the canonical arrangement: a sorted permutation of the input -/
theorem sort_is_sorted_perm {le : κ → κ → Bool} (hle : LinearLe le) (key : μ → κ) (l : List μ) :
    sortBy le key l ~ l ∧ (sortBy le key l).Pairwise (fun a b => le (key a) (key b) = true) :=
  ⟨sortBy_perm le key l, sortBy_sorted hle key l⟩

/-- **Main theorem of the abstraction**: the output of `emit (sortBy key (collect members))` does not
depend on the order in which the map delivered its members. -/
theorem compile_independent_of_iteration_order {le : κ → κ → Bool} (hle : LinearLe le) (key : μ → κ)
    (emit : List μ → ω) {ms ms' : List μ} (hp : ms ~ ms') (hn : (ms.map key).Nodup) :
    compile le key emit ms = compile le key emit ms' := by
  unfold compile collect
  rw [sort_perm_invariant hle key hp hn]

/-- the hypotheses are met by Go's string order on byte strings and a concrete member list -/
example : LinearLe bytesLe ∧ ([[109, 97, 105, 110], [105, 110, 105, 116], [102]].map id).Nodup ∧
    [[109, 97, 105, 110], [105, 110, 105, 116], [102]] ~ [[102], [109, 97, 105, 110], [105, 110, 105, 116]] :=
  ⟨bytesLe_linear, by decide, by decide⟩

/-- Go's byte-wise string order (what `sort.Strings` uses) satisfies the order laws, so the theorem applies
to the compiler's name-sorted loops. -/
theorem compile_by_name_deterministic (emit : List (List Nat × μ) → ω) {ms ms' : List (List Nat × μ)}
    (hp : ms ~ ms') (hn : (ms.map Prod.fst).Nodup) :
    compile bytesLe Prod.fst emit ms = compile bytesLe Prod.fst emit ms' :=
  compile_independent_of_iteration_order bytesLe_linear Prod.fst emit hp hn

example : compile bytesLe Prod.fst (fun l => l.map Prod.snd) [([98], 2), ([97], 1), ([97, 98], 3)]
    = compile bytesLe Prod.fst (fun l => l.map Prod.snd) [([97, 98], 3), ([98], 2), ([97], 1)] := by decide

/-- Without the sort the output DOES depend on the iteration order: an unsorted collecting loop whose
slice reaches the output is a determinism defect (witness: two members). -/
theorem unsorted_pipeline_order_dependent :
    ∃ (ms ms' : List Nat), ms ~ ms' ∧ ms.Nodup ∧
      compileUnsorted (fun l => l) ms ≠ compileUnsorted (fun l => l) ms' :=
  ⟨[1, 2], [2, 1], by decide, by decide, by decide⟩

/-- The `Nodup keys` hypothesis is necessary for a non-injective sort key (not for a Go map, whose keys
are distinct): two members with the same key keep their collection order. -/
theorem nodup_keys_needed :
    ∃ (ms ms' : List (Nat × Nat)), ms ~ ms' ∧
      sortBy (fun a b : Nat => decide (a ≤ b)) Prod.fst ms ≠ sortBy (fun a b : Nat => decide (a ≤ b)) Prod.fst ms' :=
  ⟨[(0, 1), (0, 2)], [(0, 2), (0, 1)], by decide, by decide⟩

/-! ## order-insensitive folds -/

theorem mem_foldl_setInsert [DecidableEq κ] (key : μ → κ) (ms : List μ) (s : List κ) (k : κ) :
    k ∈ ms.foldl (fun s m => setInsert s (key m)) s ↔ k ∈ s ∨ k ∈ ms.map key := by
  induction ms generalizing s with
  | nil => simp
  | cons m ms ih =>
    simp only [foldl_cons, map_cons, mem_cons]
    rw [ih]
    unfold setInsert
    split
    · next h => constructor
                · rintro (h1 | h1); exact Or.inl h1; exact Or.inr (Or.inr h1)
                · rintro (h1 | h1 | h1); exact Or.inl h1; exact Or.inl (h1 ▸ h); exact Or.inr h1
    · simp only [mem_append, mem_singleton]
      constructor
      · rintro ((h1 | h1) | h1); exact Or.inl h1; exact Or.inr (Or.inl h1); exact Or.inr (Or.inr h1)
      · rintro (h1 | h1 | h1); exact Or.inl (Or.inl h1); exact Or.inl (Or.inr h1); exact Or.inr h1

/-- set insertion: what can be observed of the set (membership of any key) is independent of the
iteration order -/
theorem set_insertion_order_insensitive [DecidableEq κ] (key : μ → κ) {ms ms' : List μ} (hp : ms ~ ms') (k : κ) :
    memSet (collectSet key ms) k = memSet (collectSet key ms') k := by
  unfold memSet collectSet
  have h1 := mem_foldl_setInsert key ms [] k
  have h2 := mem_foldl_setInsert key ms' [] k
  have h3 : k ∈ ms.map key ↔ k ∈ ms'.map key := (hp.map key).mem_iff
  simp only [not_mem_nil, false_or] at h1 h2
  exact decide_eq_decide.mpr (h1.trans (h3.trans h2.symm))

example : memSet (collectSet id [3, 1, 3, 2]) 2 = memSet (collectSet id [2, 3, 3, 1]) 2 := by decide

/-- boolean accumulation `flag = flag || p m` -/
theorem bool_or_order_insensitive (p : μ → Bool) {ms ms' : List μ} (hp : ms ~ ms') :
    anyFlag p ms = anyFlag p ms' := by
  unfold anyFlag
  apply Perm.foldl_eq' hp
  intro x _ y _ z
  cases z <;> cases p x <;> cases p y <;> rfl

/-- counting `n += w m` -/
theorem count_order_insensitive (w : μ → Nat) {ms ms' : List μ} (hp : ms ~ ms') :
    countBy w ms = countBy w ms' := by
  unfold countBy
  apply Perm.foldl_eq' hp
  intro x _ y _ z
  omega

example : anyFlag (· > 2) [1, 3, 2] = anyFlag (· > 2) [2, 1, 3] ∧ countBy id [1, 3, 2] = countBy id [2, 1, 3] := by decide

/-- any fold with a commutative step is order-insensitive (the general form of the two above) -/
theorem commutative_fold_order_insensitive {β : Type} (f : β → μ → β)
    (comm : ∀ z x y, f (f z x) y = f (f z y) x) (init : β) {ms ms' : List μ} (hp : ms ~ ms') :
    ms.foldl f init = ms'.foldl f init :=
  Perm.foldl_eq' hp (fun x _ y _ z => comm z x y) init

/-! ## the regenerated static facts -/

/-- Every map-`range` site found in the current source is either of a proved-deterministic shape
(sorted-after / order-insensitive) or carries an audit verdict in the committed expectation file.
`claimAllAccounted` is what the generator computed; the kernel recomputes it from the site table. -/
theorem sites_accounted_claim : allAccounted sites = claimAllAccounted := by decide

end WaVerif.C27
