import WaVerif.Lemmas.C24Line
import WaVerif.Gen.C24Variant
/-!
# C24 — property theorems (build-tag expressions)

Every `theorem` in this file is an obligation of the check and is axiom-audited.
-/
namespace WaVerif.C24

/-! ## evaluation is the Boolean homomorphism -/

theorem eval_bool_semantics (ρ : Tag → Bool) (s : Tag) (x y : Expr) :
    eval ρ (.tag s) = ρ s ∧ eval ρ (.not x) = !(eval ρ x) ∧
    eval ρ (.and x y) = (eval ρ x && eval ρ y) ∧ eval ρ (.or x y) = (eval ρ x || eval ρ y) :=
  ⟨rfl, rfl, rfl, rfl⟩

/-! ## the parser decides the reference grammar

`D .or ts e` (Model/C24Grammar.lean) is the formula *written* in the token string `ts`:
`!` binds tighter than `&&`, which binds tighter than `||`, both left-associative. -/

/-- whatever the parser accepts is a sentence of the grammar, and the tree returned is its tree -/
theorem parse_sound (ts : List Tok) (e : Expr) (h : parseToks ts = .ok e) : D .or ts e :=
  (parseToks_iff ts e).mp h

/-- every sentence of the grammar is accepted with exactly its tree (in particular the fuel
`4·|ts| + 8` always suffices) -/
theorem parse_complete (ts : List Tok) (e : Expr) (h : D .or ts e) : parseToks ts = .ok e :=
  (parseToks_iff ts e).mpr h

example : D .or (lexAll (chars! "a || b && !c"))
    (.or (.tag ['a']) (.and (.tag ['b']) (.not (.tag ['c'])))) := by
  apply parse_sound; rfl

/-! ## malformed lines are rejected -/

theorem parse_rejects_empty : ∀ e, parseToks [] ≠ .ok e := by
  intro e h
  exact D_ne_nil (parse_sound _ _ h) (Or.inl rfl) rfl

/-- the empty constraint line -/
theorem parseLine_rejects_empty : parseLine (chars! "#wa:build") = .error .unexpectedEnd := by rfl

/-- a character the lexer does not know (also a single `&` or `|`) anywhere in the text the
parser gets to see -/
theorem parse_rejects_bad_char (ts : List Tok) (ch : Char) (h : Tok.bad ch ∈ ts) : ∀ e, parseToks ts ≠ .ok e := by
  intro e he
  exact D_no_bad (parse_sound _ _ he) ch h

/-- `!!` anywhere -/
theorem parse_rejects_double_neg (pre post : List Tok) : ∀ e, parseToks (pre ++ .bang :: .bang :: post) ≠ .ok e := by
  intro e he
  have := D_bangOK (parse_sound _ _ he)
  rw [bangOK_double] at this
  exact Bool.noConfusion this

/-- accepted token strings have balanced parentheses (never closing more than were opened) -/
theorem parse_accepts_balanced (ts : List Tok) (e : Expr) (h : parseToks ts = .ok e) : Balanced ts :=
  D_depth (parse_sound _ _ h) 0

example : parseLine (chars! "#wa:build (a") = .error .missingParen := by rfl
example : parseLine (chars! "#wa:build a)") = .error .unexpectedTok := by rfl
example : parseLine (chars! "#wa:build a & b") = .error .invalidSyntax := by rfl
example : parseLine (chars! "#wa:build !!a") = .error .doubleNeg := by rfl
example : parseLine (chars! "#wa:buildx") = .error .notConstraint := by rfl

/-! ## printing and parsing again

`Gen.wrapNot` is regenerated from the code on every run: does `NotExpr.String` parenthesise a
negated negation?  On the pinned tree it does not, and then the round trip needs the guard
`NoNotNot` — see the witness below, which is replayed on the real code by the check. -/

/-- Full statement (for a printer variant `w`): every line that parses prints to a line that
parses to an expression with the same value under every tag assignment. -/
def ParseToStringStatement (w : Bool) : Prop :=
  ∀ l e, parseLine l = .ok e →
    ∃ e', parseLine (waBuildPrefix ++ ' ' :: str w e) = .ok e' ∧ ∀ ρ, eval ρ e' = eval ρ e

/-- printing (with the printer found in the code) and parsing again gives an equivalent
expression: for every expression with well-formed tags, provided the printer parenthesises
`!(!x)` or the expression has no negation directly under a negation. -/
theorem parse_toString (e : Expr) (hv : ValidTags e) (hr : Gen.wrapNot = true ∨ NoNotNot e) :
    ∃ e', parseExpr (str Gen.wrapNot e) = .ok e' ∧ ∀ ρ, eval ρ e' = eval ρ e := by
  obtain ⟨e', d, h⟩ := toks_derivable Gen.wrapNot e hr
  refine ⟨e', ?_, h⟩
  unfold parseExpr
  rw [lexAll_str _ _ hv]
  exact parse_complete _ _ d

/-- the same for either printer variant (the statement above is this one at `Gen.wrapNot`) -/
theorem parse_toString_any (w : Bool) (e : Expr) (hv : ValidTags e) (hr : w = true ∨ NoNotNot e) :
    ∃ e', parseExpr (str w e) = .ok e' ∧ ∀ ρ, eval ρ e' = eval ρ e := by
  obtain ⟨e', d, h⟩ := toks_derivable w e hr
  refine ⟨e', ?_, h⟩
  unfold parseExpr
  rw [lexAll_str _ _ hv]
  exact parse_complete _ _ d

example : ValidTags (.and (.tag ['a']) (.or (.not (.tag ['b', '1'])) (.and (.tag ['c']) (.tag ['d'])))) ∧
    NoNotNot (.and (.tag ['a']) (.or (.not (.tag ['b', '1'])) (.and (.tag ['c']) (.tag ['d'])))) := by
  simp [ValidTags, ValidTag, NoNotNot, Expr.isNot]; decide

/-- the guard is needed while the printer does not parenthesise a negated negation:
`#wa:build !(!a)` parses, prints as `!!a`, and that is rejected — with the repaired printer it
prints as `!(!a)` and re-parses to itself. -/
theorem parse_toString_double_not_witness :
    parseLine (chars! "#wa:build !(!a)") = .ok (.not (.not (.tag ['a']))) ∧
    str false (.not (.not (.tag ['a']))) = chars! "!!a" ∧
    parseLine (waBuildPrefix ++ ' ' :: str false (.not (.not (.tag ['a'])))) = .error .doubleNeg ∧
    parseLine (waBuildPrefix ++ ' ' :: str true (.not (.not (.tag ['a'])))) = .ok (.not (.not (.tag ['a']))) :=
  ⟨rfl, rfl, rfl, rfl⟩

/-- hence the full statement is false for the unrepaired printer -/
theorem parseToString_statement_false : ¬ ParseToStringStatement false := by
  intro h
  obtain ⟨e', he, _⟩ := h _ _ parse_toString_double_not_witness.1
  rw [parse_toString_double_not_witness.2.2.1] at he
  cases he

/-- the round trip at the level of whole lines, for *parsed* expressions (their tags are
well-formed because the lexer produced them): `Parse(line) = e` ⇒ `Parse("#wa:build " + e.String())`
succeeds with an equivalent expression — under the same honest guard. -/
theorem parse_toString_line (w : Bool) (l : List Char) (e : Expr) (h : parseLine l = .ok e)
    (hr : w = true ∨ NoNotNot e) :
    ∃ e', parseLine (waBuildPrefix ++ ' ' :: str w e) = .ok e' ∧ ∀ ρ, eval ρ e' = eval ρ e := by
  have hv := parseLine_validTags l e h
  rw [parseLine_str w e hv]
  exact parse_toString_any w e hv hr

example : parseLine (chars! "#wa:build a && (b || !c)") =
      .ok (.and (.tag ['a']) (.or (.tag ['b']) (.not (.tag ['c'])))) ∧
    NoNotNot (.and (.tag ['a']) (.or (.tag ['b']) (.not (.tag ['c'])))) := by
  refine ⟨rfl, ?_⟩; simp [NoNotNot, Expr.isNot]

/-- with the repaired printer the full statement holds -/
theorem parseToString_statement_repaired : ParseToStringStatement true :=
  fun l e h => parse_toString_line true l e h (Or.inl rfl)

/-- the full statement for the printer found in the code, as far as it is true:
it holds outright iff the printer parenthesises `!(!x)` -/
theorem parseToString_statement_iff : ParseToStringStatement Gen.wrapNot ↔ Gen.wrapNot = true := by
  constructor
  · intro h
    cases hw : Gen.wrapNot with
    | true => rfl
    | false => rw [hw] at h; exact absurd h parseToString_statement_false
  · intro hw; rw [hw]; exact parseToString_statement_repaired

/-- a single `&` (or `|`) is a lexical error wherever the lexer meets it -/
example : lexAll (chars! "a & b") = [.tag ['a'], .bad '&'] := rfl
example : Tok.bad '&' ∈ lexAll (chars! "a &") := by decide

theorem lex_single_amp (acc : List Char) (c : Char) (cs : List Char) (h : c ≠ '&') :
    lexGo none acc ('&' :: c :: cs) = flush acc ++ [.bad '&'] ∧ lexGo none acc ['&'] = flush acc ++ [.bad '&'] := by
  constructor
  · rw [lexGo, if_neg (by decide), if_neg (by decide), if_neg (by decide), if_neg (by decide), if_neg (by decide),
      if_pos (by decide), lexGo, if_neg h]
  · rfl

/-! ## the loader's file filter -/

/-- a file is skipped exactly when it has a `#wa:build` comment (the first one of the doc group,
else the first one of the file) and that constraint evaluates to false on
{target os, target arch} ∪ tags; no constraint ⇒ included; malformed constraint ⇒ error. -/
theorem skip_iff (cfg : Cfg) (doc comments : List (List Char)) :
    (firstConstraint doc comments = none → isSkipped cfg doc comments = .ok false) ∧
    (∀ line, firstConstraint doc comments = some line →
      (∀ e, parseLine line = .ok e → isSkipped cfg doc comments = .ok (!(eval (tagSet cfg) e))) ∧
      (∀ err, parseLine line = .error err → isSkipped cfg doc comments = .error err)) := by
  refine ⟨fun h => ?_, fun line h => ⟨fun e he => ?_, fun err he => ?_⟩⟩
  · simp only [isSkipped, h]
  · simp only [isSkipped, h, he]
  · simp only [isSkipped, h, he]

/-- which comment decides: a doc-group constraint wins over any other; otherwise the first in the file -/
theorem firstConstraint_spec (doc comments : List (List Char)) :
    firstConstraint doc comments = (doc ++ comments).find? isWaBuild := by
  unfold firstConstraint
  rw [List.find?_append]
  cases doc.find? isWaBuild <;> simp

/-- the callback: a tag is satisfied iff it is the target os, the target arch or a configured tag -/
theorem tagSet_iff (cfg : Cfg) (t : Tag) : tagSet cfg t = true ↔ t = cfg.os ∨ t = cfg.arch ∨ t ∈ cfg.tags := by
  simp [tagSet, or_assoc]

end WaVerif.C24
