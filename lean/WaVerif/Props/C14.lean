import WaVerif.Props.C14Hex
import WaVerif.Props.C14B64
import WaVerif.Props.C14B32
import WaVerif.Props.C14Utf8
import WaVerif.Props.C14Hash
import WaVerif.Props.C14Conv
import WaVerif.Props.C14Sort
/-!
# C14 — summary of the specification theorems (the per-package files hold the statements and proofs;
math/bits is in Props/C14Bits, C14Bits2, C14Bits3 because those proofs use `bv_decide`)

No theorem is stated about float formatting/parsing (`strconv.FormatFloat`, `ParseFloat`), `crypto/md5`, the
containers or the Unicode tables: these are executed by the differential drivers only.
-/
namespace WaVerif.C14

/-- every codec of the modelled packages round-trips: hex, base64 (4 encodings), base32 (2 encodings), UTF-8 -/
theorem c14_codecs_round_trip (bs : List Nat) (hb : BytesOK bs) (r : Int) (hr : ValidScalar r) :
    hexDecode (hexEncode bs) = some bs ∧
    b64Decode encStd (b64Encode encStd bs) = some bs ∧ b64Decode encURL (b64Encode encURL bs) = some bs ∧
    b64Decode encRawStd (b64Encode encRawStd bs) = some bs ∧ b64Decode encRawURL (b64Encode encRawURL bs) = some bs ∧
    b32Decode enc32Std (b32Encode enc32Std bs) = some bs ∧ b32Decode enc32Hex (b32Encode enc32Hex bs) = some bs ∧
    decodeRune (encodeRune r ++ bs) = (r.toNat, (runeLen r).toNat) :=
  ⟨hex_decode_encode bs hb, (b64_decode_encode_std bs hb).1, (b64_decode_encode_std bs hb).2.1,
   (b64_decode_encode_std bs hb).2.2.1, (b64_decode_encode_std bs hb).2.2.2,
   (b32_decode_encode_std bs hb).1, (b32_decode_encode_std bs hb).2, utf8_decode_encode r bs hr hb⟩

/-- integer formatting and parsing round-trip exactly, in every base -/
theorem c14_integers_round_trip (v : Int) (u base : Nat) (hlo : -(2 : Int) ^ 63 ≤ v) (hhi : v < (2 : Int) ^ 63)
    (hu : u < 2 ^ 64) (hb : 2 ≤ base) (hb36 : base ≤ 36) :
    parseInt (formatInt v base) base 64 = .ok v ∧ parseUint (formatUint u base) base 64 = .ok u :=
  ⟨parseInt_formatInt v base hlo hhi hb hb36, parseUint_formatUint u base hu hb hb36⟩

example : BytesOK [1, 2, 255] ∧ ValidScalar 0x10FFFF := by decide

end WaVerif.C14
