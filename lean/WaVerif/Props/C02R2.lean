import WaVerif.Model.C02Spec
import WaVerif.Gen.C02Templates
import WaVerif.Lemmas.C02Tac
set_option linter.unusedSimpArgs false
set_option linter.unusedVariables false
set_option maxRecDepth 4000
/-! One theorem per row of the regenerated x86-64 template table (statement fixed by the instruction name). -/
namespace WaVerif.C02.Rows
open WaVerif WaVerif.X64 WaVerif.C02 WaVerif.Gen.C02

theorem i32_mul_ok : BinRow32 .mul i32_mul := by
  refine ⟨by decide, ?_⟩
  intro s
  obtain ⟨rax, rcx, rdx, rbx, rsi, rdi, r8, r9, r10, r11, r12, r13, r14, r15, flags, slots, stk⟩ := s
  unfold i32_mul
  x64_simp
  x64_finish

theorem i32_or_ok : BinRow32 .or i32_or := by
  refine ⟨by decide, ?_⟩
  intro s
  obtain ⟨rax, rcx, rdx, rbx, rsi, rdi, r8, r9, r10, r11, r12, r13, r14, r15, flags, slots, stk⟩ := s
  unfold i32_or
  x64_simp
  x64_finish

theorem i32_shl_ok : BinRow32 .shl i32_shl := by
  refine ⟨by decide, ?_⟩
  intro s
  obtain ⟨rax, rcx, rdx, rbx, rsi, rdi, r8, r9, r10, r11, r12, r13, r14, r15, flags, slots, stk⟩ := s
  unfold i32_shl
  x64_simp
  x64_finish

theorem i32_shr_u_ok : BinRow32 .shr_u i32_shr_u := by
  refine ⟨by decide, ?_⟩
  intro s
  obtain ⟨rax, rcx, rdx, rbx, rsi, rdi, r8, r9, r10, r11, r12, r13, r14, r15, flags, slots, stk⟩ := s
  unfold i32_shr_u
  x64_simp
  x64_finish

theorem i32_rotr_ok : BinRow32 .rotr i32_rotr := by
  refine ⟨by decide, ?_⟩
  intro s
  obtain ⟨rax, rcx, rdx, rbx, rsi, rdi, r8, r9, r10, r11, r12, r13, r14, r15, flags, slots, stk⟩ := s
  unfold i32_rotr
  x64_simp
  x64_finish

theorem i32_lt_u_ok : RelRow32 .lt_u i32_lt_u := by
  refine ⟨by decide, ?_⟩
  intro s
  obtain ⟨rax, rcx, rdx, rbx, rsi, rdi, r8, r9, r10, r11, r12, r13, r14, r15, flags, slots, stk⟩ := s
  unfold i32_lt_u
  x64_simp
  x64_finish

theorem i32_le_u_ok : RelRow32 .le_u i32_le_u := by
  refine ⟨by decide, ?_⟩
  intro s
  obtain ⟨rax, rcx, rdx, rbx, rsi, rdi, r8, r9, r10, r11, r12, r13, r14, r15, flags, slots, stk⟩ := s
  unfold i32_le_u
  x64_simp
  x64_finish

theorem i32_popcnt_ok : UnRow32 .popcnt i32_popcnt := by
  intro s
  obtain ⟨rax, rcx, rdx, rbx, rsi, rdi, r8, r9, r10, r11, r12, r13, r14, r15, flags, slots, stk⟩ := s
  unfold i32_popcnt
  x64_simp
  x64_finish

def i64_rem_s_Statement : Prop := BinRow64 .rem_s i64_rem_s
theorem i64_rem_s_partial : BinRow64ExceptMinInt .rem_s i64_rem_s := by
  refine ⟨by decide, ?_⟩
  intro s
  intro hov0
  have hov : ¬ (s.slots i64_rem_s.x = 9223372036854775808#64 ∧ s.slots i64_rem_s.y = 18446744073709551615#64) := by
    intro h; apply hov0; simpa [lo32, intMin32_lit, intMin64_lit] using h
  by_cases hd : s.slots i64_rem_s.y = 0#64
  · obtain ⟨rax, rcx, rdx, rbx, rsi, rdi, r8, r9, r10, r11, r12, r13, r14, r15, flags, slots, stk⟩ := s
    simp only [i64_rem_s] at hd hov
    unfold i64_rem_s
    x64_simp
    simp [hd, hov]
    x64_finish

  · obtain ⟨rax, rcx, rdx, rbx, rsi, rdi, r8, r9, r10, r11, r12, r13, r14, r15, flags, slots, stk⟩ := s
    simp only [i64_rem_s] at hd hov
    unfold i64_rem_s
    x64_simp
    simp [hd, hov]
    x64_finish

/-- `idiv` raises #DE on MinInt %% -1 where WebAssembly's rem_s yields 0 -/
theorem i64_rem_s_full_false : ¬ i64_rem_s_Statement := by
  intro h
  have h1 := h.2 (witnessState i64_rem_s 9223372036854775808#64 18446744073709551615#64)
  revert h1
  unfold i64_rem_s witnessState
  x64_simp

theorem i64_rem_s_witness_faults : X64.run i64_rem_s.code (witnessState i64_rem_s 9223372036854775808#64 18446744073709551615#64) = none := by
  unfold i64_rem_s witnessState
  x64_simp

theorem i64_eqz_ok : EqzRow64 i64_eqz := by
  intro s
  obtain ⟨rax, rcx, rdx, rbx, rsi, rdi, r8, r9, r10, r11, r12, r13, r14, r15, flags, slots, stk⟩ := s
  unfold i64_eqz
  x64_simp
  x64_finish

theorem i64_extend_i32_u_ok : ExtURow i64_extend_i32_u := by
  intro s
  obtain ⟨rax, rcx, rdx, rbx, rsi, rdi, r8, r9, r10, r11, r12, r13, r14, r15, flags, slots, stk⟩ := s
  unfold i64_extend_i32_u
  x64_simp
  x64_finish

end WaVerif.C02.Rows
