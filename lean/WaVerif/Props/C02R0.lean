import WaVerif.Model.C02Spec
import WaVerif.Gen.C02Templates
import WaVerif.Lemmas.C02Tac
set_option linter.unusedSimpArgs false
set_option linter.unusedVariables false
set_option maxRecDepth 4000
/-! One theorem per row of the regenerated x86-64 template table (statement fixed by the instruction name). -/
namespace WaVerif.C02.Rows
open WaVerif WaVerif.X64 WaVerif.C02 WaVerif.Gen.C02

theorem i32_add_ok : BinRow32 .add i32_add := by
  refine ⟨by decide, ?_⟩
  intro s
  obtain ⟨rax, rcx, rdx, rbx, rsi, rdi, r8, r9, r10, r11, r12, r13, r14, r15, flags, slots, stk⟩ := s
  unfold i32_add
  x64_simp
  x64_finish

theorem i32_rem_u_ok : BinRow32 .rem_u i32_rem_u := by
  refine ⟨by decide, ?_⟩
  intro s
  by_cases hd : BitVec.setWidth 32 (s.slots i32_rem_u.y) = 0#32
  · obtain ⟨rax, rcx, rdx, rbx, rsi, rdi, r8, r9, r10, r11, r12, r13, r14, r15, flags, slots, stk⟩ := s
    simp only [i32_rem_u] at hd
    unfold i32_rem_u
    x64_simp
    simp [hd]
    x64_finish

  · obtain ⟨rax, rcx, rdx, rbx, rsi, rdi, r8, r9, r10, r11, r12, r13, r14, r15, flags, slots, stk⟩ := s
    simp only [i32_rem_u] at hd
    unfold i32_rem_u
    x64_simp
    simp [hd]
    x64_finish

theorem i32_ne_ok : RelRow32 .ne i32_ne := by
  refine ⟨by decide, ?_⟩
  intro s
  obtain ⟨rax, rcx, rdx, rbx, rsi, rdi, r8, r9, r10, r11, r12, r13, r14, r15, flags, slots, stk⟩ := s
  unfold i32_ne
  x64_simp
  x64_finish

theorem i32_gt_u_ok : RelRow32 .gt_u i32_gt_u := by
  refine ⟨by decide, ?_⟩
  intro s
  obtain ⟨rax, rcx, rdx, rbx, rsi, rdi, r8, r9, r10, r11, r12, r13, r14, r15, flags, slots, stk⟩ := s
  unfold i32_gt_u
  x64_simp
  x64_finish

theorem i32_clz_ok : UnRow32 .clz i32_clz := by
  intro s
  obtain ⟨rax, rcx, rdx, rbx, rsi, rdi, r8, r9, r10, r11, r12, r13, r14, r15, flags, slots, stk⟩ := s
  unfold i32_clz
  x64_simp
  x64_finish

theorem i64_div_s_ok : BinRow64 .div_s i64_div_s := by
  refine ⟨by decide, ?_⟩
  intro s
  by_cases hd : s.slots i64_div_s.y = 0#64
  · obtain ⟨rax, rcx, rdx, rbx, rsi, rdi, r8, r9, r10, r11, r12, r13, r14, r15, flags, slots, stk⟩ := s
    simp only [i64_div_s] at hd
    unfold i64_div_s
    x64_simp
    simp [hd]
    x64_finish

  · by_cases hov : s.slots i64_div_s.x = 9223372036854775808#64 ∧ s.slots i64_div_s.y = 18446744073709551615#64
    · obtain ⟨rax, rcx, rdx, rbx, rsi, rdi, r8, r9, r10, r11, r12, r13, r14, r15, flags, slots, stk⟩ := s
      simp only [i64_div_s] at hd hov
      unfold i64_div_s
      x64_simp
      simp [hd, hov]
      x64_finish

    · obtain ⟨rax, rcx, rdx, rbx, rsi, rdi, r8, r9, r10, r11, r12, r13, r14, r15, flags, slots, stk⟩ := s
      simp only [i64_div_s] at hd hov
      unfold i64_div_s
      x64_simp
      simp [hd, hov]
      x64_finish

theorem i64_ge_s_ok : RelRow64 .ge_s i64_ge_s := by
  refine ⟨by decide, ?_⟩
  intro s
  obtain ⟨rax, rcx, rdx, rbx, rsi, rdi, r8, r9, r10, r11, r12, r13, r14, r15, flags, slots, stk⟩ := s
  unfold i64_ge_s
  x64_simp
  x64_finish

theorem i32_wrap_i64_ok : WrapRow i32_wrap_i64 := by
  intro s
  obtain ⟨rax, rcx, rdx, rbx, rsi, rdi, r8, r9, r10, r11, r12, r13, r14, r15, flags, slots, stk⟩ := s
  unfold i32_wrap_i64
  x64_simp
  x64_finish

end WaVerif.C02.Rows
