import WaVerif.Model.C03Spec
import WaVerif.Gen.C03Templates
import WaVerif.Lemmas.C03Tac
set_option linter.unusedSimpArgs false
/-! One theorem group per regenerated C template (statement fixed by the instruction name). Written by tools/gen_c03_props.py. -/
namespace WaVerif.C03.Rows
open WaVerif WaVerif.Wasm WaVerif.C03 WaVerif.Gen.C03

theorem i32_eq_ok : Full2 CVal.i32 CVal.i32 CVal.i32 (wRel .eq) f_i32_eq := by
  unfold f_i32_eq
  c03_tac

theorem i32_ne_ok : Full2 CVal.i32 CVal.i32 CVal.i32 (wRel .ne) f_i32_ne := by
  unfold f_i32_ne
  c03_tac

theorem i32_lt_s_ok : Full2 CVal.i32 CVal.i32 CVal.i32 (wRel .lt_s) f_i32_lt_s := by
  unfold f_i32_lt_s
  c03_tac

theorem i32_lt_u_ok : Full2 CVal.i32 CVal.i32 CVal.i32 (wRel .lt_u) f_i32_lt_u := by
  unfold f_i32_lt_u
  c03_tac

theorem i32_gt_s_ok : Full2 CVal.i32 CVal.i32 CVal.i32 (wRel .gt_s) f_i32_gt_s := by
  unfold f_i32_gt_s
  c03_tac

theorem i32_gt_u_ok : Full2 CVal.i32 CVal.i32 CVal.i32 (wRel .gt_u) f_i32_gt_u := by
  unfold f_i32_gt_u
  c03_tac

theorem i32_le_s_ok : Full2 CVal.i32 CVal.i32 CVal.i32 (wRel .le_s) f_i32_le_s := by
  unfold f_i32_le_s
  c03_tac

theorem i32_le_u_ok : Full2 CVal.i32 CVal.i32 CVal.i32 (wRel .le_u) f_i32_le_u := by
  unfold f_i32_le_u
  c03_tac

theorem i32_ge_s_ok : Full2 CVal.i32 CVal.i32 CVal.i32 (wRel .ge_s) f_i32_ge_s := by
  unfold f_i32_ge_s
  c03_tac

theorem i32_ge_u_ok : Full2 CVal.i32 CVal.i32 CVal.i32 (wRel .ge_u) f_i32_ge_u := by
  unfold f_i32_ge_u
  c03_tac

theorem i32_eqz_ok : Full1 CVal.i32 CVal.i32 wEqz f_i32_eqz := by
  unfold f_i32_eqz
  c03_tac

theorem i32_clz_ok : Full1 CVal.i32 CVal.i32 (wUn .clz) f_i32_clz := by
  unfold f_i32_clz
  c03_tac

theorem i32_ctz_ok : Full1 CVal.i32 CVal.i32 (wUn .ctz) f_i32_ctz := by
  unfold f_i32_ctz
  c03_tac

theorem i32_popcnt_ok : Full1 CVal.i32 CVal.i32 (wUn .popcnt) f_i32_popcnt := by
  unfold f_i32_popcnt
  c03_tac

end WaVerif.C03.Rows
