import WaVerif.Model.C04
import WaVerif.Model.C04Sections
import WaVerif.Lemmas.C04
/-!
# C04 — property theorems (binary codec framing, name section, buildNames)

Every `theorem` in this file is an obligation of the check and is axiom-audited.
LEB128 facts come from `Props/C19` (`decodeU32_encU`), not re-proved here.
-/
namespace WaVerif.C04
open WaVerif.C19

/-! ## decode ∘ encode = id for the framing structures -/

theorem decU32_encU32 (v : Nat) (h : U32 v) (rest : Bytes) : decU32 (encU32 v ++ rest) = some (v, rest) :=
  decU32_encU32' v h rest

theorem decName_encName (n : Bytes) (h : U32 n.length) (rest : Bytes) :
    decName (encName n ++ rest) = some (n, rest) :=
  decName_encName' n h rest

/-- vectors: if every element round-trips (whatever follows it), so does the vector -/
theorem decVec_encVec {α : Type} (enc : α → Bytes) (dec : Bytes → Option (α × Bytes)) (xs : List α)
    (hl : U32 xs.length) (h : ∀ x ∈ xs, ∀ r, dec (enc x ++ r) = some (x, r)) (rest : Bytes) :
    decVec dec (encVec enc xs ++ rest) = some (xs, rest) :=
  decVec_encVec' enc dec xs hl h rest

theorem decLimits_encLimits (l : Limits) (hmin : U32 l.min) (hmax : ∀ m, l.max = some m → U32 m) (rest : Bytes) :
    decLimits (encLimits l ++ rest) = some (l, rest) :=
  decLimits_encLimits' l hmin hmax rest

/-- section framing: header + `id size body` sequences are recovered exactly -/
theorem decodeModule_encodeModule (ss : List Section) (h : ∀ s ∈ ss, s.WF) :
    decodeModule (encodeModule ss) = some ss := by
  unfold decodeModule encodeModule
  have h8 : (header ++ encMany encSection ss).take 8 = header := by
    simp [header]
  have hd : (header ++ encMany encSection ss).drop 8 = encMany encSection ss := by
    simp [header]
  rw [if_pos h8, hd]
  apply decSections_encMany ss h
  have := length_le_encMany ss
  simp only [List.length_append]
  omega

/-- the three standard subsections of the `name` section, as the real encoder lays them out -/
theorem decodeNameSec_encodeNameSec (n : NameSec) (h : n.WF) : decodeNameSec (encodeNameSec n) = some n := by
  obtain ⟨mn, fnames, lnames⟩ := n
  obtain ⟨hm, hf, hfl, hll, hl, hlen⟩ := h
  have hL : whole (decVec decIndirect) (encVec encIndirect lnames) = some lnames :=
    whole_of _ _ _ (decVec_encVec' encIndirect decIndirect lnames hll
      (fun a ha r => decIndirect_encIndirect a (hl a ha) r) [])
  have hF : whole decNameMap (encNameMap fnames) = some fnames :=
    whole_of _ _ _ (decNameMap_encNameMap fnames hf [])
  have hsub : ∀ s ∈ nameSubsections ⟨mn, fnames, lnames⟩, s.WF := by
    intro s hs
    simp only [nameSubsections, List.mem_append] at hs
    rcases hs with hs | hs | hs
    · cases mn with
      | none => simp at hs
      | some m =>
        simp at hs; subst hs
        exact (hm m rfl).2
    · cases fnames with
      | nil => simp at hs
      | cons a r => simp at hs; subst hs; exact hfl
    · simp at hs; subst hs; exact hlen
  unfold decodeNameSec encodeNameSec
  rw [decSections_encMany _ hsub _ (by
    have := length_le_encMany (nameSubsections ⟨mn, fnames, lnames⟩)
    omega)]
  cases mn with
  | none =>
    cases fnames with
    | nil => simp [nameSubsections, nameSecOfSubsections, hL]
    | cons a r => simp [nameSubsections, nameSecOfSubsections, hL, hF]
  | some m =>
    have hM : whole decName (encName m) = some m := whole_of _ _ _ (decName_encName' m (hm m rfl).1 [])
    cases fnames with
    | nil => simp [nameSubsections, nameSecOfSubsections, hL, hM]
    | cons a r => simp [nameSubsections, nameSecOfSubsections, hL, hF, hM]

/-! ## contents of the type / function / export sections (the decoders used for the canonical dump) -/

theorem decTypeSec_encTypeSec (ts : List FuncType) (hl : U32 ts.length)
    (h : ∀ t ∈ ts, U32 t.params.length ∧ U32 t.results.length) : decTypeSec (encTypeSec ts) = some ts := by
  have hv : ∀ (t : ValTy) r, decValTy (encValTy t ++ r) = some (t, r) := by
    intro t r; cases t <;> simp [encValTy, decValTy, ValTy.code, ValTy.ofCode]
  have hf : ∀ t ∈ ts, ∀ r, decFuncType (encFuncType t ++ r) = some (t, r) := by
    intro t ht r
    obtain ⟨ps, rs⟩ := t
    have h1 := decVec_encVec' encValTy decValTy ps (h _ ht).1 (fun x _ r => hv x r)
    have h2 := decVec_encVec' encValTy decValTy rs (h _ ht).2 (fun x _ r => hv x r)
    simp [encFuncType, decFuncType, List.append_assoc, h1, h2]
  exact whole_of _ _ _ (decVec_encVec' encFuncType decFuncType ts hl hf [])

theorem decFuncSec_encFuncSec (is : List Nat) (hl : U32 is.length) (h : ∀ i ∈ is, U32 i) :
    decFuncSec (encFuncSec is) = some is :=
  whole_of _ _ _ (decVec_encVec' encU32 decU32 is hl (fun i hi r => decU32_encU32' i (h i hi) r) [])

theorem decExportSec_encExportSec (es : List Export) (hl : U32 es.length)
    (h : ∀ e ∈ es, U32 e.name.length ∧ U32 e.idx) : decExportSec (encExportSec es) = some es := by
  have he : ∀ e ∈ es, ∀ r, decExport (encExport e ++ r) = some (e, r) := by
    intro e hx r
    obtain ⟨n, k, i⟩ := e
    simp [encExport, decExport, List.append_assoc, decName_encName' n (h _ hx).1, decU32_encU32' i (h _ hx).2]
  exact whole_of _ _ _ (decVec_encVec' encExport decExport es hl he [])

/-! ## block type index (multi-value block/loop/if): signed s33 -/

/-- a type index used as a block type is written with the SIGNED encoder and read back by the s33 decoder
(C19's `decodeS33_encS`), for every index and whatever follows -/
theorem blocktype_index_roundtrip (i : Nat) (h : U32 i) (rest : Bytes) :
    decBlockTypeIdx (encBlockTypeIdx i ++ rest) = some (i, rest) := by
  unfold decBlockTypeIdx encBlockTypeIdx
  have hi : (i : Int) < 2 ^ 32 := by unfold U32 at h; exact_mod_cast h
  rw [decodeS33_encS (i : Int) (by omega) hi rest]
  simp

/-- the unsigned form is NOT a substitute: index 64 written as a u32 is the single byte 0x40, which the s33
decoder reads as −64 (the byte of the empty block type) -/
theorem blocktype_index_unsigned_form_wrong :
    encU32 64 = [0x40] ∧ decodeS33 (encU32 64) = .ok (-64, 1) ∧ decBlockTypeIdx (encU32 64) = none := by
  have e : encU32 64 = [0x40] := encU32_small 64 (by omega)
  refine ⟨e, ?_, ?_⟩
  · rw [e]; simp [decodeS33, decS33loop]
  · unfold decBlockTypeIdx
    rw [e]; simp [decodeS33, decS33loop]

example : U32 71 := by unfold U32; omega

/-! ## label resolution -/

/-- a named branch target resolves to the NEAREST enclosing block carrying that label -/
theorem label_resolve_nearest (stk : List (Option Bytes)) (l : Bytes) (i : Nat) (h : resolveLabel stk l = some i) :
    stk[i]? = some (some l) ∧ ∀ j, j < i → stk[j]? ≠ some (some l) := by
  induction stk generalizing i with
  | nil => simp [resolveLabel] at h
  | cons x r ih =>
    simp only [resolveLabel] at h
    split at h
    · rename_i hx
      cases h
      exact ⟨by simp [hx], by intro j hj; omega⟩
    · rename_i hx
      cases hr : resolveLabel r l with
      | none => simp [hr] at h
      | some k =>
        simp [hr] at h
        subst h
        obtain ⟨h1, h2⟩ := ih k hr
        refine ⟨by simpa using h1, ?_⟩
        intro j hj
        cases j with
        | zero => simpa using hx
        | succ j' => simpa using h2 j' (by omega)

/-- … and it resolves whenever some enclosing block carries the label -/
theorem label_resolve_complete (stk : List (Option Bytes)) (l : Bytes) (h : some l ∈ stk) :
    ∃ i, resolveLabel stk l = some i := by
  induction stk with
  | nil => simp at h
  | cons x r ih =>
    simp only [resolveLabel]
    by_cases hx : x = some l
    · exact ⟨0, by simp [hx]⟩
    · have : some l ∈ r := by
        rcases List.mem_cons.mp h with h | h
        · exact absurd h.symm hx
        · exact h
      obtain ⟨k, hk⟩ := ih this
      exact ⟨k + 1, by simp [hx, hk]⟩

example : resolveLabel [none, some [97], some [98], some [97]] [97] = some 1 := by decide

/-! ## the name section the text describes -/

/-- Entries are in strictly increasing index order: function names, the per-function entries of the
local-name subsection, and the local indices inside every entry. -/
theorem names_strictly_increasing (mn : Option Bytes) (fs : List FuncDecl) :
    StrictInc ((buildNames mn fs).funcNames.map (·.1)) ∧
    StrictInc ((buildNames mn fs).localNames.map (·.1)) ∧
    ∀ e ∈ (buildNames mn fs).localNames, StrictInc (e.2.map (·.1)) :=
  ⟨entriesFrom_strictInc _ 0, localsFrom_strictInc fs 0, localsFrom_inner fs 0⟩

/-- Every function index and every local index (parameters first, then the locals, continuing the
numbering) is assigned exactly the name written in the text, and nothing else is named. -/
theorem names_assign_written_name (mn : Option Bytes) (fs : List FuncDecl) (f i : Nat) :
    lookupFuncName (buildNames mn fs) f = writtenFuncName fs f ∧
    lookupLocalName (buildNames mn fs) f i = writtenLocalName fs f i := by
  constructor
  · simp only [lookupFuncName, buildNames, writtenFuncName, lookup_entriesFrom, Nat.not_lt_zero, if_false, Nat.sub_zero,
      List.getElem?_map]
    cases fs[f]? <;> simp
  · simp only [lookupLocalName, buildNames, writtenLocalName, lookup_localsFrom, Nat.not_lt_zero, if_false, Nat.sub_zero]
    cases hd : fs[f]? with
    | none => simp
    | some d =>
      simp only [Option.map_some, lookup_entriesFrom, Nat.not_lt_zero, if_false, Nat.sub_zero]
      cases (d.params ++ d.locals)[i]? <;> simp

/-- with two named parameters and two named locals the locals are numbered 2 and 3 (the real
`buildNameSection` restarts at 0: finding) -/
example : (buildNames none [⟨some [102], [some [97], some [98]], [some [120], some [121]]⟩]).localNames =
    [(0, [(0, [97]), (1, [98]), (2, [120]), (3, [121])])] := by decide

/-- the hypotheses of the codec theorems are satisfiable -/
def sampleNames : NameSec := buildNames (some [109]) [⟨some [102], [some [97], none], [some [120]]⟩, ⟨none, [], []⟩]

example : sampleNames.WF := by
  have e : sampleNames = ⟨some [109], [(0, [102])], [(0, [(0, [97]), (2, [120])]), (1, [])]⟩ := by decide
  rw [e]
  refine ⟨?_, ?_, ?_, ?_, ?_, ?_⟩
  · intro m hm
    cases hm
    simp [U32, encName, encU32_small]
  · simp [NameMap.WF, U32]
  · simp [U32, encNameMap, encVec, encMany, encAssoc, encName, encU32_small]
  · simp [U32]
  · intro e he
    simp at he
    rcases he with rfl | rfl <;> simp [NameMap.WF, U32]
  · simp [U32, encVec, encMany, encIndirect, encNameMap, encAssoc, encName, encU32_small]

example : Section.WF ⟨1, [1, 0x60, 0, 0]⟩ := by simp [Section.WF, U32]

end WaVerif.C04
