import Std.Tactic.BVDecide
import WaVerif.Props.C14Bits
/-!
# C14 — math/bits, part 2: Len / LeadingZeros / TrailingZeros / Reverse / ReverseBytes / RotateLeft / Add / Sub / Mul
-/
set_option linter.unusedSimpArgs false
namespace WaVerif.C14
open WaVerif.C14.Gen

/-! ### Len = width − clz, LeadingZeros = clz -/
theorem len8_eq (x : BitVec 8) : len8 x = 8 - x.clz.toNat := by
  have hb : x.clz ≤ 8#8 := by bv_decide
  have hb' : x.clz.toNat ≤ 8 := by simpa [BitVec.le_def] using hb
  simp only [len8, tab8_len, BitVec.toNat_sub, BitVec.toNat_ofNat]
  omega

theorem len16_eq (x : BitVec 16) : len16 x = 16 - x.clz.toNat := by
  have hb : x.clz ≤ 16#16 := by bv_decide
  have hb' : x.clz.toNat ≤ 16 := by simpa [BitVec.le_def] using hb
  have h : (if x ≥ 0x100#16 then 8#16 + (8#8 - (byteOf x 1).clz).zeroExtend 16 else (8#8 - (byteOf x 0).clz).zeroExtend 16)
      = 16#16 - x.clz := by
    unfold byteOf; bv_decide
  have h8a : (byteOf x 1).clz.toNat ≤ 8 := by
    have : (byteOf x 1).clz ≤ 8#8 := by bv_decide
    simpa [BitVec.le_def] using this
  have h8b : (byteOf x 0).clz.toNat ≤ 8 := by
    have : (byteOf x 0).clz ≤ 8#8 := by bv_decide
    simpa [BitVec.le_def] using this
  have := congrArg BitVec.toNat h
  simp only [len16, len8_eq]
  split at this <;> rename_i hc <;> simp only [hc, if_true, if_false] <;>
    simp [BitVec.toNat_add, BitVec.toNat_sub, BitVec.toNat_setWidth] at this <;> omega

theorem leadingZeros8_eq (x : BitVec 8) : leadingZeros8 x = x.clz.toNat := by
  have hb : x.clz ≤ 8#8 := by bv_decide
  have hb' : x.clz.toNat ≤ 8 := by simpa [BitVec.le_def] using hb
  simp only [leadingZeros8, len8_eq]; omega

/-! ### ReverseBytes / Reverse -/
theorem reverseBytes16_eq (x : BitVec 16) : reverseBytes16 x = byteOf x 0 ++ byteOf x 1 := by
  unfold reverseBytes16 byteOf; bv_decide
theorem reverseBytes32_eq (x : BitVec 32) : reverseBytes32 x = byteOf x 0 ++ byteOf x 1 ++ byteOf x 2 ++ byteOf x 3 := by
  unfold reverseBytes32 byteOf; simp only [m3]; bv_decide
theorem reverseBytes64_eq (x : BitVec 64) :
    reverseBytes64 x = byteOf x 0 ++ byteOf x 1 ++ byteOf x 2 ++ byteOf x 3 ++ byteOf x 4 ++ byteOf x 5 ++ byteOf x 6 ++ byteOf x 7 := by
  unfold reverseBytes64 byteOf; simp only [m3, m4]; bv_decide

theorem reverse8_eq (x : BitVec 8) : reverse8 x = x.reverse := tab8_rev x
theorem reverse16_eq (x : BitVec 16) : reverse16 x = x.reverse := by
  simp only [reverse16, tab8_rev]; unfold byteOf; bv_decide
theorem reverse32_eq (x : BitVec 32) : reverse32 x = x.reverse := by
  unfold reverse32 reverseBytes32; simp only [m0, m1, m2, m3]; bv_decide
theorem reverse64_eq (x : BitVec 64) : reverse64 x = x.reverse := by
  unfold reverse64 reverseBytes64; simp only [m0, m1, m2, m3, m4]; bv_decide

/-! ### RotateLeft -/
theorem rotAmount_lt (n : Nat) (hn : 0 < n) (k : Int) : rotAmount n k < n := by
  unfold rotAmount
  have h1 : 0 ≤ k % (n : Int) := Int.emod_nonneg _ (by omega)
  have h2 : k % (n : Int) < n := Int.emod_lt_of_pos _ (by omega)
  omega

/-- `x<<s | x>>(n-s)` with `s = k mod n` is the rotation by `k mod n` (for every width, every signed `k`) -/
theorem rotateLeft_eq {w : Nat} (hw : 0 < w) (x : BitVec w) (k : Int) :
    rotateLeftW x k = x.rotateLeft (rotAmount w k) := by
  have := rotAmount_lt w hw k
  simp only [rotateLeftW, BitVec.rotateLeft, BitVec.rotateLeftAux, Nat.mod_eq_of_lt this]

/-! ### Add / Sub with carry: the pair denotes the exact sum / difference -/
theorem add64_carry (x y c : BitVec 64) (hc : c ≤ 1#64) :
    (add64 x y c).2 ≤ 1#64 ∧
    x.zeroExtend 65 + y.zeroExtend 65 + c.zeroExtend 65 = (add64 x y c).1.zeroExtend 65 + ((add64 x y c).2.zeroExtend 65 <<< 64) := by
  unfold add64; constructor <;> bv_decide

theorem add32_carry (x y c : BitVec 32) (hc : c ≤ 1#32) :
    (add32 x y c).2 ≤ 1#32 ∧
    x.zeroExtend 33 + y.zeroExtend 33 + c.zeroExtend 33 = (add32 x y c).1.zeroExtend 33 + ((add32 x y c).2.zeroExtend 33 <<< 32) := by
  unfold add32; constructor <;> bv_decide

theorem sub64_borrow (x y b : BitVec 64) (hb : b ≤ 1#64) :
    (sub64 x y b).2 ≤ 1#64 ∧
    x.zeroExtend 65 + ((sub64 x y b).2.zeroExtend 65 <<< 64) = (sub64 x y b).1.zeroExtend 65 + y.zeroExtend 65 + b.zeroExtend 65 := by
  unfold sub64; constructor <;> bv_decide

theorem sub32_borrow (x y b : BitVec 32) (hb : b ≤ 1#32) :
    (sub32 x y b).2 ≤ 1#32 ∧
    x.zeroExtend 33 + ((sub32 x y b).2.zeroExtend 33 <<< 32) = (sub32 x y b).1.zeroExtend 33 + y.zeroExtend 33 + b.zeroExtend 33 := by
  unfold sub32; constructor <;> bv_decide

example : (1 : BitVec 64) ≤ 1#64 := by decide

end WaVerif.C14
