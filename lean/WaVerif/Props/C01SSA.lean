import WaVerif.Model.C01SSA
import WaVerif.Props.C01Rows
/-!
# C01 — composition of operator rows into straight-line SSA blocks (property theorems)

`block_correct`: a compiled SSA block of ANY length (operator rows with the operand registers
substituted, each followed by `local.set dst`) computes the source-level evaluation of the block,
and traps iff an operator traps — provided each row theorem applies to the values the operand
registers hold at that point (`Good`). Together with the 253 row theorems over the regenerated
emit table this covers every straight-line sequence of integer operators and conversions.
NOT covered (explored by differential execution only): control flow between blocks, phi nodes,
memory, calls, aggregates, floats.
-/
set_option linter.unusedSimpArgs false
namespace WaVerif.C01.SSA
open WaVerif.Wasm

theorem step_rename (loc : List Val) (sx sy : Nat) (x y : Val) (hx : loc[sx]? = some x) (hy : loc[sy]? = some y)
    (i : Instr) (hi : UsesOnly01 [i] = true) (st : List Val) :
    step loc (rename sx sy i) st = step [x, y] i st := by
  cases i with
  | localGet n =>
    simp [UsesOnly01] at hi
    have : n = 0 ∨ n = 1 := by omega
    rcases this with rfl | rfl <;> simp [rename, step, hx, hy]
  | bin t k => cases t <;> simp [rename, step]
  | rel t k => cases t <;> simp [rename, step]
  | eqz t => cases t <;> simp [rename, step]
  | un t k => cases t <;> simp [rename, step]
  | _ => simp [rename, step]

theorem usesOnly01_cons (i : Instr) (r : List Instr) :
    UsesOnly01 (i :: r) = (UsesOnly01 [i] && UsesOnly01 r) := by
  cases i <;> simp [UsesOnly01]

theorem exec_rename (loc : List Val) (sx sy : Nat) (x y : Val) (hx : loc[sx]? = some x) (hy : loc[sy]? = some y)
    (row : List Instr) (h : UsesOnly01 row = true) (st : List Val) :
    exec loc (row.map (rename sx sy)) st = exec [x, y] row st := by
  induction row generalizing st with
  | nil => rfl
  | cons i r ih =>
    rw [usesOnly01_cons] at h
    simp at h
    simp only [List.map_cons, exec, step_rename loc sx sy x y hx hy i h.1 st]
    cases step [x, y] i st with
    | none => rfl
    | some st' => simp [ih h.2]

theorem srun_base (loc : List Val) (code : List Instr) (st : List Val) (tail : List SIns) :
    srun ⟨loc, st⟩ (code.map SIns.base ++ tail) =
      (exec loc code st).bind (fun st' => srun ⟨loc, st'⟩ tail) := by
  induction code generalizing st with
  | nil => simp [exec]
  | cons i r ih =>
    simp only [List.map_cons, List.cons_append, srun, sstep, exec]
    cases step loc i st with
    | none => rfl
    | some st' => simp [ih]

theorem srun_append (s : St) (a b : List SIns) :
    srun s (a ++ b) = (srun s a).bind (fun s' => srun s' b) := by
  induction a generalizing s with
  | nil => simp [srun]
  | cons i r ih =>
    simp only [List.cons_append, srun]
    cases sstep s i with
    | none => rfl
    | some s' => simp [ih]

/-- Composition: a compiled straight-line SSA block of ANY length computes what the source-level
evaluation of the block computes (register file after the block; trap iff some operator traps). -/
theorem block_correct (ops : List (Op × Sem)) (loc : List Val) (h : Good ops loc) :
    srun ⟨loc, []⟩ (compileBlock (ops.map Prod.fst)) = (evalBlock ops loc).map (fun l => ⟨l, []⟩) := by
  induction ops generalizing loc with
  | nil => rfl
  | cons p rest ih =>
    obtain ⟨o, sem⟩ := p
    obtain ⟨x, y, hx, hy, hd, hu, hrow, hrest⟩ := h
    simp only [List.map_cons, compileBlock, List.flatMap_cons, evalBlock, hx, hy, hd, if_true]
    rw [srun_append]
    have : compileOp o = (o.row.map (rename o.sx o.sy)).map SIns.base ++ [SIns.set o.dst] := by
      simp [compileOp, List.map_map]
    rw [this, srun_base, exec_rename loc o.sx o.sy x y hx hy o.row hu, hrow]
    cases hs : sem x y with
    | none => simp
    | some r =>
      simp [srun, sstep, hd]
      have := ih (loc.set o.dst r) (hrest r hs)
      simpa [compileBlock] using this


/-- every row of the regenerated emit table reads only its two operand locals, so the substitution
lemma applies to all of them -/
theorem rows_use_only_01 : ∀ r ∈ WaVerif.Gen.C01.rowTable, UsesOnly01 r.2 = true := by decide +kernel

/-- Go-level meaning of an arithmetic row on register values that hold embedded `w`-bit operands -/
def semArith (op : Go.Op) (w : Nat) (sg : Bool) (x y : BitVec w) : Sem :=
  fun _ _ => (Go.arith sg op x y).map (WaVerif.C01.embed w sg)

/-- a row theorem of `Props/C01Rows.lean` is exactly the `exec` hypothesis `Good` asks for -/
theorem good_step_of_arithRow {op : Go.Op} {w : Nat} {sg : Bool} {code : List Instr}
    (h : WaVerif.C01.ArithRowFull op w sg code) (x y : BitVec w) :
    exec [WaVerif.C01.embed w sg x, WaVerif.C01.embed w sg y] code [] =
      (semArith op w sg x y (WaVerif.C01.embed w sg x) (WaVerif.C01.embed w sg y)).map (fun r => [r]) := by
  rw [h x y]; simp [semArith, Option.map_map, Function.comp_def]

open WaVerif.Gen.C01 WaVerif.C01 in
/-- Non-vacuity and use: the two-instruction uint8 block `t3 = a + b; t4 = t3 * c`, compiled as the
back end does (rows substituted, results stored to fresh registers), leaves exactly Go's values in
t3 and t4 — for ALL a, b, c. Uses the composition theorem and two regenerated-row theorems. -/
theorem block_add_mul_u8 (a b c : BitVec 8) (z : Val) :
    srun ⟨[embed 8 false a, embed 8 false b, embed 8 false c, z, z], []⟩
        (compileBlock [⟨3, 0, 1, bin_add_u8_u8⟩, ⟨4, 3, 2, bin_mul_u8_u8⟩]) =
      some ⟨[embed 8 false a, embed 8 false b, embed 8 false c, embed 8 false (a + b),
              embed 8 false ((a + b) * c)], []⟩ := by
  have h := block_correct
    [(⟨3, 0, 1, bin_add_u8_u8⟩, semArith .add 8 false a b), (⟨4, 3, 2, bin_mul_u8_u8⟩, semArith .mul 8 false (a + b) c)]
    [embed 8 false a, embed 8 false b, embed 8 false c, z, z]
    (by
      refine ⟨_, _, rfl, rfl, by simp, by decide, good_step_of_arithRow Rows.bin_add_u8_u8_ok a b, ?_⟩
      intro r hr
      simp [semArith, Go.arith] at hr
      subst hr
      refine ⟨_, _, rfl, rfl, by simp, by decide, good_step_of_arithRow Rows.bin_mul_u8_u8_ok (a + b) c, ?_⟩
      intro r hr
      trivial)
  simpa [evalBlock, semArith, Go.arith] using h

end WaVerif.C01.SSA
