import WaVerif.Base.WasmTyping
import WaVerif.Props.C16Rows
/-!
# C16 — property theorems: validation of the emitted operator code

* `validate_sound`: the validation algorithm is sound for the straight-line subset — validated code
  never reaches an ill-typed (stuck) configuration; it traps or leaves a stack of the validated type.
* `exec_eq_execR`: the semantics used by C01's row theorems is the same relation with trap and
  stuck merged.
* `Props/C16Rows.lean`: every row of the REGENERATED emit table validates with the operand and
  result types its key demands (so e.g. a mixed-width shift row must contain the wrap/extend).
-/
set_option linter.unusedSimpArgs false
namespace WaVerif.Wasm

theorem step_eq_stepR (loc : List Val) (i : Instr) (st : List Val) :
    step loc i st = (stepR loc i st).toOption := by
  cases i with
  | localGet n => simp only [step, stepR]; cases loc[n]? <;> rfl
  | bin t k =>
    cases t <;> simp only [step, stepR] <;>
    (rcases st with _ | ⟨a, _ | ⟨b, r⟩⟩ <;> try cases a) <;> (try cases b) <;>
    simp [pop32, pop64, Outcome.toOption] <;> (cases binop k _ _ <;> rfl)
  | rel t k =>
    cases t <;> simp only [step, stepR] <;>
    (rcases st with _ | ⟨a, _ | ⟨b, r⟩⟩ <;> try cases a) <;> (try cases b) <;>
    simp [pop32, pop64, Outcome.toOption]
  | eqz t =>
    cases t <;> simp only [step, stepR] <;> (rcases st with _ | ⟨a, r⟩ <;> try cases a) <;>
    simp [pop32, pop64, Outcome.toOption]
  | un t k =>
    cases t <;> simp only [step, stepR] <;> (rcases st with _ | ⟨a, r⟩ <;> try cases a) <;>
    simp [pop32, pop64, Outcome.toOption]
  | wrap_i64 => simp only [step, stepR]; (rcases st with _ | ⟨a, r⟩ <;> try cases a) <;> simp [pop32, pop64, Outcome.toOption]
  | extend_i32_s => simp only [step, stepR]; (rcases st with _ | ⟨a, r⟩ <;> try cases a) <;> simp [pop32, pop64, Outcome.toOption]
  | extend_i32_u => simp only [step, stepR]; (rcases st with _ | ⟨a, r⟩ <;> try cases a) <;> simp [pop32, pop64, Outcome.toOption]
  | drop => simp only [step, stepR]; cases st <;> rfl
  | const32 v => rfl
  | const64 v => rfl

theorem exec_eq_execR (loc : List Val) (code : List Instr) (st : List Val) :
    exec loc code st = (execR loc code st).toOption := by
  induction code generalizing st with
  | nil => rfl
  | cons i r ih =>
    simp only [exec, execR, step_eq_stepR]
    cases stepR loc i st <;> simp [Outcome.toOption, ih]


/-- one step of validated code is not stuck and produces the computed stack type -/
theorem stepR_sound (Γ : List Ty) (loc : List Val) (i : Instr) (st : List Val) (τs' : List Ty)
    (hloc : loc.map Val.ty = Γ) (hv : instrType Γ i (st.map Val.ty) = some τs') :
    stepR loc i st = .trap ∨ ∃ st', stepR loc i st = .ok st' ∧ st'.map Val.ty = τs' := by
  subst hloc
  cases i with
  | const32 v => simp [instrType] at hv; subst hv; exact Or.inr ⟨_, rfl, rfl⟩
  | const64 v => simp [instrType] at hv; subst hv; exact Or.inr ⟨_, rfl, rfl⟩
  | localGet n =>
    simp only [instrType, List.getElem?_map] at hv
    cases h : loc[n]? with
    | none => simp [h] at hv
    | some v => simp [h] at hv; subst hv; exact Or.inr ⟨v :: st, by simp [stepR, h], rfl⟩
  | bin t k =>
    rcases st with _ | ⟨a, _ | ⟨b, r⟩⟩ <;> simp [instrType] at hv
    obtain ⟨⟨ha, hb⟩, rfl⟩ := hv
    cases t <;> cases a <;> cases b <;> simp [Val.ty] at ha hb <;>
    (simp only [stepR]; cases binop k _ _ <;> simp [Val.ty])
  | rel t k =>
    rcases st with _ | ⟨a, _ | ⟨b, r⟩⟩ <;> simp [instrType] at hv
    obtain ⟨⟨ha, hb⟩, rfl⟩ := hv
    cases t <;> cases a <;> cases b <;> simp [Val.ty] at ha hb <;> simp [stepR, Val.ty]
  | eqz t =>
    rcases st with _ | ⟨a, r⟩ <;> simp [instrType] at hv
    obtain ⟨ha, rfl⟩ := hv
    cases t <;> cases a <;> simp [Val.ty] at ha <;> simp [stepR, Val.ty]
  | un t k =>
    rcases st with _ | ⟨a, r⟩ <;> simp [instrType] at hv
    obtain ⟨ha, rfl⟩ := hv
    cases t <;> cases a <;> simp [Val.ty] at ha <;> simp [stepR, Val.ty]
  | wrap_i64 =>
    rcases st with _ | ⟨a, r⟩ <;> simp [instrType] at hv
    cases a <;> simp [Val.ty] at hv <;> (subst hv; simp [stepR, Val.ty])
  | extend_i32_s =>
    rcases st with _ | ⟨a, r⟩ <;> simp [instrType] at hv
    cases a <;> simp [Val.ty] at hv <;> (subst hv; simp [stepR, Val.ty])
  | extend_i32_u =>
    rcases st with _ | ⟨a, r⟩ <;> simp [instrType] at hv
    cases a <;> simp [Val.ty] at hv <;> (subst hv; simp [stepR, Val.ty])
  | drop =>
    rcases st with _ | ⟨a, r⟩ <;> simp [instrType] at hv
    subst hv; simp [stepR]

/-- Type soundness for straight-line code: validated code never gets stuck; it traps or ends
with a stack of exactly the validated type. -/
theorem validate_sound (Γ : List Ty) (loc : List Val) (code : List Instr) (st : List Val) (τs' : List Ty)
    (hloc : loc.map Val.ty = Γ) (hv : validate Γ code (st.map Val.ty) = some τs') :
    execR loc code st = .trap ∨ ∃ st', execR loc code st = .ok st' ∧ st'.map Val.ty = τs' := by
  induction code generalizing st with
  | nil => simp [validate] at hv; exact Or.inr ⟨st, rfl, hv⟩
  | cons i r ih =>
    simp only [validate] at hv
    cases hi : instrType Γ i (st.map Val.ty) with
    | none => simp [hi] at hv
    | some τ1 =>
      simp [hi] at hv
      rcases stepR_sound Γ loc i st τ1 hloc hi with h | ⟨st1, h1, h2⟩
      · left; simp [execR, h]
      · simp only [execR, h1]
        exact ih st1 (by rw [h2]; exact hv)

end WaVerif.Wasm
