import WaVerif.Lemmas.C21
/-!
# C21 — property theorems (language-server document sync)

Client side: `lspCharIndex` (LSP positions: lines end at `\n`, `\r\n`, lone `\r`; UTF-16 columns),
`clientApplyRange`, `clientRun` (Model/C21.lean). Server side: the transcription of
`Mapper.PositionOffset`, `applyIncrementalChanges`, `changedText`, `DidChange`, `DidOpen`.
Every `theorem` in this file is an obligation of the check and is axiom-audited.

Guards (all decidable, all with satisfiable non-trivial `example`s below):
* `NoLoneCR doc`          — the server (like gopls) does not treat a lone `\r` as a line end;
* `midSurrogate doc p = false` — for rejection only: the server rounds such a column down;
* `afterCR doc p = false` — for rejection only: NOT in the design; the server accepts the column
                            between `\r` and `\n` (`invalid_rejected_full_false`, recorded finding);
* `historyGuard`          — every notification is a full change or incremental changes only.
-/
namespace WaVerif.C21

/-- the position denotes a character boundary of the client's document -/
def ValidPos (doc : List Char) (p : Pos) : Prop := (lspCharIndex doc p).isSome

/-- both ends denote character boundaries and the range is not reversed -/
def ValidRange (doc : List Char) (r : Range) : Prop :=
  ∃ i j, lspCharIndex doc r.start = some i ∧ lspCharIndex doc r.stop = some j ∧ i ≤ j

/-- Without a lone `\r`, the LSP (three-terminator) meaning of a position is the `\n`-only one
the server-side lemmas are proved against. -/
theorem lsp_charIndex_eq (doc : List Char) (p : Pos) (h : NoLoneCR doc = true) :
    lspCharIndex doc p = charIndex doc p :=
  lsp_charIndex_eq' doc p h

/-! ## positions -/

/-- A position that denotes character index `i` for the client is mapped by the server to the byte
offset of exactly that boundary. -/
theorem positionOffset_correct (doc : List Char) (p : Pos) (i : Nat)
    (hcr : NoLoneCR doc = true) (h : lspCharIndex doc p = some i) :
    positionOffset (utf8 doc) p.line p.char = .ok (utf8Len (doc.take i)) := by
  rw [lsp_charIndex_eq doc p hcr] at h
  exact positionOffset_of_charIndex doc p i h

-- "a😀é\r\n世b": line 0 column 3 is after the astral character (index 2, byte 5); line 1 column 1
-- is after the 3-byte character (index 6, byte 12); (2,0) is the EOF-line alias (index 7)
example : NoLoneCR "a😀é\r\n世b".toList = true ∧
    lspCharIndex "a😀é\r\n世b".toList ⟨0, 3⟩ = some 2 ∧
    lspCharIndex "a😀é\r\n世b".toList ⟨1, 1⟩ = some 6 ∧
    lspCharIndex "a😀é\r\n世b".toList ⟨2, 0⟩ = some 7 := by decide

/-! ## one edit -/

/-- A valid range edit: the server's new text is the UTF-8 of the client's new document. -/
theorem apply_one (doc : List Char) (r : Range) (txt doc' : List Char)
    (hcr : NoLoneCR doc = true) (h : clientApplyRange lspCharIndex doc r txt = some doc') :
    applyOne (utf8 doc) r (utf8 txt) = .ok (utf8 doc') := by
  unfold clientApplyRange at h
  rw [lsp_charIndex_eq doc _ hcr, lsp_charIndex_eq doc _ hcr] at h
  exact applyOne_of_client doc r txt doc' h

/-- `ValidRange` is exactly "the client can apply the edit". -/
theorem validRange_iff (doc : List Char) (r : Range) (txt : List Char) :
    ValidRange doc r ↔ ∃ doc', clientApplyRange lspCharIndex doc r txt = some doc' := by
  unfold ValidRange clientApplyRange
  constructor
  · rintro ⟨i, j, hi, hj, hij⟩
    exact ⟨doc.take i ++ txt ++ doc.drop j, by simp [hi, hj, hij]⟩
  · rintro ⟨d, hd⟩
    cases hi : lspCharIndex doc r.start with
    | none => simp [hi] at hd
    | some i =>
      cases hj : lspCharIndex doc r.stop with
      | none => simp [hi, hj] at hd
      | some j =>
        simp only [hi, hj] at hd
        split at hd
        · rename_i hij; exact ⟨i, j, rfl, rfl, hij⟩
        · simp at hd

-- delete from after the astral character across the CRLF to after the first character of line 1
example : clientApplyRange lspCharIndex "a😀é\r\n世b".toList ⟨⟨0, 3⟩, ⟨1, 1⟩⟩ "𝒳\n".toList
    = some "a😀𝒳\nb".toList := by decide

/-! ## histories -/

/-- the incremental changes of one notification, applied by the server -/
theorem apply_list (cs : List CChange) (doc doc' : List Char)
    (hin : cs.all isIncr = true) (hg : listNoLoneCR lspCharIndex doc cs = true)
    (h : clientApplyList lspCharIndex doc cs = some doc') :
    applyIncremental (utf8 doc) (cs.map toServer) = .ok (utf8 doc') := by
  induction cs generalizing doc with
  | nil => simp [clientApplyList] at h; subst h; rfl
  | cons c rest ih =>
    cases c with
    | full t => simp [isIncr] at hin
    | incr r t =>
      simp only [List.all_cons, Bool.and_eq_true] at hin
      simp only [listNoLoneCR, Bool.and_eq_true] at hg
      simp only [clientApplyList, clientApply1] at h hg
      cases hd : clientApplyRange lspCharIndex doc r t with
      | none => simp [hd] at h
      | some d =>
        simp only [hd] at h hg
        simp only [List.map_cons, toServer, applyIncremental, apply_one doc r t d hg.1 hd]
        exact ih d hin.2 hg.2 h

/-- **Sync.** After any history of open / full-change / incremental-change notifications that a
client can produce (every range valid in the state it applies to), the server's text is the UTF-8
of the client's document. -/
theorem sync_history (hist : List Notif) (doc doc' : List Char)
    (hg : historyGuard lspCharIndex doc hist = true)
    (h : clientRun lspCharIndex doc hist = some doc') :
    serverRun (utf8 doc) hist = utf8 doc' := by
  induction hist generalizing doc with
  | nil => simp [clientRun] at h; subst h; rfl
  | cons n rest ih =>
    simp only [historyGuard, Bool.and_eq_true] at hg
    simp only [clientRun] at h
    cases hstep : clientStep lspCharIndex doc n with
    | none => simp [hstep] at h
    | some d =>
      simp only [hstep] at h hg
      obtain ⟨⟨hshape, hcr⟩, hrest⟩ := hg
      have key : serverStep (utf8 doc) n = utf8 d := by
        cases n with
        | «open» t => simp [clientStep] at hstep; subst hstep; rfl
        | change cs =>
          simp only [clientStep] at hstep
          simp only [NotifShape, Bool.or_eq_true, beq_iff_eq] at hshape
          simp only [serverStep, didChange, Bool.not_true, Bool.false_eq_true, if_false]
          by_cases hall : cs.all isIncr = true
          · cases cs with
            | nil =>
              simp [clientApplyList] at hstep; subst hstep
              simp [changedText]
            | cons c cs' =>
              rw [changedText_incr _ _ hall (by simp), apply_list _ doc d hall hcr hstep]
          · rcases hshape with hs | hs
            · exact absurd hs hall
            · match cs, hs with
              | [c], _ =>
                cases c with
                | incr r t => simp [isIncr] at hall
                | full t =>
                  simp [clientApplyList, clientApply1] at hstep; subst hstep
                  simp [changedText, toServer]
      simp only [serverRun, key]
      exact ih d hrest h

-- a history: open, an incremental list of two edits (the second in the state after the first),
-- a full change, an edit at the EOF-line alias
def exHist : List Notif :=
  [ .open "a😀\r\nb".toList,
    .change [.incr ⟨⟨0, 1⟩, ⟨0, 3⟩⟩ "é".toList, .incr ⟨⟨1, 1⟩, ⟨1, 1⟩⟩ "\n𝒳".toList],
    .change [.full "x\ny".toList],
    .change [.incr ⟨⟨2, 0⟩, ⟨2, 0⟩⟩ "!".toList] ]

example : historyGuard lspCharIndex [] exHist = true ∧
    clientRun lspCharIndex [] exHist = some "x\ny!".toList := by decide

/-! ## rejection -/

/-- `DidChange` assigns the stored text only after `changedText` succeeded: whenever it returns
an error the stored text is unchanged. -/
theorem didChange_error_unchanged (isWa : Bool) (stored : List Nat) (cs : List SChange) (e : AErr)
    (h : (didChange isWa stored cs).2 = some e) : (didChange isWa stored cs).1 = stored := by
  unfold didChange at *
  cases isWa with
  | false => rfl
  | true =>
    cases ht : changedText stored cs with
    | ok t => simp [ht] at h
    | error e' => simp

/-- The statement as designed (guards: no lone `\r`, ends not inside a surrogate pair):
a range the client cannot resolve is rejected. -/
def invalidRejectedStatement : Prop :=
  ∀ (doc : List Char) (r : Range) (txt : List Char), NoLoneCR doc = true →
    midSurrogate doc r.start = false → midSurrogate doc r.stop = false →
    clientApplyRange lspCharIndex doc r txt = none →
    ∃ e, applyOne (utf8 doc) r (utf8 txt) = .error e

/-- It is false of the model (and of the code — the witness is replayed by the check, corpus
`regress.json`): in "ab\r\ncd" the position (0,3) — one past the content "ab" of a CRLF line —
is accepted and denotes the gap between `\r` and `\n`; inserting "X" there gives "ab\rX\ncd". -/
theorem invalid_rejected_full_false : ¬ invalidRejectedStatement := by
  intro hall
  obtain ⟨e, he⟩ := hall "ab\r\ncd".toList ⟨⟨0, 3⟩, ⟨0, 3⟩⟩ "X".toList
    (by decide) (by decide) (by decide) (by decide)
  have : applyOne (utf8 "ab\r\ncd".toList) ⟨⟨0, 3⟩, ⟨0, 3⟩⟩ (utf8 "X".toList)
      = .ok (utf8 "ab\rX\ncd".toList) := by rfl
  rw [this] at he
  cases he

/-- **Rejection (proved part).** With the additional guard that neither end is the `\r\n` gap:
a range that denotes nothing for the client (a position beyond the last line, beyond the end of
its line, beyond EOF, or a reversed range) makes the server return an error. -/
theorem invalid_rejected_partial (doc : List Char) (r : Range) (txt : List Char)
    (hcr : NoLoneCR doc = true)
    (hm1 : midSurrogate doc r.start = false) (hm2 : midSurrogate doc r.stop = false)
    (hr1 : afterCR doc r.start = false) (hr2 : afterCR doc r.stop = false)
    (h : clientApplyRange lspCharIndex doc r txt = none) :
    ∃ e, applyOne (utf8 doc) r (utf8 txt) = .error e := by
  unfold clientApplyRange at h
  rw [lsp_charIndex_eq doc _ hcr, lsp_charIndex_eq doc _ hcr] at h
  exact applyOne_error_of_none doc r txt h hm1 hm2 hr1 hr2

-- non-trivial instances of the hypotheses: column beyond a CRLF line's gap, beyond EOF line, reversed
example : NoLoneCR "a😀\r\nb".toList = true ∧
    (∀ p ∈ [(⟨0, 5⟩ : Pos), ⟨1, 2⟩, ⟨2, 1⟩, ⟨3, 0⟩],
      lspCharIndex "a😀\r\nb".toList p = none ∧ midSurrogate "a😀\r\nb".toList p = false ∧
      afterCR "a😀\r\nb".toList p = false) ∧
    clientApplyRange lspCharIndex "a😀\r\nb".toList ⟨⟨1, 1⟩, ⟨0, 1⟩⟩ [] = none := by decide

/-- **Rejection, whole notification.** If some range of an incremental notification denotes nothing
(under the guards, for the state it applies to), `DidChange` returns an error and the stored text
stays the UTF-8 of the client's document before the notification — earlier changes of the same
list are not applied either. -/
theorem invalid_notification_rejected (cs1 : List CChange) (r : Range) (t : List Char)
    (cs2 : List SChange) (doc d : List Char)
    (hin : cs1.all isIncr = true) (hg : listNoLoneCR lspCharIndex doc cs1 = true)
    (h1 : clientApplyList lspCharIndex doc cs1 = some d)
    (hcr : NoLoneCR d = true)
    (hm1 : midSurrogate d r.start = false) (hm2 : midSurrogate d r.stop = false)
    (hr1 : afterCR d r.start = false) (hr2 : afterCR d r.stop = false)
    (hbad : clientApplyRange lspCharIndex d r t = none) :
    ∃ e, didChange true (utf8 doc) (cs1.map toServer ++ toServer (.incr r t) :: cs2)
      = (utf8 doc, some e) := by
  obtain ⟨e, he⟩ := invalid_rejected_partial d r t hcr hm1 hm2 hr1 hr2 hbad
  have hinc : ∀ (cs : List CChange) (x : List Char), cs.all isIncr = true →
      listNoLoneCR lspCharIndex x cs = true → clientApplyList lspCharIndex x cs = some d →
      applyIncremental (utf8 x) (cs.map toServer ++ toServer (.incr r t) :: cs2) = .error e := by
    intro cs
    induction cs with
    | nil =>
      intro x _ _ hx
      simp [clientApplyList] at hx; subst hx
      simp [applyIncremental, toServer, he]
    | cons c rest ih =>
      intro x hin hg hx
      cases c with
      | full _ => simp [isIncr] at hin
      | incr r' t' =>
        simp only [List.all_cons, Bool.and_eq_true] at hin
        simp only [listNoLoneCR, Bool.and_eq_true, clientApply1] at hg
        simp only [clientApplyList, clientApply1] at hx
        cases hd : clientApplyRange lspCharIndex x r' t' with
        | none => simp [hd] at hx
        | some y =>
          simp only [hd] at hx hg
          simp only [List.map_cons, List.cons_append, toServer, applyIncremental,
            apply_one x r' t' y hg.1 hd]
          exact ih y hin.2 hg.2 hx
  have hct : changedText (utf8 doc) (cs1.map toServer ++ toServer (.incr r t) :: cs2)
      = applyIncremental (utf8 doc) (cs1.map toServer ++ toServer (.incr r t) :: cs2) := by
    cases cs1 with
    | nil =>
      cases cs2 with
      | nil => simp [changedText, toServer]
      | cons _ _ => simp [changedText]
    | cons c rest =>
      cases rest with
      | nil => simp [changedText]
      | cons _ _ => simp [changedText]
  refine ⟨e, ?_⟩
  simp [didChange, hct, hinc cs1 doc hin hg h1]

/-! ## shapes the server does not support (documented behaviour of the code) -/

/-- A notification with two or more content changes one of which is a full-document change (no
range) is rejected as a whole: error, stored text unchanged. -/
theorem mixed_list_rejected (stored : List Nat) (cs : List SChange) (hlen : 2 ≤ cs.length)
    (hfull : ∃ c ∈ cs, c.range = none) :
    ∃ e, didChange true stored cs = (stored, some e) := by
  have hinc : ∀ (cs : List SChange) (x : List Nat), (∃ c ∈ cs, c.range = none) →
      ∃ e, applyIncremental x cs = .error e := by
    intro cs
    induction cs with
    | nil => intro x h; simp at h
    | cons c rest ih =>
      intro x h
      cases hr : c.range with
      | none => exact ⟨.nilRange, by simp [applyIncremental, hr]⟩
      | some r =>
        have hrest : ∃ c' ∈ rest, c'.range = none := by
          obtain ⟨c', hc', hn⟩ := h
          simp at hc'
          rcases hc' with rfl | hc'
          · simp [hr] at hn
          · exact ⟨c', hc', hn⟩
        cases ha : applyOne x r c.text with
        | error e => exact ⟨e, by simp [applyIncremental, hr, ha]⟩
        | ok y =>
          obtain ⟨e, he⟩ := ih y hrest
          exact ⟨e, by simp [applyIncremental, hr, ha, he]⟩
  obtain ⟨e, he⟩ := hinc cs stored hfull
  refine ⟨e, ?_⟩
  match cs, hlen with
  | _ :: _ :: _, _ => simp [didChange, changedText, he]

/-- The URI filter of `DidChange` (regenerated from the source into Gen/C21Filter.lean): a change
for a document that does not pass it is dropped silently — the stored copy goes stale. -/
theorem filtered_uri_ignored (stored : List Nat) (cs : List SChange) :
    didChange false stored cs = (stored, none) := rfl

end WaVerif.C21
