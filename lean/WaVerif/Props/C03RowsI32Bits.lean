import WaVerif.Model.C03Spec
import WaVerif.Gen.C03Templates
import WaVerif.Lemmas.C03Tac
set_option linter.unusedSimpArgs false
/-! One theorem group per regenerated C template (statement fixed by the instruction name). Written by tools/gen_c03_props.py. -/
namespace WaVerif.C03.Rows
open WaVerif WaVerif.Wasm WaVerif.C03 WaVerif.Gen.C03

theorem i32_and_ok : Full2 CVal.i32 CVal.i32 CVal.i32 (wBin .and) f_i32_and := by
  unfold f_i32_and
  c03_tac

theorem i32_or_ok : Full2 CVal.i32 CVal.i32 CVal.i32 (wBin .or) f_i32_or := by
  unfold f_i32_or
  c03_tac

theorem i32_xor_ok : Full2 CVal.i32 CVal.i32 CVal.i32 (wBin .xor) f_i32_xor := by
  unfold f_i32_xor
  c03_tac

/-- `i32.shl`: count masked with 63: a count of 32..63 on a 32-bit operand is undefined in C (WebAssembly: count mod 32) -/
theorem i32_shl_partial : Partial2 CVal.i32 CVal.i32 CVal.i32 Guard.shl32 (wBin .shl) f_i32_shl := by
  unfold f_i32_shl
  c03_tac

theorem i32_shl_full_false : ¬ Full2 CVal.i32 CVal.i32 CVal.i32 (wBin .shl) f_i32_shl := by
  intro h
  have h := h 0x1#32 0x20#32 []
  revert h
  decide

theorem i32_shl_sound : Sound2 CVal.i32 CVal.i32 CVal.i32 (wBin .shl) f_i32_shl := by
  unfold f_i32_shl
  c03_sound

example : Guard.shl32 0x3#32 0x2#32 := by decide

/-- `i32.shr_s`: count masked with 63: a count of 32..63 on a 32-bit operand is undefined in C -/
theorem i32_shr_s_partial : Partial2 CVal.i32 CVal.i32 CVal.i32 Guard.cnt32 (wBin .shr_s) f_i32_shr_s := by
  unfold f_i32_shr_s
  c03_tac

theorem i32_shr_s_full_false : ¬ Full2 CVal.i32 CVal.i32 CVal.i32 (wBin .shr_s) f_i32_shr_s := by
  intro h
  have h := h 0x1#32 0x20#32 []
  revert h
  decide

theorem i32_shr_s_sound : Sound2 CVal.i32 CVal.i32 CVal.i32 (wBin .shr_s) f_i32_shr_s := by
  unfold f_i32_shr_s
  c03_sound

example : Guard.cnt32 0x3#32 0x2#32 := by decide

/-- `i32.shr_u`: count masked with 63: a count of 32..63 on a 32-bit operand is undefined in C -/
theorem i32_shr_u_partial : Partial2 CVal.i32 CVal.i32 CVal.i32 Guard.cnt32 (wBin .shr_u) f_i32_shr_u := by
  unfold f_i32_shr_u
  c03_tac

theorem i32_shr_u_full_false : ¬ Full2 CVal.i32 CVal.i32 CVal.i32 (wBin .shr_u) f_i32_shr_u := by
  intro h
  have h := h 0x1#32 0x20#32 []
  revert h
  decide

theorem i32_shr_u_sound : Sound2 CVal.i32 CVal.i32 CVal.i32 (wBin .shr_u) f_i32_shr_u := by
  unfold f_i32_shr_u
  c03_sound

example : Guard.cnt32 0x3#32 0x2#32 := by decide

/-- `i32.rotl`: I32_ROTL applied to a signed int32_t: undefined left shift and arithmetic right shift -/
theorem i32_rotl_partial : Partial2 CVal.i32 CVal.i32 CVal.i32 Guard.rotl32 (wBin .rotl) f_i32_rotl := by
  unfold f_i32_rotl
  c03_tac

theorem i32_rotl_full_false : ¬ Full2 CVal.i32 CVal.i32 CVal.i32 (wBin .rotl) f_i32_rotl := by
  intro h
  have h := h 0xfffffffe#32 0x1#32 []
  revert h
  decide

theorem i32_rotl_sound : Sound2 CVal.i32 CVal.i32 CVal.i32 (wBin .rotl) f_i32_rotl := by
  unfold f_i32_rotl
  c03_sound

example : Guard.rotl32 0x1#32 0x4#32 := by decide

/-- `i32.rotr`: I32_ROTR applied to a signed int32_t: arithmetic right shift and undefined left shift -/
theorem i32_rotr_partial : Partial2 CVal.i32 CVal.i32 CVal.i32 Guard.rotr32 (wBin .rotr) f_i32_rotr := by
  unfold f_i32_rotr
  c03_tac

theorem i32_rotr_full_false : ¬ Full2 CVal.i32 CVal.i32 CVal.i32 (wBin .rotr) f_i32_rotr := by
  intro h
  have h := h 0xfffffffe#32 0x1#32 []
  revert h
  decide

theorem i32_rotr_sound : Sound2 CVal.i32 CVal.i32 CVal.i32 (wBin .rotr) f_i32_rotr := by
  unfold f_i32_rotr
  c03_sound

example : Guard.rotr32 0x1#32 0x4#32 := by decide

end WaVerif.C03.Rows
