import WaVerif.Model.C03Spec
import WaVerif.Gen.C03Templates
import WaVerif.Lemmas.C03Tac
set_option linter.unusedSimpArgs false
/-! One theorem group per regenerated C template (statement fixed by the instruction name). Written by tools/gen_c03_props.py. -/
namespace WaVerif.C03.Rows
open WaVerif WaVerif.Wasm WaVerif.C03 WaVerif.Gen.C03

theorem i32_and_ok : Full2 CVal.i32 CVal.i32 CVal.i32 (wBin .and) f_i32_and := by
  unfold f_i32_and
  c03_tac

theorem i32_or_ok : Full2 CVal.i32 CVal.i32 CVal.i32 (wBin .or) f_i32_or := by
  unfold f_i32_or
  c03_tac

theorem i32_xor_ok : Full2 CVal.i32 CVal.i32 CVal.i32 (wBin .xor) f_i32_xor := by
  unfold f_i32_xor
  c03_tac

theorem i32_shl_ok : Full2 CVal.i32 CVal.i32 CVal.i32 (wBin .shl) f_i32_shl := by
  unfold f_i32_shl
  c03_tac

theorem i32_shr_s_ok : Full2 CVal.i32 CVal.i32 CVal.i32 (wBin .shr_s) f_i32_shr_s := by
  unfold f_i32_shr_s
  c03_tac

theorem i32_shr_u_ok : Full2 CVal.i32 CVal.i32 CVal.i32 (wBin .shr_u) f_i32_shr_u := by
  unfold f_i32_shr_u
  c03_tac

theorem i32_rotl_ok : Full2 CVal.i32 CVal.i32 CVal.i32 (wBin .rotl) f_i32_rotl := by
  unfold f_i32_rotl
  c03_tac

theorem i32_rotr_ok : Full2 CVal.i32 CVal.i32 CVal.i32 (wBin .rotr) f_i32_rotr := by
  unfold f_i32_rotr
  c03_tac

end WaVerif.C03.Rows
