import WaVerif.Props.C03RowsI32Arith
import WaVerif.Props.C03RowsI32Bits
import WaVerif.Props.C03RowsI32Cmp
import WaVerif.Props.C03RowsI64Arith
import WaVerif.Props.C03RowsI64Bits
import WaVerif.Props.C03RowsI64Cmp
import WaVerif.Props.C03RowsMisc
/-! C03 — the property theorems: one group per regenerated C template of an integer instruction (statement forms in
    Model/C03Spec.lean; proofs in Props/C03Rows*.lean, restated here so that every one is axiom-audited once).
    `<row>_ok`: the C function wat2c emits returns WebAssembly's result for ALL operands and memories, memory unchanged, and aborts where
    WebAssembly traps.  Rows where that is false: `<row>_partial` (same under the instruction's operand guard), `<row>_full_false`
    (negation by a concrete witness, replayed through compiled C by the check) and `<row>_sound` (defined C behaviour ⇒ WebAssembly's result).
    Written by tools/gen_c03_props.py. -/
namespace WaVerif.C03
open WaVerif WaVerif.Wasm WaVerif.C03 WaVerif.Gen.C03

theorem i32_add_ok : Full2 CVal.i32 CVal.i32 CVal.i32 (wBin .add) f_i32_add := Rows.i32_add_ok
theorem i32_sub_ok : Full2 CVal.i32 CVal.i32 CVal.i32 (wBin .sub) f_i32_sub := Rows.i32_sub_ok
theorem i32_mul_ok : Full2 CVal.i32 CVal.i32 CVal.i32 (wBin .mul) f_i32_mul := Rows.i32_mul_ok
theorem i32_div_s_ok : Full2 CVal.i32 CVal.i32 CVal.i32 (wBin .div_s) f_i32_div_s := Rows.i32_div_s_ok
theorem i32_div_u_ok : Full2 CVal.i32 CVal.i32 CVal.i32 (wBin .div_u) f_i32_div_u := Rows.i32_div_u_ok
theorem i32_rem_s_ok : Full2 CVal.i32 CVal.i32 CVal.i32 (wBin .rem_s) f_i32_rem_s := Rows.i32_rem_s_ok
theorem i32_rem_u_ok : Full2 CVal.i32 CVal.i32 CVal.i32 (wBin .rem_u) f_i32_rem_u := Rows.i32_rem_u_ok
theorem i32_and_ok : Full2 CVal.i32 CVal.i32 CVal.i32 (wBin .and) f_i32_and := Rows.i32_and_ok
theorem i32_or_ok : Full2 CVal.i32 CVal.i32 CVal.i32 (wBin .or) f_i32_or := Rows.i32_or_ok
theorem i32_xor_ok : Full2 CVal.i32 CVal.i32 CVal.i32 (wBin .xor) f_i32_xor := Rows.i32_xor_ok
theorem i32_shl_ok : Full2 CVal.i32 CVal.i32 CVal.i32 (wBin .shl) f_i32_shl := Rows.i32_shl_ok
theorem i32_shr_s_ok : Full2 CVal.i32 CVal.i32 CVal.i32 (wBin .shr_s) f_i32_shr_s := Rows.i32_shr_s_ok
theorem i32_shr_u_ok : Full2 CVal.i32 CVal.i32 CVal.i32 (wBin .shr_u) f_i32_shr_u := Rows.i32_shr_u_ok
theorem i32_rotl_ok : Full2 CVal.i32 CVal.i32 CVal.i32 (wBin .rotl) f_i32_rotl := Rows.i32_rotl_ok
theorem i32_rotr_ok : Full2 CVal.i32 CVal.i32 CVal.i32 (wBin .rotr) f_i32_rotr := Rows.i32_rotr_ok
theorem i32_eq_ok : Full2 CVal.i32 CVal.i32 CVal.i32 (wRel .eq) f_i32_eq := Rows.i32_eq_ok
theorem i32_ne_ok : Full2 CVal.i32 CVal.i32 CVal.i32 (wRel .ne) f_i32_ne := Rows.i32_ne_ok
theorem i32_lt_s_ok : Full2 CVal.i32 CVal.i32 CVal.i32 (wRel .lt_s) f_i32_lt_s := Rows.i32_lt_s_ok
theorem i32_lt_u_ok : Full2 CVal.i32 CVal.i32 CVal.i32 (wRel .lt_u) f_i32_lt_u := Rows.i32_lt_u_ok
theorem i32_gt_s_ok : Full2 CVal.i32 CVal.i32 CVal.i32 (wRel .gt_s) f_i32_gt_s := Rows.i32_gt_s_ok
theorem i32_gt_u_ok : Full2 CVal.i32 CVal.i32 CVal.i32 (wRel .gt_u) f_i32_gt_u := Rows.i32_gt_u_ok
theorem i32_le_s_ok : Full2 CVal.i32 CVal.i32 CVal.i32 (wRel .le_s) f_i32_le_s := Rows.i32_le_s_ok
theorem i32_le_u_ok : Full2 CVal.i32 CVal.i32 CVal.i32 (wRel .le_u) f_i32_le_u := Rows.i32_le_u_ok
theorem i32_ge_s_ok : Full2 CVal.i32 CVal.i32 CVal.i32 (wRel .ge_s) f_i32_ge_s := Rows.i32_ge_s_ok
theorem i32_ge_u_ok : Full2 CVal.i32 CVal.i32 CVal.i32 (wRel .ge_u) f_i32_ge_u := Rows.i32_ge_u_ok
theorem i32_eqz_ok : Full1 CVal.i32 CVal.i32 wEqz f_i32_eqz := Rows.i32_eqz_ok
theorem i32_clz_ok : Full1 CVal.i32 CVal.i32 (wUn .clz) f_i32_clz := Rows.i32_clz_ok
theorem i32_ctz_ok : Full1 CVal.i32 CVal.i32 (wUn .ctz) f_i32_ctz := Rows.i32_ctz_ok
theorem i32_popcnt_ok : Full1 CVal.i32 CVal.i32 (wUn .popcnt) f_i32_popcnt := Rows.i32_popcnt_ok
theorem select_i32_ok : Full3 CVal.i32 CVal.i32 CVal.i32 CVal.i32 wSelect f_select_i32 := Rows.select_i32_ok
theorem i64_add_ok : Full2 CVal.i64 CVal.i64 CVal.i64 (wBin .add) f_i64_add := Rows.i64_add_ok
theorem i64_sub_ok : Full2 CVal.i64 CVal.i64 CVal.i64 (wBin .sub) f_i64_sub := Rows.i64_sub_ok
theorem i64_mul_ok : Full2 CVal.i64 CVal.i64 CVal.i64 (wBin .mul) f_i64_mul := Rows.i64_mul_ok
theorem i64_div_u_ok : Full2 CVal.i64 CVal.i64 CVal.i64 (wBin .div_u) f_i64_div_u := Rows.i64_div_u_ok
theorem i64_rem_s_ok : Full2 CVal.i64 CVal.i64 CVal.i64 (wBin .rem_s) f_i64_rem_s := Rows.i64_rem_s_ok
theorem i64_rem_u_ok : Full2 CVal.i64 CVal.i64 CVal.i64 (wBin .rem_u) f_i64_rem_u := Rows.i64_rem_u_ok
theorem i64_and_ok : Full2 CVal.i64 CVal.i64 CVal.i64 (wBin .and) f_i64_and := Rows.i64_and_ok
theorem i64_or_ok : Full2 CVal.i64 CVal.i64 CVal.i64 (wBin .or) f_i64_or := Rows.i64_or_ok
theorem i64_xor_ok : Full2 CVal.i64 CVal.i64 CVal.i64 (wBin .xor) f_i64_xor := Rows.i64_xor_ok
theorem i64_shl_ok : Full2 CVal.i64 CVal.i64 CVal.i64 (wBin .shl) f_i64_shl := Rows.i64_shl_ok
theorem i64_shr_s_ok : Full2 CVal.i64 CVal.i64 CVal.i64 (wBin .shr_s) f_i64_shr_s := Rows.i64_shr_s_ok
theorem i64_shr_u_ok : Full2 CVal.i64 CVal.i64 CVal.i64 (wBin .shr_u) f_i64_shr_u := Rows.i64_shr_u_ok
theorem i64_rotl_ok : Full2 CVal.i64 CVal.i64 CVal.i64 (wBin .rotl) f_i64_rotl := Rows.i64_rotl_ok
theorem i64_rotr_ok : Full2 CVal.i64 CVal.i64 CVal.i64 (wBin .rotr) f_i64_rotr := Rows.i64_rotr_ok
theorem i64_eq_ok : Full2 CVal.i64 CVal.i64 CVal.i32 (wRel .eq) f_i64_eq := Rows.i64_eq_ok
theorem i64_ne_ok : Full2 CVal.i64 CVal.i64 CVal.i32 (wRel .ne) f_i64_ne := Rows.i64_ne_ok
theorem i64_lt_s_ok : Full2 CVal.i64 CVal.i64 CVal.i32 (wRel .lt_s) f_i64_lt_s := Rows.i64_lt_s_ok
theorem i64_lt_u_ok : Full2 CVal.i64 CVal.i64 CVal.i32 (wRel .lt_u) f_i64_lt_u := Rows.i64_lt_u_ok
theorem i64_gt_s_ok : Full2 CVal.i64 CVal.i64 CVal.i32 (wRel .gt_s) f_i64_gt_s := Rows.i64_gt_s_ok
theorem i64_gt_u_ok : Full2 CVal.i64 CVal.i64 CVal.i32 (wRel .gt_u) f_i64_gt_u := Rows.i64_gt_u_ok
theorem i64_le_s_ok : Full2 CVal.i64 CVal.i64 CVal.i32 (wRel .le_s) f_i64_le_s := Rows.i64_le_s_ok
theorem i64_le_u_ok : Full2 CVal.i64 CVal.i64 CVal.i32 (wRel .le_u) f_i64_le_u := Rows.i64_le_u_ok
theorem i64_ge_s_ok : Full2 CVal.i64 CVal.i64 CVal.i32 (wRel .ge_s) f_i64_ge_s := Rows.i64_ge_s_ok
theorem i64_ge_u_ok : Full2 CVal.i64 CVal.i64 CVal.i32 (wRel .ge_u) f_i64_ge_u := Rows.i64_ge_u_ok
theorem i64_eqz_ok : Full1 CVal.i64 CVal.i32 wEqz f_i64_eqz := Rows.i64_eqz_ok
theorem i64_clz_ok : Full1 CVal.i64 CVal.i64 (wUn .clz) f_i64_clz := Rows.i64_clz_ok
theorem i64_ctz_ok : Full1 CVal.i64 CVal.i64 (wUn .ctz) f_i64_ctz := Rows.i64_ctz_ok
theorem i64_popcnt_ok : Full1 CVal.i64 CVal.i64 (wUn .popcnt) f_i64_popcnt := Rows.i64_popcnt_ok
theorem select_i64_ok : Full3 CVal.i64 CVal.i64 CVal.i32 CVal.i64 wSelect f_select_i64 := Rows.select_i64_ok
theorem i32_wrap_i64_ok : Full1 CVal.i64 CVal.i32 wWrap f_i32_wrap_i64 := Rows.i32_wrap_i64_ok
theorem i64_extend_i32_s_ok : Full1 CVal.i32 CVal.i64 wExtS f_i64_extend_i32_s := Rows.i64_extend_i32_s_ok
theorem i64_extend_i32_u_ok : Full1 CVal.i32 CVal.i64 wExtU f_i64_extend_i32_u := Rows.i64_extend_i32_u_ok
theorem i32_const_0_ok : Full0 CVal.i32 (wConst 0#32) f_i32_const_0 := Rows.i32_const_0_ok
theorem i32_const_1_ok : Full0 CVal.i32 (wConst 1#32) f_i32_const_1 := Rows.i32_const_1_ok
theorem i32_const_2_ok : Full0 CVal.i32 (wConst 4294967295#32) f_i32_const_2 := Rows.i32_const_2_ok
theorem i32_const_3_ok : Full0 CVal.i32 (wConst 2147483647#32) f_i32_const_3 := Rows.i32_const_3_ok
theorem i32_const_4_ok : Full0 CVal.i32 (wConst 2147483648#32) f_i32_const_4 := Rows.i32_const_4_ok
theorem i32_const_5_ok : Full0 CVal.i32 (wConst 2147483647#32) f_i32_const_5 := Rows.i32_const_5_ok
theorem i64_const_0_ok : Full0 CVal.i64 (wConst 0#64) f_i64_const_0 := Rows.i64_const_0_ok
theorem i64_const_1_ok : Full0 CVal.i64 (wConst 1#64) f_i64_const_1 := Rows.i64_const_1_ok
theorem i64_const_2_ok : Full0 CVal.i64 (wConst 18446744073709551615#64) f_i64_const_2 := Rows.i64_const_2_ok
theorem i64_const_3_ok : Full0 CVal.i64 (wConst 9223372036854775807#64) f_i64_const_3 := Rows.i64_const_3_ok
theorem i64_const_5_ok : Full0 CVal.i64 (wConst 4294967296#64) f_i64_const_5 := Rows.i64_const_5_ok
theorem i64_const_6_ok : Full0 CVal.i64 (wConst 18446744069414584319#64) f_i64_const_6 := Rows.i64_const_6_ok
end WaVerif.C03
