import WaVerif.Model.C20RV
import WaVerif.Model.C20LA
import WaVerif.Lemmas.C20
/-!
# C20 — sanity theorems about the ISA reference specification

The emulator is Go code with no regenerable data form, so nothing here is about the Go code: these
theorems make the REFERENCE (`Model/C20RV.lean`, `Model/C20LA.lean`) trustworthy by tying its
definitions to the mathematical statements of the manuals (order relations on `toInt`/`toNat`, exact
integer products and quotients, sign/zero extension, link values).  The property itself is decided by
the differential run of the real emulator against `specStep` (checks/c20.py).
-/
namespace WaVerif.C20
open BitVec

/-! ## x0 -/

/-- whatever was executed, `x0` reads zero afterwards -/
theorem x0_reads_zero_after_step {n : Nat} (s : RVState n) (i : Instr) : (specStep s i).rd 0 = 0 := by
  simp [RVState.rd]

/-- a write to `x0` is invisible: every register reads as before -/
theorem write_x0_invisible {n : Nat} (s : RVState n) (o : ROp) (rs1 rs2 r : Reg) :
    (specStep s (.op o 0 rs1 rs2)).rd r = s.rd r := by
  simp only [specStep, RVState.next, RVState.rd, RVState.wr]
  split <;> simp_all

/-! ## arithmetic -/

theorem sub_eq_add_neg {n : Nat} (a b : BitVec n) : aluR .sub a b = aluR .add a (-b) := by
  simp [aluR, BitVec.sub_eq_add_neg]

/-! ## branch conditions are exactly the order relations -/

theorem bge_taken_iff {n : Nat} (a b : BitVec n) : brTaken .ge a b = true ↔ a.toInt ≥ b.toInt := by
  simp [brTaken, BitVec.slt_eq_decide]

theorem bgeu_taken_iff {n : Nat} (a b : BitVec n) : brTaken .geu a b = true ↔ a.toNat ≥ b.toNat := by
  simp [brTaken, BitVec.ult_eq_decide]

theorem blt_taken_iff {n : Nat} (a b : BitVec n) : brTaken .lt a b = true ↔ a.toInt < b.toInt := by
  simp [brTaken, BitVec.slt_eq_decide]

theorem bltu_taken_iff {n : Nat} (a b : BitVec n) : brTaken .ltu a b = true ↔ a.toNat < b.toNat := by
  simp [brTaken, BitVec.ult_eq_decide]

theorem beq_taken_iff {n : Nat} (a b : BitVec n) : brTaken .eq a b = true ↔ a = b := by
  simp [brTaken]

theorem bne_taken_iff {n : Nat} (a b : BitVec n) : brTaken .ne a b = true ↔ a ≠ b := by
  simp [brTaken]

/-! ## one step of a conditional branch / jump -/

theorem jal_link_and_target {n : Nat} (s : RVState n) (rd : Reg) (off : BitVec 21)
    (hal : aligned4 (s.pc + off.signExtend n) = true) :
    (specStep s (.jal rd off)).pc = s.pc + off.signExtend n ∧
    (specStep s (.jal rd off)).trap = s.trap ∧
    (rd ≠ 0 → (specStep s (.jal rd off)).rd rd = s.pc + 4) ∧
    (∀ r, r ≠ rd → (specStep s (.jal rd off)).rd r = s.rd r) := by
  refine ⟨?_, ?_, ?_, ?_⟩
  · simp [specStep, RVState.jump, hal]
  · simp [specStep, RVState.jump, hal, RVState.wr]
  · intro h
    simp only [specStep, RVState.jump, hal, if_true]
    simp [RVState.rd, RVState.wr]
    intro h0; exact absurd h0 h
  · intro r h
    simp only [specStep, RVState.jump, hal, if_true]
    simp [RVState.rd, RVState.wr, h]

theorem jal_misaligned_traps {n : Nat} (s : RVState n) (rd : Reg) (off : BitVec 21)
    (hal : aligned4 (s.pc + off.signExtend n) = false) :
    (specStep s (.jal rd off)).trap = some .misaligned ∧ (specStep s (.jal rd off)).pc = s.pc ∧
    (∀ r, (specStep s (.jal rd off)).rd r = s.rd r) := by
  simp [specStep, RVState.jump, hal, RVState.raise, RVState.rd]

/-- JALR jumps to the address computed from the OLD value of rs1 (also when rd = rs1) and links pc+4 -/
theorem jalr_link_and_target {n : Nat} (s : RVState n) (rd rs1 : Reg) (imm : BitVec 12)
    (hal : aligned4 (jalrTarget (s.rd rs1) imm) = true) :
    (specStep s (.jalr rd rs1 imm)).pc = jalrTarget (s.rd rs1) imm ∧
    (rd ≠ 0 → (specStep s (.jalr rd rs1 imm)).rd rd = s.pc + 4) ∧
    (∀ r, r ≠ rd → (specStep s (.jalr rd rs1 imm)).rd r = s.rd r) := by
  refine ⟨?_, ?_, ?_⟩
  · simp only [specStep, RVState.jump, hal, if_true]
  · intro h
    simp only [specStep, RVState.jump, hal, if_true]
    simp [RVState.rd, RVState.wr]
    intro h0; exact absurd h0 h
  · intro r h
    simp only [specStep, RVState.jump, hal, if_true]
    simp [RVState.rd, RVState.wr, h]

/-- one step of BGE: the branch is taken exactly when rs1 ≥ rs2 as signed integers -/
theorem bge_step {n : Nat} (s : RVState n) (rs1 rs2 : Reg) (off : BitVec 13)
    (hal : aligned4 (s.pc + off.signExtend n) = true) :
    (specStep s (.branch .ge rs1 rs2 off)).pc =
      if (s.rd rs1).toInt ≥ (s.rd rs2).toInt then s.pc + off.signExtend n else s.pc + 4 := by
  by_cases h : (s.rd rs1).toInt ≥ (s.rd rs2).toInt
  · have : brTaken .ge (s.rd rs1) (s.rd rs2) = true := (bge_taken_iff _ _).2 h
    simp [specStep, this, h, RVState.jump, hal]
  · have : brTaken .ge (s.rd rs1) (s.rd rs2) = false := by
      cases hb : brTaken .ge (s.rd rs1) (s.rd rs2) with
      | false => rfl
      | true => exact absurd ((bge_taken_iff _ _).1 hb) h
    simp [specStep, this, h, RVState.next]

/-- one step of BGEU: taken exactly when rs1 ≥ rs2 as unsigned integers -/
theorem bgeu_step {n : Nat} (s : RVState n) (rs1 rs2 : Reg) (off : BitVec 13)
    (hal : aligned4 (s.pc + off.signExtend n) = true) :
    (specStep s (.branch .geu rs1 rs2 off)).pc =
      if (s.rd rs1).toNat ≥ (s.rd rs2).toNat then s.pc + off.signExtend n else s.pc + 4 := by
  by_cases h : (s.rd rs1).toNat ≥ (s.rd rs2).toNat
  · have : brTaken .geu (s.rd rs1) (s.rd rs2) = true := (bgeu_taken_iff _ _).2 h
    simp [specStep, this, h, RVState.jump, hal]
  · have : brTaken .geu (s.rd rs1) (s.rd rs2) = false := by
      cases hb : brTaken .geu (s.rd rs1) (s.rd rs2) with
      | false => rfl
      | true => exact absurd ((bgeu_taken_iff _ _).1 hb) h
    simp [specStep, this, h, RVState.next]

example : aligned4 ((0x80000000 : BitVec 64) + (8 : BitVec 21).signExtend 64) = true := by decide
example : aligned4 ((0x80000000 : BitVec 64) + (2 : BitVec 21).signExtend 64) = false := by decide
example : aligned4 (jalrTarget (0x80000003 : BitVec 64) (1 : BitVec 12)) = true := by decide

/-- the JALR target always has its least significant bit cleared -/
theorem jalr_target_even {n : Nat} (a : BitVec n) (imm : BitVec 12) : (jalrTarget a imm).getLsbD 0 = false := by
  unfold jalrTarget
  simp

/-! ## M extension: high halves against exact integer products -/

theorem mulhu_exact {n : Nat} (a b : BitVec n) :
    (mulhUU a b).toNat = a.toNat * b.toNat / 2 ^ n ∧
    (mulhUU a b).toNat * 2 ^ n + (a * b).toNat = a.toNat * b.toNat := by
  have ha := a.isLt
  have hb := b.isLt
  have hp : a.toNat * b.toNat < 2 ^ n * 2 ^ n := Nat.mul_lt_mul'' ha hb
  have h2 : 2 ^ (2 * n) = 2 ^ n * 2 ^ n := by rw [Nat.two_mul, Nat.pow_add]
  have hx : (mulhUU a b).toNat = a.toNat * b.toNat / 2 ^ n := by
    unfold mulhUU
    simp only [BitVec.extractLsb'_toNat, BitVec.toNat_mul, BitVec.toNat_setWidth, Nat.shiftRight_eq_div_pow]
    have e1 : a.toNat % 2 ^ (2 * n) = a.toNat := Nat.mod_eq_of_lt (by rw [h2]; exact Nat.lt_of_lt_of_le ha (Nat.le_mul_of_pos_right _ (Nat.two_pow_pos n)))
    have e2 : b.toNat % 2 ^ (2 * n) = b.toNat := Nat.mod_eq_of_lt (by rw [h2]; exact Nat.lt_of_lt_of_le hb (Nat.le_mul_of_pos_right _ (Nat.two_pow_pos n)))
    have e3 : a.toNat * b.toNat % 2 ^ (2 * n) = a.toNat * b.toNat := Nat.mod_eq_of_lt (by rw [h2]; exact hp)
    have e4 : a.toNat * b.toNat / 2 ^ n % 2 ^ n = a.toNat * b.toNat / 2 ^ n := Nat.mod_eq_of_lt (Nat.div_lt_of_lt_mul hp)
    rw [e1, e2, e3, e4]
  refine ⟨hx, ?_⟩
  rw [hx, BitVec.toNat_mul]
  exact Nat.div_add_mod' _ _
/-- MULH: the signed reading of the result is the floor of the exact signed product over 2^n -/
theorem mulh_exact {n : Nat} (a b : BitVec n) :
    (mulhSS a b).toInt = a.toInt * b.toInt / ((2 ^ n : Nat) : Int) := by
  cases n with
  | zero => simp [BitVec.of_length_zero]
  | succ m =>
    unfold mulhSS
    rw [toInt_extract_high m, BitVec.toInt_mul,
      BitVec.toInt_signExtend_of_le (by omega), BitVec.toInt_signExtend_of_le (by omega)]
    have h1 := BitVec.toInt_mul_toInt_le (x := a) (y := b)
    have h2 := BitVec.le_toInt_mul_toInt (x := a) (y := b)
    have e : (m + 1) * 2 - 2 = 2 * m := by omega
    rw [e] at h1 h2
    have pos : (0 : Int) < 2 ^ (2 * m) := Int.pow_pos (by decide)
    have e2 : (2 : Int) ^ (2 * m + 1) = 2 * 2 ^ (2 * m) := by rw [Int.pow_succ, Int.mul_comm]
    rw [bmod_small m _ (by rw [e2]; omega) (by rw [e2]; omega)]
/-- MULHSU: signed rs1 times unsigned rs2 -/
theorem mulhsu_exact {n : Nat} (a b : BitVec n) :
    (mulhSU a b).toInt = a.toInt * (b.toNat : Int) / ((2 ^ n : Nat) : Int) := by
  cases n with
  | zero => simp [BitVec.of_length_zero]
  | succ m =>
    unfold mulhSU
    have hb : b.toNat < 2 ^ (m + 1) := b.isLt
    have hbb : 2 ^ (m + 1) ≤ 2 ^ (2 * m + 1) := Nat.pow_le_pow_right (by decide) (by omega)
    have cast : ∀ k : Nat, ((2 ^ k : Nat) : Int) = (2 : Int) ^ k := fun k => by simp
    have hbI : ((b.toNat : Nat) : Int) < (2 : Int) ^ (2 * m + 1) := by
      rw [← cast]; exact Int.ofNat_lt.2 (Nat.lt_of_lt_of_le hb hbb)
    have hy : (b.setWidth (2 * (m + 1))).toInt = (b.toNat : Int) := by
      rw [BitVec.toInt_setWidth]
      exact bmod_small m _ (by have : (0:Int) < 2 ^ (2 * m + 1) := Int.pow_pos (by decide); omega) hbI
    rw [toInt_extract_high m, BitVec.toInt_mul, BitVec.toInt_signExtend_of_le (by omega), hy]
    -- |a.toInt * b.toNat| < 2^(2m+1)
    have ha1 := BitVec.toInt_lt (x := a)
    have ha2 := BitVec.le_toInt a
    simp only [Nat.add_sub_cancel] at ha1 ha2
    have hA : a.toInt.natAbs ≤ 2 ^ m := by rw [← cast] at ha1 ha2; omega
    have hN : a.toInt.natAbs * b.toNat < 2 ^ m * 2 ^ (m + 1) := Nat.mul_lt_mul_of_le_of_lt hA hb (Nat.two_pow_pos m)
    have hpow : 2 ^ m * 2 ^ (m + 1) = 2 ^ (2 * m + 1) := by rw [← Nat.pow_add]; congr 1; omega
    have habs : (a.toInt * (b.toNat : Int)).natAbs = a.toInt.natAbs * b.toNat := by
      rw [Int.natAbs_mul, Int.natAbs_natCast]
    rw [hpow] at hN
    have hN' : ((a.toInt * (b.toNat : Int)).natAbs : Int) < (2 : Int) ^ (2 * m + 1) := by
      rw [← cast, habs]; exact Int.ofNat_lt.2 hN
    rw [bmod_small m _ (by omega) (by omega)]
example : (mulhSS (BitVec.allOnes 64) (BitVec.allOnes 64)).toInt = 0 := by decide
example : mulhSU (BitVec.allOnes 64) (BitVec.allOnes 64) = BitVec.allOnes 64 := by decide
example : mulhUU (BitVec.allOnes 64) (BitVec.allOnes 64) = BitVec.ofNat 64 0xfffffffffffffffe := by decide

/-! ## M extension: division corner cases exactly as the manual's table -/

theorem div_by_zero {n : Nat} (a : BitVec n) : divS a 0 = BitVec.allOnes n ∧ divU a 0 = BitVec.allOnes n := by
  simp [divS, divU]

theorem rem_by_zero {n : Nat} (a : BitVec n) : remS a 0 = a ∧ remU a 0 = a := by
  simp [remS, remU]

theorem div_overflow64 : divS (intMinBV 64) (BitVec.allOnes 64) = intMinBV 64 ∧ remS (intMinBV 64) (BitVec.allOnes 64) = 0 := by
  decide
theorem div_overflow32 : divS (intMinBV 32) (BitVec.allOnes 32) = intMinBV 32 ∧ remS (intMinBV 32) (BitVec.allOnes 32) = 0 := by
  decide

/-- dividend = divisor * quotient + remainder, in every case (also /0 and overflow) -/
theorem div_rem_identity {n : Nat} (a b : BitVec n) : divS a b * b + remS a b = a := by
  unfold divS remS
  by_cases h : b = 0
  · simp [h]
  · simp only [h, if_false]
    have : BitVec.ofInt n (Int.tdiv a.toInt b.toInt) * b = BitVec.ofInt n (Int.tdiv a.toInt b.toInt * b.toInt) := by
      rw [BitVec.ofInt_mul, BitVec.ofInt_toInt]
    rw [this, ← BitVec.ofInt_add, Int.mul_comm, Int.mul_tdiv_add_tmod, BitVec.ofInt_toInt]

theorem div_rem_identity_unsigned {n : Nat} (a b : BitVec n) : divU a b * b + remU a b = a := by
  unfold divU remU
  by_cases h : b = 0
  · simp [h]
  · simp only [h, if_false]
    apply BitVec.eq_of_toNat_eq
    simp only [BitVec.toNat_add, BitVec.toNat_mul, BitVec.toNat_ofNat]
    have hlt := a.isLt
    have hd : a.toNat / b.toNat * b.toNat + a.toNat % b.toNat = a.toNat := Nat.div_add_mod' _ _
    have h1 : a.toNat / b.toNat < 2 ^ n := Nat.lt_of_le_of_lt (Nat.div_le_self _ _) hlt
    have h2 : a.toNat % b.toNat < 2 ^ n := Nat.lt_of_le_of_lt (Nat.mod_le _ _) hlt
    have h3 : a.toNat / b.toNat * b.toNat < 2 ^ n := by omega
    rw [Nat.mod_eq_of_lt h1, Nat.mod_eq_of_lt h2, Nat.mod_eq_of_lt h3, hd]
    exact Nat.mod_eq_of_lt hlt

/-- away from the corner cases DIV is the quotient rounded towards zero and REM has the sign of the dividend -/
example : divS (BitVec.ofInt 64 (-7)) (BitVec.ofInt 64 2) = BitVec.ofInt 64 (-3) ∧
    remS (BitVec.ofInt 64 (-7)) (BitVec.ofInt 64 2) = BitVec.ofInt 64 (-1) ∧
    divS (BitVec.ofInt 64 7) (BitVec.ofInt 64 (-2)) = BitVec.ofInt 64 (-3) ∧
    remS (BitVec.ofInt 64 7) (BitVec.ofInt 64 (-2)) = BitVec.ofInt 64 1 := by decide

/-! ## W instructions sign-extend their 32-bit result -/

/-- the 64-bit register value of a W instruction, read as a signed integer, is the signed value of its 32-bit result -/
theorem aluW_sign_extended (o : WOp) (a b : BitVec 64) :
    (aluW o a b).toInt = (aluW32 o (a.setWidth 32) (b.setWidth 32)).toInt := by
  unfold aluW
  exact BitVec.toInt_signExtend_of_le (by decide)

theorem aluW_low32 (o : WOp) (a b : BitVec 64) :
    (aluW o a b).setWidth 32 = aluW32 o (a.setWidth 32) (b.setWidth 32) := by
  unfold aluW
  exact setWidth32_signExtend64 _

theorem addiw_sign_extended (a : BitVec 64) (imm : BitVec 12) :
    (addiwVal a imm).toInt = ((a + sext12 64 imm).setWidth 32).toInt := by
  unfold addiwVal
  exact BitVec.toInt_signExtend_of_le (by decide)

theorem shiftW_sign_extended (o : ShOp) (a : BitVec 64) (k : Nat) :
    (shiftW o a k).toInt = (shiftOp o (a.setWidth 32) k).toInt := by
  unfold shiftW
  exact BitVec.toInt_signExtend_of_le (by decide)

theorem load_signed_toInt (n k v : Nat) (h : 8 * k ≤ n) :
    (loadVal n k false v).toInt = (BitVec.ofNat (8 * k) v).toInt := by
  unfold loadVal
  simp only [Bool.false_eq_true, if_false]
  exact BitVec.toInt_signExtend_of_le h

theorem load_unsigned_toNat (n k v : Nat) (h : 8 * k ≤ n) (hv : v < 2 ^ (8 * k)) :
    (loadVal n k true v).toNat = v := by
  unfold loadVal
  simp only [if_true, BitVec.toNat_ofNat]
  apply Nat.mod_eq_of_lt
  exact Nat.lt_of_lt_of_le hv (Nat.pow_le_pow_right (by decide) h)

example : (8 * 4 ≤ 64) ∧ (0x80000000 < 2 ^ (8 * 4)) := by decide
example : loadVal 64 4 false 0x80000000 = BitVec.ofNat 64 0xffffffff80000000 ∧
    loadVal 64 4 true 0x80000000 = BitVec.ofNat 64 0x80000000 := by decide

/-! ## LoongArch -/

theorem la_r0_reads_zero_after_step (s : LA.LAState) (i : LA.Instr) : (LA.specStep s i).rd 0 = 0 := by
  simp [LA.LAState.rd]

/-- BGE rj, rd: taken exactly when rj ≥ rd as signed integers; BEQ compares rj with rd -/
theorem la_bge_taken_iff (s : LA.LAState) (rj rd : Reg) (off : BitVec 16) :
    (LA.specStep s (.branch .ge rj rd off)).pc =
      if (s.rd rj).toInt ≥ (s.rd rd).toInt then s.pc + LA.off2 off else s.pc + 4 := by
  by_cases h : (s.rd rj).toInt ≥ (s.rd rd).toInt
  · have : brTaken .ge (s.rd rj) (s.rd rd) = true := (bge_taken_iff _ _).2 h
    simp [LA.specStep, this, h]
  · have : brTaken .ge (s.rd rj) (s.rd rd) = false := by
      cases hb : brTaken .ge (s.rd rj) (s.rd rd) with
      | false => rfl
      | true => exact absurd ((bge_taken_iff _ _).1 hb) h
    simp [LA.specStep, this, h, LA.LAState.next]

theorem la_beq_compares_rj_rd (s : LA.LAState) (rj rd : Reg) (off : BitVec 16) :
    (LA.specStep s (.branch .eq rj rd off)).pc = if s.rd rj = s.rd rd then s.pc + LA.off2 off else s.pc + 4 := by
  by_cases h : s.rd rj = s.rd rd
  · simp [LA.specStep, brTaken, h]
  · simp [LA.specStep, brTaken, h, LA.LAState.next]

/-- the `.W` instructions write the sign extension of their 32-bit result -/
theorem la_w_sign_extended (a b : LA.W) (imm : BitVec 12) (k : Nat) :
    (LA.alu3 .add_w a b).toInt = (LA.lo32 a + LA.lo32 b).toInt ∧
    (LA.alu3 .sub_w a b).toInt = (LA.lo32 a - LA.lo32 b).toInt ∧
    (LA.aluI12 .addi_w a imm).toInt = (LA.lo32 a + imm.signExtend 32).toInt ∧
    (LA.aluSh .srli_w a k).toInt = (LA.lo32 a >>> k).toInt ∧
    (LA.aluSh .slli_w a k).toInt = (LA.lo32 a <<< k).toInt := by
  refine ⟨?_, ?_, ?_, ?_, ?_⟩ <;> exact BitVec.toInt_signExtend_of_le (by decide)

/-- BL links pc+4 in r1 and jumps pc-relative -/
theorem la_bl_links_r1 (s : LA.LAState) (off : BitVec 26) :
    (LA.specStep s (.b true off)).pc = s.pc + LA.off2 off ∧ (LA.specStep s (.b true off)).rd 1 = s.pc + 4 := by
  simp [LA.specStep, LA.LAState.rd, LA.LAState.wr]

/-- JIRL uses the OLD value of rj also when rd = rj -/
theorem la_jirl_old_rj (s : LA.LAState) (r : Reg) (off : BitVec 16) :
    (LA.specStep s (.jirl r r off)).pc = s.rd r + LA.off2 off := by
  simp [LA.specStep]

end WaVerif.C20
