import WaVerif.Model.C09
/-!
# C09 — property theorems (Chinese ↔ English keyword and predeclared-name maps)

Every theorem is about the tables REGENERATED from /repo (`Gen/C09Tables.lean`), decided by kernel
evaluation; a change of `token.go`, `const_wz.go`, `universe_w?.go`, the scanner or a consumer's
`case` list changes the tables and the theorems are re-checked.
-/
namespace WaVerif.C09
open Gen

/-- Distinct Chinese keywords denote distinct English token sequences. -/
theorem kw_map_injective :
    ∀ a ∈ zhKeywords, ∀ b ∈ zhKeywords, a.2 = b.2 → a.1 = b.1 := by decide

/-- Every English keyword except `package` (no package clause in `.wz`) is the image of a Chinese keyword. -/
theorem kw_map_covers_shared_keywords :
    ∀ e ∈ enKeywords, e ∈ notShared ∨ ∃ r ∈ zhKeywords, r.2 = [e] := by decide

/-- Every Chinese keyword denotes a non-empty sequence of real English keyword / delimiter tokens
(no undocumented or unresolvable entry). -/
theorem kw_map_total :
    ∀ r ∈ zhKeywords, r.2 ≠ [] ∧ ∀ e ∈ r.2, e ∈ enKeywords ∨ e ∈ operatorToks := by decide

/-- The real `LookupEx` yields a keyword token only in that keyword's own language mode (and IDENT in
the other), for every keyword of both languages; `Lookup` knows all of them. -/
theorem kw_lookup_separates_modes :
    lookupRows.map (·.1) = enKeywords ++ zhKeywords.map (·.1) ∧
    ∀ r ∈ lookupRows, r.2.2.2 = r.1 ∧
      ((r.1 ∈ enKeywords ∧ r.2.1 = r.1 ∧ r.2.2.1 = identTok) ∨
       (r.1 ∈ zhKeywords.map (·.1) ∧ r.2.2.1 = r.1 ∧ r.2.1 = identTok)) := by decide

/-- No two keywords share their text: the single lookup map of package token holds one entry per keyword. -/
theorem kw_texts_distinct : keywordMapLen = enKeywords.length + zhKeywords.length := by decide

/-- The full-width selector `·` and `.` are both scanned as PERIOD, in both language modes. -/
theorem selector_fullwidth_is_period :
    selectorRunes.length = 2 ∧
    ∀ r ∈ selectorRunes, ∃ row ∈ punctRows, row.1 = r ∧
      row.2.1 = [identTok, periodTok, identTok] ∧ row.2.2 = [identTok, periodTok, identTok] := by decide

/-- Punctuation (ASCII and full-width spellings) is scanned to the same tokens in both modes. -/
theorem punct_mode_independent : ∀ row ∈ punctRows, row.2.1 = row.2.2 := by decide

/-- Every `case` list / comparison chain outside the front ends that accepts a Chinese keyword token
also accepts the English token it denotes. -/
theorem consumer_clauses_closed :
    ∀ c ∈ consumerClauses, ∀ t ∈ c, kwImage t = none ∨ ∃ e ∈ c, kwImage t = some [e] := by decide

/-- Every `case` list / comparison chain anywhere in the code base that dispatches on builtin NAMES and
lists an English builtin lists exactly its Chinese twin(s) too (ssa builder, WAT back end, ...). -/
theorem builtin_name_clauses_closed :
    ∀ c ∈ kNameClauses, (∀ p ∈ builtinPairs, p.1 ∉ c) ∨ ∀ p ∈ builtinPairs, (p.1 ∈ c ↔ p.2 ∈ c) := by decide

/-- Each Chinese predeclared name denotes the same object (scope, kind/type, builtin id, constant
value, role) as exactly one object of the English universe, and no two Chinese names share one. -/
theorem universe_map_bijective_on_shared :
    (∀ a ∈ wzZh, ∀ b ∈ wzZh, a.2 = b.2 → a.1 = b.1) ∧
    (∀ a ∈ wzZh, ∃ e ∈ waEn, e.2 = a.2) ∧
    (∀ a ∈ wzZh, englishObjectCount a = 1) := by decide

/-- The kernel's evaluation of "which documented (const_wz.go) pairs do not denote the same object"
agrees with the generator's claim; the check reports every element as a finding on the real code. -/
theorem doc_pairs_verdict : docPairsMismatch = docPairsMismatchClaim := by decide

/-- Documented pairs agree exactly when the mismatch list is empty. -/
theorem doc_pairs_agree_iff :
    docPairsMismatch = [] ↔ ∀ p ∈ docPairs, descOf wzZh p.1 = descOf waEn p.2 := by
  unfold docPairsMismatch
  rw [List.filter_eq_nil_iff]
  constructor
  · intro h p hp; have := h p hp; simpa using this
  · intro h p hp; have := h p hp; simpa using this

/-- Same for the pairs handled by one `case` of the WAT back end's builtin dispatch. -/
theorem backend_pairs_verdict : backendPairsMismatch = backendPairsMismatchClaim := by decide

/-- ASCII names defined by the Chinese universe vs. the English universe. -/
theorem wz_english_names_verdict : wzEnglishMismatch = wzEnglishMismatchClaim := by decide

end WaVerif.C09
