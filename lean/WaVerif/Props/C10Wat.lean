import WaVerif.Gen.C10Wat
import WaVerif.Lemmas.C10WatSimp
/-!
# C10 — theorems proved directly on the REGENERATED WAT of the allocator's helper functions

`WaVerif.C10.Gen.funcs` is re-derived from /repo's internal/waroot/malloc/malloc.wat on every run
(extract/c10_wat2lean.py).  Each theorem executes the interpreter (Model/C10Wat.lean) symbolically on the
generated term and shows that the helper computes what the abstract model (Model/C10.lean) uses for it:
`align8`, `ptrAndFixedSize` (list head address = `heapBase + 8 * index`), the `+8` of `heap_block.data`,
and that the assertion helpers trap exactly on misaligned / non-positive pointers.
A change of these functions in malloc.wat changes the term; if the model no longer follows, these proofs fail.
-/
set_option linter.unusedSimpArgs false
set_option linter.unusedVariables false

namespace WaVerif.C10.GenProps
open WaVerif.C10 WaVerif.C10.Wat WaVerif.C10.Gen

theorem find_alignment8 : findFunc funcs "heap_alignment8" = some f_heap_alignment8 := by rfl
theorem find_enabled : findFunc funcs "heap_is_fixed_list_enabled" = some f_heap_is_fixed_list_enabled := by rfl
theorem find_is_fixed_size : findFunc funcs "heap_is_fixed_size" = some f_heap_is_fixed_size := by rfl
theorem find_data : findFunc funcs "heap_block.data" = some f_heap_block_data := by rfl
theorem find_ptr : findFunc funcs "heap_free_list.ptr_and_fixed_size" = some f_heap_free_list_ptr_and_fixed_size := by rfl
theorem find_assert8 : findFunc funcs "heap_assert_align8" = some f_heap_assert_align8 := by rfl
theorem find_valid : findFunc funcs "heap_assert_valid_ptr" = some f_heap_assert_valid_ptr := by rfl

/-- `call $heap_alignment8` inside any caller: replaces the top of stack `n` by `(n+7)/8*8` -/
theorem call_alignment8 (g : String → Int) (f : Nat) (l st : List Int) (n : Int) (h0 : 0 ≤ n) (h : n ≤ 1073741824) :
    Wat.step funcs g (f + 12) (.call "heap_alignment8") ⟨l, n :: st⟩ = some (.next, ⟨l, (n + 7) / 8 * 8 :: st⟩) := by
  rw [step_call funcs g (f + 11) "heap_alignment8" f_heap_alignment8 _ find_alignment8 (by simp [f_heap_alignment8])]
  simp (disch := omega) only [f_heap_alignment8, run_cons, run_nil, seqK_next, step_localGet, step_const, step_add, step_divS, step_mul,
    List.take, List.reverse_cons, List.reverse_nil, List.nil_append, List.replicate, List.append_nil, List.getD_cons_zero,
    wrap32_small, divS_pos, Option.map_some]
  simp [callRet] <;> omega


theorem gl_cap (c : Config) : glOf c "__heap_lfixed_cap" = (c.cap : Int) := by simp [glOf]
theorem gl_base (c : Config) : glOf c "__heap_base" = (c.heapBase : Int) := by simp [glOf]

/-- `call $heap_is_fixed_list_enabled`: pushes 0 when the capacity is 0, else 1 -/
theorem call_enabled (g : String → Int) (f : Nat) (l st : List Int) :
    Wat.step funcs g (f + 8) (.call "heap_is_fixed_list_enabled") ⟨l, st⟩ =
      some (.next, ⟨l, (if g "__heap_lfixed_cap" = 0 then 0 else 1) :: st⟩) := by
  rw [step_call funcs g (f + 7) "heap_is_fixed_list_enabled" f_heap_is_fixed_list_enabled _ find_enabled
    (by simp [f_heap_is_fixed_list_enabled])]
  by_cases h : g "__heap_lfixed_cap" = 0
  · simp (disch := omega) only [f_heap_is_fixed_list_enabled, run_cons, run_nil, seqK_next, step_globalGet, step_eqz, step_if,
      step_const, b2i_true_ne, h, if_true, wrap32_small, List.take, List.reverse_nil, List.nil_append, List.replicate]
    simp [callRet]
  · simp (disch := omega) only [f_heap_is_fixed_list_enabled, run_cons, run_nil, seqK_next, step_globalGet, step_eqz, step_if,
      step_const, b2i_true_ne, h, if_false, wrap32_small, List.take, List.reverse_nil, List.nil_append, List.replicate]
    simp [callRet]

attribute [local irreducible] Wat.step Wat.run

macro "wat_exec" : tactic => `(tactic|
  simp (disch := omega) only [run_cons, run_nil, seqK_next, seqK_ret, seqK_none, step_localGet, step_localSet, step_localTee,
    step_globalGet, step_const, step_add, step_sub, step_mul, step_divS, step_remS, step_leS, step_ltS, step_gtS, step_geS,
    step_eq, step_ne, step_eqz, step_drop, step_unreachable, step_ret, step_if, step_block, call_enabled, call_alignment8,
    b2i_true_ne, wrap32_small, divS_pos, remS_pos, Option.map_some, Option.map_none, gl_cap, gl_base,
    List.take, List.reverse_cons, List.reverse_nil, List.nil_append, List.replicate, List.append_nil, List.getD_cons_zero,
    List.cons_append, List.set_cons_zero, ite_true_nr, ite_false_nr, if_pos, if_neg, ne_eq, not_true_eq_false, not_false_eq_true,
    Int.natCast_eq_zero])

/-- the regenerated `$heap_free_list.ptr_and_fixed_size` returns the head of the list the model's
`ptrAndFixedSize` names (`heapBase + 8 * index`, index 4 = l128) and the model's block size -/
theorem gen_ptr_and_fixed_size (c : Config) (f : Nat) (n : Nat) (hn : n ≤ 1073741824)
    (hb : c.heapBase + 32 < 2147483648) (hcap : c.cap < 2147483648) :
    callFuel funcs (glOf c) (f + 40) "heap_free_list.ptr_and_fixed_size" [(n : Int)] =
      some [((c.heapBase + 8 * (ptrAndFixedSize c n).1 : Nat) : Int), (((ptrAndFixedSize c n).2 : Nat) : Int)] := by
  rw [callFuel_run funcs _ (f + 39) "heap_free_list.ptr_and_fixed_size" f_heap_free_list_ptr_and_fixed_size _ find_ptr (by simp [f_heap_free_list_ptr_and_fixed_size])]
  simp only [f_heap_free_list_ptr_and_fixed_size]
  by_cases hc : c.cap = 0
  · by_cases hz : n = 0
    · subst hz
      wat_exec
      simp [callRet, ptrAndFixedSize, hc, align8]
    · have hnz : ¬ ((n : Int) + 7) / 8 * 8 = 0 := by omega
      have hnz' : ¬ (n + 7) / 8 * 8 = 0 := by omega
      wat_exec
      simp [callRet, ptrAndFixedSize, hc, align8, hnz'] <;> omega
  · by_cases h80 : n > 80
    · by_cases h128 : n ≤ 128
      · wat_exec
        simp [callRet, ptrAndFixedSize, hc, h80, h128]
      · wat_exec
        simp [callRet, ptrAndFixedSize, hc, h80, h128, align8]
    · by_cases h48 : n > 48
      · wat_exec
        simp [callRet, ptrAndFixedSize, hc, h80, h48]
      · by_cases h32 : n > 32
        · wat_exec
          simp [callRet, ptrAndFixedSize, hc, h80, h48, h32]
        · by_cases h24 : n > 24
          · wat_exec
            simp [callRet, ptrAndFixedSize, hc, h80, h48, h32, h24]
          · wat_exec
            simp [callRet, ptrAndFixedSize, hc, h80, h48, h32, h24]

/-- the regenerated `$heap_alignment8` computes the model's `align8` -/
theorem gen_alignment8 (g : String → Int) (f : Nat) (n : Nat) (h : n ≤ 1073741824) :
    callFuel funcs g (f + 12) "heap_alignment8" [(n : Int)] = some [((align8 n : Nat) : Int)] := by
  have := call_alignment8 g f [] [] (n : Int) (by omega) (by omega)
  simp only [callFuel, find_alignment8, List.reverse_cons, List.reverse_nil, List.nil_append, this, Option.bind_some, Option.map_some]
  simp [f_heap_alignment8, align8]

/-- `$heap_is_fixed_size`: 1 exactly when the fixed lists are enabled and the size is at most 80 -/
theorem gen_is_fixed_size (c : Config) (f : Nat) (n : Nat) (hn : n ≤ 1073741824) (hcap : c.cap < 2147483648) :
    callFuel funcs (glOf c) (f + 20) "heap_is_fixed_size" [(n : Int)] =
      some [if c.cap ≠ 0 ∧ n ≤ 80 then 1 else 0] := by
  rw [callFuel_run funcs _ (f + 19) "heap_is_fixed_size" f_heap_is_fixed_size _ find_is_fixed_size (by simp [f_heap_is_fixed_size])]
  simp only [f_heap_is_fixed_size]
  by_cases hc : c.cap = 0
  · wat_exec
    simp [callRet, hc]
  · by_cases h80 : n ≤ 80
    · wat_exec
      simp [callRet, hc, h80]
    · wat_exec
      simp [callRet, hc, h80]

/-- `$heap_block.data`: the payload starts 8 bytes after the block header -/
theorem gen_block_data (g : String → Int) (f : Nat) (p : Nat) (hp : p + 8 < 2147483648) :
    callFuel funcs g (f + 10) "heap_block.data" [(p : Int)] = some [((p + 8 : Nat) : Int)] := by
  rw [callFuel_run funcs _ (f + 9) "heap_block.data" f_heap_block_data _ find_data (by simp [f_heap_block_data])]
  simp only [f_heap_block_data]
  wat_exec
  simp [callRet]

/-- `$heap_assert_align8` returns on multiples of 8 ... -/
theorem gen_assert_align8_ok (g : String → Int) (f : Nat) (p : Nat) (hp : p < 2147483648) (h : p % 8 = 0) :
    callFuel funcs g (f + 10) "heap_assert_align8" [(p : Int)] = some [] := by
  rw [callFuel_run funcs _ (f + 9) "heap_assert_align8" f_heap_assert_align8 _ find_assert8 (by simp [f_heap_assert_align8])]
  simp only [f_heap_assert_align8]
  have h' : (p : Int) % 8 = 0 := by omega
  wat_exec
  simp [callRet]

/-- ... and traps on every other value -/
theorem gen_assert_align8_trap (g : String → Int) (f : Nat) (p : Nat) (hp : p < 2147483648) (h : p % 8 ≠ 0) :
    callFuel funcs g (f + 10) "heap_assert_align8" [(p : Int)] = none := by
  rw [callFuel_run funcs _ (f + 9) "heap_assert_align8" f_heap_assert_align8 _ find_assert8 (by simp [f_heap_assert_align8])]
  simp only [f_heap_assert_align8]
  have h' : ¬ (p : Int) % 8 = 0 := by omega
  wat_exec
  simp [callRet]

/-- `$heap_assert_valid_ptr` (first check of `wa_free`) traps on 0 and on pointers that are not multiples of 4 -/
theorem gen_assert_valid_ptr (g : String → Int) (f : Nat) (p : Nat) (hp : p < 2147483648) :
    callFuel funcs g (f + 14) "heap_assert_valid_ptr" [(p : Int)] = if 0 < p ∧ p % 4 = 0 then some [] else none := by
  rw [callFuel_run funcs _ (f + 13) "heap_assert_valid_ptr" f_heap_assert_valid_ptr _ find_valid (by simp [f_heap_assert_valid_ptr])]
  simp only [f_heap_assert_valid_ptr]
  by_cases h0 : 0 < p
  · by_cases h : p % 4 = 0
    · have h' : (p : Int) % 4 = 0 := by omega
      wat_exec
      simp [callRet, h, h', h0]
    · have h' : ¬ (p : Int) % 4 = 0 := by omega
      wat_exec
      simp [callRet, h, h', h0]
  · have : p = 0 := by omega
    subst this
    wat_exec
    simp [callRet]

example : (∃ c : Config, c.heapBase + 32 < 2147483648 ∧ c.cap < 2147483648 ∧ c.cap ≠ 0) := ⟨⟨1, 2, 100, 1000, 3⟩, by decide⟩

end WaVerif.C10.GenProps
