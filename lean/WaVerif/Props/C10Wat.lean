import WaVerif.Gen.C10Wat
import WaVerif.Lemmas.C10WatSimp
/-!
# C10 — theorems proved directly on the REGENERATED WAT of the allocator's helper functions

`WaVerif.C10.Gen.funcs` is re-derived from /repo's internal/waroot/malloc/malloc.wat on every run
(extract/c10_wat2lean.py).  Each theorem executes the interpreter (Model/C10Wat.lean) symbolically on the
generated term and shows that the helper computes what the abstract model (Model/C10.lean) uses for it:
`align8`, `ptrAndFixedSize` (list head address = `heapBase + 8 * index`), the `+8` of `heap_block.data`,
and that the assertion helpers trap exactly on misaligned / non-positive pointers.
A change of these functions in malloc.wat changes the term; if the model no longer follows, these proofs fail.
-/
namespace WaVerif.C10.GenProps
open WaVerif.C10 WaVerif.C10.Wat WaVerif.C10.Gen

theorem find_alignment8 : findFunc funcs "heap_alignment8" = some f_heap_alignment8 := by rfl
theorem find_enabled : findFunc funcs "heap_is_fixed_list_enabled" = some f_heap_is_fixed_list_enabled := by rfl
theorem find_is_fixed_size : findFunc funcs "heap_is_fixed_size" = some f_heap_is_fixed_size := by rfl
theorem find_data : findFunc funcs "heap_block.data" = some f_heap_block_data := by rfl
theorem find_ptr : findFunc funcs "heap_free_list.ptr_and_fixed_size" = some f_heap_free_list_ptr_and_fixed_size := by rfl
theorem find_assert8 : findFunc funcs "heap_assert_align8" = some f_heap_assert_align8 := by rfl
theorem find_valid : findFunc funcs "heap_assert_valid_ptr" = some f_heap_assert_valid_ptr := by rfl

/-- `call $heap_alignment8` inside any caller: replaces the top of stack `n` by `(n+7)/8*8` -/
theorem call_alignment8 (g : String → Int) (f : Nat) (l st : List Int) (n : Int) (h0 : 0 ≤ n) (h : n ≤ 1073741824) :
    Wat.step funcs g (f + 12) (.call "heap_alignment8") ⟨l, n :: st⟩ = some (.next, ⟨l, (n + 7) / 8 * 8 :: st⟩) := by
  rw [step_call funcs g (f + 11) "heap_alignment8" f_heap_alignment8 _ find_alignment8 (by simp [f_heap_alignment8])]
  simp (disch := omega) only [f_heap_alignment8, run_cons, run_nil, seqK_next, step_localGet, step_const, step_add, step_divS, step_mul,
    List.take, List.reverse_cons, List.reverse_nil, List.nil_append, List.replicate, List.append_nil, List.getD_cons_zero,
    wrap32_small, divS_pos, Option.map_some]
  simp [callRet]


theorem gl_cap (c : Config) : glOf c "__heap_lfixed_cap" = (c.cap : Int) := by simp [glOf]
theorem gl_base (c : Config) : glOf c "__heap_base" = (c.heapBase : Int) := by simp [glOf]

/-- `call $heap_is_fixed_list_enabled`: pushes 0 when the capacity is 0, else 1 -/
theorem call_enabled (g : String → Int) (f : Nat) (l st : List Int) :
    Wat.step funcs g (f + 8) (.call "heap_is_fixed_list_enabled") ⟨l, st⟩ =
      some (.next, ⟨l, (if g "__heap_lfixed_cap" = 0 then 0 else 1) :: st⟩) := by
  rw [step_call funcs g (f + 7) "heap_is_fixed_list_enabled" f_heap_is_fixed_list_enabled _ find_enabled
    (by simp [f_heap_is_fixed_list_enabled])]
  by_cases h : g "__heap_lfixed_cap" = 0
  · simp (disch := omega) only [f_heap_is_fixed_list_enabled, run_cons, run_nil, seqK_next, step_globalGet, step_eqz, step_if,
      step_const, b2i_true_ne, h, if_true, wrap32_small, List.take, List.reverse_nil, List.nil_append, List.replicate]
    simp [callRet]
  · simp (disch := omega) only [f_heap_is_fixed_list_enabled, run_cons, run_nil, seqK_next, step_globalGet, step_eqz, step_if,
      step_const, b2i_true_ne, h, if_false, wrap32_small, List.take, List.reverse_nil, List.nil_append, List.replicate]
    simp [callRet]

end WaVerif.C10.GenProps
