import WaVerif.Base.WasmTyping
import WaVerif.Gen.C01Rows
/-! One validation theorem per row of the regenerated emit table. -/
namespace WaVerif.C16.Rows
open WaVerif.Wasm WaVerif.Gen.C01

theorem bin_add_u8_u8_valid : validate [.i32, .i32] bin_add_u8_u8 [] = some [.i32] := by decide
theorem bin_add_u16_u16_valid : validate [.i32, .i32] bin_add_u16_u16 [] = some [.i32] := by decide
theorem bin_add_i32_i32_valid : validate [.i32, .i32] bin_add_i32_i32 [] = some [.i32] := by decide
theorem bin_add_u32_u32_valid : validate [.i32, .i32] bin_add_u32_u32 [] = some [.i32] := by decide
theorem bin_add_i64_i64_valid : validate [.i64, .i64] bin_add_i64_i64 [] = some [.i64] := by decide
theorem bin_add_u64_u64_valid : validate [.i64, .i64] bin_add_u64_u64 [] = some [.i64] := by decide
theorem bin_add_rune_rune_valid : validate [.i32, .i32] bin_add_rune_rune [] = some [.i32] := by decide
theorem bin_sub_u8_u8_valid : validate [.i32, .i32] bin_sub_u8_u8 [] = some [.i32] := by decide
theorem bin_sub_u16_u16_valid : validate [.i32, .i32] bin_sub_u16_u16 [] = some [.i32] := by decide
theorem bin_sub_i32_i32_valid : validate [.i32, .i32] bin_sub_i32_i32 [] = some [.i32] := by decide
theorem bin_sub_u32_u32_valid : validate [.i32, .i32] bin_sub_u32_u32 [] = some [.i32] := by decide
theorem bin_sub_i64_i64_valid : validate [.i64, .i64] bin_sub_i64_i64 [] = some [.i64] := by decide
theorem bin_sub_u64_u64_valid : validate [.i64, .i64] bin_sub_u64_u64 [] = some [.i64] := by decide
theorem bin_sub_rune_rune_valid : validate [.i32, .i32] bin_sub_rune_rune [] = some [.i32] := by decide
theorem bin_mul_u8_u8_valid : validate [.i32, .i32] bin_mul_u8_u8 [] = some [.i32] := by decide
theorem bin_mul_u16_u16_valid : validate [.i32, .i32] bin_mul_u16_u16 [] = some [.i32] := by decide
theorem bin_mul_i32_i32_valid : validate [.i32, .i32] bin_mul_i32_i32 [] = some [.i32] := by decide
theorem bin_mul_u32_u32_valid : validate [.i32, .i32] bin_mul_u32_u32 [] = some [.i32] := by decide
theorem bin_mul_i64_i64_valid : validate [.i64, .i64] bin_mul_i64_i64 [] = some [.i64] := by decide
theorem bin_mul_u64_u64_valid : validate [.i64, .i64] bin_mul_u64_u64 [] = some [.i64] := by decide
theorem bin_mul_rune_rune_valid : validate [.i32, .i32] bin_mul_rune_rune [] = some [.i32] := by decide
theorem bin_quo_u8_u8_valid : validate [.i32, .i32] bin_quo_u8_u8 [] = some [.i32] := by decide
theorem bin_quo_u16_u16_valid : validate [.i32, .i32] bin_quo_u16_u16 [] = some [.i32] := by decide
theorem bin_quo_i32_i32_valid : validate [.i32, .i32] bin_quo_i32_i32 [] = some [.i32] := by decide
theorem bin_quo_u32_u32_valid : validate [.i32, .i32] bin_quo_u32_u32 [] = some [.i32] := by decide
theorem bin_quo_i64_i64_valid : validate [.i64, .i64] bin_quo_i64_i64 [] = some [.i64] := by decide
theorem bin_quo_u64_u64_valid : validate [.i64, .i64] bin_quo_u64_u64 [] = some [.i64] := by decide
theorem bin_quo_rune_rune_valid : validate [.i32, .i32] bin_quo_rune_rune [] = some [.i32] := by decide
theorem bin_rem_u8_u8_valid : validate [.i32, .i32] bin_rem_u8_u8 [] = some [.i32] := by decide
theorem bin_rem_u16_u16_valid : validate [.i32, .i32] bin_rem_u16_u16 [] = some [.i32] := by decide
theorem bin_rem_i32_i32_valid : validate [.i32, .i32] bin_rem_i32_i32 [] = some [.i32] := by decide
theorem bin_rem_u32_u32_valid : validate [.i32, .i32] bin_rem_u32_u32 [] = some [.i32] := by decide
theorem bin_rem_i64_i64_valid : validate [.i64, .i64] bin_rem_i64_i64 [] = some [.i64] := by decide
theorem bin_rem_u64_u64_valid : validate [.i64, .i64] bin_rem_u64_u64 [] = some [.i64] := by decide
theorem bin_rem_rune_rune_valid : validate [.i32, .i32] bin_rem_rune_rune [] = some [.i32] := by decide
theorem bin_and_u8_u8_valid : validate [.i32, .i32] bin_and_u8_u8 [] = some [.i32] := by decide
theorem bin_and_u16_u16_valid : validate [.i32, .i32] bin_and_u16_u16 [] = some [.i32] := by decide
theorem bin_and_i32_i32_valid : validate [.i32, .i32] bin_and_i32_i32 [] = some [.i32] := by decide
theorem bin_and_u32_u32_valid : validate [.i32, .i32] bin_and_u32_u32 [] = some [.i32] := by decide
theorem bin_and_i64_i64_valid : validate [.i64, .i64] bin_and_i64_i64 [] = some [.i64] := by decide
theorem bin_and_u64_u64_valid : validate [.i64, .i64] bin_and_u64_u64 [] = some [.i64] := by decide
theorem bin_and_rune_rune_valid : validate [.i32, .i32] bin_and_rune_rune [] = some [.i32] := by decide
theorem bin_or_u8_u8_valid : validate [.i32, .i32] bin_or_u8_u8 [] = some [.i32] := by decide
theorem bin_or_u16_u16_valid : validate [.i32, .i32] bin_or_u16_u16 [] = some [.i32] := by decide
theorem bin_or_i32_i32_valid : validate [.i32, .i32] bin_or_i32_i32 [] = some [.i32] := by decide
theorem bin_or_u32_u32_valid : validate [.i32, .i32] bin_or_u32_u32 [] = some [.i32] := by decide
theorem bin_or_i64_i64_valid : validate [.i64, .i64] bin_or_i64_i64 [] = some [.i64] := by decide
theorem bin_or_u64_u64_valid : validate [.i64, .i64] bin_or_u64_u64 [] = some [.i64] := by decide
theorem bin_or_rune_rune_valid : validate [.i32, .i32] bin_or_rune_rune [] = some [.i32] := by decide
theorem bin_xor_u8_u8_valid : validate [.i32, .i32] bin_xor_u8_u8 [] = some [.i32] := by decide
theorem bin_xor_u16_u16_valid : validate [.i32, .i32] bin_xor_u16_u16 [] = some [.i32] := by decide
theorem bin_xor_i32_i32_valid : validate [.i32, .i32] bin_xor_i32_i32 [] = some [.i32] := by decide
theorem bin_xor_u32_u32_valid : validate [.i32, .i32] bin_xor_u32_u32 [] = some [.i32] := by decide
theorem bin_xor_i64_i64_valid : validate [.i64, .i64] bin_xor_i64_i64 [] = some [.i64] := by decide
theorem bin_xor_u64_u64_valid : validate [.i64, .i64] bin_xor_u64_u64 [] = some [.i64] := by decide
theorem bin_xor_rune_rune_valid : validate [.i32, .i32] bin_xor_rune_rune [] = some [.i32] := by decide
theorem bin_andnot_u8_u8_valid : validate [.i32, .i32] bin_andnot_u8_u8 [] = some [.i32] := by decide
theorem bin_andnot_u16_u16_valid : validate [.i32, .i32] bin_andnot_u16_u16 [] = some [.i32] := by decide
theorem bin_andnot_i32_i32_valid : validate [.i32, .i32] bin_andnot_i32_i32 [] = some [.i32] := by decide
theorem bin_andnot_u32_u32_valid : validate [.i32, .i32] bin_andnot_u32_u32 [] = some [.i32] := by decide
theorem bin_andnot_i64_i64_valid : validate [.i64, .i64] bin_andnot_i64_i64 [] = some [.i64] := by decide
theorem bin_andnot_u64_u64_valid : validate [.i64, .i64] bin_andnot_u64_u64 [] = some [.i64] := by decide
theorem bin_andnot_rune_rune_valid : validate [.i32, .i32] bin_andnot_rune_rune [] = some [.i32] := by decide
theorem bin_eql_u8_u8_valid : validate [.i32, .i32] bin_eql_u8_u8 [] = some [.i32] := by decide
theorem bin_eql_u16_u16_valid : validate [.i32, .i32] bin_eql_u16_u16 [] = some [.i32] := by decide
theorem bin_eql_i32_i32_valid : validate [.i32, .i32] bin_eql_i32_i32 [] = some [.i32] := by decide
theorem bin_eql_u32_u32_valid : validate [.i32, .i32] bin_eql_u32_u32 [] = some [.i32] := by decide
theorem bin_eql_i64_i64_valid : validate [.i64, .i64] bin_eql_i64_i64 [] = some [.i32] := by decide
theorem bin_eql_u64_u64_valid : validate [.i64, .i64] bin_eql_u64_u64 [] = some [.i32] := by decide
theorem bin_eql_rune_rune_valid : validate [.i32, .i32] bin_eql_rune_rune [] = some [.i32] := by decide
theorem bin_ne_u8_u8_valid : validate [.i32, .i32] bin_ne_u8_u8 [] = some [.i32] := by decide
theorem bin_ne_u16_u16_valid : validate [.i32, .i32] bin_ne_u16_u16 [] = some [.i32] := by decide
theorem bin_ne_i32_i32_valid : validate [.i32, .i32] bin_ne_i32_i32 [] = some [.i32] := by decide
theorem bin_ne_u32_u32_valid : validate [.i32, .i32] bin_ne_u32_u32 [] = some [.i32] := by decide
theorem bin_ne_i64_i64_valid : validate [.i64, .i64] bin_ne_i64_i64 [] = some [.i32] := by decide
theorem bin_ne_u64_u64_valid : validate [.i64, .i64] bin_ne_u64_u64 [] = some [.i32] := by decide
theorem bin_ne_rune_rune_valid : validate [.i32, .i32] bin_ne_rune_rune [] = some [.i32] := by decide
theorem bin_lt_u8_u8_valid : validate [.i32, .i32] bin_lt_u8_u8 [] = some [.i32] := by decide
theorem bin_lt_u16_u16_valid : validate [.i32, .i32] bin_lt_u16_u16 [] = some [.i32] := by decide
theorem bin_lt_i32_i32_valid : validate [.i32, .i32] bin_lt_i32_i32 [] = some [.i32] := by decide
theorem bin_lt_u32_u32_valid : validate [.i32, .i32] bin_lt_u32_u32 [] = some [.i32] := by decide
theorem bin_lt_i64_i64_valid : validate [.i64, .i64] bin_lt_i64_i64 [] = some [.i32] := by decide
theorem bin_lt_u64_u64_valid : validate [.i64, .i64] bin_lt_u64_u64 [] = some [.i32] := by decide
theorem bin_lt_rune_rune_valid : validate [.i32, .i32] bin_lt_rune_rune [] = some [.i32] := by decide
theorem bin_gt_u8_u8_valid : validate [.i32, .i32] bin_gt_u8_u8 [] = some [.i32] := by decide
theorem bin_gt_u16_u16_valid : validate [.i32, .i32] bin_gt_u16_u16 [] = some [.i32] := by decide
theorem bin_gt_i32_i32_valid : validate [.i32, .i32] bin_gt_i32_i32 [] = some [.i32] := by decide
theorem bin_gt_u32_u32_valid : validate [.i32, .i32] bin_gt_u32_u32 [] = some [.i32] := by decide
theorem bin_gt_i64_i64_valid : validate [.i64, .i64] bin_gt_i64_i64 [] = some [.i32] := by decide
theorem bin_gt_u64_u64_valid : validate [.i64, .i64] bin_gt_u64_u64 [] = some [.i32] := by decide
theorem bin_gt_rune_rune_valid : validate [.i32, .i32] bin_gt_rune_rune [] = some [.i32] := by decide
theorem bin_le_u8_u8_valid : validate [.i32, .i32] bin_le_u8_u8 [] = some [.i32] := by decide
theorem bin_le_u16_u16_valid : validate [.i32, .i32] bin_le_u16_u16 [] = some [.i32] := by decide
theorem bin_le_i32_i32_valid : validate [.i32, .i32] bin_le_i32_i32 [] = some [.i32] := by decide
theorem bin_le_u32_u32_valid : validate [.i32, .i32] bin_le_u32_u32 [] = some [.i32] := by decide
theorem bin_le_i64_i64_valid : validate [.i64, .i64] bin_le_i64_i64 [] = some [.i32] := by decide
theorem bin_le_u64_u64_valid : validate [.i64, .i64] bin_le_u64_u64 [] = some [.i32] := by decide
theorem bin_le_rune_rune_valid : validate [.i32, .i32] bin_le_rune_rune [] = some [.i32] := by decide
theorem bin_ge_u8_u8_valid : validate [.i32, .i32] bin_ge_u8_u8 [] = some [.i32] := by decide
theorem bin_ge_u16_u16_valid : validate [.i32, .i32] bin_ge_u16_u16 [] = some [.i32] := by decide
theorem bin_ge_i32_i32_valid : validate [.i32, .i32] bin_ge_i32_i32 [] = some [.i32] := by decide
theorem bin_ge_u32_u32_valid : validate [.i32, .i32] bin_ge_u32_u32 [] = some [.i32] := by decide
theorem bin_ge_i64_i64_valid : validate [.i64, .i64] bin_ge_i64_i64 [] = some [.i32] := by decide
theorem bin_ge_u64_u64_valid : validate [.i64, .i64] bin_ge_u64_u64 [] = some [.i32] := by decide
theorem bin_ge_rune_rune_valid : validate [.i32, .i32] bin_ge_rune_rune [] = some [.i32] := by decide
theorem bin_shl_u8_u8_valid : validate [.i32, .i32] bin_shl_u8_u8 [] = some [.i32] := by decide
theorem bin_shl_u8_u16_valid : validate [.i32, .i32] bin_shl_u8_u16 [] = some [.i32] := by decide
theorem bin_shl_u8_u32_valid : validate [.i32, .i32] bin_shl_u8_u32 [] = some [.i32] := by decide
theorem bin_shl_u8_u64_valid : validate [.i32, .i64] bin_shl_u8_u64 [] = some [.i32] := by decide
theorem bin_shl_u8_i32_valid : validate [.i32, .i32] bin_shl_u8_i32 [] = some [.i32] := by decide
theorem bin_shl_u8_i64_valid : validate [.i32, .i64] bin_shl_u8_i64 [] = some [.i32] := by decide
theorem bin_shl_u16_u8_valid : validate [.i32, .i32] bin_shl_u16_u8 [] = some [.i32] := by decide
theorem bin_shl_u16_u16_valid : validate [.i32, .i32] bin_shl_u16_u16 [] = some [.i32] := by decide
theorem bin_shl_u16_u32_valid : validate [.i32, .i32] bin_shl_u16_u32 [] = some [.i32] := by decide
theorem bin_shl_u16_u64_valid : validate [.i32, .i64] bin_shl_u16_u64 [] = some [.i32] := by decide
theorem bin_shl_u16_i32_valid : validate [.i32, .i32] bin_shl_u16_i32 [] = some [.i32] := by decide
theorem bin_shl_u16_i64_valid : validate [.i32, .i64] bin_shl_u16_i64 [] = some [.i32] := by decide
theorem bin_shl_i32_u8_valid : validate [.i32, .i32] bin_shl_i32_u8 [] = some [.i32] := by decide
theorem bin_shl_i32_u16_valid : validate [.i32, .i32] bin_shl_i32_u16 [] = some [.i32] := by decide
theorem bin_shl_i32_u32_valid : validate [.i32, .i32] bin_shl_i32_u32 [] = some [.i32] := by decide
theorem bin_shl_i32_u64_valid : validate [.i32, .i64] bin_shl_i32_u64 [] = some [.i32] := by decide
theorem bin_shl_i32_i32_valid : validate [.i32, .i32] bin_shl_i32_i32 [] = some [.i32] := by decide
theorem bin_shl_i32_i64_valid : validate [.i32, .i64] bin_shl_i32_i64 [] = some [.i32] := by decide
theorem bin_shl_u32_u8_valid : validate [.i32, .i32] bin_shl_u32_u8 [] = some [.i32] := by decide
theorem bin_shl_u32_u16_valid : validate [.i32, .i32] bin_shl_u32_u16 [] = some [.i32] := by decide
theorem bin_shl_u32_u32_valid : validate [.i32, .i32] bin_shl_u32_u32 [] = some [.i32] := by decide
theorem bin_shl_u32_u64_valid : validate [.i32, .i64] bin_shl_u32_u64 [] = some [.i32] := by decide
theorem bin_shl_u32_i32_valid : validate [.i32, .i32] bin_shl_u32_i32 [] = some [.i32] := by decide
theorem bin_shl_u32_i64_valid : validate [.i32, .i64] bin_shl_u32_i64 [] = some [.i32] := by decide
theorem bin_shl_i64_u8_valid : validate [.i64, .i32] bin_shl_i64_u8 [] = some [.i64] := by decide
theorem bin_shl_i64_u16_valid : validate [.i64, .i32] bin_shl_i64_u16 [] = some [.i64] := by decide
theorem bin_shl_i64_u32_valid : validate [.i64, .i32] bin_shl_i64_u32 [] = some [.i64] := by decide
theorem bin_shl_i64_u64_valid : validate [.i64, .i64] bin_shl_i64_u64 [] = some [.i64] := by decide
theorem bin_shl_i64_i32_valid : validate [.i64, .i32] bin_shl_i64_i32 [] = some [.i64] := by decide
theorem bin_shl_i64_i64_valid : validate [.i64, .i64] bin_shl_i64_i64 [] = some [.i64] := by decide
theorem bin_shl_u64_u8_valid : validate [.i64, .i32] bin_shl_u64_u8 [] = some [.i64] := by decide
theorem bin_shl_u64_u16_valid : validate [.i64, .i32] bin_shl_u64_u16 [] = some [.i64] := by decide
theorem bin_shl_u64_u32_valid : validate [.i64, .i32] bin_shl_u64_u32 [] = some [.i64] := by decide
theorem bin_shl_u64_u64_valid : validate [.i64, .i64] bin_shl_u64_u64 [] = some [.i64] := by decide
theorem bin_shl_u64_i32_valid : validate [.i64, .i32] bin_shl_u64_i32 [] = some [.i64] := by decide
theorem bin_shl_u64_i64_valid : validate [.i64, .i64] bin_shl_u64_i64 [] = some [.i64] := by decide
theorem bin_shl_rune_u8_valid : validate [.i32, .i32] bin_shl_rune_u8 [] = some [.i32] := by decide
theorem bin_shl_rune_u16_valid : validate [.i32, .i32] bin_shl_rune_u16 [] = some [.i32] := by decide
theorem bin_shl_rune_u32_valid : validate [.i32, .i32] bin_shl_rune_u32 [] = some [.i32] := by decide
theorem bin_shl_rune_u64_valid : validate [.i32, .i64] bin_shl_rune_u64 [] = some [.i32] := by decide
theorem bin_shl_rune_i32_valid : validate [.i32, .i32] bin_shl_rune_i32 [] = some [.i32] := by decide
theorem bin_shl_rune_i64_valid : validate [.i32, .i64] bin_shl_rune_i64 [] = some [.i32] := by decide
theorem bin_shr_u8_u8_valid : validate [.i32, .i32] bin_shr_u8_u8 [] = some [.i32] := by decide
theorem bin_shr_u8_u16_valid : validate [.i32, .i32] bin_shr_u8_u16 [] = some [.i32] := by decide
theorem bin_shr_u8_u32_valid : validate [.i32, .i32] bin_shr_u8_u32 [] = some [.i32] := by decide
theorem bin_shr_u8_u64_valid : validate [.i32, .i64] bin_shr_u8_u64 [] = some [.i32] := by decide
theorem bin_shr_u8_i32_valid : validate [.i32, .i32] bin_shr_u8_i32 [] = some [.i32] := by decide
theorem bin_shr_u8_i64_valid : validate [.i32, .i64] bin_shr_u8_i64 [] = some [.i32] := by decide
theorem bin_shr_u16_u8_valid : validate [.i32, .i32] bin_shr_u16_u8 [] = some [.i32] := by decide
theorem bin_shr_u16_u16_valid : validate [.i32, .i32] bin_shr_u16_u16 [] = some [.i32] := by decide
theorem bin_shr_u16_u32_valid : validate [.i32, .i32] bin_shr_u16_u32 [] = some [.i32] := by decide
theorem bin_shr_u16_u64_valid : validate [.i32, .i64] bin_shr_u16_u64 [] = some [.i32] := by decide
theorem bin_shr_u16_i32_valid : validate [.i32, .i32] bin_shr_u16_i32 [] = some [.i32] := by decide
theorem bin_shr_u16_i64_valid : validate [.i32, .i64] bin_shr_u16_i64 [] = some [.i32] := by decide
theorem bin_shr_i32_u8_valid : validate [.i32, .i32] bin_shr_i32_u8 [] = some [.i32] := by decide
theorem bin_shr_i32_u16_valid : validate [.i32, .i32] bin_shr_i32_u16 [] = some [.i32] := by decide
theorem bin_shr_i32_u32_valid : validate [.i32, .i32] bin_shr_i32_u32 [] = some [.i32] := by decide
theorem bin_shr_i32_u64_valid : validate [.i32, .i64] bin_shr_i32_u64 [] = some [.i32] := by decide
theorem bin_shr_i32_i32_valid : validate [.i32, .i32] bin_shr_i32_i32 [] = some [.i32] := by decide
theorem bin_shr_i32_i64_valid : validate [.i32, .i64] bin_shr_i32_i64 [] = some [.i32] := by decide
theorem bin_shr_u32_u8_valid : validate [.i32, .i32] bin_shr_u32_u8 [] = some [.i32] := by decide
theorem bin_shr_u32_u16_valid : validate [.i32, .i32] bin_shr_u32_u16 [] = some [.i32] := by decide
theorem bin_shr_u32_u32_valid : validate [.i32, .i32] bin_shr_u32_u32 [] = some [.i32] := by decide
theorem bin_shr_u32_u64_valid : validate [.i32, .i64] bin_shr_u32_u64 [] = some [.i32] := by decide
theorem bin_shr_u32_i32_valid : validate [.i32, .i32] bin_shr_u32_i32 [] = some [.i32] := by decide
theorem bin_shr_u32_i64_valid : validate [.i32, .i64] bin_shr_u32_i64 [] = some [.i32] := by decide
theorem bin_shr_i64_u8_valid : validate [.i64, .i32] bin_shr_i64_u8 [] = some [.i64] := by decide
theorem bin_shr_i64_u16_valid : validate [.i64, .i32] bin_shr_i64_u16 [] = some [.i64] := by decide
theorem bin_shr_i64_u32_valid : validate [.i64, .i32] bin_shr_i64_u32 [] = some [.i64] := by decide
theorem bin_shr_i64_u64_valid : validate [.i64, .i64] bin_shr_i64_u64 [] = some [.i64] := by decide
theorem bin_shr_i64_i32_valid : validate [.i64, .i32] bin_shr_i64_i32 [] = some [.i64] := by decide
theorem bin_shr_i64_i64_valid : validate [.i64, .i64] bin_shr_i64_i64 [] = some [.i64] := by decide
theorem bin_shr_u64_u8_valid : validate [.i64, .i32] bin_shr_u64_u8 [] = some [.i64] := by decide
theorem bin_shr_u64_u16_valid : validate [.i64, .i32] bin_shr_u64_u16 [] = some [.i64] := by decide
theorem bin_shr_u64_u32_valid : validate [.i64, .i32] bin_shr_u64_u32 [] = some [.i64] := by decide
theorem bin_shr_u64_u64_valid : validate [.i64, .i64] bin_shr_u64_u64 [] = some [.i64] := by decide
theorem bin_shr_u64_i32_valid : validate [.i64, .i32] bin_shr_u64_i32 [] = some [.i64] := by decide
theorem bin_shr_u64_i64_valid : validate [.i64, .i64] bin_shr_u64_i64 [] = some [.i64] := by decide
theorem bin_shr_rune_u8_valid : validate [.i32, .i32] bin_shr_rune_u8 [] = some [.i32] := by decide
theorem bin_shr_rune_u16_valid : validate [.i32, .i32] bin_shr_rune_u16 [] = some [.i32] := by decide
theorem bin_shr_rune_u32_valid : validate [.i32, .i32] bin_shr_rune_u32 [] = some [.i32] := by decide
theorem bin_shr_rune_u64_valid : validate [.i32, .i64] bin_shr_rune_u64 [] = some [.i32] := by decide
theorem bin_shr_rune_i32_valid : validate [.i32, .i32] bin_shr_rune_i32 [] = some [.i32] := by decide
theorem bin_shr_rune_i64_valid : validate [.i32, .i64] bin_shr_rune_i64 [] = some [.i32] := by decide
theorem un_sub_u8_valid : validate [.i32] un_sub_u8 [] = some [.i32] := by decide
theorem un_sub_u16_valid : validate [.i32] un_sub_u16 [] = some [.i32] := by decide
theorem un_sub_i32_valid : validate [.i32] un_sub_i32 [] = some [.i32] := by decide
theorem un_sub_u32_valid : validate [.i32] un_sub_u32 [] = some [.i32] := by decide
theorem un_sub_i64_valid : validate [.i64] un_sub_i64 [] = some [.i64] := by decide
theorem un_sub_u64_valid : validate [.i64] un_sub_u64 [] = some [.i64] := by decide
theorem un_sub_rune_valid : validate [.i32] un_sub_rune [] = some [.i32] := by decide
theorem un_xor_u8_valid : validate [.i32] un_xor_u8 [] = some [.i32] := by decide
theorem un_xor_u16_valid : validate [.i32] un_xor_u16 [] = some [.i32] := by decide
theorem un_xor_i32_valid : validate [.i32] un_xor_i32 [] = some [.i32] := by decide
theorem un_xor_u32_valid : validate [.i32] un_xor_u32 [] = some [.i32] := by decide
theorem un_xor_i64_valid : validate [.i64] un_xor_i64 [] = some [.i64] := by decide
theorem un_xor_u64_valid : validate [.i64] un_xor_u64 [] = some [.i64] := by decide
theorem un_xor_rune_valid : validate [.i32] un_xor_rune [] = some [.i32] := by decide
theorem un_not_bool_valid : validate [.i32] un_not_bool [] = some [.i32] := by decide
theorem conv_to_u8_u8_valid : validate [.i32] conv_to_u8_u8 [] = some [.i32] := by decide
theorem conv_to_u8_u16_valid : validate [.i32] conv_to_u8_u16 [] = some [.i32] := by decide
theorem conv_to_u8_i32_valid : validate [.i32] conv_to_u8_i32 [] = some [.i32] := by decide
theorem conv_to_u8_u32_valid : validate [.i32] conv_to_u8_u32 [] = some [.i32] := by decide
theorem conv_to_u8_i64_valid : validate [.i32] conv_to_u8_i64 [] = some [.i64] := by decide
theorem conv_to_u8_u64_valid : validate [.i32] conv_to_u8_u64 [] = some [.i64] := by decide
theorem conv_to_u8_rune_valid : validate [.i32] conv_to_u8_rune [] = some [.i32] := by decide
theorem conv_to_u16_u8_valid : validate [.i32] conv_to_u16_u8 [] = some [.i32] := by decide
theorem conv_to_u16_u16_valid : validate [.i32] conv_to_u16_u16 [] = some [.i32] := by decide
theorem conv_to_u16_i32_valid : validate [.i32] conv_to_u16_i32 [] = some [.i32] := by decide
theorem conv_to_u16_u32_valid : validate [.i32] conv_to_u16_u32 [] = some [.i32] := by decide
theorem conv_to_u16_i64_valid : validate [.i32] conv_to_u16_i64 [] = some [.i64] := by decide
theorem conv_to_u16_u64_valid : validate [.i32] conv_to_u16_u64 [] = some [.i64] := by decide
theorem conv_to_u16_rune_valid : validate [.i32] conv_to_u16_rune [] = some [.i32] := by decide
theorem conv_to_i32_u8_valid : validate [.i32] conv_to_i32_u8 [] = some [.i32] := by decide
theorem conv_to_i32_u16_valid : validate [.i32] conv_to_i32_u16 [] = some [.i32] := by decide
theorem conv_to_i32_i32_valid : validate [.i32] conv_to_i32_i32 [] = some [.i32] := by decide
theorem conv_to_i32_u32_valid : validate [.i32] conv_to_i32_u32 [] = some [.i32] := by decide
theorem conv_to_i32_i64_valid : validate [.i32] conv_to_i32_i64 [] = some [.i64] := by decide
theorem conv_to_i32_u64_valid : validate [.i32] conv_to_i32_u64 [] = some [.i64] := by decide
theorem conv_to_i32_rune_valid : validate [.i32] conv_to_i32_rune [] = some [.i32] := by decide
theorem conv_to_u32_u8_valid : validate [.i32] conv_to_u32_u8 [] = some [.i32] := by decide
theorem conv_to_u32_u16_valid : validate [.i32] conv_to_u32_u16 [] = some [.i32] := by decide
theorem conv_to_u32_i32_valid : validate [.i32] conv_to_u32_i32 [] = some [.i32] := by decide
theorem conv_to_u32_u32_valid : validate [.i32] conv_to_u32_u32 [] = some [.i32] := by decide
theorem conv_to_u32_i64_valid : validate [.i32] conv_to_u32_i64 [] = some [.i64] := by decide
theorem conv_to_u32_u64_valid : validate [.i32] conv_to_u32_u64 [] = some [.i64] := by decide
theorem conv_to_u32_rune_valid : validate [.i32] conv_to_u32_rune [] = some [.i32] := by decide
theorem conv_to_i64_u8_valid : validate [.i64] conv_to_i64_u8 [] = some [.i32] := by decide
theorem conv_to_i64_u16_valid : validate [.i64] conv_to_i64_u16 [] = some [.i32] := by decide
theorem conv_to_i64_i32_valid : validate [.i64] conv_to_i64_i32 [] = some [.i32] := by decide
theorem conv_to_i64_u32_valid : validate [.i64] conv_to_i64_u32 [] = some [.i32] := by decide
theorem conv_to_i64_i64_valid : validate [.i64] conv_to_i64_i64 [] = some [.i64] := by decide
theorem conv_to_i64_u64_valid : validate [.i64] conv_to_i64_u64 [] = some [.i64] := by decide
theorem conv_to_i64_rune_valid : validate [.i64] conv_to_i64_rune [] = some [.i32] := by decide
theorem conv_to_u64_u8_valid : validate [.i64] conv_to_u64_u8 [] = some [.i32] := by decide
theorem conv_to_u64_u16_valid : validate [.i64] conv_to_u64_u16 [] = some [.i32] := by decide
theorem conv_to_u64_i32_valid : validate [.i64] conv_to_u64_i32 [] = some [.i32] := by decide
theorem conv_to_u64_u32_valid : validate [.i64] conv_to_u64_u32 [] = some [.i32] := by decide
theorem conv_to_u64_i64_valid : validate [.i64] conv_to_u64_i64 [] = some [.i64] := by decide
theorem conv_to_u64_u64_valid : validate [.i64] conv_to_u64_u64 [] = some [.i64] := by decide
theorem conv_to_u64_rune_valid : validate [.i64] conv_to_u64_rune [] = some [.i32] := by decide
theorem conv_to_rune_u8_valid : validate [.i32] conv_to_rune_u8 [] = some [.i32] := by decide
theorem conv_to_rune_u16_valid : validate [.i32] conv_to_rune_u16 [] = some [.i32] := by decide
theorem conv_to_rune_i32_valid : validate [.i32] conv_to_rune_i32 [] = some [.i32] := by decide
theorem conv_to_rune_u32_valid : validate [.i32] conv_to_rune_u32 [] = some [.i32] := by decide
theorem conv_to_rune_i64_valid : validate [.i32] conv_to_rune_i64 [] = some [.i64] := by decide
theorem conv_to_rune_u64_valid : validate [.i32] conv_to_rune_u64 [] = some [.i64] := by decide
theorem conv_to_rune_rune_valid : validate [.i32] conv_to_rune_rune [] = some [.i32] := by decide

end WaVerif.C16.Rows
