import WaVerif.Model.C28
import WaVerif.Gen.C28Facts
/-! # C28 — property theorems about the shared-current-module model

The model-level reason why an unlocked process-global is unsafe, and why a lock around
`SetCurrentModule … return` (or non-overlapping use) makes it safe.  Whether the real `Compile` holds
such a lock is a REGENERATED fact (`compileLocked`); the behaviour of the real API under concurrency is
explored by the check (goroutines × programs, race detector), not proved. -/
namespace WaVerif.C28
open List

/-! ### serialised use is safe, with or without a lock -/

/-- between sessions: nobody active, lock free -/
def Quiet (st : St) : Prop := st.active = [] ∧ st.lock = none ∧ Isolated st

theorem reads_in_session (cfg : Cfg) (s : Sess) (n : Nat) (st : St)
    (ha : st.active = [s]) (hc : st.cur = some s) (hi : Isolated st) :
    let st' := runFrom cfg st (replicate n (s, Act.read))
    st'.active = [s] ∧ st'.cur = some s ∧ st'.lock = st.lock ∧ Isolated st' := by
  induction n generalizing st with
  | zero => exact ⟨ha, hc, rfl, hi⟩
  | succ n ih =>
    simp only [replicate_succ, runFrom, foldl_cons]
    have hs : step cfg st (s, Act.read) = { st with log := st.log ++ [(s, st.cur)] } := by
      simp [step, ha]
    rw [hs]
    have := ih { st with log := st.log ++ [(s, st.cur)] } ha hc (by
      intro e he
      simp only [mem_append, mem_singleton] at he
      rcases he with he | he
      · exact hi e he
      · rw [he]; exact hc)
    simpa [runFrom] using this

theorem block_quiet (cfg : Cfg) (b : Sess × Nat) (st : St) (hq : Quiet st) :
    Quiet (runFrom cfg st (block b)) := by
  obtain ⟨s, n⟩ := b
  obtain ⟨ha, hl, hi⟩ := hq
  simp only [block, runFrom, foldl_cons, foldl_append, foldl_nil]
  have hb : step cfg st (s, Act.begin) =
      { st with cur := some s, lock := if cfg.locked then some s else none, active := [s] } := by
    simp [step, ha, hl]
  rw [hb]
  have hr := reads_in_session cfg s n
    { st with cur := some s, lock := if cfg.locked then some s else none, active := [s] } rfl rfl hi
  simp only [runFrom] at hr
  obtain ⟨h1, _, h3, h4⟩ := hr
  generalize foldl (step cfg) { st with cur := some s, lock := if cfg.locked then some s else none, active := [s] }
    (replicate n (s, Act.read)) = st2 at h1 h3 h4
  simp only [step, h1, mem_singleton, if_true]
  refine ⟨by simp, ?_, h4⟩
  simp only [h3]
  cases cfg.locked <;> simp

/-- **isolated_if_serialised**: schedules in which sessions do not overlap (whole sessions one after the
other, any sessions, any number of reads, re-entry allowed) give every reader its own module — even
without any lock. -/
theorem isolated_if_serialised (cfg : Cfg) (blocks : List (Sess × Nat)) :
    Isolated (run cfg (serialised blocks)) := by
  have h : ∀ st, Quiet st → Quiet (runFrom cfg st (serialised blocks)) := by
    induction blocks with
    | nil => intro st hq; simpa [serialised, runFrom] using hq
    | cons b bs ih =>
      intro st hq
      have := ih _ (block_quiet cfg b st hq)
      simpa [serialised, runFrom, foldl_append] using this
  have h0 : Quiet St.init := ⟨rfl, rfl, (by intro e he; cases he)⟩
  exact (h St.init h0).2.2

example : serialised [(0, 2), (1, 1), (0, 1)] =
    [(0, .begin), (0, .read), (0, .read), (0, .finish), (1, .begin), (1, .read), (1, .finish),
     (0, .begin), (0, .read), (0, .finish)] := by decide

/-! ### an unlocked global is unsafe -/

/-- **interference_exists**: without a lock there is a schedule in which session 0 reads session 1's
module (0 begins, 1 begins, 0 reads). -/
theorem interference_exists : (run ⟨false⟩ witness).log = [(0, some 1)] := by decide

theorem interference_not_isolated : ¬ Isolated (run ⟨false⟩ witness) := by decide

/-- the same schedule under the lock: session 1's begin is blocked, session 0 reads its own module -/
theorem witness_harmless_with_lock : (run ⟨true⟩ witness).log = [(0, some 0)] := by decide

/-! ### a lock around set…reads makes every schedule safe -/

/-- invariant under the lock: only the lock holder is active, and the global is the holder's module -/
def LockInv (st : St) : Prop :=
  (∀ s ∈ st.active, st.lock = some s) ∧ (∀ s, st.lock = some s → st.cur = some s) ∧ Isolated st

theorem step_lockInv (st : St) (e : Sess × Act) (h : LockInv st) : LockInv (step ⟨true⟩ st e) := by
  obtain ⟨s, a⟩ := e
  obtain ⟨h1, h2, h3⟩ := h
  cases a with
  | begin =>
    simp only [step]
    split
    · exact ⟨h1, h2, h3⟩
    · next hna =>
      cases hl : st.lock with
      | some t => simp; exact ⟨h1, h2, h3⟩
      | none =>
        have hempty : st.active = [] := by
          cases hact : st.active with
          | nil => rfl
          | cons t ts =>
            have := h1 t (by simp [hact])
            simp [hl] at this
        simp [hempty]
        exact ⟨by simp, by simp, h3⟩
  | read =>
    simp only [step]
    split
    · next hact =>
      refine ⟨h1, h2, ?_⟩
      intro e he
      simp only [mem_append, mem_singleton] at he
      rcases he with he | he
      · exact h3 e he
      · rw [he]; exact h2 s (h1 s hact)
    · exact ⟨h1, h2, h3⟩
  | finish =>
    simp only [step]
    split
    · next hact =>
      have hl := h1 s hact
      refine ⟨?_, ?_, h3⟩
      · intro t ht
        simp only [mem_filter, decide_eq_true_eq] at ht
        have := h1 t ht.1
        rw [hl] at this
        exact absurd (Option.some.inj this).symm ht.2
      · intro t ht
        simp [hl] at ht
    · exact ⟨h1, h2, h3⟩

/-- **with_lock_isolated**: if set…reads is a critical section, EVERY schedule is isolated. -/
theorem with_lock_isolated (sched : List (Sess × Act)) : Isolated (run ⟨true⟩ sched) := by
  have h : ∀ st, LockInv st → LockInv (runFrom ⟨true⟩ st sched) := by
    induction sched with
    | nil => intro st h; exact h
    | cons e es ih => intro st h; exact ih _ (step_lockInv st e h)
  have h0 : LockInv St.init :=
    ⟨(by intro s hs; cases hs), (by intro s hs; cases hs), (by intro e he; cases he)⟩
  exact (h St.init h0).2.2

example : Isolated (run ⟨true⟩ [(0, .begin), (1, .begin), (0, .read), (1, .read), (0, .finish), (1, .begin), (1, .read)]) := by
  decide

/-- safety for every schedule ⟺ the critical section exists -/
theorem safe_iff_locked (cfg : Cfg) : (∀ sched, Isolated (run cfg sched)) ↔ cfg.locked = true := by
  constructor
  · intro h
    cases hc : cfg.locked with
    | true => rfl
    | false =>
      have : cfg = ⟨false⟩ := by cases cfg; simp_all
      exact absurd (this ▸ h witness) interference_not_isolated
  · intro h sched
    have : cfg = ⟨true⟩ := by cases cfg; simp_all
    rw [this]; exact with_lock_isolated sched

/-! ### the current source -/

/-- what the model says about the CURRENT source (`compileLocked` is regenerated from
`compiler_wat/compile.go` on every run): concurrent compilations are isolated for every schedule iff
`Compile` holds a lock around `SetCurrentModule … return`. -/
theorem current_source_safe_iff : (∀ sched, Isolated (run ⟨compileLocked⟩ sched)) ↔ compileLocked = true :=
  safe_iff_locked ⟨compileLocked⟩

/-- every package-level variable written after init in the anchored packages carries an audit verdict -/
theorem globals_accounted_claim : allGlobalsAccounted globals = claimGlobalsAccounted := by decide

end WaVerif.C28
