import WaVerif.Model.C28
import WaVerif.Gen.C28Facts
/-! # C28 — property theorems about the shared-current-module model

The model-level reason why an unlocked process-global is unsafe, and why a lock around
`SetCurrentModule … return` (or non-overlapping use) makes it safe.  Whether the real `Compile` holds
such a lock is a REGENERATED fact (`compileLocked`); the behaviour of the real API under concurrency is
explored by the check (goroutines × programs, race detector), not proved. -/
namespace WaVerif.C28
open List

/-! ### serialised use is safe, with or without a lock -/

/-- between sessions: nobody active, lock free -/
def Quiet (st : St) : Prop := st.active = [] ∧ st.lock = none ∧ Isolated st

theorem reads_in_session (cfg : Cfg) (s : Sess) (n : Nat) (st : St)
    (ha : st.active = [s]) (hc : st.cur = some s) (hi : Isolated st) :
    let st' := runFrom cfg st (replicate n (s, Act.read))
    st'.active = [s] ∧ st'.cur = some s ∧ st'.lock = st.lock ∧ Isolated st' := by
  induction n generalizing st with
  | zero => exact ⟨ha, hc, rfl, hi⟩
  | succ n ih =>
    simp only [replicate_succ, runFrom, foldl_cons]
    have hs : step cfg st (s, Act.read) = { st with log := st.log ++ [(s, st.cur)] } := by
      simp [step, ha]
    rw [hs]
    have := ih { st with log := st.log ++ [(s, st.cur)] } ha hc (by
      intro e he
      simp only [mem_append, mem_singleton] at he
      rcases he with he | he
      · exact hi e he
      · rw [he]; exact hc)
    simpa [runFrom] using this

theorem block_quiet (cfg : Cfg) (b : Sess × Nat) (st : St) (hq : Quiet st) :
    Quiet (runFrom cfg st (block b)) := by
  obtain ⟨s, n⟩ := b
  obtain ⟨ha, hl, hi⟩ := hq
  simp only [block, runFrom, foldl_cons, foldl_append, foldl_nil]
  have hb : step cfg st (s, Act.begin) =
      { st with cur := some s, lock := if cfg.locked then some s else none, active := [s] } := by
    simp [step, ha, hl]
  rw [hb]
  have hr := reads_in_session cfg s n
    { st with cur := some s, lock := if cfg.locked then some s else none, active := [s] } rfl rfl hi
  simp only [runFrom] at hr
  obtain ⟨h1, _, h3, h4⟩ := hr
  generalize foldl (step cfg) { st with cur := some s, lock := if cfg.locked then some s else none, active := [s] }
    (replicate n (s, Act.read)) = st2 at h1 h3 h4
  simp only [step, h1, mem_singleton, if_true]
  refine ⟨by simp, ?_, h4⟩
  simp only [h3]
  cases cfg.locked <;> simp

/-- **isolated_if_serialised**: schedules in which sessions do not overlap (whole sessions one after the
other, any sessions, any number of reads, re-entry allowed) give every reader its own module — even
without any lock. -/
theorem isolated_if_serialised (cfg : Cfg) (blocks : List (Sess × Nat)) :
    Isolated (run cfg (serialised blocks)) := by
  have h : ∀ st, Quiet st → Quiet (runFrom cfg st (serialised blocks)) := by
    induction blocks with
    | nil => intro st hq; simpa [serialised, runFrom] using hq
    | cons b bs ih =>
      intro st hq
      have := ih _ (block_quiet cfg b st hq)
      simpa [serialised, runFrom, foldl_append] using this
  have h0 : Quiet St.init := ⟨rfl, rfl, (by intro e he; cases he)⟩
  exact (h St.init h0).2.2

example : serialised [(0, 2), (1, 1), (0, 1)] =
    [(0, .begin), (0, .read), (0, .read), (0, .finish), (1, .begin), (1, .read), (1, .finish),
     (0, .begin), (0, .read), (0, .finish)] := by decide

/-! ### an unlocked global is unsafe -/

/-- **interference_exists**: without a lock there is a schedule in which session 0 reads session 1's
module (0 begins, 1 begins, 0 reads). -/
theorem interference_exists : (run ⟨false, true⟩ witness).log = [(0, some 1)] := by decide

theorem interference_not_isolated : ¬ Isolated (run ⟨false, true⟩ witness) := by decide

/-- the same schedule under the lock: session 1's begin is blocked, session 0 reads its own module -/
theorem witness_harmless_with_lock : (run ⟨true, true⟩ witness).log = [(0, some 0)] := by decide

/-! ### a lock around set…reads makes every schedule safe -/

/-- invariant under the lock: only the lock holder is active, and the global is the holder's module -/
def LockInv (st : St) : Prop :=
  (∀ s ∈ st.active, st.lock = some s) ∧ (∀ s, st.lock = some s → st.cur = some s) ∧ Isolated st

theorem step_lockInv (d : Bool) (st : St) (e : Sess × Act) (h : LockInv st) : LockInv (step ⟨true, d⟩ st e) := by
  obtain ⟨s, a⟩ := e
  obtain ⟨h1, h2, h3⟩ := h
  cases a with
  | begin =>
    simp only [step]
    split
    · exact ⟨h1, h2, h3⟩
    · next hna =>
      cases hl : st.lock with
      | some t => simp; exact ⟨h1, h2, h3⟩
      | none =>
        have hempty : st.active = [] := by
          cases hact : st.active with
          | nil => rfl
          | cons t ts =>
            have := h1 t (by simp [hact])
            simp [hl] at this
        simp [hempty]
        exact ⟨by simp, by simp, h3⟩
  | read =>
    simp only [step]
    split
    · next hact =>
      refine ⟨h1, h2, ?_⟩
      intro e he
      simp only [mem_append, mem_singleton] at he
      rcases he with he | he
      · exact h3 e he
      · rw [he]; exact h2 s (h1 s hact)
    · exact ⟨h1, h2, h3⟩
  | finish =>
    simp only [step]
    split
    · next hact =>
      have hl := h1 s hact
      refine ⟨?_, ?_, h3⟩
      · intro t ht
        simp only [mem_filter, decide_eq_true_eq] at ht
        have := h1 t ht.1
        rw [hl] at this
        exact absurd (Option.some.inj this).symm ht.2
      · intro t ht
        simp [hl] at ht
    · exact ⟨h1, h2, h3⟩
  | crash =>
    simp only [step]
    split
    · next hact =>
      have hl := h1 s hact
      refine ⟨?_, ?_, h3⟩
      · intro t ht
        simp only [mem_filter, decide_eq_true_eq] at ht
        have := h1 t ht.1
        rw [hl] at this
        exact absurd (Option.some.inj this).symm ht.2
      · intro t ht
        cases d
        · simp only [Bool.false_and, Bool.false_eq_true, if_false] at ht
          exact h2 t ht
        · simp [hl] at ht
    · exact ⟨h1, h2, h3⟩

/-- **with_lock_isolated**: if set…reads is a critical section, EVERY schedule is isolated. -/
theorem with_lock_isolated (d : Bool) (sched : List (Sess × Act)) : Isolated (run ⟨true, d⟩ sched) := by
  have h : ∀ st, LockInv st → LockInv (runFrom ⟨true, d⟩ st sched) := by
    induction sched with
    | nil => intro st h; exact h
    | cons e es ih => intro st h; exact ih _ (step_lockInv d st e h)
  have h0 : LockInv St.init :=
    ⟨(by intro s hs; cases hs), (by intro s hs; cases hs), (by intro e he; cases he)⟩
  exact (h St.init h0).2.2

example : Isolated (run ⟨true, true⟩ [(0, .begin), (1, .begin), (0, .read), (1, .crash), (0, .crash), (1, .begin), (1, .read)]) := by
  decide

/-- safety for every schedule ⟺ the critical section exists -/
theorem safe_iff_locked (cfg : Cfg) : (∀ sched, Isolated (run cfg sched)) ↔ cfg.locked = true := by
  constructor
  · intro h
    cases hc : cfg.locked with
    | true => rfl
    | false =>
      have hw : (run cfg witness).log = [(0, some 1)] := by
        obtain ⟨l, d⟩ := cfg
        simp only at hc
        subst hc
        cases d <;> decide
      have := h witness (0, some 1) (by rw [hw]; simp)
      simp at this
  · intro h sched
    obtain ⟨l, d⟩ := cfg
    simp only at h
    subst h
    exact with_lock_isolated d sched

/-! ### the current source -/

/-- what the model says about the CURRENT source (`compileLocked` is regenerated from
`compiler_wat/compile.go` on every run): concurrent compilations are isolated for every schedule iff
`Compile` holds a lock around `SetCurrentModule … return`. -/
theorem current_source_safe_iff :
    (∀ sched, Isolated (run ⟨compileLocked, compileUnlockDeferred⟩ sched)) ↔ compileLocked = true :=
  safe_iff_locked ⟨compileLocked, compileUnlockDeferred⟩

/-! ### a lock that is not released by `defer` leaks when a compilation panics -/

/-- After one session began and panicked under a lock WITHOUT deferred unlock, the system is stuck: whatever
any session does afterwards (every schedule), nobody ever becomes active again — every later API call blocks. -/
theorem leaked_lock_blocks_everyone (sched : List (Sess × Act)) :
    (runFrom ⟨true, false⟩ (run ⟨true, false⟩ crashOnce) sched).active = [] ∧
    (runFrom ⟨true, false⟩ (run ⟨true, false⟩ crashOnce) sched).log = [] := by
  have h0 : run ⟨true, false⟩ crashOnce = ⟨some 0, some 0, [], []⟩ := by decide
  rw [h0]
  have h : ∀ st : St, st.lock = some 0 → st.active = [] → st.log = [] →
      (runFrom ⟨true, false⟩ st sched).active = [] ∧ (runFrom ⟨true, false⟩ st sched).log = [] := by
    induction sched with
    | nil => intro st _ ha hg; exact ⟨ha, hg⟩
    | cons e es ih =>
      intro st hl ha hg
      obtain ⟨s, a⟩ := e
      have hs : step ⟨true, false⟩ st (s, a) = st := by
        cases a <;> simp [step, ha, hl]
      simp only [runFrom, foldl_cons, hs]
      exact ih st hl ha hg
  exact h _ rfl rfl rfl

/-- under the lock, only the holder is active (first component of `LockInv`, on its own) -/
theorem step_active_holds (d : Bool) (st : St) (e : Sess × Act)
    (h1 : ∀ s ∈ st.active, st.lock = some s) :
    ∀ s ∈ (step ⟨true, d⟩ st e).active, (step ⟨true, d⟩ st e).lock = some s := by
  obtain ⟨s, a⟩ := e
  cases a with
  | begin =>
    simp only [step]
    split
    · exact h1
    · cases hl : st.lock with
      | some t => simp; exact fun u hu => hl ▸ h1 u hu
      | none =>
        have hempty : st.active = [] := by
          cases hact : st.active with
          | nil => rfl
          | cons t ts =>
            have := h1 t (by simp [hact])
            simp [hl] at this
        simp [hempty]
  | read =>
    simp only [step]; split
    · exact h1
    · exact h1
  | finish =>
    simp only [step]; split
    · next hact =>
      intro t ht
      simp only [mem_filter, decide_eq_true_eq] at ht
      have := h1 t ht.1
      rw [h1 s hact] at this
      exact absurd (Option.some.inj this).symm ht.2
    · exact h1
  | crash =>
    simp only [step]; split
    · next hact =>
      intro t ht
      simp only [mem_filter, decide_eq_true_eq] at ht
      have := h1 t ht.1
      rw [h1 s hact] at this
      exact absurd (Option.some.inj this).symm ht.2
    · exact h1

/-- with deferred unlock, a held lock always belongs to an active session -/
theorem step_holder_active (st : St) (e : Sess × Act)
    (h : ∀ s, st.lock = some s → s ∈ st.active) (h1 : ∀ s ∈ st.active, st.lock = some s) :
    ∀ s, (step ⟨true, true⟩ st e).lock = some s → s ∈ (step ⟨true, true⟩ st e).active := by
  obtain ⟨s, a⟩ := e
  cases a with
  | begin =>
    simp only [step]
    split
    · exact h
    · cases hl : st.lock with
      | some t => simp; exact fun u hu => h u (hl ▸ hu)
      | none => simp
  | read =>
    simp only [step]; split
    · exact h
    · exact h
  | finish =>
    simp only [step]; split
    · next hact => intro u hu; simp [h1 s hact] at hu
    · exact h
  | crash =>
    simp only [step]; split
    · next hact => intro u hu; simp [h1 s hact] at hu
    · exact h

/-- With deferred unlock the lock is only ever held by an active session: when nobody is active the lock is
free, so the next `begin` succeeds — a panicking compilation cannot block the others. -/
theorem deferred_unlock_never_leaks (sched : List (Sess × Act)) :
    ∀ s, (run ⟨true, true⟩ sched).lock = some s → s ∈ (run ⟨true, true⟩ sched).active := by
  have h : ∀ st : St, (∀ s, st.lock = some s → s ∈ st.active) → (∀ s ∈ st.active, st.lock = some s) →
      (∀ s, (runFrom ⟨true, true⟩ st sched).lock = some s → s ∈ (runFrom ⟨true, true⟩ st sched).active) := by
    induction sched with
    | nil => intro st h _; exact h
    | cons e es ih =>
      intro st h h1
      simp only [runFrom, foldl_cons]
      exact ih _ (step_holder_active st e h h1) (step_active_holds true st e h1)
  exact h St.init (by intro s hs; cases hs) (by intro s hs; cases hs)

example : (run ⟨true, true⟩ (crashOnce ++ [(1, .begin), (1, .read)])).log = [(1, some 1)] ∧
    (run ⟨true, false⟩ (crashOnce ++ [(1, .begin), (1, .read)])).log = [] := by decide

/-- the regenerated lock facts obey the discipline "acquired ⇒ released by defer" (or the generator says they do not) -/
theorem lock_discipline_claim :
    lockDiscipline compileLockAcquired compileUnlockDeferred = claimLockDiscipline := by decide

/-- every package-level variable written after init in the anchored packages carries an audit verdict -/
theorem globals_accounted_claim : allGlobalsAccounted globals = claimGlobalsAccounted := by decide

end WaVerif.C28
