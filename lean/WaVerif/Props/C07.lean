import WaVerif.Model.C07Format
import WaVerif.Lemmas.C07
/-!
# C07 — property theorems (formatting algebra)

The layout engine is validated per input by the check (translation validation); these theorems are
the algebra that check relies on: the fixed-point clause follows from the round-trip clause, import
sorting is a sorted, idempotent rearrangement that loses no import and no comment, and tree equality
modulo import order is an equivalence that `SortImports` respects.
-/
namespace WaVerif.C07

/-- If printing a parsed tree gives text that parses to an equivalent tree, and the printer does not
distinguish equivalent trees, then formatting is idempotent: format (format s) = format s. -/
theorem idempotent_of_roundtrip {Src Ast : Type} (L : Lang Src Ast)
    (rt : RoundTrip L) (resp : PrintRespects L) : ∀ s, formatTwice L s = format L s := by
  intro s
  unfold formatTwice format
  cases h : L.parse s with
  | none => rfl
  | some t =>
    obtain ⟨t', hp, he⟩ := rt t ⟨s, h⟩
    simp [hp, resp t' t he]

/-- the hypotheses are satisfiable by a non-trivial language: sources are lists of naturals, trees
are sorted-free multisets represented by lists, printing sorts nothing but drops zeros -/
example : ∃ L : Lang (List Nat) (List Nat), RoundTrip L ∧ PrintRespects L ∧ format L [0, 3, 0, 1] = some [3, 1] :=
  ⟨{ parse := fun s => some (s.filter (· ≠ 0)), print := id, eqv := Eq },
   by
     intro t ⟨s, hs⟩
     refine ⟨t, ?_, rfl⟩
     simp only [Option.some.injEq] at hs
     subst hs
     simp [List.filter_filter],
   by intro t t' h; exact congrArg id h,
   by simp [format]⟩

/-- the fixed point in "result" form: whatever formatting returns is returned unchanged by formatting it again -/
theorem format_fixed_point {Src Ast : Type} (L : Lang Src Ast) (rt : RoundTrip L) (resp : PrintRespects L)
    (s out : Src) (h : format L s = some out) : format L out = some out := by
  have := idempotent_of_roundtrip L rt resp s
  simpa [formatTwice, h] using this

/-! ## import sorting -/

/-- sorting one run rearranges it (no spec is invented or lost by the sort itself) -/
theorem sortImports_perm (l : List Imp) : (sortRun l).Perm l := sortRun_perm l

/-- the de-duplication only removes: the result is a sub-list of the sorted run, every (path, name)
of the input is still imported, and a spec carrying a line comment is never removed -/
theorem sortImports_loses_nothing (l : List Imp) :
    (sortImports l).Sublist (sortRun l) ∧
    (∀ a ∈ l, ∃ b ∈ sortImports l, b.path = a.path ∧ b.name = a.name) ∧
    (∀ a ∈ l, a.comment ≠ 0 → a ∈ sortImports l) := by
  refine ⟨dedupRun_sublist _, ?_, ?_⟩
  · intro a ha
    exact dedupRun_covers ((sortRun_perm l).mem_iff.mpr ha)
  · intro a ha hc
    exact mem_dedupRun_of_comment ((sortRun_perm l).mem_iff.mpr ha) hc

/-- the result is sorted by (path, name, comment) -/
theorem sortImports_sorted (l : List Imp) : (sortImports l).Pairwise (fun a b => impLe a b = true) :=
  sorted_sublist (dedupRun_sublist _) (sorted_sortRun l)

/-- sorting imports twice is sorting them once -/
theorem sortImports_idem (l : List Imp) : sortImports (sortImports l) = sortImports l := by
  unfold sortImports
  rw [sortRun_of_sorted (sorted_sublist (dedupRun_sublist _) (sorted_sortRun l))]
  exact dedupRun_of_noCollapse (noCollapse_dedupRun _)

/-- without removable duplicates the result is a permutation of the input -/
theorem sortImports_perm_of_no_duplicates (l : List Imp) (h : NoCollapse (sortRun l)) :
    (sortImports l).Perm l := by
  unfold sortImports
  rw [dedupRun_of_noCollapse h]
  exact sortRun_perm l

example : NoCollapse (sortRun [⟨2, 0, 0⟩, ⟨1, 0, 0⟩, ⟨1, 5, 0⟩]) := by
  simp [sortRun, insertImp, impLe, NoCollapse, collapse]

example : sortImports [⟨2, 0, 0⟩, ⟨1, 0, 0⟩, ⟨2, 0, 7⟩, ⟨1, 0, 0⟩] = [⟨1, 0, 0⟩, ⟨2, 0, 7⟩] := by decide

/-! ## tree equality modulo import order -/

theorem astEq_equivalence {R : Type} :
    (∀ t : Tree R, astEq t t) ∧ (∀ t u : Tree R, astEq t u → astEq u t) ∧
    (∀ t u v : Tree R, astEq t u → astEq u v → astEq t v) :=
  ⟨fun _ => rfl, fun _ _ h => h.symm, fun _ _ _ h₁ h₂ => h₁.trans h₂⟩

theorem normalize_idem {R : Type} (t : Tree R) : t.normalize.normalize = t.normalize := by
  simp only [Tree.normalize, List.map_map]
  congr 1
  apply List.map_congr_left
  intro l _
  exact sortImports_idem l

/-- `SortImports` keeps the tree in its class: the sorted tree equals the original modulo import order -/
theorem astEq_respects_sortImports {R : Type} (t : Tree R) : astEq t.applySort t := normalize_idem t

/-- and it maps equivalent trees to equal trees (it computes the canonical representative) -/
theorem applySort_eq_of_astEq {R : Type} (t u : Tree R) (h : astEq t u) : t.applySort = u.applySort := h

/-- equivalent trees have the same rest (everything outside import runs is compared exactly) -/
theorem astEq_rest {R : Type} (t u : Tree R) (h : astEq t u) : t.rest = u.rest := by
  have := congrArg Tree.rest h
  simpa [Tree.normalize] using this

end WaVerif.C07
