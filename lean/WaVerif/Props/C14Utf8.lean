import WaVerif.Model.C14Hex
import WaVerif.Model.C14Utf8
/-!
# C14 — unicode/utf8: property theorems
`decodeRune` is the port's table-driven decoder (tables regenerated from utf8.wa); `decodeSpec`/`leadClass` is
Table 3-7 of the Unicode standard.
-/
set_option linter.unusedSimpArgs false
namespace WaVerif.C14
open WaVerif.C14.Gen

theorem utf8_constants : utf8RuneError = 0xFFFD ∧ utf8MaxRune = 0x10FFFF ∧ utf8SurrogateMin = 0xD800 ∧
    utf8SurrogateMax = 0xDFFF ∧ utf8Rune1Max = 0x7F ∧ utf8Rune2Max = 0x7FF ∧ utf8Rune3Max = 0xFFFF := by decide

set_option maxRecDepth 100000 in
/-- the `first` / `acceptRanges` tables of the source encode exactly Table 3-7: ASCII bytes are `as`, bytes that never
start a sequence are `xx`, every other byte carries its sequence length and the range of its second byte -/
theorem utf8_table_matches_standard : ∀ b, b < 256 → tableClass b = specClass b := by decide

/-- **invalid-sequence classification**: the table-driven decoder returns, for every byte string, what the standard's
table prescribes — the scalar value and length of a well-formed sequence at the head, (U+FFFD, 1) otherwise -/
theorem utf8_decode_eq_spec (p : List Nat) (hp : BytesOK p) : decodeRune p = decodeSpec p := by
  cases p with
  | nil => rfl
  | cons p0 rest =>
    have h0 : p0 < 256 := hp p0 (by simp)
    simp only [decodeRune, decodeSpec, decodeWith, utf8_table_matches_standard p0 h0]

/-- consequences of the classification: C0, C1, F5..FF and lone continuation bytes are always (U+FFFD, 1) -/
theorem utf8_decode_never_valid_lead (b : Nat) (rest : List Nat) (hb : b < 256) (hp : BytesOK rest)
    (h : (0x80 ≤ b ∧ b ≤ 0xC1) ∨ 0xF5 ≤ b) : decodeRune (b :: rest) = (0xFFFD, 1) := by
  rw [utf8_decode_eq_spec _ (by intro x hx; simp at hx; rcases hx with rfl | hx; exact hb; exact hp x hx)]
  have hl : leadClass b = none := by
    unfold leadClass
    have c1 : ¬ (0xC2 ≤ b ∧ b ≤ 0xDF) := by omega
    have c2 : ¬ (b = 0xE0) := by omega
    have c3 : ¬ ((0xE1 ≤ b ∧ b ≤ 0xEC) ∨ b = 0xEE ∨ b = 0xEF) := by omega
    have c4 : ¬ (b = 0xED) := by omega
    have c5 : ¬ (b = 0xF0) := by omega
    have c6 : ¬ (0xF1 ≤ b ∧ b ≤ 0xF3) := by omega
    have c7 : ¬ (b = 0xF4) := by omega
    simp only [c1, c2, c3, c4, c5, c6, c7, if_false]
  have : ¬ (b < 0x80) := by omega
  simp [decodeSpec, decodeWith, specClass, this, hl, utf8_constants.1]

/-- a valid scalar value: not negative, not a surrogate, at most U+10FFFF -/
def ValidScalar (r : Int) : Prop := (0 ≤ r ∧ r < 0xD800) ∨ (0xDFFF < r ∧ r ≤ 0x10FFFF)

instance (r : Int) : Decidable (ValidScalar r) := by unfold ValidScalar; infer_instance

example : ValidScalar 0x1F600 := by decide

theorem validRune_iff (r : Int) : validRune r = true ↔ ValidScalar r := by
  simp [validRune, ValidScalar, utf8_constants]

theorem runeLen_eq_neg_one_iff (r : Int) : runeLen r = -1 ↔ ¬ ValidScalar r := by
  obtain ⟨_, hm, hs1, hs2, h1, h2, h3⟩ := utf8_constants
  unfold runeLen ValidScalar
  simp only [hm, hs1, hs2, h1, h2, h3]
  split
  · omega
  · split
    · omega
    · split
      · omega
      · split
        · omega
        · split
          · omega
          · split <;> omega

/-- the encoder produces `RuneLen` bytes, each a byte -/
theorem utf8_encode_length (r : Int) (h : ValidScalar r) :
    ((encodeRune r).length : Int) = runeLen r ∧ BytesOK (encodeRune r) := by
  obtain ⟨_, hm, hs1, hs2, h1, h2, h3⟩ := utf8_constants
  have hi : (r % 2 ^ 32).toNat = r.toNat := by
    unfold ValidScalar at h
    have : r % 2 ^ 32 = r := Int.emod_eq_of_lt (by omega) (by omega)
    rw [this]
  unfold encodeRune runeLen ValidScalar at *
  simp only [hi, hm, hs1, hs2, h1, h2, h3, enc3]
  have hr : (r.toNat : Int) = r := by omega
  by_cases c1 : r.toNat ≤ 0x7F
  · simp only [c1, if_true]
    refine ⟨by simp; split <;> omega, ?_⟩
    intro b hb; simp at hb; omega
  · simp only [c1, if_false]
    by_cases c2 : r.toNat ≤ 0x7FF
    · simp only [c2, if_true]
      refine ⟨by simp; (repeat' split) <;> omega, ?_⟩
      intro b hb; simp at hb; omega
    · simp only [c2, if_false]
      have c3 : ¬ (r.toNat > 0x10FFFF ∨ (0xD800 ≤ r.toNat ∧ r.toNat ≤ 0xDFFF)) := by omega
      simp only [c3, if_false]
      by_cases c4 : r.toNat ≤ 0xFFFF
      · simp only [c4, if_true]
        refine ⟨by simp; (repeat' split) <;> omega, ?_⟩
        intro b hb; simp at hb; omega
      · simp only [c4, if_false]
        refine ⟨by simp; (repeat' split) <;> omega, ?_⟩
        intro b hb; simp at hb; omega

/-- invalid runes (negative, surrogates, above U+10FFFF) are encoded as U+FFFD = EF BF BD -/
theorem utf8_encode_invalid (r : Int) (hlo : -(2 : Int) ^ 31 ≤ r) (hhi : r < (2 : Int) ^ 31) (h : ¬ ValidScalar r) :
    encodeRune r = [0xEF, 0xBF, 0xBD] := by
  obtain ⟨he, hm, hs1, hs2, h1, h2, h3⟩ := utf8_constants
  unfold ValidScalar at h
  unfold encodeRune
  simp only [he, hm, hs1, hs2, h1, h2, h3, enc3]
  by_cases hneg : r < 0
  · have e32 : (2 : Int) ^ 32 = 4294967296 := by decide
    have : (r % 2 ^ 32).toNat = (r + 2 ^ 32).toNat := by
      have : r % 2 ^ 32 = r + 2 ^ 32 := by
        rw [e32]; omega
      rw [this]
    rw [this]
    have hbig : (r + 2 ^ 32).toNat > 0x10FFFF := by omega
    have c1 : ¬ ((r + 2 ^ 32).toNat ≤ 0x7F) := by omega
    have c2 : ¬ ((r + 2 ^ 32).toNat ≤ 0x7FF) := by omega
    simp only [c1, c2, if_false, hbig, true_or, if_true]
  · have : (r % 2 ^ 32).toNat = r.toNat := by
      have : r % 2 ^ 32 = r := Int.emod_eq_of_lt (by omega) (by omega)
      rw [this]
    rw [this]
    have c1 : ¬ (r.toNat ≤ 0x7F) := by omega
    have c2 : ¬ (r.toNat ≤ 0x7FF) := by omega
    have c3 : (r.toNat > 0x10FFFF ∨ (0xD800 ≤ r.toNat ∧ r.toNat ≤ 0xDFFF)) := by omega
    simp only [c1, c2, if_false, c3, if_true]

/-- **round trip**: decoding the encoding of any valid scalar value, followed by arbitrary bytes, gives the value and
its length back -/
theorem utf8_decode_encode (r : Int) (rest : List Nat) (h : ValidScalar r) (hrest : BytesOK rest) :
    decodeRune (encodeRune r ++ rest) = (r.toNat, (runeLen r).toNat) := by
  have hbytes : BytesOK (encodeRune r ++ rest) := by
    intro b hb
    rcases List.mem_append.mp hb with hb | hb
    · exact (utf8_encode_length r h).2 b hb
    · exact hrest b hb
  rw [utf8_decode_eq_spec _ hbytes]
  obtain ⟨he, hm, hs1, hs2, h1, h2, h3⟩ := utf8_constants
  have hi : (r % 2 ^ 32).toNat = r.toNat := by
    unfold ValidScalar at h
    have : r % 2 ^ 32 = r := Int.emod_eq_of_lt (by omega) (by omega)
    rw [this]
  unfold ValidScalar at h
  unfold encodeRune runeLen
  simp only [hi, hm, hs1, hs2, h1, h2, h3, enc3]
  generalize hn : r.toNat = i
  have hri : r = (i : Int) := by omega
  subst hri
  simp only [Int.toNat_natCast] at *
  by_cases c1 : i ≤ 0x7F
  · have c1' : ((i : Int) ≤ 127) := by omega
    have c0 : ¬ ((i : Int) < 0) := by omega
    have hlt : i < 0x80 := by omega
    simp [c1, c0, c1', decodeSpec, decodeWith, specClass, hlt]
  · simp only [c1, if_false]
    by_cases c2 : i ≤ 0x7FF
    · have c0 : ¬ ((i : Int) < 0) := by omega
      have c1' : ¬ ((i : Int) ≤ 127) := by omega
      have c2' : ((i : Int) ≤ 2047) := by omega
      simp only [c2, if_true, c0, c1', c2', if_false]
      have hl : leadClass (192 + i / 64) = some (2, 0x80, 0xBF) := by
        unfold leadClass
        have : 0xC2 ≤ 192 + i / 64 ∧ 192 + i / 64 ≤ 0xDF := by omega
        simp only [this, and_self, if_true]
      have hna : ¬ (192 + i / 64 < 0x80) := by omega
      simp only [List.cons_append, List.nil_append, decodeSpec, decodeWith, specClass, hna, if_false, hl, decodeTail]
      have l1 : ¬ (((128 + i % 64) :: rest).length + 1 < 2) := by simp
      have l2 : ¬ (128 + i % 64 < 0x80 ∨ 0xBF < 128 + i % 64) := by omega
      simp only [l1, l2, if_false, Nat.le_refl, if_true]
      simp
      omega
    · simp only [c2, if_false]
      have c3 : ¬ (i > 0x10FFFF ∨ (0xD800 ≤ i ∧ i ≤ 0xDFFF)) := by omega
      simp only [c3, if_false]
      have c0 : ¬ ((i : Int) < 0) := by omega
      have c1' : ¬ ((i : Int) ≤ 127) := by omega
      have c2' : ¬ ((i : Int) ≤ 2047) := by omega
      have cs : ¬ ((55296 : Int) ≤ i ∧ (i : Int) ≤ 57343) := by omega
      by_cases c4 : i ≤ 0xFFFF
      · have c4' : ((i : Int) ≤ 65535) := by omega
        simp only [c4, if_true, c0, c1', c2', cs, c4', if_false]
        have hna : ¬ (224 + i / 4096 < 0x80) := by omega
        simp only [List.cons_append, List.nil_append, decodeSpec, decodeWith, specClass, hna, if_false]
        have hq : i / 4096 ≤ 15 := by omega
        -- the second-byte range depends on the first byte
        have hl : ∃ lo hi, leadClass (224 + i / 4096) = some (3, lo, hi) ∧ lo ≤ 128 + i / 64 % 64 ∧ 128 + i / 64 % 64 ≤ hi := by
          by_cases q0 : i / 4096 = 0
          · refine ⟨0xA0, 0xBF, ?_, by omega, by omega⟩
            have e : 224 + i / 4096 = 0xE0 := by omega
            rw [e]; decide
          · by_cases q13 : i / 4096 = 13
            · refine ⟨0x80, 0x9F, ?_, by omega, by omega⟩
              have e : 224 + i / 4096 = 0xED := by omega
              rw [e]; decide
            · refine ⟨0x80, 0xBF, ?_, by omega, by omega⟩
              unfold leadClass
              have n1 : ¬ (0xC2 ≤ 224 + i / 4096 ∧ 224 + i / 4096 ≤ 0xDF) := by omega
              have n2 : ¬ (224 + i / 4096 = 0xE0) := by omega
              have n3 : ((0xE1 ≤ 224 + i / 4096 ∧ 224 + i / 4096 ≤ 0xEC) ∨ 224 + i / 4096 = 0xEE ∨ 224 + i / 4096 = 0xEF) := by omega
              simp only [n1, n2, n3, if_false, if_true]
        obtain ⟨lo, hi, hl, hlo, hhi⟩ := hl
        simp only [hl, decodeTail]
        have l1 : ¬ (((128 + i / 64 % 64) :: (128 + i % 64) :: rest).length + 1 < 3) := by simp
        have l2 : ¬ (128 + i / 64 % 64 < lo ∨ hi < 128 + i / 64 % 64) := by omega
        have l3 : ¬ (3 ≤ 2) := by omega
        have l4 : ¬ (128 + i % 64 < 128 ∨ 191 < 128 + i % 64) := by omega
        simp only [l1, l2, l3, l4, if_false, Nat.le_refl, if_true]
        simp
        omega
      · have c4' : ¬ ((i : Int) ≤ 65535) := by omega
        have c5' : ((i : Int) ≤ 1114111) := by omega
        simp only [c4, c0, c1', c2', cs, c4', c5', if_false, if_true]
        have hna : ¬ (240 + i / 262144 < 0x80) := by omega
        simp only [List.cons_append, List.nil_append, decodeSpec, decodeWith, specClass, hna, if_false]
        have hq : i / 262144 ≤ 4 := by omega
        have hl : ∃ lo hi, leadClass (240 + i / 262144) = some (4, lo, hi) ∧ lo ≤ 128 + i / 4096 % 64 ∧ 128 + i / 4096 % 64 ≤ hi := by
          by_cases q0 : i / 262144 = 0
          · refine ⟨0x90, 0xBF, ?_, by omega, by omega⟩
            have e : 240 + i / 262144 = 0xF0 := by omega
            rw [e]; decide
          · by_cases q4 : i / 262144 = 4
            · refine ⟨0x80, 0x8F, ?_, by omega, by omega⟩
              have e : 240 + i / 262144 = 0xF4 := by omega
              rw [e]; decide
            · refine ⟨0x80, 0xBF, ?_, by omega, by omega⟩
              unfold leadClass
              have n1 : ¬ (0xC2 ≤ 240 + i / 262144 ∧ 240 + i / 262144 ≤ 0xDF) := by omega
              have n2 : ¬ (240 + i / 262144 = 0xE0) := by omega
              have n3 : ¬ ((0xE1 ≤ 240 + i / 262144 ∧ 240 + i / 262144 ≤ 0xEC) ∨ 240 + i / 262144 = 0xEE ∨ 240 + i / 262144 = 0xEF) := by omega
              have n4 : ¬ (240 + i / 262144 = 0xED) := by omega
              have n5 : ¬ (240 + i / 262144 = 0xF0) := by omega
              have n6 : (0xF1 ≤ 240 + i / 262144 ∧ 240 + i / 262144 ≤ 0xF3) := by omega
              simp only [n1, n2, n3, n4, n5, n6, if_false, and_self, if_true]
        obtain ⟨lo, hi, hl, hlo, hhi⟩ := hl
        simp only [hl, decodeTail]
        have l1 : ¬ (((128 + i / 4096 % 64) :: (128 + i / 64 % 64) :: (128 + i % 64) :: rest).length + 1 < 4) := by simp
        have l2 : ¬ (128 + i / 4096 % 64 < lo ∨ hi < 128 + i / 4096 % 64) := by omega
        have l3 : ¬ (4 ≤ 2) := by omega
        have l4 : ¬ (128 + i / 64 % 64 < 128 ∨ 191 < 128 + i / 64 % 64) := by omega
        have l5 : ¬ (4 ≤ 3) := by omega
        have l6 : ¬ (128 + i % 64 < 128 ∨ 191 < 128 + i % 64) := by omega
        simp only [l1, l2, l3, l4, l5, l6, if_false]
        simp
        omega

example : decodeRune (encodeRune 0x1F600 ++ [0xFF]) = (0x1F600, 4) := by decide
example : decodeRune [0xED, 0xA0, 0x80] = (0xFFFD, 1) := by decide
example : decodeRune [0xC0, 0x80] = (0xFFFD, 1) := by decide

end WaVerif.C14
