import WaVerif.Model.C02Spec
import WaVerif.Gen.C02Templates
import WaVerif.Lemmas.C02Tac
set_option linter.unusedSimpArgs false
set_option linter.unusedVariables false
set_option maxRecDepth 4000
/-! One theorem per row of the regenerated x86-64 template table (statement fixed by the instruction name). -/
namespace WaVerif.C02.Rows
open WaVerif WaVerif.X64 WaVerif.C02 WaVerif.Gen.C02

theorem i32_div_s_ok : BinRow32 .div_s i32_div_s := by
  refine ⟨by decide, ?_⟩
  intro s
  by_cases hd : BitVec.setWidth 32 (s.slots i32_div_s.y) = 0#32
  · obtain ⟨rax, rcx, rdx, rbx, rsi, rdi, r8, r9, r10, r11, r12, r13, r14, r15, flags, slots, stk⟩ := s
    simp only [i32_div_s] at hd
    unfold i32_div_s
    x64_simp
    simp [hd]
    x64_finish

  · by_cases hov : BitVec.setWidth 32 (s.slots i32_div_s.x) = 2147483648#32 ∧ BitVec.setWidth 32 (s.slots i32_div_s.y) = 4294967295#32
    · obtain ⟨rax, rcx, rdx, rbx, rsi, rdi, r8, r9, r10, r11, r12, r13, r14, r15, flags, slots, stk⟩ := s
      simp only [i32_div_s] at hd hov
      unfold i32_div_s
      x64_simp
      simp [hd, hov]
      x64_finish

    · obtain ⟨rax, rcx, rdx, rbx, rsi, rdi, r8, r9, r10, r11, r12, r13, r14, r15, flags, slots, stk⟩ := s
      simp only [i32_div_s] at hd hov
      unfold i32_div_s
      x64_simp
      simp [hd, hov]
      x64_finish

theorem i32_ge_s_ok : RelRow32 .ge_s i32_ge_s := by
  refine ⟨by decide, ?_⟩
  intro s
  obtain ⟨rax, rcx, rdx, rbx, rsi, rdi, r8, r9, r10, r11, r12, r13, r14, r15, flags, slots, stk⟩ := s
  unfold i32_ge_s
  x64_simp
  x64_finish

theorem i64_add_ok : BinRow64 .add i64_add := by
  refine ⟨by decide, ?_⟩
  intro s
  obtain ⟨rax, rcx, rdx, rbx, rsi, rdi, r8, r9, r10, r11, r12, r13, r14, r15, flags, slots, stk⟩ := s
  unfold i64_add
  x64_simp
  x64_finish

theorem i64_rem_u_ok : BinRow64 .rem_u i64_rem_u := by
  refine ⟨by decide, ?_⟩
  intro s
  by_cases hd : s.slots i64_rem_u.y = 0#64
  · obtain ⟨rax, rcx, rdx, rbx, rsi, rdi, r8, r9, r10, r11, r12, r13, r14, r15, flags, slots, stk⟩ := s
    simp only [i64_rem_u] at hd
    unfold i64_rem_u
    x64_simp
    simp [hd]
    x64_finish

  · obtain ⟨rax, rcx, rdx, rbx, rsi, rdi, r8, r9, r10, r11, r12, r13, r14, r15, flags, slots, stk⟩ := s
    simp only [i64_rem_u] at hd
    unfold i64_rem_u
    x64_simp
    simp [hd]
    x64_finish

theorem i64_ne_ok : RelRow64 .ne i64_ne := by
  refine ⟨by decide, ?_⟩
  intro s
  obtain ⟨rax, rcx, rdx, rbx, rsi, rdi, r8, r9, r10, r11, r12, r13, r14, r15, flags, slots, stk⟩ := s
  unfold i64_ne
  x64_simp
  x64_finish

theorem i64_gt_u_ok : RelRow64 .gt_u i64_gt_u := by
  refine ⟨by decide, ?_⟩
  intro s
  obtain ⟨rax, rcx, rdx, rbx, rsi, rdi, r8, r9, r10, r11, r12, r13, r14, r15, flags, slots, stk⟩ := s
  unfold i64_gt_u
  x64_simp
  x64_finish

theorem i64_clz_ok : UnRow64 .clz i64_clz := by
  intro s
  obtain ⟨rax, rcx, rdx, rbx, rsi, rdi, r8, r9, r10, r11, r12, r13, r14, r15, flags, slots, stk⟩ := s
  unfold i64_clz
  x64_simp
  x64_finish

theorem select_i32_ok : SelectRow32 select_i32 select_i32_c := by
  refine ⟨by decide, by decide, by decide, ?_⟩
  intro s
  obtain ⟨rax, rcx, rdx, rbx, rsi, rdi, r8, r9, r10, r11, r12, r13, r14, r15, flags, slots, stk⟩ := s
  unfold select_i32 select_i32_c
  x64_simp
  x64_finish

end WaVerif.C02.Rows
