import WaVerif.Model.C14Hex
import WaVerif.Model.C14B32
/-!
# C14 — encoding/base32: round trip and length formula for the two standard alphabets (regenerated)
-/
set_option linter.unusedSimpArgs false
namespace WaVerif.C14
open WaVerif.C14.Gen

/-- 32 symbols that decode back to their index; none is a line break or '=' -/
def Alphabet32OK (e : B64Enc) : Prop :=
  ∀ i, i < 32 → b64Val e (b64Sym e i) = some i ∧ b64Sym e i ≠ 10 ∧ b64Sym e i ≠ 13 ∧ b64Sym e i ≠ 61

instance (e : B64Enc) : Decidable (Alphabet32OK e) := by unfold Alphabet32OK; infer_instance

set_option maxRecDepth 100000 in
theorem alphabets32_ok : Alphabet32OK enc32Std ∧ Alphabet32OK enc32Hex := by decide

theorem padTail_pads : padTail 5 (b32Pads 5) = true ∧ padTail 3 (b32Pads 3) = true ∧ padTail 2 (b32Pads 2) = true ∧
    padTail 0 (b32Pads 0) = true := by decide

theorem b32_decodeCore_encode (e : B64Enc) (h : Alphabet32OK e) (bs : List Nat) (hb : BytesOK bs) :
    ∀ fuel, bs.length < fuel → b32DecodeCore e fuel (b32Encode e bs) = some bs := by
  fun_induction b32Encode e bs with
  | case1 =>
    intro fuel hf
    cases fuel with
    | zero => omega
    | succ f => simp [b32DecodeCore]
  | case2 a =>
    intro fuel hf
    cases fuel with
    | zero => omega
    | succ f =>
      have ha : a < 256 := hb a (by simp)
      obtain ⟨v0, _, _, _⟩ := h (a / 8) (by omega)
      obtain ⟨v1, _, _, _⟩ := h (a % 8 * 4) (by omega)
      have e6 : b32Pads 6 = 61 :: b32Pads 5 := rfl
      simp only [e6, List.cons_append, List.nil_append, b32DecodeCore, v0, v1, if_true, padTail_pads.1]
      simp; omega
  | case3 a b =>
    intro fuel hf
    cases fuel with
    | zero => omega
    | succ f =>
      have ha : a < 256 := hb a (by simp)
      have hb' : b < 256 := hb b (by simp)
      obtain ⟨v0, _, _, _⟩ := h (a / 8) (by omega)
      obtain ⟨v1, _, _, _⟩ := h (a % 8 * 4 + b / 64) (by omega)
      obtain ⟨v2, _, _, n2⟩ := h (b / 2 % 32) (by omega)
      obtain ⟨v3, _, _, _⟩ := h (b % 2 * 16) (by omega)
      have e4 : b32Pads 4 = 61 :: b32Pads 3 := rfl
      simp only [e4, List.cons_append, List.nil_append, b32DecodeCore, v0, v1, v2, v3, n2, if_false, if_true, padTail_pads.2.1]
      simp; omega
  | case4 a b c =>
    intro fuel hf
    cases fuel with
    | zero => omega
    | succ f =>
      have ha : a < 256 := hb a (by simp)
      have hb' : b < 256 := hb b (by simp)
      have hc : c < 256 := hb c (by simp)
      obtain ⟨v0, _, _, _⟩ := h (a / 8) (by omega)
      obtain ⟨v1, _, _, _⟩ := h (a % 8 * 4 + b / 64) (by omega)
      obtain ⟨v2, _, _, n2⟩ := h (b / 2 % 32) (by omega)
      obtain ⟨v3, _, _, _⟩ := h (b % 2 * 16 + c / 16) (by omega)
      obtain ⟨v4, _, _, n4⟩ := h (c % 16 * 2) (by omega)
      have e3 : b32Pads 3 = 61 :: b32Pads 2 := rfl
      simp only [e3, List.cons_append, List.nil_append, b32DecodeCore, v0, v1, v2, v3, v4, n2, n4, if_false, if_true, padTail_pads.2.2.1]
      simp; omega
  | case5 a b c d =>
    intro fuel hf
    cases fuel with
    | zero => omega
    | succ f =>
      have ha : a < 256 := hb a (by simp)
      have hb' : b < 256 := hb b (by simp)
      have hc : c < 256 := hb c (by simp)
      have hd : d < 256 := hb d (by simp)
      obtain ⟨v0, _, _, _⟩ := h (a / 8) (by omega)
      obtain ⟨v1, _, _, _⟩ := h (a % 8 * 4 + b / 64) (by omega)
      obtain ⟨v2, _, _, n2⟩ := h (b / 2 % 32) (by omega)
      obtain ⟨v3, _, _, _⟩ := h (b % 2 * 16 + c / 16) (by omega)
      obtain ⟨v4, _, _, n4⟩ := h (c % 16 * 2 + d / 128) (by omega)
      obtain ⟨v5, _, _, n5⟩ := h (d / 4 % 32) (by omega)
      obtain ⟨v6, _, _, _⟩ := h (d % 4 * 8) (by omega)
      have e1 : b32Pads 1 = 61 :: b32Pads 0 := rfl
      simp only [e1, List.cons_append, List.nil_append, b32DecodeCore, v0, v1, v2, v3, v4, v5, v6, n2, n4, n5, if_false, if_true, padTail_pads.2.2.2]
      simp; omega
  | case6 a b c d f rest ih =>
    intro fuel hf
    cases fuel with
    | zero => omega
    | succ k =>
      have ha : a < 256 := hb a (by simp)
      have hb' : b < 256 := hb b (by simp)
      have hc : c < 256 := hb c (by simp)
      have hd : d < 256 := hb d (by simp)
      have hf' : f < 256 := hb f (by simp)
      have hrest : BytesOK rest := fun x hx => hb x (by simp [hx])
      obtain ⟨v0, _, _, _⟩ := h (a / 8) (by omega)
      obtain ⟨v1, _, _, _⟩ := h (a % 8 * 4 + b / 64) (by omega)
      obtain ⟨v2, _, _, n2⟩ := h (b / 2 % 32) (by omega)
      obtain ⟨v3, _, _, _⟩ := h (b % 2 * 16 + c / 16) (by omega)
      obtain ⟨v4, _, _, n4⟩ := h (c % 16 * 2 + d / 128) (by omega)
      obtain ⟨v5, _, _, n5⟩ := h (d / 4 % 32) (by omega)
      obtain ⟨v6, _, _, _⟩ := h (d % 4 * 8 + f / 32) (by omega)
      obtain ⟨v7, _, _, n7⟩ := h (f % 32) (by omega)
      have hk : rest.length < k := by simp at hf; omega
      simp only [b32DecodeCore, v0, v1, v2, v3, v4, v5, v6, v7, n2, n4, n5, n7, if_false, ih hrest k hk]
      simp; omega

theorem b32_encode_length (e : B64Enc) (bs : List Nat) : (b32Encode e bs).length = b32EncodedLen bs.length := by
  fun_induction b32Encode e bs with
  | case1 => rfl
  | case2 a => simp [b32Pads, b32EncodedLen]
  | case3 a b => simp [b32Pads, b32EncodedLen]
  | case4 a b c => simp [b32Pads, b32EncodedLen]
  | case5 a b c d => simp [b32Pads, b32EncodedLen]
  | case6 a b c d f rest ih => simp only [List.length_cons, ih, b32EncodedLen]; omega

theorem b32_encode_no_newline (e : B64Enc) (h : Alphabet32OK e) (bs : List Nat) (hb : BytesOK bs) :
    ∀ c ∈ b32Encode e bs, c ≠ 10 ∧ c ≠ 13 := by
  have hp : ∀ n c, c ∈ b32Pads n → c ≠ 10 ∧ c ≠ 13 := by
    intro n c hc; simp [b32Pads] at hc; omega
  have hs : ∀ i, i < 32 → b64Sym e i ≠ 10 ∧ b64Sym e i ≠ 13 := fun i hi => ⟨(h i hi).2.1, (h i hi).2.2.1⟩
  fun_induction b32Encode e bs with
  | case1 => intro c hc; simp at hc
  | case2 a =>
    have ha : a < 256 := hb a (by simp)
    intro c hc
    simp only [List.cons_append, List.nil_append, List.mem_cons] at hc
    rcases hc with rfl | rfl | hc
    · exact hs _ (by omega)
    · exact hs _ (by omega)
    · exact hp 6 c hc
  | case3 a b =>
    have ha : a < 256 := hb a (by simp)
    have hb' : b < 256 := hb b (by simp)
    intro c hc
    simp only [List.cons_append, List.nil_append, List.mem_cons] at hc
    rcases hc with rfl | rfl | rfl | rfl | hc
    · exact hs _ (by omega)
    · exact hs _ (by omega)
    · exact hs _ (by omega)
    · exact hs _ (by omega)
    · exact hp 4 c hc
  | case4 a b c =>
    have ha : a < 256 := hb a (by simp)
    have hb' : b < 256 := hb b (by simp)
    have hc' : c < 256 := hb c (by simp)
    intro x hx
    simp only [List.cons_append, List.nil_append, List.mem_cons] at hx
    rcases hx with rfl | rfl | rfl | rfl | rfl | hx
    · exact hs _ (by omega)
    · exact hs _ (by omega)
    · exact hs _ (by omega)
    · exact hs _ (by omega)
    · exact hs _ (by omega)
    · exact hp 3 x hx
  | case5 a b c d =>
    have ha : a < 256 := hb a (by simp)
    have hb' : b < 256 := hb b (by simp)
    have hc' : c < 256 := hb c (by simp)
    have hd : d < 256 := hb d (by simp)
    intro x hx
    simp only [List.cons_append, List.nil_append, List.mem_cons] at hx
    rcases hx with rfl | rfl | rfl | rfl | rfl | rfl | rfl | hx
    · exact hs _ (by omega)
    · exact hs _ (by omega)
    · exact hs _ (by omega)
    · exact hs _ (by omega)
    · exact hs _ (by omega)
    · exact hs _ (by omega)
    · exact hs _ (by omega)
    · exact hp 1 x hx
  | case6 a b c d f rest ih =>
    have ha : a < 256 := hb a (by simp)
    have hb' : b < 256 := hb b (by simp)
    have hc' : c < 256 := hb c (by simp)
    have hd : d < 256 := hb d (by simp)
    have hf : f < 256 := hb f (by simp)
    have hrest : BytesOK rest := fun x hx => hb x (by simp [hx])
    intro x hx
    simp only [List.mem_cons] at hx
    rcases hx with rfl | rfl | rfl | rfl | rfl | rfl | rfl | rfl | hx
    · exact hs _ (by omega)
    · exact hs _ (by omega)
    · exact hs _ (by omega)
    · exact hs _ (by omega)
    · exact hs _ (by omega)
    · exact hs _ (by omega)
    · exact hs _ (by omega)
    · exact hs _ (by omega)
    · exact ih hrest x hx

/-- **round trip**: `DecodeString(EncodeToString(b)) = b, nil` for both standard base32 alphabets -/
theorem b32_decode_encode (e : B64Enc) (h : Alphabet32OK e) (bs : List Nat) (hb : BytesOK bs) :
    b32Decode e (b32Encode e bs) = some bs := by
  unfold b32Decode stripNewlines
  have : (b32Encode e bs).filter (fun c => c != 10 && c != 13) = b32Encode e bs := by
    apply List.filter_eq_self.mpr
    intro c hc
    have := b32_encode_no_newline e h bs hb c hc
    simp [this.1, this.2]
  simp only [this]
  apply b32_decodeCore_encode e h bs hb
  rw [b32_encode_length]
  simp only [b32EncodedLen]; omega

theorem b32_decode_encode_std (bs : List Nat) (hb : BytesOK bs) :
    b32Decode enc32Std (b32Encode enc32Std bs) = some bs ∧ b32Decode enc32Hex (b32Encode enc32Hex bs) = some bs :=
  ⟨b32_decode_encode _ alphabets32_ok.1 bs hb, b32_decode_encode _ alphabets32_ok.2 bs hb⟩

example : b32Encode enc32Std [102, 111, 111] = [77, 90, 88, 87, 54, 61, 61, 61] := by decide
example : b32Decode enc32Std [77, 90, 88, 87, 54, 61, 61, 61] = some [102, 111, 111] := by decide
example : b32Decode enc32Std [77, 90, 88, 87, 54, 61, 61] = none := by decide

end WaVerif.C14
