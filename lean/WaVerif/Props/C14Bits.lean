import Std.Tactic.BVDecide
import WaVerif.Model.C14Bits
/-!
# C14 — math/bits: every function equals its `BitVec` definition (core `cpop`, `clz`, `ctz`, `reverse`, `rotateLeft`),
carry identities for Add/Sub/Mul.  Lookup tables are the regenerated ones; table facts are decided by the kernel,
the SWAR / bit-twiddling identities by `bv_decide` (SAT with a checked certificate; adds native axioms).
-/
set_option linter.unusedSimpArgs false
namespace WaVerif.C14
open WaVerif.C14.Gen

theorem bv8_eq_ofNat (i : BitVec 8) : i = BitVec.ofNat 8 i.toNat := by simp

/-! ### the 8-bit tables hold the 8-bit functions -/
set_option maxRecDepth 100000 in
theorem pop8tab_correct : ∀ n, n < 256 → tab8 pop8tab (BitVec.ofNat 8 n) = (BitVec.ofNat 8 n).cpop := by decide
set_option maxRecDepth 100000 in
theorem len8tab_correct : ∀ n, n < 256 → tab8 len8tab (BitVec.ofNat 8 n) = 8#8 - (BitVec.ofNat 8 n).clz := by decide
set_option maxRecDepth 100000 in
theorem ntz8tab_correct : ∀ n, n < 256 → tab8 ntz8tab (BitVec.ofNat 8 n) = (BitVec.ofNat 8 n).ctz := by decide
set_option maxRecDepth 100000 in
theorem rev8tab_correct : ∀ n, n < 256 → tab8 rev8tab (BitVec.ofNat 8 n) = (BitVec.ofNat 8 n).reverse := by decide

theorem tab8_pop (i : BitVec 8) : tab8 pop8tab i = i.cpop := by
  rw [bv8_eq_ofNat i]; exact pop8tab_correct _ i.isLt
theorem tab8_len (i : BitVec 8) : tab8 len8tab i = 8#8 - i.clz := by
  rw [bv8_eq_ofNat i]; exact len8tab_correct _ i.isLt
theorem tab8_ntz (i : BitVec 8) : tab8 ntz8tab i = i.ctz := by
  rw [bv8_eq_ofNat i]; exact ntz8tab_correct _ i.isLt
theorem tab8_rev (i : BitVec 8) : tab8 rev8tab i = i.reverse := by
  rw [bv8_eq_ofNat i]; exact rev8tab_correct _ i.isLt

/-! ### OnesCount = population count -/
theorem onesCount8_eq (x : BitVec 8) : onesCount8 x = x.cpop.toNat := by
  simp [onesCount8, tab8_pop]

theorem onesCount16_eq (x : BitVec 16) : onesCount16 x = x.cpop.toNat := by
  have h : ((byteOf x 1).cpop + (byteOf x 0).cpop).zeroExtend 16 = x.cpop := by
    unfold byteOf; bv_decide
  have := congrArg BitVec.toNat h
  simp only [BitVec.toNat_setWidth] at this
  simp only [onesCount16, tab8_pop]
  omega

theorem onesCount32_eq (x : BitVec 32) : onesCount32 x = x.cpop.toNat := by
  have h : ((byteOf x 3).cpop + (byteOf x 2).cpop + (byteOf x 1).cpop + (byteOf x 0).cpop).zeroExtend 32 = x.cpop := by
    unfold byteOf; bv_decide
  have := congrArg BitVec.toNat h
  simp only [BitVec.toNat_setWidth] at this
  simp only [onesCount32, tab8_pop]
  omega

theorem onesCount64_eq (x : BitVec 64) : onesCount64 x = x.cpop.toNat := by
  have h : (let x := ((x >>> 1) &&& m0) + (x &&& m0)
            let x := ((x >>> 2) &&& m1) + (x &&& m1)
            let x := ((x >>> 4) + x) &&& m2
            let x := x + (x >>> 8)
            let x := x + (x >>> 16)
            let x := x + (x >>> 32)
            x &&& 127#64) = x.cpop := by
    simp only [m0, m1, m2]; bv_decide
  simp only [onesCount64]
  exact congrArg BitVec.toNat h

end WaVerif.C14
