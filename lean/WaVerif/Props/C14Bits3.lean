import Std.Tactic.BVDecide
import WaVerif.Props.C14Bits2
/-!
# C14 — math/bits, part 3: Len32/64, LeadingZeros, TrailingZeros (de Bruijn), Mul
-/
set_option linter.unusedSimpArgs false
namespace WaVerif.C14
open WaVerif.C14.Gen

theorem clz8_le (b : BitVec 8) : b.clz.toNat ≤ 8 := by
  have : b.clz ≤ 8#8 := by bv_decide
  simpa [BitVec.le_def] using this

/-- the 32-bit length computation as one bit-vector expression -/
def len32bv (x : BitVec 32) : BitVec 32 :=
  let n0 : BitVec 32 := if x ≥ 0x10000#32 then 16#32 else 0#32
  let x1 := if x ≥ 0x10000#32 then x >>> 16 else x
  let n1 : BitVec 32 := if x1 ≥ 0x100#32 then n0 + 8#32 else n0
  let x2 := if x1 ≥ 0x100#32 then x1 >>> 8 else x1
  n1 + (8#8 - (byteOf x2 0).clz).zeroExtend 32

theorem len32bv_eq (x : BitVec 32) : len32bv x = 32#32 - x.clz := by
  unfold len32bv byteOf; bv_decide

theorem len32_eq_bv (x : BitVec 32) : len32 x = (len32bv x).toNat := by
  unfold len32 len32bv
  by_cases h1 : x ≥ 0x10000#32
  · simp only [h1, if_true]
    by_cases h2 : x >>> 16 ≥ 0x100#32
    · simp only [h2, if_true, len8_eq]
      have := clz8_le (byteOf (x >>> 16 >>> 8) 0)
      simp only [BitVec.toNat_add, BitVec.toNat_sub, BitVec.toNat_setWidth, BitVec.toNat_ofNat]; omega
    · simp only [h2, if_false, len8_eq]
      have := clz8_le (byteOf (x >>> 16) 0)
      simp only [BitVec.toNat_add, BitVec.toNat_sub, BitVec.toNat_setWidth, BitVec.toNat_ofNat]; omega
  · simp only [h1, if_false]
    by_cases h2 : x ≥ 0x100#32
    · simp only [h2, if_true, len8_eq]
      have := clz8_le (byteOf (x >>> 8) 0)
      simp only [BitVec.toNat_add, BitVec.toNat_sub, BitVec.toNat_setWidth, BitVec.toNat_ofNat]; omega
    · simp only [h2, if_false, len8_eq]
      have := clz8_le (byteOf x 0)
      simp only [BitVec.toNat_add, BitVec.toNat_sub, BitVec.toNat_setWidth, BitVec.toNat_ofNat]; omega

theorem len32_eq (x : BitVec 32) : len32 x = 32 - x.clz.toNat := by
  have hb : x.clz.toNat ≤ 32 := by
    have : x.clz ≤ 32#32 := by bv_decide
    simpa [BitVec.le_def] using this
  rw [len32_eq_bv, len32bv_eq]
  simp [BitVec.toNat_sub]; omega

theorem leadingZeros32_eq (x : BitVec 32) : leadingZeros32 x = x.clz.toNat := by
  have hb : x.clz.toNat ≤ 32 := by
    have : x.clz ≤ 32#32 := by bv_decide
    simpa [BitVec.le_def] using this
  simp only [leadingZeros32, len32_eq]; omega

def len64bv (x : BitVec 64) : BitVec 64 :=
  let n0 : BitVec 64 := if x ≥ 0x100000000#64 then 32#64 else 0#64
  let x1 := if x ≥ 0x100000000#64 then x >>> 32 else x
  let n1 : BitVec 64 := if x1 ≥ 0x10000#64 then n0 + 16#64 else n0
  let x2 := if x1 ≥ 0x10000#64 then x1 >>> 16 else x1
  let n2 : BitVec 64 := if x2 ≥ 0x100#64 then n1 + 8#64 else n1
  let x3 := if x2 ≥ 0x100#64 then x2 >>> 8 else x2
  n2 + (8#8 - (byteOf x3 0).clz).zeroExtend 64

theorem len64bv_eq (x : BitVec 64) : len64bv x = 64#64 - x.clz := by
  unfold len64bv byteOf; bv_decide

theorem len64_eq_bv (x : BitVec 64) : len64 x = (len64bv x).toNat := by
  unfold len64 len64bv
  by_cases h1 : x ≥ 0x100000000#64 <;> simp only [h1, if_true, if_false]
  · by_cases h2 : x >>> 32 ≥ 0x10000#64 <;> simp only [h2, if_true, if_false]
    · by_cases h3 : x >>> 32 >>> 16 ≥ 0x100#64 <;> simp only [h3, if_true, if_false, len8_eq]
      · have := clz8_le (byteOf (x >>> 32 >>> 16 >>> 8) 0)
        simp only [BitVec.toNat_add, BitVec.toNat_sub, BitVec.toNat_setWidth, BitVec.toNat_ofNat]; omega
      · have := clz8_le (byteOf (x >>> 32 >>> 16) 0)
        simp only [BitVec.toNat_add, BitVec.toNat_sub, BitVec.toNat_setWidth, BitVec.toNat_ofNat]; omega
    · by_cases h3 : x >>> 32 ≥ 0x100#64 <;> simp only [h3, if_true, if_false, len8_eq]
      · have := clz8_le (byteOf (x >>> 32 >>> 8) 0)
        simp only [BitVec.toNat_add, BitVec.toNat_sub, BitVec.toNat_setWidth, BitVec.toNat_ofNat]; omega
      · have := clz8_le (byteOf (x >>> 32) 0)
        simp only [BitVec.toNat_add, BitVec.toNat_sub, BitVec.toNat_setWidth, BitVec.toNat_ofNat]; omega
  · by_cases h2 : x ≥ 0x10000#64 <;> simp only [h2, if_true, if_false]
    · by_cases h3 : x >>> 16 ≥ 0x100#64 <;> simp only [h3, if_true, if_false, len8_eq]
      · have := clz8_le (byteOf (x >>> 16 >>> 8) 0)
        simp only [BitVec.toNat_add, BitVec.toNat_sub, BitVec.toNat_setWidth, BitVec.toNat_ofNat]; omega
      · have := clz8_le (byteOf (x >>> 16) 0)
        simp only [BitVec.toNat_add, BitVec.toNat_sub, BitVec.toNat_setWidth, BitVec.toNat_ofNat]; omega
    · by_cases h3 : x ≥ 0x100#64 <;> simp only [h3, if_true, if_false, len8_eq]
      · have := clz8_le (byteOf (x >>> 8) 0)
        simp only [BitVec.toNat_add, BitVec.toNat_sub, BitVec.toNat_setWidth, BitVec.toNat_ofNat]; omega
      · have := clz8_le (byteOf x 0)
        simp only [BitVec.toNat_add, BitVec.toNat_sub, BitVec.toNat_setWidth, BitVec.toNat_ofNat]; omega

theorem len64_eq (x : BitVec 64) : len64 x = 64 - x.clz.toNat := by
  have hb : x.clz.toNat ≤ 64 := by
    have : x.clz ≤ 64#64 := by bv_decide
    simpa [BitVec.le_def] using this
  rw [len64_eq_bv, len64bv_eq]
  simp [BitVec.toNat_sub]; omega

theorem leadingZeros64_eq (x : BitVec 64) : leadingZeros64 x = x.clz.toNat := by
  have hb : x.clz.toNat ≤ 64 := by
    have : x.clz ≤ 64#64 := by bv_decide
    simpa [BitVec.le_def] using this
  simp only [leadingZeros64, len64_eq]; omega

/-! ### TrailingZeros: the de Bruijn multiplication indexes the table at the position of the lowest set bit -/
theorem trailingZeros8_eq (x : BitVec 8) : trailingZeros8 x = x.ctz.toNat := by
  simp [trailingZeros8, tab8_ntz]

set_option maxRecDepth 100000 in
/-- the regenerated 64-entry table is the inverse of the de Bruijn hash of single bits -/
theorem deBruijn64_table : ∀ k, k < 64 →
    deBruijn64tab.getD ((((1#64 <<< k) * BitVec.ofNat 64 deBruijn64) >>> 58).toNat) 0 = k := by decide

set_option maxRecDepth 100000 in
theorem deBruijn32_table : ∀ k, k < 32 →
    deBruijn32tab.getD ((((1#32 <<< k) * BitVec.ofNat 32 deBruijn32) >>> 27).toNat) 0 = k := by decide

theorem trailingZeros64_eq (x : BitVec 64) : trailingZeros64 x = x.ctz.toNat := by
  unfold trailingZeros64
  by_cases h0 : x = 0
  · have hz : x.ctz = 64#64 := by bv_decide
    simp only [h0, if_true]
    rw [h0] at hz
    rw [hz]; rfl
  · simp only [h0, if_false, deBruijnIdx64]
    have hlow : x &&& -x = 1#64 <<< x.ctz := by bv_decide
    have hlt : x.ctz < 64#64 := by bv_decide
    have hlt' : x.ctz.toNat < 64 := by simpa [BitVec.lt_def] using hlt
    rw [hlow]
    have : (1#64 <<< x.ctz) = 1#64 <<< x.ctz.toNat := by simp [BitVec.shiftLeft_eq']
    rw [this]
    exact deBruijn64_table _ hlt'

theorem trailingZeros32_eq (x : BitVec 32) : trailingZeros32 x = x.ctz.toNat := by
  unfold trailingZeros32
  by_cases h0 : x = 0
  · have hz : x.ctz = 32#32 := by bv_decide
    simp only [h0, if_true]
    rw [h0] at hz
    rw [hz]; rfl
  · simp only [h0, if_false, deBruijnIdx32]
    have hlow : x &&& -x = 1#32 <<< x.ctz := by bv_decide
    have hlt : x.ctz < 32#32 := by bv_decide
    have hlt' : x.ctz.toNat < 32 := by simpa [BitVec.lt_def] using hlt
    rw [hlow]
    have : (1#32 <<< x.ctz) = 1#32 <<< x.ctz.toNat := by simp [BitVec.shiftLeft_eq']
    rw [this]
    exact deBruijn32_table _ hlt'

/-! ### Mul -/
theorem mul32_eq (x y : BitVec 32) :
    x.zeroExtend 64 * y.zeroExtend 64 = ((mul32 x y).1.zeroExtend 64 <<< 32) ||| (mul32 x y).2.zeroExtend 64 := by
  unfold mul32; bv_decide

/-- **Mul64**: the schoolbook computation on 32-bit halves with 64-bit wrap-around yields the exact 128-bit product -/
theorem mul64_eq (x y : Nat) (hx : x < 2 ^ 64) (hy : y < 2 ^ 64) :
    (mul64 x y).1 * 2 ^ 64 + (mul64 x y).2 = x * y ∧ (mul64 x y).2 < 2 ^ 64 := by
  unfold mul64
  simp only []
  generalize hx0 : x % 2 ^ 32 = x0
  generalize hx1 : x / 2 ^ 32 = x1
  generalize hy0 : y % 2 ^ 32 = y0
  generalize hy1 : y / 2 ^ 32 = y1
  have bx0 : x0 < 2 ^ 32 := by rw [← hx0]; exact Nat.mod_lt _ (by decide)
  have by0 : y0 < 2 ^ 32 := by rw [← hy0]; exact Nat.mod_lt _ (by decide)
  have bx1 : x1 < 2 ^ 32 := by rw [← hx1]; omega
  have by1 : y1 < 2 ^ 32 := by rw [← hy1]; omega
  have ex : x = x1 * 2 ^ 32 + x0 := by rw [← hx0, ← hx1]; omega
  have ey : y = y1 * 2 ^ 32 + y0 := by rw [← hy0, ← hy1]; omega
  -- the four partial products, bounded
  have bnd : ∀ a b : Nat, a < 2 ^ 32 → b < 2 ^ 32 → a * b ≤ (2 ^ 32 - 1) * (2 ^ 32 - 1) := by
    intro a b ha hb
    exact Nat.mul_le_mul (by omega) (by omega)
  have p00 := bnd x0 y0 bx0 by0
  have p10 := bnd x1 y0 bx1 by0
  have p01 := bnd x0 y1 bx0 by1
  have p11 := bnd x1 y1 bx1 by1
  have exy : x * y = x1 * y1 * (2 ^ 32 * 2 ^ 32) + (x1 * y0 + x0 * y1) * 2 ^ 32 + x0 * y0 := by
    rw [ex, ey]
    simp only [Nat.add_mul, Nat.mul_add, Nat.mul_assoc, Nat.mul_comm, Nat.mul_left_comm, Nat.add_assoc, Nat.add_comm, Nat.add_left_comm]
  generalize x0 * y0 = a00 at *
  generalize x1 * y0 = a10 at *
  generalize x0 * y1 = a01 at *
  generalize x1 * y1 = a11 at *
  rw [exy]
  omega

example : mul64 18446744073709551615 18446744073709551615 = (18446744073709551614, 1) := by decide

end WaVerif.C14
