import WaVerif.Lemmas.C11Reach
import WaVerif.Gen.C11Hdr
/-!
# C11 — automatic memory management never frees or reuses live data

Theorems about the reference-counting protocol model `WaVerif.C11` (Model/C11RC.lean):
`Block.Release` as a stack machine, the mutator as five disciplined operations.
`Owned s` = every reference held in a root or in an allocated block's field is matched by exactly one count,
nothing refers to an unallocated block, no protocol error has happened.
-/
namespace WaVerif.C11

/-! ## the invariant and its preservation -/

/-- In an `Owned` state the count of every allocated block IS the number of references to it (and is positive). -/
theorem rc_counts_references {s : St} (h : Owned s) {b : Addr} (hb : b ∈ s.live) :
    (s.blk b).rc = refs s b ∧ 1 ≤ (s.blk b).rc := by
  have := h.counted b hb (by simp)
  simpa [refsC, refs] using this

/-- `Owned` is preserved by every disciplined mutator step, including the complete release cascade it may start. -/
theorem owned_step {s : St} {op : Op} (h : Owned s) (hok : op.Ok s) : Owned (apply s op) :=
  owned_apply h hok

/-- every state reached from the empty heap by disciplined steps is `Owned` -/
theorem owned_reachable {ops : List Op} (hok : AllOk empty ops) : Owned (applyAll empty ops) :=
  owned_applyAll owned_empty hok

example : AllOk empty exOps := by decide
example : (applyAll empty exOps).live = [3, 2, 1] ∧ ((applyAll empty exOps).blk 2).rc = 1 := by decide

/-! ## no premature free, no dangling reference -/

/-- memory safety: every reference the program can follow (a root, or a field of an allocated block) points to an
allocated block. -/
theorem no_dangling_reference {s : St} (h : Owned s) :
    (∀ r ∈ s.roots, r ∈ s.live) ∧ (∀ x ∈ s.live, ∀ k ∈ (s.blk x).kids, k ∈ s.live) :=
  ⟨fun _ hr => h.root_live hr, fun _ hx _ hk => h.kid_live hx hk⟩

/-- A block is freed by a disciplined step only when no root and no field of an allocated block refers to it. -/
theorem no_premature_free {s : St} {op : Op} (h : Owned s) (hok : op.Ok s) {b : Addr}
    (hb : b ∈ freedBy s (apply s op)) :
    b ∉ (apply s op).roots ∧ ∀ x ∈ (apply s op).live, b ∉ ((apply s op).blk x).kids := by
  have ho := owned_apply h hok
  have hdead : b ∉ (apply s op).live := by
    have := (List.mem_filter.mp hb).2
    simpa using this
  have h0 := ho.noDangling b (Or.inl hdead)
  simp only [refsC, pendRefs_nil] at h0
  refine ⟨?_, ?_⟩
  · intro hr
    have := count_pos_of_mem hr
    omega
  · intro x hx hk
    have h1 := count_pos_of_mem hk
    have h2 := heapRefs_ge (s := apply s op) b hx
    omega

example : freedBy (applyAll empty [.alloc 1, .alloc 2, .store 1 2]) (apply (applyAll empty [.alloc 1, .alloc 2, .store 1 2]) (.drop 1)) = [2, 1] := by
  decide

/-! ## no double free -/

theorem err_sticky_decr (k : Addr) (c : Cfg) (h : c.st.err = true) : (decr k c).st.err = true := by
  unfold decr
  split
  · split
    · simpa [St.emit, St.setBlk] using h
    · split
      · simp [St.fail]
      · simpa [St.emit, St.setBlk] using h
  · simp [St.fail]

theorem err_sticky_step (c : Cfg) (h : c.st.err = true) : (step c).st.err = true := by
  obtain ⟨st, stk⟩ := c
  unfold step
  match stk with
  | [] => exact h
  | ⟨none, []⟩ :: rest => exact h
  | ⟨some b, []⟩ :: rest =>
    simp only [St.free]
    split
    · exact h
    · simp [St.fail]
  | ⟨o, k :: ks⟩ :: rest => simp only; exact err_sticky_decr k _ h

/-- the error flag is never cleared: `err = false` at the end means no protocol violation at ANY step -/
theorem err_sticky_run (n : Nat) (c : Cfg) (h : c.st.err = true) : (run n c).st.err = true := by
  induction n generalizing c with
  | zero => exact h
  | succ n ih => exact ih _ (err_sticky_step c h)

/-- what raises the flag: `HeapFree` of a block that is not allocated (double free), … -/
theorem free_dead_is_error (s : St) (b : Addr) (h : b ∉ s.live) : (s.free b).err = true := by
  simp [St.free, h, St.fail]

/-- … `Block.Release` of a block that is not allocated (use after free), … -/
theorem release_dead_is_error (k : Addr) (c : Cfg) (h : k ∉ c.st.live) : (decr k c).st.err = true := by
  simp [decr, h, St.fail]

/-- … and `Block.Release` of a block whose count is already zero (it is being destroyed). -/
theorem release_zero_is_error (k : Addr) (c : Cfg) (h : (c.st.blk k).rc = 0) : (decr k c).st.err = true := by
  unfold decr
  split
  · simp [h, St.fail]
  · simp [St.fail]

/-- No disciplined step from an `Owned` state frees a block twice, frees an unallocated block, or releases a block
that is dead or being destroyed — at any point of the release cascade (`err_sticky_run`). -/
theorem no_double_free {s : St} {op : Op} (h : Owned s) (hok : op.Ok s) : (apply s op).err = false :=
  (owned_apply h hok).noerr

/-- the blocks a step frees were allocated before it (and are not afterwards): each at most once per step, as a list
without repetition -/
theorem freed_were_live {s : St} {op : Op} (h : Owned s) :
    (freedBy s (apply s op)).Nodup ∧ ∀ b ∈ freedBy s (apply s op), b ∈ s.live ∧ b ∉ (apply s op).live := by
  refine ⟨h.nodup.filter _, ?_⟩
  intro b hb
  have := List.mem_filter.mp hb
  exact ⟨this.1, by simpa using this.2⟩

/-! ## termination -/

/-- `Block.Release` terminates on every heap (cyclic or not, consistent or not): the measure `mu` bounds the number
of machine steps. -/
theorem release_terminates (c : Cfg) : (run (mu c) c).stk = [] :=
  run_terminates (mu c) c (Nat.le_refl _)

/-- the instance asked for by the property: releasing a reference into an acyclic `Owned` heap terminates, within
`mu` steps, in an `Owned` state -/
theorem release_terminates_acyclic {s : St} {b : Addr} (h : Owned s) (_hac : Acyclic s) (hb : b ∈ s.roots) :
    (run (mu ⟨{ s with roots := s.roots.erase b }, [⟨none, [b]⟩]⟩) ⟨{ s with roots := s.roots.erase b }, [⟨none, [b]⟩]⟩).stk = []
    ∧ Owned (apply s (.drop b)) :=
  ⟨release_terminates _, owned_drop h hb⟩

/-! ## fresh memory reads as zero -/

/-- `HeapAlloc nbytes` clears exactly the `(nbytes+7)/8*8` bytes it obtained: every requested byte reads as zero
afterwards, and nothing outside the block is written. -/
theorem alloc_zeroed (nbytes ptr : Nat) (m : Mem) (hn : 0 < nbytes) :
    (∀ x, ptr ≤ x → x < ptr + nbytes → heapAllocZero nbytes ptr m x = 0) ∧
    (∀ x, (x < ptr ∨ ptr + heapAllocSize nbytes ≤ x) → heapAllocZero nbytes ptr m x = m x) ∧
    nbytes ≤ heapAllocSize nbytes ∧ heapAllocSize nbytes < nbytes + 8 ∧ heapAllocSize nbytes % 8 = 0 := by
  have hsz : heapAllocSize nbytes / 8 * 8 = heapAllocSize nbytes := by unfold heapAllocSize; omega
  have h0 : nbytes ≠ 0 := by omega
  refine ⟨?_, ?_, by unfold heapAllocSize; omega, by unfold heapAllocSize; omega, by unfold heapAllocSize; omega⟩
  · intro x h1 h2
    simp only [heapAllocZero, h0, if_false, zeroLoop_spec]
    have : ptr ≤ x ∧ x < ptr + 8 * (heapAllocSize nbytes / 8) := ⟨h1, by unfold heapAllocSize at hsz ⊢; omega⟩
    simp [this]
  · intro x hx
    simp only [heapAllocZero, h0, if_false, zeroLoop_spec]
    have : ¬ (ptr ≤ x ∧ x < ptr + 8 * (heapAllocSize nbytes / 8)) := by omega
    simp [this]

example : heapAllocZero 13 1000 (fun _ => 0xA5) 1012 = 0 ∧ heapAllocZero 13 1000 (fun _ => 0xA5) 1016 = 0xA5 := by decide

/-! ## header layout: the constants of the model are those of heap.wat.ws (regenerated) -/

theorem header_layout_matches_source :
    Gen.C11Hdr.initRc = hdrRc ∧ Gen.C11Hdr.initItemCount = hdrItemCount ∧ Gen.C11Hdr.initRelease = hdrRelease ∧
    Gen.C11Hdr.initItemSize = hdrItemSize ∧ Gen.C11Hdr.allocHeader = hdrSize ∧ Gen.C11Hdr.dataOffset = hdrSize ∧
    Gen.C11Hdr.retainRc = hdrRc ∧ Gen.C11Hdr.releaseRc = hdrRc ∧ Gen.C11Hdr.releaseItemCount = hdrItemCount ∧
    Gen.C11Hdr.releaseFunc = hdrRelease ∧ Gen.C11Hdr.releaseItemSize = hdrItemSize ∧ Gen.C11Hdr.releaseData = hdrSize ∧
    Gen.C11Hdr.initialCount = 1 := by
  decide

end WaVerif.C11
