import WaVerif.Model.C14Hex
import WaVerif.Lemmas.C14Hash
/-!
# C14 — hash/crc32, hash/adler32, hash/fnv: property theorems
Tables, polynomials, the modulus, offsets and primes are the regenerated ones (Gen/C14Tables.lean); the CRC tables
are those the Wa port computes at run time (`crc32.IEEETable`, `crc32.MakeTable(crc32.Castagnoli)`).
-/
namespace WaVerif.C14
open WaVerif.C14.Gen

/-! ## CRC-32 -/

set_option maxRecDepth 100000 in
/-- every entry of the IEEE table the port computes is the bit-serial CRC of its index -/
theorem crc_table_ieee_correct : ∀ i, i < 256 → crcIEEETable.getD i 0 = crcTableEntry crcIEEEPoly i := by decide

set_option maxRecDepth 100000 in
theorem crc_table_castagnoli_correct : ∀ i, i < 256 → crcCastagnoliTable.getD i 0 = crcTableEntry crcCastagnoliPoly i := by decide

/-- the table-driven update (`simpleUpdate`) computes the bit-serial CRC, for the IEEE polynomial -/
theorem crc_update_ieee_eq_bitwise (crc : Nat) (p : List Nat) (hp : BytesOK p) :
    crcUpdate crcIEEETable crc p = crcBitwise crcIEEEPoly crc p := by
  unfold crcUpdate crcBitwise
  congr 1
  generalize crc ^^^ 0xffffffff = c
  induction p generalizing c with
  | nil => rfl
  | cons b bs ih =>
    have hb : b < 256 := hp b (by simp)
    simp only [List.foldl_cons]
    rw [crcStep_eq_bitwise crcIEEEPoly crcIEEETable crc_table_ieee_correct c b hb]
    exact ih (fun x hx => hp x (by simp [hx])) _

theorem crc_update_castagnoli_eq_bitwise (crc : Nat) (p : List Nat) (hp : BytesOK p) :
    crcUpdate crcCastagnoliTable crc p = crcBitwise crcCastagnoliPoly crc p := by
  unfold crcUpdate crcBitwise
  congr 1
  generalize crc ^^^ 0xffffffff = c
  induction p generalizing c with
  | nil => rfl
  | cons b bs ih =>
    have hb : b < 256 := hp b (by simp)
    simp only [List.foldl_cons]
    rw [crcStep_eq_bitwise crcCastagnoliPoly crcCastagnoliTable crc_table_castagnoli_correct c b hb]
    exact ih (fun x hx => hp x (by simp [hx])) _

/-- `Update` is a fold: feeding `a ++ b` equals feeding `a`, then `b` (what `hash.Hash32.Write` relies on) -/
theorem crc_update_append (tab : List Nat) (crc : Nat) (a b : List Nat) :
    crcUpdate tab (crcUpdate tab crc a) b = crcUpdate tab crc (a ++ b) := by
  simp only [crcUpdate, xor_xor_cancel, List.foldl_append]

theorem crc_update_nil (tab : List Nat) (crc : Nat) : crcUpdate tab crc [] = crc := by
  simp [crcUpdate, xor_xor_cancel]

example : crcChecksumIEEE [49, 50, 51, 52, 53, 54, 55, 56, 57] = 0xcbf43926 := by decide

/-! ## Adler-32 -/

/-- the deferred-reduction loop on 32-bit registers (the port's `update` + `finish`) computes RFC 1950's Adler-32:
no intermediate sum overflows 32 bits and both sums are congruent to the per-byte-reduced ones -/
theorem adler_checksum_eq_spec (p : List Nat) (hp : BytesOK p) : adlerChecksum p = adlerSpec p := by
  have key : ∀ (p : List Nat), BytesOK p → ∀ (ab sp : Nat × Nat), AdlerInv ab →
      ab.1 % adlerMod = sp.1 → ab.2 % adlerMod = sp.2 →
      AdlerInv (p.foldl adlerStep ab) ∧
      (p.foldl adlerStep ab).1 % adlerMod = (p.foldl adlerSpecStep sp).1 ∧
      (p.foldl adlerStep ab).2 % adlerMod = (p.foldl adlerSpecStep sp).2 := by
    intro p
    induction p with
    | nil => intro _ ab sp hi h1 h2; exact ⟨hi, h1, h2⟩
    | cons x xs ih =>
      intro hp ab sp hi h1 h2
      have hx : x < 256 := hp x (by simp)
      obtain ⟨hi', e1, e2⟩ := adlerStep_inv ab x hx hi
      simp only [List.foldl_cons]
      apply ih (fun y hy => hp y (by simp [hy])) _ _ hi'
      · simp only [adlerSpecStep, adlerMod] at *; omega
      · simp only [adlerSpecStep, adlerMod] at *; omega
  have hinit : AdlerInv (1, 0) := by simp [AdlerInv, adlerT, adlerMod]
  obtain ⟨⟨i1, i2, i3⟩, e1, e2⟩ := key p hp (1, 0) (1, 0) hinit (by simp [adlerMod]) (by simp [adlerMod])
  have s1 : (p.foldl adlerSpecStep (1, 0)).1 < adlerMod := by
    rw [← e1]; exact Nat.mod_lt _ (by simp [adlerMod])
  have s2 : (p.foldl adlerSpecStep (1, 0)).2 < adlerMod := by
    rw [← e2]; exact Nat.mod_lt _ (by simp [adlerMod])
  unfold adlerChecksum adlerUpdate adlerSpec adlerFinish
  generalize p.foldl adlerStep (1, 0) = ab at *
  generalize p.foldl adlerSpecStep (1, 0) = sp at *
  simp only [adlerMod, adlerT] at *
  have fin : ∀ a b : Nat, a < 65521 → b < 65521 → ((b <<< 16) % 2 ^ 32) ||| a = b * 65536 + a := by
    intro a b ha hb
    have h16 : b <<< 16 = b * 65536 := by rw [Nat.shiftLeft_eq]
    have hlt : b <<< 16 < 2 ^ 32 := by rw [h16]; omega
    rw [Nat.mod_eq_of_lt hlt, ← Nat.shiftLeft_add_eq_or_of_lt (by omega : a < 2 ^ 16) b, h16]
  by_cases hge : ab.2 ≥ 65521
  · simp only [hge, ↓reduceIte]
    rw [fin _ _ (Nat.mod_lt _ (by omega)) (Nat.mod_lt _ (by omega)), e1, e2]
  · simp only [hge, ↓reduceIte]
    have hb : ab.2 < 65521 := by omega
    have ha : ab.1 < 65521 := by omega
    rw [fin _ _ ha hb]
    rw [Nat.mod_eq_of_lt ha] at e1
    rw [Nat.mod_eq_of_lt hb] at e2
    rw [e1, e2]

example : BytesOK [87, 105, 107, 105, 112, 101, 100, 105, 97] := by decide
example : adlerChecksum [87, 105, 107, 105, 112, 101, 100, 105, 97] = 0x11E60398 := by decide

/-- `Write` is a fold over the register pair -/
theorem adler_update_append (a b : Nat) (p q : List Nat) :
    adlerUpdate (adlerUpdate a b p).1 (adlerUpdate a b p).2 q = adlerUpdate a b (p ++ q) := by
  simp [adlerUpdate, List.foldl_append]

/-! ## FNV -/

theorem fnv32_append (p q : List Nat) : fnv32 (p ++ q) = q.foldl fnv32Step (fnv32 p) := by
  simp [fnv32, List.foldl_append]
theorem fnv32a_append (p q : List Nat) : fnv32a (p ++ q) = q.foldl fnv32aStep (fnv32a p) := by
  simp [fnv32a, List.foldl_append]
theorem fnv64_append (p q : List Nat) : fnv64 (p ++ q) = q.foldl fnv64Step (fnv64 p) := by
  simp [fnv64, List.foldl_append]
theorem fnv64a_append (p q : List Nat) : fnv64a (p ++ q) = q.foldl fnv64aStep (fnv64a p) := by
  simp [fnv64a, List.foldl_append]

/-- the 32-bit sums stay 32-bit values -/
theorem fnv32_lt (p : List Nat) (hp : BytesOK p) : fnv32 p < 2 ^ 32 ∧ fnv32a p < 2 ^ 32 := by
  have step1 : ∀ (p : List Nat), BytesOK p → ∀ h, h < 2 ^ 32 → p.foldl fnv32Step h < 2 ^ 32 := by
    intro p
    induction p with
    | nil => intro _ h hh; exact hh
    | cons x xs ih =>
      intro hp h hh
      simp only [List.foldl_cons]
      apply ih (fun y hy => hp y (by simp [hy]))
      have hx : x < 2 ^ 32 := by have := hp x (by simp); omega
      exact Nat.xor_lt_two_pow (Nat.mod_lt _ (by decide)) hx
  have step2 : ∀ (p : List Nat), ∀ h, h < 2 ^ 32 → p.foldl fnv32aStep h < 2 ^ 32 := by
    intro p
    induction p with
    | nil => intro h hh; exact hh
    | cons x xs ih =>
      intro h hh
      simp only [List.foldl_cons]
      apply ih
      exact Nat.mod_lt _ (by decide)
  exact ⟨step1 p hp _ (by decide), step2 p _ (by decide)⟩

example : fnv32a [97] = 0xe40c292c := by decide
example : fnv64a [97] = 0xaf63dc4c8601ec8c := by decide

end WaVerif.C14
