import WaVerif.Model.C14Conv
/-!
# C14 — strconv integer conversions: parse ∘ format is the identity, for every value and every base 2..36
-/
namespace WaVerif.C14
open WaVerif.C14.Gen

/-- the digit alphabet (regenerated) is decoded back by the parser's character classification -/
theorem digit_roundtrip : ∀ d, d < 36 → digitVal (digitChar d) = some d := by decide

/-- formatted digits are never the underscore -/
theorem digitChar_ne_underscore : ∀ d, d < 36 → digitChar d ≠ 95 := by decide

theorem toDigits_lt (base : Nat) (hb : 2 ≤ base) : ∀ f u, ∀ d ∈ toDigits base f u, d < base
  | 0, _, d, h => by simp [toDigits] at h
  | f + 1, u, d, h => by
    unfold toDigits at h
    split at h
    · simp at h; omega
    · simp at h
      rcases h with h | h
      · exact toDigits_lt base hb f _ d h
      · subst h; exact Nat.mod_lt _ (by omega)

/-- the loop is a left fold with early exit: it can be split at any point -/
theorem parseLoop_append (base cutoff maxVal : Nat) (b0 : Bool) :
    ∀ (l1 l2 : List Nat) (n : Nat) (us : Bool),
      parseLoop base cutoff maxVal b0 (l1 ++ l2) n us =
        match parseLoop base cutoff maxVal b0 l1 n us with
        | .inl e => .inl e
        | .inr (n', us') => parseLoop base cutoff maxVal b0 l2 n' us'
  | [], l2, n, us => by simp [parseLoop]
  | c :: cs, l2, n, us => by
    simp only [List.cons_append, parseLoop]
    split
    · exact parseLoop_append base cutoff maxVal b0 cs l2 n true
    · split
      · rfl
      · split
        · rfl
        · split
          · rfl
          · split
            · rfl
            · exact parseLoop_append base cutoff maxVal b0 cs l2 _ us

/-- one formatted digit `d` appended to a prefix whose value is `n`: the loop accepts it when `n*base+d` fits -/
theorem parseLoop_digit (base maxVal n d : Nat) (hb : 2 ≤ base) (hb36 : base ≤ 36) (hd : d < base)
    (hfit : n * base + d ≤ maxVal) (hmax : maxVal < 2 ^ 64) (us : Bool) :
    parseLoop base (maxUint64 / base + 1) maxVal false [digitChar d] n us = .inr (n * base + d, us) := by
  have hdv := digit_roundtrip d (by omega)
  have hne := digitChar_ne_underscore d (by omega)
  have h1 : n * base + d < 2 ^ 64 := by omega
  have h2 : n * base < 2 ^ 64 := by omega
  have hcut : ¬ (n ≥ maxUint64 / base + 1) := by
    have : n ≤ maxUint64 / base := by
      rw [Nat.le_div_iff_mul_le (by omega)]
      simp only [maxUint64]; omega
    omega
  simp only [parseLoop, hdv]
  have c1 : ¬ (digitChar d = 95 ∧ false = true) := by simp
  simp only [c1, if_false]
  have c2 : ¬ (d ≥ base) := by omega
  simp only [c2, hcut, if_false, Nat.mod_eq_of_lt h2, Nat.mod_eq_of_lt h1]
  have c3 : ¬ (n * base + d < n * base ∨ n * base + d > maxVal) := by omega
  simp only [c3, if_false]

/-- parsing the digits of `u` from register `0` yields `u` (no range error fires on the way) -/
theorem parseLoop_toDigits (base maxVal : Nat) (hb : 2 ≤ base) (hb36 : base ≤ 36) (hmax : maxVal < 2 ^ 64) (us : Bool) :
    ∀ f u, u < base ^ f → u ≤ maxVal →
      parseLoop base (maxUint64 / base + 1) maxVal false ((toDigits base f u).map digitChar) 0 us = .inr (u, us)
  | 0, u, hu, _ => by simp at hu; subst hu; simp [toDigits, parseLoop]
  | f + 1, u, hu, hm => by
    unfold toDigits
    split
    · rename_i hlt
      simpa using parseLoop_digit base maxVal 0 u hb hb36 hlt (by omega) hmax us
    · rename_i hge
      have hq : u / base < base ^ f := by
        rw [Nat.div_lt_iff_lt_mul (by omega)]
        rw [Nat.pow_succ] at hu; exact hu
      have hqm : u / base ≤ maxVal := Nat.le_trans (Nat.div_le_self _ _) hm
      have ih := parseLoop_toDigits base maxVal hb hb36 hmax us f (u / base) hq hqm
      rw [List.map_append, parseLoop_append, ih]
      simp only [List.map_cons, List.map_nil]
      have hd : u % base < base := Nat.mod_lt _ (by omega)
      have hval : u / base * base + u % base = u := by
        rw [Nat.mul_comm]; exact Nat.div_add_mod u base
      have := parseLoop_digit base maxVal (u / base) (u % base) hb hb36 hd (by omega) hmax us
      rw [hval] at this
      exact this

theorem lt_pow_64 (base u : Nat) (hb : 2 ≤ base) (hu : u < 2 ^ 64) : u < base ^ 64 :=
  Nat.lt_of_lt_of_le hu (Nat.pow_le_pow_left hb 64)

theorem formatUint_ne_nil (u base : Nat) : formatUint u base ≠ [] := by
  unfold formatUint toDigits
  split <;> simp

/-- **ParseUint(FormatUint(u, base), base, 64) = u, nil** for every 64-bit `u` and every base 2..36 -/
theorem parseUint_formatUint (u base : Nat) (hu : u < 2 ^ 64) (hb : 2 ≤ base) (hb36 : base ≤ 36) :
    parseUint (formatUint u base) base 64 = .ok u := by
  have hne := formatUint_ne_nil u base
  have hloop := parseLoop_toDigits base (2 ^ 64 - 1) hb hb36 (by omega) false 64 u (lt_pow_64 base u hb hu) (by omega)
  unfold parseUint
  simp only [hne, if_false]
  have hbI : (2 : Int) ≤ (base : Int) ∧ (base : Int) ≤ 36 := by omega
  simp only [hbI, and_self, if_true]
  have hbz : ((base : Int) == 0) = false := by
    simp; omega
  simp only [hbz]
  have h64 : ¬ ((64 : Int) = 0) := by decide
  have hbs : ¬ ((64 : Int) < 0 ∨ (64 : Int) > 64) := by decide
  simp only [h64, hbs, if_false, Int.toNat_natCast]
  have e64 : (64 : Int).toNat = 64 := rfl
  rw [e64]
  unfold formatUint at hloop ⊢
  rw [hloop]
  simp

example : parseUint (formatUint 18446744073709551615 36) 36 64 = .ok 18446744073709551615 := by decide
example : formatUint 255 16 = [102, 102] := by decide

/-- smaller bit sizes: the value is accepted iff it fits, otherwise the range error carries the maximum -/
theorem parseUint_formatUint_bits (u base bits : Nat) (hbits : 1 ≤ bits ∧ bits ≤ 64) (hu : u < 2 ^ bits)
    (hb : 2 ≤ base) (hb36 : base ≤ 36) : parseUint (formatUint u base) base bits = .ok u := by
  have hne := formatUint_ne_nil u base
  have hpow : 2 ^ bits ≤ 2 ^ 64 := Nat.pow_le_pow_right (by omega) hbits.2
  have hpos : 0 < 2 ^ bits := Nat.pow_pos (by omega)
  have hloop := parseLoop_toDigits base (2 ^ bits - 1) hb hb36 (by omega) false 64 u
    (lt_pow_64 base u hb (by omega)) (by omega)
  unfold parseUint
  simp only [hne, if_false]
  have hbI : (2 : Int) ≤ (base : Int) ∧ (base : Int) ≤ 36 := by omega
  simp only [hbI, and_self, if_true]
  have hbz : ((base : Int) == 0) = false := by
    simp; omega
  simp only [hbz]
  have h0 : ¬ ((bits : Int) = 0) := by omega
  have hbs : ¬ ((bits : Int) < 0 ∨ (bits : Int) > 64) := by omega
  simp only [h0, hbs, if_false, Int.toNat_natCast]
  unfold formatUint at hloop ⊢
  rw [hloop]
  simp

/-- **ParseInt(FormatInt(v, base), base, 64) = v, nil** for every int64 `v` and every base 2..36 -/
theorem parseInt_formatInt (v : Int) (base : Nat) (hlo : -(2 : Int) ^ 63 ≤ v) (hhi : v < (2 : Int) ^ 63)
    (hb : 2 ≤ base) (hb36 : base ≤ 36) : parseInt (formatInt v base) base 64 = .ok v := by
  unfold formatInt
  by_cases hneg : v < 0
  · simp only [hneg, if_true]
    have hu : (-v).toNat < 2 ^ 64 := by omega
    have hp := parseUint_formatUint (-v).toNat base hu hb hb36
    have hv : ((-v).toNat : Int) = -v := by omega
    simp only [parseInt]
    simp [hp, hv]
    omega
  · simp only [hneg, if_false]
    have hu : v.toNat < 2 ^ 64 := by omega
    have hp := parseUint_formatUint v.toNat base hu hb hb36
    have hne := formatUint_ne_nil v.toNat base
    cases hf : formatUint v.toNat base with
    | nil => exact absurd hf hne
    | cons c rest =>
      -- the first character is a digit, hence neither '+' nor '-'
      have hc : c ≠ 43 ∧ c ≠ 45 := by
        have hmem : c ∈ (toDigits base 64 v.toNat).map digitChar := by
          have : formatUint v.toNat base = (toDigits base 64 v.toNat).map digitChar := rfl
          rw [← this, hf]; simp
        obtain ⟨d, hd, rfl⟩ := List.mem_map.mp hmem
        have hdl := toDigits_lt base hb 64 v.toNat d hd
        have : ∀ d, d < 36 → digitChar d ≠ 43 ∧ digitChar d ≠ 45 := by decide
        exact this d (by omega)
      simp only [parseInt]
      have c0 : ¬ (c = 43 ∨ c = 45) := by omega
      simp only [c0, if_false]
      rw [← hf, hp]
      have h64 : ¬ ((64 : Int) = 0) := by decide
      simp only [h64, if_false]
      have e : (2 : Int) ^ ((64 : Int).toNat - 1) = 2 ^ 63 := rfl
      simp only [e]
      have hv : (v.toNat : Int) = v := by omega
      rw [hv]
      have c1 : ¬ (¬ (c = 45) ∧ v ≥ (2 : Int) ^ 63) := by omega
      have c2 : ¬ (c = 45 ∧ v > (2 : Int) ^ 63) := by omega
      simp only [c1, c2, if_false]
      simp [hc.2]

example : parseInt (formatInt (-9223372036854775808) 2) 2 64 = .ok (-9223372036854775808) := by decide

/-- the first value outside the range is reported, with Go's clamped result (the defect seen on the Wa port
is that this error is not reported for bit size 64) -/
theorem parseInt_out_of_range_witness :
    parseInt [57, 50, 50, 51, 51, 55, 50, 48, 51, 54, 56, 53, 52, 55, 55, 53, 56, 48, 56] 10 64 = .range 9223372036854775807 := by
  decide

end WaVerif.C14
