import WaVerif.Model.C14Sort
/-!
# C14 — sort: the contract (sorted permutation of the input) and its uniqueness
-/
namespace WaVerif.C14

/-- `le` is a total order (as a Boolean relation) -/
structure TotalOrder {α : Type} (le : α → α → Bool) : Prop where
  total : ∀ a b, le a b = true ∨ le b a = true
  trans : ∀ a b c, le a b = true → le b c = true → le a c = true
  antisymm : ∀ a b, le a b = true → le b a = true → a = b

def SortedBy {α : Type} (le : α → α → Bool) (l : List α) : Prop := l.Pairwise (fun a b => le a b = true)

theorem insertBy_perm {α : Type} (le : α → α → Bool) (x : α) : ∀ l, (insertBy le x l).Perm (x :: l)
  | [] => List.Perm.refl _
  | y :: ys => by
    unfold insertBy
    split
    · exact List.Perm.refl _
    · exact ((insertBy_perm le x ys).cons y).trans (List.Perm.swap x y ys)

/-- the output is a permutation of the input -/
theorem isortBy_perm {α : Type} (le : α → α → Bool) : ∀ l, (isortBy le l).Perm l
  | [] => List.Perm.refl _
  | x :: xs => (insertBy_perm le x _).trans ((isortBy_perm le xs).cons x)

theorem insertBy_sorted {α : Type} (le : α → α → Bool) (h : TotalOrder le) (x : α) :
    ∀ l, SortedBy le l → SortedBy le (insertBy le x l)
  | [], _ => by simp [insertBy, SortedBy]
  | y :: ys, hs => by
    unfold insertBy
    have hs' := List.pairwise_cons.mp hs
    split
    · rename_i hxy
      apply List.pairwise_cons.mpr
      refine ⟨?_, hs⟩
      intro z hz
      rcases List.mem_cons.mp hz with rfl | hz
      · exact hxy
      · exact h.trans _ _ _ hxy (hs'.1 z hz)
    · rename_i hxy
      have hyx : le y x = true := by
        rcases h.total x y with h1 | h1
        · exact absurd h1 hxy
        · exact h1
      apply List.pairwise_cons.mpr
      refine ⟨?_, insertBy_sorted le h x ys hs'.2⟩
      intro z hz
      have := (insertBy_perm le x ys).mem_iff.mp hz
      rcases List.mem_cons.mp this with rfl | hz'
      · exact hyx
      · exact hs'.1 z hz'

/-- the output is sorted -/
theorem isortBy_sorted {α : Type} (le : α → α → Bool) (h : TotalOrder le) : ∀ l, SortedBy le (isortBy le l)
  | [] => List.Pairwise.nil
  | x :: xs => insertBy_sorted le h x _ (isortBy_sorted le h xs)

/-- **uniqueness**: two sorted lists that are permutations of each other are equal -/
theorem sorted_perm_unique {α : Type} (le : α → α → Bool) (h : TotalOrder le) :
    ∀ (l1 l2 : List α), SortedBy le l1 → SortedBy le l2 → l1.Perm l2 → l1 = l2
  | [], l2, _, _, hp => by simpa using hp.symm.eq_nil
  | a :: as, [], _, _, hp => by simpa using hp.eq_nil
  | a :: as, b :: bs, h1, h2, hp => by
    have h1' := List.pairwise_cons.mp h1
    have h2' := List.pairwise_cons.mp h2
    have hab : a = b := by
      have ha : a ∈ b :: bs := hp.mem_iff.mp (List.mem_cons_self)
      have hb : b ∈ a :: as := hp.mem_iff.mpr (List.mem_cons_self)
      rcases List.mem_cons.mp ha with e | ha'
      · exact e
      · rcases List.mem_cons.mp hb with e | hb'
        · exact e.symm
        · exact h.antisymm _ _ (h1'.1 b hb') (h2'.1 a ha')
    subst hab
    have := sorted_perm_unique le h as bs h1'.2 h2'.2 (List.Perm.cons_inv hp)
    rw [this]

/-- **the contract decides the output**: whatever an implementation returns, if it is a sorted permutation of the
input then it is exactly `isortBy le input` -/
theorem sorted_perm_eq_isort {α : Type} (le : α → α → Bool) (h : TotalOrder le) (inp out : List α)
    (hs : SortedBy le out) (hp : out.Perm inp) : out = isortBy le inp :=
  sorted_perm_unique le h out (isortBy le inp) hs (isortBy_sorted le h inp) (hp.trans (isortBy_perm le inp).symm)

theorem isSortedBy_iff {α : Type} (le : α → α → Bool) (h : TotalOrder le) :
    ∀ l, isSortedBy le l = true ↔ SortedBy le l
  | [] => by simp [isSortedBy, SortedBy]
  | [a] => by simp [isSortedBy, SortedBy]
  | a :: b :: rest => by
    have ih := isSortedBy_iff le h (b :: rest)
    simp only [isSortedBy, Bool.and_eq_true, ih, SortedBy]
    constructor
    · intro ⟨hab, hs⟩
      apply List.pairwise_cons.mpr
      refine ⟨?_, hs⟩
      intro z hz
      rcases List.mem_cons.mp hz with rfl | hz
      · exact hab
      · exact h.trans _ _ _ hab ((List.pairwise_cons.mp hs).1 z hz)
    · intro hs
      have hs' := List.pairwise_cons.mp hs
      exact ⟨hs'.1 b (List.mem_cons_self), hs'.2⟩

/-! ### the two orders used by sort.Ints and sort.Strings -/

theorem int_total_order : TotalOrder (fun (a b : Int) => decide (a ≤ b)) where
  total := by intro a b; simp; omega
  trans := by intro a b c; simp; omega
  antisymm := by intro a b; simp; omega

theorem lexLe_total : ∀ a b, lexLe a b = true ∨ lexLe b a = true
  | [], _ => by simp [lexLe]
  | _ :: _, [] => by simp [lexLe]
  | a :: as, b :: bs => by
    have ih := lexLe_total as bs
    simp only [lexLe, Bool.or_eq_true, Bool.and_eq_true, decide_eq_true_eq, beq_iff_eq]
    by_cases h1 : a < b
    · exact Or.inl (Or.inl h1)
    · by_cases h2 : b < a
      · exact Or.inr (Or.inl h2)
      · have : a = b := by omega
        subst this
        rcases ih with h | h
        · exact Or.inl (Or.inr ⟨rfl, h⟩)
        · exact Or.inr (Or.inr ⟨rfl, h⟩)

theorem lexLe_trans : ∀ a b c, lexLe a b = true → lexLe b c = true → lexLe a c = true
  | [], _, _, _, _ => by simp [lexLe]
  | _ :: _, [], _, h, _ => by simp [lexLe] at h
  | _ :: _, _ :: _, [], _, h => by simp [lexLe] at h
  | a :: as, b :: bs, c :: cs, h1, h2 => by
    simp only [lexLe, Bool.or_eq_true, Bool.and_eq_true, decide_eq_true_eq, beq_iff_eq] at *
    rcases h1 with h1 | ⟨e1, h1⟩ <;> rcases h2 with h2 | ⟨e2, h2⟩
    · exact Or.inl (by omega)
    · exact Or.inl (by omega)
    · exact Or.inl (by omega)
    · exact Or.inr ⟨by omega, lexLe_trans as bs cs h1 h2⟩

theorem lexLe_antisymm : ∀ a b, lexLe a b = true → lexLe b a = true → a = b
  | [], [], _, _ => rfl
  | [], _ :: _, _, h => by simp [lexLe] at h
  | _ :: _, [], h, _ => by simp [lexLe] at h
  | a :: as, b :: bs, h1, h2 => by
    simp only [lexLe, Bool.or_eq_true, Bool.and_eq_true, decide_eq_true_eq, beq_iff_eq] at *
    rcases h1 with h1 | ⟨e1, h1⟩ <;> rcases h2 with h2 | ⟨e2, h2⟩
    · omega
    · omega
    · omega
    · subst e1; rw [lexLe_antisymm as bs h1 h2]

theorem lex_total_order : TotalOrder lexLe := ⟨lexLe_total, lexLe_trans, lexLe_antisymm⟩

/-- sort.Ints: the output is a sorted permutation of the input, and it is the only one -/
theorem sortInts_spec (l : List Int) :
    (sortInts l).Perm l ∧ SortedBy (fun a b => decide (a ≤ b)) (sortInts l) ∧
    ∀ out, SortedBy (fun a b => decide (a ≤ b)) out → out.Perm l → out = sortInts l :=
  ⟨isortBy_perm _ l, isortBy_sorted _ int_total_order l, fun out hs hp => sorted_perm_eq_isort _ int_total_order l out hs hp⟩

/-- sort.Strings (bytewise order) -/
theorem sortStrings_spec (l : List (List Nat)) :
    (sortStrings l).Perm l ∧ SortedBy lexLe (sortStrings l) ∧
    ∀ out, SortedBy lexLe out → out.Perm l → out = sortStrings l :=
  ⟨isortBy_perm _ l, isortBy_sorted _ lex_total_order l, fun out hs hp => sorted_perm_eq_isort _ lex_total_order l out hs hp⟩

example : sortInts [3, -1, 2, -1] = [-1, -1, 2, 3] := by decide
example : sortStrings [[98], [97, 255], [97], []] = [[], [97], [97, 255], [98]] := by decide

end WaVerif.C14
