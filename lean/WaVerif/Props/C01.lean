import WaVerif.Props.C01Rows
/-!
# C01 — property theorems about the operator core of the WebAssembly back end

`Props/C01Rows.lean` proves, for every row of the REGENERATED emit table, that the instruction
sequence the compiler emits for `x op y` computes Go's result for all operand values — under
the guard named in the row's predicate. This file states the full-strength versions, and proves
that the ones that do not hold on the current code are false (with the concrete witness that the
check replays on the real compiler).
-/
namespace WaVerif.C01
open WaVerif WaVerif.Wasm WaVerif.Gen.C01

/-- Full-strength statement for shifts: Go's semantics for EVERY count. -/
def ShiftsFullStatement : Prop :=
  ShlRowFull 32 true 32 false bin_shl_i32_u32 ∧ ShrRowFull 32 true 32 false bin_shr_i32_u32 ∧
  ShlRowFull 64 true 64 false bin_shl_i64_u64 ∧ ShrRowFull 8 false 32 false bin_shr_u8_u32

/-- Full-strength statement for signed division: no excluded operand pair. -/
def SignedQuoFullStatement : Prop :=
  ArithRowFull .quo 32 true bin_quo_i32_i32 ∧ ArithRowFull .quo 64 true bin_quo_i64_i64

set_option linter.unusedSimpArgs false in
/-- `int32(5) << 33` is 0 in Go; the emitted `i32.shl` takes the count modulo 32 and yields 10. -/
theorem shl_i32_count_ge_32_wrong : ¬ ShlRowFull 32 true 32 false bin_shl_i32_u32 := by
  intro h
  have := h 5#32 33#32 (by simp)
  revert this
  unfold bin_shl_i32_u32
  row_simp

set_option linter.unusedSimpArgs false in
/-- `int32(-8) >> 33` is -1 in Go; the emitted `i32.shr_s` yields -4. -/
theorem shr_i32_count_ge_32_wrong : ¬ ShrRowFull 32 true 32 false bin_shr_i32_u32 := by
  intro h
  have := h (-8#32) 33#32 (by simp)
  revert this
  unfold bin_shr_i32_u32
  row_simp

set_option linter.unusedSimpArgs false in
/-- `int64(7) << 65` is 0 in Go; `i64.shl` yields 14. -/
theorem shl_i64_count_ge_64_wrong : ¬ ShlRowFull 64 true 64 false bin_shl_i64_u64 := by
  intro h
  have := h 7#64 65#64 (by simp)
  revert this
  unfold bin_shl_i64_u64
  row_simp

set_option linter.unusedSimpArgs false in
/-- `uint8(200) >> 33` is 0 in Go; `i32.shr_u` yields 100. -/
theorem shr_u8_count_ge_32_wrong : ¬ ShrRowFull 8 false 32 false bin_shr_u8_u32 := by
  intro h
  have := h 200#8 33#32 (by simp)
  revert this
  unfold bin_shr_u8_u32
  row_simp

theorem shifts_full_statement_false : ¬ ShiftsFullStatement :=
  fun h => shl_i32_count_ge_32_wrong h.1

set_option linter.unusedSimpArgs false in
/-- `MinInt32 / -1` is `MinInt32` in Go; `i32.div_s` traps. -/
theorem quo_i32_minint_wrong : ¬ ArithRowFull .quo 32 true bin_quo_i32_i32 := by
  intro h
  have := h (BitVec.intMin 32) (-1#32)
  revert this
  unfold bin_quo_i32_i32
  row_simp

theorem signed_quo_full_statement_false : ¬ SignedQuoFullStatement :=
  fun h => quo_i32_minint_wrong h.1

/-- The guards are satisfiable on non-trivial values (non-vacuity of the `…Below` rows). -/
example : (17#32).toNat < shiftLimit 32 ∧ (40#64).toNat < shiftLimit 64 := by decide

end WaVerif.C01
