import WaVerif.Lemmas.C25
/-!
# C25 — SLIP framing delivers exactly the packets that were sent: property theorems

Every `theorem` in this file is an obligation of the check and is axiom-audited.
The framing bytes, frame classes and the FCS table are the regenerated `WaVerif.Gen.C25`.
-/
namespace WaVerif.C25
open WaVerif.Gen.C25 WaVerif.Stream

/-! ## SLIP: one packet, a stream of packets, arbitrary chunking -/

/-- `ReadPacket` on the writer's output followed by anything returns exactly the payload, marks
it complete (`isPrefix = false`) and leaves exactly what followed. -/
theorem read_encode (p rest : List Nat) (hp : p ≠ []) :
    readPacket (encode p ++ rest) = (p, true, rest) := by
  unfold readPacket encode
  simp only [List.cons_append, List.append_assoc, List.singleton_append, List.nil_append]
  rw [readGo_end_nil, readGo_stuffed p rest [] (by simpa using hp)]
  simp

example : readPacket (encode [0xC0, 0xDB, 0xDC, 0xDD, 1] ++ [7]) = ([0xC0, 0xDB, 0xDC, 0xDD, 1], true, [7]) :=
  read_encode _ _ (by decide)

/-- Every sequence of non-empty payloads, of any length, is read back exactly, in order, with
nothing left over; whatever follows the packets is read as the reader would read it alone. -/
theorem stream_roundtrip_rest (ps : List (List Nat)) (h : ∀ p ∈ ps, p ≠ []) (rest : List Nat) :
    readAll (ps.flatMap encode ++ rest) = (ps ++ (readAll rest).1, (readAll rest).2) := by
  induction ps with
  | nil => simp
  | cons p ps ih =>
    have hp : p ≠ [] := h p (by simp)
    have hps : ∀ q ∈ ps, q ≠ [] := fun q hq => h q (by simp [hq])
    rw [List.flatMap_cons, List.append_assoc, readAll_complete (read_encode p _ hp), ih hps]
    simp

theorem stream_roundtrip (ps : List (List Nat)) (h : ∀ p ∈ ps, p ≠ []) :
    readAll (ps.flatMap encode) = (ps, []) := by
  have h0 : readAll [] = ([], []) := readAll_incomplete (p := []) (r := []) (by simp [readPacket, readGo])
  have := stream_roundtrip_rest ps h []
  simpa [h0] using this

example : readAll ([[0xC0], [0xDB, 0xDB], [1, 0xDC]].flatMap encode) = ([[0xC0], [0xDB, 0xDB], [1, 0xDC]], []) :=
  stream_roundtrip _ (by decide)

/-- However the transport splits the byte stream into reads (every read returns ≥ 1 byte until
EOF), the reader — which pulls single bytes with `Read(readBuf[:1])` — computes exactly what it
computes on the unsplit stream: same packets, same trailing partial packet. -/
theorem chunking_irrelevant (cs : Chunks) (hwf : ChunksWF cs) :
    readAllC (Buffered.ofChunks cs) = readAll cs.flatten := by
  rw [readAllC_flat _ (ofChunks_wf (Nat.le_refl 1) hwf), ofChunks_flat]

example : ChunksWF [[0xC0, 1], [0xDB], [0xDC, 0xC0]] := by
  intro c hc; simp at hc; rcases hc with rfl | rfl | rfl <;> simp

/-- The property for the plain SLIP writer/reader: any non-empty payloads, any chunking. -/
theorem stream_roundtrip_chunked (ps : List (List Nat)) (h : ∀ p ∈ ps, p ≠ [])
    (cs : Chunks) (hwf : ChunksWF cs) (hcs : cs.flatten = ps.flatMap encode) :
    readAllC (Buffered.ofChunks cs) = (ps, []) := by
  rw [chunking_irrelevant cs hwf, hcs, stream_roundtrip ps h]

/-- Empty payloads are the excluded point: the writer emits END END, which the reader skips. -/
theorem empty_payload_dropped (rest : List Nat) : readPacket (encode [] ++ rest) = readPacket rest := by
  unfold readPacket encode
  simp only [List.flatMap_nil, List.nil_append, List.cons_append]
  rw [readGo_end_nil, readGo_end_nil]

/-! ## FCS-16 over the regenerated table -/

set_option maxRecDepth 8192 in
theorem fcstab_length : fcstab.length = 256 := by decide

set_option maxRecDepth 8192 in
/-- every regenerated table entry is the bitwise CRC-16/X-25 of its index -/
theorem fcstab_is_crc16 : ∀ i < 256, fcstab.getD i 0 = crcEntry i := by decide

/-- a message followed by its appended FCS always checks good (`CheckFsc16 (AppendFcs16 d (CalcFcs16 d))`) -/
theorem fcs_good (data : List Nat) : calcFcs (appendFcs data) = BitVec.ofNat 16 cFCS_GOOD := by
  unfold appendFcs calcFcs calcFcsInit
  rw [List.foldl_append]
  exact fcs_two_steps _

theorem check_append (data : List Nat) : checkFcs (appendFcs data) = true := by
  simp [checkFcs, fcs_good]

/-! ## SLIPMUX -/

set_option maxRecDepth 8192 in
/-- the hand-transcribed frame predicates agree with the compiled Go functions on every byte -/
theorem invalid_frames_table : ∀ b < 256, isInvalidFrame b = invalidFrames.contains b := by decide
set_option maxRecDepth 8192 in
theorem ip_frames_table : ∀ b < 256, isIp b = ipFrames.contains b := by decide

theorem mux_accept_body (frame : Nat) (p : List Nat) (hwf : MuxWF frame p) :
    muxAccept (muxBody frame p) = some (p, frame) := by
  obtain ⟨hv, hip, hcoap⟩ := hwf
  by_cases hc : frame = cFRAME_COAP
  · subst hc
    have h4 := hcoap rfl
    have hb : muxBody cFRAME_COAP p = cFRAME_COAP :: (p ++ fcsBytes (calcFcs (cFRAME_COAP :: p))) := by
      simp [muxBody, coap_not_ip, appendFcs]
    have hchk : checkFcs (cFRAME_COAP :: (p ++ fcsBytes (calcFcs (cFRAME_COAP :: p)))) = true := by
      have := check_append (cFRAME_COAP :: p)
      simpa [appendFcs] using this
    rw [hb]
    unfold muxAccept
    simp only [hv, hchk, coap_not_ip, if_true]
    have hlen : ¬ (cFRAME_COAP :: (p ++ fcsBytes (calcFcs (cFRAME_COAP :: p)))).length < 7 := by
      simp [fcsBytes]; omega
    simp only [hlen, if_false, Bool.not_true, Bool.false_eq_true]
    have : (cFRAME_COAP :: (p ++ fcsBytes (calcFcs (cFRAME_COAP :: p)))).length - 2 = (cFRAME_COAP :: p).length := by
      simp [fcsBytes]
    rw [this]
    have : List.take (cFRAME_COAP :: p).length (cFRAME_COAP :: (p ++ fcsBytes (calcFcs (cFRAME_COAP :: p))))
        = cFRAME_COAP :: p := by
      rw [← List.cons_append, List.take_left']; rfl
    rw [this]; simp
  · by_cases hi : isIp frame = true
    · obtain ⟨t, rfl⟩ := hip hi
      simp [muxBody, hi, hc, muxAccept, hv]
    · simp [muxBody, hi, hc, muxAccept, hv]

/-- One frame through `SlipMuxWriter.WritePacket` and back through `SlipMuxReader.ReadPacket`:
same payload, same frame type, and exactly the following bytes are left. -/
theorem mux_roundtrip (frame : Nat) (p rest : List Nat) (hwf : MuxWF frame p) :
    muxRead (muxWrite frame p ++ rest) = some (p, frame, rest) := by
  have hacc := mux_accept_body frame p hwf
  have hne : muxBody frame p ≠ [] := by
    intro h; rw [h] at hacc; simp [muxAccept] at hacc
  unfold muxWrite
  rw [muxRead_of_complete (read_encode _ rest hne), hacc]

example : MuxWF cFRAME_COAP [1, 2, 3, 0xC0] := ⟨by decide, fun h => absurd h (by decide), by decide⟩
example : MuxWF 0x45 [0x45, 0xDB, 0] := ⟨by decide, fun _ => ⟨_, rfl⟩, by decide⟩
example : MuxWF cFRAME_DIAGNOSTIC [0x68, 0x69] := ⟨by decide, fun h => absurd h (by decide), by decide⟩

/-- Any sequence of well-formed frames is delivered exactly, in order, with its frame types. -/
theorem mux_stream_roundtrip (fs : List (Nat × List Nat)) (h : ∀ f ∈ fs, MuxWF f.1 f.2) :
    muxReadAll (fs.flatMap fun f => muxWrite f.1 f.2) = fs := by
  induction fs with
  | nil =>
    have : muxRead [] = none := muxRead_of_incomplete (res := []) (rest := []) (by simp [readPacket, readGo])
    simp [muxReadAll_none this]
  | cons f fs ih =>
    have hf := h f (by simp)
    have hfs : ∀ g ∈ fs, MuxWF g.1 g.2 := fun g hg => h g (by simp [hg])
    rw [List.flatMap_cons, muxReadAll_some (mux_roundtrip f.1 f.2 _ hf), ih hfs]

/-- chunking is irrelevant for the SLIPMUX reader too (it reads only through `Reader.ReadPacket`) -/
theorem mux_chunking_irrelevant (cs : Chunks) (hwf : ChunksWF cs) :
    muxReadAllC (Buffered.ofChunks cs) = muxReadAll cs.flatten := by
  rw [muxReadAllC_flat _ (ofChunks_wf (Nat.le_refl 1) hwf), ofChunks_flat]

/-- The property for SLIPMUX: well-formed frames, any chunking. -/
theorem mux_stream_roundtrip_chunked (fs : List (Nat × List Nat)) (h : ∀ f ∈ fs, MuxWF f.1 f.2)
    (cs : Chunks) (hwf : ChunksWF cs) (hcs : cs.flatten = fs.flatMap fun f => muxWrite f.1 f.2) :
    muxReadAllC (Buffered.ofChunks cs) = fs := by
  rw [mux_chunking_irrelevant cs hwf, hcs, mux_stream_roundtrip fs h]

/-! ## the `MuxWF` guard is tight: what happens at the excluded points (also exercised on the real code) -/

/-- a non-IP frame byte the reader filters (END / ESC / 0): the packet is silently dropped -/
theorem mux_invalid_frame_dropped (frame : Nat) (p rest : List Nat)
    (hinv : isInvalidFrame frame = true) (hnip : isIp frame = false) (hc : frame ≠ cFRAME_COAP) :
    muxRead (muxWrite frame p ++ rest) = muxRead rest := by
  have hb : muxBody frame p = frame :: p := by simp [muxBody, hnip, hc]
  unfold muxWrite
  rw [hb, muxRead_of_complete (read_encode _ rest (by simp))]
  simp [muxAccept, hinv]

/-- a CoAP payload shorter than 4 bytes is silently dropped -/
theorem mux_short_coap_dropped (p rest : List Nat) (hlen : p.length < 4) :
    muxRead (muxWrite cFRAME_COAP p ++ rest) = muxRead rest := by
  have hb : muxBody cFRAME_COAP p = cFRAME_COAP :: (p ++ fcsBytes (calcFcs (cFRAME_COAP :: p))) := by
    simp [muxBody, coap_not_ip, appendFcs]
  unfold muxWrite
  rw [hb, muxRead_of_complete (read_encode _ rest (by simp))]
  have : (cFRAME_COAP :: (p ++ fcsBytes (calcFcs (cFRAME_COAP :: p)))).length < 7 := by
    simp [fcsBytes]; omega
  have hv : isInvalidFrame cFRAME_COAP = false := by decide
  simp only [muxAccept, hv, if_true, this]
  simp

/-- an IP frame byte that is not the payload's first byte is NOT what the reader reports:
the statement without the `MuxWF.ip` guard is false (witness, replayed on the real code) -/
theorem mux_ip_frame_not_prepended :
    muxRead (muxWrite 0x45 [0x60, 1]) = some ([0x60, 1], 0x60, []) := by
  have hb : muxBody 0x45 [0x60, 1] = [0x60, 1] := by decide
  have := muxRead_of_complete (read_encode [0x60, 1] [] (by simp))
  unfold muxWrite
  rw [hb]
  simp only [List.append_nil] at this
  rw [this]
  decide

/-! ## Self-delimiting wire format: END occurs only at packet boundaries -/

/-- Byte stuffing removes every END from the body. -/
theorem stuffed_no_end (p : List Nat) : ∀ x ∈ p.flatMap stuff, x ≠ cEND := by
  intro x hx
  rw [List.mem_flatMap] at hx
  obtain ⟨b, _, hb⟩ := hx
  unfold stuff at hb
  by_cases h1 : b = cEND
  · rw [if_pos h1] at hb
    simp only [List.mem_cons, List.not_mem_nil, or_false] at hb
    rcases hb with rfl | rfl <;> decide
  · rw [if_neg h1] at hb
    by_cases h2 : b = cESC
    · rw [if_pos h2] at hb
      simp only [List.mem_cons, List.not_mem_nil, or_false] at hb
      rcases hb with rfl | rfl <;> decide
    · rw [if_neg h2] at hb
      simp only [List.mem_cons, List.not_mem_nil, or_false] at hb
      rw [hb]; exact h1

theorem encode_end_count (p : List Nat) : (encode p).count cEND = 2 := by
  unfold encode
  have h : (p.flatMap stuff).count cEND = 0 :=
    List.count_eq_zero.mpr (fun hm => stuffed_no_end p _ hm rfl)
  simp [List.count_append, h]

theorem stream_end_count (ps : List (List Nat)) : (ps.flatMap encode).count cEND = 2 * ps.length := by
  induction ps with
  | nil => simp
  | cons p ps ih =>
    rw [List.flatMap_cons, List.count_append, encode_end_count, ih, List.length_cons]; omega

/-- Wire size of a packet: between n+2 and 2n+2 bytes. -/
theorem encode_length_bounds (p : List Nat) : p.length + 2 ≤ (encode p).length ∧ (encode p).length ≤ 2 * p.length + 2 := by
  unfold encode
  have : p.length ≤ (p.flatMap stuff).length ∧ (p.flatMap stuff).length ≤ 2 * p.length := by
    induction p with
    | nil => simp
    | cons b p ih =>
      have hb : 1 ≤ (stuff b).length ∧ (stuff b).length ≤ 2 := by
        unfold stuff; split
        · simp
        · split <;> simp
      simp only [List.flatMap_cons, List.length_append, List.length_cons]; omega
  simp only [List.length_cons, List.length_append, List.length_nil]; omega

example : (encode [cEND, cESC, 7]).count cEND = 2 := encode_end_count _

/-! ## Truncation safety -/

theorem readGo_no_end : ∀ (s acc : List Nat) (e : Bool), (∀ x ∈ s, x ≠ cEND) → (readGo s acc e).2.1 = false
  | [], acc, e, _ => by cases e <;> simp [readGo]
  | c :: rest, acc, true, h => by
    rw [readGo]; exact readGo_no_end rest _ false (fun x hx => h x (by simp [hx]))
  | b :: rest, acc, false, h => by
    have hb : b ≠ cEND := h b (by simp)
    have hr : ∀ x ∈ rest, x ≠ cEND := fun x hx => h x (by simp [hx])
    rw [readGo, if_neg hb]
    by_cases h3 : b = cESC
    · rw [if_pos h3]; exact readGo_no_end rest _ true hr
    · rw [if_neg h3]; exact readGo_no_end rest _ false hr

/-- A proper prefix of one packet's wire bytes never yields a complete packet. -/
theorem readPacket_truncated (p : List Nat) (k : Nat) (hk : k < (encode p).length) :
    (readPacket ((encode p).take k)).2.1 = false := by
  unfold readPacket
  cases k with
  | zero => simp [readGo]
  | succ j =>
    have hlen : (encode p).length = (p.flatMap stuff).length + 2 := by simp [encode]
    have hj : j ≤ (p.flatMap stuff).length := by omega
    have : (encode p).take (j + 1) = cEND :: (p.flatMap stuff).take j := by
      unfold encode
      rw [List.take_succ_cons, List.take_append_of_le_length hj]
    rw [this, readGo_end_nil]
    exact readGo_no_end _ _ _ (fun x hx => stuffed_no_end p x (List.mem_of_mem_take hx))

/-- Truncation safety: cut the byte stream of any packet sequence at ANY point — the reader
delivers, as complete packets, exactly a prefix of what was sent (never a corrupted or invented
packet). -/
theorem stream_truncation_safe (ps : List (List Nat)) (h : ∀ p ∈ ps, p ≠ []) (k : Nat) :
    (readAll ((ps.flatMap encode).take k)).1 <+: ps := by
  induction ps generalizing k with
  | nil => 
    have h0 : readAll [] = ([], []) := readAll_incomplete (p := []) (r := []) (by simp [readPacket, readGo])
    simp [h0]
  | cons p ps ih =>
    have hp : p ≠ [] := h p (by simp)
    have hps : ∀ q ∈ ps, q ≠ [] := fun q hq => h q (by simp [hq])
    rw [List.flatMap_cons, List.take_append]
    by_cases hk : k < (encode p).length
    · have hz : k - (encode p).length = 0 := by omega
      rw [hz, List.take_zero, List.append_nil]
      have hf := readPacket_truncated p k hk
      have : readAll ((encode p).take k) = ([], (readPacket ((encode p).take k)).1) := by
        apply readAll_incomplete (r := (readPacket ((encode p).take k)).2.2)
        rw [← hf]
      rw [this]; exact List.nil_prefix
    · have hfull : (encode p).take k = encode p := List.take_of_length_le (by omega)
      rw [hfull, readAll_complete (read_encode p _ hp)]
      exact List.prefix_cons_inj p |>.mpr (ih hps _)

example : (readAll (([[1, cEND], [2]].flatMap encode).take 6)).1 <+: [[1, cEND], [2]] :=
  stream_truncation_safe _ (by decide) 6

end WaVerif.C25
