import WaVerif.Model.C29
import WaVerif.Gen.C29
/-!
# C29 — property theorems (`wa run` exit status reflects how the program ended)

`Statement cfg` is the property at full strength for a decision table `cfg`.  It is proved
equivalent to the decidable condition `Sound cfg` ("every error branch ends in a non-zero exit and
exit codes are passed through"), so for the table regenerated from the current source
(`cfgCurrent`) the kernel decides which case holds (`cfgCurrent_sound_checked`): if sound the full
statement is a theorem about the current code's table, if not a concrete failing class exists and
the check replays it against the real binary.

For the pinned commit's table the full statement is false (`status_zero_iff_normal_false_pinned`,
`status_nonzero_on_panic_trap_compile_false_pinned`) and the `_partial` versions are proved.
-/
namespace WaVerif.C29

/-- the full statement -/
def Statement (cfg : Cfg) : Prop := ∀ inp o, Expected o (status cfg inp o)

def StatusZeroIffNormalStatement (cfg : Cfg) : Prop :=
  ∀ inp o, status cfg inp o = 0 ↔ (o = .normal ∨ ∃ n, o = .exit n ∧ exitStatus n = 0)

def StatusNonzeroStatement (cfg : Cfg) : Prop :=
  ∀ inp o, (o = .panic ∨ o = .trap ∨ o = .compileError ∨ o = .moduleError ∨ o = .unreadable) →
    status cfg inp o ≠ 0

/-! ## generic: full strength under `Sound`, and `Sound` is necessary -/

theorem sound_unfold {cfg : Cfg} (h : Sound cfg = true) :
    procStatus cfg cfg.watRead ≠ 0 ∧ procStatus cfg cfg.watCompile ≠ 0 ∧
    procStatus cfg cfg.waCompile ≠ 0 ∧ procStatus cfg cfg.waModule ≠ 0 ∧
    cfg.waRun.propagatesExit = true ∧ procStatus cfg cfg.waRun.other ≠ 0 ∧
    procStatus cfg cfg.wasmRead ≠ 0 ∧ cfg.wasmRun.propagatesExit = true ∧
    procStatus cfg cfg.wasmRun.other ≠ 0 := by
  simpa [Sound, nz, and_assoc] using h

example : Sound cfgRepaired = true := by decide

/-- the whole property for a sound table -/
theorem statement_of_sound (cfg : Cfg) (h : Sound cfg = true) : Statement cfg := by
  obtain ⟨h1, h2, h3, h4, h5, h6, h7, h8, h9⟩ := sound_unfold h
  intro inp o
  cases inp <;> cases o <;> simp [Expected, status, runStatus, hostObs, h5, h8, exitStatus] <;> assumption

/-- a program that calls exit(n) yields status n (low 8 bits, as the OS reports it) -/
theorem status_exit_code (cfg : Cfg) (h : Sound cfg = true) (inp : Input) (n : Nat) :
    status cfg inp (.exit n) = exitStatus n := by
  have := statement_of_sound cfg h inp (.exit n)
  simpa [Expected] using this

theorem status_exit_code_small (cfg : Cfg) (h : Sound cfg = true) (inp : Input) (n : Nat) (hn : n < 256) :
    status cfg inp (.exit n) = n := by
  rw [status_exit_code cfg h]; exact Nat.mod_eq_of_lt hn

example : (3 : Nat) < 256 := by decide

/-- status 0 exactly for a normal return (or an explicit exit with status 0) -/
theorem status_zero_iff_normal (cfg : Cfg) (h : Sound cfg = true) : StatusZeroIffNormalStatement cfg := by
  intro inp o
  have hs := statement_of_sound cfg h inp o
  cases o <;> simp [Expected] at hs ⊢ <;> first | exact hs | (rw [hs])

theorem status_nonzero_on_panic_trap_compile (cfg : Cfg) (h : Sound cfg = true) : StatusNonzeroStatement cfg := by
  intro inp o ho
  have hs := statement_of_sound cfg h inp o
  rcases ho with rfl | rfl | rfl | rfl | rfl <;> simpa [Expected] using hs

/-- `Sound` is also necessary: the full statement holds for a table iff the table is sound -/
theorem statement_iff_sound (cfg : Cfg) : Statement cfg ↔ Sound cfg = true := by
  constructor
  · intro hst
    have a1 := hst .wat .unreadable
    have a2 := hst .wat .compileError
    have a3 := hst .wa .compileError
    have a4 := hst .wa .moduleError
    have a5 := hst .wa .trap
    have a6 := hst .wasm .unreadable
    have a7 := hst .wasm .trap
    have e0 := hst .wa (.exit 0)
    have e1 := hst .wa (.exit 1)
    have f0 := hst .wasm (.exit 0)
    have f1 := hst .wasm (.exit 1)
    simp only [Expected, status, runStatus, hostObs, exitStatus] at a1 a2 a3 a4 a5 a6 a7 e0 e1 f0 f1
    have p1 : cfg.waRun.propagatesExit = true := by
      cases hp : cfg.waRun.propagatesExit
      · simp [hp] at e0 e1; omega
      · rfl
    have p2 : cfg.wasmRun.propagatesExit = true := by
      cases hp : cfg.wasmRun.propagatesExit
      · simp [hp] at f0 f1; omega
      · rfl
    simp [Sound, nz, p1, p2]
    exact ⟨⟨⟨⟨⟨⟨a1, a2⟩, a3⟩, a4⟩, a5⟩, a6⟩, a7⟩
  · exact statement_of_sound cfg

/-! ## the table regenerated from the current source -/

/-- the generator's claim about the current table is re-checked by the kernel -/
theorem cfgCurrent_sound_checked : Sound cfgCurrent = cfgCurrentSound := by decide

/-- whichever way the current source decides, the model says exactly what that means -/
theorem current_verdict :
    (cfgCurrentSound = true → Statement cfgCurrent) ∧
    (cfgCurrentSound = false → ¬ Statement cfgCurrent) := by
  rw [← cfgCurrent_sound_checked]
  constructor
  · exact statement_of_sound cfgCurrent
  · intro h hst
    have := (statement_iff_sound cfgCurrent).mp hst
    simp [h] at this

/-! ## the pinned commit: the full statement is false; witnesses and partial versions -/

/-- witness: a trapping `.wa` program (integer divide by zero) exits with status 0 -/
theorem status_zero_iff_normal_false_pinned : ¬ StatusZeroIffNormalStatement cfgPinned := by
  intro h
  have := (h .wa .trap).mp (by decide)
  simp at this

theorem status_nonzero_on_panic_trap_compile_false_pinned : ¬ StatusNonzeroStatement cfgPinned := by
  intro h
  exact h .wa .trap (by simp) (by decide)

/-- second root cause: an error *returned* by the action is dropped by `main` — a `.wat` file with a
syntax error exits 0 -/
theorem status_nonzero_false_pinned_wat_compile : status cfgPinned .wat .compileError = 0 := by decide

theorem statement_false_pinned : ¬ Statement cfgPinned := by
  intro h
  have := (statement_iff_sound cfgPinned).mp h
  exact absurd this (by decide)

/-- everything outside the affected classes is right on the pinned commit -/
theorem statement_partial_pinned (inp : Input) (o : Outcome) (h : AffectedPinned inp o = false) :
    Expected o (status cfgPinned inp o) := by
  cases inp <;> cases o <;> simp [AffectedPinned] at h <;>
    simp [Expected, status, runStatus, hostObs, cfgPinned, procStatus, exitStatus]

example : AffectedPinned .wa .panic = false := rfl
example : AffectedPinned .wat (.exit 3) = false := rfl

theorem status_zero_iff_normal_partial (inp : Input) (o : Outcome) (h : AffectedPinned inp o = false) :
    status cfgPinned inp o = 0 ↔ (o = .normal ∨ ∃ n, o = .exit n ∧ exitStatus n = 0) := by
  have hs := statement_partial_pinned inp o h
  cases o <;> simp [Expected] at hs ⊢ <;> first | exact hs | (rw [hs])

theorem status_exit_code_pinned (inp : Input) (n : Nat) : status cfgPinned inp (.exit n) = exitStatus n := by
  cases inp <;> simp [status, runStatus, hostObs, cfgPinned]

theorem status_nonzero_on_panic_compile_partial (inp : Input) (o : Outcome)
    (ho : o = .panic ∨ (inp = .wa ∧ (o = .compileError ∨ o = .moduleError ∨ o = .unreadable))) :
    status cfgPinned inp o ≠ 0 := by
  rcases ho with rfl | ⟨rfl, rfl | rfl | rfl⟩
  · cases inp <;> decide
  all_goals decide

/-- the affected classes are exactly the ones that go wrong (none of them is a false accusation) -/
theorem affected_pinned_all_fail (inp : Input) (o : Outcome) (h : AffectedPinned inp o = true) :
    ¬ Expected o (status cfgPinned inp o) := by
  cases inp <;> cases o <;> simp [AffectedPinned] at h <;>
    simp [Expected, status, runStatus, hostObs, cfgPinned, procStatus]

example : AffectedPinned .wa .trap = true := rfl

end WaVerif.C29
