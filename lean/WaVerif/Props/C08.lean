import WaVerif.Model.C08
import WaVerif.Gen.C08
import WaVerif.Lemmas.C08
/-!
# C08 — property theorems (the proved core: language dispatch of `FormatCode` / `GetCodeSyntax`)

The parsers and the type checker are not modelled (explored by harness/c08).  What is proved is the
decision logic of `xlang.DetectLang` + the switch of `format.File`:

* `DispatchTotal cfg` — the full statement `dispatch_total`: no (file name, content) reaches the
  panicking branch.  It is equivalent to the decidable `Sound cfg` (`dispatch_total_iff`), so the kernel
  decides it for the table regenerated from the current source (`cfgCurrent_checked`,
  `current_verdict`).
* `dispatch_total` — the full statement as a theorem about the table of the CURRENT source (true since
  the `fix:` commit that made the default branch of `format.File` return an error).
* On the pinned commit's table (`cfgPinned`, kept as documentation of the defect) it is false:
  `dispatch_total_false_pinned` with the witness `FormatCode("x.txt", "1")` (`dispatch_witness_pinned`);
  the check still replays that input on the real code (it must now return an error).
* `dispatch_total_partial` — for the file names the tables know, no content reaches PANIC; and the
  language is then independent of the content (`detect_known_ext`).
* `dispatch_panic_iff_pinned` + `detect_unknown_iff` — exactly which inputs panic.
-/
namespace WaVerif.C08

/-- the full statement -/
def DispatchTotal (cfg : Cfg) : Prop :=
  ∀ name wa na wt, dispatch cfg name wa na wt ≠ .PANIC

/-! ## generic -/

theorem sound_all {cfg : Cfg} (h : Sound cfg = true) (l : Lang) : formatOutcome cfg l ≠ .PANIC := by
  simp [Sound, allLangs] at h
  cases l <;> simp_all

theorem dispatch_total_of_sound (cfg : Cfg) (h : Sound cfg = true) : DispatchTotal cfg :=
  fun _ _ _ _ => sound_all h _

/-- every language is detected for some content of a file whose name no table matches -/
theorem detect_reaches (cfg : Cfg) (h : extLang cfg [] = none) (l : Lang) :
    ∃ wa na wt, detect cfg [] wa na wt = l := by
  cases l
  · exact ⟨[], [], [], by simp [detect, h, waStage, aStage]⟩
  · exact ⟨[.keyword], [], [], by simp [detect, h, waStage]⟩
  · exact ⟨[.wzIdent], [], [], by simp [detect, h, waStage]⟩
  · exact ⟨[], [], [.keyword], by simp [detect, h, waStage, aStage]⟩
  · exact ⟨[], [.keyword], [], by simp [detect, h, waStage, aStage]⟩

/-- `dispatch_total`, decided: the full statement holds for a table iff no language is sent to the
panicking branch (for tables without an empty key — true of `cfgCurrent`, see `cfgCurrent_checked`) -/
theorem dispatch_total_iff (cfg : Cfg) (h : extLang cfg [] = none) :
    DispatchTotal cfg ↔ Sound cfg = true := by
  constructor
  · intro ht
    have key : ∀ l, formatOutcome cfg l ≠ .PANIC := by
      intro l
      obtain ⟨wa, na, wt, hd⟩ := detect_reaches cfg h l
      have := ht [] wa na wt
      simpa [dispatch, hd] using this
    simp [Sound, allLangs, key]
  · exact dispatch_total_of_sound cfg

example : extLang cfgPinned [] = none := by decide
example : extLang cfgRepaired [] = none := by decide

/-- the language of a file whose name the tables know does not depend on the content -/
theorem detect_known_ext (cfg : Cfg) (name : List Char) (l : Lang) (h : extLang cfg name = some l)
    (wa : List WaTok) (na wt : List ATok) : detect cfg name wa na wt = l := by
  simp [detect, h]

example : extLang cfgPinned ['x', '.', 'W', 'a'] = some .wa := by decide
example : extLang cfgPinned ['x', '.', 'w', 'z', '.', 's'] = some .nasm := by decide

/-- `dispatch_total_partial`: for the known extensions no content reaches PANIC -/
theorem dispatch_total_partial (cfg : Cfg) (hs : TablesSafe cfg = true) (name : List Char)
    (hk : (extLang cfg name).isSome = true) (wa : List WaTok) (na wt : List ATok) :
    dispatch cfg name wa na wt ≠ .PANIC := by
  obtain ⟨l, hl⟩ := Option.isSome_iff_exists.mp hk
  rw [dispatch, detect_known_ext cfg name l hl]
  simp only [TablesSafe, Bool.and_eq_true, List.all_eq_true] at hs
  rcases extLang_mem cfg name l hl with ⟨e, he, rfl⟩ | ⟨e, he, rfl⟩
  · simpa using hs.1 e he
  · simpa using hs.2 e he

example : TablesSafe cfgPinned = true := by decide
example : (extLang cfgPinned ['a', '.', 'w', 'a', 't']).isSome = true := by decide

/-- which contents of a file with an unknown name are detected as nothing -/
theorem detect_unknown_iff (cfg : Cfg) (h1 : cfg.waOther = .retUnknown) (name : List Char)
    (h2 : extLang cfg name ≠ some .unknown) (wa : List WaTok) (na wt : List ATok) :
    detect cfg name wa na wt = .unknown ↔
      extLang cfg name = none ∧
      (waFirst wa = .other ∨
        ((waFirst wa = .eof ∨ waFirst wa = .illegal) ∧ hasKw na = false ∧ hasKw wt = false)) := by
  unfold detect
  cases he : extLang cfg name with
  | some l =>
    have : l ≠ .unknown := by intro hl; exact h2 (by rw [he, hl])
    simp [this]
  | none =>
    simp only [waStage_retUnknown cfg h1, aStage_eq, true_and]
    have hc := waFirst_ne_comment wa
    cases hw : waFirst wa <;> simp [waVerdict, hw] at hc ⊢
    all_goals (cases hasKw na <;> cases hasKw wt <;> simp)

example : cfgPinned.waOther = .retUnknown := rfl
example : extLang cfgPinned ['x', '.', 't', 'x', 't'] ≠ some .unknown := by decide

/-! ## the table regenerated from the current source -/

/-- the generator's claim about the current table is re-checked by the kernel -/
theorem cfgCurrent_checked :
    Sound cfgCurrent = cfgCurrentSound ∧ extLang cfgCurrent [] = none ∧ TablesSafe cfgCurrent = true := by
  decide

/-- whichever way the current source decides, the model says exactly what that means -/
theorem current_verdict :
    (cfgCurrentSound = true → DispatchTotal cfgCurrent) ∧
    (cfgCurrentSound = false → ¬ DispatchTotal cfgCurrent) := by
  rw [← cfgCurrent_checked.1]
  constructor
  · exact dispatch_total_of_sound cfgCurrent
  · intro h ht
    have := (dispatch_total_iff cfgCurrent cfgCurrent_checked.2.1).mp ht
    simp [h] at this

/-- **`dispatch_total` — the full statement, for the current source.**  Since the repair of
`format.File` (its default branch returns an error instead of `panic("unreachable")`) the table
regenerated from the source is sound, so no file name and no content reaches a panic.  If a later change
sends some language to a panicking branch again, the regenerated `cfgCurrentSound` becomes `false`,
this theorem stops checking, and the check replays the model's witness on the real code. -/
theorem dispatch_total : DispatchTotal cfgCurrent := current_verdict.1 (by decide)

/-- for the file names the current tables know, no content reaches PANIC -/
theorem dispatch_total_partial_current (name : List Char) (hk : (extLang cfgCurrent name).isSome = true)
    (wa : List WaTok) (na wt : List ATok) : dispatch cfgCurrent name wa na wt ≠ .PANIC :=
  dispatch_total_partial cfgCurrent cfgCurrent_checked.2.2 name hk wa na wt

/-! ## the pinned commit: the full statement is false -/

/-- the witness: `FormatCode("x.txt", "1")` — unknown extension, the Wa scanner's first token is an
INT literal (class `other`), so `DetectLang` returns Unknown and `format.File` panics -/
theorem dispatch_witness_pinned :
    dispatch cfgPinned ['x', '.', 't', 'x', 't'] [.other, .eof] [.other, .eof] [.other, .eof] = .PANIC := by
  decide

theorem dispatch_total_false_pinned : ¬ DispatchTotal cfgPinned :=
  fun h => h _ _ _ _ dispatch_witness_pinned

/-- a second witness class: nothing at all is recognised (empty content) -/
theorem dispatch_witness_pinned_empty : dispatch cfgPinned ['x'] [.eof] [.eof] [.eof] = .PANIC := by
  decide

theorem extLang_pinned_ne_unknown (name : List Char) : extLang cfgPinned name ≠ some .unknown := by
  intro h
  rcases extLang_mem cfgPinned name .unknown h with ⟨e, he, hu⟩ | ⟨e, he, hu⟩
  · simp [cfgPinned] at he
    rcases he with rfl | rfl | rfl <;> simp at hu
  · simp [cfgPinned] at he
    rcases he with rfl | rfl <;> simp at hu

/-- on the pinned commit an input panics exactly when it is detected as Unknown … -/
theorem dispatch_panic_iff_pinned (name : List Char) (wa : List WaTok) (na wt : List ATok) :
    dispatch cfgPinned name wa na wt = .PANIC ↔ detect cfgPinned name wa na wt = .unknown := by
  unfold dispatch
  cases detect cfgPinned name wa na wt <;> decide

/-- … that is: unknown file name, and the first significant Wa token is unrecognised, or the Wa
scanner sees nothing (EOF / ILLEGAL first) and neither the assembly nor the WAT scanner finds a keyword -/
theorem dispatch_panic_characterisation (name : List Char) (wa : List WaTok) (na wt : List ATok) :
    dispatch cfgPinned name wa na wt = .PANIC ↔
      extLang cfgPinned name = none ∧
      (waFirst wa = .other ∨
        ((waFirst wa = .eof ∨ waFirst wa = .illegal) ∧ hasKw na = false ∧ hasKw wt = false)) := by
  rw [dispatch_panic_iff_pinned]
  exact detect_unknown_iff cfgPinned rfl name (extLang_pinned_ne_unknown name) wa na wt

/-- with the proposed repair (default branch returns an error) the full statement holds -/
theorem dispatch_total_repaired : DispatchTotal cfgRepaired :=
  dispatch_total_of_sound cfgRepaired (by decide)

/-- … and what used to panic now is an error, nothing else changes -/
theorem dispatch_repaired_eq (name : List Char) (wa : List WaTok) (na wt : List ATok) :
    dispatch cfgRepaired name wa na wt =
      if dispatch cfgPinned name wa na wt = .PANIC then .error else dispatch cfgPinned name wa na wt := by
  have hd : detect cfgRepaired name wa na wt = detect cfgPinned name wa na wt :=
    detect_congr cfgRepaired cfgPinned rfl rfl rfl name wa na wt
  unfold dispatch
  rw [hd]
  cases detect cfgPinned name wa na wt <;> decide

end WaVerif.C08
