import WaVerif.Model.C05
import WaVerif.Lemmas.C05
import WaVerif.Lemmas.C05Func
import WaVerif.Lemmas.C05Wf
/-!
# C05 — property theorems (WAT printer output grammar)

Every `theorem` in this file is an obligation of the check and is axiom-audited.
The model (`Model/C05.lean`) is the INTENDED output grammar of `internal/wat/printer` over tokens that
carry their values, with flat instruction lists; what the theorems do not cover (instruction nesting,
the character level, the real scanner/parser) is decided per input by the oracle in checks/c05.py.
-/
namespace WaVerif.C05

/-- token layer: the parenthesis structure of a printed tree is recovered exactly -/
theorem unflatten_flatten (e : SExp) : unflatten (flatten e) = some [e] := by
  have := unflat_flatten e [] [] []
  simpa [unflatten, unflat] using this

/-- Parsing the printed tokens of a well-formed module gives the module back: the output grammar
is unambiguous (field kinds are told apart by their head keyword, optional names by the `$` token
class, a function's header from its body by the first mnemonic, an instruction's operands by the
next mnemonic). -/
theorem parse_print (m : Module) (h : m.WF) : parse (print m) = some m := by
  simp [parse, print, unflatten_flatten, Module.ofS_toS m h]

/-- printing is idempotent through the parser -/
theorem print_idempotent (m : Module) (h : m.WF) :
    ∀ m', parse (print m) = some m' → print m' = print m := by
  intro m' hm
  rw [parse_print m h] at hm
  cases hm
  rfl

/-- whatever the parser accepts is well formed … -/
theorem parse_wellformed (ts : List Tok) (m : Module) (h : parse ts = some m) : m.WF :=
  parse_wf ts m h

/-- … hence for EVERY token stream the parser accepts (not only printer output), printing the parsed
module and parsing again is the identity: `parse ∘ print ∘ parse = parse`, and so
`print ∘ parse ∘ print ∘ parse = print ∘ parse` (idempotence of formatting). -/
theorem print_parse_fixpoint (ts : List Tok) (m : Module) (h : parse ts = some m) :
    parse (print m) = some m :=
  parse_print m (parse_wf ts m h)

/-- the hypotheses are satisfiable by a module that uses every field kind -/
def sampleModule : Module :=
  { name := some "m"
    imports := [.func [101] [102] (.name "log") ⟨[.i32], []⟩, .global [101] [103] (.name "gi") .i64,
                .memory [101] [109] none 1 (some 2)]
    exports := [⟨[103], .func, .name "g"⟩, ⟨[109], .memory, .num 0⟩]
    memory := none
    table := some ⟨some "tab", 2, none⟩
    types := [⟨some "t", ⟨[.i32], [.i32]⟩⟩]
    globals := [⟨some "x", true, .f32, .flt 32 1069547520⟩, ⟨none, false, .i64, .int (-5)⟩]
    funcs := [⟨"g", some [120], [⟨some "a", .i32⟩, ⟨none, .i64⟩], [.i32], [⟨some "t", .f64⟩],
               [⟨"block", [A (.id "out"), L [K "result", K "i32"]]⟩, ⟨"local.get", [A (.id "a")]⟩,
                ⟨"i32.load", [K "offset", K "=", A (.int 8)]⟩, ⟨"call_indirect", [L [K "type", A (.id "t")]]⟩,
                ⟨"br_table", [A (.int 0), A (.id "out")]⟩, ⟨"end", []⟩]⟩]
    start := some (.name "g")
    data := [⟨none, 8, [104, 105, 0, 255]⟩]
    elems := [⟨0, [.name "g", .num 0]⟩] }

example : sampleModule.WF := by
  intro f hf
  simp [sampleModule] at hf
  subst hf
  intro i hi
  simp at hi
  rcases hi with rfl | rfl | rfl | rfl | rfl | rfl <;> intro a ha <;> simp at ha <;>
    (try rcases ha with rfl | rfl | rfl) <;> (try subst ha) <;> rfl

example : parse (print sampleModule) = some sampleModule := parse_print _ (by
  intro f hf
  simp [sampleModule] at hf
  subst hf
  intro i hi
  simp at hi
  rcases hi with rfl | rfl | rfl | rfl | rfl | rfl <;> intro a ha <;> simp at ha <;>
    (try rcases ha with rfl | rfl | rfl) <;> (try subst ha) <;> rfl)

end WaVerif.C05
