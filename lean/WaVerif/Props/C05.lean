import WaVerif.Model.C05
namespace WaVerif.C05

mutual
theorem unflat_flatten : ∀ (e : SExp) ts cur stk, unflat (flatten e ++ ts) cur stk = unflat ts (e :: cur) stk
  | .atom a, ts, cur, stk => by simp [flatten, unflat]
  | .list l, ts, cur, stk => by
    simp only [flatten, List.cons_append, List.append_assoc, unflat]
    rw [unflat_flattenL l]
    simp [unflat]
theorem unflat_flattenL : ∀ (es : List SExp) ts cur stk, unflat (flattenL es ++ ts) cur stk = unflat ts (es.reverse ++ cur) stk
  | [], ts, cur, stk => by simp [flattenL]
  | e :: es, ts, cur, stk => by
    simp only [flattenL, List.append_assoc]
    rw [unflat_flatten e, unflat_flattenL es]
    simp
end

theorem unflatten_flatten (e : SExp) : unflatten (flatten e) = some [e] := by
  have := unflat_flatten e [] [] []
  simpa [unflatten, unflat] using this

end WaVerif.C05
