import WaVerif.Model.C15
/-! placeholder, replaced below -/
namespace WaVerif.C15
theorem placeholder_c15 : fits64 0 = true := by decide
end WaVerif.C15
