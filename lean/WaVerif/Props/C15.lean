import WaVerif.Lemmas.C15Bridge
/-!
# C15 — property theorems (constant folding: exact arithmetic, representability, fold = run time)

Every `theorem` in this file is an obligation of the check and is axiom-audited.
`binaryOp true` is the pinned code (int64 fast path of `QUO_ASSIGN` wraps `MinInt64 / -1`),
`binaryOp false` the code with that case repaired; the check probes which one /repo has.
-/
namespace WaVerif.C15
open WaVerif

/-! ## 1. untyped constant arithmetic is exact -/

/-- full statement: `BinaryOp` equals exact integer arithmetic (and panics exactly on a zero divisor) -/
def ConstIntExactStatement (quoWraps : Bool) : Prop :=
  ∀ (op : BOp) (x y : Int),
    binaryOp quoWraps op x y = if op.isDiv && decide (y = 0) then none else some (exactBin op x y)

/-- The repaired code satisfies the full statement: all fast paths (`is63bit`, `is32bit`, `int64`
bit operations, `int64` remainder) and the math/big paths give the exact result. -/
theorem const_int_exact : ConstIntExactStatement false :=
  fun op x y => binaryOp_exact_of false op x y (fun h => by cases h)

/-- The pinned code is exact everywhere except at the single point `MinInt64 / -1`. -/
theorem const_int_exact_partial (op : BOp) (x y : Int)
    (h : ¬(op = .quo ∧ x = -(2:Int)^63 ∧ y = -1)) :
    binaryOp true op x y = if op.isDiv && decide (y = 0) then none else some (exactBin op x y) :=
  binaryOp_exact_of true op x y (fun _ => h)

/-- … and at that point it is wrong: the full statement is false of the pinned code
(witness replayed on the real code by the check: finding `binaryop:int64-quo-minint-by-minus1`). -/
theorem const_int_exact_quo_minint_wrong : ¬ ConstIntExactStatement true := by
  intro h
  have := h .quo (-(2:Int)^63) (-1)
  revert this; decide

example : ¬(BOp.quo = .quo ∧ (7:Int) = -(2:Int)^63 ∧ (2:Int) = -1) := by decide
example : binaryOp true .mul (2^31 - 1) (2^31 - 1) = some 4611686014132420609 := by decide
example : binaryOp true .add (2^63 - 1) 1 = some (2^63) := by decide

/-- the bitwise operators are the bitwise operations on the infinite two's-complement expansions -/
theorem const_int_exact_bits (x y : Int) (i : Nat) :
    tbit (exactBin .and x y) i = (tbit x i && tbit y i) ∧
    tbit (exactBin .or x y) i = (tbit x i || tbit y i) ∧
    tbit (exactBin .xor x y) i = (tbit x i ^^ tbit y i) ∧
    tbit (exactBin .andnot x y) i = (tbit x i && !tbit y i) :=
  ⟨tbit_land x y i, tbit_lor x y i, tbit_lxor x y i, tbit_landnot x y i⟩

/-- `Shift`: `x << s = x·2^s`, `x >> s = ⌊x / 2^s⌋`, for every count (also through the int64 fast path) -/
theorem shift_exact (op : SOp) (x : Int) (s : Nat) : shift op x s = exactShift op x s :=
  shift_exact_lem op x s

/-- `UnaryOp`: `+x`, `-x` (with the `int64` overflow guard), `^x` with the precision rule -/
theorem unary_exact (op : UOp) (y : Int) (prec : Nat) : unaryOp op y prec = exactUn op y prec :=
  unary_exact_lem op y prec

/-- the `^x` rule for an unsigned type of `w` bits yields the `w`-bit complement `2^w - 1 - x` -/
theorem unary_not_unsigned (w : Nat) (x : Int) (hw : 0 < w) (hx : 0 ≤ x ∧ x < 2 ^ w) :
    unaryOp .not x w = 2 ^ w - 1 - x := by
  rw [unary_exact_lem, exactUn_not]
  rw [if_neg (by omega)]
  have e : -x - 1 = (2 ^ w - 1 - x) + (-1) * 2 ^ w := by omega
  rw [e, Int.add_mul_emod_self_right]
  exact Int.emod_eq_of_lt (by omega) (by omega)

example : unaryOp .not 5 8 = 250 := by decide

theorem compare_exact (c : Go.Cmp) (x y : Int) : compare c x y = exactCmp c x y := rfl

/-- the Wa-only three-way comparison `x <=> y` folds to the sign of the exact difference
(both the int64 case and the big case; in particular no wrap-around when `x - y` leaves int64) -/
theorem spaceship_exact (x y : Int) :
    spaceship x y = (if x < y then -1 else if x = y then 0 else 1) ∧ spaceship x y = sign (x - y) := by
  unfold spaceship sign
  constructor
  · split <;> split <;> (try split) <;> (try split) <;> omega
  · split <;> split <;> (try split) <;> (try split) <;> omega

example : spaceship (-(2:Int)^63) 1 = -1 ∧ spaceship (2^200) 1 = 1 ∧ spaceship 7 7 = 0 := by decide

/-! ## 2. conversions report exactness correctly -/

/-- `ToInt` of an untyped quotient succeeds exactly when the quotient is integral, with that value -/
theorem toInt_exact_iff (n d v : Int) : toIntRat n d = .ok v ↔ d ≠ 0 ∧ n = v * d :=
  toIntRat_ok_iff n d v

example : toIntRat 6 3 = .ok 2 ∧ toIntRat 7 3 = .unknown := by decide

/-- `Int64Val` reports `exact` iff the returned value is the constant's value -/
theorem int64Val_exact_iff (v : Int) : (int64Val v).2 = true ↔ (int64Val v).1 = v := by
  unfold int64Val
  constructor
  · intro h; exact wrap64_of_fits ((fits64_iff v).mp h)
  · intro h; simp only at h; rw [fits64_iff, ← h]; exact fitsS_wrap64 v

/-- `Uint64Val` likewise -/
theorem uint64Val_exact_iff (v : Int) : (uint64Val v).2 = true ↔ (uint64Val v).1 = v := by
  unfold uint64Val
  simp only [decide_eq_true_eq]
  omega

/-! ## 3. representability is exactly the type's range -/

/-- `representableConst` (both branches: the int64 bounds and the BitLen/Sign test for big values)
accepts exactly the values in the mathematical range of the kind, for 32- and 64-bit words. -/
theorem representable_iff_range (word : Nat) (hw : word = 4 ∨ word = 8) (v : Int) (k : Kind) :
    representableConst word v k = true ↔ kindRange word k v :=
  representable_iff_range_lem word hw v k

example : representableConst 4 (2^32 - 1) .uint = true ∧ representableConst 4 (2^32) .uint = false
    ∧ representableConst 4 (2^64 - 1) .uint64 = true ∧ representableConst 4 (2^64) .uint64 = false
    ∧ representableConst 4 (-(2^63)) .int64 = true ∧ representableConst 4 (2^63) .int64 = false := by decide

/-! ## 4. the checker rejects exactly when the exact value is not representable -/

/-- binary operators on constants of a typed kind `k` (both operands already of that kind):
"overflows" is reported exactly when there is no zero divisor and the exact result is out of range;
otherwise the folded value is the exact value.  (Repaired `BinaryOp`.) -/
theorem overflow_iff (word : Nat) (hw : word = 4 ∨ word = 8) (k : Kind) (hk : k.typed = true) (op : BOp) (x y : Int) :
    (checkBinary false word k op x y = .overflow ↔
      ¬(op.isDiv = true ∧ y = 0) ∧ ¬ kindRange word k (exactBin op x y)) ∧
    (∀ v, checkBinary false word k op x y = .ok v ↔
      ¬(op.isDiv = true ∧ y = 0) ∧ v = exactBin op x y ∧ kindRange word k v) ∧
    (checkBinary false word k op x y = .divzero ↔ (op.isDiv = true ∧ y = 0)) := by
  unfold checkBinary
  rw [const_int_exact op x y]
  have hr := representable_iff_range word hw (exactBin op x y) k
  by_cases hd : (op.isDiv && decide (y = 0)) = true
  · have hd' : op.isDiv = true ∧ y = 0 := by simpa using hd
    simp [hd']
  · have hd' : ¬(op.isDiv = true ∧ y = 0) := by simpa using hd
    simp only [hd, hk, Bool.true_and, Bool.false_eq_true, if_false]
    by_cases hrep : representableConst word (exactBin op x y) k = true
    · have := hr.mp hrep
      simp [hrep, hd', this]
      intro v; constructor
      · intro e; subst e; exact ⟨rfl, this⟩
      · intro e; exact e.1.symm
    · have hn : ¬ kindRange word k (exactBin op x y) := fun e => hrep (hr.mpr e)
      simp [hrep, hd', hn]
      try (intro v e _; subst e; exact hn)

/-- the pinned code: same statement away from `MinInt64 / -1` -/
theorem overflow_iff_partial (word : Nat) (k : Kind) (op : BOp) (x y : Int)
    (h : ¬(op = .quo ∧ x = -(2:Int)^63 ∧ y = -1)) :
    checkBinary true word k op x y = checkBinary false word k op x y := by
  unfold checkBinary
  rw [const_int_exact_partial op x y h, const_int_exact op x y]

/-- The pinned checker ACCEPTS `int64(MinInt64) / int64(-1)` although the exact value 2^63 is not
representable in int64 (witness replayed on the real checker). -/
theorem checkBinary_accepts_unrepresentable_quo_minint :
    checkBinary true 4 .int64 .quo (-(2:Int)^63) (-1) = .ok (-(2:Int)^63) ∧
    ¬ kindRange 4 .int64 (exactBin .quo (-(2:Int)^63) (-1)) := by
  constructor
  · decide
  · show ¬ inRange ⟨64, true⟩ (exactBin .quo (-(2:Int)^63) (-1)); decide

theorem overflow_iff_shift (word : Nat) (hw : word = 4 ∨ word = 8) (k : Kind) (hk : k.typed = true) (op : SOp) (x s : Int)
    (hs : 0 ≤ s ∧ s ≤ shiftBound) :
    (checkShift word k op x s = .overflow ↔ ¬ kindRange word k (exactShift op x s.toNat)) ∧
    (∀ v, checkShift word k op x s = .ok v ↔ v = exactShift op x s.toNat ∧ kindRange word k v) := by
  unfold checkShift
  have h1 : ¬ s < 0 := by omega
  have h2 : (!(decide (0 ≤ s ∧ s < 2 ^ 64)) || decide (s > shiftBound)) = false := by
    unfold shiftBound at *; simp; omega
  rw [if_neg h1, h2]
  simp only [Bool.false_eq_true, if_false, hk, Bool.true_and, shift_exact]
  have hr := representable_iff_range word hw (exactShift op x s.toNat) k
  by_cases hrep : representableConst word (exactShift op x s.toNat) k = true
  · have := hr.mp hrep
    simp [hrep, this]
    intro v; constructor
    · intro e; subst e; exact ⟨rfl, this⟩
    · intro e; exact e.1.symm
  · have hn : ¬ kindRange word k (exactShift op x s.toNat) := fun e => hrep (hr.mpr e)
    simp [hrep, hn]
    try (intro v e; subst e; exact hn)

/-- counts outside `[0, 1074]` are rejected as shift errors -/
theorem shift_count_rejected (word : Nat) (k : Kind) (op : SOp) (x s : Int) (hs : s < 0 ∨ s > shiftBound) :
    checkShift word k op x s = .shift := by
  unfold checkShift
  by_cases h1 : s < 0
  · rw [if_pos h1]
  · rw [if_neg h1]
    have : (!(decide (0 ≤ s ∧ s < 2 ^ 64)) || decide (s > shiftBound)) = true := by
      have : s > shiftBound := by omega
      simp [this]
    rw [if_pos this]

theorem overflow_iff_unary (word : Nat) (hw : word = 4 ∨ word = 8) (k : Kind) (hk : k.typed = true) (op : UOp) (x : Int) :
    let prec := if k.unsigned then k.bits word else 0
    (checkUnary word k op x = .overflow ↔ ¬ kindRange word k (exactUn op x prec)) ∧
    (∀ v, checkUnary word k op x = .ok v ↔ v = exactUn op x prec ∧ kindRange word k v) := by
  intro prec
  unfold checkUnary
  simp only [hk, Bool.true_and, unary_exact]
  have hr := representable_iff_range word hw (exactUn op x prec) k
  by_cases hrep : representableConst word (exactUn op x prec) k = true
  · have := hr.mp hrep
    simp [prec] at hrep this ⊢
    simp [hrep, this]
    intro v; constructor
    · intro e; subst e; exact ⟨rfl, this⟩
    · intro e; exact e.1.symm
  · have hn : ¬ kindRange word k (exactUn op x prec) := fun e => hrep (hr.mpr e)
    simp [prec] at hrep hn ⊢
    simp [hrep, hn]
    try (intro v e; subst e; exact hn)

/-- constant conversion `T(x)` is accepted exactly when `x` is in T's range, and keeps the value -/
theorem convert_exact (word : Nat) (hw : word = 4 ∨ word = 8) (k : Kind) (x : Int) :
    (∀ v, checkConvert word k x = .ok v ↔ v = x ∧ kindRange word k x) ∧
    (checkConvert word k x = .cannot ↔ ¬ kindRange word k x) := by
  unfold checkConvert
  have hr := representable_iff_range word hw x k
  by_cases hrep : representableConst word x k = true
  · have := hr.mp hrep
    simp [hrep, this]; intro v; exact eq_comm
  · have hn : ¬ kindRange word k x := fun e => hrep (hr.mpr e)
    simp [hrep, hn]

/-- The generated declaration `const c = K(x) op K(y)` is accepted exactly when `x`, `y` and the exact
result are all in K's range (and there is no zero divisor); the folded value is the exact result. -/
theorem declBinTyped_ok_iff (word : Nat) (hw : word = 4 ∨ word = 8) (k : Kind) (hk : k.typed = true) (op : BOp) (x y v : Int) :
    declBinTyped false word k op x y = .ok v ↔
      kindRange word k x ∧ kindRange word k y ∧ ¬(op.isDiv = true ∧ y = 0) ∧ v = exactBin op x y ∧ kindRange word k v := by
  unfold declBinTyped
  have hcx := convert_exact word hw k x
  have hcy := convert_exact word hw k y
  have hb := (overflow_iff word hw k hk op x y).2.1 v
  by_cases hx : kindRange word k x
  · have ex : checkConvert word k x = .ok x := (hcx.1 x).mpr ⟨rfl, hx⟩
    by_cases hy : kindRange word k y
    · have ey : checkConvert word k y = .ok y := (hcy.1 y).mpr ⟨rfl, hy⟩
      simp only [ex, ey, bind_ok, hb, hx, hy, true_and]
    · have ey : checkConvert word k y = .cannot := hcy.2.mpr hy
      simp [ex, ey, bind_ok, bind_cannot, hy]
  · have ex : checkConvert word k x = .cannot := hcx.2.mpr hx
    simp [ex, bind_cannot, hx]

example : declBinTyped false 4 .int32 .add 2147483647 1 = .overflow ∧ declBinTyped false 4 .uint8 .sub 255 5 = .ok 250
    ∧ declBinTyped false 4 .uint8 .add 256 0 = .cannot ∧ declBinTyped false 4 .int32 .rem 7 0 = .divzero := by decide

theorem checkBinary_untyped (word : Nat) (op : BOp) (x y : Int) :
    checkBinary false word .untypedInt op x y =
      if op.isDiv && decide (y = 0) then .divzero else .ok (exactBin op x y) := by
  unfold checkBinary
  rw [const_int_exact op x y]
  by_cases hd : (op.isDiv && decide (y = 0)) = true
  · simp [hd]
  · simp [hd, Kind.typed]

/-- `const c K = x op y` with untyped operands: accepted exactly when the exact value is in K's range -/
theorem declBinUntyped_ok_iff (word : Nat) (hw : word = 4 ∨ word = 8) (k : Kind) (op : BOp) (x y v : Int) :
    declBinUntyped false word k op x y = .ok v ↔
      ¬(op.isDiv = true ∧ y = 0) ∧ v = exactBin op x y ∧ kindRange word k v := by
  unfold declBinUntyped
  rw [checkBinary_untyped]
  have hr := representable_iff_range word hw (exactBin op x y) k
  by_cases hd : (op.isDiv && decide (y = 0)) = true
  · have hd' : op.isDiv = true ∧ y = 0 := by simpa using hd
    simp [hd', Verdict.bind]
  · have hd' : ¬(op.isDiv = true ∧ y = 0) := by simpa using hd
    simp only [hd, Bool.false_eq_true, if_false, bind_ok, checkAssign_def]
    by_cases hrep : representableConst word (exactBin op x y) k = true
    · have := hr.mp hrep
      simp [hrep, hd']
      constructor
      · intro e; subst e; exact ⟨rfl, this⟩
      · intro e; exact e.1.symm
    · have hn : ¬ kindRange word k (exactBin op x y) := fun e => hrep (hr.mpr e)
      simp [hrep, hd']
      intro e; subst e; exact hn

/-- Untyped constant arithmetic is exact and unbounded: in `const c K = (x op1 y) op2 z` only the
final value is held against K's range, however large the intermediate result is. -/
theorem declBin2Untyped_ok_iff (word : Nat) (hw : word = 4 ∨ word = 8) (k : Kind) (op1 op2 : BOp) (x y z v : Int) :
    declBin2Untyped false word k op1 op2 x y z = .ok v ↔
      ¬(op1.isDiv = true ∧ y = 0) ∧ ¬(op2.isDiv = true ∧ z = 0) ∧
      v = exactBin op2 (exactBin op1 x y) z ∧ kindRange word k v := by
  unfold declBin2Untyped
  rw [checkBinary_untyped]
  by_cases hd : (op1.isDiv && decide (y = 0)) = true
  · have hd' : op1.isDiv = true ∧ y = 0 := by simpa using hd
    simp [hd', Verdict.bind]
  · have hd' : ¬(op1.isDiv = true ∧ y = 0) := by simpa using hd
    simp only [hd, Bool.false_eq_true, if_false, bind_ok]
    have := declBinUntyped_ok_iff word hw k op2 (exactBin op1 x y) z v
    unfold declBinUntyped at this
    rw [this]
    simp [hd']

/-- … whereas a typed intermediate that leaves the range is rejected even if the final value fits -/
example : declBin2Untyped false 4 .uint8 .add .sub 255 255 300 = .ok 210
    ∧ declBin2Typed false 4 .uint8 .add .sub 255 255 200 = .overflow := by decide

/-! ## 5. the bridge: folded constant = run-time evaluation (Base/GoInt.lean), every width, signed and unsigned -/

theorem dec_enc (t : Go.ITy) (ht : 0 < t.bits) (v : Int) (h : inRange t v) : dec t (enc t v) = v :=
  dec_enc_lem t ht v h

theorem enc_dec (t : Go.ITy) (b : BitVec t.bits) : enc t (dec t b) = b ∧ inRange t (dec t b) :=
  ⟨enc_dec_lem t b, inRange_dec_lem t b⟩

/-- `+ - * / % & | ^ &^`: if `x`, `y` and the exact result are representable in `t`, Go's run-time
operator applied to the encodings returns the encoding of the exact result (never panics). -/
theorem fold_eq_runtime_bin (t : Go.ITy) (ht : 0 < t.bits) (op : BOp) (x y : Int)
    (hx : inRange t x) (hy : inRange t y) (hr : inRange t (exactBin op x y))
    (hz : op.isDiv = true → y ≠ 0) :
    Go.arith t.signed op.toGo (enc t x) (enc t y) = some (enc t (exactBin op x y)) :=
  fold_eq_runtime_bin_lem t ht op x y hx hy hr hz

/-- in terms of mathematical values: the compiled program computes exactly the folded constant -/
theorem fold_eq_runtime_bin_val (t : Go.ITy) (ht : 0 < t.bits) (op : BOp) (x y : Int)
    (hx : inRange t x) (hy : inRange t y) (hr : inRange t (exactBin op x y))
    (hz : op.isDiv = true → y ≠ 0) :
    runBin t op x y = some (exactBin op x y) := by
  unfold runBin
  rw [fold_eq_runtime_bin t ht op x y hx hy hr hz]
  simp [dec_enc t ht _ hr]

example : inRange Go.i32 (-2147483648) ∧ inRange Go.i32 2 ∧ inRange Go.i32 (exactBin .quo (-2147483648) 2) := by decide
example : runBin Go.u8 .sub 255 5 = some 250 ∧ runBin Go.i32 .quo (-7) 2 = some (-3) ∧ runBin Go.i64 .rem (-7) 2 = some (-1) := by decide

/-- without the representability hypothesis the statement fails (run time wraps, constants do not) -/
theorem fold_eq_runtime_needs_representable : runBin Go.u8 .add 255 1 = some 0 ∧ exactBin .add 255 1 = 256 := by decide

theorem fold_eq_runtime_shl (t : Go.ITy) (x : Int) (s : Nat) :
    Go.shl (enc t x) s = enc t (exactShift .shl x s) :=
  fold_eq_runtime_shl_lem t x s

theorem fold_eq_runtime_shr (t : Go.ITy) (ht : 0 < t.bits) (x : Int) (s : Nat)
    (hx : inRange t x) (hr : inRange t (exactShift .shr x s)) :
    Go.shr t.signed (enc t x) s = enc t (exactShift .shr x s) :=
  fold_eq_runtime_shr_lem t ht x s hx hr

example : inRange Go.i32 (-8) ∧ inRange Go.i32 (exactShift .shr (-8) 33) ∧ runShift Go.i32 .shr (-8) 33 = -1 := by decide

theorem fold_eq_runtime_cmp (t : Go.ITy) (ht : 0 < t.bits) (c : Go.Cmp) (x y : Int)
    (hx : inRange t x) (hy : inRange t y) :
    Go.cmp t.signed c (enc t x) (enc t y) = exactCmp c x y :=
  fold_eq_runtime_cmp_lem t ht c x y hx hy

example : inRange Go.u64 18446744073709551615 ∧ runCmp Go.u64 .lt 18446744073709551615 1 = false
    ∧ runCmp Go.i64 .lt (-1) 1 = true := by decide

/-- `x <=> y` on variables equals the folded constant for representable operands -/
theorem fold_eq_runtime_ship (t : Go.ITy) (ht : 0 < t.bits) (x y : Int)
    (hx : inRange t x) (hy : inRange t y) : runShip t x y = spaceship x y := by
  unfold runShip
  rw [fold_eq_runtime_cmp t ht .eq x y hx hy, fold_eq_runtime_cmp t ht .lt x y hx hy, (spaceship_exact x y).1]
  simp only [exactCmp, decide_eq_true_eq]
  split <;> split <;> (try split) <;> omega

example : runShip Go.i64 (-(2:Int)^63) 1 = -1 ∧ runShip Go.u64 (2^64 - 1) 1 = 1 := by decide

theorem fold_eq_runtime_neg (t : Go.ITy) (x : Int) : Go.neg (enc t x) = enc t (exactUn .neg x 0) :=
  fold_eq_runtime_neg_lem t x

/-- `^x` with the checker's precision rule (0 for signed, the width for unsigned types) -/
theorem fold_eq_runtime_not (t : Go.ITy) (x : Int) :
    Go.compl (enc t x) = enc t (exactUn .not x (if t.signed then 0 else t.bits)) :=
  fold_eq_runtime_not_lem t x

/-- conversion between integer types: for a value representable in the source type the run-time
conversion yields the encoding of the same value in the target type (so a constant conversion,
which additionally requires representability in the target, is exact) -/
theorem fold_eq_runtime_conv (t1 t2 : Go.ITy) (ht : 0 < t1.bits) (x : Int) (hx : inRange t1 x) :
    Go.conv t1.signed (enc t1 x) t2.bits = enc t2 x :=
  fold_eq_runtime_conv_lem t1 t2 ht x hx

theorem conv_exact_val (t1 t2 : Go.ITy) (h1 : 0 < t1.bits) (h2 : 0 < t2.bits) (x : Int)
    (hx : inRange t1 x) (hy : inRange t2 x) : runConv t1 t2 x = x := by
  unfold runConv
  rw [fold_eq_runtime_conv t1 t2 h1 x hx, dec_enc t2 h2 x hy]

example : inRange Go.i64 200 ∧ inRange Go.u8 200 ∧ runConv Go.i64 Go.u8 200 = 200 ∧ runConv Go.i64 Go.u8 456 = 200 := by decide

end WaVerif.C15
