import WaVerif.Model.C03Spec
import WaVerif.Gen.C03Templates
import WaVerif.Lemmas.C03Tac
set_option linter.unusedSimpArgs false
/-! One theorem group per regenerated C template (statement fixed by the instruction name). Written by tools/gen_c03_props.py. -/
namespace WaVerif.C03.Rows
open WaVerif WaVerif.Wasm WaVerif.C03 WaVerif.Gen.C03

/-- `i32.add`: signed overflow is undefined in C -/
theorem i32_add_partial : Partial2 CVal.i32 CVal.i32 CVal.i32 Guard.addOk (wBin .add) f_i32_add := by
  unfold f_i32_add
  c03_tac

theorem i32_add_full_false : ¬ Full2 CVal.i32 CVal.i32 CVal.i32 (wBin .add) f_i32_add := by
  intro h
  have h := h 0x7fffffff#32 0x1#32 []
  revert h
  decide

theorem i32_add_sound : Sound2 CVal.i32 CVal.i32 CVal.i32 (wBin .add) f_i32_add := by
  unfold f_i32_add
  c03_sound

example : Guard.addOk 0x3#32 0x2#32 := by decide

/-- `i32.sub`: signed overflow is undefined in C -/
theorem i32_sub_partial : Partial2 CVal.i32 CVal.i32 CVal.i32 Guard.subOk (wBin .sub) f_i32_sub := by
  unfold f_i32_sub
  c03_tac

theorem i32_sub_full_false : ¬ Full2 CVal.i32 CVal.i32 CVal.i32 (wBin .sub) f_i32_sub := by
  intro h
  have h := h 0x80000000#32 0x1#32 []
  revert h
  decide

theorem i32_sub_sound : Sound2 CVal.i32 CVal.i32 CVal.i32 (wBin .sub) f_i32_sub := by
  unfold f_i32_sub
  c03_sound

example : Guard.subOk 0x3#32 0x2#32 := by decide

/-- `i32.mul`: signed overflow is undefined in C -/
theorem i32_mul_partial : Partial2 CVal.i32 CVal.i32 CVal.i32 Guard.mulOk (wBin .mul) f_i32_mul := by
  unfold f_i32_mul
  c03_tac

theorem i32_mul_full_false : ¬ Full2 CVal.i32 CVal.i32 CVal.i32 (wBin .mul) f_i32_mul := by
  intro h
  have h := h 0x10000#32 0x10000#32 []
  revert h
  decide

theorem i32_mul_sound : Sound2 CVal.i32 CVal.i32 CVal.i32 (wBin .mul) f_i32_mul := by
  unfold f_i32_mul
  c03_sound

example : Guard.mulOk 0x3#32 0x2#32 := by decide

/-- `i32.div_s`: no trap check: division by zero is undefined in C, not abort() -/
theorem i32_div_s_partial : Partial2 CVal.i32 CVal.i32 CVal.i32 Guard.divS (wBin .div_s) f_i32_div_s := by
  unfold f_i32_div_s
  c03_tac

theorem i32_div_s_full_false : ¬ Full2 CVal.i32 CVal.i32 CVal.i32 (wBin .div_s) f_i32_div_s := by
  intro h
  have h := h 0x1#32 0x0#32 []
  revert h
  decide

theorem i32_div_s_sound : Sound2 CVal.i32 CVal.i32 CVal.i32 (wBin .div_s) f_i32_div_s := by
  unfold f_i32_div_s
  c03_sound

example : Guard.divS 0x3#32 0x2#32 := by decide

/-- `i32.div_u`: no trap check: division by zero is undefined in C, not abort() -/
theorem i32_div_u_partial : Partial2 CVal.i32 CVal.i32 CVal.i32 Guard.divU (wBin .div_u) f_i32_div_u := by
  unfold f_i32_div_u
  c03_tac

theorem i32_div_u_full_false : ¬ Full2 CVal.i32 CVal.i32 CVal.i32 (wBin .div_u) f_i32_div_u := by
  intro h
  have h := h 0x1#32 0x0#32 []
  revert h
  decide

theorem i32_div_u_sound : Sound2 CVal.i32 CVal.i32 CVal.i32 (wBin .div_u) f_i32_div_u := by
  unfold f_i32_div_u
  c03_sound

example : Guard.divU 0x3#32 0x2#32 := by decide

/-- `i32.rem_s`: INT_MIN % -1 is undefined in C; WebAssembly yields 0 -/
theorem i32_rem_s_partial : Partial2 CVal.i32 CVal.i32 CVal.i32 Guard.divS (wBin .rem_s) f_i32_rem_s := by
  unfold f_i32_rem_s
  c03_tac

theorem i32_rem_s_full_false : ¬ Full2 CVal.i32 CVal.i32 CVal.i32 (wBin .rem_s) f_i32_rem_s := by
  intro h
  have h := h 0x80000000#32 0xffffffff#32 []
  revert h
  decide

theorem i32_rem_s_sound : Sound2 CVal.i32 CVal.i32 CVal.i32 (wBin .rem_s) f_i32_rem_s := by
  unfold f_i32_rem_s
  c03_sound

example : Guard.divS 0x3#32 0x2#32 := by decide

/-- `i32.rem_u`: no trap check: division by zero is undefined in C, not abort() -/
theorem i32_rem_u_partial : Partial2 CVal.i32 CVal.i32 CVal.i32 Guard.divU (wBin .rem_u) f_i32_rem_u := by
  unfold f_i32_rem_u
  c03_tac

theorem i32_rem_u_full_false : ¬ Full2 CVal.i32 CVal.i32 CVal.i32 (wBin .rem_u) f_i32_rem_u := by
  intro h
  have h := h 0x1#32 0x0#32 []
  revert h
  decide

theorem i32_rem_u_sound : Sound2 CVal.i32 CVal.i32 CVal.i32 (wBin .rem_u) f_i32_rem_u := by
  unfold f_i32_rem_u
  c03_sound

example : Guard.divU 0x3#32 0x2#32 := by decide

theorem i32_and_ok : Full2 CVal.i32 CVal.i32 CVal.i32 (wBin .and) f_i32_and := by
  unfold f_i32_and
  c03_tac

theorem i32_or_ok : Full2 CVal.i32 CVal.i32 CVal.i32 (wBin .or) f_i32_or := by
  unfold f_i32_or
  c03_tac

theorem i32_xor_ok : Full2 CVal.i32 CVal.i32 CVal.i32 (wBin .xor) f_i32_xor := by
  unfold f_i32_xor
  c03_tac

/-- `i32.shl`: count masked with 63: a count of 32..63 on a 32-bit operand is undefined in C (WebAssembly: count mod 32) -/
theorem i32_shl_partial : Partial2 CVal.i32 CVal.i32 CVal.i32 Guard.shl32 (wBin .shl) f_i32_shl := by
  unfold f_i32_shl
  c03_tac

theorem i32_shl_full_false : ¬ Full2 CVal.i32 CVal.i32 CVal.i32 (wBin .shl) f_i32_shl := by
  intro h
  have h := h 0x1#32 0x20#32 []
  revert h
  decide

theorem i32_shl_sound : Sound2 CVal.i32 CVal.i32 CVal.i32 (wBin .shl) f_i32_shl := by
  unfold f_i32_shl
  c03_sound

example : Guard.shl32 0x3#32 0x2#32 := by decide

/-- `i32.shr_s`: count masked with 63: a count of 32..63 on a 32-bit operand is undefined in C -/
theorem i32_shr_s_partial : Partial2 CVal.i32 CVal.i32 CVal.i32 Guard.cnt32 (wBin .shr_s) f_i32_shr_s := by
  unfold f_i32_shr_s
  c03_tac

theorem i32_shr_s_full_false : ¬ Full2 CVal.i32 CVal.i32 CVal.i32 (wBin .shr_s) f_i32_shr_s := by
  intro h
  have h := h 0x1#32 0x20#32 []
  revert h
  decide

theorem i32_shr_s_sound : Sound2 CVal.i32 CVal.i32 CVal.i32 (wBin .shr_s) f_i32_shr_s := by
  unfold f_i32_shr_s
  c03_sound

example : Guard.cnt32 0x3#32 0x2#32 := by decide

/-- `i32.shr_u`: count masked with 63: a count of 32..63 on a 32-bit operand is undefined in C -/
theorem i32_shr_u_partial : Partial2 CVal.i32 CVal.i32 CVal.i32 Guard.cnt32 (wBin .shr_u) f_i32_shr_u := by
  unfold f_i32_shr_u
  c03_tac

theorem i32_shr_u_full_false : ¬ Full2 CVal.i32 CVal.i32 CVal.i32 (wBin .shr_u) f_i32_shr_u := by
  intro h
  have h := h 0x1#32 0x20#32 []
  revert h
  decide

theorem i32_shr_u_sound : Sound2 CVal.i32 CVal.i32 CVal.i32 (wBin .shr_u) f_i32_shr_u := by
  unfold f_i32_shr_u
  c03_sound

example : Guard.cnt32 0x3#32 0x2#32 := by decide

/-- `i32.rotl`: I32_ROTL applied to a signed int32_t: undefined left shift and arithmetic right shift -/
theorem i32_rotl_partial : Partial2 CVal.i32 CVal.i32 CVal.i32 Guard.rotl32 (wBin .rotl) f_i32_rotl := by
  unfold f_i32_rotl
  c03_tac

theorem i32_rotl_full_false : ¬ Full2 CVal.i32 CVal.i32 CVal.i32 (wBin .rotl) f_i32_rotl := by
  intro h
  have h := h 0xfffffffe#32 0x1#32 []
  revert h
  decide

theorem i32_rotl_sound : Sound2 CVal.i32 CVal.i32 CVal.i32 (wBin .rotl) f_i32_rotl := by
  unfold f_i32_rotl
  c03_sound

example : Guard.rotl32 0x1#32 0x4#32 := by decide

/-- `i32.rotr`: I32_ROTR applied to a signed int32_t: arithmetic right shift and undefined left shift -/
theorem i32_rotr_partial : Partial2 CVal.i32 CVal.i32 CVal.i32 Guard.rotr32 (wBin .rotr) f_i32_rotr := by
  unfold f_i32_rotr
  c03_tac

theorem i32_rotr_full_false : ¬ Full2 CVal.i32 CVal.i32 CVal.i32 (wBin .rotr) f_i32_rotr := by
  intro h
  have h := h 0xfffffffe#32 0x1#32 []
  revert h
  decide

theorem i32_rotr_sound : Sound2 CVal.i32 CVal.i32 CVal.i32 (wBin .rotr) f_i32_rotr := by
  unfold f_i32_rotr
  c03_sound

example : Guard.rotr32 0x1#32 0x4#32 := by decide

theorem i32_eq_ok : Full2 CVal.i32 CVal.i32 CVal.i32 (wRel .eq) f_i32_eq := by
  unfold f_i32_eq
  c03_tac

theorem i32_ne_ok : Full2 CVal.i32 CVal.i32 CVal.i32 (wRel .ne) f_i32_ne := by
  unfold f_i32_ne
  c03_tac

theorem i32_lt_s_ok : Full2 CVal.i32 CVal.i32 CVal.i32 (wRel .lt_s) f_i32_lt_s := by
  unfold f_i32_lt_s
  c03_tac

theorem i32_lt_u_ok : Full2 CVal.i32 CVal.i32 CVal.i32 (wRel .lt_u) f_i32_lt_u := by
  unfold f_i32_lt_u
  c03_tac

theorem i32_gt_s_ok : Full2 CVal.i32 CVal.i32 CVal.i32 (wRel .gt_s) f_i32_gt_s := by
  unfold f_i32_gt_s
  c03_tac

theorem i32_gt_u_ok : Full2 CVal.i32 CVal.i32 CVal.i32 (wRel .gt_u) f_i32_gt_u := by
  unfold f_i32_gt_u
  c03_tac

theorem i32_le_s_ok : Full2 CVal.i32 CVal.i32 CVal.i32 (wRel .le_s) f_i32_le_s := by
  unfold f_i32_le_s
  c03_tac

theorem i32_le_u_ok : Full2 CVal.i32 CVal.i32 CVal.i32 (wRel .le_u) f_i32_le_u := by
  unfold f_i32_le_u
  c03_tac

theorem i32_ge_s_ok : Full2 CVal.i32 CVal.i32 CVal.i32 (wRel .ge_s) f_i32_ge_s := by
  unfold f_i32_ge_s
  c03_tac

theorem i32_ge_u_ok : Full2 CVal.i32 CVal.i32 CVal.i32 (wRel .ge_u) f_i32_ge_u := by
  unfold f_i32_ge_u
  c03_tac

theorem i32_eqz_ok : Full1 CVal.i32 CVal.i32 wEqz f_i32_eqz := by
  unfold f_i32_eqz
  c03_tac

theorem i32_clz_ok : Full1 CVal.i32 CVal.i32 (wUn .clz) f_i32_clz := by
  unfold f_i32_clz
  c03_tac

theorem i32_ctz_ok : Full1 CVal.i32 CVal.i32 (wUn .ctz) f_i32_ctz := by
  unfold f_i32_ctz
  c03_tac

theorem i32_popcnt_ok : Full1 CVal.i32 CVal.i32 (wUn .popcnt) f_i32_popcnt := by
  unfold f_i32_popcnt
  c03_tac

theorem select_i32_ok : Full3 CVal.i32 CVal.i32 CVal.i32 CVal.i32 wSelect f_select_i32 := by
  unfold f_select_i32
  c03_tac

/-- `i64.add`: signed overflow is undefined in C -/
theorem i64_add_partial : Partial2 CVal.i64 CVal.i64 CVal.i64 Guard.addOk (wBin .add) f_i64_add := by
  unfold f_i64_add
  c03_tac

theorem i64_add_full_false : ¬ Full2 CVal.i64 CVal.i64 CVal.i64 (wBin .add) f_i64_add := by
  intro h
  have h := h 0x7fffffffffffffff#64 0x1#64 []
  revert h
  decide

theorem i64_add_sound : Sound2 CVal.i64 CVal.i64 CVal.i64 (wBin .add) f_i64_add := by
  unfold f_i64_add
  c03_sound

example : Guard.addOk 0x3#64 0x2#64 := by decide

/-- `i64.sub`: signed overflow is undefined in C -/
theorem i64_sub_partial : Partial2 CVal.i64 CVal.i64 CVal.i64 Guard.subOk (wBin .sub) f_i64_sub := by
  unfold f_i64_sub
  c03_tac

theorem i64_sub_full_false : ¬ Full2 CVal.i64 CVal.i64 CVal.i64 (wBin .sub) f_i64_sub := by
  intro h
  have h := h 0x8000000000000000#64 0x1#64 []
  revert h
  decide

theorem i64_sub_sound : Sound2 CVal.i64 CVal.i64 CVal.i64 (wBin .sub) f_i64_sub := by
  unfold f_i64_sub
  c03_sound

example : Guard.subOk 0x3#64 0x2#64 := by decide

/-- `i64.mul`: signed overflow is undefined in C -/
theorem i64_mul_partial : Partial2 CVal.i64 CVal.i64 CVal.i64 Guard.mulOk (wBin .mul) f_i64_mul := by
  unfold f_i64_mul
  c03_tac

theorem i64_mul_full_false : ¬ Full2 CVal.i64 CVal.i64 CVal.i64 (wBin .mul) f_i64_mul := by
  intro h
  have h := h 0x100000000#64 0x100000000#64 []
  revert h
  decide

theorem i64_mul_sound : Sound2 CVal.i64 CVal.i64 CVal.i64 (wBin .mul) f_i64_mul := by
  unfold f_i64_mul
  c03_sound

example : Guard.mulOk 0x3#64 0x2#64 := by decide

/-- `i64.div_s`: no trap check: division by zero is undefined in C, not abort() -/
theorem i64_div_s_partial : Partial2 CVal.i64 CVal.i64 CVal.i64 Guard.divS (wBin .div_s) f_i64_div_s := by
  unfold f_i64_div_s
  c03_tac

theorem i64_div_s_full_false : ¬ Full2 CVal.i64 CVal.i64 CVal.i64 (wBin .div_s) f_i64_div_s := by
  intro h
  have h := h 0x1#64 0x0#64 []
  revert h
  decide

theorem i64_div_s_sound : Sound2 CVal.i64 CVal.i64 CVal.i64 (wBin .div_s) f_i64_div_s := by
  unfold f_i64_div_s
  c03_sound

example : Guard.divS 0x3#64 0x2#64 := by decide

/-- `i64.div_u`: no trap check: division by zero is undefined in C, not abort() -/
theorem i64_div_u_partial : Partial2 CVal.i64 CVal.i64 CVal.i64 Guard.divU (wBin .div_u) f_i64_div_u := by
  unfold f_i64_div_u
  c03_tac

theorem i64_div_u_full_false : ¬ Full2 CVal.i64 CVal.i64 CVal.i64 (wBin .div_u) f_i64_div_u := by
  intro h
  have h := h 0x1#64 0x0#64 []
  revert h
  decide

theorem i64_div_u_sound : Sound2 CVal.i64 CVal.i64 CVal.i64 (wBin .div_u) f_i64_div_u := by
  unfold f_i64_div_u
  c03_sound

example : Guard.divU 0x3#64 0x2#64 := by decide

/-- `i64.rem_s`: INT64_MIN % -1 is undefined in C; WebAssembly yields 0 -/
theorem i64_rem_s_partial : Partial2 CVal.i64 CVal.i64 CVal.i64 Guard.divS (wBin .rem_s) f_i64_rem_s := by
  unfold f_i64_rem_s
  c03_tac

theorem i64_rem_s_full_false : ¬ Full2 CVal.i64 CVal.i64 CVal.i64 (wBin .rem_s) f_i64_rem_s := by
  intro h
  have h := h 0x8000000000000000#64 0xffffffffffffffff#64 []
  revert h
  decide

theorem i64_rem_s_sound : Sound2 CVal.i64 CVal.i64 CVal.i64 (wBin .rem_s) f_i64_rem_s := by
  unfold f_i64_rem_s
  c03_sound

example : Guard.divS 0x3#64 0x2#64 := by decide

/-- `i64.rem_u`: no trap check: division by zero is undefined in C, not abort() -/
theorem i64_rem_u_partial : Partial2 CVal.i64 CVal.i64 CVal.i64 Guard.divU (wBin .rem_u) f_i64_rem_u := by
  unfold f_i64_rem_u
  c03_tac

theorem i64_rem_u_full_false : ¬ Full2 CVal.i64 CVal.i64 CVal.i64 (wBin .rem_u) f_i64_rem_u := by
  intro h
  have h := h 0x1#64 0x0#64 []
  revert h
  decide

theorem i64_rem_u_sound : Sound2 CVal.i64 CVal.i64 CVal.i64 (wBin .rem_u) f_i64_rem_u := by
  unfold f_i64_rem_u
  c03_sound

example : Guard.divU 0x3#64 0x2#64 := by decide

theorem i64_and_ok : Full2 CVal.i64 CVal.i64 CVal.i64 (wBin .and) f_i64_and := by
  unfold f_i64_and
  c03_tac

theorem i64_or_ok : Full2 CVal.i64 CVal.i64 CVal.i64 (wBin .or) f_i64_or := by
  unfold f_i64_or
  c03_tac

theorem i64_xor_ok : Full2 CVal.i64 CVal.i64 CVal.i64 (wBin .xor) f_i64_xor := by
  unfold f_i64_xor
  c03_tac

/-- `i64.shl`: left shift of a negative int64_t is undefined in C -/
theorem i64_shl_partial : Partial2 CVal.i64 CVal.i64 CVal.i64 Guard.shl64 (wBin .shl) f_i64_shl := by
  unfold f_i64_shl
  c03_tac

theorem i64_shl_full_false : ¬ Full2 CVal.i64 CVal.i64 CVal.i64 (wBin .shl) f_i64_shl := by
  intro h
  have h := h 0xffffffffffffffff#64 0x1#64 []
  revert h
  decide

theorem i64_shl_sound : Sound2 CVal.i64 CVal.i64 CVal.i64 (wBin .shl) f_i64_shl := by
  unfold f_i64_shl
  c03_sound

example : Guard.shl64 0x3#64 0x2#64 := by decide

theorem i64_shr_s_ok : Full2 CVal.i64 CVal.i64 CVal.i64 (wBin .shr_s) f_i64_shr_s := by
  unfold f_i64_shr_s
  c03_tac

theorem i64_shr_u_ok : Full2 CVal.i64 CVal.i64 CVal.i64 (wBin .shr_u) f_i64_shr_u := by
  unfold f_i64_shr_u
  c03_tac

/-- `i64.rotl`: I64_ROTL applied to a signed int64_t -/
theorem i64_rotl_partial : Partial2 CVal.i64 CVal.i64 CVal.i64 Guard.rotl64 (wBin .rotl) f_i64_rotl := by
  unfold f_i64_rotl
  c03_tac

theorem i64_rotl_full_false : ¬ Full2 CVal.i64 CVal.i64 CVal.i64 (wBin .rotl) f_i64_rotl := by
  intro h
  have h := h 0xfffffffffffffffe#64 0x1#64 []
  revert h
  decide

theorem i64_rotl_sound : Sound2 CVal.i64 CVal.i64 CVal.i64 (wBin .rotl) f_i64_rotl := by
  unfold f_i64_rotl
  c03_sound

example : Guard.rotl64 0x1#64 0x4#64 := by decide

/-- `i64.rotr`: I64_ROTR applied to a signed int64_t -/
theorem i64_rotr_partial : Partial2 CVal.i64 CVal.i64 CVal.i64 Guard.rotr64 (wBin .rotr) f_i64_rotr := by
  unfold f_i64_rotr
  c03_tac

theorem i64_rotr_full_false : ¬ Full2 CVal.i64 CVal.i64 CVal.i64 (wBin .rotr) f_i64_rotr := by
  intro h
  have h := h 0xfffffffffffffffe#64 0x1#64 []
  revert h
  decide

theorem i64_rotr_sound : Sound2 CVal.i64 CVal.i64 CVal.i64 (wBin .rotr) f_i64_rotr := by
  unfold f_i64_rotr
  c03_sound

example : Guard.rotr64 0x1#64 0x4#64 := by decide

theorem i64_eq_ok : Full2 CVal.i64 CVal.i64 CVal.i32 (wRel .eq) f_i64_eq := by
  unfold f_i64_eq
  c03_tac

theorem i64_ne_ok : Full2 CVal.i64 CVal.i64 CVal.i32 (wRel .ne) f_i64_ne := by
  unfold f_i64_ne
  c03_tac

theorem i64_lt_s_ok : Full2 CVal.i64 CVal.i64 CVal.i32 (wRel .lt_s) f_i64_lt_s := by
  unfold f_i64_lt_s
  c03_tac

theorem i64_lt_u_ok : Full2 CVal.i64 CVal.i64 CVal.i32 (wRel .lt_u) f_i64_lt_u := by
  unfold f_i64_lt_u
  c03_tac

theorem i64_gt_s_ok : Full2 CVal.i64 CVal.i64 CVal.i32 (wRel .gt_s) f_i64_gt_s := by
  unfold f_i64_gt_s
  c03_tac

theorem i64_gt_u_ok : Full2 CVal.i64 CVal.i64 CVal.i32 (wRel .gt_u) f_i64_gt_u := by
  unfold f_i64_gt_u
  c03_tac

theorem i64_le_s_ok : Full2 CVal.i64 CVal.i64 CVal.i32 (wRel .le_s) f_i64_le_s := by
  unfold f_i64_le_s
  c03_tac

theorem i64_le_u_ok : Full2 CVal.i64 CVal.i64 CVal.i32 (wRel .le_u) f_i64_le_u := by
  unfold f_i64_le_u
  c03_tac

theorem i64_ge_s_ok : Full2 CVal.i64 CVal.i64 CVal.i32 (wRel .ge_s) f_i64_ge_s := by
  unfold f_i64_ge_s
  c03_tac

theorem i64_ge_u_ok : Full2 CVal.i64 CVal.i64 CVal.i32 (wRel .ge_u) f_i64_ge_u := by
  unfold f_i64_ge_u
  c03_tac

theorem i64_eqz_ok : Full1 CVal.i64 CVal.i32 wEqz f_i64_eqz := by
  unfold f_i64_eqz
  c03_tac

theorem i64_clz_ok : Full1 CVal.i64 CVal.i64 (wUn .clz) f_i64_clz := by
  unfold f_i64_clz
  c03_tac

theorem i64_ctz_ok : Full1 CVal.i64 CVal.i64 (wUn .ctz) f_i64_ctz := by
  unfold f_i64_ctz
  c03_tac

theorem i64_popcnt_ok : Full1 CVal.i64 CVal.i64 (wUn .popcnt) f_i64_popcnt := by
  unfold f_i64_popcnt
  c03_tac

theorem select_i64_ok : Full3 CVal.i64 CVal.i64 CVal.i32 CVal.i64 wSelect f_select_i64 := by
  unfold f_select_i64
  c03_tac

theorem i32_wrap_i64_ok : Full1 CVal.i64 CVal.i32 wWrap f_i32_wrap_i64 := by
  unfold f_i32_wrap_i64
  c03_tac

theorem i64_extend_i32_s_ok : Full1 CVal.i32 CVal.i64 wExtS f_i64_extend_i32_s := by
  unfold f_i64_extend_i32_s
  c03_tac

theorem i64_extend_i32_u_ok : Full1 CVal.i32 CVal.i64 wExtU f_i64_extend_i32_u := by
  unfold f_i64_extend_i32_u
  c03_tac

theorem i32_const_0_ok : Full0 CVal.i32 (wConst 0#32) f_i32_const_0 := by
  unfold f_i32_const_0
  c03_tac

theorem i32_const_1_ok : Full0 CVal.i32 (wConst 1#32) f_i32_const_1 := by
  unfold f_i32_const_1
  c03_tac

theorem i32_const_2_ok : Full0 CVal.i32 (wConst 4294967295#32) f_i32_const_2 := by
  unfold f_i32_const_2
  c03_tac

theorem i32_const_3_ok : Full0 CVal.i32 (wConst 2147483647#32) f_i32_const_3 := by
  unfold f_i32_const_3
  c03_tac

theorem i32_const_4_ok : Full0 CVal.i32 (wConst 2147483648#32) f_i32_const_4 := by
  unfold f_i32_const_4
  c03_tac

theorem i32_const_5_ok : Full0 CVal.i32 (wConst 2147483647#32) f_i32_const_5 := by
  unfold f_i32_const_5
  c03_tac

theorem i64_const_0_ok : Full0 CVal.i64 (wConst 0#64) f_i64_const_0 := by
  unfold f_i64_const_0
  c03_tac

theorem i64_const_1_ok : Full0 CVal.i64 (wConst 1#64) f_i64_const_1 := by
  unfold f_i64_const_1
  c03_tac

theorem i64_const_2_ok : Full0 CVal.i64 (wConst 18446744073709551615#64) f_i64_const_2 := by
  unfold f_i64_const_2
  c03_tac

theorem i64_const_3_ok : Full0 CVal.i64 (wConst 9223372036854775807#64) f_i64_const_3 := by
  unfold f_i64_const_3
  c03_tac

theorem i64_const_5_ok : Full0 CVal.i64 (wConst 4294967296#64) f_i64_const_5 := by
  unfold f_i64_const_5
  c03_tac

theorem i64_const_6_ok : Full0 CVal.i64 (wConst 18446744069414584319#64) f_i64_const_6 := by
  unfold f_i64_const_6
  c03_tac

end WaVerif.C03.Rows
