import WaVerif.Model.C14Hex
import WaVerif.Model.C14B64
/-!
# C14 — encoding/base64: round trip and length formulas, for the four standard encodings (alphabets regenerated)
-/
set_option linter.unusedSimpArgs false
namespace WaVerif.C14
open WaVerif.C14.Gen

/-- what `NewEncoding`/`WithPadding` require of an alphabet: 64 symbols that decode back to their index, none of them
a line break or the padding character, and the padding character is not a line break -/
def AlphabetOK (e : B64Enc) : Prop :=
  e.alphabet.length = 64 ∧
  (∀ i, i < 64 → b64Val e (b64Sym e i) = some i ∧ b64Sym e i ≠ 10 ∧ b64Sym e i ≠ 13 ∧ isPad e (b64Sym e i) = false) ∧
  (∀ p, e.pad = some p → p ≠ 10 ∧ p ≠ 13)

instance (e : B64Enc) : Decidable (AlphabetOK e) := by unfold AlphabetOK; infer_instance

set_option maxRecDepth 100000 in
theorem alphabets_ok : AlphabetOK encStd ∧ AlphabetOK encURL ∧ AlphabetOK encRawStd ∧ AlphabetOK encRawURL := by decide

theorem b64_decodeCore_encode (e : B64Enc) (h : AlphabetOK e) (bs : List Nat) (hb : BytesOK bs) :
    b64DecodeCore e (b64Encode e bs) = some bs := by
  obtain ⟨_, hsym, _⟩ := h
  fun_induction b64Encode e bs with
  | case1 => rfl
  | case2 a =>
    have ha : a < 256 := hb a (by simp)
    obtain ⟨v1, _, _, p1⟩ := hsym (a / 4) (by omega)
    obtain ⟨v2, _, _, p2⟩ := hsym (a % 4 * 16) (by omega)
    cases hp : e.pad with
    | none =>
      simp only [b64Pads, hp, List.append_nil, b64DecodeCore, v1, v2]
      congr 2; omega
    | some p =>
      have ip : isPad e p = true := by simp [isPad, hp]
      simp only [b64Pads, hp, List.replicate, List.cons_append, List.nil_append, b64DecodeCore, v1, v2, ip]
      simp
      omega
  | case3 a b =>
    have ha : a < 256 := hb a (by simp)
    have hb' : b < 256 := hb b (by simp)
    obtain ⟨v1, _, _, p1⟩ := hsym (a / 4) (by omega)
    obtain ⟨v2, _, _, p2⟩ := hsym (a % 4 * 16 + b / 16) (by omega)
    obtain ⟨v3, _, _, p3⟩ := hsym (b % 16 * 4) (by omega)
    cases hp : e.pad with
    | none =>
      simp only [b64Pads, hp, List.append_nil, b64DecodeCore, v1, v2, v3]
      congr 2
      · omega
      · congr 1; omega
    | some p =>
      have ip : isPad e p = true := by simp [isPad, hp]
      simp only [b64Pads, hp, List.replicate, List.cons_append, List.nil_append, b64DecodeCore, v1, v2, v3, ip, p3]
      simp
      omega
  | case4 a b c rest ih =>
    have ha : a < 256 := hb a (by simp)
    have hb' : b < 256 := hb b (by simp)
    have hc : c < 256 := hb c (by simp)
    have hrest : BytesOK rest := fun x hx => hb x (by simp [hx])
    obtain ⟨v1, _, _, p1⟩ := hsym (a / 4) (by omega)
    obtain ⟨v2, _, _, p2⟩ := hsym (a % 4 * 16 + b / 16) (by omega)
    obtain ⟨v3, _, _, p3⟩ := hsym (b % 16 * 4 + c / 64) (by omega)
    obtain ⟨v4, _, _, p4⟩ := hsym (c % 64) (by omega)
    simp only [b64DecodeCore, v1, v2, v3, v4, p3, p4, ih hrest]
    simp
    omega

theorem b64_encode_no_newline (e : B64Enc) (h : AlphabetOK e) (bs : List Nat) (hb : BytesOK bs) :
    ∀ c ∈ b64Encode e bs, c ≠ 10 ∧ c ≠ 13 := by
  obtain ⟨_, hsym, hpad⟩ := h
  have hpads : ∀ n c, c ∈ b64Pads e n → c ≠ 10 ∧ c ≠ 13 := by
    intro n c hc
    unfold b64Pads at hc
    cases hp : e.pad with
    | none => simp [hp] at hc
    | some p =>
      simp [hp] at hc
      have := hpad p hp
      omega
  fun_induction b64Encode e bs with
  | case1 => intro c hc; simp at hc
  | case2 a =>
    have ha : a < 256 := hb a (by simp)
    obtain ⟨_, n1, m1, _⟩ := hsym (a / 4) (by omega)
    obtain ⟨_, n2, m2, _⟩ := hsym (a % 4 * 16) (by omega)
    intro c hc
    simp only [List.cons_append, List.nil_append, List.mem_cons] at hc
    rcases hc with rfl | rfl | hc
    · exact ⟨n1, m1⟩
    · exact ⟨n2, m2⟩
    · exact hpads 2 c hc
  | case3 a b =>
    have ha : a < 256 := hb a (by simp)
    have hb' : b < 256 := hb b (by simp)
    obtain ⟨_, n1, m1, _⟩ := hsym (a / 4) (by omega)
    obtain ⟨_, n2, m2, _⟩ := hsym (a % 4 * 16 + b / 16) (by omega)
    obtain ⟨_, n3, m3, _⟩ := hsym (b % 16 * 4) (by omega)
    intro c hc
    simp only [List.cons_append, List.nil_append, List.mem_cons] at hc
    rcases hc with rfl | rfl | rfl | hc
    · exact ⟨n1, m1⟩
    · exact ⟨n2, m2⟩
    · exact ⟨n3, m3⟩
    · exact hpads 1 c hc
  | case4 a b c rest ih =>
    have ha : a < 256 := hb a (by simp)
    have hb' : b < 256 := hb b (by simp)
    have hc : c < 256 := hb c (by simp)
    have hrest : BytesOK rest := fun x hx => hb x (by simp [hx])
    obtain ⟨_, n1, m1, _⟩ := hsym (a / 4) (by omega)
    obtain ⟨_, n2, m2, _⟩ := hsym (a % 4 * 16 + b / 16) (by omega)
    obtain ⟨_, n3, m3, _⟩ := hsym (b % 16 * 4 + c / 64) (by omega)
    obtain ⟨_, n4, m4, _⟩ := hsym (c % 64) (by omega)
    intro x hx
    simp only [List.mem_cons] at hx
    rcases hx with rfl | rfl | rfl | rfl | hx
    · exact ⟨n1, m1⟩
    · exact ⟨n2, m2⟩
    · exact ⟨n3, m3⟩
    · exact ⟨n4, m4⟩
    · exact ih hrest x hx

/-- **round trip** for any well-formed alphabet: `DecodeString(EncodeToString(b)) = b, nil` -/
theorem b64_decode_encode (e : B64Enc) (h : AlphabetOK e) (bs : List Nat) (hb : BytesOK bs) :
    b64Decode e (b64Encode e bs) = some bs := by
  unfold b64Decode stripNewlines
  have : (b64Encode e bs).filter (fun c => c != 10 && c != 13) = b64Encode e bs := by
    apply List.filter_eq_self.mpr
    intro c hc
    have := b64_encode_no_newline e h bs hb c hc
    simp [this.1, this.2]
  rw [this]
  exact b64_decodeCore_encode e h bs hb

/-- the four standard encodings (alphabets as found in the source) -/
theorem b64_decode_encode_std (bs : List Nat) (hb : BytesOK bs) :
    b64Decode encStd (b64Encode encStd bs) = some bs ∧ b64Decode encURL (b64Encode encURL bs) = some bs ∧
    b64Decode encRawStd (b64Encode encRawStd bs) = some bs ∧ b64Decode encRawURL (b64Encode encRawURL bs) = some bs :=
  ⟨b64_decode_encode _ alphabets_ok.1 bs hb, b64_decode_encode _ alphabets_ok.2.1 bs hb,
   b64_decode_encode _ alphabets_ok.2.2.1 bs hb, b64_decode_encode _ alphabets_ok.2.2.2 bs hb⟩

example : b64Encode encStd [102, 111, 111, 98] = [90, 109, 57, 118, 89, 103, 61, 61] := by decide
example : b64Decode encStd [90, 109, 57, 118, 10, 89, 103, 61, 61] = some [102, 111, 111, 98] := by decide
example : b64Decode encStd [90, 109, 57, 118, 89, 103, 61] = none := by decide

/-- length of the encoding = `EncodedLen` -/
theorem b64_encode_length (e : B64Enc) (bs : List Nat) : (b64Encode e bs).length = b64EncodedLen e bs.length := by
  fun_induction b64Encode e bs with
  | case1 => cases hp : e.pad <;> simp [b64EncodedLen, hp]
  | case2 a => cases hp : e.pad <;> simp [b64EncodedLen, b64Pads, hp]
  | case3 a b => cases hp : e.pad <;> simp [b64EncodedLen, b64Pads, hp]
  | case4 a b c rest ih =>
    simp only [List.length_cons, ih]
    cases hp : e.pad <;> simp only [b64EncodedLen, hp] <;> omega

/-- `DecodedLen(EncodedLen(n))` is at least `n` (the buffer `DecodeString` allocates is large enough) and exact without padding -/
theorem b64_decodedLen_encodedLen (e : B64Enc) (n : Nat) :
    n ≤ b64DecodedLen e (b64EncodedLen e n) ∧ (e.pad = none → b64DecodedLen e (b64EncodedLen e n) = n) := by
  cases hp : e.pad with
  | none => simp only [b64DecodedLen, b64EncodedLen, hp]; omega
  | some p =>
    simp only [b64DecodedLen, b64EncodedLen, hp]
    have : (n + 2) / 3 * 4 / 4 = (n + 2) / 3 := Nat.mul_div_cancel _ (by decide)
    rw [this]
    refine ⟨by omega, by intro h; cases h⟩

end WaVerif.C14
