import WaVerif.Model.C03Spec
import WaVerif.Gen.C03Templates
import WaVerif.Lemmas.C03Tac
set_option linter.unusedSimpArgs false
/-! One theorem group per regenerated C template (statement fixed by the instruction name). Written by tools/gen_c03_props.py. -/
namespace WaVerif.C03.Rows
open WaVerif WaVerif.Wasm WaVerif.C03 WaVerif.Gen.C03

/-- `i64.add`: signed overflow is undefined in C -/
theorem i64_add_partial : Partial2 CVal.i64 CVal.i64 CVal.i64 Guard.addOk (wBin .add) f_i64_add := by
  unfold f_i64_add
  c03_tac

theorem i64_add_full_false : ¬ Full2 CVal.i64 CVal.i64 CVal.i64 (wBin .add) f_i64_add := by
  intro h
  have h := h 0x7fffffffffffffff#64 0x1#64 []
  revert h
  decide

theorem i64_add_sound : Sound2 CVal.i64 CVal.i64 CVal.i64 (wBin .add) f_i64_add := by
  unfold f_i64_add
  c03_sound

example : Guard.addOk 0x3#64 0x2#64 := by decide

/-- `i64.sub`: signed overflow is undefined in C -/
theorem i64_sub_partial : Partial2 CVal.i64 CVal.i64 CVal.i64 Guard.subOk (wBin .sub) f_i64_sub := by
  unfold f_i64_sub
  c03_tac

theorem i64_sub_full_false : ¬ Full2 CVal.i64 CVal.i64 CVal.i64 (wBin .sub) f_i64_sub := by
  intro h
  have h := h 0x8000000000000000#64 0x1#64 []
  revert h
  decide

theorem i64_sub_sound : Sound2 CVal.i64 CVal.i64 CVal.i64 (wBin .sub) f_i64_sub := by
  unfold f_i64_sub
  c03_sound

example : Guard.subOk 0x3#64 0x2#64 := by decide

/-- `i64.mul`: signed overflow is undefined in C -/
theorem i64_mul_partial : Partial2 CVal.i64 CVal.i64 CVal.i64 Guard.mulOk (wBin .mul) f_i64_mul := by
  unfold f_i64_mul
  c03_tac

theorem i64_mul_full_false : ¬ Full2 CVal.i64 CVal.i64 CVal.i64 (wBin .mul) f_i64_mul := by
  intro h
  have h := h 0x100000000#64 0x100000000#64 []
  revert h
  decide

theorem i64_mul_sound : Sound2 CVal.i64 CVal.i64 CVal.i64 (wBin .mul) f_i64_mul := by
  unfold f_i64_mul
  c03_sound

example : Guard.mulOk 0x3#64 0x2#64 := by decide

/-- `i64.div_s`: no trap check: division by zero is undefined in C, not abort() -/
theorem i64_div_s_partial : Partial2 CVal.i64 CVal.i64 CVal.i64 Guard.divS (wBin .div_s) f_i64_div_s := by
  unfold f_i64_div_s
  c03_tac

theorem i64_div_s_full_false : ¬ Full2 CVal.i64 CVal.i64 CVal.i64 (wBin .div_s) f_i64_div_s := by
  intro h
  have h := h 0x1#64 0x0#64 []
  revert h
  decide

theorem i64_div_s_sound : Sound2 CVal.i64 CVal.i64 CVal.i64 (wBin .div_s) f_i64_div_s := by
  unfold f_i64_div_s
  c03_sound

example : Guard.divS 0x3#64 0x2#64 := by decide

/-- `i64.div_u`: no trap check: division by zero is undefined in C, not abort() -/
theorem i64_div_u_partial : Partial2 CVal.i64 CVal.i64 CVal.i64 Guard.divU (wBin .div_u) f_i64_div_u := by
  unfold f_i64_div_u
  c03_tac

theorem i64_div_u_full_false : ¬ Full2 CVal.i64 CVal.i64 CVal.i64 (wBin .div_u) f_i64_div_u := by
  intro h
  have h := h 0x1#64 0x0#64 []
  revert h
  decide

theorem i64_div_u_sound : Sound2 CVal.i64 CVal.i64 CVal.i64 (wBin .div_u) f_i64_div_u := by
  unfold f_i64_div_u
  c03_sound

example : Guard.divU 0x3#64 0x2#64 := by decide

/-- `i64.rem_s`: INT64_MIN % -1 is undefined in C; WebAssembly yields 0 -/
theorem i64_rem_s_partial : Partial2 CVal.i64 CVal.i64 CVal.i64 Guard.divS (wBin .rem_s) f_i64_rem_s := by
  unfold f_i64_rem_s
  c03_tac

theorem i64_rem_s_full_false : ¬ Full2 CVal.i64 CVal.i64 CVal.i64 (wBin .rem_s) f_i64_rem_s := by
  intro h
  have h := h 0x8000000000000000#64 0xffffffffffffffff#64 []
  revert h
  decide

theorem i64_rem_s_sound : Sound2 CVal.i64 CVal.i64 CVal.i64 (wBin .rem_s) f_i64_rem_s := by
  unfold f_i64_rem_s
  c03_sound

example : Guard.divS 0x3#64 0x2#64 := by decide

/-- `i64.rem_u`: no trap check: division by zero is undefined in C, not abort() -/
theorem i64_rem_u_partial : Partial2 CVal.i64 CVal.i64 CVal.i64 Guard.divU (wBin .rem_u) f_i64_rem_u := by
  unfold f_i64_rem_u
  c03_tac

theorem i64_rem_u_full_false : ¬ Full2 CVal.i64 CVal.i64 CVal.i64 (wBin .rem_u) f_i64_rem_u := by
  intro h
  have h := h 0x1#64 0x0#64 []
  revert h
  decide

theorem i64_rem_u_sound : Sound2 CVal.i64 CVal.i64 CVal.i64 (wBin .rem_u) f_i64_rem_u := by
  unfold f_i64_rem_u
  c03_sound

example : Guard.divU 0x3#64 0x2#64 := by decide

end WaVerif.C03.Rows
