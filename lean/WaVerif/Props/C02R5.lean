import WaVerif.Model.C02Spec
import WaVerif.Gen.C02Templates
import WaVerif.Lemmas.C02Tac
set_option linter.unusedSimpArgs false
set_option linter.unusedVariables false
set_option maxRecDepth 4000
/-! One theorem per row of the regenerated x86-64 template table (statement fixed by the instruction name). -/
namespace WaVerif.C02.Rows
open WaVerif WaVerif.X64 WaVerif.C02 WaVerif.Gen.C02

def i32_rem_s_Statement : Prop := BinRow32 .rem_s i32_rem_s
theorem i32_rem_s_partial : BinRow32ExceptMinInt .rem_s i32_rem_s := by
  refine ⟨by decide, ?_⟩
  intro s
  intro hov0
  have hov : ¬ (BitVec.setWidth 32 (s.slots i32_rem_s.x) = 2147483648#32 ∧ BitVec.setWidth 32 (s.slots i32_rem_s.y) = 4294967295#32) := by
    intro h; apply hov0; simpa [lo32, intMin32_lit, intMin64_lit] using h
  by_cases hd : BitVec.setWidth 32 (s.slots i32_rem_s.y) = 0#32
  · obtain ⟨rax, rcx, rdx, rbx, rsi, rdi, r8, r9, r10, r11, r12, r13, r14, r15, flags, slots, stk⟩ := s
    simp only [i32_rem_s] at hd hov
    unfold i32_rem_s
    x64_simp
    simp [hd, hov]
    x64_finish

  · obtain ⟨rax, rcx, rdx, rbx, rsi, rdi, r8, r9, r10, r11, r12, r13, r14, r15, flags, slots, stk⟩ := s
    simp only [i32_rem_s] at hd hov
    unfold i32_rem_s
    x64_simp
    simp [hd, hov]
    x64_finish

/-- `idiv` raises #DE on MinInt %% -1 where WebAssembly's rem_s yields 0 -/
theorem i32_rem_s_full_false : ¬ i32_rem_s_Statement := by
  intro h
  have h1 := h.2 (witnessState i32_rem_s 2147483648#64 4294967295#64)
  revert h1
  unfold i32_rem_s witnessState
  x64_simp

theorem i32_rem_s_witness_faults : X64.run i32_rem_s.code (witnessState i32_rem_s 2147483648#64 4294967295#64) = none := by
  unfold i32_rem_s witnessState
  x64_simp

theorem i32_eqz_ok : EqzRow32 i32_eqz := by
  intro s
  obtain ⟨rax, rcx, rdx, rbx, rsi, rdi, r8, r9, r10, r11, r12, r13, r14, r15, flags, slots, stk⟩ := s
  unfold i32_eqz
  x64_simp
  x64_finish

theorem i64_mul_ok : BinRow64 .mul i64_mul := by
  refine ⟨by decide, ?_⟩
  intro s
  obtain ⟨rax, rcx, rdx, rbx, rsi, rdi, r8, r9, r10, r11, r12, r13, r14, r15, flags, slots, stk⟩ := s
  unfold i64_mul
  x64_simp
  x64_finish

theorem i64_or_ok : BinRow64 .or i64_or := by
  refine ⟨by decide, ?_⟩
  intro s
  obtain ⟨rax, rcx, rdx, rbx, rsi, rdi, r8, r9, r10, r11, r12, r13, r14, r15, flags, slots, stk⟩ := s
  unfold i64_or
  x64_simp
  x64_finish

theorem i64_shl_ok : BinRow64 .shl i64_shl := by
  refine ⟨by decide, ?_⟩
  intro s
  obtain ⟨rax, rcx, rdx, rbx, rsi, rdi, r8, r9, r10, r11, r12, r13, r14, r15, flags, slots, stk⟩ := s
  unfold i64_shl
  x64_simp
  x64_finish

theorem i64_shr_u_ok : BinRow64 .shr_u i64_shr_u := by
  refine ⟨by decide, ?_⟩
  intro s
  obtain ⟨rax, rcx, rdx, rbx, rsi, rdi, r8, r9, r10, r11, r12, r13, r14, r15, flags, slots, stk⟩ := s
  unfold i64_shr_u
  x64_simp
  x64_finish

theorem i64_rotr_ok : BinRow64 .rotr i64_rotr := by
  refine ⟨by decide, ?_⟩
  intro s
  obtain ⟨rax, rcx, rdx, rbx, rsi, rdi, r8, r9, r10, r11, r12, r13, r14, r15, flags, slots, stk⟩ := s
  unfold i64_rotr
  x64_simp
  x64_finish

theorem i64_lt_u_ok : RelRow64 .lt_u i64_lt_u := by
  refine ⟨by decide, ?_⟩
  intro s
  obtain ⟨rax, rcx, rdx, rbx, rsi, rdi, r8, r9, r10, r11, r12, r13, r14, r15, flags, slots, stk⟩ := s
  unfold i64_lt_u
  x64_simp
  x64_finish

theorem i64_le_u_ok : RelRow64 .le_u i64_le_u := by
  refine ⟨by decide, ?_⟩
  intro s
  obtain ⟨rax, rcx, rdx, rbx, rsi, rdi, r8, r9, r10, r11, r12, r13, r14, r15, flags, slots, stk⟩ := s
  unfold i64_le_u
  x64_simp
  x64_finish

theorem i64_popcnt_ok : UnRow64 .popcnt i64_popcnt := by
  intro s
  obtain ⟨rax, rcx, rdx, rbx, rsi, rdi, r8, r9, r10, r11, r12, r13, r14, r15, flags, slots, stk⟩ := s
  unfold i64_popcnt
  x64_simp
  x64_finish

end WaVerif.C02.Rows
