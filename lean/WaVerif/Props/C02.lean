import WaVerif.Model.C02Spec
import WaVerif.Gen.C02Templates
import WaVerif.Lemmas.C02Tac
set_option linter.unusedSimpArgs false
set_option linter.unusedVariables false
set_option maxRecDepth 4000
/-! One theorem per row of the regenerated x86-64 template table (statement fixed by the instruction name). -/
namespace WaVerif.C02.Rows
open WaVerif WaVerif.X64 WaVerif.C02 WaVerif.Gen.C02

theorem i32_add_ok : BinRow32 .add i32_add := by
  refine ⟨by decide, ?_⟩
  intro s
  obtain ⟨rax, rcx, rdx, rbx, rsi, rdi, r8, r9, r10, r11, r12, r13, r14, r15, flags, slots, stk⟩ := s
  unfold i32_add
  x64_simp
  x64_finish

theorem i32_sub_ok : BinRow32 .sub i32_sub := by
  refine ⟨by decide, ?_⟩
  intro s
  obtain ⟨rax, rcx, rdx, rbx, rsi, rdi, r8, r9, r10, r11, r12, r13, r14, r15, flags, slots, stk⟩ := s
  unfold i32_sub
  x64_simp
  x64_finish

theorem i32_mul_ok : BinRow32 .mul i32_mul := by
  refine ⟨by decide, ?_⟩
  intro s
  obtain ⟨rax, rcx, rdx, rbx, rsi, rdi, r8, r9, r10, r11, r12, r13, r14, r15, flags, slots, stk⟩ := s
  unfold i32_mul
  x64_simp
  x64_finish

theorem i32_div_s_ok : BinRow32 .div_s i32_div_s := by
  refine ⟨by decide, ?_⟩
  intro s
  by_cases hd : BitVec.setWidth 32 (s.slots i32_div_s.y) = 0#32
  · obtain ⟨rax, rcx, rdx, rbx, rsi, rdi, r8, r9, r10, r11, r12, r13, r14, r15, flags, slots, stk⟩ := s
    simp only [i32_div_s] at hd
    unfold i32_div_s
    x64_simp
    simp [hd]
    x64_finish

  · by_cases hov : BitVec.setWidth 32 (s.slots i32_div_s.x) = BitVec.intMin 32 ∧ BitVec.setWidth 32 (s.slots i32_div_s.y) = 4294967295#32
    · obtain ⟨rax, rcx, rdx, rbx, rsi, rdi, r8, r9, r10, r11, r12, r13, r14, r15, flags, slots, stk⟩ := s
      simp only [i32_div_s] at hd hov
      unfold i32_div_s
      x64_simp
      simp [hd, hov]
      x64_finish

    · obtain ⟨rax, rcx, rdx, rbx, rsi, rdi, r8, r9, r10, r11, r12, r13, r14, r15, flags, slots, stk⟩ := s
      simp only [i32_div_s] at hd hov
      unfold i32_div_s
      x64_simp
      simp [hd, hov]
      x64_finish

theorem i32_div_u_ok : BinRow32 .div_u i32_div_u := by
  refine ⟨by decide, ?_⟩
  intro s
  by_cases hd : BitVec.setWidth 32 (s.slots i32_div_u.y) = 0#32
  · obtain ⟨rax, rcx, rdx, rbx, rsi, rdi, r8, r9, r10, r11, r12, r13, r14, r15, flags, slots, stk⟩ := s
    simp only [i32_div_u] at hd
    unfold i32_div_u
    x64_simp
    simp [hd]
    x64_finish

  · obtain ⟨rax, rcx, rdx, rbx, rsi, rdi, r8, r9, r10, r11, r12, r13, r14, r15, flags, slots, stk⟩ := s
    simp only [i32_div_u] at hd
    unfold i32_div_u
    x64_simp
    simp [hd]
    x64_finish

def i32_rem_s_Statement : Prop := BinRow32 .rem_s i32_rem_s
theorem i32_rem_s_partial : BinRow32ExceptMinInt .rem_s i32_rem_s := by
  refine ⟨by decide, ?_⟩
  intro s
  intro hov
  simp only [lo32] at hov
  by_cases hd : BitVec.setWidth 32 (s.slots i32_rem_s.y) = 0#32
  · obtain ⟨rax, rcx, rdx, rbx, rsi, rdi, r8, r9, r10, r11, r12, r13, r14, r15, flags, slots, stk⟩ := s
    simp only [i32_rem_s] at hd hov
    unfold i32_rem_s
    x64_simp
    simp [hd, hov]
    x64_finish

  · obtain ⟨rax, rcx, rdx, rbx, rsi, rdi, r8, r9, r10, r11, r12, r13, r14, r15, flags, slots, stk⟩ := s
    simp only [i32_rem_s] at hd hov
    unfold i32_rem_s
    x64_simp
    simp [hd, hov]
    x64_finish

/-- `idiv` raises #DE on MinInt %% -1 where WebAssembly's rem_s yields 0 -/
theorem i32_rem_s_full_false : ¬ i32_rem_s_Statement := by
  intro h
  have h1 := h.2 (witnessState i32_rem_s 2147483648#64 4294967295#64)
  revert h1
  unfold i32_rem_s witnessState
  x64_simp

theorem i32_rem_s_witness_faults : X64.run i32_rem_s.code (witnessState i32_rem_s 2147483648#64 4294967295#64) = none := by
  unfold i32_rem_s witnessState
  x64_simp

theorem i32_rem_u_ok : BinRow32 .rem_u i32_rem_u := by
  refine ⟨by decide, ?_⟩
  intro s
  by_cases hd : BitVec.setWidth 32 (s.slots i32_rem_u.y) = 0#32
  · obtain ⟨rax, rcx, rdx, rbx, rsi, rdi, r8, r9, r10, r11, r12, r13, r14, r15, flags, slots, stk⟩ := s
    simp only [i32_rem_u] at hd
    unfold i32_rem_u
    x64_simp
    simp [hd]
    x64_finish

  · obtain ⟨rax, rcx, rdx, rbx, rsi, rdi, r8, r9, r10, r11, r12, r13, r14, r15, flags, slots, stk⟩ := s
    simp only [i32_rem_u] at hd
    unfold i32_rem_u
    x64_simp
    simp [hd]
    x64_finish

theorem i32_and_ok : BinRow32 .and i32_and := by
  refine ⟨by decide, ?_⟩
  intro s
  obtain ⟨rax, rcx, rdx, rbx, rsi, rdi, r8, r9, r10, r11, r12, r13, r14, r15, flags, slots, stk⟩ := s
  unfold i32_and
  x64_simp
  x64_finish

theorem i32_or_ok : BinRow32 .or i32_or := by
  refine ⟨by decide, ?_⟩
  intro s
  obtain ⟨rax, rcx, rdx, rbx, rsi, rdi, r8, r9, r10, r11, r12, r13, r14, r15, flags, slots, stk⟩ := s
  unfold i32_or
  x64_simp
  x64_finish

theorem i32_xor_ok : BinRow32 .xor i32_xor := by
  refine ⟨by decide, ?_⟩
  intro s
  obtain ⟨rax, rcx, rdx, rbx, rsi, rdi, r8, r9, r10, r11, r12, r13, r14, r15, flags, slots, stk⟩ := s
  unfold i32_xor
  x64_simp
  x64_finish

theorem i32_shl_ok : BinRow32 .shl i32_shl := by
  refine ⟨by decide, ?_⟩
  intro s
  obtain ⟨rax, rcx, rdx, rbx, rsi, rdi, r8, r9, r10, r11, r12, r13, r14, r15, flags, slots, stk⟩ := s
  unfold i32_shl
  x64_simp
  x64_finish

theorem i32_shr_s_ok : BinRow32 .shr_s i32_shr_s := by
  refine ⟨by decide, ?_⟩
  intro s
  obtain ⟨rax, rcx, rdx, rbx, rsi, rdi, r8, r9, r10, r11, r12, r13, r14, r15, flags, slots, stk⟩ := s
  unfold i32_shr_s
  x64_simp
  x64_finish

theorem i32_shr_u_ok : BinRow32 .shr_u i32_shr_u := by
  refine ⟨by decide, ?_⟩
  intro s
  obtain ⟨rax, rcx, rdx, rbx, rsi, rdi, r8, r9, r10, r11, r12, r13, r14, r15, flags, slots, stk⟩ := s
  unfold i32_shr_u
  x64_simp
  x64_finish

theorem i32_rotl_ok : BinRow32 .rotl i32_rotl := by
  refine ⟨by decide, ?_⟩
  intro s
  obtain ⟨rax, rcx, rdx, rbx, rsi, rdi, r8, r9, r10, r11, r12, r13, r14, r15, flags, slots, stk⟩ := s
  unfold i32_rotl
  x64_simp
  x64_finish

theorem i32_rotr_ok : BinRow32 .rotr i32_rotr := by
  refine ⟨by decide, ?_⟩
  intro s
  obtain ⟨rax, rcx, rdx, rbx, rsi, rdi, r8, r9, r10, r11, r12, r13, r14, r15, flags, slots, stk⟩ := s
  unfold i32_rotr
  x64_simp
  x64_finish

theorem i32_eq_ok : RelRow32 .eq i32_eq := by
  refine ⟨by decide, ?_⟩
  intro s
  obtain ⟨rax, rcx, rdx, rbx, rsi, rdi, r8, r9, r10, r11, r12, r13, r14, r15, flags, slots, stk⟩ := s
  unfold i32_eq
  x64_simp
  x64_finish

theorem i32_ne_ok : RelRow32 .ne i32_ne := by
  refine ⟨by decide, ?_⟩
  intro s
  obtain ⟨rax, rcx, rdx, rbx, rsi, rdi, r8, r9, r10, r11, r12, r13, r14, r15, flags, slots, stk⟩ := s
  unfold i32_ne
  x64_simp
  x64_finish

theorem i32_lt_s_ok : RelRow32 .lt_s i32_lt_s := by
  refine ⟨by decide, ?_⟩
  intro s
  obtain ⟨rax, rcx, rdx, rbx, rsi, rdi, r8, r9, r10, r11, r12, r13, r14, r15, flags, slots, stk⟩ := s
  unfold i32_lt_s
  x64_simp
  x64_finish

theorem i32_lt_u_ok : RelRow32 .lt_u i32_lt_u := by
  refine ⟨by decide, ?_⟩
  intro s
  obtain ⟨rax, rcx, rdx, rbx, rsi, rdi, r8, r9, r10, r11, r12, r13, r14, r15, flags, slots, stk⟩ := s
  unfold i32_lt_u
  x64_simp
  x64_finish

theorem i32_gt_s_ok : RelRow32 .gt_s i32_gt_s := by
  refine ⟨by decide, ?_⟩
  intro s
  obtain ⟨rax, rcx, rdx, rbx, rsi, rdi, r8, r9, r10, r11, r12, r13, r14, r15, flags, slots, stk⟩ := s
  unfold i32_gt_s
  x64_simp
  x64_finish

theorem i32_gt_u_ok : RelRow32 .gt_u i32_gt_u := by
  refine ⟨by decide, ?_⟩
  intro s
  obtain ⟨rax, rcx, rdx, rbx, rsi, rdi, r8, r9, r10, r11, r12, r13, r14, r15, flags, slots, stk⟩ := s
  unfold i32_gt_u
  x64_simp
  x64_finish

theorem i32_le_s_ok : RelRow32 .le_s i32_le_s := by
  refine ⟨by decide, ?_⟩
  intro s
  obtain ⟨rax, rcx, rdx, rbx, rsi, rdi, r8, r9, r10, r11, r12, r13, r14, r15, flags, slots, stk⟩ := s
  unfold i32_le_s
  x64_simp
  x64_finish

theorem i32_le_u_ok : RelRow32 .le_u i32_le_u := by
  refine ⟨by decide, ?_⟩
  intro s
  obtain ⟨rax, rcx, rdx, rbx, rsi, rdi, r8, r9, r10, r11, r12, r13, r14, r15, flags, slots, stk⟩ := s
  unfold i32_le_u
  x64_simp
  x64_finish

theorem i32_ge_s_ok : RelRow32 .ge_s i32_ge_s := by
  refine ⟨by decide, ?_⟩
  intro s
  obtain ⟨rax, rcx, rdx, rbx, rsi, rdi, r8, r9, r10, r11, r12, r13, r14, r15, flags, slots, stk⟩ := s
  unfold i32_ge_s
  x64_simp
  x64_finish

theorem i32_ge_u_ok : RelRow32 .ge_u i32_ge_u := by
  refine ⟨by decide, ?_⟩
  intro s
  obtain ⟨rax, rcx, rdx, rbx, rsi, rdi, r8, r9, r10, r11, r12, r13, r14, r15, flags, slots, stk⟩ := s
  unfold i32_ge_u
  x64_simp
  x64_finish

theorem i32_eqz_ok : EqzRow32 i32_eqz := by
  intro s
  obtain ⟨rax, rcx, rdx, rbx, rsi, rdi, r8, r9, r10, r11, r12, r13, r14, r15, flags, slots, stk⟩ := s
  unfold i32_eqz
  x64_simp
  x64_finish

theorem i32_clz_ok : UnRow32 .clz i32_clz := by
  intro s
  obtain ⟨rax, rcx, rdx, rbx, rsi, rdi, r8, r9, r10, r11, r12, r13, r14, r15, flags, slots, stk⟩ := s
  unfold i32_clz
  x64_simp
  x64_finish

theorem i32_ctz_ok : UnRow32 .ctz i32_ctz := by
  intro s
  obtain ⟨rax, rcx, rdx, rbx, rsi, rdi, r8, r9, r10, r11, r12, r13, r14, r15, flags, slots, stk⟩ := s
  unfold i32_ctz
  x64_simp
  x64_finish

theorem i32_popcnt_ok : UnRow32 .popcnt i32_popcnt := by
  intro s
  obtain ⟨rax, rcx, rdx, rbx, rsi, rdi, r8, r9, r10, r11, r12, r13, r14, r15, flags, slots, stk⟩ := s
  unfold i32_popcnt
  x64_simp
  x64_finish

theorem i64_add_ok : BinRow64 .add i64_add := by
  refine ⟨by decide, ?_⟩
  intro s
  obtain ⟨rax, rcx, rdx, rbx, rsi, rdi, r8, r9, r10, r11, r12, r13, r14, r15, flags, slots, stk⟩ := s
  unfold i64_add
  x64_simp
  x64_finish

theorem i64_sub_ok : BinRow64 .sub i64_sub := by
  refine ⟨by decide, ?_⟩
  intro s
  obtain ⟨rax, rcx, rdx, rbx, rsi, rdi, r8, r9, r10, r11, r12, r13, r14, r15, flags, slots, stk⟩ := s
  unfold i64_sub
  x64_simp
  x64_finish

theorem i64_mul_ok : BinRow64 .mul i64_mul := by
  refine ⟨by decide, ?_⟩
  intro s
  obtain ⟨rax, rcx, rdx, rbx, rsi, rdi, r8, r9, r10, r11, r12, r13, r14, r15, flags, slots, stk⟩ := s
  unfold i64_mul
  x64_simp
  x64_finish

theorem i64_div_s_ok : BinRow64 .div_s i64_div_s := by
  refine ⟨by decide, ?_⟩
  intro s
  by_cases hd : s.slots i64_div_s.y = 0#64
  · obtain ⟨rax, rcx, rdx, rbx, rsi, rdi, r8, r9, r10, r11, r12, r13, r14, r15, flags, slots, stk⟩ := s
    simp only [i64_div_s] at hd
    unfold i64_div_s
    x64_simp
    simp [hd]
    x64_finish

  · by_cases hov : s.slots i64_div_s.x = BitVec.intMin 64 ∧ s.slots i64_div_s.y = 18446744073709551615#64
    · obtain ⟨rax, rcx, rdx, rbx, rsi, rdi, r8, r9, r10, r11, r12, r13, r14, r15, flags, slots, stk⟩ := s
      simp only [i64_div_s] at hd hov
      unfold i64_div_s
      x64_simp
      simp [hd, hov]
      x64_finish

    · obtain ⟨rax, rcx, rdx, rbx, rsi, rdi, r8, r9, r10, r11, r12, r13, r14, r15, flags, slots, stk⟩ := s
      simp only [i64_div_s] at hd hov
      unfold i64_div_s
      x64_simp
      simp [hd, hov]
      x64_finish

theorem i64_div_u_ok : BinRow64 .div_u i64_div_u := by
  refine ⟨by decide, ?_⟩
  intro s
  by_cases hd : s.slots i64_div_u.y = 0#64
  · obtain ⟨rax, rcx, rdx, rbx, rsi, rdi, r8, r9, r10, r11, r12, r13, r14, r15, flags, slots, stk⟩ := s
    simp only [i64_div_u] at hd
    unfold i64_div_u
    x64_simp
    simp [hd]
    x64_finish

  · obtain ⟨rax, rcx, rdx, rbx, rsi, rdi, r8, r9, r10, r11, r12, r13, r14, r15, flags, slots, stk⟩ := s
    simp only [i64_div_u] at hd
    unfold i64_div_u
    x64_simp
    simp [hd]
    x64_finish

def i64_rem_s_Statement : Prop := BinRow64 .rem_s i64_rem_s
theorem i64_rem_s_partial : BinRow64ExceptMinInt .rem_s i64_rem_s := by
  refine ⟨by decide, ?_⟩
  intro s
  intro hov
  simp only [lo32] at hov
  by_cases hd : s.slots i64_rem_s.y = 0#64
  · obtain ⟨rax, rcx, rdx, rbx, rsi, rdi, r8, r9, r10, r11, r12, r13, r14, r15, flags, slots, stk⟩ := s
    simp only [i64_rem_s] at hd hov
    unfold i64_rem_s
    x64_simp
    simp [hd, hov]
    x64_finish

  · obtain ⟨rax, rcx, rdx, rbx, rsi, rdi, r8, r9, r10, r11, r12, r13, r14, r15, flags, slots, stk⟩ := s
    simp only [i64_rem_s] at hd hov
    unfold i64_rem_s
    x64_simp
    simp [hd, hov]
    x64_finish

/-- `idiv` raises #DE on MinInt %% -1 where WebAssembly's rem_s yields 0 -/
theorem i64_rem_s_full_false : ¬ i64_rem_s_Statement := by
  intro h
  have h1 := h.2 (witnessState i64_rem_s 9223372036854775808#64 18446744073709551615#64)
  revert h1
  unfold i64_rem_s witnessState
  x64_simp

theorem i64_rem_s_witness_faults : X64.run i64_rem_s.code (witnessState i64_rem_s 9223372036854775808#64 18446744073709551615#64) = none := by
  unfold i64_rem_s witnessState
  x64_simp

theorem i64_rem_u_ok : BinRow64 .rem_u i64_rem_u := by
  refine ⟨by decide, ?_⟩
  intro s
  by_cases hd : s.slots i64_rem_u.y = 0#64
  · obtain ⟨rax, rcx, rdx, rbx, rsi, rdi, r8, r9, r10, r11, r12, r13, r14, r15, flags, slots, stk⟩ := s
    simp only [i64_rem_u] at hd
    unfold i64_rem_u
    x64_simp
    simp [hd]
    x64_finish

  · obtain ⟨rax, rcx, rdx, rbx, rsi, rdi, r8, r9, r10, r11, r12, r13, r14, r15, flags, slots, stk⟩ := s
    simp only [i64_rem_u] at hd
    unfold i64_rem_u
    x64_simp
    simp [hd]
    x64_finish

theorem i64_and_ok : BinRow64 .and i64_and := by
  refine ⟨by decide, ?_⟩
  intro s
  obtain ⟨rax, rcx, rdx, rbx, rsi, rdi, r8, r9, r10, r11, r12, r13, r14, r15, flags, slots, stk⟩ := s
  unfold i64_and
  x64_simp
  x64_finish

theorem i64_or_ok : BinRow64 .or i64_or := by
  refine ⟨by decide, ?_⟩
  intro s
  obtain ⟨rax, rcx, rdx, rbx, rsi, rdi, r8, r9, r10, r11, r12, r13, r14, r15, flags, slots, stk⟩ := s
  unfold i64_or
  x64_simp
  x64_finish

theorem i64_xor_ok : BinRow64 .xor i64_xor := by
  refine ⟨by decide, ?_⟩
  intro s
  obtain ⟨rax, rcx, rdx, rbx, rsi, rdi, r8, r9, r10, r11, r12, r13, r14, r15, flags, slots, stk⟩ := s
  unfold i64_xor
  x64_simp
  x64_finish

theorem i64_shl_ok : BinRow64 .shl i64_shl := by
  refine ⟨by decide, ?_⟩
  intro s
  obtain ⟨rax, rcx, rdx, rbx, rsi, rdi, r8, r9, r10, r11, r12, r13, r14, r15, flags, slots, stk⟩ := s
  unfold i64_shl
  x64_simp
  x64_finish

theorem i64_shr_s_ok : BinRow64 .shr_s i64_shr_s := by
  refine ⟨by decide, ?_⟩
  intro s
  obtain ⟨rax, rcx, rdx, rbx, rsi, rdi, r8, r9, r10, r11, r12, r13, r14, r15, flags, slots, stk⟩ := s
  unfold i64_shr_s
  x64_simp
  x64_finish

theorem i64_shr_u_ok : BinRow64 .shr_u i64_shr_u := by
  refine ⟨by decide, ?_⟩
  intro s
  obtain ⟨rax, rcx, rdx, rbx, rsi, rdi, r8, r9, r10, r11, r12, r13, r14, r15, flags, slots, stk⟩ := s
  unfold i64_shr_u
  x64_simp
  x64_finish

theorem i64_rotl_ok : BinRow64 .rotl i64_rotl := by
  refine ⟨by decide, ?_⟩
  intro s
  obtain ⟨rax, rcx, rdx, rbx, rsi, rdi, r8, r9, r10, r11, r12, r13, r14, r15, flags, slots, stk⟩ := s
  unfold i64_rotl
  x64_simp
  x64_finish

theorem i64_rotr_ok : BinRow64 .rotr i64_rotr := by
  refine ⟨by decide, ?_⟩
  intro s
  obtain ⟨rax, rcx, rdx, rbx, rsi, rdi, r8, r9, r10, r11, r12, r13, r14, r15, flags, slots, stk⟩ := s
  unfold i64_rotr
  x64_simp
  x64_finish

theorem i64_eq_ok : RelRow64 .eq i64_eq := by
  refine ⟨by decide, ?_⟩
  intro s
  obtain ⟨rax, rcx, rdx, rbx, rsi, rdi, r8, r9, r10, r11, r12, r13, r14, r15, flags, slots, stk⟩ := s
  unfold i64_eq
  x64_simp
  x64_finish

theorem i64_ne_ok : RelRow64 .ne i64_ne := by
  refine ⟨by decide, ?_⟩
  intro s
  obtain ⟨rax, rcx, rdx, rbx, rsi, rdi, r8, r9, r10, r11, r12, r13, r14, r15, flags, slots, stk⟩ := s
  unfold i64_ne
  x64_simp
  x64_finish

theorem i64_lt_s_ok : RelRow64 .lt_s i64_lt_s := by
  refine ⟨by decide, ?_⟩
  intro s
  obtain ⟨rax, rcx, rdx, rbx, rsi, rdi, r8, r9, r10, r11, r12, r13, r14, r15, flags, slots, stk⟩ := s
  unfold i64_lt_s
  x64_simp
  x64_finish

theorem i64_lt_u_ok : RelRow64 .lt_u i64_lt_u := by
  refine ⟨by decide, ?_⟩
  intro s
  obtain ⟨rax, rcx, rdx, rbx, rsi, rdi, r8, r9, r10, r11, r12, r13, r14, r15, flags, slots, stk⟩ := s
  unfold i64_lt_u
  x64_simp
  x64_finish

theorem i64_gt_s_ok : RelRow64 .gt_s i64_gt_s := by
  refine ⟨by decide, ?_⟩
  intro s
  obtain ⟨rax, rcx, rdx, rbx, rsi, rdi, r8, r9, r10, r11, r12, r13, r14, r15, flags, slots, stk⟩ := s
  unfold i64_gt_s
  x64_simp
  x64_finish

theorem i64_gt_u_ok : RelRow64 .gt_u i64_gt_u := by
  refine ⟨by decide, ?_⟩
  intro s
  obtain ⟨rax, rcx, rdx, rbx, rsi, rdi, r8, r9, r10, r11, r12, r13, r14, r15, flags, slots, stk⟩ := s
  unfold i64_gt_u
  x64_simp
  x64_finish

theorem i64_le_s_ok : RelRow64 .le_s i64_le_s := by
  refine ⟨by decide, ?_⟩
  intro s
  obtain ⟨rax, rcx, rdx, rbx, rsi, rdi, r8, r9, r10, r11, r12, r13, r14, r15, flags, slots, stk⟩ := s
  unfold i64_le_s
  x64_simp
  x64_finish

theorem i64_le_u_ok : RelRow64 .le_u i64_le_u := by
  refine ⟨by decide, ?_⟩
  intro s
  obtain ⟨rax, rcx, rdx, rbx, rsi, rdi, r8, r9, r10, r11, r12, r13, r14, r15, flags, slots, stk⟩ := s
  unfold i64_le_u
  x64_simp
  x64_finish

theorem i64_ge_s_ok : RelRow64 .ge_s i64_ge_s := by
  refine ⟨by decide, ?_⟩
  intro s
  obtain ⟨rax, rcx, rdx, rbx, rsi, rdi, r8, r9, r10, r11, r12, r13, r14, r15, flags, slots, stk⟩ := s
  unfold i64_ge_s
  x64_simp
  x64_finish

theorem i64_ge_u_ok : RelRow64 .ge_u i64_ge_u := by
  refine ⟨by decide, ?_⟩
  intro s
  obtain ⟨rax, rcx, rdx, rbx, rsi, rdi, r8, r9, r10, r11, r12, r13, r14, r15, flags, slots, stk⟩ := s
  unfold i64_ge_u
  x64_simp
  x64_finish

theorem i64_eqz_ok : EqzRow64 i64_eqz := by
  intro s
  obtain ⟨rax, rcx, rdx, rbx, rsi, rdi, r8, r9, r10, r11, r12, r13, r14, r15, flags, slots, stk⟩ := s
  unfold i64_eqz
  x64_simp
  x64_finish

theorem i64_clz_illformed : Illformed i64_clz := by
  intro s
  obtain ⟨rax, rcx, rdx, rbx, rsi, rdi, r8, r9, r10, r11, r12, r13, r14, r15, flags, slots, stk⟩ := s
  unfold i64_clz
  x64_simp

/-- the full statement for `i64.clz` is false of the emitted template (it is not even encodable: GNU as rejects it) -/
theorem i64_clz_full_false : ¬ UnRow64 .clz i64_clz := illformed_not_un64 _ i64_clz_illformed

theorem i64_ctz_illformed : Illformed i64_ctz := by
  intro s
  obtain ⟨rax, rcx, rdx, rbx, rsi, rdi, r8, r9, r10, r11, r12, r13, r14, r15, flags, slots, stk⟩ := s
  unfold i64_ctz
  x64_simp

/-- the full statement for `i64.ctz` is false of the emitted template (it is not even encodable: GNU as rejects it) -/
theorem i64_ctz_full_false : ¬ UnRow64 .ctz i64_ctz := illformed_not_un64 _ i64_ctz_illformed

theorem i64_popcnt_illformed : Illformed i64_popcnt := by
  intro s
  obtain ⟨rax, rcx, rdx, rbx, rsi, rdi, r8, r9, r10, r11, r12, r13, r14, r15, flags, slots, stk⟩ := s
  unfold i64_popcnt
  x64_simp

/-- the full statement for `i64.popcnt` is false of the emitted template (it is not even encodable: GNU as rejects it) -/
theorem i64_popcnt_full_false : ¬ UnRow64 .popcnt i64_popcnt := illformed_not_un64 _ i64_popcnt_illformed

theorem i32_wrap_i64_ok : WrapRow i32_wrap_i64 := by
  intro s
  obtain ⟨rax, rcx, rdx, rbx, rsi, rdi, r8, r9, r10, r11, r12, r13, r14, r15, flags, slots, stk⟩ := s
  unfold i32_wrap_i64
  x64_simp
  x64_finish

theorem i64_extend_i32_s_ok : ExtSRow i64_extend_i32_s := by
  intro s
  obtain ⟨rax, rcx, rdx, rbx, rsi, rdi, r8, r9, r10, r11, r12, r13, r14, r15, flags, slots, stk⟩ := s
  unfold i64_extend_i32_s
  x64_simp
  x64_finish

theorem i64_extend_i32_u_ok : ExtURow i64_extend_i32_u := by
  intro s
  obtain ⟨rax, rcx, rdx, rbx, rsi, rdi, r8, r9, r10, r11, r12, r13, r14, r15, flags, slots, stk⟩ := s
  unfold i64_extend_i32_u
  x64_simp
  x64_finish

theorem select_i32_ok : SelectRow32 select_i32 select_i32_c := by
  refine ⟨by decide, by decide, by decide, ?_⟩
  intro s
  obtain ⟨rax, rcx, rdx, rbx, rsi, rdi, r8, r9, r10, r11, r12, r13, r14, r15, flags, slots, stk⟩ := s
  unfold select_i32 select_i32_c
  x64_simp
  x64_finish

theorem select_i64_ok : SelectRow64 select_i64 select_i64_c := by
  refine ⟨by decide, by decide, by decide, ?_⟩
  intro s
  obtain ⟨rax, rcx, rdx, rbx, rsi, rdi, r8, r9, r10, r11, r12, r13, r14, r15, flags, slots, stk⟩ := s
  unfold select_i64 select_i64_c
  x64_simp
  x64_finish

/-- hypotheses of the weakened rows are satisfiable -/
example : ¬ ((5#32 : BitVec 32) = BitVec.intMin 32 ∧ (3#32 : BitVec 32) = -1) := by decide
end WaVerif.C02.Rows
