namespace WaVerif.C02
theorem c02_placeholder : True := trivial
end WaVerif.C02
