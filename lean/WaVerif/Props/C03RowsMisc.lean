import WaVerif.Model.C03Spec
import WaVerif.Gen.C03Templates
import WaVerif.Lemmas.C03Tac
set_option linter.unusedSimpArgs false
/-! One theorem group per regenerated C template (statement fixed by the instruction name). Written by tools/gen_c03_props.py. -/
namespace WaVerif.C03.Rows
open WaVerif WaVerif.Wasm WaVerif.C03 WaVerif.Gen.C03

theorem select_i32_ok : Full3 CVal.i32 CVal.i32 CVal.i32 CVal.i32 wSelect f_select_i32 := by
  unfold f_select_i32
  c03_tac

theorem select_i64_ok : Full3 CVal.i64 CVal.i64 CVal.i32 CVal.i64 wSelect f_select_i64 := by
  unfold f_select_i64
  c03_tac

theorem i32_wrap_i64_ok : Full1 CVal.i64 CVal.i32 wWrap f_i32_wrap_i64 := by
  unfold f_i32_wrap_i64
  c03_tac

theorem i64_extend_i32_s_ok : Full1 CVal.i32 CVal.i64 wExtS f_i64_extend_i32_s := by
  unfold f_i64_extend_i32_s
  c03_tac

theorem i64_extend_i32_u_ok : Full1 CVal.i32 CVal.i64 wExtU f_i64_extend_i32_u := by
  unfold f_i64_extend_i32_u
  c03_tac

theorem i32_const_0_ok : Full0 CVal.i32 (wConst 0#32) f_i32_const_0 := by
  unfold f_i32_const_0
  c03_tac

theorem i32_const_1_ok : Full0 CVal.i32 (wConst 1#32) f_i32_const_1 := by
  unfold f_i32_const_1
  c03_tac

theorem i32_const_2_ok : Full0 CVal.i32 (wConst 4294967295#32) f_i32_const_2 := by
  unfold f_i32_const_2
  c03_tac

theorem i32_const_3_ok : Full0 CVal.i32 (wConst 2147483647#32) f_i32_const_3 := by
  unfold f_i32_const_3
  c03_tac

theorem i32_const_4_ok : Full0 CVal.i32 (wConst 2147483648#32) f_i32_const_4 := by
  unfold f_i32_const_4
  c03_tac

theorem i32_const_5_ok : Full0 CVal.i32 (wConst 2147483647#32) f_i32_const_5 := by
  unfold f_i32_const_5
  c03_tac

theorem i64_const_0_ok : Full0 CVal.i64 (wConst 0#64) f_i64_const_0 := by
  unfold f_i64_const_0
  c03_tac

theorem i64_const_1_ok : Full0 CVal.i64 (wConst 1#64) f_i64_const_1 := by
  unfold f_i64_const_1
  c03_tac

theorem i64_const_2_ok : Full0 CVal.i64 (wConst 18446744073709551615#64) f_i64_const_2 := by
  unfold f_i64_const_2
  c03_tac

theorem i64_const_3_ok : Full0 CVal.i64 (wConst 9223372036854775807#64) f_i64_const_3 := by
  unfold f_i64_const_3
  c03_tac

theorem i64_const_5_ok : Full0 CVal.i64 (wConst 4294967296#64) f_i64_const_5 := by
  unfold f_i64_const_5
  c03_tac

theorem i64_const_6_ok : Full0 CVal.i64 (wConst 18446744069414584319#64) f_i64_const_6 := by
  unfold f_i64_const_6
  c03_tac

end WaVerif.C03.Rows
