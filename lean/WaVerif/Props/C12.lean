import WaVerif.Lemmas.C11Garbage
/-!
# C12 — discarded acyclic data is reclaimed: loops run in bounded heap

Same model as C11 (Model/C11RC.lean).  On an acyclic heap reference counting is a precise collector: the allocated
blocks are exactly the reachable ones, so dropping the last reference to a structure frees exactly what is no longer
reachable, and a loop whose iterations leave the retained structure alone ends every iteration with the same
allocated set.  The boundary is a reference cycle (`cycle_leaks`).
-/
namespace WaVerif.C11

/-- on an acyclic `Owned` heap: allocated = reachable from the roots -/
theorem live_iff_reachable {s : St} (h : Owned s) (hac : Acyclic s) (b : Addr) : b ∈ s.live ↔ Reach s b :=
  live_iff_reach h hac b

/-- Dropping a held reference `r` on an acyclic `Owned` heap: the step terminates in an `Owned`, acyclic state whose
roots are the old ones minus that one reference; surviving blocks keep their fields; and a block of the old heap
survives **iff** it is still reachable, in the old heap, from the remaining roots.  Since every old block was reachable
(`live_iff_reachable`), the freed blocks are exactly those that were reachable only through the dropped reference. -/
theorem acyclic_garbage_reclaimed {s : St} {r : Addr} (h : Owned s) (hac : Acyclic s) (hr : r ∈ s.roots) :
    Owned (apply s (.drop r)) ∧ Acyclic (apply s (.drop r)) ∧
    (apply s (.drop r)).roots = s.roots.erase r ∧
    (∀ b ∈ (apply s (.drop r)).live, ((apply s (.drop r)).blk b).kids = (s.blk b).kids) ∧
    (∀ b, b ∈ (apply s (.drop r)).live ↔ ReachR s (s.roots.erase r) b) ∧
    (∀ b, b ∈ freedBy s (apply s (.drop r)) ↔ (ReachR s s.roots b ∧ ¬ ReachR s (s.roots.erase r) b)) := by
  have ho := owned_drop h hr
  have hac' := acyclic_drop h hac hr
  obtain ⟨hroots, _, hkids⟩ := drop_frame h hr
  have hlive : ∀ b, b ∈ (apply s (.drop r)).live ↔ ReachR s (s.roots.erase r) b := fun b =>
    (live_iff_reach ho hac' b).trans (reach_drop_iff h hr b)
  refine ⟨ho, hac', hroots, hkids, hlive, ?_⟩
  intro b
  have hold : b ∈ s.live ↔ ReachR s s.roots b := (live_iff_reach h hac b).trans reach_iff_reachR
  simp only [freedBy, List.mem_filter, Bool.not_eq_true', List.contains_eq_mem, decide_eq_false_iff_not]
  rw [hold, hlive]

-- chain 1 → 2 → 3 with 3 also held directly: dropping the reference to 1 frees 1 and 2, not 3
example : AllOk empty chainOps := by decide
example : Acyclic (applyAll empty chainOps) :=
  ⟨fun a => 3 - a, by decide⟩
example : (1 : Addr) ∈ (applyAll empty chainOps).roots := by decide
example : (apply (applyAll empty chainOps) (.drop 1)).live = [3] ∧
    freedBy (applyAll empty chainOps) (apply (applyAll empty chainOps) (.drop 1)) = [2, 1] := by decide

/-! ## loops -/

/-- A loop of disciplined iterations whose allocations are acyclic and dropped by the end of the iteration (the retained
structure is the same at every loop head) runs in bounded heap: the allocated set at the head of every iteration, hence
the number of allocated blocks, is that of the first. -/
theorem loop_bounded (body : Nat → List Op) (s : St) (N : Nat) (h : Owned s)
    (hok : ∀ i < N, AllOk (iter body s i) (body i))
    (hac : ∀ i ≤ N, Acyclic (iter body s i))
    (hsame : ∀ i ≤ N, SameRetained s (iter body s i)) :
    ∀ n ≤ N, (iter body s n).live.length = s.live.length ∧ ∀ b, b ∈ (iter body s n).live ↔ b ∈ s.live := by
  have howned : ∀ n ≤ N, Owned (iter body s n) := by
    intro n
    induction n with
    | zero => intro _; exact h
    | succ n ih =>
      intro hn
      exact owned_applyAll (ih (by omega)) (hok n (by omega))
  intro n hn
  have := live_eq_of_sameRetained h (hac 0 (by omega)) (howned n hn) (hac n hn) (hsame n hn)
  exact ⟨this.2, this.1⟩

-- example loop (Model: loopStart / loopBody): a retained block 1; each iteration builds 10+2i → 11+2i and drops it
example : ∀ i < 3, AllOk (iter loopBody loopStart i) (loopBody i) := by decide
example : ∀ i ≤ 3, Acyclic (iter loopBody loopStart i) := by
  intro i hi
  refine ⟨fun _ => 0, ?_⟩
  have h : ∀ i ≤ 3, ∀ x ∈ (iter loopBody loopStart i).live, ∀ k ∈ ((iter loopBody loopStart i).blk x).kids, (0 : Nat) < 0 := by
    decide
  exact h i hi
example : ∀ i ≤ 3, SameRetained loopStart (iter loopBody loopStart i) := by
  intro i hi
  have h : ∀ i ≤ 3, (∀ b ∈ (iter loopBody loopStart i).roots, b ∈ loopStart.roots) ∧
      (∀ b ∈ loopStart.roots, b ∈ (iter loopBody loopStart i).roots) ∧
      (∀ b ∈ loopStart.live, b ∈ (iter loopBody loopStart i).live ∧
        ((iter loopBody loopStart i).blk b).kids = (loopStart.blk b).kids) := by decide
  exact ⟨(h i hi).1, (h i hi).2.1, (h i hi).2.2⟩
example : (iter loopBody loopStart 3).live = [1] := by decide

/-! ## the boundary: cycles -/

/-- **Negative companion.**  A disciplined program builds a 2-cycle and drops every reference to it: the result is an
`Owned` state (all counts are right: each block is referenced once, by the other) with NO roots, in which both blocks
are still allocated and nothing was ever freed.  They are unreachable, so no disciplined operation can ever name them
again (`unreachable_not_held`): reference counting does not reclaim cycles. -/
theorem cycle_leaks :
    AllOk empty cycleOps ∧ Owned (applyAll empty cycleOps) ∧
    (applyAll empty cycleOps).roots = [] ∧ (applyAll empty cycleOps).live = [2, 1] ∧
    ((applyAll empty cycleOps).blk 1).rc = 1 ∧ ((applyAll empty cycleOps).blk 2).rc = 1 ∧
    (applyAll empty cycleOps).log.filter Ev.isFree = [] ∧
    ¬ Reach (applyAll empty cycleOps) 1 ∧ ¬ Reach (applyAll empty cycleOps) 2 ∧
    ¬ Acyclic (applyAll empty cycleOps) := by
  have hok : AllOk empty cycleOps := by decide
  have hroots : (applyAll empty cycleOps).roots = [] := by decide
  have hnr : ∀ b, ¬ Reach (applyAll empty cycleOps) b := by
    intro b hb
    induction hb with
    | root hb => rw [hroots] at hb; simp at hb
    | kid _ _ _ ih => exact ih
  refine ⟨hok, owned_applyAll owned_empty hok, hroots, by decide, by decide, by decide, by decide, hnr 1, hnr 2, ?_⟩
  rintro ⟨rank, hrank⟩
  have h12 := hrank 1 (by decide) 2 (by decide)
  have h21 := hrank 2 (by decide) 1 (by decide)
  omega

/-- A set of blocks that nothing outside it refers to (no root, no field of an outside block) is never touched again:
after ANY sequence of disciplined operations its members are still allocated, still unreferenced from outside, with
unchanged contents. -/
theorem garbage_never_freed {G : List Addr} {s : St} {ops : List Op} (ho : Owned s) (h : GInv G ⟨s, []⟩)
    (hok : AllOk s ops) :
    (∀ g ∈ G, g ∈ (applyAll s ops).live ∧ (applyAll s ops).blk g = s.blk g) ∧ GInv G ⟨applyAll s ops, []⟩ := by
  obtain ⟨h1, s1⟩ := garbage_stays_all ho h hok
  exact ⟨fun g hg => ⟨h1.live g hg, s1 g hg⟩, h1⟩

/-- … in particular the dropped 2-cycle of `cycle_leaks` is never freed, whatever the program does afterwards. -/
theorem cycle_never_freed (ops : List Op) (hok : AllOk (applyAll empty cycleOps) ops) :
    1 ∈ (applyAll (applyAll empty cycleOps) ops).live ∧ 2 ∈ (applyAll (applyAll empty cycleOps) ops).live ∧
    (applyAll (applyAll empty cycleOps) ops).blk 1 = ⟨1, [2]⟩ ∧ (applyAll (applyAll empty cycleOps) ops).blk 2 = ⟨1, [1]⟩ := by
  have hok0 : AllOk empty cycleOps := by decide
  have ho : Owned (applyAll empty cycleOps) := owned_applyAll owned_empty hok0
  have hg : GInv [1, 2] ⟨applyAll empty cycleOps, []⟩ := by
    refine ⟨by decide, by decide, by decide, by decide, ?_⟩
    intro f hf; simp at hf
  obtain ⟨hmem, _⟩ := garbage_never_freed ho hg hok
  have h1 := hmem 1 (by simp)
  have h2 := hmem 2 (by simp)
  refine ⟨h1.1, h2.1, ?_, ?_⟩
  · rw [h1.2]; decide
  · rw [h2.2]; decide

example : AllOk (applyAll empty cycleOps) [.alloc 7, .alloc 8, .store 7 8, .drop 7] := by decide

/-- what is unreachable cannot be named by any disciplined operation: it is not `Held` -/
theorem unreachable_not_held {s : St} (h : Owned s) {b : Addr} (hb : ¬ Reach s b) : ¬ Held s b := by
  rintro (hr | ⟨x, hx, hk⟩)
  · exact hb (.root hr)
  · exact hb (.kid (.root hx) (h.root_live hx) hk)

end WaVerif.C11
