import WaVerif.Model.C03Spec
import WaVerif.Gen.C03Templates
import WaVerif.Lemmas.C03Tac
set_option linter.unusedSimpArgs false
/-! One theorem group per regenerated C template (statement fixed by the instruction name). Written by tools/gen_c03_props.py. -/
namespace WaVerif.C03.Rows
open WaVerif WaVerif.Wasm WaVerif.C03 WaVerif.Gen.C03

theorem i64_and_ok : Full2 CVal.i64 CVal.i64 CVal.i64 (wBin .and) f_i64_and := by
  unfold f_i64_and
  c03_tac

theorem i64_or_ok : Full2 CVal.i64 CVal.i64 CVal.i64 (wBin .or) f_i64_or := by
  unfold f_i64_or
  c03_tac

theorem i64_xor_ok : Full2 CVal.i64 CVal.i64 CVal.i64 (wBin .xor) f_i64_xor := by
  unfold f_i64_xor
  c03_tac

theorem i64_shl_ok : Full2 CVal.i64 CVal.i64 CVal.i64 (wBin .shl) f_i64_shl := by
  unfold f_i64_shl
  c03_tac

theorem i64_shr_s_ok : Full2 CVal.i64 CVal.i64 CVal.i64 (wBin .shr_s) f_i64_shr_s := by
  unfold f_i64_shr_s
  c03_tac

theorem i64_shr_u_ok : Full2 CVal.i64 CVal.i64 CVal.i64 (wBin .shr_u) f_i64_shr_u := by
  unfold f_i64_shr_u
  c03_tac

theorem i64_rotl_ok : Full2 CVal.i64 CVal.i64 CVal.i64 (wBin .rotl) f_i64_rotl := by
  unfold f_i64_rotl
  c03_tac

theorem i64_rotr_ok : Full2 CVal.i64 CVal.i64 CVal.i64 (wBin .rotr) f_i64_rotr := by
  unfold f_i64_rotr
  c03_tac

end WaVerif.C03.Rows
