import WaVerif.Model.C19
import WaVerif.Lemmas.C19Steps
import WaVerif.Lemmas.C19Spec
import WaVerif.Lemmas.C19Dec
import WaVerif.Lemmas.C19Inst
import WaVerif.Lemmas.C19Enc
/-!
# C19 — property theorems (LEB128)

Every `theorem` in this file is an obligation of the check and is axiom-audited.
-/
namespace WaVerif.C19

/-! ## encoders: exact value, termination shape, length (minimality) -/

theorem valU_encU (v : Nat) : valU (encU v) = v := by
  induction v using Nat.strongRecOn with
  | _ v ih =>
    unfold encU
    split
    · simp [valU]; omega
    · rename_i h
      have := ih (v / 128) (by omega)
      simp [valU, this]; omega

theorem terminated_encU (v : Nat) : Terminated (encU v) := by
  induction v using Nat.strongRecOn with
  | _ v ih =>
    unfold encU
    split
    · simp [Terminated]; omega
    · rename_i h
      have := ih (v / 128) (by omega)
      generalize hq : encU (v / 128) = q at this
      cases q with
      | nil => simp [Terminated] at this
      | cons a t => simp only [Terminated]; exact And.intro (by omega) this

theorem bytes_encU (v : Nat) : Bytes (encU v) := by
  induction v using Nat.strongRecOn with
  | _ v ih =>
    unfold encU
    split
    · intro b hb; simp at hb; omega
    · intro b hb
      simp at hb
      rcases hb with rfl | hb
      · omega
      · exact ih (v / 128) (by omega) b hb

/-- Minimality: the encoding of `v` has at most `k` bytes exactly when `v` fits in `7k` bits
(a `k`-byte unsigned LEB128 sequence cannot denote a value ≥ 2^(7k), see `valU_lt`). -/
theorem encU_length_le_iff (v k : Nat) (hk : 1 ≤ k) : (encU v).length ≤ k ↔ v < 2 ^ (7 * k) := by
  induction v using Nat.strongRecOn generalizing k with
  | _ v ih =>
    unfold encU
    split
    · rename_i h
      have h1 : v < 128 := by omega
      have : 128 ≤ 2 ^ (7 * k) := by
        calc 128 = 2 ^ 7 := by decide
          _ ≤ 2 ^ (7 * k) := Nat.pow_le_pow_right (by omega) (by omega)
      simp; omega
    · rename_i h
      have hv : 128 ≤ v := by omega
      rcases Nat.lt_or_ge k 2 with hk2 | hk2
      · have : k = 1 := by omega
        subst this
        simp only [List.length_cons, show (2:Nat) ^ (7 * 1) = 128 by decide]
        have hpos : 0 < (encU (v / 128)).length := by
          have := terminated_encU (v / 128)
          cases h' : encU (v / 128) with
          | nil => simp [h', Terminated] at this
          | cons a t => simp
        omega
      · have := ih (v / 128) (by omega) (k - 1) (by omega)
        have e : 2 ^ (7 * k) = 128 * 2 ^ (7 * (k - 1)) := by
          have : 7 * k = 7 + 7 * (k - 1) := by omega
          rw [this, Nat.pow_add]
        simp only [List.length_cons]
        rw [e]
        constructor
        · intro hl
          have := this.mp (by omega)
          omega
        · intro hl
          have := this.mpr (by
            apply Nat.div_lt_of_lt_mul; omega)
          omega

theorem valU_lt (bs : List Nat) : valU bs < 2 ^ (7 * bs.length) := by
  induction bs with
  | nil => simp [valU]
  | cons b t ih =>
    simp only [valU, List.length_cons]
    have e : 2 ^ (7 * (t.length + 1)) = 128 * 2 ^ (7 * t.length) := by
      rw [show 7 * (t.length + 1) = 7 + 7 * t.length by omega, Nat.pow_add]
    rw [e]; omega


/-! ## round trips -/


theorem decU32go_encU (v : Nat) : ∀ i ret rest, i ≤ 4 → ret < 2 ^ (7 * i) → v < 2 ^ (32 - 7 * i) →
    decU32go i ret (encU v ++ rest) = .ok (ret + v * 2 ^ (7 * i), i + (encU v).length) := by
  induction v using Nat.strongRecOn with
  | _ v ih =>
    intro i ret rest hi hret hv
    have hcases : i = 0 ∨ i = 1 ∨ i = 2 ∨ i = 3 ∨ i = 4 := by omega
    unfold encU
    split
    · rename_i h
      rcases hcases with rfl | rfl | rfl | rfl | rfl <;>
      · unfold decU32go
        simp at hret hv ⊢
        have hb : v % 128 < 128 := by omega
        simp [hb]
        first
          | omega
          | (have hz : ¬ (0 < v % 128 / 16 % 16) := by omega
             rw [if_neg hz]
             congr 2
             omega)
    · rename_i h
      have hrec := ih (v / 128) (by omega) (i + 1)
      rcases hcases with rfl | rfl | rfl | rfl | rfl <;>
      · unfold decU32go
        simp at hret hv hrec ⊢
        first
        | omega
        | (have hb : ¬ (v % 128 + 128 < 128) := by omega
           simp [hb]
           rw [hrec _ rest (by omega) (by omega)]
           simp
           omega)

/-- Round trip, unsigned 32-bit: every value, any trailing bytes; byte count = encoding length. -/
theorem decodeU32_encU (v : Nat) (hv : v < 2 ^ 32) (rest : List Nat) :
    decodeU32 (encU v ++ rest) = .ok (v, (encU v).length) := by
  have := decU32go_encU v 0 0 rest (by omega) (by simp) (by simpa using hv)
  simpa [decodeU32] using this


theorem decS32go_encS (v : Int) : ∀ n ret rest, n ≤ 4 → ret < 2 ^ (7 * n) →
    -(2 : Int) ^ (31 - 7 * n) ≤ v → v < 2 ^ (31 - 7 * n) →
    decS32go n ret (encS v ++ rest) = .ok (sgn 32 (ret + v * 2 ^ (7 * n)), n + (encS v).length) := by
  induction hm : v.natAbs using Nat.strongRecOn generalizing v with
  | _ m ih =>
    intro n ret rest hn hret hlo hhi
    have hcases : n = 0 ∨ n = 1 ∨ n = 2 ∨ n = 3 ∨ n = 4 := by omega
    have hc0 : 0 ≤ v % 128 := by omega
    have hc1 : v % 128 < 128 := by omega
    unfold encS
    simp only []
    generalize hc : (v % 128).toNat = c at *
    have hcv : (c : Int) = v % 128 := by omega
    have hc128 : c < 128 := by omega
    split
    · rename_i h
      have hv2 : (v = c ∧ c < 64) ∨ (v = (c:Int) - 128 ∧ c ≥ 64) := by omega
      simp only [List.cons_append, List.nil_append, List.length_cons, List.length_nil, Nat.zero_add]
      rcases hcases with rfl | rfl | rfl | rfl | rfl
      · exact decS32go_term_0 ret c v rest hc128 hv2 hret hlo hhi
      · exact decS32go_term_1 ret c v rest hc128 hv2 hret hlo hhi
      · exact decS32go_term_2 ret c v rest hc128 hv2 hret hlo hhi
      · exact decS32go_term_3 ret c v rest hc128 hv2 hret hlo hhi
      · exact decS32go_term_4 ret c v rest hc128 hv2 hret hlo hhi
    · rename_i h
      have hrec := ih (v / 128).natAbs (by omega) (v / 128) rfl (n + 1)
      have hq : v = 128 * (v / 128) + c := by omega
      generalize v / 128 = q at *
      simp only [List.cons_append, List.length_cons]
      subst hq
      rcases hcases with rfl | rfl | rfl | rfl | rfl
      · obtain ⟨h1, h2, h3⟩ := decS32go_step_0 ret c q (encS q ++ rest) hc128 hret
        rw [h1, hrec _ rest (by omega) h2 (by simp at hlo hhi ⊢; omega) (by simp at hlo hhi ⊢; omega), h3]
        simp only [Except.ok.injEq, Prod.mk.injEq, true_and]; omega
      · obtain ⟨h1, h2, h3⟩ := decS32go_step_1 ret c q (encS q ++ rest) hc128 hret
        rw [h1, hrec _ rest (by omega) h2 (by simp at hlo hhi ⊢; omega) (by simp at hlo hhi ⊢; omega), h3]
        simp only [Except.ok.injEq, Prod.mk.injEq, true_and]; omega
      · obtain ⟨h1, h2, h3⟩ := decS32go_step_2 ret c q (encS q ++ rest) hc128 hret
        rw [h1, hrec _ rest (by omega) h2 (by simp at hlo hhi ⊢; omega) (by simp at hlo hhi ⊢; omega), h3]
        simp only [Except.ok.injEq, Prod.mk.injEq, true_and]; omega
      · obtain ⟨h1, h2, h3⟩ := decS32go_step_3 ret c q (encS q ++ rest) hc128 hret
        rw [h1, hrec _ rest (by omega) h2 (by simp at hlo hhi ⊢; omega) (by simp at hlo hhi ⊢; omega), h3]
        simp only [Except.ok.injEq, Prod.mk.injEq, true_and]; omega
      · exfalso
        simp at hlo hhi
        omega

/-- Round trip, signed 32-bit: every value in range, any trailing bytes. -/
theorem decodeS32_encS (v : Int) (hlo : -(2:Int) ^ 31 ≤ v) (hhi : v < 2 ^ 31) (rest : List Nat) :
    decodeS32 (encS v ++ rest) = .ok (v, (encS v).length) := by
  have := decS32go_encS v 0 0 rest (by omega) (by simp) (by simpa using hlo) (by simpa using hhi)
  simp only [decodeS32, this, sgn]
  simp only [Except.ok.injEq, Prod.mk.injEq]; refine ⟨?_, ?_⟩ <;> simp <;> omega

theorem decS64go_encS (v : Int) : ∀ n ret rest, n ≤ 9 → ret < 2 ^ (7 * n) →
    -(2 : Int) ^ (63 - 7 * n) ≤ v → v < 2 ^ (63 - 7 * n) →
    decS64go n ret (encS v ++ rest) = .ok (sgn 64 (ret + v * 2 ^ (7 * n)), n + (encS v).length) := by
  induction hm : v.natAbs using Nat.strongRecOn generalizing v with
  | _ m ih =>
    intro n ret rest hn hret hlo hhi
    have hcases : n = 0 ∨ n = 1 ∨ n = 2 ∨ n = 3 ∨ n = 4 ∨ n = 5 ∨ n = 6 ∨ n = 7 ∨ n = 8 ∨ n = 9 := by omega
    have hc0 : 0 ≤ v % 128 := by omega
    have hc1 : v % 128 < 128 := by omega
    unfold encS
    simp only []
    generalize hc : (v % 128).toNat = c at *
    have hcv : (c : Int) = v % 128 := by omega
    have hc128 : c < 128 := by omega
    split
    · rename_i h
      have hv2 : (v = c ∧ c < 64) ∨ (v = (c:Int) - 128 ∧ c ≥ 64) := by omega
      simp only [List.cons_append, List.nil_append, List.length_cons, List.length_nil, Nat.zero_add]
      rcases hcases with rfl | rfl | rfl | rfl | rfl | rfl | rfl | rfl | rfl | rfl
      · exact decS64go_term_0 ret c v rest hc128 hv2 hret hlo hhi
      · exact decS64go_term_1 ret c v rest hc128 hv2 hret hlo hhi
      · exact decS64go_term_2 ret c v rest hc128 hv2 hret hlo hhi
      · exact decS64go_term_3 ret c v rest hc128 hv2 hret hlo hhi
      · exact decS64go_term_4 ret c v rest hc128 hv2 hret hlo hhi
      · exact decS64go_term_5 ret c v rest hc128 hv2 hret hlo hhi
      · exact decS64go_term_6 ret c v rest hc128 hv2 hret hlo hhi
      · exact decS64go_term_7 ret c v rest hc128 hv2 hret hlo hhi
      · exact decS64go_term_8 ret c v rest hc128 hv2 hret hlo hhi
      · exact decS64go_term_9 ret c v rest hc128 hv2 hret hlo hhi
    · rename_i h
      have hrec := ih (v / 128).natAbs (by omega) (v / 128) rfl (n + 1)
      have hq : v = 128 * (v / 128) + c := by omega
      generalize v / 128 = q at *
      simp only [List.cons_append, List.length_cons]
      subst hq
      rcases hcases with rfl | rfl | rfl | rfl | rfl | rfl | rfl | rfl | rfl | rfl
      · obtain ⟨h1, h2, h3⟩ := decS64go_step_0 ret c q (encS q ++ rest) hc128 hret
        rw [h1, hrec _ rest (by omega) h2 (by simp at hlo hhi ⊢; omega) (by simp at hlo hhi ⊢; omega), h3]
        simp only [Except.ok.injEq, Prod.mk.injEq, true_and]; omega
      · obtain ⟨h1, h2, h3⟩ := decS64go_step_1 ret c q (encS q ++ rest) hc128 hret
        rw [h1, hrec _ rest (by omega) h2 (by simp at hlo hhi ⊢; omega) (by simp at hlo hhi ⊢; omega), h3]
        simp only [Except.ok.injEq, Prod.mk.injEq, true_and]; omega
      · obtain ⟨h1, h2, h3⟩ := decS64go_step_2 ret c q (encS q ++ rest) hc128 hret
        rw [h1, hrec _ rest (by omega) h2 (by simp at hlo hhi ⊢; omega) (by simp at hlo hhi ⊢; omega), h3]
        simp only [Except.ok.injEq, Prod.mk.injEq, true_and]; omega
      · obtain ⟨h1, h2, h3⟩ := decS64go_step_3 ret c q (encS q ++ rest) hc128 hret
        rw [h1, hrec _ rest (by omega) h2 (by simp at hlo hhi ⊢; omega) (by simp at hlo hhi ⊢; omega), h3]
        simp only [Except.ok.injEq, Prod.mk.injEq, true_and]; omega
      · obtain ⟨h1, h2, h3⟩ := decS64go_step_4 ret c q (encS q ++ rest) hc128 hret
        rw [h1, hrec _ rest (by omega) h2 (by simp at hlo hhi ⊢; omega) (by simp at hlo hhi ⊢; omega), h3]
        simp only [Except.ok.injEq, Prod.mk.injEq, true_and]; omega
      · obtain ⟨h1, h2, h3⟩ := decS64go_step_5 ret c q (encS q ++ rest) hc128 hret
        rw [h1, hrec _ rest (by omega) h2 (by simp at hlo hhi ⊢; omega) (by simp at hlo hhi ⊢; omega), h3]
        simp only [Except.ok.injEq, Prod.mk.injEq, true_and]; omega
      · obtain ⟨h1, h2, h3⟩ := decS64go_step_6 ret c q (encS q ++ rest) hc128 hret
        rw [h1, hrec _ rest (by omega) h2 (by simp at hlo hhi ⊢; omega) (by simp at hlo hhi ⊢; omega), h3]
        simp only [Except.ok.injEq, Prod.mk.injEq, true_and]; omega
      · obtain ⟨h1, h2, h3⟩ := decS64go_step_7 ret c q (encS q ++ rest) hc128 hret
        rw [h1, hrec _ rest (by omega) h2 (by simp at hlo hhi ⊢; omega) (by simp at hlo hhi ⊢; omega), h3]
        simp only [Except.ok.injEq, Prod.mk.injEq, true_and]; omega
      · obtain ⟨h1, h2, h3⟩ := decS64go_step_8 ret c q (encS q ++ rest) hc128 hret
        rw [h1, hrec _ rest (by omega) h2 (by simp at hlo hhi ⊢; omega) (by simp at hlo hhi ⊢; omega), h3]
        simp only [Except.ok.injEq, Prod.mk.injEq, true_and]; omega
      · exfalso
        simp at hlo hhi
        omega

/-- Round trip, signed 64-bit: every value in range, any trailing bytes. -/
theorem decodeS64_encS (v : Int) (hlo : -(2:Int) ^ 63 ≤ v) (hhi : v < 2 ^ 63) (rest : List Nat) :
    decodeS64 (encS v ++ rest) = .ok (v, (encS v).length) := by
  have := decS64go_encS v 0 0 rest (by omega) (by simp) (by simpa using hlo) (by simpa using hhi)
  simp only [decodeS64, this, sgn]
  simp only [Except.ok.injEq, Prod.mk.injEq]; refine ⟨?_, ?_⟩ <;> simp <;> omega

/-! ## signed encoder: exact value, termination shape, length (minimality) -/

theorem valS_encS (v : Int) : valS (encS v) = v := by
  induction hm : v.natAbs using Nat.strongRecOn generalizing v with
  | _ m ih =>
    unfold encS
    simp only []
    split
    · simp only [valS]
      split <;> omega
    · rename_i h
      have hrec := ih (v / 128).natAbs (by omega) (v / 128) rfl
      cases hq : encS (v / 128) with
      | nil => exact absurd hq (encS_ne_nil _)
      | cons a t =>
        rw [valS_cons2, ← hq, hrec]; omega

theorem terminated_encS (v : Int) : Terminated (encS v) := by
  induction hm : v.natAbs using Nat.strongRecOn generalizing v with
  | _ m ih =>
    unfold encS
    simp only []
    split
    · simp only [Terminated]; omega
    · rename_i h
      have hrec := ih (v / 128).natAbs (by omega) (v / 128) rfl
      cases hq : encS (v / 128) with
      | nil => exact absurd hq (encS_ne_nil _)
      | cons a t =>
        rw [terminated_cons2, ← hq]; exact ⟨by omega, hrec⟩

theorem bytes_encS (v : Int) : Bytes (encS v) := by
  induction hm : v.natAbs using Nat.strongRecOn generalizing v with
  | _ m ih =>
    unfold encS
    simp only []
    split
    · intro b hb; simp at hb; omega
    · rename_i h
      intro b hb
      simp at hb
      rcases hb with rfl | hb
      · omega
      · exact ih (v / 128).natAbs (by omega) (v / 128) rfl b hb

/-- Minimality, signed: the encoding of `v` has at most `k` bytes exactly when `v` is a
`7k`-bit two's-complement number (and by `valS_range` no `k`-byte sequence denotes anything else). -/
theorem encS_length_le_iff (v : Int) (k : Nat) (hk : 1 ≤ k) :
    (encS v).length ≤ k ↔ -(2 : Int) ^ (7 * k - 1) ≤ v ∧ v < 2 ^ (7 * k - 1) := by
  induction hm : v.natAbs using Nat.strongRecOn generalizing v k with
  | _ m ih =>
    unfold encS
    simp only []
    split
    · rename_i h
      have := sixtyfour_le_pow k hk
      simp only [List.length_cons, List.length_nil]
      constructor
      · intro _; omega
      · intro _; omega
    · rename_i h
      have hne := encS_ne_nil (v / 128)
      have hpos : 0 < (encS (v / 128)).length := List.length_pos_iff.mpr hne
      simp only [List.length_cons]
      rcases Nat.lt_or_ge k 2 with hk2 | hk2
      · have : k = 1 := by omega
        subst this
        simp only [Nat.reduceMul, Nat.reduceSub, Int.reducePow]
        omega
      · have hrec := ih (v / 128).natAbs (by omega) (v / 128) (k - 1) (by omega) rfl
        rw [pow_split k hk2]
        generalize (2 : Int) ^ (7 * (k - 1) - 1) = Q at *
        omega

example : (1 : Nat) ≤ 3 ∧ (encS (-123456)).length ≤ 3 := by
  refine ⟨by omega, ?_⟩
  simp [encS]

/-- A terminated sequence of `len` bytes denotes a `7·len`-bit two's-complement number: fewer bytes
than `(encS v).length` cannot denote `v` (with `encS_length_le_iff`). -/
theorem valS_range (bs : List Nat) (h : Terminated bs) :
    -(2 : Int) ^ (7 * bs.length - 1) ≤ valS bs ∧ valS bs < 2 ^ (7 * bs.length - 1) :=
  valS_range_of_ne_nil bs (terminated_ne_nil h)

example : Terminated [0xC0, 0xBB, 0x78] ∧ valS [0xC0, 0xBB, 0x78] = -123456 := by simp [Terminated, valS]


/-! ## decoders enforce the specification limits

Soundness: whatever a decoder accepts is a terminated sequence of at most 5 (10) bytes whose EXACT
value (`valU` / `valS` of the consumed bytes, no truncation) is the returned value and lies in the
type's range — so over-long sequences and inconsistent unused high bits are rejected.
Completeness: every such sequence is accepted.  No hypothesis `Bytes bs` is needed (a list element
`≥ 256` is read as a continuation byte with payload `b % 128` by model, `Terminated` and `valU`/`valS`
alike). -/

theorem decodeU32_sound (bs : List Nat) (v n : Nat) (h : decodeU32 bs = .ok (v, n)) :
    n ≤ 5 ∧ n ≤ bs.length ∧ Terminated (bs.take n) ∧ valU (bs.take n) = v ∧ v < 2 ^ 32 := by
  have h' : decU32goI 0 0 bs = .ok ((v : Int), n) := liftU_eq_ok.mpr h
  obtain ⟨j, hm, hK, hj, hT, hlo, hhi, hv⟩ := decU32goI_spec.sound bs 0 0 v n (by omega) h'
  have : j = n := by omega
  subst this
  simp only [valUI, Nat.mul_zero, Nat.sub_zero, Int.pow_zero, Int.mul_one, Int.reducePow] at hhi hv
  exact ⟨hK, hj, hT, by omega, by omega⟩

example : decodeU32 [0xE5, 0x8E, 0x26, 0xFF] = .ok (624485, 3) := by
  simp [decodeU32, decU32go]
example : decodeU32 [0xFF, 0xFF, 0xFF, 0xFF, 0x0F, 0x01] = .ok (4294967295, 5) := by
  simp [decodeU32, decU32go]

theorem decodeU32_complete (bs : List Nat) (n : Nat) (hn : n ≤ 5) (hl : n ≤ bs.length)
    (hT : Terminated (bs.take n)) (hv : valU (bs.take n) < 2 ^ 32) :
    decodeU32 bs = .ok (valU (bs.take n), n) := by
  have := decU32goI_spec.complete bs 0 0 n (by omega) (by omega) hl hT
    (by simp only [valUI]; omega)
    (by simp only [valUI, Nat.mul_zero, Nat.sub_zero, Int.reducePow]; omega)
  apply liftU_eq_ok.mp
  rw [show liftU (decodeU32 bs) = decU32goI 0 0 bs from rfl, this]
  simp only [valUI, Nat.mul_zero, Int.pow_zero, Int.mul_one, Nat.zero_add, Except.ok.injEq, Prod.mk.injEq, and_true]
  omega

example : let bs := [0xE5, 0x8E, 0x26, 0xFF]
    3 ≤ 5 ∧ 3 ≤ bs.length ∧ Terminated (bs.take 3) ∧ valU (bs.take 3) < 2 ^ 32 := by
  simp [Terminated, valU]

theorem decodeS32_sound (bs : List Nat) (v : Int) (n : Nat) (h : decodeS32 bs = .ok (v, n)) :
    n ≤ 5 ∧ n ≤ bs.length ∧ Terminated (bs.take n) ∧ valS (bs.take n) = v ∧
      -(2 : Int) ^ 31 ≤ v ∧ v < 2 ^ 31 := by
  obtain ⟨j, hm, hK, hj, hT, hlo, hhi, hv⟩ := decS32go_spec.sound bs 0 0 v n (by omega) h
  have : j = n := by omega
  subst this
  simp only [Nat.mul_zero, Nat.sub_zero, Int.pow_zero, Int.mul_one, Int.reducePow] at hlo hhi hv
  exact ⟨hK, hj, hT, by omega, by omega, by omega⟩

example : decodeS32 [0xC0, 0xBB, 0x78, 0x01] = .ok (-123456, 3) := by
  simp [decodeS32, decS32go, toSigned]
example : decodeS32 [0x80, 0x80, 0x80, 0x80, 0x78] = .ok (-2147483648, 5) := by
  simp [decodeS32, decS32go, toSigned]

theorem decodeS32_complete (bs : List Nat) (n : Nat) (hn : n ≤ 5) (hl : n ≤ bs.length)
    (hT : Terminated (bs.take n)) (hlo : -(2 : Int) ^ 31 ≤ valS (bs.take n)) (hhi : valS (bs.take n) < 2 ^ 31) :
    decodeS32 bs = .ok (valS (bs.take n), n) := by
  have := decS32go_spec.complete bs 0 0 n (by omega) (by omega) hl hT
    (by simp only [Nat.mul_zero, Nat.sub_zero, Int.reducePow] at hlo ⊢; omega)
    (by simp only [Nat.mul_zero, Nat.sub_zero, Int.reducePow] at hhi ⊢; omega)
  rw [decodeS32, this]
  simp only [Nat.mul_zero, Int.pow_zero, Int.mul_one, Nat.zero_add, Except.ok.injEq, Prod.mk.injEq, and_true]
  omega

example : let bs := [0xC0, 0xBB, 0x78, 0x01]
    3 ≤ 5 ∧ 3 ≤ bs.length ∧ Terminated (bs.take 3) ∧ -(2 : Int) ^ 31 ≤ valS (bs.take 3) ∧ valS (bs.take 3) < 2 ^ 31 := by
  simp [Terminated, valS]

theorem decodeS33_sound (bs : List Nat) (v : Int) (n : Nat) (h : decodeS33 bs = .ok (v, n)) :
    n ≤ 5 ∧ n ≤ bs.length ∧ Terminated (bs.take n) ∧ valS (bs.take n) = v ∧
      -(2 : Int) ^ 32 ≤ v ∧ v < 2 ^ 32 := by
  rw [decodeS33_eq_fin33] at h
  obtain ⟨j, hm, hK, hj, hT, hlo, hhi, hv⟩ := decS33go_spec.sound bs 0 0 v n (by omega) h
  have : j = n := by omega
  subst this
  simp only [Nat.mul_zero, Nat.sub_zero, Int.pow_zero, Int.mul_one, Int.reducePow] at hlo hhi hv
  exact ⟨hK, hj, hT, by omega, by omega, by omega⟩

example : decodeS33 [0x80, 0x80, 0x80, 0x80, 0x70, 0x00] = .ok (-4294967296, 5) := by
  simp [decodeS33, decS33loop]
example : decodeS33 [0xC0, 0xBB, 0x78, 0x01] = .ok (-123456, 3) := by
  simp [decodeS33, decS33loop]

theorem decodeS33_complete (bs : List Nat) (n : Nat) (hn : n ≤ 5) (hl : n ≤ bs.length)
    (hT : Terminated (bs.take n)) (hlo : -(2 : Int) ^ 32 ≤ valS (bs.take n)) (hhi : valS (bs.take n) < 2 ^ 32) :
    decodeS33 bs = .ok (valS (bs.take n), n) := by
  have := decS33go_spec.complete bs 0 0 n (by omega) (by omega) hl hT
    (by simp only [Nat.mul_zero, Nat.sub_zero, Int.reducePow] at hlo ⊢; omega)
    (by simp only [Nat.mul_zero, Nat.sub_zero, Int.reducePow] at hhi ⊢; omega)
  rw [decodeS33_eq_fin33, show fin33 (decS33loop 0 0 bs) = decS33go 0 0 bs from rfl, this]
  simp only [Nat.mul_zero, Int.pow_zero, Int.mul_one, Nat.zero_add, Except.ok.injEq, Prod.mk.injEq, and_true]
  omega

example : let bs := [0x80, 0x80, 0x80, 0x80, 0x70, 0x00]
    5 ≤ 5 ∧ 5 ≤ bs.length ∧ Terminated (bs.take 5) ∧ -(2 : Int) ^ 32 ≤ valS (bs.take 5) ∧ valS (bs.take 5) < 2 ^ 32 := by
  simp [Terminated, valS]

theorem decodeS64_sound (bs : List Nat) (v : Int) (n : Nat) (h : decodeS64 bs = .ok (v, n)) :
    n ≤ 10 ∧ n ≤ bs.length ∧ Terminated (bs.take n) ∧ valS (bs.take n) = v ∧
      -(2 : Int) ^ 63 ≤ v ∧ v < 2 ^ 63 := by
  obtain ⟨j, hm, hK, hj, hT, hlo, hhi, hv⟩ := decS64go_spec.sound bs 0 0 v n (by omega) h
  have : j = n := by omega
  subst this
  simp only [Nat.mul_zero, Nat.sub_zero, Int.pow_zero, Int.mul_one, Int.reducePow] at hlo hhi hv
  exact ⟨hK, hj, hT, by omega, by omega, by omega⟩

example : decodeS64 [0x80, 0x80, 0x80, 0x80, 0x80, 0x80, 0x80, 0x80, 0x80, 0x7F, 0x55] = .ok (-9223372036854775808, 10) := by
  simp [decodeS64, decS64go, toSigned]

theorem decodeS64_complete (bs : List Nat) (n : Nat) (hn : n ≤ 10) (hl : n ≤ bs.length)
    (hT : Terminated (bs.take n)) (hlo : -(2 : Int) ^ 63 ≤ valS (bs.take n)) (hhi : valS (bs.take n) < 2 ^ 63) :
    decodeS64 bs = .ok (valS (bs.take n), n) := by
  have := decS64go_spec.complete bs 0 0 n (by omega) (by omega) hl hT
    (by simp only [Nat.mul_zero, Nat.sub_zero, Int.reducePow] at hlo ⊢; omega)
    (by simp only [Nat.mul_zero, Nat.sub_zero, Int.reducePow] at hhi ⊢; omega)
  rw [decodeS64, this]
  simp only [Nat.mul_zero, Int.pow_zero, Int.mul_one, Nat.zero_add, Except.ok.injEq, Prod.mk.injEq, and_true]
  omega

example : let bs := [0x80, 0x80, 0x80, 0x80, 0x80, 0x80, 0x80, 0x80, 0x80, 0x7F, 0x55]
    10 ≤ 10 ∧ 10 ≤ bs.length ∧ Terminated (bs.take 10) ∧ -(2 : Int) ^ 63 ≤ valS (bs.take 10) ∧ valS (bs.take 10) < 2 ^ 63 := by
  simp [Terminated, valS]


/-! Concrete rejections (sanity of the model's error branches): over-long, inconsistent unused bits,
unterminated. -/
example : decodeU32 [0xFF, 0xFF, 0xFF, 0xFF, 0x1F] = .error .overflow := by simp [decodeU32, decU32go]
example : decodeU32 [0x80, 0x80, 0x80, 0x80, 0x80, 0x00] = .error .overflow := by simp [decodeU32, decU32go]
example : decodeS32 [0x80, 0x80, 0x80, 0x80, 0x08] = .error .overflow := by simp [decodeS32, decS32go]
example : decodeS32 [0xFF, 0xFF, 0xFF, 0xFF, 0x4F] = .error .overflow := by simp [decodeS32, decS32go]
example : decodeS32 [0x80, 0x80, 0x80, 0x80, 0x80, 0x00] = .error .overflow := by simp [decodeS32, decS32go]
example : decodeS33 [0x80, 0x80, 0x80, 0x80, 0x10] = .error .overflow := by simp [decodeS33, decS33loop]
example : decodeS33 [0x80, 0x80, 0x80, 0x80, 0x80, 0x00] = .error .overflow := by simp [decodeS33, decS33loop]
example : decodeS64 [0x80, 0x80, 0x80, 0x80, 0x80, 0x80, 0x80, 0x80, 0x80, 0x01] = .error .overflow := by
  simp [decodeS64, decS64go]
example : decodeS64 [0x80, 0x80] = .error .eof := by simp [decodeS64, decS64go]

/-- Round trip, signed 33-bit (`DecodeInt33AsInt64`): every value in range, any trailing bytes;
a corollary of completeness and the encoder theorems. -/
theorem decodeS33_encS (v : Int) (hlo : -(2 : Int) ^ 32 ≤ v) (hhi : v < 2 ^ 32) (rest : List Nat) :
    decodeS33 (encS v ++ rest) = .ok (v, (encS v).length) := by
  have ht : (encS v ++ rest).take (encS v).length = encS v := List.take_left' rfl
  have hlen : (encS v).length ≤ 5 :=
    (encS_length_le_iff v 5 (by omega)).mpr
      ⟨by simp only [Nat.reduceMul, Nat.reduceSub, Int.reducePow] at hlo ⊢; omega,
       by simp only [Nat.reduceMul, Nat.reduceSub, Int.reducePow] at hhi ⊢; omega⟩
  have := decodeS33_complete (encS v ++ rest) (encS v).length hlen (by simp)
    (by rw [ht]; exact terminated_encS v) (by rw [ht, valS_encS]; exact hlo) (by rw [ht, valS_encS]; exact hhi)
  rw [this, ht, valS_encS]

example : -(2 : Int) ^ 32 ≤ -4294967296 ∧ (-4294967296 : Int) < 2 ^ 32 := by omega

end WaVerif.C19
