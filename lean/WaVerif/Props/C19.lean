import WaVerif.Model.C19
import WaVerif.Lemmas.C19Steps
/-!
# C19 — property theorems (LEB128)

Every `theorem` in this file is an obligation of the check and is axiom-audited.
-/
namespace WaVerif.C19

/-! ## encoders: exact value, termination shape, length (minimality) -/

theorem valU_encU (v : Nat) : valU (encU v) = v := by
  induction v using Nat.strongRecOn with
  | _ v ih =>
    unfold encU
    split
    · simp [valU]; omega
    · rename_i h
      have := ih (v / 128) (by omega)
      simp [valU, this]; omega

theorem terminated_encU (v : Nat) : Terminated (encU v) := by
  induction v using Nat.strongRecOn with
  | _ v ih =>
    unfold encU
    split
    · simp [Terminated]; omega
    · rename_i h
      have := ih (v / 128) (by omega)
      generalize hq : encU (v / 128) = q at this
      cases q with
      | nil => simp [Terminated] at this
      | cons a t => simp only [Terminated]; exact And.intro (by omega) this

theorem bytes_encU (v : Nat) : Bytes (encU v) := by
  induction v using Nat.strongRecOn with
  | _ v ih =>
    unfold encU
    split
    · intro b hb; simp at hb; omega
    · intro b hb
      simp at hb
      rcases hb with rfl | hb
      · omega
      · exact ih (v / 128) (by omega) b hb

/-- Minimality: the encoding of `v` has at most `k` bytes exactly when `v` fits in `7k` bits
(a `k`-byte unsigned LEB128 sequence cannot denote a value ≥ 2^(7k), see `valU_lt`). -/
theorem encU_length_le_iff (v k : Nat) (hk : 1 ≤ k) : (encU v).length ≤ k ↔ v < 2 ^ (7 * k) := by
  induction v using Nat.strongRecOn generalizing k with
  | _ v ih =>
    unfold encU
    split
    · rename_i h
      have h1 : v < 128 := by omega
      have : 128 ≤ 2 ^ (7 * k) := by
        calc 128 = 2 ^ 7 := by decide
          _ ≤ 2 ^ (7 * k) := Nat.pow_le_pow_right (by omega) (by omega)
      simp; omega
    · rename_i h
      have hv : 128 ≤ v := by omega
      rcases Nat.lt_or_ge k 2 with hk2 | hk2
      · have : k = 1 := by omega
        subst this
        simp only [List.length_cons, show (2:Nat) ^ (7 * 1) = 128 by decide]
        have hpos : 0 < (encU (v / 128)).length := by
          have := terminated_encU (v / 128)
          cases h' : encU (v / 128) with
          | nil => simp [h', Terminated] at this
          | cons a t => simp
        omega
      · have := ih (v / 128) (by omega) (k - 1) (by omega)
        have e : 2 ^ (7 * k) = 128 * 2 ^ (7 * (k - 1)) := by
          have : 7 * k = 7 + 7 * (k - 1) := by omega
          rw [this, Nat.pow_add]
        simp only [List.length_cons]
        rw [e]
        constructor
        · intro hl
          have := this.mp (by omega)
          omega
        · intro hl
          have := this.mpr (by
            apply Nat.div_lt_of_lt_mul; omega)
          omega

theorem valU_lt (bs : List Nat) : valU bs < 2 ^ (7 * bs.length) := by
  induction bs with
  | nil => simp [valU]
  | cons b t ih =>
    simp only [valU, List.length_cons]
    have e : 2 ^ (7 * (t.length + 1)) = 128 * 2 ^ (7 * t.length) := by
      rw [show 7 * (t.length + 1) = 7 + 7 * t.length by omega, Nat.pow_add]
    rw [e]; omega


/-! ## round trips -/


theorem decU32go_encU (v : Nat) : ∀ i ret rest, i ≤ 4 → ret < 2 ^ (7 * i) → v < 2 ^ (32 - 7 * i) →
    decU32go i ret (encU v ++ rest) = .ok (ret + v * 2 ^ (7 * i), i + (encU v).length) := by
  induction v using Nat.strongRecOn with
  | _ v ih =>
    intro i ret rest hi hret hv
    have hcases : i = 0 ∨ i = 1 ∨ i = 2 ∨ i = 3 ∨ i = 4 := by omega
    unfold encU
    split
    · rename_i h
      rcases hcases with rfl | rfl | rfl | rfl | rfl <;>
      · unfold decU32go
        simp at hret hv ⊢
        have hb : v % 128 < 128 := by omega
        simp [hb]
        first
          | omega
          | (have hz : ¬ (0 < v % 128 / 16 % 16) := by omega
             rw [if_neg hz]
             congr 2
             omega)
    · rename_i h
      have hrec := ih (v / 128) (by omega) (i + 1)
      rcases hcases with rfl | rfl | rfl | rfl | rfl <;>
      · unfold decU32go
        simp at hret hv hrec ⊢
        first
        | omega
        | (have hb : ¬ (v % 128 + 128 < 128) := by omega
           simp [hb]
           rw [hrec _ rest (by omega) (by omega)]
           simp
           omega)

/-- Round trip, unsigned 32-bit: every value, any trailing bytes; byte count = encoding length. -/
theorem decodeU32_encU (v : Nat) (hv : v < 2 ^ 32) (rest : List Nat) :
    decodeU32 (encU v ++ rest) = .ok (v, (encU v).length) := by
  have := decU32go_encU v 0 0 rest (by omega) (by simp) (by simpa using hv)
  simpa [decodeU32] using this


theorem decS32go_encS (v : Int) : ∀ n ret rest, n ≤ 4 → ret < 2 ^ (7 * n) →
    -(2 : Int) ^ (31 - 7 * n) ≤ v → v < 2 ^ (31 - 7 * n) →
    decS32go n ret (encS v ++ rest) = .ok (sgn 32 (ret + v * 2 ^ (7 * n)), n + (encS v).length) := by
  induction hm : v.natAbs using Nat.strongRecOn generalizing v with
  | _ m ih =>
    intro n ret rest hn hret hlo hhi
    have hcases : n = 0 ∨ n = 1 ∨ n = 2 ∨ n = 3 ∨ n = 4 := by omega
    have hc0 : 0 ≤ v % 128 := by omega
    have hc1 : v % 128 < 128 := by omega
    unfold encS
    simp only []
    generalize hc : (v % 128).toNat = c at *
    have hcv : (c : Int) = v % 128 := by omega
    have hc128 : c < 128 := by omega
    split
    · rename_i h
      have hv2 : (v = c ∧ c < 64) ∨ (v = (c:Int) - 128 ∧ c ≥ 64) := by omega
      simp only [List.cons_append, List.nil_append, List.length_cons, List.length_nil, Nat.zero_add]
      rcases hcases with rfl | rfl | rfl | rfl | rfl
      · exact decS32go_term_0 ret c v rest hc128 hv2 hret hlo hhi
      · exact decS32go_term_1 ret c v rest hc128 hv2 hret hlo hhi
      · exact decS32go_term_2 ret c v rest hc128 hv2 hret hlo hhi
      · exact decS32go_term_3 ret c v rest hc128 hv2 hret hlo hhi
      · exact decS32go_term_4 ret c v rest hc128 hv2 hret hlo hhi
    · rename_i h
      have hrec := ih (v / 128).natAbs (by omega) (v / 128) rfl (n + 1)
      have hq : v = 128 * (v / 128) + c := by omega
      generalize v / 128 = q at *
      simp only [List.cons_append, List.length_cons]
      subst hq
      rcases hcases with rfl | rfl | rfl | rfl | rfl
      · obtain ⟨h1, h2, h3⟩ := decS32go_step_0 ret c q (encS q ++ rest) hc128 hret
        rw [h1, hrec _ rest (by omega) h2 (by simp at hlo hhi ⊢; omega) (by simp at hlo hhi ⊢; omega), h3]
        simp only [Except.ok.injEq, Prod.mk.injEq, true_and]; omega
      · obtain ⟨h1, h2, h3⟩ := decS32go_step_1 ret c q (encS q ++ rest) hc128 hret
        rw [h1, hrec _ rest (by omega) h2 (by simp at hlo hhi ⊢; omega) (by simp at hlo hhi ⊢; omega), h3]
        simp only [Except.ok.injEq, Prod.mk.injEq, true_and]; omega
      · obtain ⟨h1, h2, h3⟩ := decS32go_step_2 ret c q (encS q ++ rest) hc128 hret
        rw [h1, hrec _ rest (by omega) h2 (by simp at hlo hhi ⊢; omega) (by simp at hlo hhi ⊢; omega), h3]
        simp only [Except.ok.injEq, Prod.mk.injEq, true_and]; omega
      · obtain ⟨h1, h2, h3⟩ := decS32go_step_3 ret c q (encS q ++ rest) hc128 hret
        rw [h1, hrec _ rest (by omega) h2 (by simp at hlo hhi ⊢; omega) (by simp at hlo hhi ⊢; omega), h3]
        simp only [Except.ok.injEq, Prod.mk.injEq, true_and]; omega
      · exfalso
        simp at hlo hhi
        omega

/-- Round trip, signed 32-bit: every value in range, any trailing bytes. -/
theorem decodeS32_encS (v : Int) (hlo : -(2:Int) ^ 31 ≤ v) (hhi : v < 2 ^ 31) (rest : List Nat) :
    decodeS32 (encS v ++ rest) = .ok (v, (encS v).length) := by
  have := decS32go_encS v 0 0 rest (by omega) (by simp) (by simpa using hlo) (by simpa using hhi)
  simp only [decodeS32, this, sgn]
  simp only [Except.ok.injEq, Prod.mk.injEq]; refine ⟨?_, ?_⟩ <;> simp <;> omega

theorem decS64go_encS (v : Int) : ∀ n ret rest, n ≤ 9 → ret < 2 ^ (7 * n) →
    -(2 : Int) ^ (63 - 7 * n) ≤ v → v < 2 ^ (63 - 7 * n) →
    decS64go n ret (encS v ++ rest) = .ok (sgn 64 (ret + v * 2 ^ (7 * n)), n + (encS v).length) := by
  induction hm : v.natAbs using Nat.strongRecOn generalizing v with
  | _ m ih =>
    intro n ret rest hn hret hlo hhi
    have hcases : n = 0 ∨ n = 1 ∨ n = 2 ∨ n = 3 ∨ n = 4 ∨ n = 5 ∨ n = 6 ∨ n = 7 ∨ n = 8 ∨ n = 9 := by omega
    have hc0 : 0 ≤ v % 128 := by omega
    have hc1 : v % 128 < 128 := by omega
    unfold encS
    simp only []
    generalize hc : (v % 128).toNat = c at *
    have hcv : (c : Int) = v % 128 := by omega
    have hc128 : c < 128 := by omega
    split
    · rename_i h
      have hv2 : (v = c ∧ c < 64) ∨ (v = (c:Int) - 128 ∧ c ≥ 64) := by omega
      simp only [List.cons_append, List.nil_append, List.length_cons, List.length_nil, Nat.zero_add]
      rcases hcases with rfl | rfl | rfl | rfl | rfl | rfl | rfl | rfl | rfl | rfl
      · exact decS64go_term_0 ret c v rest hc128 hv2 hret hlo hhi
      · exact decS64go_term_1 ret c v rest hc128 hv2 hret hlo hhi
      · exact decS64go_term_2 ret c v rest hc128 hv2 hret hlo hhi
      · exact decS64go_term_3 ret c v rest hc128 hv2 hret hlo hhi
      · exact decS64go_term_4 ret c v rest hc128 hv2 hret hlo hhi
      · exact decS64go_term_5 ret c v rest hc128 hv2 hret hlo hhi
      · exact decS64go_term_6 ret c v rest hc128 hv2 hret hlo hhi
      · exact decS64go_term_7 ret c v rest hc128 hv2 hret hlo hhi
      · exact decS64go_term_8 ret c v rest hc128 hv2 hret hlo hhi
      · exact decS64go_term_9 ret c v rest hc128 hv2 hret hlo hhi
    · rename_i h
      have hrec := ih (v / 128).natAbs (by omega) (v / 128) rfl (n + 1)
      have hq : v = 128 * (v / 128) + c := by omega
      generalize v / 128 = q at *
      simp only [List.cons_append, List.length_cons]
      subst hq
      rcases hcases with rfl | rfl | rfl | rfl | rfl | rfl | rfl | rfl | rfl | rfl
      · obtain ⟨h1, h2, h3⟩ := decS64go_step_0 ret c q (encS q ++ rest) hc128 hret
        rw [h1, hrec _ rest (by omega) h2 (by simp at hlo hhi ⊢; omega) (by simp at hlo hhi ⊢; omega), h3]
        simp only [Except.ok.injEq, Prod.mk.injEq, true_and]; omega
      · obtain ⟨h1, h2, h3⟩ := decS64go_step_1 ret c q (encS q ++ rest) hc128 hret
        rw [h1, hrec _ rest (by omega) h2 (by simp at hlo hhi ⊢; omega) (by simp at hlo hhi ⊢; omega), h3]
        simp only [Except.ok.injEq, Prod.mk.injEq, true_and]; omega
      · obtain ⟨h1, h2, h3⟩ := decS64go_step_2 ret c q (encS q ++ rest) hc128 hret
        rw [h1, hrec _ rest (by omega) h2 (by simp at hlo hhi ⊢; omega) (by simp at hlo hhi ⊢; omega), h3]
        simp only [Except.ok.injEq, Prod.mk.injEq, true_and]; omega
      · obtain ⟨h1, h2, h3⟩ := decS64go_step_3 ret c q (encS q ++ rest) hc128 hret
        rw [h1, hrec _ rest (by omega) h2 (by simp at hlo hhi ⊢; omega) (by simp at hlo hhi ⊢; omega), h3]
        simp only [Except.ok.injEq, Prod.mk.injEq, true_and]; omega
      · obtain ⟨h1, h2, h3⟩ := decS64go_step_4 ret c q (encS q ++ rest) hc128 hret
        rw [h1, hrec _ rest (by omega) h2 (by simp at hlo hhi ⊢; omega) (by simp at hlo hhi ⊢; omega), h3]
        simp only [Except.ok.injEq, Prod.mk.injEq, true_and]; omega
      · obtain ⟨h1, h2, h3⟩ := decS64go_step_5 ret c q (encS q ++ rest) hc128 hret
        rw [h1, hrec _ rest (by omega) h2 (by simp at hlo hhi ⊢; omega) (by simp at hlo hhi ⊢; omega), h3]
        simp only [Except.ok.injEq, Prod.mk.injEq, true_and]; omega
      · obtain ⟨h1, h2, h3⟩ := decS64go_step_6 ret c q (encS q ++ rest) hc128 hret
        rw [h1, hrec _ rest (by omega) h2 (by simp at hlo hhi ⊢; omega) (by simp at hlo hhi ⊢; omega), h3]
        simp only [Except.ok.injEq, Prod.mk.injEq, true_and]; omega
      · obtain ⟨h1, h2, h3⟩ := decS64go_step_7 ret c q (encS q ++ rest) hc128 hret
        rw [h1, hrec _ rest (by omega) h2 (by simp at hlo hhi ⊢; omega) (by simp at hlo hhi ⊢; omega), h3]
        simp only [Except.ok.injEq, Prod.mk.injEq, true_and]; omega
      · obtain ⟨h1, h2, h3⟩ := decS64go_step_8 ret c q (encS q ++ rest) hc128 hret
        rw [h1, hrec _ rest (by omega) h2 (by simp at hlo hhi ⊢; omega) (by simp at hlo hhi ⊢; omega), h3]
        simp only [Except.ok.injEq, Prod.mk.injEq, true_and]; omega
      · exfalso
        simp at hlo hhi
        omega

/-- Round trip, signed 64-bit: every value in range, any trailing bytes. -/
theorem decodeS64_encS (v : Int) (hlo : -(2:Int) ^ 63 ≤ v) (hhi : v < 2 ^ 63) (rest : List Nat) :
    decodeS64 (encS v ++ rest) = .ok (v, (encS v).length) := by
  have := decS64go_encS v 0 0 rest (by omega) (by simp) (by simpa using hlo) (by simpa using hhi)
  simp only [decodeS64, this, sgn]
  simp only [Except.ok.injEq, Prod.mk.injEq]; refine ⟨?_, ?_⟩ <;> simp <;> omega


end WaVerif.C19
