import WaVerif.Model.C19
namespace WaVerif.C19
theorem placeholder : True := trivial
end WaVerif.C19
