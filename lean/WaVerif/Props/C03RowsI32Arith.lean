import WaVerif.Model.C03Spec
import WaVerif.Gen.C03Templates
import WaVerif.Lemmas.C03Tac
set_option linter.unusedSimpArgs false
/-! One theorem group per regenerated C template (statement fixed by the instruction name). Written by tools/gen_c03_props.py. -/
namespace WaVerif.C03.Rows
open WaVerif WaVerif.Wasm WaVerif.C03 WaVerif.Gen.C03

theorem i32_add_ok : Full2 CVal.i32 CVal.i32 CVal.i32 (wBin .add) f_i32_add := by
  unfold f_i32_add
  c03_tac

theorem i32_sub_ok : Full2 CVal.i32 CVal.i32 CVal.i32 (wBin .sub) f_i32_sub := by
  unfold f_i32_sub
  c03_tac

theorem i32_mul_ok : Full2 CVal.i32 CVal.i32 CVal.i32 (wBin .mul) f_i32_mul := by
  unfold f_i32_mul
  c03_tac

theorem i32_div_s_ok : Full2 CVal.i32 CVal.i32 CVal.i32 (wBin .div_s) f_i32_div_s := by
  unfold f_i32_div_s
  c03_tac

theorem i32_div_u_ok : Full2 CVal.i32 CVal.i32 CVal.i32 (wBin .div_u) f_i32_div_u := by
  unfold f_i32_div_u
  c03_tac

theorem i32_rem_s_ok : Full2 CVal.i32 CVal.i32 CVal.i32 (wBin .rem_s) f_i32_rem_s := by
  unfold f_i32_rem_s
  c03_tac

theorem i32_rem_u_ok : Full2 CVal.i32 CVal.i32 CVal.i32 (wBin .rem_u) f_i32_rem_u := by
  unfold f_i32_rem_u
  c03_tac

end WaVerif.C03.Rows
