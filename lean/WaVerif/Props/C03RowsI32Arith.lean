import WaVerif.Model.C03Spec
import WaVerif.Gen.C03Templates
import WaVerif.Lemmas.C03Tac
set_option linter.unusedSimpArgs false
/-! One theorem group per regenerated C template (statement fixed by the instruction name). Written by tools/gen_c03_props.py. -/
namespace WaVerif.C03.Rows
open WaVerif WaVerif.Wasm WaVerif.C03 WaVerif.Gen.C03

/-- `i32.add`: signed overflow is undefined in C -/
theorem i32_add_partial : Partial2 CVal.i32 CVal.i32 CVal.i32 Guard.addOk (wBin .add) f_i32_add := by
  unfold f_i32_add
  c03_tac

theorem i32_add_full_false : ¬ Full2 CVal.i32 CVal.i32 CVal.i32 (wBin .add) f_i32_add := by
  intro h
  have h := h 0x7fffffff#32 0x1#32 []
  revert h
  decide

theorem i32_add_sound : Sound2 CVal.i32 CVal.i32 CVal.i32 (wBin .add) f_i32_add := by
  unfold f_i32_add
  c03_sound

example : Guard.addOk 0x3#32 0x2#32 := by decide

/-- `i32.sub`: signed overflow is undefined in C -/
theorem i32_sub_partial : Partial2 CVal.i32 CVal.i32 CVal.i32 Guard.subOk (wBin .sub) f_i32_sub := by
  unfold f_i32_sub
  c03_tac

theorem i32_sub_full_false : ¬ Full2 CVal.i32 CVal.i32 CVal.i32 (wBin .sub) f_i32_sub := by
  intro h
  have h := h 0x80000000#32 0x1#32 []
  revert h
  decide

theorem i32_sub_sound : Sound2 CVal.i32 CVal.i32 CVal.i32 (wBin .sub) f_i32_sub := by
  unfold f_i32_sub
  c03_sound

example : Guard.subOk 0x3#32 0x2#32 := by decide

/-- `i32.mul`: signed overflow is undefined in C -/
theorem i32_mul_partial : Partial2 CVal.i32 CVal.i32 CVal.i32 Guard.mulOk (wBin .mul) f_i32_mul := by
  unfold f_i32_mul
  c03_tac

theorem i32_mul_full_false : ¬ Full2 CVal.i32 CVal.i32 CVal.i32 (wBin .mul) f_i32_mul := by
  intro h
  have h := h 0x10000#32 0x10000#32 []
  revert h
  decide

theorem i32_mul_sound : Sound2 CVal.i32 CVal.i32 CVal.i32 (wBin .mul) f_i32_mul := by
  unfold f_i32_mul
  c03_sound

example : Guard.mulOk 0x3#32 0x2#32 := by decide

/-- `i32.div_s`: no trap check: division by zero is undefined in C, not abort() -/
theorem i32_div_s_partial : Partial2 CVal.i32 CVal.i32 CVal.i32 Guard.divS (wBin .div_s) f_i32_div_s := by
  unfold f_i32_div_s
  c03_tac

theorem i32_div_s_full_false : ¬ Full2 CVal.i32 CVal.i32 CVal.i32 (wBin .div_s) f_i32_div_s := by
  intro h
  have h := h 0x1#32 0x0#32 []
  revert h
  decide

theorem i32_div_s_sound : Sound2 CVal.i32 CVal.i32 CVal.i32 (wBin .div_s) f_i32_div_s := by
  unfold f_i32_div_s
  c03_sound

example : Guard.divS 0x3#32 0x2#32 := by decide

/-- `i32.div_u`: no trap check: division by zero is undefined in C, not abort() -/
theorem i32_div_u_partial : Partial2 CVal.i32 CVal.i32 CVal.i32 Guard.divU (wBin .div_u) f_i32_div_u := by
  unfold f_i32_div_u
  c03_tac

theorem i32_div_u_full_false : ¬ Full2 CVal.i32 CVal.i32 CVal.i32 (wBin .div_u) f_i32_div_u := by
  intro h
  have h := h 0x1#32 0x0#32 []
  revert h
  decide

theorem i32_div_u_sound : Sound2 CVal.i32 CVal.i32 CVal.i32 (wBin .div_u) f_i32_div_u := by
  unfold f_i32_div_u
  c03_sound

example : Guard.divU 0x3#32 0x2#32 := by decide

/-- `i32.rem_s`: INT_MIN % -1 is undefined in C; WebAssembly yields 0 -/
theorem i32_rem_s_partial : Partial2 CVal.i32 CVal.i32 CVal.i32 Guard.divS (wBin .rem_s) f_i32_rem_s := by
  unfold f_i32_rem_s
  c03_tac

theorem i32_rem_s_full_false : ¬ Full2 CVal.i32 CVal.i32 CVal.i32 (wBin .rem_s) f_i32_rem_s := by
  intro h
  have h := h 0x80000000#32 0xffffffff#32 []
  revert h
  decide

theorem i32_rem_s_sound : Sound2 CVal.i32 CVal.i32 CVal.i32 (wBin .rem_s) f_i32_rem_s := by
  unfold f_i32_rem_s
  c03_sound

example : Guard.divS 0x3#32 0x2#32 := by decide

/-- `i32.rem_u`: no trap check: division by zero is undefined in C, not abort() -/
theorem i32_rem_u_partial : Partial2 CVal.i32 CVal.i32 CVal.i32 Guard.divU (wBin .rem_u) f_i32_rem_u := by
  unfold f_i32_rem_u
  c03_tac

theorem i32_rem_u_full_false : ¬ Full2 CVal.i32 CVal.i32 CVal.i32 (wBin .rem_u) f_i32_rem_u := by
  intro h
  have h := h 0x1#32 0x0#32 []
  revert h
  decide

theorem i32_rem_u_sound : Sound2 CVal.i32 CVal.i32 CVal.i32 (wBin .rem_u) f_i32_rem_u := by
  unfold f_i32_rem_u
  c03_sound

example : Guard.divU 0x3#32 0x2#32 := by decide

end WaVerif.C03.Rows
