import WaVerif.Lemmas.C10Final
/-!
# C10 — property theorems (heap allocator)

Every `theorem` in this file is an obligation of the check and is axiom-audited.  All statements are
about `run c ops`, the state of the abstract allocator (Model/C10.lean, tied to malloc.wat by the
correspondence run) after an ARBITRARY history `ops` of mallocs and frees, for every configuration
with `CfgWF c` (incl. `maxPages ≤ 32767`) and every history with `OpOK c op` (requests ≤ 2^30) for all its operations.  They are proved by
induction over the history: `inv_init`, `inv_step` (Lemmas/C10*.lean).

* `sumf (cov x) L`  = number of blocks of `L` (header + payload) containing address `x`
* `allBlocks s`     = live blocks ++ the four fixed lists ++ the general list
-/
namespace WaVerif.C10

/-- `Hist c ops`: the guards under which the theorems hold. -/
def Hist (c : Config) (ops : List Op) : Prop := CfgWF c ∧ ∀ op ∈ ops, OpOK c op

instance (c : Config) (ops : List Op) : Decidable (Hist c ops) := by unfold Hist; exact inferInstance

example : Hist ⟨1, 2, 100, 1000, 3⟩ [.malloc 1, .malloc 100, .free 1056, .malloc 0, .malloc 1073741824] := by decide
example : Hist ⟨1, 10, 32768, 40960, 0⟩ [.malloc 1, .free 41016, .malloc 70000] := by decide
example : (run ⟨1, 2, 100, 1000, 3⟩ [.malloc 1, .malloc 100, .free 1056, .malloc 30]).live.length = 2 := by decide

/-! ## clause 1: live blocks are in the heap, in memory, aligned, large enough, pairwise disjoint -/

/-- no two live blocks (8-byte header + payload) overlap -/
theorem live_disjoint (c : Config) (ops : List Op) (h : Hist c ops) :
    List.Pairwise (fun a b : LBlk => a.addr + 8 + a.size ≤ b.addr ∨ b.addr + 8 + b.size ≤ a.addr) (run c ops).live :=
  inv_live_disjoint (inv_run c h.1 ops h.2)

/-- every live block lies behind the six list heads (`heapBase+48`), below the bump pointer, and the bump
pointer lies inside linear memory (`pages` = `memory.size`), which never exceeds the configured maximum -/
theorem live_in_heap (c : Config) (ops : List Op) (h : Hist c ops) :
    (∀ b ∈ (run c ops).live, c.heapBase + 48 ≤ b.addr ∧ b.addr + 8 + b.size ≤ (run c ops).heapPtr) ∧
    (run c ops).heapPtr < (run c ops).pages * 65536 ∧ (run c ops).pages ≤ c.maxPages := by
  have hi := inv_run' c h.1 ops h.2
  have hc : (run c ops).cfg = c := hi.2
  have hb := inv_live_bounds hi.1
  refine ⟨?_, ?_, ?_⟩
  · intro b hb'; have := hb b hb'; rw [hc] at this; exact this
  · have h1 := hi.1.hp_top; have h2 := hi.1.top; omega
  · have h1 := hi.1.pages_le; rw [hc] at h1; exact h1

/-- the pointer handed to the caller (`addr + 8`) is 8-byte aligned -/
theorem live_aligned8 (c : Config) (ops : List Op) (h : Hist c ops) :
    ∀ b ∈ (run c ops).live, (b.addr + 8) % 8 = 0 :=
  fun b hb => (inv_live_aligned (inv_run c h.1 ops h.2) b hb).1

/-- every live block is at least as large as the caller asked for -/
theorem live_size_ge_request (c : Config) (ops : List Op) (h : Hist c ops) :
    ∀ b ∈ (run c ops).live, b.req ≤ b.size :=
  (inv_run c h.1 ops h.2).liveReq

/-- a successful `malloc` returns `addr + 8` of a block it adds to the live set with the requested size
recorded (ties the returned pointer to the statements about `live`); a failing one changes nothing -/
theorem malloc_returns_live (c : Config) (ops : List Op) (h : Hist c ops) (req : Nat) (hreq : OpOK c (.malloc req)) :
    ((malloc (run c ops) req).ret = 0 ∧ (malloc (run c ops) req).st = run c ops) ∨
    (∃ a, (malloc (run c ops) req).ret = a + 8 ∧
      (malloc (run c ops) req).st.live = ⟨a, effSize c req, req⟩ :: (run c ops).live) := by
  have hi := inv_run' c h.1 ops h.2
  have hc : (run c ops).cfg = c := hi.2
  have := malloc_live hi.1 req (by rw [hc]; exact hreq)
  rw [hc] at this
  exact this

/-! ## clause 3: tiling -/

/-- every address between the heap start and the bump pointer belongs to exactly one live or free block
(header included), every other address to none -/
theorem tiling (c : Config) (ops : List Op) (h : Hist c ops) (x : Nat) :
    sumf (cov x) (allBlocks (run c ops)) = if c.heapBase + 48 ≤ x ∧ x < (run c ops).heapPtr then 1 else 0 := by
  have hi := inv_run' c h.1 ops h.2
  have hc : (run c ops).cfg = c := hi.2
  have := hi.1.tiling x
  simp only [List.nil_append, heapStart, hc] at this
  exact this

/-- the general list is sorted by address, its blocks are disjoint and never adjacent (fully coalesced),
and all lie behind the list heads (so the size-0 ring head at `heapBase+32` is never adjacent either) -/
theorem free_list_sorted_nonadjacent (c : Config) (ops : List Op) (h : Hist c ops) :
    Sepd (run c ops).free ∧ ∀ b ∈ (run c ops).free, c.heapBase + 48 ≤ b.1 ∧ b.1 + b.2 + 8 ≤ (run c ops).heapPtr := by
  have hi := inv_run' c h.1 ops h.2
  have hc : (run c ops).cfg = c := hi.2
  refine ⟨hi.1.sep, ?_⟩
  intro b hb
  have := inv_free_bounds hi.1 b hb
  rw [hc] at this
  exact this

/-- every block on fixed list `k` has exactly the size of its class (24/32/48/80), so a block popped for a
request of that class is large enough -/
theorem fixed_lists_class_sized (c : Config) (ops : List Op) (h : Hist c ops) :
    ∀ k, k < 4 → ∀ b ∈ getFx (run c ops) k, b.2 = classSize k :=
  (inv_run c h.1 ops h.2).fxk

/-! ## clause 2: contents of other live blocks (write log) -/

/-- no 32-bit word the next operation stores to lies inside the payload of a block that is live before and
after the operation (the correspondence run checks that the words that actually change in wazero's memory
are among the logged ones) -/
theorem writes_outside_live_payloads (c : Config) (ops : List Op) (op : Op) (h : Hist c (ops ++ [op])) :
    ∀ w ∈ (step (run c ops) op).writes, ∀ b ∈ (run c ops).live, b ∈ (step (run c ops) op).st.live →
      w + 4 ≤ b.addr + 8 ∨ b.addr + 8 + b.size ≤ w := by
  have hops : ∀ o ∈ ops, OpOK c o := fun o ho => h.2 o (List.mem_append_left _ ho)
  have hi := inv_run' c h.1 ops hops
  have hc : (run c ops).cfg = c := hi.2
  intro w hw b hb hb'
  have := writes_step hi.1 op (by rw [hc]; exact h.2 op (by simp)) w hw b hb hb'
  unfold WordOutside at this
  omega

/-- ... nor inside its header -/
theorem headers_untouched (c : Config) (ops : List Op) (op : Op) (h : Hist c (ops ++ [op])) :
    ∀ w ∈ (step (run c ops) op).writes, ∀ b ∈ (run c ops).live, b ∈ (step (run c ops) op).st.live →
      w + 4 ≤ b.addr ∨ b.addr + 8 ≤ w := by
  have hops : ∀ o ∈ ops, OpOK c o := fun o ho => h.2 o (List.mem_append_left _ ho)
  have hi := inv_run' c h.1 ops hops
  have hc : (run c ops).cfg = c := hi.2
  intro w hw b hb hb'
  have := writes_step hi.1 op (by rw [hc]; exact h.2 op (by simp)) w hw b hb hb'
  unfold WordOutside at this
  omega

/-! ## clause 4: when `malloc` returns 0 -/

/-- `malloc` returns 0 exactly when the request's size-class list is empty, no block of the general list
is large enough for the class-rounded size, the block does not fit below `heap_top`, and `memory.grow`
by the whole block's page count would exceed the maximum — the code's exact failure condition -/
theorem malloc_zero_iff (c : Config) (ops : List Op) (h : Hist c ops) (req : Nat) (hreq : OpOK c (.malloc req)) :
    (malloc (run c ops) req).ret = 0 ↔
      ((c.cap ≠ 0 ∧ effSize c req ≤ 80) → getFx (run c ops) (effList c req) = []) ∧
      (∀ b ∈ (run c ops).free, b.2 < effSize c req) ∧
      ((run c ops).heapPtr + 8 + effSize c req ≥ (run c ops).heapTop ∧
        (run c ops).pages + (8 + effSize c req + 65535) / 65536 > c.maxPages) := by
  have hi := inv_run' c h.1 ops h.2
  have hc : (run c ops).cfg = c := hi.2
  have := malloc_zero_iff_inv hi.1 req (by rw [hc]; exact hreq)
  unfold GrowFails at this
  rw [hc] at this
  exact this

/-- The property's wording of clause 4 ("fails only when ... nor by growing memory within the configured
maximum") read literally: a failing request does not fit even in memory grown to `maxPages`. -/
def MallocFailsOnlyWhenUnsatisfiableStatement : Prop :=
  ∀ (c : Config) (ops : List Op) (req : Nat), Hist c ops → OpOK c (.malloc req) →
    (malloc (run c ops) req).ret = 0 → (run c ops).heapPtr + 8 + effSize c req > c.maxPages * 65536

/-- ... is FALSE of the model (and of the code: probe `growth-slack` of checks/c10.py replays this witness):
`$heap_new_allocation` grows by the block's full page count and ignores the slack below `heap_top`.
`malloc_zero_iff` is the proved part (`_partial` of this statement). -/
theorem growth_ignores_slack_witness : ¬ MallocFailsOnlyWhenUnsatisfiableStatement := by
  intro h
  have := h ⟨1, 2, 100, 1000, 3⟩ [.malloc 60000] 70000 (by decide) (by decide) (by decide)
  revert this
  decide

/-! ## the two former exclusions (repaired in /repo by 785884e and 786cf0e)

Before the repairs these two statements were FALSE of model and code (witnesses `malloc0_nofixed_witness`,
`bump_wrap_witness`, replayed by the probes `malloc0-nofixed-*` and `bump-i32-wrap*` of checks/c10.py, which
still run on every check).  They are now theorems. -/

/-- `live_in_heap` with no exclusion of `malloc(0)` when the fixed lists are disabled -/
def LiveInHeapUnguardedStatement : Prop :=
  ∀ (c : Config) (ops : List Op), CfgWF c → (∀ op ∈ ops, ReqOK op) →
    ∀ b ∈ (run c ops).live, c.heapBase + 48 ≤ b.addr

theorem reqOK_opOK (c : Config) (op : Op) (h : ReqOK op) : OpOK c op := by
  cases op <;> exact h

/-- with the fixed lists disabled a request of 0 bytes now gets a block of 8 bytes (the size-0 ring head at
`heapBase+32` can no longer match), so no guard on `malloc(0)` is needed -/
theorem malloc0_nofixed_repaired : LiveInHeapUnguardedStatement := by
  intro c ops hwf hops b hb
  exact ((live_in_heap c ops ⟨hwf, fun op ho => reqOK_opOK c op (hops op ho)⟩).1 b hb).1

theorem malloc0_nofixed_block_size (c : Config) (h : c.cap = 0) : effSize c 0 = 8 := by
  simp [effSize, ptrAndFixedSize, h, align8]

example : (run ⟨1, 2, 100, 1000, 0⟩ [.malloc 0]).live = [⟨1048, 8, 0⟩] := by decide

/-- `live_in_heap` for every maximum up to 32767 pages (all addresses signed-positive) -/
def LiveInMemoryMax32767Statement : Prop :=
  ∀ (c : Config) (ops : List Op),
    (0 < c.stackPtr ∧ c.stackPtr < c.heapBase ∧ c.heapBase % 8 = 0 ∧ c.heapBase + 48 < c.pages * 65536 ∧
      c.pages ≤ c.maxPages ∧ c.maxPages ≤ 32767) →
    (∀ op ∈ ops, OpOK c op) →
    ∀ b ∈ (run c ops).live, b.addr + 8 + b.size ≤ (run c ops).pages * 65536

/-- the unsigned comparison in `$heap_new_allocation` sends `heap_ptr + block ≥ 2^31` to `memory.grow`, which
fails against the maximum: no block ever extends beyond linear memory -/
theorem bump_wrap_repaired : LiveInMemoryMax32767Statement := by
  intro c ops hwf hops b hb
  have h := live_in_heap c ops ⟨hwf, hops⟩
  have := (h.1 b hb).2
  omega

/-- the former witness history now ends with `malloc(2^30) = 0` and an intact heap -/
example : (malloc (run ⟨16385, 32767, 100, 1073741824, 3⟩ [.malloc 8]) 1073741824).ret = 0 := by decide

end WaVerif.C10
