import WaVerif.Lemmas.C23Set
/-!
# C23 — property theorems (source positions)

Every `theorem` in this file is an obligation of the check and is axiom-audited.
Model: `WaVerif/Model/C23.lean` (transcription of internal/token/position.go, serialize.go).
-/
namespace WaVerif.C23

/-! ## the line table -/

/-- `SetLinesForContent` stores exactly the offsets below the size that are 0 or follow a newline,
in increasing order (so: nothing for the empty content, and no entry for a trailing newline). -/
theorem lines_table (c : List Nat) :
    setLinesForContent c =
      ((List.range c.length).filter (fun o => o == 0 || c[o - 1]? == some 10)).map Int.ofNat :=
  lines_table_aux c

/-- the table is strictly increasing and starts at 0 for a non-empty content -/
theorem lines_sorted (c : List Nat) : (setLinesForContent c).Pairwise (· < ·) := by
  rw [lines_table_aux]
  exact List.Pairwise.map _ (fun a b h => by simp only [Int.ofNat_eq_natCast]; omega) (lsList_pairwise c)

/-! ## the hand-inlined binary search -/

/-- loop invariant carried to the exit: the result splits the sorted table into the entries
`≤ x` (indices `≤ result`) and the entries `> x` -/
theorem searchInts_partition (a : List Int) (x : Int) (hs : a.Pairwise (· ≤ ·)) (k : Nat) (hk : k < a.length) :
    a[k] ≤ x ↔ (k : Int) ≤ searchInts a x := by
  have hs' : SortedLE a := by
    intro i j hi hj hij
    rcases Nat.lt_or_ge i j with h | h
    · exact (List.pairwise_iff_getElem.mp hs) i j hi hj h
    · have : i = j := by omega
      subst this; exact Int.le_refl _
  have hp := searchGo_part a x hs'
  unfold searchInts
  constructor
  · intro h
    rcases Nat.lt_or_ge k (searchGo a x 0 a.length (Nat.le_refl _)) with h' | h'
    · omega
    · have := hp.2 k hk h'; omega
  · intro h
    exact hp.1 k hk (by omega)

theorem searchInts_spec (a : List Int) (x : Int) (hs : a.Pairwise (· ≤ ·)) :
    searchInts a x = (a.countP (fun v => decide (v ≤ x)) : Nat) - 1 := by
  apply searchInts_spec'
  intro i j hi hj hij
  rcases Nat.lt_or_ge i j with h | h
  · exact (List.pairwise_iff_getElem.mp hs) i j hi hj h
  · have : i = j := by omega
    subst this; exact Int.le_refl _

example : [0, 3, 7].Pairwise (· ≤ · : Int → Int → Prop) := by decide
example : searchInts [0, 3, 7] 5 = 1 := by simp [searchInts, searchGo]

/-! ## line and column -/

/-- the independent specification's "last line start" really is one: it is 0 or follows a
newline, and no newline lies between it and `off` -/
theorem lastLineStart_spec (c : List Nat) (off : Nat) :
    lastLineStart c off ≤ off ∧
    (lastLineStart c off = 0 ∨ c[lastLineStart c off - 1]? = some 10) ∧
    ∀ k, lastLineStart c off ≤ k → k < off → c[k]? ≠ some 10 := by
  refine ⟨lls_le c off, ?_, ?_⟩
  · have := lls_isLS c off
    simpa [isLS] using this
  · intro k h1 h2 h3
    have := lls_last c off (k + 1) (by omega) (by omega)
    simp [isLS, h3] at this

/-- **Position is right for every byte of every content**: line = 1 + number of newlines
before the offset, column = 1 + bytes since the last line start. -/
theorem position_correct (c : List Nat) (off : Nat) (h : off < c.length) :
    unpack (setLinesForContent c) off =
      (1 + (((c.take off).count 10 : Nat) : Int), 1 + (off : Int) - (lastLineStart c off : Nat)) :=
  unpack_content c off h

example : (3 : Nat) < [97, 98, 10, 99, 10].length := by decide

/-- the end-of-file position continues the line of the last byte (one column further) -/
theorem position_eof (c : List Nat) (hne : c ≠ []) :
    unpack (setLinesForContent c) c.length =
      ((specLineCol c (c.length - 1)).1, (specLineCol c (c.length - 1)).2 + 1) :=
  unpack_eof c hne

example : [97, 10] ≠ ([] : List Nat) := by decide

/-- after `SetLinesForContent("")` every position of the file is invalid (line 0) -/
theorem position_empty (x : Int) : unpack (setLinesForContent []) x = (0, 0) := unpack_empty x

/-- The counting rule extended to the end-of-file offset.  It is FALSE of model and code … -/
def PositionAtEofStatement : Prop :=
  ∀ c : List Nat, unpack (setLinesForContent c) c.length = specLineCol c c.length

/-- … witness `"a\n"`: the counting rule gives 2:1, `Position` gives 1:3; and `""`: 1:1 vs 0:0.
Both witnesses are replayed on the real code by the check (recorded findings). -/
theorem eof_statement_false : ¬ PositionAtEofStatement := by
  intro h
  have h1 := h [97, 10]
  rw [position_eof [97, 10] (by decide)] at h1
  simp [specLineCol, lastLineStart] at h1

theorem eof_statement_false_empty :
    unpack (setLinesForContent []) (([] : List Nat).length : Nat) ≠ specLineCol [] 0 := by
  rw [position_empty]
  simp [specLineCol, lastLineStart]

/-! ## file lookup -/

/-- a Pos inside a file's `[base, base+size]` is attributed to that file, whatever the `last`
cache holds — provided the cache holds one of the CURRENT files (`CacheOK`) -/
theorem fileset_lookup_correct (s : MSet) (hw : SetWF s) (hc : CacheOK s) (k : Nat) (hk : k < s.files.length) (p : Int)
    (hin : s.files[k].base ≤ p ∧ p ≤ s.files[k].base + s.files[k].size) :
    (fileLookup s p).1 = some s.files[k] :=
  lookup_found s hw hc k hk p ((inFile_iff _ _).mpr hin)

/-- a Pos in no file's range is attributed to no file -/
theorem fileset_lookup_none (s : MSet) (hw : SetWF s) (hc : CacheOK s) (p : Int)
    (hout : ∀ (k : Nat) (hk : k < s.files.length), ¬ (s.files[k].base ≤ p ∧ p ≤ s.files[k].base + s.files[k].size)) :
    (fileLookup s p).1 = none := by
  apply lookup_none s hw hc p
  intro k hk
  cases h : inFile s.files[k] p with
  | false => rfl
  | true => exact absurd ((inFile_iff _ _).mp h) (hout k hk)

/-- `CacheOK` is necessary: a set whose cache still holds a File object of a previous load
answers from that stale object (this is what a `Read` that forgets `s.last = nil` produces) -/
def staleSet : MSet :=
  ⟨7, [⟨"new.wa", 1, 5, 0, [0, 2, 4], []⟩], some ⟨"old.wa", 1, 5, 0, [0], []⟩⟩

theorem stale_cache_answers_wrong :
    (fileLookup staleSet 4).1 = some ⟨"old.wa", 1, 5, 0, [0], []⟩ ∧ ¬ CacheOK staleSet := by
  constructor
  · rfl
  · intro h
    have := h _ rfl
    revert this
    decide

/-- a query only touches the cache, and leaves it holding one of the files -/
theorem position_keeps_files (s : MSet) (p : Int) (adj : Bool) :
    (positionFor s p adj).2.files = s.files ∧ (positionFor s p adj).2.base = s.base := by
  unfold positionFor
  split
  · exact ⟨rfl, rfl⟩
  · split <;> exact ⟨rfl, rfl⟩

theorem position_keeps_cache_ok (s : MSet) (hw : SetWF s) (hc : CacheOK s) (p : Int) (adj : Bool) :
    CacheOK (positionFor s p adj).2 := by
  unfold positionFor
  split
  · exact hc
  · have hl := lookup_cache_ok s hw hc p
    rcases hfl : fileLookup s p with ⟨a, l⟩
    rw [hfl] at hl
    cases a <;> exact fun f hf => hl f hf

/-! ## reachable file sets are well formed -/

theorem fileset_inv_new : SetInv newFileSet := newFileSet_inv

theorem fileset_inv_addFile (s s' : MSet) (name : String) (b sz cp : Int) (h : SetInv s)
    (ha : addFile s name b sz cp = .ok s') : SetInv s' := addFile_inv s s' name b sz cp h ha

theorem fileset_inv_setContent (s s' : MSet) (k : Nat) (c : List Nat) (h : SetInv s)
    (hs : setContent s k c = .ok s') : SetInv s' := setContent_inv s s' k c h hs

theorem fileset_inv_addLineInfo (s s' : MSet) (k : Nat) (li : LineInfo) (h : SetInv s)
    (hs : addLineInfo s k li = .ok s') : SetInv s' := addLineInfo_inv s s' k li h hs

theorem fileset_inv_wf (s : MSet) (h : SetInv s) : SetWF s ∧ CacheOK s := ⟨h.wf, h.cache⟩

/-- **reloading re-establishes the cache invariant**: after `Read` (into a fresh or an existing
set — `readInto` ignores the old state) the cache is empty, hence `CacheOK` -/
theorem read_cache_invariant (old : MSet) (ss : SSet) : (readInto old ss).last = none ∧ CacheOK (readInto old ss) :=
  ⟨rfl, read_cache_ok ss⟩

/-- a concrete reachable two-file set (hypotheses of the theorems below are satisfiable) -/
def exampleSet : MSet :=
  ⟨13, [⟨"a.wa", 1, 5, 5, [0, 3], []⟩, ⟨"b.wa", 9, 2, 3, [0], []⟩], some ⟨"b.wa", 9, 2, 3, [0], []⟩⟩

example : (do
    let s ← addFile newFileSet "a.wa" (-1) 5 0
    let s ← setContent s 0 [97, 98, 10, 99, 10]
    let s ← addFile s "b.wa" 9 0 3
    setContent s 1 [120, 121]) = Except.ok exampleSet := by rfl

theorem exampleSet_inv : SetInv exampleSet := by
  have h1 : addFile newFileSet "a.wa" (-1) 5 0 = .ok ⟨7, [⟨"a.wa", 1, 5, 5, [0], []⟩], some ⟨"a.wa", 1, 5, 5, [0], []⟩⟩ := by rfl
  have i1 := addFile_inv _ _ _ _ _ _ newFileSet_inv h1
  have h2 : setContent ⟨7, [⟨"a.wa", 1, 5, 5, [0], []⟩], some ⟨"a.wa", 1, 5, 5, [0], []⟩⟩ 0 [97, 98, 10, 99, 10]
      = .ok ⟨7, [⟨"a.wa", 1, 5, 5, [0, 3], []⟩], some ⟨"a.wa", 1, 5, 5, [0, 3], []⟩⟩ := by rfl
  have i2 := setContent_inv _ _ _ _ i1 h2
  have h3 : addFile ⟨7, [⟨"a.wa", 1, 5, 5, [0, 3], []⟩], some ⟨"a.wa", 1, 5, 5, [0, 3], []⟩⟩ "b.wa" 9 0 3
      = .ok ⟨13, [⟨"a.wa", 1, 5, 5, [0, 3], []⟩, ⟨"b.wa", 9, 0, 3, [0], []⟩], some ⟨"b.wa", 9, 0, 3, [0], []⟩⟩ := by rfl
  have i3 := addFile_inv _ _ _ _ _ _ i2 h3
  have h4 : setContent ⟨13, [⟨"a.wa", 1, 5, 5, [0, 3], []⟩, ⟨"b.wa", 9, 0, 3, [0], []⟩], some ⟨"b.wa", 9, 0, 3, [0], []⟩⟩ 1 [120, 121]
      = .ok exampleSet := by rfl
  exact setContent_inv _ _ _ _ i3 h4

example : SetWF exampleSet := exampleSet_inv.wf

/-! ## serialisation -/

/-- **reading back a written file set answers every Position query identically**, adjusted
(`//line` infos applied) or not: name, base, size, line table and line-info table are all
carried; only the cache and the reserved capacity are lost.  `old` is whatever the receiving
FileSet object held before (reload into the same object). -/
theorem read_write_id (old s : MSet) (hw : SetWF s) (hc : CacheOK s) (p : Int) (adj : Bool) :
    (positionFor (readInto old (write s)) p adj).1 = (positionFor s p adj).1 :=
  position_congr _ _ (read_write_wf s hw) hw (read_cache_ok _) hc (read_write_files s) p adj

/-- the serialisable structure itself (including the infos) is preserved by read-then-write -/
theorem write_read_id (ss : SSet) : write (read ss) = ss := by
  cases ss with
  | mk b fs =>
    simp only [write, read, List.map_map, SSet.mk.injEq, true_and]
    conv => rhs; rw [← List.map_id fs]
    apply List.map_congr_left
    intro f _
    rfl

/-! ## line infos -/

/-- without `//line` infos, or when not adjusting, `unpack` is the raw line/column of the file -/
theorem unpackAdj_raw (f : MFile) (offset : Int) (adj : Bool) (h : adj = false ∨ f.infos = []) :
    unpackAdj f offset adj = (f.name, (unpack f.lines offset).1, (unpack f.lines offset).2) := by
  unfold unpackAdj
  rcases h with h | h
  · simp [h]
  · simp [h]

/-! ## end to end -/

/-- **Position of a Pos inside a file whose table was set from its content**: the file's name,
the offset, and the line/column obtained by counting in the content — for `PositionFor(p,false)`
always, for `Position` when the file has no `//line` infos; before and (by `read_write_id`)
after serialisation. -/
theorem fileset_position_correct (s : MSet) (hw : SetWF s) (hc : CacheOK s) (k : Nat) (hk : k < s.files.length)
    (c : List Nat) (hl : s.files[k].lines = setLinesForContent c) (hsz : s.files[k].size = c.length)
    (off : Nat) (hoff : off < c.length) (adj : Bool) (hadj : adj = false ∨ s.files[k].infos = []) :
    (positionFor s (s.files[k].base + off) adj).1 =
      ⟨s.files[k].name, off, 1 + (((c.take off).count 10 : Nat) : Int), 1 + (off : Int) - (lastLineStart c off : Nat)⟩ := by
  have hb := hw.base_pos _ (List.getElem_mem hk)
  have hp : s.files[k].base + (off : Int) ≠ 0 := by omega
  have hin : inFile s.files[k] (s.files[k].base + off) = true := (inFile_iff _ _).mpr ⟨by omega, by omega⟩
  rw [position_found s _ adj hp _ (lookup_found s hw hc k hk _ hin)]
  simp only [filePosition, unpackAdj_raw _ _ _ hadj, hl]
  have : s.files[k].base + (off : Int) - s.files[k].base = (off : Int) := by omega
  rw [this, position_correct c off hoff]

theorem fileset_position_correct_after_json (old s : MSet) (hw : SetWF s) (hc : CacheOK s) (k : Nat) (hk : k < s.files.length)
    (c : List Nat) (hl : s.files[k].lines = setLinesForContent c) (hsz : s.files[k].size = c.length)
    (off : Nat) (hoff : off < c.length) (adj : Bool) (hadj : adj = false ∨ s.files[k].infos = []) :
    (positionFor (readInto old (write s)) (s.files[k].base + off) adj).1 =
      ⟨s.files[k].name, off, 1 + (((c.take off).count 10 : Nat) : Int), 1 + (off : Int) - (lastLineStart c off : Nat)⟩ := by
  rw [read_write_id old s hw hc, fileset_position_correct s hw hc k hk c hl hsz off hoff adj hadj]

example : exampleSet.files[0].lines = setLinesForContent [97, 98, 10, 99, 10] := by decide
example : (position exampleSet 4).1 = ⟨"a.wa", 3, 2, 1⟩ := by
  have := fileset_position_correct exampleSet exampleSet_inv.wf exampleSet_inv.cache 0 (by decide) [97, 98, 10, 99, 10] (by decide) (by decide) 3 (by decide) true (Or.inr rfl)
  simpa [exampleSet, lastLineStart, position] using this

end WaVerif.C23
