import WaVerif.Model.C01Spec
import WaVerif.Gen.C01Rows
import WaVerif.Lemmas.C01Tac
set_option linter.unusedSimpArgs false
/-! One theorem per row of the regenerated emit table (statement fixed by the row key). -/
namespace WaVerif.C01.Rows
open WaVerif WaVerif.Wasm WaVerif.C01 WaVerif.Gen.C01

theorem bin_add_u8_u8_ok : ArithRowFull .add 8 false bin_add_u8_u8 := by
  unfold bin_add_u8_u8
  row_tac

theorem bin_add_u16_u16_ok : ArithRowFull .add 16 false bin_add_u16_u16 := by
  unfold bin_add_u16_u16
  row_tac

theorem bin_add_i32_i32_ok : ArithRowFull .add 32 true bin_add_i32_i32 := by
  unfold bin_add_i32_i32
  row_tac

theorem bin_add_u32_u32_ok : ArithRowFull .add 32 false bin_add_u32_u32 := by
  unfold bin_add_u32_u32
  row_tac

theorem bin_add_i64_i64_ok : ArithRowFull .add 64 true bin_add_i64_i64 := by
  unfold bin_add_i64_i64
  row_tac

theorem bin_add_u64_u64_ok : ArithRowFull .add 64 false bin_add_u64_u64 := by
  unfold bin_add_u64_u64
  row_tac

theorem bin_add_rune_rune_ok : ArithRowFull .add 32 true bin_add_rune_rune := by
  unfold bin_add_rune_rune
  row_tac

theorem bin_sub_u8_u8_ok : ArithRowFull .sub 8 false bin_sub_u8_u8 := by
  unfold bin_sub_u8_u8
  row_tac

theorem bin_sub_u16_u16_ok : ArithRowFull .sub 16 false bin_sub_u16_u16 := by
  unfold bin_sub_u16_u16
  row_tac

theorem bin_sub_i32_i32_ok : ArithRowFull .sub 32 true bin_sub_i32_i32 := by
  unfold bin_sub_i32_i32
  row_tac

theorem bin_sub_u32_u32_ok : ArithRowFull .sub 32 false bin_sub_u32_u32 := by
  unfold bin_sub_u32_u32
  row_tac

theorem bin_sub_i64_i64_ok : ArithRowFull .sub 64 true bin_sub_i64_i64 := by
  unfold bin_sub_i64_i64
  row_tac

theorem bin_sub_u64_u64_ok : ArithRowFull .sub 64 false bin_sub_u64_u64 := by
  unfold bin_sub_u64_u64
  row_tac

theorem bin_sub_rune_rune_ok : ArithRowFull .sub 32 true bin_sub_rune_rune := by
  unfold bin_sub_rune_rune
  row_tac

theorem bin_mul_u8_u8_ok : ArithRowFull .mul 8 false bin_mul_u8_u8 := by
  unfold bin_mul_u8_u8
  row_tac

theorem bin_mul_u16_u16_ok : ArithRowFull .mul 16 false bin_mul_u16_u16 := by
  unfold bin_mul_u16_u16
  row_tac

theorem bin_mul_i32_i32_ok : ArithRowFull .mul 32 true bin_mul_i32_i32 := by
  unfold bin_mul_i32_i32
  row_tac

theorem bin_mul_u32_u32_ok : ArithRowFull .mul 32 false bin_mul_u32_u32 := by
  unfold bin_mul_u32_u32
  row_tac

theorem bin_mul_i64_i64_ok : ArithRowFull .mul 64 true bin_mul_i64_i64 := by
  unfold bin_mul_i64_i64
  row_tac

theorem bin_mul_u64_u64_ok : ArithRowFull .mul 64 false bin_mul_u64_u64 := by
  unfold bin_mul_u64_u64
  row_tac

theorem bin_mul_rune_rune_ok : ArithRowFull .mul 32 true bin_mul_rune_rune := by
  unfold bin_mul_rune_rune
  row_tac

theorem bin_quo_u8_u8_ok : ArithRowFull .quo 8 false bin_quo_u8_u8 := by
  unfold bin_quo_u8_u8
  div_tac

theorem bin_quo_u16_u16_ok : ArithRowFull .quo 16 false bin_quo_u16_u16 := by
  unfold bin_quo_u16_u16
  div_tac

theorem bin_quo_i32_i32_ok : ArithRowExceptOverflow .quo 32 true bin_quo_i32_i32 := by
  unfold bin_quo_i32_i32
  div_tac

theorem bin_quo_u32_u32_ok : ArithRowFull .quo 32 false bin_quo_u32_u32 := by
  unfold bin_quo_u32_u32
  div_tac

theorem bin_quo_i64_i64_ok : ArithRowExceptOverflow .quo 64 true bin_quo_i64_i64 := by
  unfold bin_quo_i64_i64
  div_tac

theorem bin_quo_u64_u64_ok : ArithRowFull .quo 64 false bin_quo_u64_u64 := by
  unfold bin_quo_u64_u64
  div_tac

theorem bin_quo_rune_rune_ok : ArithRowExceptOverflow .quo 32 true bin_quo_rune_rune := by
  unfold bin_quo_rune_rune
  div_tac

theorem bin_rem_u8_u8_ok : ArithRowFull .rem 8 false bin_rem_u8_u8 := by
  unfold bin_rem_u8_u8
  div_tac

theorem bin_rem_u16_u16_ok : ArithRowFull .rem 16 false bin_rem_u16_u16 := by
  unfold bin_rem_u16_u16
  div_tac

theorem bin_rem_i32_i32_ok : ArithRowFull .rem 32 true bin_rem_i32_i32 := by
  unfold bin_rem_i32_i32
  div_tac

theorem bin_rem_u32_u32_ok : ArithRowFull .rem 32 false bin_rem_u32_u32 := by
  unfold bin_rem_u32_u32
  div_tac

theorem bin_rem_i64_i64_ok : ArithRowFull .rem 64 true bin_rem_i64_i64 := by
  unfold bin_rem_i64_i64
  div_tac

theorem bin_rem_u64_u64_ok : ArithRowFull .rem 64 false bin_rem_u64_u64 := by
  unfold bin_rem_u64_u64
  div_tac

theorem bin_rem_rune_rune_ok : ArithRowFull .rem 32 true bin_rem_rune_rune := by
  unfold bin_rem_rune_rune
  div_tac

theorem bin_and_u8_u8_ok : ArithRowFull .and 8 false bin_and_u8_u8 := by
  unfold bin_and_u8_u8
  row_tac

theorem bin_and_u16_u16_ok : ArithRowFull .and 16 false bin_and_u16_u16 := by
  unfold bin_and_u16_u16
  row_tac

theorem bin_and_i32_i32_ok : ArithRowFull .and 32 true bin_and_i32_i32 := by
  unfold bin_and_i32_i32
  row_tac

theorem bin_and_u32_u32_ok : ArithRowFull .and 32 false bin_and_u32_u32 := by
  unfold bin_and_u32_u32
  row_tac

theorem bin_and_i64_i64_ok : ArithRowFull .and 64 true bin_and_i64_i64 := by
  unfold bin_and_i64_i64
  row_tac

theorem bin_and_u64_u64_ok : ArithRowFull .and 64 false bin_and_u64_u64 := by
  unfold bin_and_u64_u64
  row_tac

theorem bin_and_rune_rune_ok : ArithRowFull .and 32 true bin_and_rune_rune := by
  unfold bin_and_rune_rune
  row_tac

theorem bin_or_u8_u8_ok : ArithRowFull .or 8 false bin_or_u8_u8 := by
  unfold bin_or_u8_u8
  row_tac

theorem bin_or_u16_u16_ok : ArithRowFull .or 16 false bin_or_u16_u16 := by
  unfold bin_or_u16_u16
  row_tac

theorem bin_or_i32_i32_ok : ArithRowFull .or 32 true bin_or_i32_i32 := by
  unfold bin_or_i32_i32
  row_tac

theorem bin_or_u32_u32_ok : ArithRowFull .or 32 false bin_or_u32_u32 := by
  unfold bin_or_u32_u32
  row_tac

theorem bin_or_i64_i64_ok : ArithRowFull .or 64 true bin_or_i64_i64 := by
  unfold bin_or_i64_i64
  row_tac

theorem bin_or_u64_u64_ok : ArithRowFull .or 64 false bin_or_u64_u64 := by
  unfold bin_or_u64_u64
  row_tac

theorem bin_or_rune_rune_ok : ArithRowFull .or 32 true bin_or_rune_rune := by
  unfold bin_or_rune_rune
  row_tac

theorem bin_xor_u8_u8_ok : ArithRowFull .xor 8 false bin_xor_u8_u8 := by
  unfold bin_xor_u8_u8
  row_tac

theorem bin_xor_u16_u16_ok : ArithRowFull .xor 16 false bin_xor_u16_u16 := by
  unfold bin_xor_u16_u16
  row_tac

theorem bin_xor_i32_i32_ok : ArithRowFull .xor 32 true bin_xor_i32_i32 := by
  unfold bin_xor_i32_i32
  row_tac

theorem bin_xor_u32_u32_ok : ArithRowFull .xor 32 false bin_xor_u32_u32 := by
  unfold bin_xor_u32_u32
  row_tac

theorem bin_xor_i64_i64_ok : ArithRowFull .xor 64 true bin_xor_i64_i64 := by
  unfold bin_xor_i64_i64
  row_tac

theorem bin_xor_u64_u64_ok : ArithRowFull .xor 64 false bin_xor_u64_u64 := by
  unfold bin_xor_u64_u64
  row_tac

theorem bin_xor_rune_rune_ok : ArithRowFull .xor 32 true bin_xor_rune_rune := by
  unfold bin_xor_rune_rune
  row_tac

theorem bin_andnot_u8_u8_ok : ArithRowFull .andnot 8 false bin_andnot_u8_u8 := by
  unfold bin_andnot_u8_u8
  row_tac

theorem bin_andnot_u16_u16_ok : ArithRowFull .andnot 16 false bin_andnot_u16_u16 := by
  unfold bin_andnot_u16_u16
  row_tac

theorem bin_andnot_i32_i32_ok : ArithRowFull .andnot 32 true bin_andnot_i32_i32 := by
  unfold bin_andnot_i32_i32
  row_tac

theorem bin_andnot_u32_u32_ok : ArithRowFull .andnot 32 false bin_andnot_u32_u32 := by
  unfold bin_andnot_u32_u32
  row_tac

theorem bin_andnot_i64_i64_ok : ArithRowFull .andnot 64 true bin_andnot_i64_i64 := by
  unfold bin_andnot_i64_i64
  row_tac

theorem bin_andnot_u64_u64_ok : ArithRowFull .andnot 64 false bin_andnot_u64_u64 := by
  unfold bin_andnot_u64_u64
  row_tac

theorem bin_andnot_rune_rune_ok : ArithRowFull .andnot 32 true bin_andnot_rune_rune := by
  unfold bin_andnot_rune_rune
  row_tac

theorem bin_eql_u8_u8_ok : CmpRow .eq 8 false bin_eql_u8_u8 := by
  unfold bin_eql_u8_u8
  row_tac

theorem bin_eql_u16_u16_ok : CmpRow .eq 16 false bin_eql_u16_u16 := by
  unfold bin_eql_u16_u16
  row_tac

theorem bin_eql_i32_i32_ok : CmpRow .eq 32 true bin_eql_i32_i32 := by
  unfold bin_eql_i32_i32
  row_tac

theorem bin_eql_u32_u32_ok : CmpRow .eq 32 false bin_eql_u32_u32 := by
  unfold bin_eql_u32_u32
  row_tac

theorem bin_eql_i64_i64_ok : CmpRow .eq 64 true bin_eql_i64_i64 := by
  unfold bin_eql_i64_i64
  row_tac

theorem bin_eql_u64_u64_ok : CmpRow .eq 64 false bin_eql_u64_u64 := by
  unfold bin_eql_u64_u64
  row_tac

theorem bin_eql_rune_rune_ok : CmpRow .eq 32 true bin_eql_rune_rune := by
  unfold bin_eql_rune_rune
  row_tac

theorem bin_ne_u8_u8_ok : CmpRow .ne 8 false bin_ne_u8_u8 := by
  unfold bin_ne_u8_u8
  row_tac

theorem bin_ne_u16_u16_ok : CmpRow .ne 16 false bin_ne_u16_u16 := by
  unfold bin_ne_u16_u16
  row_tac

theorem bin_ne_i32_i32_ok : CmpRow .ne 32 true bin_ne_i32_i32 := by
  unfold bin_ne_i32_i32
  row_tac

theorem bin_ne_u32_u32_ok : CmpRow .ne 32 false bin_ne_u32_u32 := by
  unfold bin_ne_u32_u32
  row_tac

theorem bin_ne_i64_i64_ok : CmpRow .ne 64 true bin_ne_i64_i64 := by
  unfold bin_ne_i64_i64
  row_tac

theorem bin_ne_u64_u64_ok : CmpRow .ne 64 false bin_ne_u64_u64 := by
  unfold bin_ne_u64_u64
  row_tac

theorem bin_ne_rune_rune_ok : CmpRow .ne 32 true bin_ne_rune_rune := by
  unfold bin_ne_rune_rune
  row_tac

theorem bin_lt_u8_u8_ok : CmpRow .lt 8 false bin_lt_u8_u8 := by
  unfold bin_lt_u8_u8
  row_tac

theorem bin_lt_u16_u16_ok : CmpRow .lt 16 false bin_lt_u16_u16 := by
  unfold bin_lt_u16_u16
  row_tac

theorem bin_lt_i32_i32_ok : CmpRow .lt 32 true bin_lt_i32_i32 := by
  unfold bin_lt_i32_i32
  row_tac

theorem bin_lt_u32_u32_ok : CmpRow .lt 32 false bin_lt_u32_u32 := by
  unfold bin_lt_u32_u32
  row_tac

theorem bin_lt_i64_i64_ok : CmpRow .lt 64 true bin_lt_i64_i64 := by
  unfold bin_lt_i64_i64
  row_tac

theorem bin_lt_u64_u64_ok : CmpRow .lt 64 false bin_lt_u64_u64 := by
  unfold bin_lt_u64_u64
  row_tac

theorem bin_lt_rune_rune_ok : CmpRow .lt 32 true bin_lt_rune_rune := by
  unfold bin_lt_rune_rune
  row_tac

theorem bin_gt_u8_u8_ok : CmpRow .gt 8 false bin_gt_u8_u8 := by
  unfold bin_gt_u8_u8
  row_tac

theorem bin_gt_u16_u16_ok : CmpRow .gt 16 false bin_gt_u16_u16 := by
  unfold bin_gt_u16_u16
  row_tac

theorem bin_gt_i32_i32_ok : CmpRow .gt 32 true bin_gt_i32_i32 := by
  unfold bin_gt_i32_i32
  row_tac

theorem bin_gt_u32_u32_ok : CmpRow .gt 32 false bin_gt_u32_u32 := by
  unfold bin_gt_u32_u32
  row_tac

theorem bin_gt_i64_i64_ok : CmpRow .gt 64 true bin_gt_i64_i64 := by
  unfold bin_gt_i64_i64
  row_tac

theorem bin_gt_u64_u64_ok : CmpRow .gt 64 false bin_gt_u64_u64 := by
  unfold bin_gt_u64_u64
  row_tac

theorem bin_gt_rune_rune_ok : CmpRow .gt 32 true bin_gt_rune_rune := by
  unfold bin_gt_rune_rune
  row_tac

theorem bin_le_u8_u8_ok : CmpRow .le 8 false bin_le_u8_u8 := by
  unfold bin_le_u8_u8
  row_tac

theorem bin_le_u16_u16_ok : CmpRow .le 16 false bin_le_u16_u16 := by
  unfold bin_le_u16_u16
  row_tac

theorem bin_le_i32_i32_ok : CmpRow .le 32 true bin_le_i32_i32 := by
  unfold bin_le_i32_i32
  row_tac

theorem bin_le_u32_u32_ok : CmpRow .le 32 false bin_le_u32_u32 := by
  unfold bin_le_u32_u32
  row_tac

theorem bin_le_i64_i64_ok : CmpRow .le 64 true bin_le_i64_i64 := by
  unfold bin_le_i64_i64
  row_tac

theorem bin_le_u64_u64_ok : CmpRow .le 64 false bin_le_u64_u64 := by
  unfold bin_le_u64_u64
  row_tac

theorem bin_le_rune_rune_ok : CmpRow .le 32 true bin_le_rune_rune := by
  unfold bin_le_rune_rune
  row_tac

theorem bin_ge_u8_u8_ok : CmpRow .ge 8 false bin_ge_u8_u8 := by
  unfold bin_ge_u8_u8
  row_tac

theorem bin_ge_u16_u16_ok : CmpRow .ge 16 false bin_ge_u16_u16 := by
  unfold bin_ge_u16_u16
  row_tac

theorem bin_ge_i32_i32_ok : CmpRow .ge 32 true bin_ge_i32_i32 := by
  unfold bin_ge_i32_i32
  row_tac

theorem bin_ge_u32_u32_ok : CmpRow .ge 32 false bin_ge_u32_u32 := by
  unfold bin_ge_u32_u32
  row_tac

theorem bin_ge_i64_i64_ok : CmpRow .ge 64 true bin_ge_i64_i64 := by
  unfold bin_ge_i64_i64
  row_tac

theorem bin_ge_u64_u64_ok : CmpRow .ge 64 false bin_ge_u64_u64 := by
  unfold bin_ge_u64_u64
  row_tac

theorem bin_ge_rune_rune_ok : CmpRow .ge 32 true bin_ge_rune_rune := by
  unfold bin_ge_rune_rune
  row_tac

theorem bin_shl_u8_u8_ok : ShlRowBelow 8 false 8 false bin_shl_u8_u8 := by
  unfold bin_shl_u8_u8
  shift_tac

theorem bin_shl_u8_u16_ok : ShlRowBelow 8 false 16 false bin_shl_u8_u16 := by
  unfold bin_shl_u8_u16
  shift_tac

theorem bin_shl_u8_u32_ok : ShlRowBelow 8 false 32 false bin_shl_u8_u32 := by
  unfold bin_shl_u8_u32
  shift_tac

theorem bin_shl_u8_u64_ok : ShlRowBelow 8 false 64 false bin_shl_u8_u64 := by
  unfold bin_shl_u8_u64
  shift_tac

theorem bin_shl_u8_i32_ok : ShlRowBelow 8 false 32 true bin_shl_u8_i32 := by
  unfold bin_shl_u8_i32
  shift_tac

theorem bin_shl_u8_i64_ok : ShlRowBelow 8 false 64 true bin_shl_u8_i64 := by
  unfold bin_shl_u8_i64
  shift_tac

theorem bin_shl_u16_u8_ok : ShlRowBelow 16 false 8 false bin_shl_u16_u8 := by
  unfold bin_shl_u16_u8
  shift_tac

theorem bin_shl_u16_u16_ok : ShlRowBelow 16 false 16 false bin_shl_u16_u16 := by
  unfold bin_shl_u16_u16
  shift_tac

theorem bin_shl_u16_u32_ok : ShlRowBelow 16 false 32 false bin_shl_u16_u32 := by
  unfold bin_shl_u16_u32
  shift_tac

theorem bin_shl_u16_u64_ok : ShlRowBelow 16 false 64 false bin_shl_u16_u64 := by
  unfold bin_shl_u16_u64
  shift_tac

theorem bin_shl_u16_i32_ok : ShlRowBelow 16 false 32 true bin_shl_u16_i32 := by
  unfold bin_shl_u16_i32
  shift_tac

theorem bin_shl_u16_i64_ok : ShlRowBelow 16 false 64 true bin_shl_u16_i64 := by
  unfold bin_shl_u16_i64
  shift_tac

theorem bin_shl_i32_u8_ok : ShlRowBelow 32 true 8 false bin_shl_i32_u8 := by
  unfold bin_shl_i32_u8
  shift_tac

theorem bin_shl_i32_u16_ok : ShlRowBelow 32 true 16 false bin_shl_i32_u16 := by
  unfold bin_shl_i32_u16
  shift_tac

theorem bin_shl_i32_u32_ok : ShlRowBelow 32 true 32 false bin_shl_i32_u32 := by
  unfold bin_shl_i32_u32
  shift_tac

theorem bin_shl_i32_u64_ok : ShlRowBelow 32 true 64 false bin_shl_i32_u64 := by
  unfold bin_shl_i32_u64
  shift_tac

theorem bin_shl_i32_i32_ok : ShlRowBelow 32 true 32 true bin_shl_i32_i32 := by
  unfold bin_shl_i32_i32
  shift_tac

theorem bin_shl_i32_i64_ok : ShlRowBelow 32 true 64 true bin_shl_i32_i64 := by
  unfold bin_shl_i32_i64
  shift_tac

theorem bin_shl_u32_u8_ok : ShlRowBelow 32 false 8 false bin_shl_u32_u8 := by
  unfold bin_shl_u32_u8
  shift_tac

theorem bin_shl_u32_u16_ok : ShlRowBelow 32 false 16 false bin_shl_u32_u16 := by
  unfold bin_shl_u32_u16
  shift_tac

theorem bin_shl_u32_u32_ok : ShlRowBelow 32 false 32 false bin_shl_u32_u32 := by
  unfold bin_shl_u32_u32
  shift_tac

theorem bin_shl_u32_u64_ok : ShlRowBelow 32 false 64 false bin_shl_u32_u64 := by
  unfold bin_shl_u32_u64
  shift_tac

theorem bin_shl_u32_i32_ok : ShlRowBelow 32 false 32 true bin_shl_u32_i32 := by
  unfold bin_shl_u32_i32
  shift_tac

theorem bin_shl_u32_i64_ok : ShlRowBelow 32 false 64 true bin_shl_u32_i64 := by
  unfold bin_shl_u32_i64
  shift_tac

theorem bin_shl_i64_u8_ok : ShlRowBelow 64 true 8 false bin_shl_i64_u8 := by
  unfold bin_shl_i64_u8
  shift_tac

theorem bin_shl_i64_u16_ok : ShlRowBelow 64 true 16 false bin_shl_i64_u16 := by
  unfold bin_shl_i64_u16
  shift_tac

theorem bin_shl_i64_u32_ok : ShlRowBelow 64 true 32 false bin_shl_i64_u32 := by
  unfold bin_shl_i64_u32
  shift_tac

theorem bin_shl_i64_u64_ok : ShlRowBelow 64 true 64 false bin_shl_i64_u64 := by
  unfold bin_shl_i64_u64
  shift_tac

theorem bin_shl_i64_i32_ok : ShlRowBelow 64 true 32 true bin_shl_i64_i32 := by
  unfold bin_shl_i64_i32
  shift_tac

theorem bin_shl_i64_i64_ok : ShlRowBelow 64 true 64 true bin_shl_i64_i64 := by
  unfold bin_shl_i64_i64
  shift_tac

theorem bin_shl_u64_u8_ok : ShlRowBelow 64 false 8 false bin_shl_u64_u8 := by
  unfold bin_shl_u64_u8
  shift_tac

theorem bin_shl_u64_u16_ok : ShlRowBelow 64 false 16 false bin_shl_u64_u16 := by
  unfold bin_shl_u64_u16
  shift_tac

theorem bin_shl_u64_u32_ok : ShlRowBelow 64 false 32 false bin_shl_u64_u32 := by
  unfold bin_shl_u64_u32
  shift_tac

theorem bin_shl_u64_u64_ok : ShlRowBelow 64 false 64 false bin_shl_u64_u64 := by
  unfold bin_shl_u64_u64
  shift_tac

theorem bin_shl_u64_i32_ok : ShlRowBelow 64 false 32 true bin_shl_u64_i32 := by
  unfold bin_shl_u64_i32
  shift_tac

theorem bin_shl_u64_i64_ok : ShlRowBelow 64 false 64 true bin_shl_u64_i64 := by
  unfold bin_shl_u64_i64
  shift_tac

theorem bin_shl_rune_u8_ok : ShlRowBelow 32 true 8 false bin_shl_rune_u8 := by
  unfold bin_shl_rune_u8
  shift_tac

theorem bin_shl_rune_u16_ok : ShlRowBelow 32 true 16 false bin_shl_rune_u16 := by
  unfold bin_shl_rune_u16
  shift_tac

theorem bin_shl_rune_u32_ok : ShlRowBelow 32 true 32 false bin_shl_rune_u32 := by
  unfold bin_shl_rune_u32
  shift_tac

theorem bin_shl_rune_u64_ok : ShlRowBelow 32 true 64 false bin_shl_rune_u64 := by
  unfold bin_shl_rune_u64
  shift_tac

theorem bin_shl_rune_i32_ok : ShlRowBelow 32 true 32 true bin_shl_rune_i32 := by
  unfold bin_shl_rune_i32
  shift_tac

theorem bin_shl_rune_i64_ok : ShlRowBelow 32 true 64 true bin_shl_rune_i64 := by
  unfold bin_shl_rune_i64
  shift_tac

theorem bin_shr_u8_u8_ok : ShrRowBelow 8 false 8 false bin_shr_u8_u8 := by
  unfold bin_shr_u8_u8
  shift_tac

theorem bin_shr_u8_u16_ok : ShrRowBelow 8 false 16 false bin_shr_u8_u16 := by
  unfold bin_shr_u8_u16
  shift_tac

theorem bin_shr_u8_u32_ok : ShrRowBelow 8 false 32 false bin_shr_u8_u32 := by
  unfold bin_shr_u8_u32
  shift_tac

theorem bin_shr_u8_u64_ok : ShrRowBelow 8 false 64 false bin_shr_u8_u64 := by
  unfold bin_shr_u8_u64
  shift_tac

theorem bin_shr_u8_i32_ok : ShrRowBelow 8 false 32 true bin_shr_u8_i32 := by
  unfold bin_shr_u8_i32
  shift_tac

theorem bin_shr_u8_i64_ok : ShrRowBelow 8 false 64 true bin_shr_u8_i64 := by
  unfold bin_shr_u8_i64
  shift_tac

theorem bin_shr_u16_u8_ok : ShrRowBelow 16 false 8 false bin_shr_u16_u8 := by
  unfold bin_shr_u16_u8
  shift_tac

theorem bin_shr_u16_u16_ok : ShrRowBelow 16 false 16 false bin_shr_u16_u16 := by
  unfold bin_shr_u16_u16
  shift_tac

theorem bin_shr_u16_u32_ok : ShrRowBelow 16 false 32 false bin_shr_u16_u32 := by
  unfold bin_shr_u16_u32
  shift_tac

theorem bin_shr_u16_u64_ok : ShrRowBelow 16 false 64 false bin_shr_u16_u64 := by
  unfold bin_shr_u16_u64
  shift_tac

theorem bin_shr_u16_i32_ok : ShrRowBelow 16 false 32 true bin_shr_u16_i32 := by
  unfold bin_shr_u16_i32
  shift_tac

theorem bin_shr_u16_i64_ok : ShrRowBelow 16 false 64 true bin_shr_u16_i64 := by
  unfold bin_shr_u16_i64
  shift_tac

theorem bin_shr_i32_u8_ok : ShrRowBelow 32 true 8 false bin_shr_i32_u8 := by
  unfold bin_shr_i32_u8
  shift_tac

theorem bin_shr_i32_u16_ok : ShrRowBelow 32 true 16 false bin_shr_i32_u16 := by
  unfold bin_shr_i32_u16
  shift_tac

theorem bin_shr_i32_u32_ok : ShrRowBelow 32 true 32 false bin_shr_i32_u32 := by
  unfold bin_shr_i32_u32
  shift_tac

theorem bin_shr_i32_u64_ok : ShrRowBelow 32 true 64 false bin_shr_i32_u64 := by
  unfold bin_shr_i32_u64
  shift_tac

theorem bin_shr_i32_i32_ok : ShrRowBelow 32 true 32 true bin_shr_i32_i32 := by
  unfold bin_shr_i32_i32
  shift_tac

theorem bin_shr_i32_i64_ok : ShrRowBelow 32 true 64 true bin_shr_i32_i64 := by
  unfold bin_shr_i32_i64
  shift_tac

theorem bin_shr_u32_u8_ok : ShrRowBelow 32 false 8 false bin_shr_u32_u8 := by
  unfold bin_shr_u32_u8
  shift_tac

theorem bin_shr_u32_u16_ok : ShrRowBelow 32 false 16 false bin_shr_u32_u16 := by
  unfold bin_shr_u32_u16
  shift_tac

theorem bin_shr_u32_u32_ok : ShrRowBelow 32 false 32 false bin_shr_u32_u32 := by
  unfold bin_shr_u32_u32
  shift_tac

theorem bin_shr_u32_u64_ok : ShrRowBelow 32 false 64 false bin_shr_u32_u64 := by
  unfold bin_shr_u32_u64
  shift_tac

theorem bin_shr_u32_i32_ok : ShrRowBelow 32 false 32 true bin_shr_u32_i32 := by
  unfold bin_shr_u32_i32
  shift_tac

theorem bin_shr_u32_i64_ok : ShrRowBelow 32 false 64 true bin_shr_u32_i64 := by
  unfold bin_shr_u32_i64
  shift_tac

theorem bin_shr_i64_u8_ok : ShrRowBelow 64 true 8 false bin_shr_i64_u8 := by
  unfold bin_shr_i64_u8
  shift_tac

theorem bin_shr_i64_u16_ok : ShrRowBelow 64 true 16 false bin_shr_i64_u16 := by
  unfold bin_shr_i64_u16
  shift_tac

theorem bin_shr_i64_u32_ok : ShrRowBelow 64 true 32 false bin_shr_i64_u32 := by
  unfold bin_shr_i64_u32
  shift_tac

theorem bin_shr_i64_u64_ok : ShrRowBelow 64 true 64 false bin_shr_i64_u64 := by
  unfold bin_shr_i64_u64
  shift_tac

theorem bin_shr_i64_i32_ok : ShrRowBelow 64 true 32 true bin_shr_i64_i32 := by
  unfold bin_shr_i64_i32
  shift_tac

theorem bin_shr_i64_i64_ok : ShrRowBelow 64 true 64 true bin_shr_i64_i64 := by
  unfold bin_shr_i64_i64
  shift_tac

theorem bin_shr_u64_u8_ok : ShrRowBelow 64 false 8 false bin_shr_u64_u8 := by
  unfold bin_shr_u64_u8
  shift_tac

theorem bin_shr_u64_u16_ok : ShrRowBelow 64 false 16 false bin_shr_u64_u16 := by
  unfold bin_shr_u64_u16
  shift_tac

theorem bin_shr_u64_u32_ok : ShrRowBelow 64 false 32 false bin_shr_u64_u32 := by
  unfold bin_shr_u64_u32
  shift_tac

theorem bin_shr_u64_u64_ok : ShrRowBelow 64 false 64 false bin_shr_u64_u64 := by
  unfold bin_shr_u64_u64
  shift_tac

theorem bin_shr_u64_i32_ok : ShrRowBelow 64 false 32 true bin_shr_u64_i32 := by
  unfold bin_shr_u64_i32
  shift_tac

theorem bin_shr_u64_i64_ok : ShrRowBelow 64 false 64 true bin_shr_u64_i64 := by
  unfold bin_shr_u64_i64
  shift_tac

theorem bin_shr_rune_u8_ok : ShrRowBelow 32 true 8 false bin_shr_rune_u8 := by
  unfold bin_shr_rune_u8
  shift_tac

theorem bin_shr_rune_u16_ok : ShrRowBelow 32 true 16 false bin_shr_rune_u16 := by
  unfold bin_shr_rune_u16
  shift_tac

theorem bin_shr_rune_u32_ok : ShrRowBelow 32 true 32 false bin_shr_rune_u32 := by
  unfold bin_shr_rune_u32
  shift_tac

theorem bin_shr_rune_u64_ok : ShrRowBelow 32 true 64 false bin_shr_rune_u64 := by
  unfold bin_shr_rune_u64
  shift_tac

theorem bin_shr_rune_i32_ok : ShrRowBelow 32 true 32 true bin_shr_rune_i32 := by
  unfold bin_shr_rune_i32
  shift_tac

theorem bin_shr_rune_i64_ok : ShrRowBelow 32 true 64 true bin_shr_rune_i64 := by
  unfold bin_shr_rune_i64
  shift_tac

theorem un_sub_u8_ok : NegRow 8 false un_sub_u8 := by
  unfold un_sub_u8
  row_tac

theorem un_sub_u16_ok : NegRow 16 false un_sub_u16 := by
  unfold un_sub_u16
  row_tac

theorem un_sub_i32_ok : NegRow 32 true un_sub_i32 := by
  unfold un_sub_i32
  row_tac

theorem un_sub_u32_ok : NegRow 32 false un_sub_u32 := by
  unfold un_sub_u32
  row_tac

theorem un_sub_i64_ok : NegRow 64 true un_sub_i64 := by
  unfold un_sub_i64
  row_tac

theorem un_sub_u64_ok : NegRow 64 false un_sub_u64 := by
  unfold un_sub_u64
  row_tac

theorem un_sub_rune_ok : NegRow 32 true un_sub_rune := by
  unfold un_sub_rune
  row_tac

theorem un_xor_u8_ok : ComplRow 8 false un_xor_u8 := by
  unfold un_xor_u8
  row_tac

theorem un_xor_u16_ok : ComplRow 16 false un_xor_u16 := by
  unfold un_xor_u16
  row_tac

theorem un_xor_i32_ok : ComplRow 32 true un_xor_i32 := by
  unfold un_xor_i32
  row_tac

theorem un_xor_u32_ok : ComplRow 32 false un_xor_u32 := by
  unfold un_xor_u32
  row_tac

theorem un_xor_i64_ok : ComplRow 64 true un_xor_i64 := by
  unfold un_xor_i64
  row_tac

theorem un_xor_u64_ok : ComplRow 64 false un_xor_u64 := by
  unfold un_xor_u64
  row_tac

theorem un_xor_rune_ok : ComplRow 32 true un_xor_rune := by
  unfold un_xor_rune
  row_tac

theorem un_not_bool_ok : NotRow un_not_bool := by
  unfold un_not_bool
  row_tac

theorem conv_to_u8_u8_ok : ConvRow 8 false 8 false conv_to_u8_u8 := by
  unfold conv_to_u8_u8
  row_tac

theorem conv_to_u8_u16_ok : ConvRow 8 false 16 false conv_to_u8_u16 := by
  unfold conv_to_u8_u16
  row_tac

theorem conv_to_u8_i32_ok : ConvRow 8 false 32 true conv_to_u8_i32 := by
  unfold conv_to_u8_i32
  row_tac

theorem conv_to_u8_u32_ok : ConvRow 8 false 32 false conv_to_u8_u32 := by
  unfold conv_to_u8_u32
  row_tac

theorem conv_to_u8_i64_ok : ConvRow 8 false 64 true conv_to_u8_i64 := by
  unfold conv_to_u8_i64
  row_tac

theorem conv_to_u8_u64_ok : ConvRow 8 false 64 false conv_to_u8_u64 := by
  unfold conv_to_u8_u64
  row_tac

theorem conv_to_u8_rune_ok : ConvRow 8 false 32 true conv_to_u8_rune := by
  unfold conv_to_u8_rune
  row_tac

theorem conv_to_u16_u8_ok : ConvRow 16 false 8 false conv_to_u16_u8 := by
  unfold conv_to_u16_u8
  row_tac

theorem conv_to_u16_u16_ok : ConvRow 16 false 16 false conv_to_u16_u16 := by
  unfold conv_to_u16_u16
  row_tac

theorem conv_to_u16_i32_ok : ConvRow 16 false 32 true conv_to_u16_i32 := by
  unfold conv_to_u16_i32
  row_tac

theorem conv_to_u16_u32_ok : ConvRow 16 false 32 false conv_to_u16_u32 := by
  unfold conv_to_u16_u32
  row_tac

theorem conv_to_u16_i64_ok : ConvRow 16 false 64 true conv_to_u16_i64 := by
  unfold conv_to_u16_i64
  row_tac

theorem conv_to_u16_u64_ok : ConvRow 16 false 64 false conv_to_u16_u64 := by
  unfold conv_to_u16_u64
  row_tac

theorem conv_to_u16_rune_ok : ConvRow 16 false 32 true conv_to_u16_rune := by
  unfold conv_to_u16_rune
  row_tac

theorem conv_to_i32_u8_ok : ConvRow 32 true 8 false conv_to_i32_u8 := by
  unfold conv_to_i32_u8
  row_tac

theorem conv_to_i32_u16_ok : ConvRow 32 true 16 false conv_to_i32_u16 := by
  unfold conv_to_i32_u16
  row_tac

theorem conv_to_i32_i32_ok : ConvRow 32 true 32 true conv_to_i32_i32 := by
  unfold conv_to_i32_i32
  row_tac

theorem conv_to_i32_u32_ok : ConvRow 32 true 32 false conv_to_i32_u32 := by
  unfold conv_to_i32_u32
  row_tac

theorem conv_to_i32_i64_ok : ConvRow 32 true 64 true conv_to_i32_i64 := by
  unfold conv_to_i32_i64
  row_tac

theorem conv_to_i32_u64_ok : ConvRow 32 true 64 false conv_to_i32_u64 := by
  unfold conv_to_i32_u64
  row_tac

theorem conv_to_i32_rune_ok : ConvRow 32 true 32 true conv_to_i32_rune := by
  unfold conv_to_i32_rune
  row_tac

theorem conv_to_u32_u8_ok : ConvRow 32 false 8 false conv_to_u32_u8 := by
  unfold conv_to_u32_u8
  row_tac

theorem conv_to_u32_u16_ok : ConvRow 32 false 16 false conv_to_u32_u16 := by
  unfold conv_to_u32_u16
  row_tac

theorem conv_to_u32_i32_ok : ConvRow 32 false 32 true conv_to_u32_i32 := by
  unfold conv_to_u32_i32
  row_tac

theorem conv_to_u32_u32_ok : ConvRow 32 false 32 false conv_to_u32_u32 := by
  unfold conv_to_u32_u32
  row_tac

theorem conv_to_u32_i64_ok : ConvRow 32 false 64 true conv_to_u32_i64 := by
  unfold conv_to_u32_i64
  row_tac

theorem conv_to_u32_u64_ok : ConvRow 32 false 64 false conv_to_u32_u64 := by
  unfold conv_to_u32_u64
  row_tac

theorem conv_to_u32_rune_ok : ConvRow 32 false 32 true conv_to_u32_rune := by
  unfold conv_to_u32_rune
  row_tac

theorem conv_to_i64_u8_ok : ConvRow 64 true 8 false conv_to_i64_u8 := by
  unfold conv_to_i64_u8
  row_tac

theorem conv_to_i64_u16_ok : ConvRow 64 true 16 false conv_to_i64_u16 := by
  unfold conv_to_i64_u16
  row_tac

theorem conv_to_i64_i32_ok : ConvRow 64 true 32 true conv_to_i64_i32 := by
  unfold conv_to_i64_i32
  row_tac

theorem conv_to_i64_u32_ok : ConvRow 64 true 32 false conv_to_i64_u32 := by
  unfold conv_to_i64_u32
  row_tac

theorem conv_to_i64_i64_ok : ConvRow 64 true 64 true conv_to_i64_i64 := by
  unfold conv_to_i64_i64
  row_tac

theorem conv_to_i64_u64_ok : ConvRow 64 true 64 false conv_to_i64_u64 := by
  unfold conv_to_i64_u64
  row_tac

theorem conv_to_i64_rune_ok : ConvRow 64 true 32 true conv_to_i64_rune := by
  unfold conv_to_i64_rune
  row_tac

theorem conv_to_u64_u8_ok : ConvRow 64 false 8 false conv_to_u64_u8 := by
  unfold conv_to_u64_u8
  row_tac

theorem conv_to_u64_u16_ok : ConvRow 64 false 16 false conv_to_u64_u16 := by
  unfold conv_to_u64_u16
  row_tac

theorem conv_to_u64_i32_ok : ConvRow 64 false 32 true conv_to_u64_i32 := by
  unfold conv_to_u64_i32
  row_tac

theorem conv_to_u64_u32_ok : ConvRow 64 false 32 false conv_to_u64_u32 := by
  unfold conv_to_u64_u32
  row_tac

theorem conv_to_u64_i64_ok : ConvRow 64 false 64 true conv_to_u64_i64 := by
  unfold conv_to_u64_i64
  row_tac

theorem conv_to_u64_u64_ok : ConvRow 64 false 64 false conv_to_u64_u64 := by
  unfold conv_to_u64_u64
  row_tac

theorem conv_to_u64_rune_ok : ConvRow 64 false 32 true conv_to_u64_rune := by
  unfold conv_to_u64_rune
  row_tac

theorem conv_to_rune_u8_ok : ConvRow 32 true 8 false conv_to_rune_u8 := by
  unfold conv_to_rune_u8
  row_tac

theorem conv_to_rune_u16_ok : ConvRow 32 true 16 false conv_to_rune_u16 := by
  unfold conv_to_rune_u16
  row_tac

theorem conv_to_rune_i32_ok : ConvRow 32 true 32 true conv_to_rune_i32 := by
  unfold conv_to_rune_i32
  row_tac

theorem conv_to_rune_u32_ok : ConvRow 32 true 32 false conv_to_rune_u32 := by
  unfold conv_to_rune_u32
  row_tac

theorem conv_to_rune_i64_ok : ConvRow 32 true 64 true conv_to_rune_i64 := by
  unfold conv_to_rune_i64
  row_tac

theorem conv_to_rune_u64_ok : ConvRow 32 true 64 false conv_to_rune_u64 := by
  unfold conv_to_rune_u64
  row_tac

theorem conv_to_rune_rune_ok : ConvRow 32 true 32 true conv_to_rune_rune := by
  unfold conv_to_rune_rune
  row_tac

end WaVerif.C01.Rows
