import WaVerif.Model.C14Hex
/-!
# C14 — encoding/hex: property theorems
The alphabet `hexTable` and the reverse table `hexReverse` are the regenerated ones (Gen/C14Tables.lean);
the table facts are re-decided by the kernel whenever the source tables change.
-/
namespace WaVerif.C14
open WaVerif.C14.Gen

/-- the reverse table inverts the alphabet (decided over the regenerated tables) -/
theorem hex_reverse_inverts_table : ∀ n, n < 16 → hexVal (hexTable.getD n 0) = n := by decide

set_option maxRecDepth 20000 in
/-- the reverse table accepts exactly `0-9a-fA-F` -/
theorem hex_reverse_accepts_iff : ∀ c, c < 256 →
    (hexVal c ≤ 15 ↔ (48 ≤ c ∧ c ≤ 57) ∨ (97 ≤ c ∧ c ≤ 102) ∨ (65 ≤ c ∧ c ≤ 70)) := by decide

theorem hex_encode_length (bs : List Nat) : (hexEncode bs).length = hexEncodedLen bs.length := by
  induction bs with
  | nil => rfl
  | cons b bs ih => simp [hexEncode, hexEncodedLen] at *; omega

/-- round trip: decoding the encoding of any byte string gives it back -/
theorem hex_decode_encode (bs : List Nat) (h : BytesOK bs) : hexDecode (hexEncode bs) = some bs := by
  induction bs with
  | nil => rfl
  | cons b bs ih =>
    have hb : b < 256 := h b (by simp)
    have hrest : BytesOK bs := fun x hx => h x (by simp [hx])
    have h1 := hex_reverse_inverts_table (b / 16) (by omega)
    have h2 := hex_reverse_inverts_table (b % 16) (by omega)
    simp only [hexEncode, hexDecode, h1, h2, ih hrest]
    have : ¬ (b / 16 > 15 ∨ b % 16 > 15) := by omega
    simp only [this, if_false]
    congr 2
    omega

example : BytesOK [0, 171, 255] := by decide
example : hexDecode (hexEncode [0, 171, 255]) = some [0, 171, 255] := by decide

/-- soundness of the decoder: an accepted text has even length, consists of hex digits only, and denotes bytes -/
theorem hex_decode_sound : ∀ (s bs : List Nat), hexDecode s = some bs →
    s.length = 2 * bs.length ∧ (∀ c ∈ s, hexVal c ≤ 15) ∧ BytesOK bs
  | [], bs, h => by
    simp [hexDecode] at h; subst h; simp [BytesOK]
  | [_], bs, h => by simp [hexDecode] at h
  | a :: b :: rest, bs, h => by
    simp only [hexDecode] at h
    split at h
    · simp at h
    · rename_i hv
      split at h
      · simp at h
      · rename_i bs' hd
        simp at h
        subst h
        obtain ⟨hl, hc, hb⟩ := hex_decode_sound rest bs' hd
        refine ⟨by simp [hl]; omega, ?_, ?_⟩
        · intro c hc'
          simp at hc'
          rcases hc' with rfl | rfl | hc'
          · omega
          · omega
          · exact hc c hc'
        · intro x hx
          simp at hx
          rcases hx with rfl | hx
          · omega
          · exact hb x hx

/-- an odd number of characters is always rejected -/
theorem hex_decode_odd_rejected (s : List Nat) (h : s.length % 2 = 1) : hexDecode s = none := by
  cases hd : hexDecode s with
  | none => rfl
  | some bs => have := (hex_decode_sound s bs hd).1; omega

theorem hex_decoded_len (n : Nat) : hexDecodedLen (hexEncodedLen n) = n := by
  simp [hexDecodedLen, hexEncodedLen]

end WaVerif.C14
