import WaVerif.Model.C03Spec
import WaVerif.Gen.C03Templates
import WaVerif.Lemmas.C03Tac
set_option linter.unusedSimpArgs false
/-! One theorem group per regenerated C template (statement fixed by the instruction name). Written by tools/gen_c03_props.py. -/
namespace WaVerif.C03.Rows
open WaVerif WaVerif.Wasm WaVerif.C03 WaVerif.Gen.C03

theorem i64_eq_ok : Full2 CVal.i64 CVal.i64 CVal.i32 (wRel .eq) f_i64_eq := by
  unfold f_i64_eq
  c03_tac

theorem i64_ne_ok : Full2 CVal.i64 CVal.i64 CVal.i32 (wRel .ne) f_i64_ne := by
  unfold f_i64_ne
  c03_tac

theorem i64_lt_s_ok : Full2 CVal.i64 CVal.i64 CVal.i32 (wRel .lt_s) f_i64_lt_s := by
  unfold f_i64_lt_s
  c03_tac

theorem i64_lt_u_ok : Full2 CVal.i64 CVal.i64 CVal.i32 (wRel .lt_u) f_i64_lt_u := by
  unfold f_i64_lt_u
  c03_tac

theorem i64_gt_s_ok : Full2 CVal.i64 CVal.i64 CVal.i32 (wRel .gt_s) f_i64_gt_s := by
  unfold f_i64_gt_s
  c03_tac

theorem i64_gt_u_ok : Full2 CVal.i64 CVal.i64 CVal.i32 (wRel .gt_u) f_i64_gt_u := by
  unfold f_i64_gt_u
  c03_tac

theorem i64_le_s_ok : Full2 CVal.i64 CVal.i64 CVal.i32 (wRel .le_s) f_i64_le_s := by
  unfold f_i64_le_s
  c03_tac

theorem i64_le_u_ok : Full2 CVal.i64 CVal.i64 CVal.i32 (wRel .le_u) f_i64_le_u := by
  unfold f_i64_le_u
  c03_tac

theorem i64_ge_s_ok : Full2 CVal.i64 CVal.i64 CVal.i32 (wRel .ge_s) f_i64_ge_s := by
  unfold f_i64_ge_s
  c03_tac

theorem i64_ge_u_ok : Full2 CVal.i64 CVal.i64 CVal.i32 (wRel .ge_u) f_i64_ge_u := by
  unfold f_i64_ge_u
  c03_tac

theorem i64_eqz_ok : Full1 CVal.i64 CVal.i32 wEqz f_i64_eqz := by
  unfold f_i64_eqz
  c03_tac

theorem i64_clz_ok : Full1 CVal.i64 CVal.i64 (wUn .clz) f_i64_clz := by
  unfold f_i64_clz
  c03_tac

theorem i64_ctz_ok : Full1 CVal.i64 CVal.i64 (wUn .ctz) f_i64_ctz := by
  unfold f_i64_ctz
  c03_tac

theorem i64_popcnt_ok : Full1 CVal.i64 CVal.i64 (wUn .popcnt) f_i64_popcnt := by
  unfold f_i64_popcnt
  c03_tac

end WaVerif.C03.Rows
