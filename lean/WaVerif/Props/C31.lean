import WaVerif.Model.C31
namespace WaVerif.C31
open WaVerif.Wasm

theorem exec_deterministic (loc : List Val) (c : List Instr) (s : State) (r1 r2 : Res State)
    (h1 : exec loc c s = r1) (h2 : exec loc c s = r2) : r1 = r2 := by
  rw [← h1, ← h2]

end WaVerif.C31
