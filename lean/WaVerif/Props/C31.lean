import WaVerif.Lemmas.C31
/-!
# C31 — theorems about the REFERENCE semantics (not about wazero)

The property itself ("the embedded engine behaves like an independent engine") is decided by three-way translation
validation in `checks/c31.py`.  The theorems below make the reference side trustworthy: they show that the executable
specification `Base/WasmNum.lean` + `Model/C31.lean` has the properties the WebAssembly specification states for the
integer and linear-memory instructions.  Every `theorem` here is an obligation of the check and is axiom-audited.
-/
namespace WaVerif.C31
open WaVerif.Wasm

/-! ## numeric instructions (spec §4.3.2) -/

/-- `rotr (rotl x k) k = x`, both widths, any count -/
theorem rotr_rotl32 (x k : BitVec 32) : (binop .rotl x k).bind (fun r => binop .rotr r k) = some x := by
  simp [binop, rotateRight_rotateLeft]

theorem rotr_rotl64 (x k : BitVec 64) : (binop .rotl x k).bind (fun r => binop .rotr r k) = some x := by
  simp [binop, rotateRight_rotateLeft]

/-- `div_s` traps exactly on a zero divisor and on (min, -1) -/
theorem div_s_trap_iff {w : Nat} (x y : BitVec w) :
    binop .div_s x y = none ↔ (y = 0 ∨ (x = BitVec.intMin w ∧ y = -1)) := by
  unfold binop
  by_cases h1 : y = 0
  · simp [h1]
  · by_cases h2 : x = BitVec.intMin w ∧ y = -1
    · simp_all
    · simp_all

/-- when it does not trap, `div_s` is the quotient truncated toward zero -/
theorem div_s_trunc {w : Nat} (x y r : BitVec w) (h : binop .div_s x y = some r) : r.toInt = x.toInt.tdiv y.toInt := by
  unfold binop at h
  by_cases h1 : y = 0
  · simp [h1] at h
  · by_cases h2 : x = BitVec.intMin w ∧ y = -1
    · simp [h2] at h
    · simp only [h1, h2, if_false, Option.some.injEq] at h
      subst h
      apply BitVec.toInt_sdiv_of_ne_or_ne
      by_cases h3 : x = BitVec.intMin w
      · right; intro h4; exact h2 ⟨h3, by simpa using h4⟩
      · left; exact h3

example : binop .div_s (-7 : BitVec 32) 2 = some (-3) := by decide

theorem rem_s_trap_iff {w : Nat} (x y : BitVec w) : binop .rem_s x y = none ↔ y = 0 := by
  unfold binop
  by_cases h1 : y = 0 <;> simp [h1]

/-- `rem_s` is the truncated remainder: it has the sign of the dividend (or is zero) -/
theorem rem_s_sign {w : Nat} (x y r : BitVec w) (h : binop .rem_s x y = some r) :
    r.toInt = x.toInt.tmod y.toInt ∧ (0 ≤ x.toInt → 0 ≤ r.toInt) ∧ (x.toInt ≤ 0 → r.toInt ≤ 0) := by
  unfold binop at h
  by_cases h1 : y = 0
  · simp [h1] at h
  · simp only [h1, if_false, Option.some.injEq] at h
    subst h
    rw [BitVec.toInt_srem]
    refine ⟨rfl, fun hx => Int.tmod_nonneg _ hx, fun hx => ?_⟩
    have := Int.tmod_nonneg (y.toInt) (a := -x.toInt) (by omega)
    rw [Int.neg_tmod] at this
    omega

example : binop .rem_s (-7 : BitVec 32) 2 = some (-1) := by decide

/-- `rem_s` never overflows: (min, -1) is 0, not a trap -/
theorem rem_s_min_neg_one : binop .rem_s (BitVec.intMin 32) (-1#32) = some 0#32 ∧
    binop .rem_s (BitVec.intMin 64) (-1#64) = some 0#64 := by decide

/-- shifts and rotations use the count modulo the width -/
theorem shl_count_mod32 (k : BinK) (hk : isShift k = true) (x y : BitVec 32) : binop k x y = binop k x (y &&& 31#32) := by
  have h : y.toNat &&& 31 = y.toNat % 32 := Nat.and_two_pow_sub_one_eq_mod y.toNat 5
  cases k <;> simp [isShift] at hk <;> simp [binop, BitVec.toNat_and, h]

theorem shl_count_mod64 (k : BinK) (hk : isShift k = true) (x y : BitVec 64) : binop k x y = binop k x (y &&& 63#64) := by
  have h : y.toNat &&& 63 = y.toNat % 64 := Nat.and_two_pow_sub_one_eq_mod y.toNat 6
  cases k <;> simp [isShift] at hk <;> simp [binop, BitVec.toNat_and, h]

example : isShift .shr_s = true := rfl
example : binop .shl (5 : BitVec 32) 33 = some 10 := by decide

theorem clz_eq_width_iff32 (x : BitVec 32) : unop .clz x = 32#32 ↔ x = 0 := by
  have h1 := @BitVec.clz_lt_iff_ne_zero 32 x
  simp only [unop]
  constructor
  · intro h
    by_cases hx : x = 0
    · exact hx
    · have := h1.mpr hx
      rw [h] at this
      simp at this
  · intro h; subst h; decide

theorem clz_eq_width_iff64 (x : BitVec 64) : unop .clz x = 64#64 ↔ x = 0 := by
  have h1 := @BitVec.clz_lt_iff_ne_zero 64 x
  simp only [unop]
  constructor
  · intro h
    by_cases hx : x = 0
    · exact hx
    · have := h1.mpr hx
      rw [h] at this
      simp at this
  · intro h; subst h; decide

/-- count-trailing-zeros returns the width exactly for zero (both widths) -/
theorem ctz_eq_width_iff {w : Nat} (hw : w = 32 ∨ w = 64) (x : BitVec w) : unop .ctz x = BitVec.ofNat w w ↔ x = 0 := by
  simp only [unop, Wasm.ctz]
  have hle := ctzGo_le x w 0
  have hlt : w < 2 ^ w := by rcases hw with h | h <;> subst h <;> decide
  constructor
  · intro h
    have h2 : ctzGo x w 0 = 0 + w := by
      have := congrArg BitVec.toNat h
      simp only [BitVec.toNat_ofNat] at this
      rw [Nat.mod_eq_of_lt (by omega), Nat.mod_eq_of_lt hlt] at this
      omega
    have h3 := (ctzGo_eq_iff x w 0).mp h2
    apply BitVec.eq_of_getLsbD_eq
    intro i hi
    simp [h3 i (by omega) (by omega)]
  · intro h
    subst h
    have : ctzGo (0 : BitVec w) w 0 = 0 + w := (ctzGo_eq_iff _ w 0).mpr (by intro i _ _; simp)
    rw [this]; simp

example : unop .ctz (8 : BitVec 32) = 3 := by decide

/-! ## conversions -/

theorem wrap_extend_s (loc : List Val) (x : BitVec 32) (st : List Val) (m : Mem) :
    exec loc [.num .extend_i32_s, .num .wrap_i64] (.i32 x :: st, m) = .ok (.i32 x :: st, m) := by
  simp [exec, step, stepNum, popI32, popI64, Res.bind, setWidth_signExtend32]

theorem wrap_extend_u (loc : List Val) (x : BitVec 32) (st : List Val) (m : Mem) :
    exec loc [.num .extend_i32_u, .num .wrap_i64] (.i32 x :: st, m) = .ok (.i32 x :: st, m) := by
  simp [exec, step, stepNum, popI32, popI64, Res.bind, setWidth_setWidth32]

/-- extending a wrapped value keeps exactly the low 32 bits -/
theorem extend_u_wrap (loc : List Val) (y : BitVec 64) (st : List Val) (m : Mem) :
    exec loc [.num .wrap_i64, .num .extend_i32_u] (.i64 y :: st, m) = .ok (.i64 (y &&& 0xffffffff#64) :: st, m) := by
  simp [exec, step, stepNum, popI32, popI64, Res.bind, setWidth64_setWidth32]


/-! ## the machine: agreement with the shared base specification, determinism, compositionality, totality on typed code -/

/-- the trap-cause-annotated numeric step agrees with the shared base specification (`Wasm.step`, used by C01):
same result stack when it succeeds, `none` exactly when it traps or is stuck -/
theorem stepNum_eq_base (loc : List Val) (i : Wasm.Instr) (st : List Val) :
    (stepNum loc i st).toOption = Wasm.step loc i st := by
  cases i with
  | const32 v => rfl
  | const64 v => rfl
  | localGet k =>
    simp only [stepNum, Wasm.step]
    cases loc[k]? <;> rfl
  | bin t k =>
    cases t <;> rcases st with _ | ⟨(y | y), _ | ⟨(x | x), st⟩⟩ <;>
      simp [stepNum, Wasm.step, pop32, pop64, popI32, popI64, Res.toOption, Res.bind] <;>
      cases binop k x y <;> simp [ofOpt, Res.bind, Res.toOption]
  | rel t k =>
    cases t <;> rcases st with _ | ⟨(y | y), _ | ⟨(x | x), st⟩⟩ <;>
      simp [stepNum, Wasm.step, pop32, pop64, popI32, popI64, Res.toOption, Res.bind]
  | eqz t =>
    cases t <;> rcases st with _ | ⟨(x | x), st⟩ <;> simp [stepNum, Wasm.step, pop32, pop64, popI32, popI64, Res.toOption, Res.bind]
  | un t k =>
    cases t <;> rcases st with _ | ⟨(x | x), st⟩ <;> simp [stepNum, Wasm.step, pop32, pop64, popI32, popI64, Res.toOption, Res.bind]
  | wrap_i64 => rcases st with _ | ⟨(x | x), st⟩ <;> simp [stepNum, Wasm.step, pop32, pop64, popI32, popI64, Res.toOption, Res.bind]
  | extend_i32_s => rcases st with _ | ⟨(x | x), st⟩ <;> simp [stepNum, Wasm.step, pop32, pop64, popI32, popI64, Res.toOption, Res.bind]
  | extend_i32_u => rcases st with _ | ⟨(x | x), st⟩ <;> simp [stepNum, Wasm.step, pop32, pop64, popI32, popI64, Res.toOption, Res.bind]
  | drop => rcases st with _ | ⟨x, st⟩ <;> simp [stepNum, Wasm.step, popAny, Res.toOption, Res.bind]

/-- the reference is a function of (locals, code, state): one outcome -/
theorem exec_deterministic (loc : List Val) (c : List Instr) (s : State) (r1 r2 : Res State)
    (h1 : exec loc c s = r1) (h2 : exec loc c s = r2) : r1 = r2 := by
  rw [← h1, ← h2]

theorem exec_append (loc : List Val) (c1 c2 : List Instr) (s : State) :
    exec loc (c1 ++ c2) s = (exec loc c1 s).bind (exec loc c2) := by
  induction c1 generalizing s with
  | nil => rfl
  | cons i r ih =>
    simp only [List.cons_append, exec]
    cases step loc i s with
    | ok s' => simp only [Res.bind]; exact ih s'
    | trap k => rfl
    | stuck => rfl

theorem stepNum_progress (loc : List Val) (i : Wasm.Instr) (st : List Val) (ts' : List Ty)
    (h : tyNum (loc.map valTy) i (st.map valTy) = some ts') :
    (∃ st', stepNum loc i st = .ok st' ∧ st'.map valTy = ts') ∨ (∃ k, stepNum loc i st = .trap k) := by
  cases i with
  | const32 v => left; simp [tyNum] at h; exact ⟨_, rfl, by simp [valTy, h]⟩
  | const64 v => left; simp [tyNum] at h; exact ⟨_, rfl, by simp [valTy, h]⟩
  | localGet k =>
    left
    simp only [tyNum, List.getElem?_map] at h
    simp only [stepNum]
    cases hk : loc[k]? with
    | none => simp [hk] at h
    | some v => simp [hk] at h; exact ⟨_, rfl, by simp [h]⟩
  | bin t k =>
    cases t <;> rcases st with _ | ⟨(y | y), _ | ⟨(x | x), st⟩⟩ <;> simp [tyNum, tpop, valTy] at h <;>
      simp only [stepNum, popI32, popI64, Res.bind] <;>
      (cases binop k x y with
        | none => right; exact ⟨_, rfl⟩
        | some r => left; exact ⟨_, rfl, by simp [valTy, h]⟩)
  | rel t k =>
    cases t <;> rcases st with _ | ⟨(y | y), _ | ⟨(x | x), st⟩⟩ <;> simp [tyNum, tpop, valTy] at h <;>
      (left; exact ⟨_, rfl, by simp [valTy, h]⟩)
  | eqz t =>
    cases t <;> rcases st with _ | ⟨(x | x), st⟩ <;> simp [tyNum, tpop, valTy] at h <;>
      (left; exact ⟨_, rfl, by simp [valTy, h]⟩)
  | un t k =>
    cases t <;> rcases st with _ | ⟨(x | x), st⟩ <;> simp [tyNum, tpop, valTy] at h <;>
      (left; exact ⟨_, rfl, by simp [valTy, h]⟩)
  | wrap_i64 =>
    rcases st with _ | ⟨(x | x), st⟩ <;> simp [tyNum, tpop, valTy] at h <;> (left; exact ⟨_, rfl, by simp [valTy, h]⟩)
  | extend_i32_s =>
    rcases st with _ | ⟨(x | x), st⟩ <;> simp [tyNum, tpop, valTy] at h <;> (left; exact ⟨_, rfl, by simp [valTy, h]⟩)
  | extend_i32_u =>
    rcases st with _ | ⟨(x | x), st⟩ <;> simp [tyNum, tpop, valTy] at h <;> (left; exact ⟨_, rfl, by simp [valTy, h]⟩)
  | drop =>
    rcases st with _ | ⟨x, st⟩ <;> simp [tyNum] at h
    left; exact ⟨_, rfl, h⟩



theorem valTy_mkVal (t : Ty) (sx : Bool) (n raw : Nat) : valTy (mkVal t sx n raw) = t := by
  cases t <;> rfl

/-- progress + preservation for one instruction: on an operand stack of the types validation requires,
the reference never gets stuck — it steps to a stack of the validated result types, or traps -/
theorem step_progress (loc : List Val) (i : Instr) (st : List Val) (m : Mem) (ts' : List Ty)
    (h : tyStep (loc.map valTy) i (st.map valTy) = some ts') :
    (∃ st' m', step loc i (st, m) = .ok (st', m') ∧ st'.map valTy = ts' ∧ m'.maxPages = m.maxPages) ∨
      (∃ k, step loc i (st, m) = .trap k) := by
  cases i with
  | num i =>
    simp only [tyStep] at h
    rcases stepNum_progress loc i st ts' h with ⟨st', h1, h2⟩ | ⟨k, h1⟩
    · left; exact ⟨st', m, by simp [step, h1, Res.bind], h2, rfl⟩
    · right; exact ⟨k, by simp [step, h1, Res.bind]⟩
  | select =>
    rcases st with _ | ⟨(c | c), _ | ⟨(v2 | v2), _ | ⟨(v1 | v1), st⟩⟩⟩ <;> simp [tyStep, tpop, valTy] at h <;>
      (left; by_cases hc : c = 0#32 <;> simp only [step, popI32, popAny, Res.bind, valTy, if_true] <;>
        exact ⟨_, _, rfl, by simp [valTy, hc, h], rfl⟩)
  | load t n sx off =>
    rcases st with _ | ⟨(a | a), st⟩ <;> simp [tyStep, tpop, valTy] at h
    obtain ⟨hw, h⟩ := h
    by_cases hb : a.toNat + off + n > m.size
    · right; exact ⟨.oob, by simp [step, popI32, Res.bind, hw, hb]⟩
    · left; simp only [step, popI32, Res.bind, hw, hb, Bool.not_true, Bool.false_eq_true, if_false]
      exact ⟨_, _, rfl, by simp [valTy_mkVal, h], rfl⟩
  | store t n off =>
    cases t <;> rcases st with _ | ⟨(v | v), _ | ⟨(a | a), st⟩⟩ <;> simp [tyStep, tpop, valTy] at h <;>
      (obtain ⟨hw, h⟩ := h
       by_cases hb : a.toNat + off + n > m.size
       · right; exact ⟨.oob, by simp [step, popI32, popAny, Res.bind, hw, valTy, hb]⟩
       · left; simp only [step, popI32, popAny, Res.bind, hw, valTy, hb, Bool.not_true, bne_self_eq_false, Bool.or_self,
           Bool.false_eq_true, if_false]
         exact ⟨_, _, rfl, h, rfl⟩)
  | memSize =>
    simp [tyStep] at h
    left; exact ⟨_, m, rfl, by simp [valTy, h], rfl⟩
  | memGrow =>
    rcases st with _ | ⟨(d | d), st⟩ <;> simp [tyStep, tpop, valTy] at h
    left
    by_cases hg : m.pages + d.toNat ≤ m.maxPages <;> simp only [step, popI32, Res.bind, hg, if_true, if_false] <;>
      exact ⟨_, _, rfl, by simp [valTy, h], rfl⟩
  | memFill =>
    rcases st with _ | ⟨(n | n), _ | ⟨(v | v), _ | ⟨(d | d), st⟩⟩⟩ <;> simp [tyStep, tpop, valTy] at h
    by_cases hb : d.toNat + n.toNat > m.size
    · right; exact ⟨.oob, by simp [step, popI32, Res.bind, hb]⟩
    · left; simp only [step, popI32, Res.bind, hb, if_false]
      exact ⟨_, _, rfl, h, rfl⟩
  | memCopy =>
    rcases st with _ | ⟨(n | n), _ | ⟨(s | s), _ | ⟨(d | d), st⟩⟩⟩ <;> simp [tyStep, tpop, valTy] at h
    by_cases hb : s.toNat + n.toNat > m.size ∨ d.toNat + n.toNat > m.size
    · right; exact ⟨.oob, by simp [step, popI32, Res.bind, hb]⟩
    · left
      have hb' : (decide (s.toNat + n.toNat > m.size) || decide (d.toNat + n.toNat > m.size)) = false := by simpa using hb
      simp only [step, popI32, Res.bind, hb', Bool.false_eq_true, if_false]
      exact ⟨_, _, rfl, h, rfl⟩

/-- validated straight-line code is total: it ends in a state whose stack has the validated types, or in a trap; never stuck -/
theorem exec_total (loc : List Val) (c : List Instr) (st : List Val) (m : Mem) (ts' : List Ty)
    (h : tyExec (loc.map valTy) c (st.map valTy) = some ts') :
    (∃ st' m', exec loc c (st, m) = .ok (st', m') ∧ st'.map valTy = ts') ∨ (∃ k, exec loc c (st, m) = .trap k) := by
  induction c generalizing st m with
  | nil =>
    left; simp only [tyExec, Option.some.injEq] at h
    exact ⟨st, m, rfl, h⟩
  | cons i r ih =>
    simp only [tyExec] at h
    cases hs : tyStep (loc.map valTy) i (st.map valTy) with
    | none => simp [hs] at h
    | some ts1 =>
      simp only [hs, Option.bind_some] at h
      rcases step_progress loc i st m ts1 hs with ⟨st1, m1, h1, h2, _⟩ | ⟨k, h1⟩
      · simp only [exec, h1, Res.bind]
        exact ih st1 m1 (by rw [h2]; exact h)
      · right; exact ⟨k, by simp [exec, h1, Res.bind]⟩

example : tyExec [.i32, .i32] [.num (.localGet 0), .num (.localGet 1), .num (.bin .i32 .div_s)] [] = some [.i32] := by decide

/-! ## linear memory (spec §4.4.7) -/

/-- a load traps exactly when `addr + offset + width > size` (no wrap-around of the effective address), and only with `oob` -/
theorem load_trap_iff (loc : List Val) (t : Ty) (n off : Nat) (sx : Bool) (a : BitVec 32) (st : List Val) (m : Mem) (k : TrapK)
    (hw : widthOk t n = true) :
    step loc (.load t n sx off) (.i32 a :: st, m) = .trap k ↔ (k = .oob ∧ a.toNat + off + n > m.size) := by
  simp only [step, popI32, Res.bind, hw, Bool.not_true, Bool.false_eq_true, if_false]
  by_cases h : a.toNat + off + n > m.size
  · simp [h]; exact eq_comm
  · simp [h]

theorem store_trap_iff (loc : List Val) (t : Ty) (n off : Nat) (a : BitVec 32) (v : Val) (st : List Val) (m : Mem) (k : TrapK)
    (hw : widthOk t n = true) (hv : valTy v = t) :
    step loc (.store t n off) (v :: .i32 a :: st, m) = .trap k ↔ (k = .oob ∧ a.toNat + off + n > m.size) := by
  simp only [step, popI32, popAny, Res.bind, hw, hv, Bool.not_true, bne_self_eq_false, Bool.or_self, Bool.false_eq_true, if_false]
  by_cases h : a.toNat + off + n > m.size
  · simp [h]; exact eq_comm
  · simp [h]

example : widthOk .i64 4 = true ∧ valTy (.i64 5) = .i64 := by decide

/-- store then load at the same address and width returns the stored value truncated to the width and
zero- / sign-extended (see `load_after_store_i32/_i64` for the register contents); the memory size is unchanged -/
theorem load_after_store (loc : List Val) (t : Ty) (n off : Nat) (sx : Bool) (a : BitVec 32) (v : Val) (st : List Val) (m : Mem)
    (hw : widthOk t n = true) (hv : valTy v = t) (hb : a.toNat + off + n ≤ m.size) :
    ∃ m', step loc (.store t n off) (v :: .i32 a :: st, m) = .ok (st, m') ∧ m'.size = m.size ∧ m'.maxPages = m.maxPages ∧
      step loc (.load t n sx off) (.i32 a :: st, m') = .ok (mkVal t sx n (valNat v % 256 ^ n) :: st, m') := by
  have hnb : ¬ (a.toNat + off + n > m.size) := by omega
  refine ⟨{ m with bytes := writeLE m.bytes (a.toNat + off) n (valNat v) }, ?_, ?_, rfl, ?_⟩
  · simp [step, popI32, popAny, Res.bind, hw, hv, hnb]
  · simp [Mem.size, writeLE_size]
  · simp only [step, popI32, Res.bind, hw, Bool.not_true, Bool.false_eq_true, if_false, Mem.size, writeLE_size]
    simp only [Mem.size] at hnb hb
    simp only [hnb, if_false]
    rw [readLE_writeLE _ _ _ _ (by omega)]

example : (0 : BitVec 32).toNat + 65528 + 8 ≤ 65536 := by decide

theorem load_after_store_i32 (n : Nat) (sx : Bool) (x : BitVec 32) :
    mkVal .i32 sx n (valNat (.i32 x) % 256 ^ n) =
      .i32 (if sx then (x.setWidth (8 * n)).signExtend 32 else (x.setWidth (8 * n)).setWidth 32) := by
  simp only [mkVal, valNat, extendNat_mod]

theorem load_after_store_i64 (n : Nat) (sx : Bool) (x : BitVec 64) :
    mkVal .i64 sx n (valNat (.i64 x) % 256 ^ n) =
      .i64 (if sx then (x.setWidth (8 * n)).signExtend 64 else (x.setWidth (8 * n)).setWidth 64) := by
  simp only [mkVal, valNat, extendNat_mod]

/-- full-width store / load is the identity -/
theorem load_after_store_full : (∀ (x : BitVec 32) (sx : Bool), mkVal .i32 sx 4 (valNat (.i32 x) % 256 ^ 4) = .i32 x) ∧
    (∀ (x : BitVec 64) (sx : Bool), mkVal .i64 sx 8 (valNat (.i64 x) % 256 ^ 8) = .i64 x) := by
  constructor
  · intro x sx; rw [load_after_store_i32]; cases sx <;> simp
  · intro x sx; rw [load_after_store_i64]; cases sx <;> simp

/-- a store changes no byte outside `[ea, ea+n)` and never the size -/
theorem store_frame (loc : List Val) (t : Ty) (n off : Nat) (a : BitVec 32) (v : Val) (st st' : List Val) (m m' : Mem) (i : Nat)
    (h : step loc (.store t n off) (v :: .i32 a :: st, m) = .ok (st', m'))
    (hi : i < a.toNat + off ∨ a.toNat + off + n ≤ i) : m'.bytes.getD i 0 = m.bytes.getD i 0 ∧ m'.size = m.size := by
  simp only [step, popI32, popAny, Res.bind] at h
  split at h
  · cases h
  · split at h
    · cases h
    · cases h
      exact ⟨writeLE_frame _ _ _ _ _ hi, by simp [Mem.size, writeLE_size]⟩

/-- little-endian: the byte at `ea + j` is byte `j` of the value -/
theorem writeLE_byte (b : Array (BitVec 8)) (ea n v j : Nat) (h : ea + n ≤ b.size) (hj : j < n) :
    ((writeLE b ea n v).getD (ea + j) 0).toNat = v / 256 ^ j % 256 := by
  induction n generalizing b ea v j with
  | zero => omega
  | succ n ih =>
    simp only [writeLE]
    cases j with
    | zero =>
      rw [Nat.add_zero, writeLE_frame _ _ _ _ _ (by omega), getD_setIfInBounds]
      have : ea < b.size := by omega
      simp [this]
    | succ j =>
      have := ih (b.setIfInBounds ea (BitVec.ofNat 8 v)) (ea + 1) (v / 256) j (by simp; omega) (by omega)
      rw [show ea + (j + 1) = ea + 1 + j by omega, this, Nat.pow_succ', Nat.div_div_eq_div_mul]

theorem fill_trap_iff (loc : List Val) (d v n : BitVec 32) (st : List Val) (m : Mem) (k : TrapK) :
    step loc .memFill (.i32 n :: .i32 v :: .i32 d :: st, m) = .trap k ↔ (k = .oob ∧ d.toNat + n.toNat > m.size) := by
  simp only [step, popI32, Res.bind]
  by_cases h : d.toNat + n.toNat > m.size
  · simp [h]; exact eq_comm
  · simp [h]

/-- `memory.fill d v n` in bounds: bytes `[d, d+n)` become the LOW BYTE of `v`, everything else is unchanged -/
theorem fill_spec (loc : List Val) (d v n : BitVec 32) (st : List Val) (m : Mem) (h : d.toNat + n.toNat ≤ m.size) :
    ∃ m', step loc .memFill (.i32 n :: .i32 v :: .i32 d :: st, m) = .ok (st, m') ∧ m'.size = m.size ∧
      ∀ i, m'.bytes.getD i 0 = if d.toNat ≤ i ∧ i < d.toNat + n.toNat then v.setWidth 8 else m.bytes.getD i 0 := by
  have hn : ¬ (d.toNat + n.toNat > m.size) := by omega
  refine ⟨{ m with bytes := fillBytes m.bytes d.toNat (v.setWidth 8) n.toNat }, by simp [step, popI32, Res.bind, hn],
    by simp [Mem.size, fillBytes_size], fun i => ?_⟩
  exact fillBytes_getD _ _ _ _ _ h

theorem copy_trap_iff (loc : List Val) (d s n : BitVec 32) (st : List Val) (m : Mem) (k : TrapK) :
    step loc .memCopy (.i32 n :: .i32 s :: .i32 d :: st, m) = .trap k ↔
      (k = .oob ∧ (s.toNat + n.toNat > m.size ∨ d.toNat + n.toNat > m.size)) := by
  simp only [step, popI32, Res.bind]
  by_cases h : s.toNat + n.toNat > m.size ∨ d.toNat + n.toNat > m.size
  · simp [h]; exact eq_comm
  · simp [h]

/-- `memory.copy d s n` in bounds: byte `d+j` becomes the OLD byte `s+j` for every `j < n`, also when the ranges overlap -/
theorem copy_spec (loc : List Val) (d s n : BitVec 32) (st : List Val) (m : Mem)
    (h1 : s.toNat + n.toNat ≤ m.size) (h2 : d.toNat + n.toNat ≤ m.size) :
    ∃ m', step loc .memCopy (.i32 n :: .i32 s :: .i32 d :: st, m) = .ok (st, m') ∧ m'.size = m.size ∧
      ∀ i, m'.bytes.getD i 0 = if d.toNat ≤ i ∧ i < d.toNat + n.toNat then m.bytes.getD (s.toNat + (i - d.toNat)) 0
                               else m.bytes.getD i 0 := by
  have hn : ¬ (s.toNat + n.toNat > m.size ∨ d.toNat + n.toNat > m.size) := by omega
  refine ⟨{ m with bytes := copyBytes m.bytes d.toNat s.toNat n.toNat }, by simp [step, popI32, Res.bind, hn],
    by simp [Mem.size, copyBytes, writeList_size], fun i => ?_⟩
  exact copyBytes_getD _ _ _ _ _ h2

/-- `memory.grow` within the limit: returns the old page count, appends zero pages, keeps the old contents -/
theorem grow_ok (loc : List Val) (d : BitVec 32) (st : List Val) (m : Mem) (h : m.pages + d.toNat ≤ m.maxPages)
    (hp : m.size = m.pages * pageSize) :
    ∃ m', step loc .memGrow (.i32 d :: st, m) = .ok (.i32 (BitVec.ofNat 32 m.pages) :: st, m') ∧
      m'.pages = m.pages + d.toNat ∧ m'.maxPages = m.maxPages ∧
      (∀ i, i < m.size → m'.bytes.getD i 0 = m.bytes.getD i 0) ∧ (∀ i, m.size ≤ i → m'.bytes.getD i 0 = 0) := by
  refine ⟨{ m with bytes := m.bytes ++ Array.replicate (d.toNat * pageSize) 0 }, ?_, ?_, rfl, ?_, ?_⟩
  · simp [step, popI32, Res.bind, h]
  · simp only [Mem.pages, Mem.size, Array.size_append, Array.size_replicate] at *
    rw [hp]
    have : 0 < pageSize := by decide
    rw [← Nat.add_mul, Nat.mul_div_cancel _ this, Nat.mul_div_cancel _ this]
  · intro i hi
    simp only [Mem.size] at hi
    simp [Array.getD_eq_getD_getElem?, Array.getElem?_append, hi]
  · intro i hi
    simp only [Mem.size] at hi
    have : ¬ i < m.bytes.size := by omega
    simp only [Array.getD_eq_getD_getElem?, Array.getElem?_append, this, if_false]
    by_cases h2 : i - m.bytes.size < d.toNat * pageSize <;> simp [h2]

/-- `memory.grow` beyond the limit: returns -1 and changes nothing (in particular the memory never shrinks) -/
theorem grow_fail (loc : List Val) (d : BitVec 32) (st : List Val) (m : Mem) (h : m.pages + d.toNat > m.maxPages) :
    step loc .memGrow (.i32 d :: st, m) = .ok (.i32 0xffffffff#32 :: st, m) := by
  have : ¬ (m.pages + d.toNat ≤ m.maxPages) := by omega
  simp [step, popI32, Res.bind, this]

example : (⟨#[], 4⟩ : Mem).pages + (0xffffffff#32).toNat > 4 := by decide
example : (⟨#[], 4⟩ : Mem).pages + (3#32).toNat ≤ 4 ∧ (⟨#[], 4⟩ : Mem).size = (⟨#[], 4⟩ : Mem).pages * pageSize := by decide

end WaVerif.C31
