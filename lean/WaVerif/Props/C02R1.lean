import WaVerif.Model.C02Spec
import WaVerif.Gen.C02Templates
import WaVerif.Lemmas.C02Tac
set_option linter.unusedSimpArgs false
set_option linter.unusedVariables false
set_option maxRecDepth 4000
/-! One theorem per row of the regenerated x86-64 template table (statement fixed by the instruction name). -/
namespace WaVerif.C02.Rows
open WaVerif WaVerif.X64 WaVerif.C02 WaVerif.Gen.C02

theorem i32_sub_ok : BinRow32 .sub i32_sub := by
  refine ⟨by decide, ?_⟩
  intro s
  obtain ⟨rax, rcx, rdx, rbx, rsi, rdi, r8, r9, r10, r11, r12, r13, r14, r15, flags, slots, stk⟩ := s
  unfold i32_sub
  x64_simp
  x64_finish

theorem i32_and_ok : BinRow32 .and i32_and := by
  refine ⟨by decide, ?_⟩
  intro s
  obtain ⟨rax, rcx, rdx, rbx, rsi, rdi, r8, r9, r10, r11, r12, r13, r14, r15, flags, slots, stk⟩ := s
  unfold i32_and
  x64_simp
  x64_finish

theorem i32_xor_ok : BinRow32 .xor i32_xor := by
  refine ⟨by decide, ?_⟩
  intro s
  obtain ⟨rax, rcx, rdx, rbx, rsi, rdi, r8, r9, r10, r11, r12, r13, r14, r15, flags, slots, stk⟩ := s
  unfold i32_xor
  x64_simp
  x64_finish

theorem i32_shr_s_ok : BinRow32 .shr_s i32_shr_s := by
  refine ⟨by decide, ?_⟩
  intro s
  obtain ⟨rax, rcx, rdx, rbx, rsi, rdi, r8, r9, r10, r11, r12, r13, r14, r15, flags, slots, stk⟩ := s
  unfold i32_shr_s
  x64_simp
  x64_finish

theorem i32_rotl_ok : BinRow32 .rotl i32_rotl := by
  refine ⟨by decide, ?_⟩
  intro s
  obtain ⟨rax, rcx, rdx, rbx, rsi, rdi, r8, r9, r10, r11, r12, r13, r14, r15, flags, slots, stk⟩ := s
  unfold i32_rotl
  x64_simp
  x64_finish

theorem i32_lt_s_ok : RelRow32 .lt_s i32_lt_s := by
  refine ⟨by decide, ?_⟩
  intro s
  obtain ⟨rax, rcx, rdx, rbx, rsi, rdi, r8, r9, r10, r11, r12, r13, r14, r15, flags, slots, stk⟩ := s
  unfold i32_lt_s
  x64_simp
  x64_finish

theorem i32_le_s_ok : RelRow32 .le_s i32_le_s := by
  refine ⟨by decide, ?_⟩
  intro s
  obtain ⟨rax, rcx, rdx, rbx, rsi, rdi, r8, r9, r10, r11, r12, r13, r14, r15, flags, slots, stk⟩ := s
  unfold i32_le_s
  x64_simp
  x64_finish

theorem i32_ctz_ok : UnRow32 .ctz i32_ctz := by
  intro s
  obtain ⟨rax, rcx, rdx, rbx, rsi, rdi, r8, r9, r10, r11, r12, r13, r14, r15, flags, slots, stk⟩ := s
  unfold i32_ctz
  x64_simp
  x64_finish

theorem i64_div_u_ok : BinRow64 .div_u i64_div_u := by
  refine ⟨by decide, ?_⟩
  intro s
  by_cases hd : s.slots i64_div_u.y = 0#64
  · obtain ⟨rax, rcx, rdx, rbx, rsi, rdi, r8, r9, r10, r11, r12, r13, r14, r15, flags, slots, stk⟩ := s
    simp only [i64_div_u] at hd
    unfold i64_div_u
    x64_simp
    simp [hd]
    x64_finish

  · obtain ⟨rax, rcx, rdx, rbx, rsi, rdi, r8, r9, r10, r11, r12, r13, r14, r15, flags, slots, stk⟩ := s
    simp only [i64_div_u] at hd
    unfold i64_div_u
    x64_simp
    simp [hd]
    x64_finish

theorem i64_eq_ok : RelRow64 .eq i64_eq := by
  refine ⟨by decide, ?_⟩
  intro s
  obtain ⟨rax, rcx, rdx, rbx, rsi, rdi, r8, r9, r10, r11, r12, r13, r14, r15, flags, slots, stk⟩ := s
  unfold i64_eq
  x64_simp
  x64_finish

theorem i64_gt_s_ok : RelRow64 .gt_s i64_gt_s := by
  refine ⟨by decide, ?_⟩
  intro s
  obtain ⟨rax, rcx, rdx, rbx, rsi, rdi, r8, r9, r10, r11, r12, r13, r14, r15, flags, slots, stk⟩ := s
  unfold i64_gt_s
  x64_simp
  x64_finish

theorem i64_ge_u_ok : RelRow64 .ge_u i64_ge_u := by
  refine ⟨by decide, ?_⟩
  intro s
  obtain ⟨rax, rcx, rdx, rbx, rsi, rdi, r8, r9, r10, r11, r12, r13, r14, r15, flags, slots, stk⟩ := s
  unfold i64_ge_u
  x64_simp
  x64_finish

theorem i64_extend_i32_s_ok : ExtSRow i64_extend_i32_s := by
  intro s
  obtain ⟨rax, rcx, rdx, rbx, rsi, rdi, r8, r9, r10, r11, r12, r13, r14, r15, flags, slots, stk⟩ := s
  unfold i64_extend_i32_s
  x64_simp
  x64_finish

end WaVerif.C02.Rows
