import WaVerif.Model.C02Spec
import WaVerif.Gen.C02Templates
import WaVerif.Lemmas.C02Tac
set_option linter.unusedSimpArgs false
set_option linter.unusedVariables false
set_option maxRecDepth 4000
/-! One theorem per row of the regenerated x86-64 template table (statement fixed by the instruction name). -/
namespace WaVerif.C02.Rows
open WaVerif WaVerif.X64 WaVerif.C02 WaVerif.Gen.C02

theorem i32_div_u_ok : BinRow32 .div_u i32_div_u := by
  refine ⟨by decide, ?_⟩
  intro s
  by_cases hd : BitVec.setWidth 32 (s.slots i32_div_u.y) = 0#32
  · obtain ⟨rax, rcx, rdx, rbx, rsi, rdi, r8, r9, r10, r11, r12, r13, r14, r15, flags, slots, stk⟩ := s
    simp only [i32_div_u] at hd
    unfold i32_div_u
    x64_simp
    simp [hd]
    x64_finish

  · obtain ⟨rax, rcx, rdx, rbx, rsi, rdi, r8, r9, r10, r11, r12, r13, r14, r15, flags, slots, stk⟩ := s
    simp only [i32_div_u] at hd
    unfold i32_div_u
    x64_simp
    simp [hd]
    x64_finish

theorem i32_eq_ok : RelRow32 .eq i32_eq := by
  refine ⟨by decide, ?_⟩
  intro s
  obtain ⟨rax, rcx, rdx, rbx, rsi, rdi, r8, r9, r10, r11, r12, r13, r14, r15, flags, slots, stk⟩ := s
  unfold i32_eq
  x64_simp
  x64_finish

theorem i32_gt_s_ok : RelRow32 .gt_s i32_gt_s := by
  refine ⟨by decide, ?_⟩
  intro s
  obtain ⟨rax, rcx, rdx, rbx, rsi, rdi, r8, r9, r10, r11, r12, r13, r14, r15, flags, slots, stk⟩ := s
  unfold i32_gt_s
  x64_simp
  x64_finish

theorem i32_ge_u_ok : RelRow32 .ge_u i32_ge_u := by
  refine ⟨by decide, ?_⟩
  intro s
  obtain ⟨rax, rcx, rdx, rbx, rsi, rdi, r8, r9, r10, r11, r12, r13, r14, r15, flags, slots, stk⟩ := s
  unfold i32_ge_u
  x64_simp
  x64_finish

theorem i64_sub_ok : BinRow64 .sub i64_sub := by
  refine ⟨by decide, ?_⟩
  intro s
  obtain ⟨rax, rcx, rdx, rbx, rsi, rdi, r8, r9, r10, r11, r12, r13, r14, r15, flags, slots, stk⟩ := s
  unfold i64_sub
  x64_simp
  x64_finish

theorem i64_and_ok : BinRow64 .and i64_and := by
  refine ⟨by decide, ?_⟩
  intro s
  obtain ⟨rax, rcx, rdx, rbx, rsi, rdi, r8, r9, r10, r11, r12, r13, r14, r15, flags, slots, stk⟩ := s
  unfold i64_and
  x64_simp
  x64_finish

theorem i64_xor_ok : BinRow64 .xor i64_xor := by
  refine ⟨by decide, ?_⟩
  intro s
  obtain ⟨rax, rcx, rdx, rbx, rsi, rdi, r8, r9, r10, r11, r12, r13, r14, r15, flags, slots, stk⟩ := s
  unfold i64_xor
  x64_simp
  x64_finish

theorem i64_shr_s_ok : BinRow64 .shr_s i64_shr_s := by
  refine ⟨by decide, ?_⟩
  intro s
  obtain ⟨rax, rcx, rdx, rbx, rsi, rdi, r8, r9, r10, r11, r12, r13, r14, r15, flags, slots, stk⟩ := s
  unfold i64_shr_s
  x64_simp
  x64_finish

theorem i64_rotl_ok : BinRow64 .rotl i64_rotl := by
  refine ⟨by decide, ?_⟩
  intro s
  obtain ⟨rax, rcx, rdx, rbx, rsi, rdi, r8, r9, r10, r11, r12, r13, r14, r15, flags, slots, stk⟩ := s
  unfold i64_rotl
  x64_simp
  x64_finish

theorem i64_lt_s_ok : RelRow64 .lt_s i64_lt_s := by
  refine ⟨by decide, ?_⟩
  intro s
  obtain ⟨rax, rcx, rdx, rbx, rsi, rdi, r8, r9, r10, r11, r12, r13, r14, r15, flags, slots, stk⟩ := s
  unfold i64_lt_s
  x64_simp
  x64_finish

theorem i64_le_s_ok : RelRow64 .le_s i64_le_s := by
  refine ⟨by decide, ?_⟩
  intro s
  obtain ⟨rax, rcx, rdx, rbx, rsi, rdi, r8, r9, r10, r11, r12, r13, r14, r15, flags, slots, stk⟩ := s
  unfold i64_le_s
  x64_simp
  x64_finish

theorem i64_ctz_ok : UnRow64 .ctz i64_ctz := by
  intro s
  obtain ⟨rax, rcx, rdx, rbx, rsi, rdi, r8, r9, r10, r11, r12, r13, r14, r15, flags, slots, stk⟩ := s
  unfold i64_ctz
  x64_simp
  x64_finish

theorem select_i64_ok : SelectRow64 select_i64 select_i64_c := by
  refine ⟨by decide, by decide, by decide, ?_⟩
  intro s
  obtain ⟨rax, rcx, rdx, rbx, rsi, rdi, r8, r9, r10, r11, r12, r13, r14, r15, flags, slots, stk⟩ := s
  unfold select_i64 select_i64_c
  x64_simp
  x64_finish

end WaVerif.C02.Rows
