/-! Line-protocol helpers for the model drivers (core-only). -/
namespace WaVerif.Proto

def hexDigit (c : Char) : Option Nat :=
  if '0' ≤ c ∧ c ≤ '9' then some (c.toNat - '0'.toNat)
  else if 'a' ≤ c ∧ c ≤ 'f' then some (c.toNat - 'a'.toNat + 10)
  else if 'A' ≤ c ∧ c ≤ 'F' then some (c.toNat - 'A'.toNat + 10)
  else none

/-- "e58e26" → [0xe5, 0x8e, 0x26]; "-" or "" → [] -/
def parseHex (s : String) : Option (List Nat) :=
  if s = "-" then some [] else
  let rec go : List Char → List Nat → Option (List Nat)
    | [], acc => some acc.reverse
    | [_], _ => none
    | a :: b :: rest, acc => do
      let x ← hexDigit a
      let y ← hexDigit b
      go rest ((x * 16 + y) :: acc)
  go s.toList []

def hexNibble (n : Nat) : Char := if n < 10 then Char.ofNat (48 + n) else Char.ofNat (87 + n)

def toHex (bs : List Nat) : String :=
  if bs.isEmpty then "-" else
  String.ofList (bs.flatMap fun b => [hexNibble (b / 16 % 16), hexNibble (b % 16)])

def parseInt (s : String) : Option Int := s.toInt?
def parseNat (s : String) : Option Nat := s.toNat?

def words (line : String) : List String :=
  (line.splitOn " ").filter (· ≠ "")

/-- stateless: one output line per input line -/
partial def lineLoop (f : String → String) : IO Unit := do
  let stdin ← IO.getStdin
  let stdout ← IO.getStdout
  let rec loop : IO Unit := do
    let line ← stdin.getLine
    if line.isEmpty then return ()
    let l := (line.dropEndWhile (fun c => c = '\n' || c = '\r')).toString
    stdout.putStrLn (f l)
    loop
  loop
  stdout.flush

/-- stateful: `step state line = (state', output line)` -/
partial def stateLoop {σ : Type} (init : σ) (step : σ → String → σ × String) : IO Unit := do
  let stdin ← IO.getStdin
  let stdout ← IO.getStdout
  let rec loop (s : σ) : IO Unit := do
    let line ← stdin.getLine
    if line.isEmpty then return ()
    let l := (line.dropEndWhile (fun c => c = '\n' || c = '\r')).toString
    let (s', out) := step s l
    stdout.putStrLn out
    loop s'
  loop init
  stdout.flush

end WaVerif.Proto
