/-!
# WebAssembly integer instruction semantics (specification, written from the core spec §4.3)

Values are `i32`/`i64` bit vectors. A trap is `none`. Floating point is not modelled here
(Lean's `Float` is opaque to the kernel); float rows are covered by execution only.
-/
namespace WaVerif.Wasm

inductive Ty | i32 | i64
  deriving DecidableEq, Repr, Inhabited

inductive Val
  | i32 (v : BitVec 32)
  | i64 (v : BitVec 64)
  deriving DecidableEq, Repr, Inhabited

inductive BinK | add | sub | mul | div_s | div_u | rem_s | rem_u | and | or | xor
  | shl | shr_s | shr_u | rotl | rotr
  deriving DecidableEq, Repr, Inhabited

inductive RelK | eq | ne | lt_s | lt_u | gt_s | gt_u | le_s | le_u | ge_s | ge_u
  deriving DecidableEq, Repr, Inhabited

inductive UnK | clz | ctz | popcnt | ext8_s | ext16_s | ext32_s
  deriving DecidableEq, Repr, Inhabited

inductive Instr
  | const32 (v : BitVec 32)
  | const64 (v : BitVec 64)
  | localGet (i : Nat)
  | bin (t : Ty) (k : BinK)
  | rel (t : Ty) (k : RelK)
  | eqz (t : Ty)
  | un (t : Ty) (k : UnK)
  | wrap_i64            -- i32.wrap_i64
  | extend_i32_s        -- i64.extend_i32_s
  | extend_i32_u        -- i64.extend_i32_u
  | drop
  deriving DecidableEq, Repr, Inhabited

def ctzGo {w : Nat} (x : BitVec w) : Nat → Nat → Nat
  | 0, acc => acc
  | n + 1, acc => if x.getLsbD acc then acc else ctzGo x n (acc + 1)

/-- count trailing zeros (`w` when `x = 0`) -/
def ctz {w : Nat} (x : BitVec w) : BitVec w := BitVec.ofNat w (ctzGo x w 0)

def binop {w : Nat} (k : BinK) (x y : BitVec w) : Option (BitVec w) :=
  match k with
  | .add => some (x + y)
  | .sub => some (x - y)
  | .mul => some (x * y)
  | .div_u => if y = 0 then none else some (x / y)
  | .rem_u => if y = 0 then none else some (x % y)
  | .div_s => if y = 0 then none
              else if x = BitVec.intMin w ∧ y = -1 then none      -- overflow trap
              else some (x.sdiv y)
  | .rem_s => if y = 0 then none else some (x.srem y)
  | .and => some (x &&& y)
  | .or => some (x ||| y)
  | .xor => some (x ^^^ y)
  | .shl => some (x <<< (y.toNat % w))
  | .shr_u => some (x >>> (y.toNat % w))
  | .shr_s => some (x.sshiftRight (y.toNat % w))
  | .rotl => some (x.rotateLeft (y.toNat % w))
  | .rotr => some (x.rotateRight (y.toNat % w))

def relop {w : Nat} (k : RelK) (x y : BitVec w) : Bool :=
  match k with
  | .eq => x == y
  | .ne => x != y
  | .lt_u => x.ult y
  | .gt_u => y.ult x
  | .le_u => x.ule y
  | .ge_u => y.ule x
  | .lt_s => x.slt y
  | .gt_s => y.slt x
  | .le_s => x.sle y
  | .ge_s => y.sle x

def b2i (b : Bool) : BitVec 32 := if b then 1#32 else 0#32

def unop {w : Nat} (k : UnK) (x : BitVec w) : BitVec w :=
  match k with
  | .clz => x.clz
  | .ctz => ctz x
  | .popcnt => x.cpop
  | .ext8_s => (x.setWidth 8).signExtend w
  | .ext16_s => (x.setWidth 16).signExtend w
  | .ext32_s => (x.setWidth 32).signExtend w

def pop32 : List Val → Option (BitVec 32 × List Val)
  | .i32 v :: st => some (v, st)
  | _ => none

def pop64 : List Val → Option (BitVec 64 × List Val)
  | .i64 v :: st => some (v, st)
  | _ => none

/-- one instruction on (locals, operand stack); top of stack is the list head.
Ill-typed situations are stuck (`none`); a validated module never gets there. -/
def step (loc : List Val) (i : Instr) (st : List Val) : Option (List Val) :=
  match i with
  | .const32 v => some (.i32 v :: st)
  | .const64 v => some (.i64 v :: st)
  | .localGet i => (loc[i]?).map (· :: st)
  | .bin .i32 k => (pop32 st).bind fun (y, st1) => (pop32 st1).bind fun (x, st2) =>
      (binop k x y).map (fun r => .i32 r :: st2)
  | .bin .i64 k => (pop64 st).bind fun (y, st1) => (pop64 st1).bind fun (x, st2) =>
      (binop k x y).map (fun r => .i64 r :: st2)
  | .rel .i32 k => (pop32 st).bind fun (y, st1) => (pop32 st1).bind fun (x, st2) =>
      some (.i32 (b2i (relop k x y)) :: st2)
  | .rel .i64 k => (pop64 st).bind fun (y, st1) => (pop64 st1).bind fun (x, st2) =>
      some (.i32 (b2i (relop k x y)) :: st2)
  | .eqz .i32 => (pop32 st).bind fun (x, st1) => some (.i32 (b2i (x == 0)) :: st1)
  | .eqz .i64 => (pop64 st).bind fun (x, st1) => some (.i32 (b2i (x == 0)) :: st1)
  | .un .i32 k => (pop32 st).bind fun (x, st1) => some (.i32 (unop k x) :: st1)
  | .un .i64 k => (pop64 st).bind fun (x, st1) => some (.i64 (unop k x) :: st1)
  | .wrap_i64 => (pop64 st).bind fun (x, st1) => some (.i32 (x.setWidth 32) :: st1)
  | .extend_i32_s => (pop32 st).bind fun (x, st1) => some (.i64 (x.signExtend 64) :: st1)
  | .extend_i32_u => (pop32 st).bind fun (x, st1) => some (.i64 (x.setWidth 64) :: st1)
  | .drop => match st with
    | _ :: st1 => some st1
    | [] => none

def exec (loc : List Val) : List Instr → List Val → Option (List Val)
  | [], st => some st
  | i :: r, st => (step loc i st).bind (exec loc r)

end WaVerif.Wasm
