/-!
# Go integer operator semantics (specification, written from the Go language spec)

A Go integer type is a width and a signedness; values are bit vectors of that width.
`none` = run-time panic (division by zero) — outside property C01's domain.
Shift counts are unsigned values of any width, given as a `Nat`.
-/
namespace WaVerif.Go

structure ITy where
  bits : Nat
  signed : Bool
  deriving DecidableEq, Repr, Inhabited

def u8 : ITy := ⟨8, false⟩
def u16 : ITy := ⟨16, false⟩
def u32 : ITy := ⟨32, false⟩
def u64 : ITy := ⟨64, false⟩
def i32 : ITy := ⟨32, true⟩
def i64 : ITy := ⟨64, true⟩

inductive Op | add | sub | mul | quo | rem | and | or | xor | andnot | shl | shr
  deriving DecidableEq, Repr, Inhabited

inductive Cmp | eq | ne | lt | le | gt | ge
  deriving DecidableEq, Repr, Inhabited

/-- arithmetic operators (both operands of the same type); spec "Arithmetic operators",
"Integer overflow": wrap around; `MinInt / -1 = MinInt`, `MinInt % -1 = 0`; truncated division. -/
def arith {w : Nat} (signed : Bool) (op : Op) (x y : BitVec w) : Option (BitVec w) :=
  match op with
  | .add => some (x + y)
  | .sub => some (x - y)
  | .mul => some (x * y)
  | .quo => if y = 0 then none else some (if signed then x.sdiv y else x / y)
  | .rem => if y = 0 then none else some (if signed then x.srem y else x % y)
  | .and => some (x &&& y)
  | .or => some (x ||| y)
  | .xor => some (x ^^^ y)
  | .andnot => some (x &&& ~~~y)
  | .shl => none   -- shifts take a count, see `shift`
  | .shr => none

/-- shifts: "There is no upper limit on the shift count"; `x << n` is 0 for n ≥ width,
`x >> n` is 0 (unsigned) or the sign fill (signed). -/
def shl {w : Nat} (x : BitVec w) (n : Nat) : BitVec w := x <<< n
def shr {w : Nat} (signed : Bool) (x : BitVec w) (n : Nat) : BitVec w :=
  if signed then x.sshiftRight n else x >>> n

def cmp {w : Nat} (signed : Bool) (c : Cmp) (x y : BitVec w) : Bool :=
  match c with
  | .eq => x == y
  | .ne => x != y
  | .lt => if signed then x.slt y else x.ult y
  | .le => if signed then x.sle y else x.ule y
  | .gt => if signed then y.slt x else y.ult x
  | .ge => if signed then y.sle x else y.ule x

def neg {w : Nat} (x : BitVec w) : BitVec w := -x
def compl {w : Nat} (x : BitVec w) : BitVec w := ~~~x

/-- integer conversion T(x): sign- or zero-extend according to the SOURCE type, then truncate -/
def conv {w : Nat} (srcSigned : Bool) (x : BitVec w) (w' : Nat) : BitVec w' :=
  if srcSigned then x.signExtend w' else x.setWidth w'

end WaVerif.Go
