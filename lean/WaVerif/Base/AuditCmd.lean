import Lean
/-! `#audit_module M` prints, for every theorem declared in module `M`, one line
`AUDIT <name> axioms=[a,b,...]`.  The check script parses these lines. -/
open Lean Elab Command

elab "#audit_module " id:ident : command => do
  let env ← getEnv
  let modName := id.getId
  let some idx := env.getModuleIdx? modName
    | throwError "module {modName} not imported"
  let mut names : Array Name := #[]
  for (n, ci) in env.constants.map₁.toList do
    if env.getModuleIdxFor? n == some idx then
      match ci with
      | .thmInfo _ =>
        if !n.isInternal then names := names.push n
      | _ => pure ()
  let sorted := names.qsort (fun a b => a.toString < b.toString)
  for n in sorted do
    let axs ← Lean.collectAxioms n
    let axs := axs.qsort (fun a b => a.toString < b.toString)
    logInfo m!"AUDIT {n} axioms={axs.toList}"
