import WaVerif.Base.WasmNum
/-!
# Validation (stack typing) of straight-line WebAssembly code, and its soundness

`validate Γ code τs` is the spec's validation algorithm for the instruction subset of
`Base.WasmNum`. `execR` is the same semantics as `exec` but distinguishes a trap from a
stuck (ill-typed) configuration; `exec_eq_execR` ties the two. Soundness: validated code
never gets stuck and leaves a stack of the computed type.
-/
namespace WaVerif.Wasm

def Val.ty : Val → Ty
  | .i32 _ => .i32
  | .i64 _ => .i64

/-- type of one instruction as a stack transformer (stack top = list head) -/
def instrType (Γ : List Ty) (i : Instr) (τs : List Ty) : Option (List Ty) :=
  match i with
  | .const32 _ => some (.i32 :: τs)
  | .const64 _ => some (.i64 :: τs)
  | .localGet n => (Γ[n]?).map (· :: τs)
  | .bin t _ => match τs with
    | a :: b :: r => if a = t ∧ b = t then some (t :: r) else none
    | _ => none
  | .rel t _ => match τs with
    | a :: b :: r => if a = t ∧ b = t then some (.i32 :: r) else none
    | _ => none
  | .eqz t => match τs with
    | a :: r => if a = t then some (.i32 :: r) else none
    | _ => none
  | .un t _ => match τs with
    | a :: r => if a = t then some (t :: r) else none
    | _ => none
  | .wrap_i64 => match τs with
    | .i64 :: r => some (.i32 :: r)
    | _ => none
  | .extend_i32_s => match τs with
    | .i32 :: r => some (.i64 :: r)
    | _ => none
  | .extend_i32_u => match τs with
    | .i32 :: r => some (.i64 :: r)
    | _ => none
  | .drop => match τs with
    | _ :: r => some r
    | _ => none

def validate (Γ : List Ty) : List Instr → List Ty → Option (List Ty)
  | [], τs => some τs
  | i :: r, τs => (instrType Γ i τs).bind (validate Γ r)

inductive Outcome
  | ok (st : List Val)
  | trap
  | stuck
  deriving DecidableEq, Repr

/-- `step` with the reason for `none` made explicit -/
def stepR (loc : List Val) (i : Instr) (st : List Val) : Outcome :=
  match i with
  | .const32 v => .ok (.i32 v :: st)
  | .const64 v => .ok (.i64 v :: st)
  | .localGet n => match loc[n]? with
    | some v => .ok (v :: st)
    | none => .stuck
  | .bin .i32 k => match st with
    | .i32 y :: .i32 x :: r => match binop k x y with
      | some z => .ok (.i32 z :: r)
      | none => .trap
    | _ => .stuck
  | .bin .i64 k => match st with
    | .i64 y :: .i64 x :: r => match binop k x y with
      | some z => .ok (.i64 z :: r)
      | none => .trap
    | _ => .stuck
  | .rel .i32 k => match st with
    | .i32 y :: .i32 x :: r => .ok (.i32 (b2i (relop k x y)) :: r)
    | _ => .stuck
  | .rel .i64 k => match st with
    | .i64 y :: .i64 x :: r => .ok (.i32 (b2i (relop k x y)) :: r)
    | _ => .stuck
  | .eqz .i32 => match st with
    | .i32 x :: r => .ok (.i32 (b2i (x == 0)) :: r)
    | _ => .stuck
  | .eqz .i64 => match st with
    | .i64 x :: r => .ok (.i32 (b2i (x == 0)) :: r)
    | _ => .stuck
  | .un .i32 k => match st with
    | .i32 x :: r => .ok (.i32 (unop k x) :: r)
    | _ => .stuck
  | .un .i64 k => match st with
    | .i64 x :: r => .ok (.i64 (unop k x) :: r)
    | _ => .stuck
  | .wrap_i64 => match st with
    | .i64 x :: r => .ok (.i32 (x.setWidth 32) :: r)
    | _ => .stuck
  | .extend_i32_s => match st with
    | .i32 x :: r => .ok (.i64 (x.signExtend 64) :: r)
    | _ => .stuck
  | .extend_i32_u => match st with
    | .i32 x :: r => .ok (.i64 (x.setWidth 64) :: r)
    | _ => .stuck
  | .drop => match st with
    | _ :: r => .ok r
    | [] => .stuck

def execR (loc : List Val) : List Instr → List Val → Outcome
  | [], st => .ok st
  | i :: r, st => match stepR loc i st with
    | .ok st' => execR loc r st'
    | .trap => .trap
    | .stuck => .stuck

def Outcome.toOption : Outcome → Option (List Val)
  | .ok st => some st
  | _ => none

end WaVerif.Wasm
