import WaVerif.Lemmas.C22
/-! # C22 — helper lemmas: DecodeRune ∘ encodeRune on Unicode scalar values (core only) -/
namespace WaVerif.C22

/-- Unicode scalar value -/
def Scalar (r : Nat) : Prop := r < 0xD800 ∨ (0xE000 ≤ r ∧ r ≤ 0x10FFFF)

instance (r : Nat) : Decidable (Scalar r) := by unfold Scalar; exact inferInstance

theorem dec1 (b0 : Nat) (rest : List Nat) (h : b0 < 0x80) : decodeRune (b0 :: rest) = (b0, 1) := by
  simp only [decodeRune, h, if_true]

theorem dec2 (b0 b1 : Nat) (rest : List Nat) (h0 : 0xC2 ≤ b0) (h0' : b0 < 0xE0) (h1 : 0x80 ≤ b1) (h1' : b1 ≤ 0xBF) :
    decodeRune (b0 :: b1 :: rest) = ((b0 - 0xC0) * 64 + (b1 - 0x80), 2) := by
  simp only [decodeRune]
  rw [if_neg (by omega), if_neg (by omega), if_pos h0']
  simp only [isCont, h1, h1', decide_true, Bool.and_self, if_true]

theorem dec3 (b0 b1 b2 : Nat) (rest : List Nat) (h0 : 0xE0 ≤ b0) (h0' : b0 < 0xF0)
    (h1 : (if b0 = 0xE0 then 0xA0 else 0x80) ≤ b1) (h1' : b1 ≤ (if b0 = 0xED then 0x9F else 0xBF))
    (h2 : 0x80 ≤ b2) (h2' : b2 ≤ 0xBF) :
    decodeRune (b0 :: b1 :: b2 :: rest) = ((b0 - 0xE0) * 4096 + (b1 - 0x80) * 64 + (b2 - 0x80), 3) := by
  simp only [decodeRune]
  rw [if_neg (by omega), if_neg (by omega), if_neg (by omega), if_pos h0']
  simp only [isCont, h1, h1', h2, h2', decide_true, Bool.and_self, if_true]

theorem dec4 (b0 b1 b2 b3 : Nat) (rest : List Nat) (h0 : 0xF0 ≤ b0) (h0' : b0 < 0xF5)
    (h1 : (if b0 = 0xF0 then 0x90 else 0x80) ≤ b1) (h1' : b1 ≤ (if b0 = 0xF4 then 0x8F else 0xBF))
    (h2 : 0x80 ≤ b2) (h2' : b2 ≤ 0xBF) (h3 : 0x80 ≤ b3) (h3' : b3 ≤ 0xBF) :
    decodeRune (b0 :: b1 :: b2 :: b3 :: rest) =
      ((b0 - 0xF0) * 262144 + (b1 - 0x80) * 4096 + (b2 - 0x80) * 64 + (b3 - 0x80), 4) := by
  simp only [decodeRune]
  rw [if_neg (by omega), if_neg (by omega), if_neg (by omega), if_neg (by omega), if_pos h0']
  simp only [isCont, h1, h1', h2, h2', h3, h3', decide_true, Bool.and_self, if_true]

theorem decodeRune_encodeRune (r : Nat) (h : Scalar r) (rest : List Nat) :
    decodeRune (encodeRune r ++ rest) = (r, runeLen r) := by
  unfold Scalar at h
  unfold encodeRune runeLen
  by_cases h1 : r < 0x80
  · rw [if_pos h1, if_pos h1]; exact dec1 r rest h1
  · rw [if_neg h1, if_neg h1]
    by_cases h2 : r < 0x800
    · rw [if_pos h2, if_pos h2]
      simp only [List.cons_append, List.nil_append]
      rw [dec2 _ _ rest (by omega) (by omega) (by omega) (by omega)]
      have : (0xC0 + r / 64 - 0xC0) * 64 + (0x80 + r % 64 - 0x80) = r := by omega
      rw [this]
    · rw [if_neg h2, if_neg h2]
      by_cases h3 : r < 0x10000
      · rw [if_pos h3, if_pos h3]
        simp only [List.cons_append, List.nil_append]
        rw [dec3 _ _ _ rest (by omega) (by omega) (by split <;> omega) (by split <;> omega) (by omega) (by omega)]
        have : (0xE0 + r / 4096 - 0xE0) * 4096 + (0x80 + r / 64 % 64 - 0x80) * 64 + (0x80 + r % 64 - 0x80) = r := by omega
        rw [this]
      · rw [if_neg h3, if_neg h3]
        simp only [List.cons_append, List.nil_append]
        rw [dec4 _ _ _ _ rest (by omega) (by omega) (by split <;> omega) (by split <;> omega) (by omega) (by omega) (by omega) (by omega)]
        have : (0xF0 + r / 262144 % 8 - 0xF0) * 262144 + (0x80 + r / 4096 % 64 - 0x80) * 4096 +
            (0x80 + r / 64 % 64 - 0x80) * 64 + (0x80 + r % 64 - 0x80) = r := by omega
        rw [this]

theorem decodeRunesF_utf8 : ∀ (rs : List Nat) (fuel : Nat), (utf8 rs).length ≤ fuel → (∀ r ∈ rs, Scalar r) →
    decodeRunesF fuel (utf8 rs) = rs := by
  intro rs
  induction rs with
  | nil => intro fuel _ _; cases fuel <;> simp [utf8, decodeRunesF]
  | cons r t ih =>
    intro fuel hf hs
    have hu : utf8 (r :: t) = encodeRune r ++ utf8 t := by simp [utf8]
    have hl := length_encodeRune r
    have hpos : 0 < runeLen r := by unfold runeLen; split <;> (try split) <;> (try split) <;> omega
    rw [hu] at hf ⊢
    rw [List.length_append, hl] at hf
    cases fuel with
    | zero => omega
    | succ f =>
      have hne : encodeRune r ++ utf8 t ≠ [] := by
        intro h; have := congrArg List.length h; simp [hl] at this; omega
      have hd := decodeRune_encodeRune r (hs r (by simp)) (utf8 t)
      cases hbs : encodeRune r ++ utf8 t with
      | nil => exact absurd hbs hne
      | cons b bs =>
        rw [hbs] at hd
        simp only [decodeRunesF, hd]
        rw [← hbs, ← hl, List.drop_left, ih f (by omega) (fun x hx => hs x (by simp [hx]))]

theorem decodeRunes_utf8 (rs : List Nat) (hs : ∀ r ∈ rs, Scalar r) : decodeRunes (utf8 rs) = rs :=
  decodeRunesF_utf8 rs _ (Nat.le_refl _) hs

end WaVerif.C22
