import WaVerif.Lemmas.C15Bits
namespace WaVerif.C15
open WaVerif

/-- `v` fits `k+1` signed bits -/
def fitsS (k : Nat) (v : Int) : Prop := -(2 : Int) ^ k ≤ v ∧ v < (2 : Int) ^ k

theorem fitsS_ofNat (k m : Nat) : fitsS k (Int.ofNat m) ↔ m < 2 ^ k := by
  unfold fitsS
  have h : ((2 : Int) ^ k) = ((2 ^ k : Nat) : Int) := by simp
  rw [h]; simp only [Int.ofNat_eq_natCast]; omega

theorem fitsS_negSucc (k m : Nat) : fitsS k (Int.negSucc m) ↔ m < 2 ^ k := by
  unfold fitsS
  have h : ((2 : Int) ^ k) = ((2 ^ k : Nat) : Int) := by simp
  rw [h]; omega

theorem natAndNot_lt {m n k : Nat} (h : m < 2 ^ k) : natAndNot m n < 2 ^ k := by
  unfold natAndNot
  exact Nat.xor_lt_two_pow h (Nat.lt_of_le_of_lt Nat.and_le_left h)

theorem fitsS_land {k : Nat} {x y : Int} (hx : fitsS k x) (hy : fitsS k y) : fitsS k (land x y) := by
  cases x <;> cases y <;> simp only [fitsS_ofNat, fitsS_negSucc, land] at * <;>
    first
      | exact Nat.lt_of_le_of_lt Nat.and_le_left hx
      | exact natAndNot_lt hx
      | exact natAndNot_lt hy
      | exact Nat.or_lt_two_pow hx hy

theorem fitsS_lor {k : Nat} {x y : Int} (hx : fitsS k x) (hy : fitsS k y) : fitsS k (lor x y) := by
  cases x <;> cases y <;> simp only [fitsS_ofNat, fitsS_negSucc, lor] at * <;>
    first
      | exact Nat.or_lt_two_pow hx hy
      | exact natAndNot_lt hx
      | exact natAndNot_lt hy
      | exact Nat.lt_of_le_of_lt Nat.and_le_left hx

theorem fitsS_lxor {k : Nat} {x y : Int} (hx : fitsS k x) (hy : fitsS k y) : fitsS k (lxor x y) := by
  cases x <;> cases y <;> simp only [fitsS_ofNat, fitsS_negSucc, lxor] at * <;>
    exact Nat.xor_lt_two_pow hx hy

theorem fitsS_landnot {k : Nat} {x y : Int} (hx : fitsS k x) (hy : fitsS k y) : fitsS k (landnot x y) := by
  cases x <;> cases y <;> simp only [fitsS_ofNat, fitsS_negSucc, landnot] at * <;>
    first
      | exact natAndNot_lt hx
      | exact natAndNot_lt hy
      | exact Nat.lt_of_le_of_lt Nat.and_le_left hx
      | exact Nat.or_lt_two_pow hx hy

theorem fits64_iff (v : Int) : fits64 v = true ↔ fitsS 63 v := by
  simp [fits64, fitsS]

theorem wrap64_of_fits {v : Int} (h : fitsS 63 v) : wrap64 v = v := by
  unfold wrap64
  exact BitVec.toInt_ofInt_eq_self (by decide) (by simpa [fitsS] using h.1) (by simpa [fitsS] using h.2)

theorem fitsS_wrap64 (v : Int) : fitsS 63 (wrap64 v) := by
  unfold wrap64 fitsS
  have h1 := BitVec.le_toInt (BitVec.ofInt 64 v)
  have h2 := @BitVec.toInt_lt 64 (BitVec.ofInt 64 v)
  simp at h1 h2 ⊢
  omega

end WaVerif.C15
