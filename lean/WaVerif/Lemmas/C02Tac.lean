import WaVerif.Model.C02Spec
import WaVerif.Lemmas.C02Div
import Std.Tactic.BVDecide
/-! Uniform tactics for the x86-64 template rows: symbolic execution of the template by `simp`,
then `bv_decide` (or `omega` for the frame condition) on what remains. -/
namespace WaVerif.C02
open WaVerif WaVerif.X64

macro "x64_simp" : tactic => `(tactic|
  simp [BinRow32, BinRow64, BinRow32ExceptMinInt, BinRow64ExceptMinInt, RelRow32, RelRow64, EqzRow32, EqzRow64, UnRow32, UnRow64,
    WrapRow, ExtSRow, ExtURow, SelectRow32, SelectRow64, Illformed,
    Outcome32, Outcome64, Preserved, lo32, X64.run, X64.step, sameWidth, width, X64.read, write, writeReg, writeSlot, setSlot, setReg, getReg,
    trunc, aluW, aluN, shW, shN, cntW, ccHolds, subFlags, addFlags, logicFlags,
    Wasm.binop, Wasm.relop, Wasm.unop, Wasm.b2i, Option.bind, Option.map])

macro "row_start" : tactic => `(tactic|
  (intro s
   obtain ⟨rax, rcx, rdx, rbx, rsi, rdi, r8, r9, r10, r11, r12, r13, r14, r15, flags, slots, stk⟩ := s))

end WaVerif.C02
