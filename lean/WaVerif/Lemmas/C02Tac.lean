import WaVerif.Model.C02Spec
import WaVerif.Lemmas.C02Div
import Std.Tactic.BVDecide
/-! Uniform tactics for the x86-64 template rows: symbolic execution of the template by `simp`,
then `bv_decide` (or `omega` for the frame condition) on what remains. -/
namespace WaVerif.C02
open WaVerif WaVerif.X64

/-- `b2i` without an `if` (whose `Decidable` instance `simp` cannot rewrite) -/
theorem b2i_eq_ofBool (b : Bool) : Wasm.b2i b = (BitVec.ofBool b).setWidth 32 := by
  cases b <;> rfl

theorem rotl32_congr (x : BitVec 32) {a b : Nat} (h : a % 32 = b % 32) : x.rotateLeft a = x.rotateLeft b := by
  rw [← BitVec.rotateLeft_mod_eq_rotateLeft (r := a), ← BitVec.rotateLeft_mod_eq_rotateLeft (r := b), h]

theorem rotr32_congr (x : BitVec 32) {a b : Nat} (h : a % 32 = b % 32) : x.rotateRight a = x.rotateRight b := by
  rw [← BitVec.rotateRight_mod_eq_rotateRight (r := a), ← BitVec.rotateRight_mod_eq_rotateRight (r := b), h]

/-- a logical right shift of a zero-extended 32-bit value, seen at 32 bits -/
theorem ushr_zext32 (y : BitVec 32) (n : Nat) : BitVec.setWidth 32 ((BitVec.setWidth 64 y) >>> n) = y >>> n := by
  apply BitVec.eq_of_getLsbD_eq
  intro i hi
  simp only [BitVec.getLsbD_setWidth, BitVec.getLsbD_ushiftRight]
  by_cases h : n + i < 32
  · simp [hi, h]
    intro h2; omega
  · have : y.getLsbD (n + i) = false := BitVec.getLsbD_of_ge _ _ (by omega)
    simp [hi, this]

theorem intMin32_lit : BitVec.intMin 32 = 2147483648#32 := by decide
theorem intMin64_lit : BitVec.intMin 64 = 9223372036854775808#64 := by decide

macro "x64_simp" : tactic => `(tactic|
  simp [BinRow32, BinRow64, BinRow32ExceptMinInt, BinRow64ExceptMinInt, RelRow32, RelRow64, EqzRow32, EqzRow64, UnRow32, UnRow64,
    WrapRow, ExtSRow, ExtURow, SelectRow32, SelectRow64, Illformed,
    Outcome32, Outcome64, Preserved, lo32, X64.run, X64.step, sameWidth, width, X64.read, write, writeReg, writeSlot, setSlot, setReg, getReg,
    trunc, aluW, aluN, shW, shN, cntW, ccHolds, subFlags, addFlags, logicFlags,
    Wasm.binop, Wasm.relop, Wasm.unop, b2i_eq_ofBool, Option.bind, Option.map, divN_zero_hi, idivN_cdq, idivN_cqo, intMin32_lit, intMin64_lit, ushr_zext32])

macro "row_start" : tactic => `(tactic|
  (intro s
   obtain ⟨rax, rcx, rdx, rbx, rsi, rdi, r8, r9, r10, r11, r12, r13, r14, r15, flags, slots, stk⟩ := s))

/-- frame condition / residual bit-vector identities after symbolic execution -/
macro "x64_finish" : tactic => `(tactic|
  all_goals ((repeat' apply And.intro) <;> first
    | done
    | (intro k h1 h2; exact absurd h2 h1)
    | rfl
    | (apply rotl32_congr; omega)
    | (apply rotr32_congr; omega)
    | bv_decide
    | (intros; bv_decide)
    | (simp_all; done)
    | (simp_all; bv_decide)))

theorem illformed_not_un64 {t : Template} (k : Wasm.UnK) (h : Illformed t) : ¬ UnRow64 k t := by
  intro hu
  have h1 := hu (witnessState t 0 0)
  have h2 := h (witnessState t 0 0)
  simp only [Outcome64] at h1
  obtain ⟨s', hs, _⟩ := h1
  rw [h2] at hs
  cases hs

end WaVerif.C02
