import WaVerif.Model.C02Spec
import WaVerif.Lemmas.C02Div
import Std.Tactic.BVDecide
/-! Uniform tactics for the x86-64 template rows: symbolic execution of the template by `simp`,
then `bv_decide` (or `omega` for the frame condition) on what remains. -/
namespace WaVerif.C02
open WaVerif WaVerif.X64

macro "x64_simp" : tactic => `(tactic|
  simp [BinRow32, BinRow64, BinRow32ExceptMinInt, BinRow64ExceptMinInt, RelRow32, RelRow64, EqzRow32, EqzRow64, UnRow32, UnRow64,
    WrapRow, ExtSRow, ExtURow, SelectRow32, SelectRow64, Illformed,
    Outcome32, Outcome64, Preserved, lo32, X64.run, X64.step, sameWidth, width, X64.read, write, writeReg, writeSlot, setSlot, setReg, getReg,
    trunc, aluW, aluN, shW, shN, cntW, ccHolds, subFlags, addFlags, logicFlags,
    Wasm.binop, Wasm.relop, Wasm.unop, Wasm.b2i, Option.bind, Option.map, divN_zero_hi, idivN_cdq, idivN_cqo])

macro "row_start" : tactic => `(tactic|
  (intro s
   obtain ⟨rax, rcx, rdx, rbx, rsi, rdi, r8, r9, r10, r11, r12, r13, r14, r15, flags, slots, stk⟩ := s))

/-- frame condition / residual bit-vector identities after symbolic execution -/
macro "x64_finish" : tactic => `(tactic|
  all_goals ((repeat' apply And.intro) <;> first
    | done
    | (intro k h1 h2; exact absurd h2 h1)
    | rfl
    | bv_decide
    | (intros; bv_decide)
    | (simp_all; done)
    | (simp_all; bv_decide)))

theorem illformed_not_un64 {t : Template} (k : Wasm.UnK) (h : Illformed t) : ¬ UnRow64 k t := by
  intro hu
  have h1 := hu (witnessState t 0 0)
  have h2 := h (witnessState t 0 0)
  simp only [Outcome64] at h1
  obtain ⟨s', hs, _⟩ := h1
  rw [h2] at hs
  cases hs

end WaVerif.C02
