import WaVerif.Lemmas.C13Tree
/-!
C13 — the insert path of the mirror up to (not including) `insertFixup`:
allocation, the descent loop, and the linking of the new node yield the BST insertion.
-/
namespace WaVerif.C13RB

namespace RTree

/-- the node under which the descent loop of `insert` ends (trailing pointer `y` on entry) -/
def attachPtr (k : Int) : RTree → Nat → Nat
  | leaf, y => y
  | node l p k' _ r, _ => if k < k' then l.attachPtr k p else r.attachPtr k p

/-- BST insertion of a new leaf `z` holding `(k, v)` (for `k` not in the tree) -/
def ins (k v : Int) (z : Nat) : RTree → RTree
  | leaf => node leaf z k v leaf
  | node l p k' v' r => if k < k' then node (l.ins k v z) p k' v' r else node l p k' v' (r.ins k v z)

theorem attachPtr_mem (k : Int) (t : RTree) (y : Nat) (h : t ≠ leaf) : t.attachPtr k y ∈ t.ptrs := by
  induction t generalizing y with
  | leaf => exact absurd rfl h
  | node l p k' v' r ihl ihr =>
    simp only [attachPtr, ptrs, List.mem_append, List.mem_cons]
    split
    · cases l with
      | leaf => simp [attachPtr]
      | node _ _ _ _ _ => exact Or.inl (ihl p (by simp))
    · cases r with
      | leaf => simp [attachPtr]
      | node _ _ _ _ _ => exact Or.inr (Or.inr (ihr p (by simp)))

theorem mem_ins_toList (k v : Int) (z : Nat) (t : RTree) (x : Int × Int) :
    x ∈ (t.ins k v z).toList ↔ x = (k, v) ∨ x ∈ t.toList := by
  induction t with
  | leaf => simp [ins, toList]
  | node l p k' v' r ihl ihr =>
    simp only [ins]
    split
    · simp only [toList, List.mem_append, List.mem_cons, ihl]
      constructor
      · rintro ((h | h) | h | h) <;> simp [h]
      · rintro (h | (h | h | h)) <;> simp [h]
    · simp only [toList, List.mem_append, List.mem_cons, ihr]
      constructor
      · rintro (h | h | h | h) <;> simp [h]
      · rintro (h | (h | h | h)) <;> simp [h]

theorem ptrs_ins (k v : Int) (z : Nat) (t : RTree) (q : Nat) : q ∈ (t.ins k v z).ptrs ↔ q = z ∨ q ∈ t.ptrs := by
  induction t with
  | leaf => simp [ins, ptrs]
  | node l p k' v' r ihl ihr =>
    simp only [ins]
    split
    · simp only [ptrs, List.mem_append, List.mem_cons, ihl]
      constructor
      · rintro ((h | h) | h | h) <;> simp [h]
      · rintro (h | (h | h | h)) <;> simp [h]
    · simp only [ptrs, List.mem_append, List.mem_cons, ihr]
      constructor
      · rintro (h | h | h | h) <;> simp [h]
      · rintro (h | (h | h | h)) <;> simp [h]

end RTree

theorem bst_ins (k v : Int) (z : Nat) (t : RTree) (hb : BST t) (hk : k ∉ C13Spec.keys t.toList) : BST (t.ins k v z) := by
  induction t with
  | leaf => simp [RTree.ins, BST, RTree.toList]
  | node l p k' v' r ihl ihr =>
    obtain ⟨hbl, hbr, hlt, hgt⟩ := hb
    simp only [RTree.toList, C13Spec.keys, List.map_append, List.map_cons, List.mem_append, List.mem_cons, not_or] at hk
    obtain ⟨hkl, hkk, hkr⟩ := hk
    simp only [RTree.ins]
    split
    · rename_i h
      refine ⟨ihl hbl hkl, hbr, ?_, hgt⟩
      intro x hx
      rcases (RTree.mem_ins_toList k v z l x).mp hx with e | e
      · rw [e]; exact h
      · exact hlt x e
    · rename_i h
      refine ⟨hbl, ihr hbr hkr, hlt, ?_⟩
      intro x hx
      rcases (RTree.mem_ins_toList k v z r x).mp hx with e | e
      · rw [e]; simp only; omega
      · exact hgt x e

/-- the descent loop of `insert` ends under `attachPtr` -/
theorem insDescend_rep {s : St} (k : Int) (t : RTree) (x y f : Nat) (h : Rep s x t) (hf : t.height < f)
    (hk : k ∉ C13Spec.keys t.toList) : insDescend f s k x y = .at (t.attachPtr k y) := by
  induction t generalizing x y f with
  | leaf =>
    cases f with
    | zero => cases hf
    | succ f => simp only [Rep] at h; simp [insDescend, h, RTree.attachPtr]
  | node l p k' v' r ihl ihr =>
    obtain ⟨rfl, hp0, _, hkk, _, hl, hr⟩ := h
    simp only [RTree.toList, C13Spec.keys, List.map_append, List.map_cons, List.mem_append, List.mem_cons, not_or] at hk
    obtain ⟨hkl, hkne, hkr⟩ := hk
    cases f with
    | zero => cases hf
    | succ f =>
      simp only [RTree.height] at hf
      simp only [insDescend, hp0, if_false, hkk, RTree.attachPtr]
      split
      · exact ihl _ _ _ hl (by omega) hkl
      · rename_i h1
        have : k' < k := by omega
        rw [if_pos this]
        exact ihr _ _ _ hr (by omega) hkr

/-- what `insert` needs to know about the freshly allocated node -/
structure Fresh (s : St) (z : Nat) (k v : Int) : Prop where
  ne0 : z ≠ 0
  inb : z < s.heap.size
  key : (s.nd z).key = k
  val : (s.nd z).val = v
  left : (s.nd z).left = 0
  right : (s.nd z).right = 0

/-- linking below a node `y ≠ NIL`: `z.SetParent(y)`, then `y.Left = z` or `y.Right = z` by key order -/
theorem attach_ne_zero (s : St) (z y : Nat) (hy : y ≠ 0) :
    attach s z y = if ((s.setParent z y).nd z).key < ((s.setParent z y).nd y).key
      then (s.setParent z y).setLeft y z else (s.setParent z y).setRight y z := by
  unfold attach; simp [hy]

theorem attach_size (s : St) (z y : Nat) : (attach s z y).heap.size = s.heap.size := by
  unfold attach; simp only; repeat' split
  all_goals simp

theorem attach_nodes (s : St) (z y : Nat) : (attach s z y).nodes = s.nodes := by
  unfold attach; simp only; repeat' split
  all_goals simp

theorem attach_key (s : St) (z y q : Nat) : ((attach s z y).nd q).key = (s.nd q).key := by
  unfold attach; simp only; repeat' split
  all_goals simp

theorem attach_val (s : St) (z y q : Nat) : ((attach s z y).nd q).val = (s.nd q).val := by
  unfold attach; simp only; repeat' split
  all_goals simp

theorem attach_other (s : St) (z y q : Nat) (h : q ≠ y) :
    ((attach s z y).nd q).left = (s.nd q).left ∧ ((attach s z y).nd q).right = (s.nd q).right := by
  unfold attach; simp only; repeat' split
  all_goals simp [setLeft_left, setRight_right, h]

theorem attach_at (s : St) (z y : Nat) (hy : y ≠ 0) (hs : y < s.heap.size) :
    ((attach s z y).nd y).left = (if (s.nd z).key < (s.nd y).key then z else (s.nd y).left) ∧
    ((attach s z y).nd y).right = (if (s.nd z).key < (s.nd y).key then (s.nd y).right else z) := by
  rw [attach_ne_zero s z y hy]
  simp only [setParent_key]
  split <;> simp [setLeft_left, setRight_right, hs]

/-- linking the new leaf below `attachPtr` turns a represented subtree into its BST insertion -/
theorem attach_rep {s : St} {z : Nat} {k v : Int} (hz : Fresh s z k v) (t : RTree) (x y0 : Nat)
    (hne : t ≠ .leaf) (h : Rep s x t) (hnd : t.ptrs.Nodup) (hzt : z ∉ t.ptrs)
    (hk : k ∉ C13Spec.keys t.toList) :
    Rep (attach s z (t.attachPtr k y0)) x (t.ins k v z) := by
  induction t generalizing x y0 with
  | leaf => exact absurd rfl hne
  | node l p k' v' r ihl ihr =>
    obtain ⟨rfl, hp0, hps, hkk, hvv, hl, hr⟩ := h
    simp only [RTree.toList, C13Spec.keys, List.map_append, List.map_cons, List.mem_append, List.mem_cons, not_or] at hk
    obtain ⟨hkl, hkne, hkr⟩ := hk
    simp only [RTree.ptrs, List.nodup_append, List.nodup_cons, List.mem_append, List.mem_cons, not_or] at hnd hzt
    obtain ⟨hnl, ⟨hpr, hnr⟩, hlr⟩ := hnd
    obtain ⟨hzl, hzp, hzr⟩ := hzt
    have hpl : x ∉ l.ptrs := fun hm => hlr x hm x (by simp) rfl
    have hleafz : Rep (attach s z x) z (.node .leaf z k v .leaf) := by
      have ho := attach_other s z x z hzp
      exact ⟨rfl, hz.ne0, by rw [attach_size]; exact hz.inb, by rw [attach_key]; exact hz.key,
        by rw [attach_val]; exact hz.val, by rw [ho.1]; exact hz.left, by rw [ho.2]; exact hz.right⟩
    have hframe : ∀ (y : Nat) (t' : RTree) (q : Nat), Rep s q t' → y ∉ t'.ptrs → Rep (attach s z y) q t' := by
      intro y t' q hq hy
      apply rep_frame hq (by rw [attach_size]; exact Nat.le_refl _)
      intro w hw
      have ho := attach_other s z y w (fun e => hy (e ▸ hw))
      exact ⟨ho.1, ho.2, attach_key s z y w, attach_val s z y w⟩
    simp only [RTree.attachPtr, RTree.ins]
    split
    · rename_i hlt
      cases l with
      | leaf =>
        simp only [RTree.attachPtr, RTree.ins]
        have ha := attach_at s z x hp0 hps
        rw [hz.key, hkk, if_pos hlt, if_pos hlt] at ha
        refine ⟨rfl, hp0, by rw [attach_size]; exact hps, by rw [attach_key]; exact hkk,
          by rw [attach_val]; exact hvv, by rw [ha.1]; exact hleafz, ?_⟩
        rw [ha.2]; exact hframe x r _ hr hpr
      | node ll lp lk lv lrr =>
        have hy := RTree.attachPtr_mem k (.node ll lp lk lv lrr) x (by simp)
        have hyx : x ≠ (RTree.node ll lp lk lv lrr).attachPtr k x := fun e => hpl (e ▸ hy)
        have ho := attach_other s z ((RTree.node ll lp lk lv lrr).attachPtr k x) x hyx
        refine ⟨rfl, hp0, by rw [attach_size]; exact hps, by rw [attach_key]; exact hkk,
          by rw [attach_val]; exact hvv, ?_, ?_⟩
        · rw [ho.1]; exact ihl _ x (by simp) hl hnl hzl hkl
        · rw [ho.2]; exact hframe _ r _ hr (fun hm => hlr _ hy _ (by simp [hm]) rfl)
    · rename_i hlt
      have hgt : k' < k := by omega
      cases r with
      | leaf =>
        simp only [RTree.attachPtr, RTree.ins]
        have ha := attach_at s z x hp0 hps
        rw [hz.key, hkk, if_neg hlt, if_neg hlt] at ha
        refine ⟨rfl, hp0, by rw [attach_size]; exact hps, by rw [attach_key]; exact hkk,
          by rw [attach_val]; exact hvv, ?_, by rw [ha.2]; exact hleafz⟩
        rw [ha.1]; exact hframe x l _ hl hpl
      | node rl rp rk rv rr =>
        have hy := RTree.attachPtr_mem k (.node rl rp rk rv rr) x (by simp)
        have hyx : x ≠ (RTree.node rl rp rk rv rr).attachPtr k x := fun e => hpr (e ▸ hy)
        have ho := attach_other s z ((RTree.node rl rp rk rv rr).attachPtr k x) x hyx
        refine ⟨rfl, hp0, by rw [attach_size]; exact hps, by rw [attach_key]; exact hkk,
          by rw [attach_val]; exact hvv, ?_, ?_⟩
        · rw [ho.1]; exact hframe _ l _ hl (fun hm => hlr _ hm _ (by simp [hy]) rfl)
        · rw [ho.2]; exact ihr _ x (by simp) hr hnr hzr hkr

theorem nodup_ptrs_ins (k v : Int) (z : Nat) (t : RTree) (hn : t.ptrs.Nodup) (hz : z ∉ t.ptrs) : (t.ins k v z).ptrs.Nodup := by
  induction t with
  | leaf => simp [RTree.ins, RTree.ptrs]
  | node l p k' v' r ihl ihr =>
    simp only [RTree.ptrs, List.nodup_append, List.nodup_cons, List.mem_append, List.mem_cons, not_or] at hn hz
    obtain ⟨hnl, ⟨hpr, hnr⟩, hlr⟩ := hn
    obtain ⟨hzl, hzp, hzr⟩ := hz
    simp only [RTree.ins]
    split
    · simp only [RTree.ptrs, List.nodup_append, List.nodup_cons]
      refine ⟨ihl hnl hzl, ⟨hpr, hnr⟩, ?_⟩
      intro a ha b hb
      rcases (RTree.ptrs_ins k v z l a).mp ha with e | e
      · subst e
        rcases List.mem_cons.mp hb with e | e
        · subst e; exact hzp
        · exact fun e' => hzr (e' ▸ e)
      · exact hlr a e b (List.mem_cons.mp hb)
    · simp only [RTree.ptrs, List.nodup_append, List.nodup_cons]
      refine ⟨hnl, ⟨?_, ihr hnr hzr⟩, ?_⟩
      · intro hm
        rcases (RTree.ptrs_ins k v z r p).mp hm with e | e
        · exact hzp e.symm
        · exact hpr e
      · intro a ha b hb
        rcases List.mem_cons.mp hb with e | e
        · exact hlr a ha b (by simp [e])
        · rcases (RTree.ptrs_ins k v z r b).mp e with e' | e'
          · subst e'; exact fun e'' => hzl (e'' ▸ ha)
          · exact hlr a ha b (by simp [e'])

theorem lookup_ins (k v : Int) (z : Nat) (t : RTree) (hb : BST t) (hk : k ∉ C13Spec.keys t.toList) (q : Int) :
    C13Spec.lookup q (t.ins k v z).toList = if q = k then some v else C13Spec.lookup q t.toList := by
  have hn := bst_keys_nodup hb
  have hn' := bst_keys_nodup (bst_ins k v z t hb hk)
  apply Option.ext
  intro w
  rw [C13Spec.lookup_eq_some_iff hn', RTree.mem_ins_toList]
  by_cases h : q = k
  · subst h
    simp only [if_true, Prod.mk.injEq, true_and, Option.some.injEq]
    constructor
    · rintro (e | e)
      · exact e.symm
      · exact absurd (C13Spec.mem_keys_of_mem e) hk
    · intro e; exact Or.inl e.symm
  · simp only [h, if_false, Prod.mk.injEq, false_and, false_or, C13Spec.lookup_eq_some_iff hn]

/-! ### allocation (`Update` for a new key: `&mapNode{…}` + `append(this.nodes, node)`) -/

theorem alloc_size (s : St) (k v : Int) : (alloc s k v).heap.size = s.heap.size + 1 := by simp [alloc]
theorem alloc_root (s : St) (k v : Int) : (alloc s k v).root = s.root := rfl
theorem alloc_nodes (s : St) (k v : Int) : (alloc s k v).nodes = s.nodes.push s.heap.size := rfl

theorem alloc_nd_old (s : St) (k v : Int) (q : Nat) (h : q < s.heap.size) : (alloc s k v).nd q = s.nd q := by
  simp only [alloc, St.nd, Array.getD_eq_getD_getElem?, Array.getElem?_push]
  have : ¬ q = s.heap.size := by omega
  simp [this]

theorem alloc_nd_new (s : St) (k v : Int) :
    (alloc s k v).nd s.heap.size = { idx := s.nodes.size, left := 0, right := 0, red := true, key := k, val := v } := by
  simp only [alloc, St.nd, Array.getD_eq_getD_getElem?, Array.getElem?_push]
  simp

theorem alloc_fresh (s : St) (k v : Int) (h0 : 0 < s.heap.size) : Fresh (alloc s k v) s.heap.size k v := by
  have := alloc_nd_new s k v
  exact ⟨by omega, by rw [alloc_size]; omega, by rw [this], by rw [this], by rw [this], by rw [this]⟩

theorem alloc_rep {s : St} (k v : Int) {p : Nat} {t : RTree} (h : Rep s p t) : Rep (alloc s k v) p t := by
  apply rep_frame h (by rw [alloc_size]; omega)
  intro q hq
  have := (rep_ptrs_ne_zero h q hq).2
  rw [alloc_nd_old s k v q this]
  exact ⟨rfl, rfl, rfl, rfl⟩

end WaVerif.C13RB
