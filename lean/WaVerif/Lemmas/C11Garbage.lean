import WaVerif.Lemmas.C11Reach
/-! Unreferenced-from-outside sets of blocks (e.g. a dropped cycle) are never touched again by disciplined operations. -/
namespace WaVerif.C11

/-- `G` is closed garbage in configuration `c`: its members are allocated, not held by the mutator, not being destroyed,
every allocated block that refers to a member is itself a member, and no release in progress is about to touch one. -/
structure GInv (G : List Addr) (c : Cfg) : Prop where
  live : ∀ g ∈ G, g ∈ c.st.live
  noroot : ∀ g ∈ G, g ∉ c.st.roots
  nodying : ∀ g ∈ G, g ∉ dying c.stk
  closed : ∀ g ∈ G, ∀ x ∈ c.st.live, g ∈ (c.st.blk x).kids → x ∈ G
  nopend : ∀ f ∈ c.stk, ∀ k ∈ f.rem, k ∉ G

/-- contents of the members are those of `s` -/
def SameOn (G : List Addr) (s t : St) : Prop := ∀ g ∈ G, t.blk g = s.blk g

theorem ginv_decr {G : List Addr} {st : St} {o : Option Addr} {k : Addr} {ks : List Addr} {rest : List Frame}
    (h : GInv G ⟨st, ⟨o, k :: ks⟩ :: rest⟩) :
    GInv G (decr k ⟨st, ⟨o, ks⟩ :: rest⟩) ∧ SameOn G st (decr k ⟨st, ⟨o, ks⟩ :: rest⟩).st := by
  have hdy : dying (⟨o, k :: ks⟩ :: rest) = dying (⟨o, ks⟩ :: rest) := by cases o <;> simp
  have hkG : k ∉ G := h.nopend ⟨o, k :: ks⟩ (by simp) k (by simp)
  have hpend' : ∀ f ∈ (⟨o, ks⟩ :: rest : List Frame), ∀ k' ∈ f.rem, k' ∉ G := by
    intro f hf k' hk'
    rcases List.mem_cons.mp hf with e | e
    · subst e
      exact h.nopend ⟨o, k :: ks⟩ (by simp) k' (by simp [hk'])
    · exact h.nopend f (by simp [e]) k' hk'
  have hne : ∀ g ∈ G, g ≠ k := fun g hg e => hkG (e ▸ hg)
  unfold decr
  by_cases hk : k ∈ st.live
  · simp only [hk, if_true]
    by_cases h1 : (st.blk k).rc = 1
    · simp only [h1, if_true]
      refine ⟨⟨?_, ?_, ?_, ?_, ?_⟩, ?_⟩
      · exact h.live
      · exact h.noroot
      · intro g hg
        simp only [dying_cons_some, List.mem_cons, not_or]
        rw [← hdy]
        exact ⟨hne g hg, h.nodying g hg⟩
      · intro g hg x hx hgx
        by_cases hxk : x = k
        · subst hxk
          simp [St.emit, St.setBlk] at hgx
        · have : ((st.setBlk k ⟨0, []⟩).emit (.release k 1)).blk x = st.blk x := by simp [St.emit, St.setBlk, hxk]
          rw [this] at hgx
          exact h.closed g hg x hx hgx
      · intro f hf k' hk'
        rcases List.mem_cons.mp hf with e | e
        · subst e
          intro hk'G
          exact hkG (h.closed k' hk'G k hk hk')
        · exact hpend' f e k' hk'
      · intro g hg
        simp [St.emit, St.setBlk, hne g hg]
    · simp only [h1, if_false]
      by_cases h0 : (st.blk k).rc = 0
      · simp only [h0, if_true]
        refine ⟨⟨h.live, h.noroot, ?_, h.closed, hpend'⟩, fun g _ => rfl⟩
        intro g hg; rw [← hdy]; exact h.nodying g hg
      · simp only [h0, if_false]
        refine ⟨⟨h.live, h.noroot, ?_, ?_, hpend'⟩, ?_⟩
        · intro g hg; rw [← hdy]; exact h.nodying g hg
        · intro g hg x hx hgx
          by_cases hxk : x = k
          · subst hxk
            have : g ∈ (st.blk x).kids := by simpa [St.emit, St.setBlk] using hgx
            exact h.closed g hg x hx this
          · have : ((st.setBlk k ⟨(st.blk k).rc - 1, (st.blk k).kids⟩).emit (.release k (st.blk k).rc)).blk x = st.blk x := by
              simp [St.emit, St.setBlk, hxk]
            rw [this] at hgx
            exact h.closed g hg x hx hgx
        · intro g hg
          simp [St.emit, St.setBlk, hne g hg]
  · simp only [hk, if_false]
    refine ⟨⟨h.live, h.noroot, ?_, h.closed, hpend'⟩, fun g _ => rfl⟩
    intro g hg; rw [← hdy]; exact h.nodying g hg

theorem ginv_step {G : List Addr} {c : Cfg} (h : GInv G c) : GInv G (step c) ∧ SameOn G c.st (step c).st := by
  obtain ⟨st, stk⟩ := c
  unfold step
  match stk, h with
  | [], h => exact ⟨h, fun _ _ => rfl⟩
  | ⟨none, []⟩ :: rest, h =>
    simp only
    refine ⟨⟨h.live, h.noroot, ?_, h.closed, ?_⟩, fun _ _ => rfl⟩
    · intro g hg; simpa using h.nodying g hg
    · intro f hf; exact h.nopend f (by simp [hf])
  | ⟨some b0, []⟩ :: rest, h =>
    simp only
    have hb0G : b0 ∉ G := fun hg => h.nodying b0 hg (by simp)
    unfold St.free
    by_cases hb : b0 ∈ st.live
    · simp only [hb, if_true]
      refine ⟨⟨?_, h.noroot, ?_, ?_, ?_⟩, fun _ _ => rfl⟩
      · intro g hg
        exact (List.mem_erase_of_ne (fun (e : g = b0) => hb0G (e ▸ hg))).mpr (h.live g hg)
      · intro g hg hd
        exact h.nodying g hg (by simp [hd])
      · intro g hg x hx hgx
        exact h.closed g hg x (List.mem_of_mem_erase hx) hgx
      · intro f hf; exact h.nopend f (by simp [hf])
    · simp only [hb, if_false]
      refine ⟨⟨h.live, h.noroot, ?_, h.closed, ?_⟩, fun _ _ => rfl⟩
      · intro g hg hd
        exact h.nodying g hg (by simp [hd])
      · intro f hf; exact h.nopend f (by simp [hf])
  | ⟨o, k :: ks⟩ :: rest, h =>
    simp only
    exact ginv_decr h

theorem ginv_run {G : List Addr} {c : Cfg} (h : GInv G c) (n : Nat) : GInv G (run n c) ∧ SameOn G c.st (run n c).st := by
  induction n generalizing c with
  | zero => exact ⟨h, fun _ _ => rfl⟩
  | succ n ih =>
    obtain ⟨h1, s1⟩ := ginv_step h
    obtain ⟨h2, s2⟩ := ih h1
    exact ⟨h2, fun g hg => (s2 g hg).trans (s1 g hg)⟩

theorem ginv_release {G : List Addr} {s : St} {b : Addr} (h : GInv G ⟨s, [⟨none, [b]⟩]⟩) :
    GInv G ⟨release b s, []⟩ ∧ SameOn G s (release b s) := by
  obtain ⟨h1, s1⟩ := ginv_run h (mu ⟨s, [⟨none, [b]⟩]⟩)
  have ht := run_terminates (mu ⟨s, [⟨none, [b]⟩]⟩) ⟨s, [⟨none, [b]⟩]⟩ (Nat.le_refl _)
  rw [cfg_eta_nil _ ht] at h1
  exact ⟨h1, s1⟩

/-- closed garbage is left alone by every disciplined operation: it stays allocated, unreferenced from outside, and its
contents do not change -/
theorem garbage_stays {G : List Addr} {s : St} {op : Op} (ho : Owned s) (h : GInv G ⟨s, []⟩) (hok : op.Ok s) :
    GInv G ⟨apply s op, []⟩ ∧ SameOn G s (apply s op) := by
  have hnotheld : ∀ b, Held s b → b ∉ G := by
    rintro b (hr | ⟨x, hx, hk⟩) hg
    · exact h.noroot b hg hr
    · exact h.noroot x (h.closed b hg x (ho.root_live hx) hk) hx
  cases op with
  | alloc a =>
    have ha : a ∉ s.live := hok
    have hne : ∀ g ∈ G, g ≠ a := fun g hg e => ha (e ▸ h.live g hg)
    refine ⟨⟨?_, ?_, ?_, ?_, ?_⟩, ?_⟩
    · intro g hg; simp [apply, h.live g hg]
    · intro g hg
      simp only [apply, List.mem_cons, not_or]
      exact ⟨hne g hg, h.noroot g hg⟩
    · intro g _; simp
    · intro g hg x hx hgx
      simp only [apply, List.mem_cons] at hx
      by_cases hxa : x = a
      · subst hxa; simp [apply, St.setBlk] at hgx
      · have hxl : x ∈ s.live := by
          rcases hx with e | e
          · exact absurd e hxa
          · exact e
        have : (apply s (.alloc a)).blk x = s.blk x := by simp [apply, St.setBlk, hxa]
        rw [this] at hgx
        exact h.closed g hg x hxl hgx
    · intro f hf; simp at hf
    · intro g hg; simp [apply, St.setBlk, hne g hg]
  | retain b =>
    have hbG : b ∉ G := hnotheld b hok
    have hne : ∀ g ∈ G, g ≠ b := fun g hg e => hbG (e ▸ hg)
    refine ⟨⟨h.live, ?_, ?_, ?_, ?_⟩, ?_⟩
    · intro g hg
      simp only [apply, List.mem_cons, not_or]
      exact ⟨hne g hg, h.noroot g hg⟩
    · intro g _; simp
    · intro g hg x hx hgx
      have hx' : x ∈ s.live := hx
      by_cases hxb : x = b
      · subst hxb
        have : g ∈ (s.blk x).kids := by simpa [apply, St.setBlk] using hgx
        exact h.closed g hg x hx' this
      · have : (apply s (.retain b)).blk x = s.blk x := by simp [apply, St.setBlk, hxb]
        rw [this] at hgx
        exact h.closed g hg x hx' hgx
    · intro f hf; simp at hf
    · intro g hg; simp [apply, St.setBlk, hne g hg]
  | store x b =>
    obtain ⟨hb, hx⟩ := hok
    have hbG : b ∉ G := fun hg => h.noroot b hg hb
    have hxr : x ∈ s.roots := List.mem_of_mem_erase hx
    have hxG : x ∉ G := fun hg => h.noroot x hg hxr
    have hne : ∀ g ∈ G, g ≠ x := fun g hg e => hxG (e ▸ hg)
    refine ⟨⟨h.live, ?_, ?_, ?_, ?_⟩, ?_⟩
    · intro g hg hr
      exact h.noroot g hg (List.mem_of_mem_erase hr)
    · intro g _; simp
    · intro g hg y hy hgy
      have hy' : y ∈ s.live := hy
      by_cases hyx : y = x
      · subst hyx
        have : g ∈ b :: (s.blk y).kids := by simpa [apply, St.setBlk] using hgy
        rcases List.mem_cons.mp this with e | e
        · exact absurd (e ▸ hg) hbG
        · exact h.closed g hg y hy' e
      · have : (apply s (.store x b)).blk y = s.blk y := by simp [apply, St.setBlk, hyx]
        rw [this] at hgy
        exact h.closed g hg y hy' hgy
    · intro f hf; simp at hf
    · intro g hg; simp [apply, St.setBlk, hne g hg]
  | unstore x b =>
    obtain ⟨hx, hb⟩ := hok
    have hxG : x ∉ G := fun hg => h.noroot x hg hx
    have hbG : b ∉ G := fun hg => hxG (h.closed b hg x (ho.root_live hx) hb)
    have hne : ∀ g ∈ G, g ≠ x := fun g hg e => hxG (e ▸ hg)
    have hstart : GInv G ⟨s.setBlk x ⟨(s.blk x).rc, (s.blk x).kids.erase b⟩, [⟨none, [b]⟩]⟩ := by
      refine ⟨h.live, h.noroot, ?_, ?_, ?_⟩
      · intro g _; simp
      · intro g hg y hy hgy
        have hy' : y ∈ s.live := hy
        by_cases hyx : y = x
        · subst hyx
          have : g ∈ (s.blk y).kids.erase b := by simpa [St.setBlk] using hgy
          exact h.closed g hg y hy' (List.mem_of_mem_erase this)
        · have : (s.setBlk x ⟨(s.blk x).rc, (s.blk x).kids.erase b⟩).blk y = s.blk y := by simp [St.setBlk, hyx]
          rw [this] at hgy
          exact h.closed g hg y hy' hgy
      · intro f hf k hk
        simp only [List.mem_singleton] at hf
        subst hf
        simp only [List.mem_singleton] at hk
        subst hk
        exact hbG
    obtain ⟨h1, s1⟩ := ginv_release hstart
    refine ⟨h1, ?_⟩
    intro g hg
    have := s1 g hg
    simp only [apply]
    rw [this]
    simp [St.setBlk, hne g hg]
  | drop b =>
    have hb : b ∈ s.roots := hok
    have hbG : b ∉ G := fun hg => h.noroot b hg hb
    have hstart : GInv G ⟨{ s with roots := s.roots.erase b }, [⟨none, [b]⟩]⟩ := by
      refine ⟨h.live, ?_, ?_, h.closed, ?_⟩
      · intro g hg hr; exact h.noroot g hg (List.mem_of_mem_erase hr)
      · intro g _; simp
      · intro f hf k hk
        simp only [List.mem_singleton] at hf
        subst hf
        simp only [List.mem_singleton] at hk
        subst hk
        exact hbG
    obtain ⟨h1, s1⟩ := ginv_release hstart
    exact ⟨h1, s1⟩

theorem garbage_stays_all {G : List Addr} {s : St} {ops : List Op} (ho : Owned s) (h : GInv G ⟨s, []⟩) (hok : AllOk s ops) :
    GInv G ⟨applyAll s ops, []⟩ ∧ SameOn G s (applyAll s ops) := by
  induction ops generalizing s with
  | nil => exact ⟨h, fun _ _ => rfl⟩
  | cons op ops ih =>
    obtain ⟨h1, s1⟩ := garbage_stays ho h hok.1
    obtain ⟨h2, s2⟩ := ih (owned_apply ho hok.1) h1 hok.2
    exact ⟨h2, fun g hg => (s2 g hg).trans (s1 g hg)⟩

end WaVerif.C11
