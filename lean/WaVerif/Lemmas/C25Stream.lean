import WaVerif.Model.C25Stream
/-!
# Base.Stream lemmas: reading through a bounded buffer observes the concatenation of the chunks
-/
namespace WaVerif.Stream

theorem Buffered.next_none_flat {cap : Nat} {s : Buffered} (hw : s.WF cap)
    (h : s.next cap = none) : s.flat = [] := by
  obtain ⟨hcap, hcs⟩ := hw
  unfold Buffered.next at h
  cases hb : s.buf with
  | cons x xs => rw [hb] at h; simp at h
  | nil =>
    rw [hb] at h
    simp only at h
    cases hr : s.rest with
    | nil => simp [Buffered.flat, hb, hr]
    | cons c cs =>
      exfalso
      have hne : c ≠ [] := hcs c (by simp [hr])
      rw [hr] at h
      simp only [readChunk] at h
      by_cases hc : c.length ≤ cap
      · rw [if_pos hc] at h
        cases c with
        | nil => exact hne rfl
        | cons y ys => simp at h
      · rw [if_neg hc] at h
        cases c with
        | nil => exact hne rfl
        | cons y ys =>
          obtain ⟨k, rfl⟩ : ∃ k, cap = k + 1 := ⟨cap - 1, by omega⟩
          simp at h

theorem Buffered.next_wf {cap : Nat} {s s' : Buffered} {b : Nat} (hw : s.WF cap)
    (h : s.next cap = some (b, s')) : s'.WF cap := by
  obtain ⟨hcap, hcs⟩ := hw
  refine ⟨hcap, ?_⟩
  unfold Buffered.next at h
  cases hb : s.buf with
  | cons x xs =>
    rw [hb] at h
    simp only [Option.some.injEq, Prod.mk.injEq] at h
    obtain ⟨_, rfl⟩ := h
    exact hcs
  | nil =>
    rw [hb] at h
    simp only at h
    cases hr : s.rest with
    | nil => rw [hr] at h; simp [readChunk] at h
    | cons c cs =>
      rw [hr] at h hcs
      simp only [readChunk] at h
      by_cases hc : c.length ≤ cap
      · rw [if_pos hc] at h
        cases c with
        | nil => simp at h
        | cons y ys =>
          simp only [Option.some.injEq, Prod.mk.injEq] at h
          obtain ⟨_, rfl⟩ := h
          intro d hd; exact hcs d (by simp [hd])
      · rw [if_neg hc] at h
        cases ht : c.take cap with
        | nil => rw [ht] at h; simp at h
        | cons y ys =>
          rw [ht] at h
          simp only [Option.some.injEq, Prod.mk.injEq] at h
          obtain ⟨_, rfl⟩ := h
          intro d hd
          simp only [List.mem_cons] at hd
          rcases hd with rfl | hd
          · intro hnil
            have := congrArg List.length hnil
            simp at this; omega
          · exact hcs d (by simp [hd])

theorem ofChunks_wf {cap : Nat} {cs : Chunks} (hcap : 1 ≤ cap) (h : ChunksWF cs) :
    (Buffered.ofChunks cs).WF cap := ⟨hcap, h⟩

@[simp] theorem ofChunks_flat (cs : Chunks) : (Buffered.ofChunks cs).flat = cs.flatten := by
  simp [Buffered.ofChunks, Buffered.flat]

/-! ## the generic consumers observe the flat stream -/

theorem takeUntilC_flat (cap delim : Nat) (s : Buffered) (acc : List Nat) (hw : s.WF cap) :
    (takeUntilC cap delim s acc).map (fun r => (r.1, r.2.flat)) = takeUntil delim s.flat acc
    ∧ ∀ r, takeUntilC cap delim s acc = some r → r.2.WF cap := by
  fun_induction takeUntilC cap delim s acc
  case case1 hn =>
    rw [Buffered.next_none_flat hw hn]; simp [takeUntil]
  case case2 hn =>
    rw [Buffered.next_flat hn]
    simp only [takeUntil, if_true, Option.map_some, true_and]
    intro r hr; simp only [Option.some.injEq] at hr; subst hr
    exact Buffered.next_wf hw hn
  case case3 hn hb ih =>
    rw [Buffered.next_flat hn]
    simp only [takeUntil, hb, if_false]
    exact ih (Buffered.next_wf hw hn)

theorem takeNC_flat (cap : Nat) (n : Nat) (s : Buffered) (acc : List Nat) (hw : s.WF cap) :
    (takeNC cap n s acc).map (fun r => (r.1, r.2.flat)) = takeN n s.flat acc
    ∧ ∀ r, takeNC cap n s acc = some r → r.2.WF cap := by
  induction n generalizing s acc with
  | zero => simp [takeNC, takeN]; exact hw
  | succ n ih =>
    unfold takeNC
    cases hn : s.next cap with
    | none => rw [Buffered.next_none_flat hw hn]; simp [takeN]
    | some r =>
      obtain ⟨b, s1⟩ := r
      rw [Buffered.next_flat hn]
      simp only [takeN]
      exact ih s1 _ (Buffered.next_wf hw hn)

end WaVerif.Stream
