import WaVerif.Model.C03Spec
import Std.Tactic.BVDecide
/-! Uniform tactics for the C03 rows: symbolic execution of the regenerated C function by `simp`, then `bv_decide`. -/
namespace WaVerif.C03
open WaVerif WaVerif.Wasm

/-- WebAssembly's shift / rotate counts `y.toNat % w` in bit-vector form (so that `bv_decide` sees them) -/
theorem shl_mod32 (x y : BitVec 32) : x <<< (y.toNat % 32) = x <<< (y % 32#32) := by
  simp [BitVec.shiftLeft_eq', BitVec.toNat_umod]
theorem shl_mod64 (x y : BitVec 64) : x <<< (y.toNat % 64) = x <<< (y % 64#64) := by
  simp [BitVec.shiftLeft_eq', BitVec.toNat_umod]
theorem ushr_mod32 (x y : BitVec 32) : x >>> (y.toNat % 32) = x >>> (y % 32#32) := by
  simp [BitVec.ushiftRight_eq', BitVec.toNat_umod]
theorem ushr_mod64 (x y : BitVec 64) : x >>> (y.toNat % 64) = x >>> (y % 64#64) := by
  simp [BitVec.ushiftRight_eq', BitVec.toNat_umod]
theorem sshr_mod32 (x y : BitVec 32) : x.sshiftRight (y.toNat % 32) = x.sshiftRight' (y % 32#32) := by
  simp [BitVec.sshiftRight_eq', BitVec.toNat_umod]
theorem sshr_mod64 (x y : BitVec 64) : x.sshiftRight (y.toNat % 64) = x.sshiftRight' (y % 64#64) := by
  simp [BitVec.sshiftRight_eq', BitVec.toNat_umod]

theorem rotl_mod32 (x y : BitVec 32) :
    x.rotateLeft (y.toNat % 32) = (x <<< (y % 32#32)) ||| (x >>> (32#32 - y % 32#32)) := by
  have h : y.toNat % 32 < 32 := Nat.mod_lt _ (by decide)
  rw [BitVec.rotateLeft_def, Nat.mod_eq_of_lt h]
  have e1 : y.toNat % 32 = (y % 32#32).toNat := by simp [BitVec.toNat_umod]
  have e2 : 32 - y.toNat % 32 = (32#32 - y % 32#32).toNat := by
    rw [BitVec.toNat_sub, BitVec.toNat_umod]; simp; omega
  rw [e2, e1, BitVec.shiftLeft_eq', BitVec.ushiftRight_eq']
theorem rotr_mod32 (x y : BitVec 32) :
    x.rotateRight (y.toNat % 32) = (x >>> (y % 32#32)) ||| (x <<< (32#32 - y % 32#32)) := by
  have h : y.toNat % 32 < 32 := Nat.mod_lt _ (by decide)
  rw [BitVec.rotateRight_def, Nat.mod_eq_of_lt h]
  have e1 : y.toNat % 32 = (y % 32#32).toNat := by simp [BitVec.toNat_umod]
  have e2 : 32 - y.toNat % 32 = (32#32 - y % 32#32).toNat := by
    rw [BitVec.toNat_sub, BitVec.toNat_umod]; simp; omega
  rw [e2, e1, BitVec.shiftLeft_eq', BitVec.ushiftRight_eq']
theorem rotl_nat32 (x y : BitVec 32) : x.rotateLeft y.toNat = (x <<< (y % 32#32)) ||| (x >>> (32#32 - y % 32#32)) := by
  rw [← rotl_mod32, BitVec.rotateLeft_mod_eq_rotateLeft]
theorem rotr_nat32 (x y : BitVec 32) : x.rotateRight y.toNat = (x >>> (y % 32#32)) ||| (x <<< (32#32 - y % 32#32)) := by
  rw [← rotr_mod32, BitVec.rotateRight_mod_eq_rotateRight]
theorem rotl_mod64 (x y : BitVec 64) :
    x.rotateLeft (y.toNat % 64) = (x <<< (y % 64#64)) ||| (x >>> (64#64 - y % 64#64)) := by
  have h : y.toNat % 64 < 64 := Nat.mod_lt _ (by decide)
  rw [BitVec.rotateLeft_def, Nat.mod_eq_of_lt h]
  have e1 : y.toNat % 64 = (y % 64#64).toNat := by simp [BitVec.toNat_umod]
  have e2 : 64 - y.toNat % 64 = (64#64 - y % 64#64).toNat := by
    rw [BitVec.toNat_sub, BitVec.toNat_umod]; simp; omega
  rw [e2, e1, BitVec.shiftLeft_eq', BitVec.ushiftRight_eq']
theorem rotr_mod64 (x y : BitVec 64) :
    x.rotateRight (y.toNat % 64) = (x >>> (y % 64#64)) ||| (x <<< (64#64 - y % 64#64)) := by
  have h : y.toNat % 64 < 64 := Nat.mod_lt _ (by decide)
  rw [BitVec.rotateRight_def, Nat.mod_eq_of_lt h]
  have e1 : y.toNat % 64 = (y % 64#64).toNat := by simp [BitVec.toNat_umod]
  have e2 : 64 - y.toNat % 64 = (64#64 - y % 64#64).toNat := by
    rw [BitVec.toNat_sub, BitVec.toNat_umod]; simp; omega
  rw [e2, e1, BitVec.shiftLeft_eq', BitVec.ushiftRight_eq']

theorem ctz_zero32 : Wasm.ctz (0#32) = 32#32 := by decide
theorem ctz_zero64 : Wasm.ctz (0#64) = 64#64 := by decide

theorem ctzGo_le {w : Nat} (x : BitVec w) : ∀ n acc, Wasm.ctzGo x n acc ≤ acc + n := by
  intro n
  induction n with
  | zero => intro acc; simp [Wasm.ctzGo]
  | succ n ih =>
    intro acc
    simp only [Wasm.ctzGo]
    split
    · omega
    · have := ih (acc + 1); omega

theorem ctz_le64 (x : BitVec 64) : (Wasm.ctz x).ule 64#64 = true := by
  have h := ctzGo_le x 64 0
  simp only [Wasm.ctz, BitVec.ule, BitVec.toNat_ofNat, decide_eq_true_eq]
  omega

/-- the `int` result of `__builtin_ctzll`, converted back to `int64_t`, is the count itself -/
theorem ctz_conv64 (x : BitVec 64) : BitVec.signExtend 64 (BitVec.setWidth 32 (Wasm.ctz x)) = Wasm.ctz x := by
  have h := ctz_le64 x
  generalize Wasm.ctz x = c at h
  bv_decide (timeout := 900)

theorem rotl_nat64 (x y : BitVec 64) : x.rotateLeft y.toNat = (x <<< (y % 64#64)) ||| (x >>> (64#64 - y % 64#64)) := by
  rw [← rotl_mod64, BitVec.rotateLeft_mod_eq_rotateLeft]
theorem rotr_nat64 (x y : BitVec 64) : x.rotateRight y.toNat = (x >>> (y % 64#64)) ||| (x <<< (64#64 - y % 64#64)) := by
  rw [← rotr_mod64, BitVec.rotateRight_mod_eq_rotateRight]

macro "c03_simp" : tactic => `(tactic|
  simp [-BitVec.shiftLeft_eq', -BitVec.ushiftRight_eq', -BitVec.sshiftRight_eq', ctz_conv64,
    Full0, Full1, Full2, Full3, Partial1, Partial2, Sound1, Sound2, expect_some, expect_none, expect_ite, ctzBV, ctz_zero32, ctz_zero64,
    wBin, wRel, wEqz, wUn, wWrap, wExtS, wExtU, wSelect, wConst, binop, relop, b2i, Wasm.unop,
    shl_mod32, shl_mod64, ushr_mod32, ushr_mod64, sshr_mod32, sshr_mod64, rotl_mod32, rotr_mod32, rotl_mod64, rotr_mod64, rotl_nat32, rotr_nat32, rotl_nat64, rotr_nat64,
    Guard.addOk, Guard.subOk, Guard.mulOk, Guard.divS, Guard.divU, Guard.cnt32, Guard.shlRepr, Guard.shl32, Guard.shl64,
    Guard.rotl32, Guard.rotr32, Guard.rotl64, Guard.rotr64,
    Res.bind_ok, Res.bind_ub, Res.bind_stuck, Res.map_ok, Res.map_ub, Res.map_stuck, Res.andThen_ok, Res.andThen_ub, Res.andThen_stuck,
    finish_inl, finish_inr, seqSt_inl, seqSt_inr, orUB_some, orUB_none, orStuck_some, orStuck_none, Res.map_ite, orUB_ite, Res.bind_ite,
    Res.andThen_ite, finish_ite, seqSt_ite, conv_ite, castTo_ite, ty_ite, isZero_ite, wide_ite, writeL_ite,
    crun, cexec, ceval, look, writeL, CVal.ty, conv, uac, arith, sarith, uarith, scmp, ucmp, shiftOp, sshl, cunop, builtin,
    castTo, CExpr.ty, CastTy.ty, litVal, b2c, CVal.isZero, CVal.wide, CVal.count, BinOp.isShift, BinOp.isCmp])

/-- peel the outcome / value constructors off an equation between two normal returns -/
macro "c03_inj" : tactic => `(tactic|
  simp only [Outcome.ret.injEq, Option.some.injEq, CVal.i32.injEq, CVal.i64.injEq, CVal.u32.injEq, CVal.u64.injEq, and_true, true_and,
    reduceCtorEq])

/-- rows: after symbolic execution a bit-vector statement (possibly under `if`s for the UB / trap conditions) remains -/
macro "c03_tac" : tactic => `(tactic|
  first
  | (c03_simp; done)
  | (c03_simp
     intros
     repeat' split
     all_goals first
       | rfl
       | (subst_vars; simp [ctz_zero32, ctz_zero64]; done)
       | (c03_inj; done)
       | (c03_inj; bv_decide (timeout := 900))
       | bv_decide (timeout := 900)
       | (simp_all; done)))

/-- `Sound` rows: the C function returned, so no UB branch was taken; the value then is WebAssembly's -/
macro "c03_sound" : tactic => `(tactic|
  (c03_simp
   intros
   rename_i h
   revert h
   repeat' split
   all_goals first
     | (intro h; cases h; done)
     | (intro h; cases h; first | rfl | (c03_inj; done) | (c03_inj; bv_decide (timeout := 900)) | (simp_all; done))
     | (intro h; simp_all; done)))

end WaVerif.C03
