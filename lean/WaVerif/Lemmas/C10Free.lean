import WaVerif.Lemmas.C10Steps
/-! # C10 — the `free` path preserves the invariant -/
namespace WaVerif.C10

/-- change the general list (and the rover) only -/
theorem invX_setFree {s : State} {ex ex' : List FBlk} (h : InvX s ex) (fr : List FBlk) (rv : Nat)
    (hcov : ∀ x, sumf (cov x) ex' + sumf (cov x) fr = sumf (cov x) ex + sumf (cov x) s.free)
    (hbad : sumf bad8 ex' + sumf bad8 fr = 0)
    (hsep : Sepd fr) : InvX { s with free := fr, rover := rv } ex' := by
  refine { wf := h.wf, alive := h.alive, hp_lo := h.hp_lo, hp_top := h.hp_top, hp8 := h.hp8, top := h.top,
           pages_le := h.pages_le, tiling := ?_, al8 := ?_, sep := hsep, liveReq := h.liveReq,
           liveCls := h.liveCls, fxk := ?_ }
  · intro x
    have := h.tiling x
    have := hcov x
    simp [allBlocks] at *
    omega
  · have := h.al8
    simp [allBlocks] at *
    omega
  · intro k hk b hb
    apply h.fxk k hk b
    rcases k with _|_|_|k <;> simpa [getFx] using hb

theorem disj_free_of_inv {s : State} {ex : List FBlk} {bp : FBlk} (h : InvX s (bp :: ex)) : Disj bp s.free := by
  intro a ha
  have hm : a ∈ ex ++ allBlocks s := by simp [allBlocks, ha]
  have ht : TilesHeap s ([bp] ++ (ex ++ allBlocks s)) := by simpa using h.tiling
  exact tiles_disj ht (by simp) hm

theorem inv_l128Free {s : State} {ex : List FBlk} {bp : FBlk} (h : InvX s (bp :: ex)) :
    InvX (l128Free s bp).1 ex := by
  have hd := disj_free_of_inv h
  have hb := h.al8
  simp [allBlocks] at hb
  unfold l128Free
  apply invX_setFree h
  · intro x
    rw [sumf_cov_insertFree]
    simp; omega
  · have : sumf bad8 (insertFree bp s.free) = 0 := sumf_bad8_insertFree bp s.free (by omega) (by omega)
    omega
  · exact insert_sep bp s.free h.sep hd

theorem l128Free_frame (s : State) (bp : FBlk) :
    (l128Free s bp).1.cfg = s.cfg ∧ (l128Free s bp).1.live = s.live ∧ ∀ k, getFx (l128Free s bp).1 k = getFx s k := by
  refine ⟨rfl, rfl, ?_⟩
  intro k
  rcases k with _|_|_|k <;> rfl

theorem flushList_frame (s : State) (l : List FBlk) :
    (flushList s l).1.cfg = s.cfg ∧ (flushList s l).1.live = s.live ∧ ∀ k, getFx (flushList s l).1 k = getFx s k := by
  induction l generalizing s with
  | nil => exact ⟨rfl, rfl, fun _ => rfl⟩
  | cons b r ih =>
    have h1 := l128Free_frame s b
    have h2 := ih (l128Free s b).1
    simp only [flushList]
    refine ⟨?_, ?_, ?_⟩
    · rw [h2.1, h1.1]
    · rw [h2.2.1, h1.2.1]
    · intro k; rw [h2.2.2 k, h1.2.2 k]

theorem inv_flushList {s : State} {ex : List FBlk} (l : List FBlk) (h : InvX s (l ++ ex)) :
    InvX (flushList s l).1 ex := by
  induction l generalizing s with
  | nil => simpa [flushList] using h
  | cons b r ih =>
    have h1 : InvX (l128Free s b).1 (r ++ ex) := inv_l128Free (by simpa using h)
    have := ih h1
    simpa [flushList] using this

end WaVerif.C10

namespace WaVerif.C10

/-- change one fixed list only (a rearrangement between the list and the blocks in transit) -/
theorem invX_setFx {s : State} {ex ex' : List FBlk} (h : InvX s ex) (k : Nat) (hk : k < 4) (l : List FBlk)
    (hsum : ∀ f, sumf f ex' + sumf f l = sumf f ex + sumf f (getFx s k))
    (hcls : ∀ b ∈ l, b.2 = classSize k) : InvX (setFx s k l) ex' := by
  refine { wf := by simpa using h.wf, alive := by simpa using h.alive, hp_lo := by simpa using h.hp_lo,
           hp_top := by simpa using h.hp_top, hp8 := by simpa using h.hp8, top := by simpa using h.top,
           pages_le := by simpa using h.pages_le, tiling := ?_, al8 := ?_, sep := by simpa using h.sep,
           liveReq := by simpa using h.liveReq, liveCls := by simpa using h.liveCls, fxk := ?_ }
  · intro x
    have h1 := h.tiling x
    have h2 := hsum (cov x)
    have h3 := sumf_all_setFx (cov x) s k l
    simp at *
    omega
  · have h1 := h.al8
    have h2 := hsum bad8
    have h3 := sumf_all_setFx bad8 s k l
    simp at *
    omega
  · intro j hj b hb
    rw [getFx_setFx s k j l hk hj] at hb
    split at hb
    · rename_i hjk; subst hjk; exact hcls b hb
    · exact h.fxk j hj b hb

theorem lfixedFreeBlock_fst (s : State) (k : Nat) (b : FBlk) :
    (lfixedFreeBlock s k b).1 =
      (let s1 := if (getFx s k).length = s.cfg.cap then (flushList (setFx s k []) (getFx s k)).1 else s
       setFx s1 k (b :: getFx s1 k)) := by
  unfold lfixedFreeBlock
  split <;> rfl

theorem inv_lfixedFreeBlock {s : State} {ex : List FBlk} {b : FBlk} {k : Nat} (h : InvX s (b :: ex))
    (hk : k < 4) (hb : b.2 = classSize k) : InvX (lfixedFreeBlock s k b).1 ex := by
  rw [lfixedFreeBlock_fst]
  simp only
  split
  · -- flush first
    have h0 : InvX (setFx s k []) (getFx s k ++ (b :: ex)) := by
      apply invX_setFx h k hk []
      · intro f; simp; omega
      · intro c hc; cases hc
    have h1 := inv_flushList (getFx s k) h0
    have hf := (flushList_frame (setFx s k []) (getFx s k)).2.2 k
    rw [getFx_setFx s k k [] hk hk] at hf
    simp at hf
    rw [hf]
    apply invX_setFx h1 k hk [b]
    · intro f; rw [hf]; simp; omega
    · intro c hc; simp at hc; subst hc; exact hb
  · apply invX_setFx h k hk (b :: getFx s k)
    · intro f; simp; omega
    · intro c hc
      cases hc with
      | head => exact hb
      | tail _ hc' => exact h.fxk k hk c hc'

theorem sumf_map_erase (f : FBlk → Nat) (b : LBlk) (l : List LBlk) (h : b ∈ l) :
    sumf f ((l.erase b).map LBlk.blk) + f b.blk = sumf f (l.map LBlk.blk) := by
  induction l with
  | nil => cases h
  | cons a r ih =>
    by_cases hab : a = b
    · subst hab; simp; omega
    · have hr : b ∈ r := by
        cases h with
        | head => exact absurd rfl hab
        | tail _ h' => exact h'
      have hne : ¬ (a == b) = true := by simp [hab]
      rw [List.erase_cons_tail hne]
      have := ih hr
      simp at *; omega

/-- take a block out of the live set -/
theorem invX_eraseLive {s : State} {ex : List FBlk} (h : InvX s ex) (b : LBlk) (hb : b ∈ s.live) :
    InvX { s with live := s.live.erase b } (b.blk :: ex) := by
  refine { wf := h.wf, alive := h.alive, hp_lo := h.hp_lo, hp_top := h.hp_top, hp8 := h.hp8, top := h.top,
           pages_le := h.pages_le, tiling := ?_, al8 := ?_, sep := h.sep, liveReq := ?_,
           liveCls := ?_, fxk := ?_ }
  · intro x
    have := h.tiling x
    have := sumf_map_erase (cov x) b s.live hb
    simp [allBlocks] at *
    omega
  · have := h.al8
    have := sumf_map_erase bad8 b s.live hb
    simp [allBlocks] at *
    omega
  · intro c hc; exact h.liveReq c (List.mem_of_mem_erase hc)
  · intro hcap c hc; exact h.liveCls hcap c (List.mem_of_mem_erase hc)
  · intro k hk c hc
    apply h.fxk k hk c
    rcases k with _|_|_|k <;> simpa [getFx] using hc

/-- hand a block in transit to the caller -/
theorem invX_addLive {s : State} {ex : List FBlk} {b : FBlk} (h : InvX s (b :: ex)) (req : Nat)
    (hreq : req ≤ b.2) (hcls : s.cfg.cap ≠ 0 → ClsSize b.2) : InvX (addLive s b req) ex := by
  unfold addLive
  have e : (⟨b.1, b.2, req⟩ : LBlk).blk = b := rfl
  refine { wf := h.wf, alive := h.alive, hp_lo := h.hp_lo, hp_top := h.hp_top, hp8 := h.hp8, top := h.top,
           pages_le := h.pages_le, tiling := ?_, al8 := ?_, sep := h.sep, liveReq := ?_,
           liveCls := ?_, fxk := ?_ }
  · intro x
    have := h.tiling x
    simp [allBlocks, e] at *
    omega
  · have := h.al8
    simp [allBlocks, e] at *
    omega
  · intro c hc
    cases hc with
    | head => exact hreq
    | tail _ hc' => exact h.liveReq c hc'
  · intro hcap c hc
    cases hc with
    | head => exact hcls hcap
    | tail _ hc' => exact h.liveCls hcap c hc'
  · intro k hk c hc
    apply h.fxk k hk c
    rcases k with _|_|_|k <;> simpa [getFx] using hc

end WaVerif.C10

namespace WaVerif.C10

theorem lfixedFreeBlock_cfg (s : State) (k : Nat) (b : FBlk) : (lfixedFreeBlock s k b).1.cfg = s.cfg := by
  rw [lfixedFreeBlock_fst]
  simp only
  split
  · simp [(flushList_frame (setFx s k []) (getFx s k)).1]
  · simp

theorem cls_small {c : Config} {n : Nat} (hc : c.cap ≠ 0) (h : ClsSize n) (h80 : n ≤ 80) :
    (ptrAndFixedSize c n).1 < 4 ∧ n = classSize (ptrAndFixedSize c n).1 := by
  unfold ClsSize at h
  unfold ptrAndFixedSize
  rcases h with h | h | h | h | h <;> simp [hc, h, classSize] <;> omega

theorem findLive_mem {ptr : Nat} {l : List LBlk} {b : LBlk} (h : findLive ptr l = some b) :
    b ∈ l ∧ b.addr + 8 = ptr := by
  unfold findLive at h
  have h1 := List.mem_of_find?_eq_some h
  have h2 := List.find?_some h
  simp at h2
  exact ⟨h1, h2⟩

theorem inv_free {s : State} (h : Inv s) (ptr : Nat) : Inv (free s ptr).st ∧ (free s ptr).st.cfg = s.cfg := by
  unfold free
  split
  · exact ⟨h, rfl⟩
  · rename_i b hfind
    have hb := (findLive_mem hfind).1
    have h1 := invX_eraseLive h b hb
    simp only
    split
    · rename_i hc
      have hcls := cls_small hc.1 (h.liveCls hc.1 b hb) hc.2
      have := inv_lfixedFreeBlock (k := (ptrAndFixedSize s.cfg b.size).1) h1 hcls.1 hcls.2
      exact ⟨this, by rw [lfixedFreeBlock_cfg]⟩
    · exact ⟨inv_l128Free h1, rfl⟩

end WaVerif.C10
