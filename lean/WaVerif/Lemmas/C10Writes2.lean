import WaVerif.Lemmas.C10Writes
/-! # C10 — write logs of the primitives -/
namespace WaVerif.C10

/-- every logged word lies outside every block of `live` -/
def AllOutside (live : List LBlk) (ws : List Nat) : Prop := ∀ w ∈ ws, ∀ b ∈ live, WordOutside w b

theorem allOutside_append {live : List LBlk} {a b : List Nat} (ha : AllOutside live a) (hb : AllOutside live b) :
    AllOutside live (a ++ b) := by
  intro w hw
  rcases List.mem_append.1 hw with h | h
  · exact ha w h
  · exact hb w h

theorem fxHead_word {s : State} {ex : List FBlk} (h : InvX s ex) {k : Nat} (hk : k < 4) {w : Nat}
    (hw : w = fxHead s.cfg k ∨ w = fxHead s.cfg k + 4) : ∀ b ∈ s.live, WordOutside w b := by
  apply word_in_heads h
  unfold heapStart; unfold fxHead at hw; omega

theorem writes_reuseFixed {s : State} {ex : List FBlk} {k : Nat} (h : InvX s ex) (hk : k < 4)
    {s' : State} {b : FBlk} {w : List Nat} (hr : reuseFixed s k = some (s', b, w)) : AllOutside s.live w := by
  unfold reuseFixed at hr
  split at hr
  · cases hr
  · rename_i p r hg
    simp only [Option.some.injEq, Prod.mk.injEq] at hr
    obtain ⟨_, _, h3⟩ := hr
    subst h3
    have hp : p ∈ nonLive s ex := getFx_mem_nonLive (k := k) (by rw [hg]; simp)
    intro x hx
    simp only [List.mem_cons, List.mem_nil_iff, or_false] at hx
    rcases hx with hx | hx | hx
    · exact fxHead_word h hk (Or.inl hx)
    · exact fxHead_word h hk (Or.inr hx)
    · subst hx
      exact word_in_nonlive h hp (by omega) (by simp only [bend]; omega)

theorem writes_reuseVarying {s : State} {ex : List FBlk} {n : Nat} (h : InvX s ex) (hpos : 0 < n)
    {s' : State} {b : FBlk} {w : List Nat} (hr : reuseVarying s n = (s', some b, w)) : AllOutside s.live w := by
  unfold reuseVarying at hr
  simp only at hr
  split at hr
  · cases hr
  · rename_i p prev hsc
    have hs := scan_split hsc
    have hrp := mem_scanOrder.1 hs.1
    have hm := mem_ringPairs hrp
    have hsrc := ringPairs_src hrp
    simp only at hm hsrc
    have hpf : p ∈ s.free := by
      rcases hm with hm | hm
      · rw [hm] at hs; simp at hs
      · exact hm
    simp only [Prod.mk.injEq, Option.some.injEq] at hr
    obtain ⟨_, _, h3⟩ := hr
    subst h3
    intro x hx
    simp only [List.mem_cons, List.mem_nil_iff, or_false] at hx
    rcases hx with hx | hx | hx | hx | hx
    · subst hx; exact word_in_nonlive h (free_mem_nonLive hpf) (by omega) (by simp only [bend]; omega)
    · subst hx; exact word_in_nonlive h (free_mem_nonLive hpf) (by omega) (by simp only [bend]; omega)
    · subst hx; exact ring_header_outside h hsrc (by omega) (by omega)
    · subst hx; exact word_in_nonlive h (free_mem_nonLive hpf) (by omega) (by simp only [bend]; omega)
    · subst hx; exact word_in_nonlive h (free_mem_nonLive hpf) (by omega) (by simp only [bend]; omega)
  · rename_i p prev hsc
    have hs := scan_exact hsc
    have hrp := mem_scanOrder.1 hs.1
    have hm := mem_ringPairs hrp
    have hsrc := ringPairs_src hrp
    simp only at hm hsrc
    have hpf : p ∈ s.free := by
      rcases hm with hm | hm
      · rw [hm] at hs; simp at hs; omega
      · exact hm
    have hw : w = [prev + 4, p.1 + 4] := by
      split at hr <;> (simp only [Prod.mk.injEq] at hr; exact hr.2.2.symm)
    subst hw
    intro x hx
    simp only [List.mem_cons, List.mem_nil_iff, or_false] at hx
    rcases hx with hx | hx
    · subst hx; exact ring_header_outside h hsrc (by omega) (by omega)
    · subst hx; exact word_in_nonlive h (free_mem_nonLive hpf) (by omega) (by simp only [bend]; omega)

theorem writes_newAllocation {s : State} {ex : List FBlk} {n : Nat} (h : InvX s ex)
    {s' : State} {b : FBlk} {w : List Nat} (hr : newAllocation s n = (s', some b, w)) : AllOutside s.live w := by
  unfold newAllocation at hr
  simp only at hr
  split at hr
  · cases hr
  · simp only [Prod.mk.injEq] at hr
    obtain ⟨_, _, h3⟩ := hr
    subst h3
    intro x hx
    simp only [List.mem_cons, List.mem_nil_iff, or_false] at hx
    rcases hx with hx | hx <;> (subst hx; exact word_above_heap h (by omega))

theorem writes_l128Free {s : State} {ex : List FBlk} {bp : FBlk} (h : InvX s (bp :: ex)) :
    AllOutside s.live (l128Free s bp).2 := by
  unfold l128Free
  simp only
  have hbp : bp ∈ nonLive s (bp :: ex) := ex_mem_nonLive (by simp)
  have hpsrc := predBlk_src (headAddr s.cfg, 0) bp.1 s.free
  apply allOutside_append
  · intro x hx
    split at hx
    · simp only [List.mem_cons, List.mem_nil_iff, or_false] at hx
      rcases hx with hx | hx <;> (subst hx; exact word_in_nonlive h hbp (by omega) (by simp only [bend]; omega))
    · simp only [List.mem_cons, List.mem_nil_iff, or_false] at hx
      subst hx; exact word_in_nonlive h hbp (by omega) (by simp only [bend]; omega)
  · have hp : ∀ x, (x = (predBlk (headAddr s.cfg, 0) bp.1 s.free).1 ∨ x = (predBlk (headAddr s.cfg, 0) bp.1 s.free).1 + 4) →
        ∀ b ∈ s.live, WordOutside x b := by
      intro x hx
      apply ring_header_outside h (a := (predBlk (headAddr s.cfg, 0) bp.1 s.free).1)
      · rcases hpsrc with hq | hq
        · left; rw [hq]
        · right; exact ⟨_, hq, rfl⟩
      · omega
      · omega
    intro x hx
    split at hx
    · simp only [List.mem_cons, List.mem_nil_iff, or_false] at hx
      exact hp x hx
    · simp only [List.mem_cons, List.mem_nil_iff, or_false] at hx
      exact hp x (Or.inr hx)

theorem writes_flushList {s : State} {ex : List FBlk} (l : List FBlk) (h : InvX s (l ++ ex)) :
    AllOutside s.live (flushList s l).2 := by
  induction l generalizing s with
  | nil => intro w hw; simp [flushList] at hw
  | cons b r ih =>
    have hb : InvX s (b :: (r ++ ex)) := by simpa using h
    have h1 : InvX (l128Free s b).1 (r ++ ex) := inv_l128Free hb
    have w1 := writes_l128Free hb
    have w2 := ih h1
    rw [(l128Free_frame s b).2.1] at w2
    simp only [flushList]
    exact allOutside_append w1 w2

theorem lfixedFreeBlock_snd (s : State) (k : Nat) (b : FBlk) :
    (lfixedFreeBlock s k b).2 =
      (if (getFx s k).length = s.cfg.cap then (flushList (setFx s k []) (getFx s k)).2 ++ [fxHead s.cfg k, fxHead s.cfg k + 4] else [])
        ++ [b.1 + 4, fxHead s.cfg k + 4, fxHead s.cfg k] := by
  unfold lfixedFreeBlock
  split <;> rfl

theorem writes_lfixedFreeBlock {s : State} {ex : List FBlk} {b : FBlk} {k : Nat} (h : InvX s (b :: ex)) (hk : k < 4) :
    AllOutside s.live (lfixedFreeBlock s k b).2 := by
  rw [lfixedFreeBlock_snd]
  have hheads : AllOutside s.live [fxHead s.cfg k, fxHead s.cfg k + 4] := by
    intro x hx
    simp only [List.mem_cons, List.mem_nil_iff, or_false] at hx
    exact fxHead_word h hk hx
  apply allOutside_append
  · split
    · apply allOutside_append
      · have h0 : InvX (setFx s k []) (getFx s k ++ (b :: ex)) := by
          apply invX_setFx h k hk []
          · intro f; simp; omega
          · intro c hc; cases hc
        have := writes_flushList (getFx s k) h0
        simpa using this
      · exact hheads
    · intro x hx; cases hx
  · intro x hx
    simp only [List.mem_cons, List.mem_nil_iff, or_false] at hx
    rcases hx with hx | hx | hx
    · subst hx; exact word_in_nonlive h (ex_mem_nonLive (List.mem_cons_self ..)) (by omega) (by simp only [bend]; omega)
    · exact fxHead_word h hk (Or.inr hx)
    · exact fxHead_word h hk (Or.inl hx)

end WaVerif.C10

namespace WaVerif.C10

theorem lfixedFreeBlock_live (s : State) (k : Nat) (b : FBlk) : (lfixedFreeBlock s k b).1.live = s.live := by
  rw [lfixedFreeBlock_fst]
  simp only
  split
  · simp [(flushList_frame (setFx s k []) (getFx s k)).2.1]
  · simp

theorem writes_malloc {s : State} (h : Inv s) (req : Nat) (hok : OpOK s.cfg (.malloc req)) :
    AllOutside s.live (malloc s req).writes := by
  have hpos := effSize_pos s.cfg req
  unfold malloc
  simp only
  split
  · rename_i s1 b w hf
    split at hf
    · rename_i hc
      have hk := effList_small s.cfg req hc.1 hc.2
      exact writes_reuseFixed h hk.1 hf
    · cases hf
  · split
    · rename_i s1 b w hv
      exact writes_reuseVarying h hpos hv
    · split
      · rename_i s1 b w hv
        exact writes_newAllocation h hv
      · intro w hw; cases hw

theorem writes_free {s : State} (h : Inv s) (ptr : Nat) :
    AllOutside (free s ptr).st.live (free s ptr).writes := by
  unfold free
  split
  · intro w hw; cases hw
  · rename_i b hfind
    have hb := (findLive_mem hfind).1
    have h1 := invX_eraseLive h b hb
    simp only
    split
    · rename_i hc
      have hcls := cls_small hc.1 (h.liveCls hc.1 b hb) hc.2
      have := writes_lfixedFreeBlock (k := (ptrAndFixedSize s.cfg b.size).1) h1 hcls.1
      simp only [lfixedFreeBlock_live]
      exact this
    · have := writes_l128Free h1
      exact this

/-- The write-log clause: no word an operation stores to lies inside a block that is live before and after it. -/
theorem writes_step {s : State} (h : Inv s) (op : Op) (hok : OpOK s.cfg op) :
    ∀ w ∈ (step s op).writes, ∀ b ∈ s.live, b ∈ (step s op).st.live → WordOutside w b := by
  unfold step
  have := h.alive
  simp only [this, ne_eq, not_true_eq_false, if_false]
  cases op with
  | malloc req =>
    intro w hw b hb _
    exact writes_malloc h req hok w hw b hb
  | free ptr =>
    intro w hw b _ hb
    exact writes_free h ptr w hw b hb

end WaVerif.C10
