import WaVerif.Lemmas.C15Fits
namespace WaVerif.C15
open WaVerif

theorem is63bit_iff (x : Int) : is63bit x = true ↔ -(2:Int)^62 ≤ x ∧ x ≤ (2:Int)^62 - 1 := by simp [is63bit]
theorem is32bit_iff (x : Int) : is32bit x = true ↔ -(2:Int)^31 ≤ x ∧ x ≤ (2:Int)^31 - 1 := by simp [is32bit]

theorem fits_add_of_63 {x y : Int} (hx : is63bit x = true) (hy : is63bit y = true) : fitsS 63 (x + y) := by
  rw [is63bit_iff] at hx hy; unfold fitsS; simp at *; omega

theorem fits_sub_of_63 {x y : Int} (hx : is63bit x = true) (hy : is63bit y = true) : fitsS 63 (x - y) := by
  rw [is63bit_iff] at hx hy; unfold fitsS; simp at *; omega

theorem fits_mul_of_32 {x y : Int} (hx : is32bit x = true) (hy : is32bit y = true) : fitsS 63 (x * y) := by
  rw [is32bit_iff] at hx hy
  have h1 : x.natAbs ≤ 2147483648 := by simp at hx; omega
  have h2 : y.natAbs ≤ 2147483648 := by simp at hy; omega
  have h3 : (x * y).natAbs ≤ 2147483648 * 2147483648 := by
    rw [Int.natAbs_mul]; exact Nat.mul_le_mul h1 h2
  unfold fitsS; simp; omega

theorem fits_tmod {x y : Int} (hy : fitsS 63 y) (hy0 : y ≠ 0) : fitsS 63 (Int.tmod x y) := by
  have h : (Int.tmod x y).natAbs = x.natAbs % y.natAbs := Int.natAbs_tmod x y
  have h2 : x.natAbs % y.natAbs < y.natAbs := Nat.mod_lt _ (by omega)
  unfold fitsS at *
  omega

theorem fits_tdiv {x y : Int} (hx : fitsS 63 x) (hne : ¬(x = -(2:Int)^63 ∧ y = -1)) : fitsS 63 (Int.tdiv x y) := by
  have h : (Int.tdiv x y).natAbs = x.natAbs / y.natAbs := Int.natAbs_tdiv x y
  have hle : x.natAbs / y.natAbs ≤ x.natAbs := Nat.div_le_self _ _
  by_cases hx' : x = -(2:Int)^63
  · have hy : y ≠ -1 := fun e => hne ⟨hx', e⟩
    by_cases hy1 : y = 1
    · subst hy1; rw [Int.tdiv_one]; exact hx
    · by_cases hy0 : y = 0
      · subst hy0; simp [fitsS]
      · have h2 : 2 ≤ y.natAbs := by omega
        have h3 : x.natAbs / y.natAbs ≤ x.natAbs / 2 := Nat.div_le_div_left h2 (by omega)
        unfold fitsS at *
        omega
  · unfold fitsS at *
    omega

end WaVerif.C15

namespace WaVerif.C15
open WaVerif

theorem toInt_and64 {x y : Int} (hx : fitsS 63 x) (hy : fitsS 63 y) :
    (BitVec.ofInt 64 x &&& BitVec.ofInt 64 y).toInt = land x y := by
  rw [← ofInt_land]; exact wrap64_of_fits (fitsS_land hx hy)
theorem toInt_or64 {x y : Int} (hx : fitsS 63 x) (hy : fitsS 63 y) :
    (BitVec.ofInt 64 x ||| BitVec.ofInt 64 y).toInt = lor x y := by
  rw [← ofInt_lor]; exact wrap64_of_fits (fitsS_lor hx hy)
theorem toInt_xor64 {x y : Int} (hx : fitsS 63 x) (hy : fitsS 63 y) :
    (BitVec.ofInt 64 x ^^^ BitVec.ofInt 64 y).toInt = lxor x y := by
  rw [← ofInt_lxor]; exact wrap64_of_fits (fitsS_lxor hx hy)
theorem toInt_andnot64 {x y : Int} (hx : fitsS 63 x) (hy : fitsS 63 y) :
    (BitVec.ofInt 64 x &&& ~~~BitVec.ofInt 64 y).toInt = landnot x y := by
  rw [← ofInt_landnot]; exact wrap64_of_fits (fitsS_landnot hx hy)

theorem binaryOp_exact_of (qw : Bool) (op : BOp) (x y : Int)
    (h : qw = true → ¬(op = .quo ∧ x = -(2:Int)^63 ∧ y = -1)) :
    binaryOp qw op x y = if op.isDiv && decide (y = 0) then none else some (exactBin op x y) := by
  unfold binaryOp
  by_cases hf : (fits64 x && fits64 y) = true
  · rw [if_pos hf]
    simp only [Bool.and_eq_true, fits64_iff] at hf
    obtain ⟨hx, hy⟩ := hf
    cases op
    · -- add
      by_cases h63 : (is63bit x && is63bit y) = true
      · simp only [Bool.and_eq_true] at h63
        simp [h63.1, h63.2, exactBin, BOp.isDiv, wrap64_of_fits (fits_add_of_63 h63.1 h63.2)]
      · simp [h63, exactBin, BOp.isDiv]
    · by_cases h63 : (is63bit x && is63bit y) = true
      · simp only [Bool.and_eq_true] at h63
        simp [h63.1, h63.2, exactBin, BOp.isDiv, wrap64_of_fits (fits_sub_of_63 h63.1 h63.2)]
      · simp [h63, exactBin, BOp.isDiv]
    · by_cases h32 : (is32bit x && is32bit y) = true
      · simp only [Bool.and_eq_true] at h32
        simp [h32.1, h32.2, exactBin, BOp.isDiv, wrap64_of_fits (fits_mul_of_32 h32.1 h32.2)]
      · simp [h32, exactBin, BOp.isDiv]
    · -- quo
      by_cases hy0 : y = 0
      · simp [hy0, BOp.isDiv]
      · cases qw
        · simp [hy0, BOp.isDiv, exactBin]
        · have hne : ¬(x = -(2:Int)^63 ∧ y = -1) := fun e => h rfl ⟨rfl, e⟩
          simp [hy0, BOp.isDiv, exactBin, wrap64_of_fits (fits_tdiv hx hne)]
    · by_cases hy0 : y = 0
      · simp [hy0, BOp.isDiv]
      · simp [hy0, BOp.isDiv, exactBin, wrap64_of_fits (fits_tmod hy hy0)]
    · simp [BOp.isDiv, exactBin, toInt_and64 hx hy]
    · simp [BOp.isDiv, exactBin, toInt_or64 hx hy]
    · simp [BOp.isDiv, exactBin, toInt_xor64 hx hy]
    · simp [BOp.isDiv, exactBin, toInt_andnot64 hx hy]
  · rw [if_neg hf]
    cases op <;> simp [BOp.isDiv, exactBin] <;> (by_cases hy0 : y = 0 <;> simp [hy0])

end WaVerif.C15
