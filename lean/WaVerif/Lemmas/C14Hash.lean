import WaVerif.Model.C14Hash
/-! helper lemmas for Props/C14Hash: GF(2)-linearity of the CRC bit step, xor involution, Adler invariant -/
namespace WaVerif.C14
open WaVerif.C14.Gen

theorem xor_xor_cancel (x m : Nat) : (x ^^^ m) ^^^ m = x := by
  rw [Nat.xor_assoc, Nat.xor_self, Nat.xor_zero]

/-- the bit step is additive over xor -/
theorem crcBitStep_xor (poly a b : Nat) :
    crcBitStep poly (a ^^^ b) = crcBitStep poly a ^^^ crcBitStep poly b := by
  unfold crcBitStep
  have hd := @Nat.xor_div_two a b
  by_cases ha : a % 2 = 1 <;> by_cases hb : b % 2 = 1
  · have : ¬ ((a ^^^ b) % 2 = 1) := by simp [Nat.xor_mod_two_eq_one, ha, hb]
    simp only [this, ha, hb, if_true, if_false, hd]
    rw [Nat.xor_assoc, Nat.xor_comm poly, Nat.xor_assoc, Nat.xor_self, Nat.xor_zero]
  · have : (a ^^^ b) % 2 = 1 := by simp [Nat.xor_mod_two_eq_one, ha, hb]
    simp only [this, ha, hb, if_true, if_false, hd]
    rw [Nat.xor_assoc, Nat.xor_comm (b / 2), ← Nat.xor_assoc]
  · have : (a ^^^ b) % 2 = 1 := by simp [Nat.xor_mod_two_eq_one, ha, hb]
    simp only [this, ha, hb, if_true, if_false, hd]
    rw [Nat.xor_assoc]
  · have : ¬ ((a ^^^ b) % 2 = 1) := by simp [Nat.xor_mod_two_eq_one, ha, hb]
    simp only [this, ha, hb, if_false, hd]

theorem crcBits_xor (poly : Nat) : ∀ k a b, crcBits poly k (a ^^^ b) = crcBits poly k a ^^^ crcBits poly k b
  | 0, a, b => rfl
  | k + 1, a, b => by simp only [crcBits, crcBitStep_xor, crcBits_xor poly k]

/-- `k` steps on a register whose low `k` bits are zero just shift -/
theorem crcBits_shifted (poly : Nat) : ∀ k h, crcBits poly k (h * 2 ^ k) = h
  | 0, h => by simp [crcBits]
  | k + 1, h => by
    have h1 : h * 2 ^ (k + 1) % 2 = 0 := by rw [Nat.pow_succ, ← Nat.mul_assoc]; omega
    have h2 : h * 2 ^ (k + 1) / 2 = h * 2 ^ k := by rw [Nat.pow_succ, ← Nat.mul_assoc]; omega
    simp only [crcBits, crcBitStep, h1, h2]
    simpa using crcBits_shifted poly k h

/-- split a register into its low byte and the rest -/
theorem split_low_byte (c : Nat) : c = (c % 256) ^^^ (c / 256 * 2 ^ 8) := by
  apply Nat.eq_of_testBit_eq
  intro i
  have h256 : (256 : Nat) = 2 ^ 8 := rfl
  rw [Nat.testBit_xor, h256, Nat.testBit_mod_two_pow, Nat.testBit_mul_two_pow, Nat.testBit_div_two_pow]
  by_cases hi : i < 8
  · have h8 : ¬ 8 ≤ i := by omega
    simp [hi, h8]
  · have : 8 ≤ i := by omega
    simp [hi, this, Nat.sub_add_cancel this]

/-- the table-driven step equals eight bit steps, for any table that holds the bit-serial entries -/
theorem crcStep_eq_bitwise (poly : Nat) (tab : List Nat)
    (htab : ∀ i, i < 256 → tab.getD i 0 = crcTableEntry poly i) (crc b : Nat) (hb : b < 256) :
    crcStep tab crc b = crcBitwiseStep poly crc b := by
  unfold crcStep crcBitwiseStep
  have hidx : (crc % 256) ^^^ b < 256 := by
    have : crc % 256 < 2 ^ 8 := by omega
    exact Nat.xor_lt_two_pow this (by omega)
  rw [htab _ hidx, crcTableEntry]
  have e : crc ^^^ b = ((crc % 256) ^^^ b) ^^^ (crc / 256 * 2 ^ 8) := by
    conv => lhs; rw [split_low_byte crc]
    rw [Nat.xor_assoc, Nat.xor_comm (crc / 256 * 2 ^ 8) b, ← Nat.xor_assoc]
  conv => rhs; rw [e, crcBits_xor, crcBits_shifted]

/-! ### Adler-32 -/

/-- invariant of the update loop: no 32-bit overflow can occur in the next step -/
def AdlerInv (ab : Nat × Nat) : Prop := ab.1 ≤ adlerT ∧ ab.2 ≤ adlerT ∧ (ab.1 ≤ ab.2 ∨ ab.1 < adlerMod)

theorem adlerStep_inv (ab : Nat × Nat) (p : Nat) (hp : p < 256) (h : AdlerInv ab) :
    AdlerInv (adlerStep ab p) ∧
    (adlerStep ab p).1 % adlerMod = (ab.1 + p) % adlerMod ∧
    (adlerStep ab p).2 % adlerMod = (ab.2 + (ab.1 + p)) % adlerMod := by
  obtain ⟨h1, h2, h3⟩ := h
  simp only [AdlerInv, adlerT, adlerMod] at *
  unfold adlerStep
  simp only [adlerT, adlerMod]
  by_cases hc : (ab.2 + (ab.1 + p) % 2 ^ 32) % 2 ^ 32 > (4294967295 - 255) / 2
  · simp only [hc, ↓reduceIte]
    refine ⟨⟨?_, ?_, ?_⟩, ?_, ?_⟩ <;> omega
  · simp only [hc, ↓reduceIte]
    refine ⟨⟨?_, ?_, ?_⟩, ?_, ?_⟩ <;> omega

end WaVerif.C14
