import WaVerif.Model.C31
/-! Helper lemmas for C31 (about the reference semantics `Model/C31.lean`): byte-array reads / writes, bit-vector facts,
one-step unfolding equations. -/
open WaVerif.Wasm
namespace WaVerif.C31

theorem getD_setIfInBounds (b : Array (BitVec 8)) (i j : Nat) (v : BitVec 8) :
    (b.setIfInBounds i v).getD j 0 = if i = j ∧ i < b.size then v else b.getD j 0 := by
  simp only [Array.getD_eq_getD_getElem?, Array.getElem?_setIfInBounds]
  by_cases h : i = j
  · subst h
    by_cases h2 : i < b.size <;> simp [h2]
  · simp [h]

theorem writeLE_size (b : Array (BitVec 8)) (ea n v : Nat) : (writeLE b ea n v).size = b.size := by
  induction n generalizing b ea v with
  | zero => rfl
  | succ n ih => simp [writeLE, ih]

theorem writeLE_frame (b : Array (BitVec 8)) (ea n v a : Nat) (h : a < ea ∨ ea + n ≤ a) :
    (writeLE b ea n v).getD a 0 = b.getD a 0 := by
  induction n generalizing b ea v with
  | zero => rfl
  | succ n ih =>
    simp only [writeLE]
    rw [ih _ _ _ (by omega), getD_setIfInBounds]
    have : ¬ (ea = a ∧ ea < b.size) := by omega
    simp [this]

theorem readLE_congr (b c : Array (BitVec 8)) (ea n : Nat) (h : ∀ a, ea ≤ a → a < ea + n → b.getD a 0 = c.getD a 0) :
    readLE b ea n = readLE c ea n := by
  induction n generalizing ea with
  | zero => rfl
  | succ n ih =>
    simp only [readLE]
    rw [h ea (by omega) (by omega), ih (ea + 1) (fun a h1 h2 => h a (by omega) (by omega))]

theorem readLE_writeLE (b : Array (BitVec 8)) (ea n v : Nat) (h : ea + n ≤ b.size) :
    readLE (writeLE b ea n v) ea n = v % 256 ^ n := by
  induction n generalizing b ea v with
  | zero => simp [readLE, Nat.mod_one]
  | succ n ih =>
    simp only [writeLE, readLE]
    rw [writeLE_frame _ _ _ _ _ (by omega), getD_setIfInBounds]
    have hb : ea < b.size := by omega
    simp only [hb, and_self, if_true]
    rw [ih _ _ _ (by simp; omega)]
    rw [Nat.pow_succ', Nat.mod_mul]
    simp [BitVec.toNat_ofNat]

theorem readLE_lt (b : Array (BitVec 8)) (ea n : Nat) : readLE b ea n < 256 ^ n := by
  induction n generalizing ea with
  | zero => simp [readLE]
  | succ n ih =>
    simp only [readLE]
    have := ih (ea + 1)
    have h2 := (b.getD ea 0).isLt
    rw [Nat.pow_succ']
    omega



theorem fillBytes_size (b : Array (BitVec 8)) (d n : Nat) (v : BitVec 8) : (fillBytes b d v n).size = b.size := by
  induction n generalizing b d with
  | zero => rfl
  | succ n ih => simp [fillBytes, ih]

theorem fillBytes_getD (b : Array (BitVec 8)) (d n i : Nat) (v : BitVec 8) (h : d + n ≤ b.size) :
    (fillBytes b d v n).getD i 0 = if d ≤ i ∧ i < d + n then v else b.getD i 0 := by
  induction n generalizing b d with
  | zero => simp [fillBytes]; omega
  | succ n ih =>
    simp only [fillBytes]
    rw [ih _ _ (by simp; omega), getD_setIfInBounds]
    by_cases h1 : d = i
    · subst h1
      have : ¬ (d + 1 ≤ d ∧ d < d + 1 + n) := by omega
      have h3 : d < b.size := by omega
      simp [this, h3]
    · by_cases h2 : d + 1 ≤ i ∧ i < d + 1 + n
      · have : d ≤ i ∧ i < d + (n + 1) := by omega
        simp [h2, this]
      · have : ¬ (d ≤ i ∧ i < d + (n + 1)) := by omega
        simp [h2, this, h1]

theorem writeList_size (b : Array (BitVec 8)) (d : Nat) (l : List (BitVec 8)) : (writeList b d l).size = b.size := by
  induction l generalizing b d with
  | nil => rfl
  | cons x xs ih => simp [writeList, ih]

theorem writeList_getD (b : Array (BitVec 8)) (d i : Nat) (l : List (BitVec 8)) (h : d + l.length ≤ b.size) :
    (writeList b d l).getD i 0 = if d ≤ i ∧ i < d + l.length then l.getD (i - d) 0 else b.getD i 0 := by
  induction l generalizing b d with
  | nil => simp [writeList]; omega
  | cons x xs ih =>
    simp only [writeList, List.length_cons] at *
    rw [ih _ _ (by simp; omega), getD_setIfInBounds]
    by_cases h1 : d = i
    · subst h1
      have : ¬ (d + 1 ≤ d ∧ d < d + 1 + xs.length) := by omega
      have h3 : d < b.size := by omega
      simp [this, h3]
    · by_cases h2 : d + 1 ≤ i ∧ i < d + 1 + xs.length
      · have h4 : d ≤ i ∧ i < d + (xs.length + 1) := by omega
        have h5 : i - d = (i - (d + 1)) + 1 := by omega
        simp [h2, h4, h5]
      · have : ¬ (d ≤ i ∧ i < d + (xs.length + 1)) := by omega
        simp [h2, this, h1]

theorem readList_length (b : Array (BitVec 8)) (s n : Nat) : (readList b s n).length = n := by
  induction n generalizing s with
  | zero => rfl
  | succ n ih => simp [readList, ih]

theorem readList_getD (b : Array (BitVec 8)) (s n j : Nat) (h : j < n) : (readList b s n).getD j 0 = b.getD (s + j) 0 := by
  induction n generalizing s j with
  | zero => omega
  | succ n ih =>
    cases j with
    | zero => simp [readList]
    | succ j =>
      simp only [readList, List.getD_cons_succ]
      rw [ih (s + 1) j (by omega)]
      congr 1; omega

/-- `memory.copy` reads the OLD contents, also when the ranges overlap -/
theorem copyBytes_getD (b : Array (BitVec 8)) (d s n i : Nat) (h : d + n ≤ b.size) :
    (copyBytes b d s n).getD i 0 = if d ≤ i ∧ i < d + n then b.getD (s + (i - d)) 0 else b.getD i 0 := by
  unfold copyBytes
  rw [writeList_getD _ _ _ _ (by rw [readList_length]; exact h), readList_length]
  by_cases h1 : d ≤ i ∧ i < d + n
  · simp only [h1, and_self, if_true]
    exact readList_getD _ _ _ _ (by omega)
  · simp [h1]


theorem pow256 (n : Nat) : 256 ^ n = 2 ^ (8 * n) := by
  rw [Nat.pow_mul]

theorem extendNat_mod {w k : Nat} (n : Nat) (sx : Bool) (x : BitVec k) :
    extendNat w n sx (x.toNat % 256 ^ n) =
      if sx then (x.setWidth (8 * n)).signExtend w else (x.setWidth (8 * n)).setWidth w := by
  unfold extendNat
  rw [pow256]
  cases sx
  · simp only [Bool.false_eq_true, if_false]
    apply BitVec.eq_of_toNat_eq
    simp [BitVec.toNat_ofNat, BitVec.toNat_setWidth]
  · simp only [if_true]
    congr 1
    apply BitVec.eq_of_toNat_eq
    simp [BitVec.toNat_ofNat, BitVec.toNat_setWidth]


theorem rotateRight_rotateLeft {w : Nat} (x : BitVec w) (n : Nat) : (x.rotateLeft n).rotateRight n = x := by
  apply BitVec.eq_of_getLsbD_eq
  intro i hi
  have hw : 0 < w := by omega
  have hr : n % w < w := Nat.mod_lt _ hw
  rw [BitVec.getLsbD_rotateRight]
  by_cases h1 : i < w - n % w
  · simp only [h1, decide_true, cond_true]
    rw [BitVec.getLsbD_rotateLeft]
    by_cases h3 : n % w + i < n % w
    · omega
    · simp only [h3, decide_false, cond_false]
      have : n % w + i < w := by omega
      simp [this]
  · simp only [h1, decide_false, cond_false, hi, decide_true, Bool.true_and]
    rw [BitVec.getLsbD_rotateLeft]
    have h3 : i - (w - n % w) < n % w := by omega
    simp only [h3, decide_true, cond_true]
    congr 1; omega

theorem ctzGo_le {w : Nat} (x : BitVec w) (n acc : Nat) : ctzGo x n acc ≤ acc + n := by
  induction n generalizing acc with
  | zero => simp [ctzGo]
  | succ n ih =>
    simp only [ctzGo]
    split
    · omega
    · have := ih (acc + 1); omega

theorem ctzGo_eq_iff {w : Nat} (x : BitVec w) (n acc : Nat) :
    ctzGo x n acc = acc + n ↔ ∀ i, acc ≤ i → i < acc + n → x.getLsbD i = false := by
  induction n generalizing acc with
  | zero => simp [ctzGo]; intro i h1 h2; omega
  | succ n ih =>
    simp only [ctzGo]
    split
    · rename_i hb
      constructor
      · intro h; omega
      · intro h; have := h acc (by omega) (by omega); simp [hb] at this
    · rename_i hb
      rw [show acc + (n + 1) = acc + 1 + n by omega, ih (acc + 1)]
      constructor
      · intro h i h1 h2
        by_cases hi : i = acc
        · subst hi; simpa using hb
        · exact h i (by omega) h2
      · intro h i h1 h2
        exact h i (by omega) h2

theorem setWidth_signExtend32 (x : BitVec 32) : (x.signExtend 64).setWidth 32 = x := by
  apply BitVec.eq_of_getLsbD_eq
  intro i hi
  simp [BitVec.getLsbD_setWidth, BitVec.getLsbD_signExtend, hi]
  omega

theorem setWidth_setWidth32 (x : BitVec 32) : (x.setWidth 64).setWidth 32 = x := by
  apply BitVec.eq_of_getLsbD_eq
  intro i hi
  simp [BitVec.getLsbD_setWidth, hi]

theorem setWidth64_setWidth32 (y : BitVec 64) : (y.setWidth 32).setWidth 64 = y &&& 0xffffffff#64 := by
  apply BitVec.eq_of_toNat_eq
  simp only [BitVec.toNat_setWidth, BitVec.toNat_and]
  have := Nat.and_two_pow_sub_one_eq_mod y.toNat 32
  simp at this
  simp [this]
  omega

def Res.toOption {α : Type} : Res α → Option α
  | .ok a => some a
  | _ => none

def isShift : BinK → Bool
  | .shl | .shr_s | .shr_u | .rotl | .rotr => true
  | _ => false

end WaVerif.C31
