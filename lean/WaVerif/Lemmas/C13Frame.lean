import WaVerif.Lemmas.C13Rotate
/-!
C13 — what the tree surgery of `map.wa` never touches: the slot array, the heap size and the
`Key` / `Val` / `NodeIdx` fields of every node (`SameKV`).  Holds for rotations, both fix-up loops
and the pinned `delete(z)`; it is what makes `Delete`'s slot bookkeeping independent of the tree shape.
-/
namespace WaVerif.C13RB

structure SameKV (s s' : St) : Prop where
  nodes : s'.nodes = s.nodes
  size : s'.heap.size = s.heap.size
  key : ∀ q, (s'.nd q).key = (s.nd q).key
  val : ∀ q, (s'.nd q).val = (s.nd q).val
  idx : ∀ q, (s'.nd q).idx = (s.nd q).idx

namespace SameKV

theorem refl (s : St) : SameKV s s := ⟨rfl, rfl, fun _ => rfl, fun _ => rfl, fun _ => rfl⟩

theorem trans {a b c : St} (h1 : SameKV a b) (h2 : SameKV b c) : SameKV a c :=
  ⟨h2.nodes.trans h1.nodes, h2.size.trans h1.size, fun q => (h2.key q).trans (h1.key q),
   fun q => (h2.val q).trans (h1.val q), fun q => (h2.idx q).trans (h1.idx q)⟩

theorem setParent (s : St) (x y : Nat) : SameKV s (s.setParent x y) :=
  ⟨by simp, by simp, fun q => by simp, fun q => by simp, fun q => by simp⟩
theorem setRed (s : St) (p : Nat) (c : Bool) : SameKV s (s.setRed p c) :=
  ⟨by simp, by simp, fun q => by simp, fun q => by simp, fun q => by simp⟩
theorem setLeft (s : St) (p v : Nat) : SameKV s (s.setLeft p v) :=
  ⟨by simp, by simp, fun q => by simp, fun q => by simp, fun q => by simp⟩
theorem setRight (s : St) (p v : Nat) : SameKV s (s.setRight p v) :=
  ⟨by simp, by simp, fun q => by simp, fun q => by simp, fun q => by simp⟩
theorem setRoot (s : St) (p : Nat) : SameKV s (s.setRoot p) :=
  ⟨by simp, by simp, fun q => by simp, fun q => by simp, fun q => by simp⟩
theorem fault (s : St) : SameKV s { s with fault := true } :=
  ⟨rfl, rfl, fun _ => rfl, fun _ => rfl, fun _ => rfl⟩
theorem relink_ (s : St) (x y : Nat) : SameKV s (C13RB.relink s x y) :=
  ⟨by simp, by simp, fun q => by simp, fun q => by simp, fun q => by simp⟩
theorem rotL (s : St) (x : Nat) : SameKV s (C13RB.leftRotate s x) :=
  ⟨leftRotate_nodes s x, leftRotate_size s x, leftRotate_key s x, leftRotate_val s x, leftRotate_idx s x⟩
theorem rotR (s : St) (x : Nat) : SameKV s (C13RB.rightRotate s x) :=
  ⟨rightRotate_nodes s x, rightRotate_size s x, rightRotate_key s x, rightRotate_val s x, rightRotate_idx s x⟩

theorem ite_ {s a b : St} (c : Prop) [Decidable c] (ha : SameKV s a) (hb : SameKV s b) : SameKV s (if c then a else b) := by
  split
  · exact ha
  · exact hb

end SameKV

open SameKV in
theorem sameKV_delCase1L (s : St) (x : Nat) : SameKV s (delCase1L s x) := by
  unfold delCase1L
  exact ite_ _ (((setRed _ _ _).trans (setRed _ _ _)).trans (rotL _ _)) (refl s)

open SameKV in
theorem sameKV_delCase1R (s : St) (x : Nat) : SameKV s (delCase1R s x) := by
  unfold delCase1R
  exact ite_ _ (((setRed _ _ _).trans (setRed _ _ _)).trans (rotR _ _)) (refl s)

open SameKV in
theorem sameKV_delCase3L (s : St) (w : Nat) : SameKV s (delCase3L s w) := by
  unfold delCase3L
  exact ite_ _ (((setRed _ _ _).trans (setRed _ _ _)).trans (rotR _ _)) (refl s)

open SameKV in
theorem sameKV_delCase3R (s : St) (w : Nat) : SameKV s (delCase3R s w) := by
  unfold delCase3R
  exact ite_ _ (((setRed _ _ _).trans (setRed _ _ _)).trans (rotL _ _)) (refl s)

open SameKV in
theorem sameKV_delCase4L (s : St) (x w : Nat) : SameKV s (delCase4L s x w) := by
  unfold delCase4L
  exact (((setRed _ _ _).trans (setRed _ _ _)).trans (setRed _ _ _)).trans (rotL _ _)

open SameKV in
theorem sameKV_delCase4R (s : St) (x w : Nat) : SameKV s (delCase4R s x w) := by
  unfold delCase4R
  exact (((setRed _ _ _).trans (setRed _ _ _)).trans (setRed _ _ _)).trans (rotR _ _)

theorem sameKV_deleteFixup (f : Nat) (s : St) (x : Nat) : SameKV s (deleteFixup f s x) := by
  induction f generalizing s x with
  | zero => exact SameKV.fault s
  | succ f ih =>
    unfold deleteFixup
    split
    · split
      · simp only
        split
        · exact ((sameKV_delCase1L s x).trans (SameKV.setRed _ _ _)).trans (ih _ _)
        · exact (((sameKV_delCase1L s x).trans (sameKV_delCase3L _ _)).trans (sameKV_delCase4L _ _ _)).trans (ih _ _)
      · simp only
        split
        · exact ((sameKV_delCase1R s x).trans (SameKV.setRed _ _ _)).trans (ih _ _)
        · exact (((sameKV_delCase1R s x).trans (sameKV_delCase3R _ _)).trans (sameKV_delCase4R _ _ _)).trans (ih _ _)
    · exact SameKV.setRed _ _ _

open SameKV in
theorem sameKV_insCase1 (s : St) (z y : Nat) : SameKV s (insCase1 s z y) := by
  unfold insCase1
  exact ((setRed _ _ _).trans (setRed _ _ _)).trans (setRed _ _ _)

open SameKV in
theorem sameKV_insCase23L (s : St) (z : Nat) : SameKV s (insCase23L s z).1 := by
  unfold insCase23L
  exact (((ite_ _ (rotL _ _) (refl s)).trans (setRed _ _ _)).trans (setRed _ _ _)).trans (rotR _ _)

open SameKV in
theorem sameKV_insCase23R (s : St) (z : Nat) : SameKV s (insCase23R s z).1 := by
  unfold insCase23R
  exact (((ite_ _ (rotR _ _) (refl s)).trans (setRed _ _ _)).trans (setRed _ _ _)).trans (rotL _ _)

theorem sameKV_insertFixup (f : Nat) (s : St) (z : Nat) : SameKV s (insertFixup f s z) := by
  induction f generalizing s z with
  | zero => exact SameKV.fault s
  | succ f ih =>
    unfold insertFixup
    split
    · split
      · simp only
        split
        · exact (sameKV_insCase1 _ _ _).trans (ih _ _)
        · exact (sameKV_insCase23L _ _).trans (ih _ _)
      · simp only
        split
        · exact (sameKV_insCase1 _ _ _).trans (ih _ _)
        · exact (sameKV_insCase23R _ _).trans (ih _ _)
    · exact SameKV.setRed _ _ _

/-- the PINNED `delete(z)` (tree surgery only) leaves slots, keys, values and slot indices alone -/
theorem sameKV_treeDelete_pinned (s : St) (z : Nat) : SameKV s (treeDelete false s z).1 := by
  unfold treeDelete
  split
  · exact SameKV.fault s
  · rename_i y hy
    simp only [Bool.false_eq_true, false_and, if_false]
    have pre : SameKV s (relink (s.setParent (if (s.nd y).left ≠ 0 then (s.nd y).left else (s.nd y).right) (s.parentOf y)) y
        (if (s.nd y).left ≠ 0 then (s.nd y).left else (s.nd y).right)) :=
      (SameKV.setParent _ _ _).trans (SameKV.relink_ _ _ _)
    exact SameKV.ite_ _ (pre.trans (sameKV_deleteFixup _ _ _)) pre

theorem treeDelete_pinned_snd (s : St) (z : Nat) : (treeDelete false s z).2 = z := by
  unfold treeDelete
  split <;> simp

end WaVerif.C13RB
