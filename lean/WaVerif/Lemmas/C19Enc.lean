import WaVerif.Model.C19
import WaVerif.Lemmas.C19Spec
/-!
# C19 — helper lemmas on the signed encoder and on `valS`
-/
namespace WaVerif.C19

theorem encS_ne_nil (v : Int) : encS v ≠ [] := by
  unfold encS
  simp only []
  split <;> simp

theorem two_pow_cast (n : Nat) : (2 : Int) ^ n = ((2 ^ n : Nat) : Int) := by
  push_cast; rfl

theorem sixtyfour_le_pow (k : Nat) (hk : 1 ≤ k) : (64 : Int) ≤ 2 ^ (7 * k - 1) := by
  rw [two_pow_cast]
  have : 2 ^ 6 ≤ 2 ^ (7 * k - 1) := Nat.pow_le_pow_right (by omega) (by omega)
  omega

theorem pow_split (k : Nat) (hk : 2 ≤ k) : (2 : Int) ^ (7 * k - 1) = 128 * 2 ^ (7 * (k - 1) - 1) := by
  rw [show 7 * k - 1 = 7 + (7 * (k - 1) - 1) by omega, Int.pow_add]; rfl

/-- `valS` of a non-empty sequence of `len` groups is a `7·len`-bit two's-complement number -/
theorem valS_range_of_ne_nil (bs : List Nat) (h : bs ≠ []) :
    -(2 : Int) ^ (7 * bs.length - 1) ≤ valS bs ∧ valS bs < 2 ^ (7 * bs.length - 1) := by
  induction bs with
  | nil => exact absurd rfl h
  | cons b t ih =>
    cases t with
    | nil =>
      simp only [valS, List.length_cons, List.length_nil]
      split <;> (simp only [Nat.reduceAdd, Nat.reduceMul, Nat.reduceSub, Int.reducePow]; omega)
    | cons b' t' =>
      have := ih (by simp)
      rw [valS_cons2]
      simp only [List.length_cons] at this ⊢
      rw [pow_split (t'.length + 1 + 1) (by omega)]
      simp only [Nat.add_sub_cancel]
      generalize valS (b' :: t') = x at *
      generalize (2 : Int) ^ (7 * (t'.length + 1) - 1) = Q at *
      omega

end WaVerif.C19
