import WaVerif.Lemmas.C24RoundTrip
/-!
# C24 — facts about whole lines: tags produced by the lexer are well-formed; the printed form survives `splitWaBuild`
-/
namespace WaVerif.C24
theorem tagChar_range (c : Char) (h : isTagChar c = true) :
    (48 ≤ c.toNat ∧ c.toNat ≤ 57) ∨ (65 ≤ c.toNat ∧ c.toNat ≤ 90) ∨ (97 ≤ c.toNat ∧ c.toNat ≤ 122) ∨ c.toNat = 95 ∨ c.toNat = 46 := by
  simp only [isTagChar, Char.isAlphanum, Char.isAlpha, Char.isUpper, Char.isLower, Char.isDigit, Bool.or_eq_true,
    Bool.and_eq_true, decide_eq_true_eq, beq_iff_eq] at h
  rcases h with ((((h | h) | h)) | h) | h
  · have h1 := UInt32.le_iff_toNat_le.mp h.1; have h2 := UInt32.le_iff_toNat_le.mp h.2
    simp at h1 h2; omega
  · have h1 := UInt32.le_iff_toNat_le.mp h.1; have h2 := UInt32.le_iff_toNat_le.mp h.2
    simp at h1 h2; omega
  · have h1 := UInt32.le_iff_toNat_le.mp h.1; have h2 := UInt32.le_iff_toNat_le.mp h.2
    simp at h1 h2; omega
  · subst h; decide
  · subst h; decide
theorem tagChar_not_space (c : Char) (h : isTagChar c = true) : isSpace c = false := by
  have := tagChar_range c h
  simp only [isSpace, Bool.or_eq_false_iff, Bool.and_eq_false_iff, decide_eq_false_iff_not]
  omega

theorem tagChar_ne_newline (c : Char) (h : isTagChar c = true) : c ≠ '\n' := by
  intro hc; subst hc; revert h; decide

/-! ## the lexer only produces well-formed tags; so parsed expressions have well-formed tags -/

theorem flush_tags_valid (acc : List Char) (hacc : ∀ c ∈ acc, isTagChar c = true) :
    ∀ s, Tok.tag s ∈ flush acc → ValidTag s := by
  intro s hs
  unfold flush at hs
  split at hs
  · simp at hs
  · rename_i hne
    simp at hs
    subst hs
    exact ⟨by simpa using hne, by intro c hc; exact hacc c (by simpa using hc)⟩

theorem lexGo_tags_valid (cs : List Char) : ∀ (p : Option Char) (acc : List Char),
    (∀ c ∈ acc, isTagChar c = true) → ∀ s, Tok.tag s ∈ lexGo p acc cs → ValidTag s := by
  induction cs with
  | nil =>
    intro p acc hacc s hs
    cases p with
    | none => exact flush_tags_valid acc hacc s (by simpa [lexGo] using hs)
    | some q => simp [lexGo] at hs
  | cons c cs ih =>
    intro p acc hacc s hs
    cases p with
    | some q =>
      rw [lexGo] at hs
      split at hs
      · simp only [List.mem_cons] at hs
        rcases hs with hs | hs
        · unfold opTok at hs; split at hs <;> cases hs
        · exact ih none [] (by simp) s hs
      · simp at hs
    | none =>
      rw [lexGo] at hs
      split at hs
      · rename_i hc
        exact ih none (c :: acc) (by intro d hd; simp at hd; rcases hd with rfl | hd; exact hc; exact hacc d hd) s hs
      · simp only [List.mem_append] at hs
        rcases hs with hs | hs
        · exact flush_tags_valid acc hacc s hs
        · split at hs
          · exact ih none [] (by simp) s hs
          · split at hs
            · simp only [List.mem_cons] at hs; rcases hs with hs | hs; cases hs; exact ih none [] (by simp) s hs
            · split at hs
              · simp only [List.mem_cons] at hs; rcases hs with hs | hs; cases hs; exact ih none [] (by simp) s hs
              · split at hs
                · simp only [List.mem_cons] at hs; rcases hs with hs | hs; cases hs; exact ih none [] (by simp) s hs
                · split at hs
                  · exact ih (some c) [] (by simp) s hs
                  · simp at hs

def accOK : NT → Prop
  | .orLoop a => ValidTags a
  | .andLoop a => ValidTags a
  | _ => True

theorem D_validTags {nt w e} (h : D nt w e) :
    (∀ s, Tok.tag s ∈ w → ValidTag s) → accOK nt → ValidTags e := by
  induction h with
  | or _ _ ih1 ih2 =>
    intro hw _
    exact ih2 (fun s hs => hw s (by simp [hs])) (ih1 (fun s hs => hw s (by simp [hs])) trivial)
  | orNil => intro _ h; exact h
  | orCons _ _ ih1 ih2 =>
    intro hw ha
    exact ih2 (fun s hs => hw s (by simp [hs])) ⟨ha, ih1 (fun s hs => hw s (by simp [hs])) trivial⟩
  | and _ _ ih1 ih2 =>
    intro hw _
    exact ih2 (fun s hs => hw s (by simp [hs])) (ih1 (fun s hs => hw s (by simp [hs])) trivial)
  | andNil => intro _ h; exact h
  | andCons _ _ ih1 ih2 =>
    intro hw ha
    exact ih2 (fun s hs => hw s (by simp [hs])) ⟨ha, ih1 (fun s hs => hw s (by simp [hs])) trivial⟩
  | notPos _ ih => intro hw _; exact ih hw trivial
  | notNeg _ ih => intro hw _; exact ih (fun s hs => hw s (by simp [hs])) trivial
  | tag => intro hw _; exact hw _ (by simp)
  | paren _ ih => intro hw _; exact ih (fun s hs => hw s (by simp [hs])) trivial

theorem parseExpr_validTags (text : List Char) (e : Expr) (h : parseExpr text = .ok e) : ValidTags e :=
  D_validTags ((parseToks_iff _ _).mp h) (lexGo_tags_valid text none [] (by simp)) trivial

theorem parseLine_validTags (l : List Char) (e : Expr) (h : parseLine l = .ok e) : ValidTags e := by
  unfold parseLine at h
  split at h
  · cases h
  · exact parseExpr_validTags _ _ h


/-! ## the printed form behind `#wa:build ` is handed to the parser unchanged -/

/-- a text that `splitWaBuild` hands to the parser unchanged when it follows `#wa:build ` -/
structure CleanText (s : List Char) : Prop where
  ne : s ≠ []
  nonl : '\n' ∉ s
  headOK : ∀ c, s.head? = some c → isSpace c = false
  lastOK : ∀ c, s.getLast? = some c → isSpace c = false

theorem dropWhile_head {p : Char → Bool} {s : List Char} (h : ∀ c, s.head? = some c → p c = false) :
    s.dropWhile p = s := by
  cases s with
  | nil => rfl
  | cons c r => simp [List.dropWhile, h c rfl]

theorem trimSpace_clean {s : List Char} (h1 : ∀ c, s.head? = some c → isSpace c = false)
    (h2 : ∀ c, s.getLast? = some c → isSpace c = false) : trimSpace s = s := by
  unfold trimSpace
  rw [dropWhile_head h1, dropWhile_head (by simpa using h2)]
  simp

theorem getLast?_append_cons (l : List Char) (a : Char) (r : List Char) :
    (l ++ a :: r).getLast? = (a :: r).getLast? := by
  rw [List.getLast?_append]
  cases h : (a :: r).getLast? with
  | none => simp at h
  | some c => rfl

theorem splitWaBuild_clean (s : List Char) (h : CleanText s) :
    splitWaBuild (waBuildPrefix ++ ' ' :: s) = some s := by
  obtain ⟨a, r, rfl⟩ := List.exists_cons_of_ne_nil h.ne
  have hl : (waBuildPrefix ++ ' ' :: a :: r).getLast? = (a :: r).getLast? := by
    rw [show waBuildPrefix ++ ' ' :: a :: r = (waBuildPrefix ++ [' ']) ++ a :: r by simp, getLast?_append_cons]
  have hnl : (waBuildPrefix ++ ' ' :: a :: r).getLast? ≠ some '\n' := by
    rw [hl]; intro hc
    have := h.lastOK _ hc
    revert this; decide
  have hcont : (waBuildPrefix ++ ' ' :: a :: r).contains '\n' = false := by
    have := h.nonl
    simp only [List.contains_eq_mem, List.mem_append, List.mem_cons, decide_eq_false_iff_not] at this ⊢
    intro hc
    rcases hc with hc | hc | hc
    · revert hc; decide
    · revert hc; decide
    · exact this (by simpa using hc)
  have hpre : waBuildPrefix.isPrefixOf (waBuildPrefix ++ ' ' :: a :: r) = true :=
    List.isPrefixOf_iff_prefix.mpr (List.prefix_append _ _)
  have htrim : trimSpace (waBuildPrefix ++ ' ' :: a :: r) = waBuildPrefix ++ ' ' :: a :: r :=
    trimSpace_clean (by intro c hc; simp [waBuildPrefix] at hc; subst hc; decide)
      (by intro c hc; rw [hl] at hc; exact h.lastOK c hc)
  have hdrop : (waBuildPrefix ++ ' ' :: a :: r).drop waBuildPrefix.length = ' ' :: a :: r := List.drop_left
  have htrim2 : trimSpace (' ' :: a :: r) = a :: r := by
    unfold trimSpace
    have : (' ' :: a :: r).dropWhile isSpace = a :: r := by
      rw [List.dropWhile_cons_of_pos (by decide)]
      exact dropWhile_head h.headOK
    rw [this, dropWhile_head (by intro c hc; rw [List.head?_reverse] at hc; exact h.lastOK c hc)]
    simp
  unfold splitWaBuild
  simp only [if_neg hnl, hcont, hpre, htrim, hdrop, htrim2]
  simp

def edgeChar (c : Char) : Prop := isTagChar c = true ∨ c = '!' ∨ c = '(' ∨ c = ')'
def bodyChar (c : Char) : Prop := edgeChar c ∨ c = ' ' ∨ c = '&' ∨ c = '|'

theorem edgeChar_not_space {c : Char} (h : edgeChar c) : isSpace c = false := by
  rcases h with h | rfl | rfl | rfl
  · exact tagChar_not_space c h
  · decide
  · decide
  · decide

theorem bodyChar_ne_newline {c : Char} (h : bodyChar c) : c ≠ '\n' := by
  rcases h with (h | rfl | rfl | rfl) | rfl | rfl | rfl
  · exact tagChar_ne_newline c h
  all_goals decide

theorem wrapIf_chars (b : Bool) (s : List Char) (h : ∀ c ∈ s, bodyChar c) : ∀ c ∈ wrapIf b s, bodyChar c := by
  intro c hc
  cases b with
  | false => exact h c (by simpa [wrapIf] using hc)
  | true =>
    simp only [wrapIf, if_true, List.mem_cons, List.mem_append, List.not_mem_nil, or_false] at hc
    rcases hc with rfl | hc | rfl
    · exact Or.inl (Or.inr (Or.inr (Or.inl rfl)))
    · exact h c hc
    · exact Or.inl (Or.inr (Or.inr (Or.inr rfl)))

theorem str_chars (w : Bool) (e : Expr) (hv : ValidTags e) : ∀ c ∈ str w e, bodyChar c := by
  induction e with
  | tag s => intro c hc; exact Or.inl (Or.inl (hv.2 c hc))
  | not x ih =>
    intro c hc
    simp only [str, List.mem_cons] at hc
    rcases hc with rfl | hc
    · exact Or.inl (Or.inr (Or.inl rfl))
    · exact wrapIf_chars _ _ (ih hv) c hc
  | and x y ihx ihy =>
    intro c hc
    simp only [str, List.mem_append, List.mem_cons, List.not_mem_nil, or_false] at hc
    rcases hc with (hc | rfl | rfl | rfl | rfl) | hc
    · exact wrapIf_chars _ _ (ihx hv.1) c hc
    · exact Or.inr (Or.inl rfl)
    · exact Or.inr (Or.inr (Or.inl rfl))
    · exact Or.inr (Or.inr (Or.inl rfl))
    · exact Or.inr (Or.inl rfl)
    · exact wrapIf_chars _ _ (ihy hv.2) c hc
  | or x y ihx ihy =>
    intro c hc
    simp only [str, List.mem_append, List.mem_cons, List.not_mem_nil, or_false] at hc
    rcases hc with (hc | rfl | rfl | rfl | rfl) | hc
    · exact wrapIf_chars _ _ (ihx hv.1) c hc
    · exact Or.inr (Or.inl rfl)
    · exact Or.inr (Or.inr (Or.inr rfl))
    · exact Or.inr (Or.inr (Or.inr rfl))
    · exact Or.inr (Or.inl rfl)
    · exact wrapIf_chars _ _ (ihy hv.2) c hc

def HeadEdge (s : List Char) : Prop := ∃ c r, s = c :: r ∧ edgeChar c
def LastEdge (s : List Char) : Prop := ∃ r c, s = r ++ [c] ∧ edgeChar c

theorem wrapIf_head (b : Bool) {s : List Char} (h : HeadEdge s) : HeadEdge (wrapIf b s) := by
  cases b with
  | false => simpa [wrapIf] using h
  | true => exact ⟨'(', s ++ [')'], by simp [wrapIf], Or.inr (Or.inr (Or.inl rfl))⟩

theorem wrapIf_last (b : Bool) {s : List Char} (h : LastEdge s) : LastEdge (wrapIf b s) := by
  cases b with
  | false => simpa [wrapIf] using h
  | true => exact ⟨'(' :: s, ')', by simp [wrapIf], Or.inr (Or.inr (Or.inr rfl))⟩

theorem HeadEdge.append {s : List Char} (h : HeadEdge s) (t : List Char) : HeadEdge (s ++ t) := by
  obtain ⟨c, r, rfl, hc⟩ := h
  exact ⟨c, r ++ t, by simp, hc⟩

theorem LastEdge.prepend {s : List Char} (h : LastEdge s) (t : List Char) : LastEdge (t ++ s) := by
  obtain ⟨r, c, rfl, hc⟩ := h
  exact ⟨t ++ r, c, by simp, hc⟩

theorem str_head (w : Bool) (e : Expr) (hv : ValidTags e) : HeadEdge (str w e) := by
  induction e with
  | tag s =>
    obtain ⟨c, r, rfl⟩ := List.exists_cons_of_ne_nil hv.1
    exact ⟨c, r, rfl, Or.inl (hv.2 c (by simp))⟩
  | not x _ => exact ⟨'!', _, rfl, Or.inr (Or.inl rfl)⟩
  | and x y ihx _ =>
    simp only [str, List.append_assoc]
    exact (wrapIf_head _ (ihx hv.1)).append _
  | or x y ihx _ =>
    simp only [str, List.append_assoc]
    exact (wrapIf_head _ (ihx hv.1)).append _

theorem str_last (w : Bool) (e : Expr) (hv : ValidTags e) : LastEdge (str w e) := by
  induction e with
  | tag s =>
    refine ⟨s.dropLast, s.getLast hv.1, (List.dropLast_concat_getLast hv.1).symm, Or.inl (hv.2 _ (List.getLast_mem hv.1))⟩
  | not x ih =>
    have := (wrapIf_last (x.isAnd || x.isOr || (w && x.isNot)) (ih hv)).prepend ['!']
    simpa [str] using this
  | and x y _ ihy =>
    simp only [str]
    exact (wrapIf_last _ (ihy hv.2)).prepend _
  | or x y _ ihy =>
    simp only [str]
    exact (wrapIf_last _ (ihy hv.2)).prepend _

theorem str_clean (w : Bool) (e : Expr) (hv : ValidTags e) : CleanText (str w e) := by
  obtain ⟨c, r, hc, hce⟩ := str_head w e hv
  obtain ⟨r', c', hc', hce'⟩ := str_last w e hv
  refine ⟨by rw [hc]; simp, fun hn => bodyChar_ne_newline (str_chars w e hv _ hn) rfl, ?_, ?_⟩
  · intro d hd; rw [hc] at hd; simp at hd; subst hd; exact edgeChar_not_space hce
  · intro d hd; rw [hc'] at hd; simp at hd; subst hd; exact edgeChar_not_space hce'

/-- printing a parsed line behind the prefix and parsing that line again -/
theorem parseLine_str (w : Bool) (e : Expr) (hv : ValidTags e) :
    parseLine (waBuildPrefix ++ ' ' :: str w e) = parseExpr (str w e) := by
  unfold parseLine
  rw [splitWaBuild_clean _ (str_clean w e hv)]

end WaVerif.C24
