import WaVerif.Model.C17La
/-!
# C17 — LoongArch64 helper lemmas: mixed-radix pack/unpack over a layout, masks, field round trips
-/
namespace WaVerif.C17.La

/-- every segment value fits its width -/
def fits : List Seg → List Nat → Prop
  | [], [] => True
  | s :: r, v :: vs => v < 2 ^ s.width ∧ fits r vs
  | _, _ => False

theorem unpack_pack : ∀ (L : List Seg) (vs : List Nat), fits L vs → unpackSegs L (packSegs L vs) = vs := by
  intro L
  induction L with
  | nil => intro vs h; cases vs <;> simp_all [fits, unpackSegs]
  | cons s r ih =>
    intro vs h
    cases vs with
    | nil => simp [fits] at h
    | cons v vs =>
      simp only [fits] at h
      simp only [packSegs, unpackSegs]
      have hp : 0 < 2 ^ s.width := Nat.pow_pos (by decide)
      rw [Nat.add_mul_mod_self_left, Nat.mod_eq_of_lt h.1, Nat.add_mul_div_left _ _ hp, Nat.div_eq_of_lt h.1, Nat.zero_add, ih vs h.2]

def widthSum : List Seg → Nat
  | [] => 0
  | s :: r => s.width + widthSum r

theorem pack_lt : ∀ (L : List Seg) (vs : List Nat), fits L vs → packSegs L vs < 2 ^ widthSum L := by
  intro L
  induction L with
  | nil => intro vs _; cases vs <;> simp [packSegs, widthSum]
  | cons s r ih =>
    intro vs h
    cases vs with
    | nil => simp [fits] at h
    | cons v vs =>
      simp only [fits] at h
      simp only [packSegs, widthSum, Nat.pow_add]
      have := ih vs h.2
      have h1 : v + 2 ^ s.width * packSegs r vs < 2 ^ s.width * (packSegs r vs + 1) := by
        rw [Nat.mul_add, Nat.mul_one]; omega
      exact Nat.lt_of_lt_of_le h1 (Nat.mul_le_mul_left _ this)

/-- bitwise AND distributes over the mixed-radix decomposition -/
theorem land_split (w a b m n : Nat) (ha : a < 2 ^ w) (hm : m < 2 ^ w) :
    (a + 2 ^ w * b) &&& (m + 2 ^ w * n) = (a &&& m) + 2 ^ w * (b &&& n) := by
  have hp : 0 < 2 ^ w := Nat.pow_pos (by decide)
  have h := (Nat.div_add_mod ((a + 2 ^ w * b) &&& (m + 2 ^ w * n)) (2 ^ w)).symm
  rw [Nat.and_div_two_pow, Nat.and_mod_two_pow] at h
  rw [Nat.add_mul_div_left _ _ hp, Nat.add_mul_div_left _ _ hp, Nat.div_eq_of_lt ha, Nat.div_eq_of_lt hm,
    Nat.add_mul_mod_self_left, Nat.add_mul_mod_self_left, Nat.mod_eq_of_lt ha, Nat.mod_eq_of_lt hm, Nat.zero_add, Nat.zero_add] at h
  omega

/-- the mask segments: all ones in `fix`, zero in operand fields -/
def maskVals : List Seg → List Nat
  | [] => []
  | .fix w :: r => (2 ^ w - 1) :: maskVals r
  | .fld _ _ _ _ :: r => 0 :: maskVals r

/-- keep the `fix` segments, zero the operand fields -/
def fixPart : List Seg → List Nat → List Nat
  | [], _ => []
  | _ :: _, [] => []
  | .fix _ :: r, v :: vs => v :: fixPart r vs
  | .fld _ _ _ _ :: r, _ :: vs => 0 :: fixPart r vs

theorem maskOf_eq : ∀ L : List Seg, maskOf L = packSegs L (maskVals L) := by
  intro L
  induction L with
  | nil => rfl
  | cons s r ih => cases s <;> simp [maskOf, maskVals, packSegs, Seg.width, ih]

/-- masking a packed word with the format's mask keeps exactly the opcode segments -/
theorem pack_land_mask : ∀ (L : List Seg) (vs : List Nat), fits L vs →
    packSegs L vs &&& maskOf L = packSegs L (fixPart L vs) := by
  intro L
  induction L with
  | nil => intro vs _; cases vs <;> simp [packSegs, maskOf]
  | cons s r ih =>
    intro vs h
    cases vs with
    | nil => simp [fits] at h
    | cons v vs =>
      simp only [fits] at h
      have hp : 0 < 2 ^ s.width := Nat.pow_pos (by decide)
      cases s with
      | fix w =>
        simp only [Seg.width] at h hp
        simp only [packSegs, maskOf, fixPart, Seg.width]
        rw [land_split w v _ _ _ h.1 (by omega), ih vs h.2, Nat.and_two_pow_sub_one_eq_mod, Nat.mod_eq_of_lt h.1]
      | fld w sl k vlo =>
        simp only [Seg.width] at h hp
        simp only [packSegs, maskOf, fixPart, Seg.width]
        have := land_split w v (packSegs r vs) 0 (maskOf r) h.1 hp
        simp only [Nat.zero_add, Nat.and_zero] at this
        rw [this, ih vs h.2, Nat.zero_add]

/-! ### operand fields -/

/-- the widths the layouts give to register-class fields -/
def kindWidthOK (k : Kind) (w : Nat) : Bool :=
  match k with
  | .R | .F | .S => w == 5
  | .C => w == 3
  | _ => true

theorem regField_roundtrip (k : Kind) (w r v : Nat) (hk : kindWidthOK k w = true) (h : regField k w r = some v) :
    v < 2 ^ w ∧ regShow k v = r := by
  cases k <;> simp only [regField] at h <;> simp only [kindWidthOK, beq_iff_eq] at hk
  all_goals first
    | (split at h <;> simp at h; subst h; subst hk; simp only [regShow]; constructor <;> omega)
    | (split at h <;> simp at h; subst h; simp only [regShow]; constructor <;> first | assumption | rfl)
    | simp at h

theorem sext_mod (W : Nat) (hW : 1 ≤ W) (i : Int) (h : -(2 ^ (W - 1) : Int) ≤ i ∧ i < 2 ^ (W - 1)) :
    (i % (2 ^ W : Int)).toNat < 2 ^ W ∧ sext W (i % (2 ^ W : Int)).toNat = i := by
  have e : (2 : Int) ^ W = 2 * 2 ^ (W - 1) := by
    have : W = (W - 1) + 1 := by omega
    conv => lhs; rw [this, Int.pow_succ]
    omega
  have en : (2 : Nat) ^ W = 2 * 2 ^ (W - 1) := by
    have : W = (W - 1) + 1 := by omega
    conv => lhs; rw [this, Nat.pow_succ]
    omega
  have hpos : (0 : Int) < 2 ^ (W - 1) := Int.pow_pos (by decide)
  have hc : ((2 ^ W : Nat) : Int) = (2 : Int) ^ W := by simp
  have hc1 : ((2 ^ (W - 1) : Nat) : Int) = (2 : Int) ^ (W - 1) := by simp
  have hQP : ((2 ^ (W - 1) : Nat) : Int) = (2 : Int) ^ (W - 1) := hc1
  generalize hP : (2 : Int) ^ (W - 1) = P at *
  generalize hQ : (2 : Nat) ^ (W - 1) = Q at *
  rw [e]
  unfold sext
  rw [hQ, en]
  have hm : i % (2 * P) = if 0 ≤ i then i else i + 2 * P := by
    split
    · rename_i hi; exact Int.emod_eq_of_lt hi (by omega)
    · rename_i hi
      rw [← Int.add_emod_right]
      exact Int.emod_eq_of_lt (by omega) (by omega)
  rw [hm]
  constructor
  · split <;> omega
  · split <;> split <;> omega

theorem immField_roundtrip (k : Kind) (W : Nat) (hW : 1 ≤ W) (i : Int) (t : Nat) (h : immField k W i = some t) :
    t < 2 ^ W ∧ immShow k W t = i := by
  cases k <;> simp only [immField] at h <;> try (simp at h; done)
  · -- UI
    split at h <;> simp at h
    rename_i hr
    subst h
    have : ((2 ^ W : Nat) : Int) = (2 : Int) ^ W := by simp
    simp only [immShow]
    constructor <;> omega
  · -- SI
    split at h <;> simp at h
    rename_i hr
    subst h
    have := sext_mod W hW i hr
    exact ⟨this.1, by simpa [immShow] using this.2⟩
  · -- OF
    split at h <;> simp at h
    rename_i hr
    subst h
    have := sext_mod W hW (i / 4) ⟨hr.2.1, hr.2.2⟩
    refine ⟨this.1, ?_⟩
    simp only [immShow, this.2]
    omega

/-- an immediate split in a low 16-bit piece and a high piece reassembles -/
theorem imm_split (t hgh : Nat) (h : t < 2 ^ (16 + hgh)) :
    t / 2 ^ 0 % 2 ^ 16 * 2 ^ 0 + t / 2 ^ 16 % 2 ^ hgh * 2 ^ 16 = t := by
  have : t / 2 ^ 16 < 2 ^ hgh := by
    rw [Nat.div_lt_iff_lt_mul (Nat.pow_pos (by decide))]; rw [Nat.pow_add] at h; rw [Nat.mul_comm]; exact h
  rw [Nat.mod_eq_of_lt this]
  simp only [Nat.pow_zero, Nat.div_one, Nat.mul_one]
  omega

theorem unpack_fits : ∀ (L : List Seg) (x : Nat), fits L (unpackSegs L x) := by
  intro L
  induction L with
  | nil => intro x; simp [unpackSegs, fits]
  | cons s r ih =>
    intro x
    simp only [unpackSegs, fits]
    exact ⟨Nat.mod_lt _ (Nat.pow_pos (by decide)), ih _⟩

theorem pack_unpack : ∀ (L : List Seg) (x : Nat), x < 2 ^ widthSum L → packSegs L (unpackSegs L x) = x := by
  intro L
  induction L with
  | nil => intro x h; simp [widthSum] at h; simp [packSegs, h]
  | cons s r ih =>
    intro x h
    simp only [unpackSegs, packSegs]
    have hp : 0 < 2 ^ s.width := Nat.pow_pos (by decide)
    have : x / 2 ^ s.width < 2 ^ widthSum r := by
      rw [Nat.div_lt_iff_lt_mul hp]
      simp only [widthSum, Nat.pow_add] at h
      rw [Nat.mul_comm]; exact h
    rw [ih _ this]
    have := Nat.div_add_mod x (2 ^ s.width)
    omega

theorem segVals_fits : ∀ (L : List Seg) (W : Nat) (a : Ops) (cs vs : List Nat), fits L cs →
    segVals W a L cs = some vs → fits L vs ∧ fixPart L vs = fixPart L cs := by
  intro L
  induction L with
  | nil => intro W a cs vs _ h; simp [segVals] at h; subst h; simp [fits, fixPart]
  | cons s r ih =>
    intro W a cs vs hc h
    cases cs with
    | nil => simp [fits] at hc
    | cons c cs =>
      simp only [fits] at hc
      cases s with
      | fix w =>
        simp only [segVals, Option.map_eq_some_iff] at h
        obtain ⟨vs', hv, rfl⟩ := h
        have := ih W a cs vs' hc.2 hv
        simp only [fits, fixPart, Seg.width] at *
        exact ⟨⟨hc.1, this.1⟩, by rw [this.2]⟩
      | fld w sl k vlo =>
        simp only [segVals] at h
        split at h
        · rename_i t vs' hfv hv
          simp only [Option.some.injEq] at h
          subst h
          have := ih W a cs vs' hc.2 hv
          simp only [fits, fixPart, Seg.width]
          exact ⟨⟨Nat.mod_lt _ (Nat.pow_pos (by decide)), this.1⟩, by rw [this.2]⟩
        · simp at h

theorem and992 (x : Nat) : x &&& 992 = x / 32 % 32 * 32 := by
  have hx : x % 32 + 2 ^ 5 * (x / 32) = x := by have := Nat.div_add_mod x 32; omega
  have h := land_split 5 (x % 32) (x / 32) 0 31 (by omega) (by decide)
  have h31 : x / 32 &&& 31 = x / 32 % 32 := Nat.and_two_pow_sub_one_eq_mod (x / 32) 5
  have hc : (0 + 2 ^ 5 * 31 : Nat) = 992 := by decide
  rw [hx, hc, h31, Nat.and_zero] at h
  omega

theorem disjoint_sound (a b : Isa) (w : Nat) (hd : a.disjoint b = true)
    (ha : a.matchesW w = true) (hb : b.matchesW w = true) : False := by
  simp only [Isa.matchesW, Bool.and_eq_true, decide_eq_true_eq, beq_iff_eq, Bool.or_eq_true, Bool.not_eq_true'] at ha hb
  obtain ⟨⟨_, ha1⟩, ha2⟩ := ha
  obtain ⟨⟨_, hb1⟩, hb2⟩ := hb
  simp only [Isa.disjoint, Bool.or_eq_true, Bool.and_eq_true, bne_iff_ne, beq_iff_eq, decide_eq_true_eq] at hd
  rcases hd with (h | h) | h
  · apply h
    rw [← ha1, ← hb1, Nat.and_assoc, Nat.and_assoc, Nat.and_comm a.mask b.mask]
  · obtain ⟨⟨hr, hm⟩, hv⟩ := h
    rcases ha2 with h0 | h2
    · rw [hr] at h0; cases h0
    · have e1 : w &&& 992 = b.value &&& 992 := by
        rw [← hb1, Nat.and_assoc, hm]
      rw [and992, and992] at e1
      omega
  · obtain ⟨⟨hr, hm⟩, hv⟩ := h
    rcases hb2 with h0 | h2
    · rw [hr] at h0; cases h0
    · have e1 : w &&& 992 = a.value &&& 992 := by
        rw [← ha1, Nat.and_assoc, hm]
      rw [and992, and992] at e1
      omega

theorem mem_of_pairwiseDisjoint : ∀ (l : List Isa), pairwiseDisjoint l = true →
    ∀ a ∈ l, ∀ b ∈ l, a = b ∨ a.disjoint b = true ∨ b.disjoint a = true := by
  intro l
  induction l with
  | nil => intro _ a ha; cases ha
  | cons x t ih =>
    intro h a ha b hb
    simp only [pairwiseDisjoint, Bool.and_eq_true, List.all_eq_true] at h
    obtain ⟨hx, ht⟩ := h
    rcases List.mem_cons.mp ha with rfl | ha' <;> rcases List.mem_cons.mp hb with rfl | hb'
    · exact Or.inl rfl
    · exact Or.inr (Or.inl (hx b hb'))
    · exact Or.inr (Or.inr (hx a ha'))
    · exact ih ht a ha' b hb'

theorem find?_unique {α : Type} (l : List α) (p : α → Bool) (e : α) (he : e ∈ l) (hp : p e = true)
    (hu : ∀ x ∈ l, p x = true → x = e) : l.find? p = some e := by
  induction l with
  | nil => cases he
  | cons x t ih =>
    simp only [List.find?]
    cases hpx : p x with
    | true => simp; exact hu x (List.mem_cons_self) hpx
    | false =>
      simp
      rcases List.mem_cons.mp he with rfl | he'
      · rw [hp] at hpx; cases hpx
      · exact ih he' (fun y hy => hu y (List.mem_cons_of_mem _ hy))

/-- the opcode part of an encoded word: whatever the operands, masking with the format's mask gives
back the opcode constant -/
theorem encode_mask (L : List Seg) (hL : widthSum L = 32) (W : Nat) (a : Ops) (v0 : Nat) (hv0 : v0 < 4294967296)
    (vs : List Nat) (h : segVals W a L (unpackSegs L v0) = some vs) :
    packSegs L vs < 4294967296 ∧ packSegs L vs &&& maskOf L = v0 &&& maskOf L := by
  have hf := segVals_fits L W a _ vs (unpack_fits L v0) h
  have h32 : (4294967296 : Nat) = 2 ^ widthSum L := by rw [hL]
  constructor
  · rw [h32]; exact pack_lt L vs hf.1
  · rw [pack_land_mask L vs hf.1, hf.2, ← pack_land_mask L _ (unpack_fits L v0), pack_unpack L v0 (by rw [← h32]; exact hv0)]

/-- register-class fields are unsplit and have the width of their class; all immediate pieces share one kind -/
def regOK : List Seg → Bool
  | [] => true
  | .fix _ :: r => regOK r
  | .fld w s k vlo :: r => (s == .imm || (vlo == 0 && kindWidthOK k w)) && regOK r

def immKindsAre (k0 : Kind) : List Seg → Bool
  | [] => true
  | .fix _ :: r => immKindsAre k0 r
  | .fld _ s k _ :: r => (s != .imm || k == k0) && immKindsAre k0 r

/-- the immediate's pieces cut out of its field value `t` -/
def immPieces (t : Nat) : List Seg → Nat
  | [] => 0
  | .fix _ :: r => immPieces t r
  | .fld w s _ vlo :: r => if s = .imm then t / 2 ^ vlo % 2 ^ w * 2 ^ vlo + immPieces t r else immPieces t r

theorem slotVal_spec (s : Slot) (hs : s ≠ .imm) : ∀ (L : List Seg) (W : Nat) (a : Ops) (cs vs : List Nat),
    regOK L = true → segVals W a L cs = some vs → slotVal s L vs = if slotUsed s L then a.reg s else 0 := by
  intro L
  induction L with
  | nil => intro W a cs vs _ h; simp [segVals] at h; subst h; simp [slotVal, slotUsed]
  | cons g r ih =>
    intro W a cs vs hok h
    cases cs with
    | nil => cases g <;> simp [segVals] at h
    | cons c cs =>
      cases g with
      | fix w =>
        simp only [segVals, Option.map_eq_some_iff] at h
        obtain ⟨vs', hv, rfl⟩ := h
        simp only [regOK] at hok
        simp only [slotVal, slotUsed]
        exact ih W a cs vs' hok hv
      | fld w s' k vlo =>
        simp only [regOK, Bool.and_eq_true, Bool.or_eq_true, beq_iff_eq] at hok
        simp only [segVals] at h
        split at h
        · rename_i t vs' hfv hv
          simp only [Option.some.injEq] at h
          subst h
          simp only [slotVal, slotUsed]
          by_cases hss : s' = s
          · subst hss
            simp only [if_true, beq_self_eq_true, Bool.true_or]
            rcases hok.1 with hi | ⟨hv0, hkw⟩
            · exact absurd hi hs
            · simp only [if_neg hs] at hfv
              subst hv0
              obtain ⟨h1, h2⟩ := regField_roundtrip k w _ t hkw hfv
              rw [Nat.pow_zero, Nat.div_one, Nat.mod_eq_of_lt h1]; exact h2
          · have : (s' == s) = false := by simpa using hss
            simp only [if_neg hss, this, Bool.false_or]
            exact ih W a cs vs' hok.2 hv
        · simp at h

theorem immTotal_spec (k0 : Kind) : ∀ (L : List Seg) (W : Nat) (a : Ops) (cs vs : List Nat) (t : Nat),
    immKindsAre k0 L = true → immField k0 W a.imm = some t → segVals W a L cs = some vs →
    immTotal L vs = immPieces t L := by
  intro L
  induction L with
  | nil => intro W a cs vs t _ _ h; simp [segVals] at h; subst h; simp [immTotal, immPieces]
  | cons g r ih =>
    intro W a cs vs t hk ht h
    cases cs with
    | nil => cases g <;> simp [segVals] at h
    | cons c cs =>
      cases g with
      | fix w =>
        simp only [segVals, Option.map_eq_some_iff] at h
        obtain ⟨vs', hv, rfl⟩ := h
        simp only [immKindsAre] at hk
        simp only [immTotal, immPieces]
        exact ih W a cs vs' t hk ht hv
      | fld w s' k vlo =>
        simp only [immKindsAre, Bool.and_eq_true, Bool.or_eq_true, bne_iff_ne, beq_iff_eq] at hk
        simp only [segVals] at h
        split at h
        · rename_i t' vs' hfv hv
          simp only [Option.some.injEq] at h
          subst h
          simp only [immTotal, immPieces]
          by_cases hss : s' = .imm
          · subst hss
            simp only [if_true] at hfv ⊢
            rcases hk.1 with hne | hkk
            · exact absurd rfl hne
            · subst hkk
              rw [ht] at hfv
              simp only [Option.some.injEq] at hfv
              subst hfv
              rw [ih W a cs vs' t hk.2 ht hv]
          · simp only [if_neg hss]
            exact ih W a cs vs' t hk.2 ht hv
        · simp at h

/-- if the layout has an immediate piece and the operands are encodable, the immediate is -/
theorem imm_encodable : ∀ (L : List Seg) (W : Nat) (a : Ops) (cs vs : List Nat) (k : Kind),
    immKind L = some k → segVals W a L cs = some vs → ∃ t, immField k W a.imm = some t := by
  intro L
  induction L with
  | nil => intro W a cs vs k hk; simp [immKind] at hk
  | cons g r ih =>
    intro W a cs vs k hk h
    cases cs with
    | nil => cases g <;> simp [segVals] at h
    | cons c cs =>
      cases g with
      | fix w =>
        simp only [segVals, Option.map_eq_some_iff] at h
        obtain ⟨vs', hv, _⟩ := h
        simp only [immKind] at hk
        exact ih W a cs vs' k hk hv
      | fld w s' k' vlo =>
        simp only [segVals] at h
        split at h
        · rename_i t' vs' hfv hv
          simp only [immKind] at hk
          by_cases hss : s' = .imm
          · subst hss
            simp only [if_true, Option.some.injEq] at hk hfv
            subst hk
            exact ⟨t', hfv⟩
          · simp only [if_neg hss] at hk
            exact ih W a cs vs' k hk hv
        · simp at h

theorem immKind_none_unused : ∀ L : List Seg, immKind L = none → slotUsed .imm L = false := by
  intro L
  induction L with
  | nil => intro _; rfl
  | cons g r ih =>
    intro h
    cases g with
    | fix w => simp only [immKind] at h; simp only [slotUsed]; exact ih h
    | fld w s k vlo =>
      simp only [immKind] at h
      by_cases hs : s = .imm
      · simp [hs] at h
      · simp only [if_neg hs] at h
        have : (s == Slot.imm) = false := by simpa using hs
        simp only [slotUsed, this, Bool.false_or]; exact ih h

/-- per-format facts, checked by evaluation: widths sum to 32, register fields well-formed, the
immediate pieces have one kind and tile the field value -/
def layoutOK (fm : Fm) : Bool :=
  let L := layout fm
  widthSum L == 32 && regOK L &&
  (match immKind L with
   | some k => immKindsAre k L && decide (1 ≤ immWidth L)
   | none => true)

theorem layoutOK_all : ∀ fm : Fm, layoutOK fm = true := by
  intro fm; cases fm <;> decide

theorem immPieces_tile (fm : Fm) (t : Nat) (ht : t < 2 ^ immWidth (layout fm)) : immPieces t (layout fm) = t := by
  cases fm <;> simp only [layout, immWidth, immPieces, reduceCtorEq, if_false, if_true, Nat.add_zero] at ht ⊢
  all_goals first
    | omega
    | (rw [Nat.pow_zero, Nat.div_one, Nat.mul_one, Nat.mod_eq_of_lt ht])
    | (have := imm_split t 5 ht; omega)
    | (have := imm_split t 10 ht; omega)

theorem used_or_absent (b : Bool) (x : Nat) (v : Nat) (h : (b || x == 0) = true) (hv : v = if b then x else 0) : v = x := by
  cases b <;> simp_all

/-- operands are recovered from the packed word, for every format -/
theorem ops_roundtrip (fm : Fm) (a : Ops) (v0 : Nat) (vs : List Nat) (hu : unusedAbsent (layout fm) a = true)
    (h : segVals (immWidth (layout fm)) a (layout fm) (unpackSegs (layout fm) v0) = some vs) :
    decodeOps (layout fm) (packSegs (layout fm) vs) = a := by
  have hok := layoutOK_all fm
  simp only [layoutOK, Bool.and_eq_true, beq_iff_eq] at hok
  obtain ⟨⟨_, hreg⟩, himm⟩ := hok
  have hf := (segVals_fits _ _ _ _ _ (unpack_fits _ v0) h).1
  simp only [unusedAbsent, Bool.and_eq_true] at hu
  obtain ⟨⟨⟨⟨u1, u2⟩, u3⟩, u4⟩, u5⟩ := hu
  obtain ⟨rd, rs1, rs2, rs3, imm⟩ := a
  simp only [decodeOps, unpack_pack _ _ hf, Ops.mk.injEq]
  refine ⟨?_, ?_, ?_, ?_, ?_⟩
  · exact used_or_absent _ _ _ u1 (slotVal_spec .rd (by decide) _ _ _ _ _ hreg h)
  · exact used_or_absent _ _ _ u2 (slotVal_spec .rs1 (by decide) _ _ _ _ _ hreg h)
  · exact used_or_absent _ _ _ u3 (slotVal_spec .rs2 (by decide) _ _ _ _ _ hreg h)
  · exact used_or_absent _ _ _ u4 (slotVal_spec .rs3 (by decide) _ _ _ _ _ hreg h)
  · cases hk : immKind (layout fm) with
    | none =>
      have := immKind_none_unused _ hk
      simp only [this, Bool.false_or, beq_iff_eq] at u5
      simp only at u5 ⊢
      exact u5.symm
    | some k =>
      simp only [hk, Bool.and_eq_true, decide_eq_true_eq] at himm
      obtain ⟨t, ht⟩ := imm_encodable _ _ _ _ _ k hk h
      obtain ⟨hlt, hshow⟩ := immField_roundtrip k _ himm.2 _ t ht
      simp only
      rw [immTotal_spec k _ _ _ _ _ t himm.1 ht h, immPieces_tile fm t hlt]
      exact hshow

theorem mergeOK_sound (bad : List Mn) : ∀ (es : List Isa) (rows : List Row), mergeOK bad es rows = true →
    ∀ r ∈ rows, r.mn ∉ bad → ∃ e ∈ es, rowIsa r e = true := by
  intro es
  induction es with
  | nil =>
    intro rows h r hr
    simp only [mergeOK, List.isEmpty_iff] at h
    subst h; cases hr
  | cons e es ih =>
    intro rows h r hr hb
    cases rows with
    | nil => cases hr
    | cons r0 rs =>
      simp only [mergeOK] at h
      split at h
      · rename_i hmn
        simp only [Bool.and_eq_true, Bool.or_eq_true, List.contains_eq_mem, decide_eq_true_eq] at h
        rcases List.mem_cons.mp hr with rfl | hr'
        · rcases h.1 with hbad | hrow
          · exact absurd hbad hb
          · exact ⟨e, List.mem_cons_self, hrow⟩
        · obtain ⟨e', he', hre'⟩ := ih rs h.2 r hr' hb
          exact ⟨e', List.mem_cons_of_mem _ he', hre'⟩
      · obtain ⟨e', he', hre'⟩ := ih (r0 :: rs) h r hr hb
        exact ⟨e', List.mem_cons_of_mem _ he', hre'⟩

end WaVerif.C17.La
