import WaVerif.Lemmas.C24Gram
/-!
# C24 — printing and re-parsing

* `toks` is the token string of `str` (lexing lemma `lex_str`);
* every expression in range prints to a sentence of the grammar whose tree is equivalent
  (`toks_derivable`): `a && (b && c)` prints as `a && b && c` and re-parses as `(a && b) && c`.
-/
namespace WaVerif.C24

def wrapT (b : Bool) (t : List Tok) : List Tok := if b then .lp :: (t ++ [.rp]) else t

/-- the tokens of `str wrapNot e` -/
def toks (w : Bool) : Expr → List Tok
  | .tag s => [.tag s]
  | .not x => .bang :: wrapT (x.isAnd || x.isOr || (w && x.isNot)) (toks w x)
  | .and x y => wrapT x.isOr (toks w x) ++ [.andand] ++ wrapT y.isOr (toks w y)
  | .or x y => wrapT x.isAnd (toks w x) ++ [.oror] ++ wrapT y.isAnd (toks w y)

def ValidTag (s : Tag) : Prop := s ≠ [] ∧ ∀ c ∈ s, isTagChar c = true

/-- every tag of the expression is a possible token (non-empty, tag characters only) -/
def ValidTags : Expr → Prop
  | .tag s => ValidTag s
  | .not x => ValidTags x
  | .and x y => ValidTags x ∧ ValidTags y
  | .or x y => ValidTags x ∧ ValidTags y

/-- no negation directly under a negation -/
def NoNotNot : Expr → Prop
  | .tag _ => True
  | .not x => x.isNot = false ∧ NoNotNot x
  | .and x y => NoNotNot x ∧ NoNotNot y
  | .or x y => NoNotNot x ∧ NoNotNot y

/-! ## lexing the printed form -/

def Boundary (k : List Char) : Prop := ∀ c r, k = c :: r → isTagChar c = false

theorem lexGo_tagchars (s : List Char) : ∀ (acc k : List Char), (∀ c ∈ s, isTagChar c = true) →
    lexGo none acc (s ++ k) = lexGo none (s.reverse ++ acc) k := by
  induction s with
  | nil => intro acc k _; rfl
  | cons c r ih =>
    intro acc k h
    have hc : isTagChar c = true := h c (by simp)
    rw [List.cons_append, lexGo, if_pos hc, ih _ _ (fun d hd => h d (by simp [hd]))]
    simp

theorem lexGo_boundary (acc k : List Char) (hk : Boundary k) :
    lexGo none acc k = flush acc ++ lexGo none [] k := by
  cases k with
  | nil => simp [lexGo, flush]
  | cons c r =>
    have hc : isTagChar c = false := hk c r rfl
    rw [lexGo, lexGo]
    simp [hc, flush]

theorem lex_tag (s : Tag) (k : List Char) (hs : ValidTag s) (hk : Boundary k) :
    lexGo none [] (s ++ k) = .tag s :: lexGo none [] k := by
  rw [lexGo_tagchars s [] k hs.2, lexGo_boundary _ _ hk]
  have : s ≠ [] := hs.1
  simp [flush, this]

theorem lex_lp (cs : List Char) : lexGo none [] ('(' :: cs) = .lp :: lexGo none [] cs := rfl
theorem lex_rp (cs : List Char) : lexGo none [] (')' :: cs) = .rp :: lexGo none [] cs := rfl
theorem lex_bang (cs : List Char) : lexGo none [] ('!' :: cs) = .bang :: lexGo none [] cs := rfl
theorem lex_sp (cs : List Char) : lexGo none [] (' ' :: cs) = lexGo none [] cs := rfl
theorem lex_andand (cs : List Char) : lexGo none [] ('&' :: '&' :: cs) = .andand :: lexGo none [] cs := rfl
theorem lex_oror (cs : List Char) : lexGo none [] ('|' :: '|' :: cs) = .oror :: lexGo none [] cs := rfl

theorem boundary_cons {c : Char} (r : List Char) (h : isTagChar c = false) : Boundary (c :: r) := by
  intro c' r' h'; simp at h'; rw [← h'.1]; exact h

theorem lex_wrap (b : Bool) (s : List Char) (t : List Tok)
    (hs : ∀ k, Boundary k → lexGo none [] (s ++ k) = t ++ lexGo none [] k) :
    ∀ k, Boundary k → lexGo none [] (wrapIf b s ++ k) = wrapT b t ++ lexGo none [] k := by
  intro k hk
  cases b with
  | false => simpa [wrapIf, wrapT] using hs k hk
  | true =>
    simp only [wrapIf, wrapT, if_true, List.cons_append, List.append_assoc]
    rw [lex_lp, hs _ (boundary_cons _ (by decide))]
    simp [lex_rp]

theorem lex_str (w : Bool) (e : Expr) (hv : ValidTags e) :
    ∀ k, Boundary k → lexGo none [] (str w e ++ k) = toks w e ++ lexGo none [] k := by
  induction e with
  | tag s => intro k hk; simpa [str, toks] using lex_tag s k hv hk
  | not x ih =>
    intro k hk
    simp only [str, toks, List.cons_append]
    rw [lex_bang, lex_wrap _ _ _ (ih hv) k hk]
  | and x y ihx ihy =>
    intro k hk
    simp only [str, toks, List.append_assoc, List.cons_append, List.nil_append]
    rw [lex_wrap _ _ _ (ihx hv.1) _ (boundary_cons _ (by decide)), lex_sp, lex_andand, lex_sp,
      lex_wrap _ _ _ (ihy hv.2) k hk]
  | or x y ihx ihy =>
    intro k hk
    simp only [str, toks, List.append_assoc, List.cons_append, List.nil_append]
    rw [lex_wrap _ _ _ (ihx hv.1) _ (boundary_cons _ (by decide)), lex_sp, lex_oror, lex_sp,
      lex_wrap _ _ _ (ihy hv.2) k hk]

theorem lexAll_str (w : Bool) (e : Expr) (hv : ValidTags e) : lexAll (str w e) = toks w e := by
  have := lex_str w e hv [] (by intro c r h; simp at h)
  simpa [lexAll, lexGo, flush] using this


/-! ## the printed token string is a sentence of the grammar, with an equivalent tree -/

theorem atom_to_not {t x} (h : D .atom t x) : D .not t x := D.notPos h
theorem not_to_and {t x} (h : D .not t x) : D .and t x := by
  simpa using D.and h D.andNil
theorem and_to_or {t x} (h : D .and t x) : D .or t x := by
  simpa using D.or h D.orNil
theorem or_to_atom {t x} (h : D .or t x) : D .atom (wrapT true t) x := by
  simpa [wrapT] using D.paren h

theorem andLoop_comp {nt ts e} (h : D nt ts e) : ∀ a, nt = .andLoop a → ∀ ts2 e',
    D (.andLoop e) ts2 e' → D (.andLoop a) (ts ++ ts2) e' := by
  induction h with
  | andNil => intro a hnt ts2 e' h2; cases hnt; simpa using h2
  | @andCons acc t y ts e d1 d2 _ ih2 =>
    intro a hnt ts2 e' h2
    cases hnt
    have := D.andCons d1 (ih2 _ rfl ts2 e' h2)
    simpa [List.append_assoc] using this
  | _ => intro a hnt; cases hnt

theorem orLoop_comp {nt ts e} (h : D nt ts e) : ∀ a, nt = .orLoop a → ∀ ts2 e',
    D (.orLoop e) ts2 e' → D (.orLoop a) (ts ++ ts2) e' := by
  induction h with
  | orNil => intro a hnt ts2 e' h2; cases hnt; simpa using h2
  | @orCons acc t y ts e d1 d2 _ ih2 =>
    intro a hnt ts2 e' h2
    cases hnt
    have := D.orCons d1 (ih2 _ rfl ts2 e' h2)
    simpa [List.append_assoc] using this
  | _ => intro a hnt; cases hnt

/-- the loop's effect is "conjoin with `R`", whatever it started from -/
theorem andLoop_reacc {nt ts e} (h : D nt ts e) : ∀ a, nt = .andLoop a →
    ∃ R : (Tag → Bool) → Bool, (∀ ρ, eval ρ e = (eval ρ a && R ρ)) ∧
      ∀ b, ∃ e', D (.andLoop b) ts e' ∧ ∀ ρ, eval ρ e' = (eval ρ b && R ρ) := by
  induction h with
  | andNil =>
    intro a hnt; cases hnt
    exact ⟨fun _ => true, by simp, fun b => ⟨b, D.andNil, by simp⟩⟩
  | @andCons acc t y ts e d1 d2 _ ih2 =>
    intro a hnt; cases hnt
    obtain ⟨R', hR, hb⟩ := ih2 _ rfl
    refine ⟨fun ρ => eval ρ y && R' ρ, ?_, ?_⟩
    · intro ρ; rw [hR ρ]; simp [eval, Bool.and_assoc]
    · intro b
      obtain ⟨e', de, he⟩ := hb (.and b y)
      exact ⟨e', D.andCons d1 de, by intro ρ; rw [he ρ]; simp [eval, Bool.and_assoc]⟩
  | _ => intro a hnt; cases hnt

theorem orLoop_reacc {nt ts e} (h : D nt ts e) : ∀ a, nt = .orLoop a →
    ∃ R : (Tag → Bool) → Bool, (∀ ρ, eval ρ e = (eval ρ a || R ρ)) ∧
      ∀ b, ∃ e', D (.orLoop b) ts e' ∧ ∀ ρ, eval ρ e' = (eval ρ b || R ρ) := by
  induction h with
  | orNil =>
    intro a hnt; cases hnt
    exact ⟨fun _ => false, by simp, fun b => ⟨b, D.orNil, by simp⟩⟩
  | @orCons acc t y ts e d1 d2 _ ih2 =>
    intro a hnt; cases hnt
    obtain ⟨R', hR, hb⟩ := ih2 _ rfl
    refine ⟨fun ρ => eval ρ y || R' ρ, ?_, ?_⟩
    · intro ρ; rw [hR ρ]; simp [eval, Bool.or_assoc]
    · intro b
      obtain ⟨e', de, he⟩ := hb (.or b y)
      exact ⟨e', D.orCons d1 de, by intro ρ; rw [he ρ]; simp [eval, Bool.or_assoc]⟩
  | _ => intro a hnt; cases hnt

/-- `X && Y` where `X`, `Y` are `&&`-level sentences: one longer `&&`-chain, re-associated -/
theorem and_concat {w1 e1 w2 e2} (h1 : D .and w1 e1) (h2 : D .and w2 e2) :
    ∃ e', D .and (w1 ++ .andand :: w2) e' ∧ ∀ ρ, eval ρ e' = (eval ρ e1 && eval ρ e2) := by
  cases h1 with
  | @and t1 ts1 x1 _ n1 l1 =>
    cases h2 with
    | @and t2 ts2 x2 _ n2 l2 =>
      obtain ⟨R, hR, hb⟩ := andLoop_reacc l2 _ rfl
      obtain ⟨e', de, he⟩ := hb (.and e1 x2)
      refine ⟨e', ?_, ?_⟩
      · have := D.and n1 (andLoop_comp l1 _ rfl _ _ (D.andCons n2 de))
        simpa [List.append_assoc] using this
      · intro ρ; rw [he ρ, hR ρ]; simp [eval, Bool.and_assoc]

theorem or_concat {w1 e1 w2 e2} (h1 : D .or w1 e1) (h2 : D .or w2 e2) :
    ∃ e', D .or (w1 ++ .oror :: w2) e' ∧ ∀ ρ, eval ρ e' = (eval ρ e1 || eval ρ e2) := by
  cases h1 with
  | @or t1 ts1 x1 _ n1 l1 =>
    cases h2 with
    | @or t2 ts2 x2 _ n2 l2 =>
      obtain ⟨R, hR, hb⟩ := orLoop_reacc l2 _ rfl
      obtain ⟨e', de, he⟩ := hb (.or e1 x2)
      refine ⟨e', ?_, ?_⟩
      · have := D.or n1 (orLoop_comp l1 _ rfl _ _ (D.orCons n2 de))
        simpa [List.append_assoc] using this
      · intro ρ; rw [he ρ, hR ρ]; simp [eval, Bool.or_assoc]

/-- the level at which an expression's printed form is a sentence -/
def levelOf : Expr → NT
  | .tag _ => .atom
  | .not _ => .not
  | .and _ _ => .and
  | .or _ _ => .or

theorem lift_or {x : Expr} {t e'} (h : D (levelOf x) t e') : D .or t e' := by
  cases x <;> simp only [levelOf] at h
  · exact and_to_or (not_to_and (atom_to_not h))
  · exact and_to_or (not_to_and h)
  · exact and_to_or h
  · exact h

theorem lift_and {x : Expr} {t e'} (hx : x.isOr = false) (h : D (levelOf x) t e') : D .and t e' := by
  cases x <;> simp only [levelOf] at h
  · exact not_to_and (atom_to_not h)
  · exact not_to_and h
  · exact h
  · simp [Expr.isOr] at hx

theorem toks_level (w : Bool) (e : Expr) (hr : w = true ∨ NoNotNot e) :
    ∃ e', D (levelOf e) (toks w e) e' ∧ ∀ ρ, eval ρ e' = eval ρ e := by
  induction e with
  | tag s => exact ⟨.tag s, D.tag, fun _ => rfl⟩
  | not x ih =>
    have hrx : w = true ∨ NoNotNot x := hr.imp id (fun h => h.2)
    obtain ⟨x', dx, hx⟩ := ih hrx
    refine ⟨.not x', ?_, fun ρ => by simp [eval, hx ρ]⟩
    simp only [levelOf, toks]
    apply D.notNeg
    cases x with
    | tag s => simpa [wrapT, Expr.isAnd, Expr.isOr, Expr.isNot, levelOf] using dx
    | and a b => simpa [Expr.isAnd] using or_to_atom (lift_or dx)
    | or a b => simpa [Expr.isOr, Expr.isAnd] using or_to_atom (lift_or dx)
    | not a =>
      rcases hr with rfl | h
      · simpa [Expr.isNot, Expr.isAnd, Expr.isOr] using or_to_atom (lift_or dx)
      · simp [NoNotNot, Expr.isNot] at h
  | and x y ihx ihy =>
    obtain ⟨x', dx, hx⟩ := ihx (hr.imp id (fun h => h.1))
    obtain ⟨y', dy, hy⟩ := ihy (hr.imp id (fun h => h.2))
    have ax : D .and (wrapT x.isOr (toks w x)) x' := by
      cases hxo : x.isOr with
      | true => exact not_to_and (atom_to_not (or_to_atom (lift_or dx)))
      | false => simpa [wrapT] using lift_and hxo dx
    have ay : D .and (wrapT y.isOr (toks w y)) y' := by
      cases hyo : y.isOr with
      | true => exact not_to_and (atom_to_not (or_to_atom (lift_or dy)))
      | false => simpa [wrapT] using lift_and hyo dy
    obtain ⟨e', de, he⟩ := and_concat ax ay
    exact ⟨e', by simpa [levelOf, toks] using de, fun ρ => by rw [he ρ, hx ρ, hy ρ]; rfl⟩
  | or x y ihx ihy =>
    obtain ⟨x', dx, hx⟩ := ihx (hr.imp id (fun h => h.1))
    obtain ⟨y', dy, hy⟩ := ihy (hr.imp id (fun h => h.2))
    have ox : D .or (wrapT x.isAnd (toks w x)) x' := by
      cases hxa : x.isAnd with
      | true => exact and_to_or (not_to_and (atom_to_not (or_to_atom (lift_or dx))))
      | false => simpa [wrapT] using lift_or dx
    have oy : D .or (wrapT y.isAnd (toks w y)) y' := by
      cases hya : y.isAnd with
      | true => exact and_to_or (not_to_and (atom_to_not (or_to_atom (lift_or dy))))
      | false => simpa [wrapT] using lift_or dy
    obtain ⟨e', de, he⟩ := or_concat ox oy
    exact ⟨e', by simpa [levelOf, toks] using de, fun ρ => by rw [he ρ, hx ρ, hy ρ]; rfl⟩

theorem toks_derivable (w : Bool) (e : Expr) (hr : w = true ∨ NoNotNot e) :
    ∃ e', D .or (toks w e) e' ∧ ∀ ρ, eval ρ e' = eval ρ e := by
  obtain ⟨e', d, h⟩ := toks_level w e hr
  exact ⟨e', lift_or d, h⟩

end WaVerif.C24
