import WaVerif.Lemmas.C15Repr
namespace WaVerif.C15
open WaVerif

/-! ### encodings -/

theorem toInt_enc {t : Go.ITy} (ht : 0 < t.bits) (hs : t.signed = true) {v : Int} (h : inRange t v) :
    (enc t v).toInt = v := by
  unfold inRange at h; rw [if_pos hs] at h
  exact BitVec.toInt_ofInt_eq_self ht h.1 h.2

theorem toNat_enc {t : Go.ITy} (hs : t.signed = false) {v : Int} (h : inRange t v) :
    ((enc t v).toNat : Int) = v := by
  unfold inRange at h; simp only [hs, Bool.false_eq_true, if_false] at h
  unfold enc
  rw [BitVec.toNat_ofInt]
  have hp : (0 : Int) < ((2 ^ t.bits : Nat) : Int) := by
    have := Nat.two_pow_pos t.bits; omega
  have h2 : ((2 ^ t.bits : Nat) : Int) = (2 : Int) ^ t.bits := by simp
  rw [Int.toNat_of_nonneg (Int.emod_nonneg _ (by omega)), Int.emod_eq_of_lt h.1 (by omega)]

theorem dec_enc_lem (t : Go.ITy) (ht : 0 < t.bits) (v : Int) (h : inRange t v) : dec t (enc t v) = v := by
  unfold dec
  cases hs : t.signed
  · simp only [Bool.false_eq_true, if_false]; exact toNat_enc hs h
  · simp only [if_true]; exact toInt_enc ht hs h

theorem enc_dec_lem (t : Go.ITy) (b : BitVec t.bits) : enc t (dec t b) = b := by
  unfold enc dec
  cases t.signed
  · simp only [Bool.false_eq_true, if_false]; rw [BitVec.ofInt_natCast]; simp
  · simp only [if_true]; exact BitVec.ofInt_toInt

theorem inRange_dec_lem (t : Go.ITy) (b : BitVec t.bits) : inRange t (dec t b) := by
  unfold inRange dec
  cases t.signed
  · simp only [Bool.false_eq_true, if_false]
    have := b.isLt
    have h2 : ((2 ^ t.bits : Nat) : Int) = (2 : Int) ^ t.bits := by simp
    omega
  · simp only [if_true]
    exact ⟨BitVec.le_toInt b, BitVec.toInt_lt⟩

theorem enc_eq_ofNat {t : Go.ITy} (n : Nat) : enc t (n : Int) = BitVec.ofNat t.bits n := by
  unfold enc; exact BitVec.ofInt_natCast _ _

/-- an unsigned in-range value is a natural below 2^bits -/
theorem unsigned_cases {t : Go.ITy} (hs : t.signed = false) {v : Int} (h : inRange t v) :
    ∃ n : Nat, v = (n : Int) ∧ n < 2 ^ t.bits := by
  unfold inRange at h; simp only [hs, Bool.false_eq_true, if_false] at h
  refine ⟨v.toNat, by omega, ?_⟩
  have h2 : ((2 ^ t.bits : Nat) : Int) = (2 : Int) ^ t.bits := by simp
  omega

theorem enc_ne_zero {t : Go.ITy} (ht : 0 < t.bits) {v : Int} (h : inRange t v) (hv : v ≠ 0) : enc t v ≠ 0 := by
  intro e
  have := dec_enc_lem t ht v h
  rw [e] at this
  unfold dec at this
  cases t.signed <;> simp at this <;> omega

end WaVerif.C15
