import WaVerif.Model.C27
/-! Helper lemmas for C27: insertion sort is a permutation and sorted; sorted permutations of lists with
pairwise distinct keys coincide (core `List.Perm.eq_of_pairwise`). -/
namespace WaVerif.C27
open List

variable {μ κ ω : Type}

theorem insertBy_perm (le : κ → κ → Bool) (key : μ → κ) (x : μ) (l : List μ) :
    insertBy le key x l ~ x :: l := by
  induction l with
  | nil => exact Perm.refl _
  | cons y ys ih =>
    simp only [insertBy]
    split
    · exact Perm.refl _
    · exact (Perm.cons y ih).trans (Perm.swap x y ys)

theorem sortBy_perm (le : κ → κ → Bool) (key : μ → κ) (l : List μ) : sortBy le key l ~ l := by
  induction l with
  | nil => exact Perm.refl _
  | cons x xs ih => exact (insertBy_perm le key x _).trans (Perm.cons x ih)

theorem mem_insertBy {le : κ → κ → Bool} {key : μ → κ} {x z : μ} {l : List μ} :
    z ∈ insertBy le key x l ↔ z = x ∨ z ∈ l := by
  rw [(insertBy_perm le key x l).mem_iff]; simp

/-- the sortedness relation -/
def KeyLe (le : κ → κ → Bool) (key : μ → κ) (a b : μ) : Prop := le (key a) (key b) = true

theorem insertBy_sorted {le : κ → κ → Bool} (hle : LinearLe le) (key : μ → κ) (x : μ) (l : List μ)
    (h : l.Pairwise (KeyLe le key)) : (insertBy le key x l).Pairwise (KeyLe le key) := by
  induction l with
  | nil => simp [insertBy]
  | cons y ys ih =>
    simp only [insertBy]
    have hy := (pairwise_cons.mp h)
    split
    · next hxy =>
      refine pairwise_cons.mpr ⟨?_, h⟩
      intro z hz
      rcases mem_cons.mp hz with rfl | hz
      · exact hxy
      · exact hle.trans _ _ _ hxy (hy.1 z hz)
    · next hxy =>
      have hyx : le (key y) (key x) = true := by
        rcases hle.total (key x) (key y) with h1 | h1
        · exact absurd h1 hxy
        · exact h1
      refine pairwise_cons.mpr ⟨?_, ih hy.2⟩
      intro z hz
      rcases mem_insertBy.mp hz with rfl | hz
      · exact hyx
      · exact hy.1 z hz

theorem sortBy_sorted {le : κ → κ → Bool} (hle : LinearLe le) (key : μ → κ) (l : List μ) :
    (sortBy le key l).Pairwise (KeyLe le key) := by
  induction l with
  | nil => exact Pairwise.nil
  | cons x xs ih => exact insertBy_sorted hle key x _ ih

/-- pairwise distinct keys = `Nodup` of the key list, in the form used below -/
theorem key_inj_of_nodup {key : μ → κ} {l : List μ} (hn : (l.map key).Nodup) :
    ∀ a b, a ∈ l → b ∈ l → key a = key b → a = b := by
  induction l with
  | nil => intro a b ha; cases ha
  | cons x xs ih =>
    simp only [map_cons, nodup_cons, mem_map, not_exists, not_and] at hn
    intro a b ha hb hk
    rcases mem_cons.mp ha with ha' | ha' <;> rcases mem_cons.mp hb with hb' | hb'
    · rw [ha', hb']
    · subst ha'; exact absurd hk.symm (hn.1 b hb')
    · subst hb'; exact absurd hk (hn.1 a ha')
    · exact ih hn.2 a b ha' hb' hk

theorem bytesLe_refl : ∀ a, bytesLe a a = true
  | [] => rfl
  | a :: as => by simp [bytesLe, bytesLe_refl as]

theorem bytesLe_total : ∀ a b, bytesLe a b = true ∨ bytesLe b a = true
  | [], _ => Or.inl rfl
  | _ :: _, [] => Or.inr rfl
  | a :: as, b :: bs => by
    simp only [bytesLe]
    by_cases h1 : a < b
    · simp [h1]
    · by_cases h2 : b < a
      · simp [h2]
      · simp only [h1, h2, if_false]; exact bytesLe_total as bs

theorem bytesLe_antisymm : ∀ a b, bytesLe a b = true → bytesLe b a = true → a = b
  | [], [], _, _ => rfl
  | [], _ :: _, _, h => by simp [bytesLe] at h
  | _ :: _, [], h, _ => by simp [bytesLe] at h
  | a :: as, b :: bs, h1, h2 => by
    simp only [bytesLe] at h1 h2
    by_cases c1 : a < b
    · have : ¬ b < a := by omega
      simp [c1, this] at h2
    · by_cases c2 : b < a
      · simp [c1, c2] at h1
      · simp only [c1, c2, if_false] at h1 h2
        have : a = b := by omega
        rw [this, bytesLe_antisymm as bs h1 h2]

theorem bytesLe_trans : ∀ a b c, bytesLe a b = true → bytesLe b c = true → bytesLe a c = true
  | [], _, _, _, _ => by simp [bytesLe]
  | _ :: _, [], _, h, _ => by simp [bytesLe] at h
  | _ :: _, _ :: _, [], _, h => by simp [bytesLe] at h
  | a :: as, b :: bs, c :: cs, h1, h2 => by
    simp only [bytesLe] at h1 h2 ⊢
    by_cases ab : a < b
    · by_cases bc : b < c
      · have : a < c := by omega
        simp [this]
      · by_cases cb : c < b
        · simp [bc, cb] at h2
        · have : a < c := by omega
          simp [this]
    · by_cases ba : b < a
      · simp [ab, ba] at h1
      · simp only [ab, ba, if_false] at h1
        have hab : a = b := by omega
        subst hab
        by_cases bc : a < c
        · simp [bc]
        · by_cases cb : c < a
          · simp [bc, cb] at h2
          · simp only [bc, cb, if_false] at h2 ⊢
            exact bytesLe_trans as bs cs h1 h2

theorem bytesLe_linear : LinearLe bytesLe :=
  ⟨bytesLe_total, bytesLe_trans, bytesLe_antisymm⟩

theorem natLe_linear : LinearLe (fun a b : Nat => decide (a ≤ b)) :=
  ⟨fun a b => by simp only [decide_eq_true_eq]; omega,
   fun a b c => by simp only [decide_eq_true_eq]; omega,
   fun a b => by simp only [decide_eq_true_eq]; omega⟩

end WaVerif.C27
