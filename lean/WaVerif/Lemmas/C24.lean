import Lean
import WaVerif.Model.C24Grammar
/-!
# C24 — the parser decides the reference grammar (soundness and completeness, fuel bound)
-/
namespace WaVerif.C24

open Lean in
/-- `chars! "ab"` is the list literal `['a', 'b']`, built at elaboration time -/
macro "chars! " s:str : term => do
  let elems ← s.getString.toList.mapM fun c => `($(Syntax.mkCharLit c))
  `([$(elems.toArray),*])

def strm (c : Option Tok) (ts : List Tok) : List Tok := c.toList ++ ts

/-- the part of the input a procedure starts from -/
def inp : NT → Option Tok → List Tok → List Tok
  | .or, _, ts | .and, _, ts | .not, _, ts => ts
  | _, c, ts => strm c ts

theorem lexTok_ok {ts c t} (h : lexTok ts = .ok (c, t)) : ts = strm c t ∧ (∀ ch, c ≠ some (.bad ch)) ∧ (c = none → t = []) := by
  cases ts with
  | nil => simp [lexTok] at h; obtain ⟨rfl, rfl⟩ := h; simp [strm]
  | cons a r =>
    cases a <;> simp [lexTok] at h <;> obtain ⟨rfl, rfl⟩ := h <;> simp [strm]

@[simp] theorem inp_or (c ts) : inp .or c ts = ts := rfl
@[simp] theorem inp_and (c ts) : inp .and c ts = ts := rfl
@[simp] theorem inp_not (c ts) : inp .not c ts = ts := rfl
@[simp] theorem inp_orLoop (x c ts) : inp (.orLoop x) c ts = strm c ts := rfl
@[simp] theorem inp_andLoop (x c ts) : inp (.andLoop x) c ts = strm c ts := rfl
@[simp] theorem inp_atom (c ts) : inp .atom c ts = strm c ts := rfl

def WF (c : Option Tok) (t : List Tok) : Prop := (∀ ch, c ≠ some (.bad ch)) ∧ (c = none → t = [])

def Follow : NT → Option Tok → Prop
  | .or, c | .orLoop _, c => c ≠ some .oror ∧ c ≠ some .andand
  | .and, c | .andLoop _, c => c ≠ some .andand
  | _, _ => True

def bound : NT → Nat → Nat
  | .or, n => 4 * n + 3
  | .and, n => 4 * n + 2
  | .atom, n => 4 * n
  | _, n => 4 * n + 1

def entersLexed : NT → Bool
  | .or | .and | .not => false
  | _ => true

theorem lexTok_strm {c t} (h : WF c t) : lexTok (strm c t) = .ok (c, t) := by
  obtain ⟨hb, hn⟩ := h
  cases c with
  | none => simp [hn rfl, strm, lexTok]
  | some a =>
    cases a <;> simp [strm, lexTok]
    exact hb _ rfl

theorem strm_inj {c t c' t'} (h1 : c = none → t = []) (h2 : c' = none → t' = [])
    (h : strm c t = strm c' t') : c = c' ∧ t = t' := by
  cases c <;> cases c' <;> simp [strm] at * <;> simp_all

theorem parse_sound_nt : ∀ (f : Nat) (nt : NT) (cur : Option Tok) (ts : List Tok) (e : Expr) (c' : Option Tok) (t' : List Tok),
    parseNT f nt cur ts = .ok (e, c', t') → (entersLexed nt = true → (cur = none → ts = [])) →
    ∃ w, inp nt cur ts = w ++ strm c' t' ∧ D nt w e ∧ (c' = none → t' = []) := by
  intro f
  induction f with
  | zero => intro nt cur ts e c' t' h; simp [parseNT] at h
  | succ f ih =>
    intro nt cur ts e c' t' h hpre
    cases nt with
    | or =>
      simp only [parseNT] at h
      split at h
      · simp at h
      · rename_i x c1 t1 h1
        obtain ⟨w1, e1, d1, p1⟩ := ih _ _ _ _ _ _ h1 (by simp [entersLexed])
        obtain ⟨w2, e2, d2, p2⟩ := ih _ _ _ _ _ _ h (fun _ => p1)
        refine ⟨w1 ++ w2, ?_, D.or d1 d2, p2⟩
        simp only [inp_or, inp_and, inp_orLoop] at *
        rw [e1, e2, List.append_assoc]
    | orLoop x =>
      simp only [parseNT] at h
      split at h
      · rename_i hc
        split at h
        · simp at h
        · rename_i y c1 t1 h1
          obtain ⟨w1, e1, d1, p1⟩ := ih _ _ _ _ _ _ h1 (by simp [entersLexed])
          obtain ⟨w2, e2, d2, p2⟩ := ih _ _ _ _ _ _ h (fun _ => p1)
          refine ⟨.oror :: (w1 ++ w2), ?_, D.orCons d1 d2, p2⟩
          simp only [inp_and, inp_orLoop] at e1 e2 ⊢
          rw [hc, e1, e2]
          simp [strm]
      · simp at h
        obtain ⟨rfl, rfl, rfl⟩ := h
        exact ⟨[], by simp, D.orNil, hpre rfl⟩
    | and =>
      simp only [parseNT] at h
      split at h
      · simp at h
      · rename_i x c1 t1 h1
        obtain ⟨w1, e1, d1, p1⟩ := ih _ _ _ _ _ _ h1 (by simp [entersLexed])
        obtain ⟨w2, e2, d2, p2⟩ := ih _ _ _ _ _ _ h (fun _ => p1)
        refine ⟨w1 ++ w2, ?_, D.and d1 d2, p2⟩
        simp only [inp_not, inp_and, inp_andLoop] at *
        rw [e1, e2, List.append_assoc]
    | andLoop x =>
      simp only [parseNT] at h
      split at h
      · rename_i hc
        split at h
        · simp at h
        · rename_i y c1 t1 h1
          obtain ⟨w1, e1, d1, p1⟩ := ih _ _ _ _ _ _ h1 (by simp [entersLexed])
          obtain ⟨w2, e2, d2, p2⟩ := ih _ _ _ _ _ _ h (fun _ => p1)
          refine ⟨.andand :: (w1 ++ w2), ?_, D.andCons d1 d2, p2⟩
          simp only [inp_not, inp_andLoop] at e1 e2 ⊢
          rw [hc, e1, e2]
          simp [strm]
      · simp at h
        obtain ⟨rfl, rfl, rfl⟩ := h
        exact ⟨[], by simp, D.andNil, hpre rfl⟩
    | not =>
      simp only [parseNT] at h
      split at h
      · simp at h
      · rename_i c1 t1 hl1
        obtain ⟨rfl, _, q1⟩ := lexTok_ok hl1
        split at h
        · rename_i hb
          split at h
          · simp at h
          · rename_i c2 t2 hl2
            obtain ⟨rfl, _, q2⟩ := lexTok_ok hl2
            split at h
            · simp at h
            · split at h
              · simp at h
              · rename_i x c3 t3 h3
                simp at h
                obtain ⟨rfl, rfl, rfl⟩ := h
                obtain ⟨w, e1, d1, p1⟩ := ih _ _ _ _ _ _ h3 (fun _ => q2)
                refine ⟨.bang :: w, ?_, D.notNeg d1, p1⟩
                simp only [inp_atom, inp_not] at e1 ⊢
                rw [hb, e1]; simp [strm]
        · obtain ⟨w, e1, d1, p1⟩ := ih _ _ _ _ _ _ h (fun _ => q1)
          exact ⟨w, by simpa using e1, D.notPos d1, p1⟩
    | atom =>
      simp only [parseNT] at h
      split at h
      · -- "("
        split at h
        · simp at h
        · simp at h
        · rename_i x c1 t1 h1
          split at h
          · rename_i hrp
            split at h
            · simp at h
            · rename_i c2 t2 hl
              simp at h
              obtain ⟨rfl, rfl, rfl⟩ := h
              obtain ⟨rfl, _, q⟩ := lexTok_ok hl
              obtain ⟨w, e1, d1, _⟩ := ih _ _ _ _ _ _ h1 (by simp [entersLexed])
              refine ⟨.lp :: (w ++ [.rp]), ?_, D.paren d1, q⟩
              simp only [inp_or, inp_atom] at e1 ⊢
              rw [e1, hrp]; simp [strm]
          · simp at h
      · -- tag
        rename_i s
        split at h
        · simp at h
        · rename_i c2 t2 hl
          simp at h
          obtain ⟨rfl, rfl, rfl⟩ := h
          obtain ⟨rfl, _, q⟩ := lexTok_ok hl
          exact ⟨[.tag s], by simp [strm], D.tag, q⟩
      · simp at h
      · simp at h

theorem orLoop_head {x w e} (h : D (.orLoop x) w e) : w = [] ∨ ∃ r, w = .oror :: r := by
  cases h <;> simp
theorem andLoop_head {x w e} (h : D (.andLoop x) w e) : w = [] ∨ ∃ r, w = .andand :: r := by
  cases h <;> simp

theorem atom_ne_nil {w e} (h : D .atom w e) : w ≠ [] := by
  cases h <;> simp
theorem atom_head {w e} (h : D .atom w e) : ∀ a r, w = a :: r → a = .lp ∨ ∃ s, a = .tag s := by
  cases h <;> intro a r h' <;> simp at h' <;> simp [← h'.1]

theorem parse_complete_nt {nt w e} (h : D nt w e) :
    ∀ (f : Nat) (cur : Option Tok) (ts : List Tok) (c' : Option Tok) (t' : List Tok),
      inp nt cur ts = w ++ strm c' t' → WF c' t' → (entersLexed nt = true → (cur = none → ts = [])) →
      Follow nt c' → bound nt w.length ≤ f → parseNT f nt cur ts = .ok (e, c', t') := by
  induction h with
  | @or t ts0 x e d1 d2 ih1 ih2 =>
    intro f cur ts c' t' hin hwf _ hfol hb
    cases f with
    | zero => simp [bound] at hb
    | succ g =>
      simp only [inp_or] at hin
      simp only [bound, List.length_append] at hb
      simp only [Follow] at hfol
      simp only [parseNT]
      rcases orLoop_head d2 with rfl | ⟨r, rfl⟩
      · rw [ih1 g cur ts c' t' (by simpa using hin) hwf (by simp [entersLexed]) hfol.2 (by simp [bound]; omega)]
        exact ih2 g c' t' c' t' (by simp) hwf (fun _ => hwf.2) hfol (by simp [bound] at hb ⊢; omega)
      · have hwf1 : WF (some .oror) (r ++ strm c' t') := ⟨by simp, by simp⟩
        rw [ih1 g cur ts (some .oror) (r ++ strm c' t') (by simp [hin, strm]) hwf1 (by simp [entersLexed])
          (by simp [Follow]) (by simp [bound]; omega)]
        exact ih2 g _ _ c' t' (by simp [strm]) hwf (by simp) hfol (by simp [bound] at hb ⊢; omega)
  | @orNil acc =>
    intro f cur ts c' t' hin hwf hcur hfol hb
    cases f with
    | zero => simp [bound] at hb
    | succ g =>
      simp only [inp_orLoop, List.nil_append] at hin
      obtain ⟨rfl, rfl⟩ := strm_inj (hcur rfl) hwf.2 hin
      simp only [Follow] at hfol
      simp [parseNT, hfol.1]
  | @orCons acc t y ts0 e d1 d2 ih1 ih2 =>
    intro f cur ts c' t' hin hwf hcur hfol hb
    cases f with
    | zero => simp [bound] at hb
    | succ g =>
      simp only [inp_orLoop] at hin
      simp only [bound, List.length_cons, List.length_append] at hb
      simp only [Follow] at hfol
      have hcur' : cur = some .oror ∧ ts = t ++ ts0 ++ strm c' t' := by
        cases cur with
        | none => simp [hcur rfl rfl, strm] at hin
        | some a => simp [strm] at hin ⊢; simp [hin.1, hin.2]
      obtain ⟨rfl, rfl⟩ := hcur'
      simp only [parseNT, if_true]
      rcases orLoop_head d2 with rfl | ⟨r, rfl⟩
      · rw [ih1 g _ _ c' t' (by simp) hwf (by simp [entersLexed]) hfol.2 (by simp [bound]; omega)]
        exact ih2 g c' t' c' t' (by simp) hwf (fun _ => hwf.2) hfol (by simp [bound] at hb ⊢; omega)
      · have hwf1 : WF (some .oror) (r ++ strm c' t') := ⟨by simp, by simp⟩
        rw [ih1 g _ _ (some .oror) (r ++ strm c' t') (by simp [strm]) hwf1 (by simp [entersLexed])
          (by simp [Follow]) (by simp [bound]; omega)]
        exact ih2 g _ _ c' t' (by simp [strm]) hwf (by simp) hfol (by simp [bound] at hb ⊢; omega)
  | @and t ts0 x e d1 d2 ih1 ih2 =>
    intro f cur ts c' t' hin hwf _ hfol hb
    cases f with
    | zero => simp [bound] at hb
    | succ g =>
      simp only [inp_and] at hin
      simp only [bound, List.length_append] at hb
      simp only [Follow] at hfol
      simp only [parseNT]
      rcases andLoop_head d2 with rfl | ⟨r, rfl⟩
      · rw [ih1 g cur ts c' t' (by simpa using hin) hwf (by simp [entersLexed]) trivial (by simp [bound]; omega)]
        exact ih2 g c' t' c' t' (by simp) hwf (fun _ => hwf.2) hfol (by simp [bound] at hb ⊢; omega)
      · have hwf1 : WF (some .andand) (r ++ strm c' t') := ⟨by simp, by simp⟩
        rw [ih1 g cur ts (some .andand) (r ++ strm c' t') (by simp [hin, strm]) hwf1 (by simp [entersLexed])
          trivial (by simp [bound]; omega)]
        exact ih2 g _ _ c' t' (by simp [strm]) hwf (by simp) hfol (by simp [bound] at hb ⊢; omega)
  | @andNil acc =>
    intro f cur ts c' t' hin hwf hcur hfol hb
    cases f with
    | zero => simp [bound] at hb
    | succ g =>
      simp only [inp_andLoop, List.nil_append] at hin
      obtain ⟨rfl, rfl⟩ := strm_inj (hcur rfl) hwf.2 hin
      simp only [Follow] at hfol
      simp [parseNT, hfol]
  | @andCons acc t y ts0 e d1 d2 ih1 ih2 =>
    intro f cur ts c' t' hin hwf hcur hfol hb
    cases f with
    | zero => simp [bound] at hb
    | succ g =>
      simp only [inp_andLoop] at hin
      simp only [bound, List.length_cons, List.length_append] at hb
      simp only [Follow] at hfol
      have hcur' : cur = some .andand ∧ ts = t ++ ts0 ++ strm c' t' := by
        cases cur with
        | none => simp [hcur rfl rfl, strm] at hin
        | some a => simp [strm] at hin ⊢; simp [hin.1, hin.2]
      obtain ⟨rfl, rfl⟩ := hcur'
      simp only [parseNT, if_true]
      rcases andLoop_head d2 with rfl | ⟨r, rfl⟩
      · rw [ih1 g _ _ c' t' (by simp) hwf (by simp [entersLexed]) trivial (by simp [bound]; omega)]
        exact ih2 g c' t' c' t' (by simp) hwf (fun _ => hwf.2) hfol (by simp [bound] at hb ⊢; omega)
      · have hwf1 : WF (some .andand) (r ++ strm c' t') := ⟨by simp, by simp⟩
        rw [ih1 g _ _ (some .andand) (r ++ strm c' t') (by simp [strm]) hwf1 (by simp [entersLexed])
          trivial (by simp [bound]; omega)]
        exact ih2 g _ _ c' t' (by simp [strm]) hwf (by simp) hfol (by simp [bound] at hb ⊢; omega)
  | @notPos t x d1 ih1 =>
    intro f cur ts c' t' hin hwf _ _ hb
    cases f with
    | zero => simp [bound] at hb
    | succ g =>
      simp only [inp_not] at hin
      simp only [bound] at hb
      have hne := atom_ne_nil d1
      obtain ⟨a, r, rfl⟩ := List.exists_cons_of_ne_nil hne
      have ha := atom_head d1
      subst hin
      have hl : lexTok (a :: r ++ strm c' t') = .ok (some a, r ++ strm c' t') := by
        rcases ha a r rfl with rfl | ⟨s, rfl⟩ <;> simp [lexTok]
      have hnb : some a ≠ some Tok.bang := by
        rcases ha a r rfl with rfl | ⟨s, rfl⟩ <;> simp
      simp only [parseNT, hl, if_neg hnb]
      exact ih1 g _ _ c' t' (by simp [strm]) hwf (by simp) trivial (by simp [bound] at hb ⊢; omega)
  | @notNeg t x d1 ih1 =>
    intro f cur ts c' t' hin hwf _ _ hb
    cases f with
    | zero => simp [bound] at hb
    | succ g =>
      simp only [inp_not] at hin
      simp only [bound, List.length_cons] at hb
      have hne := atom_ne_nil d1
      obtain ⟨a, r, rfl⟩ := List.exists_cons_of_ne_nil hne
      have ha := atom_head d1
      subst hin
      have hl : lexTok (a :: r ++ strm c' t') = .ok (some a, r ++ strm c' t') := by
        rcases ha a r rfl with rfl | ⟨s, rfl⟩ <;> simp [lexTok]
      have hnb : some a ≠ some Tok.bang := by
        rcases ha a r rfl with rfl | ⟨s, rfl⟩ <;> simp
      have hl0 : lexTok (Tok.bang :: (a :: r) ++ strm c' t') = .ok (some .bang, a :: r ++ strm c' t') := by
        simp [lexTok]
      simp only [parseNT, hl0, if_true, hl, if_neg hnb]
      rw [ih1 g _ _ c' t' (by simp [strm]) hwf (by simp) trivial (by simp [bound] at hb ⊢; omega)]
  | @tag s =>
    intro f cur ts c' t' hin hwf hcur _ hb
    cases f with
    | zero => simp [bound] at hb
    | succ g =>
      simp only [inp_atom] at hin
      have hcur' : cur = some (.tag s) ∧ ts = strm c' t' := by
        cases cur with
        | none => simp [hcur rfl rfl, strm] at hin
        | some a => simp [strm] at hin ⊢; simp [hin.1, hin.2]
      obtain ⟨rfl, rfl⟩ := hcur'
      simp only [parseNT, lexTok_strm hwf]
  | @paren t x d1 ih1 =>
    intro f cur ts c' t' hin hwf hcur _ hb
    cases f with
    | zero =>
      simp [bound] at hb
    | succ g =>
      simp only [inp_atom] at hin
      simp only [bound, List.length_cons, List.length_append] at hb
      have hcur' : cur = some .lp ∧ ts = t ++ strm (some .rp) (strm c' t') := by
        cases cur with
        | none => simp [hcur rfl rfl, strm] at hin
        | some a => simp [strm] at hin ⊢; simp [hin.1, hin.2]
      obtain ⟨rfl, rfl⟩ := hcur'
      have hwf1 : WF (some .rp) (strm c' t') := ⟨by simp, by simp⟩
      simp only [parseNT]
      rw [ih1 g _ _ (some .rp) (strm c' t') (by simp) hwf1 (by simp [entersLexed]) (by simp [Follow])
        (by simp [bound]; omega)]
      simp only [if_true, lexTok_strm hwf]

/-- the parser accepts exactly the reference grammar, and returns its tree -/
theorem parseToks_iff (ts : List Tok) (e : Expr) : parseToks ts = .ok e ↔ D .or ts e := by
  constructor
  · intro h
    unfold parseToks at h
    split at h
    · simp at h
    · rename_i x t' h1
      simp at h; subst h
      obtain ⟨w, e1, d1, p1⟩ := parse_sound_nt _ _ _ _ _ _ _ h1 (by simp [entersLexed])
      simp only [inp_or] at e1
      rw [p1 rfl] at e1
      simp [strm] at e1
      rw [e1]; exact d1
    · simp at h
  · intro h
    unfold parseToks
    rw [parse_complete_nt h (4 * ts.length + 8) none ts none [] (by simp [strm]) ⟨by simp, by simp⟩
      (by simp [entersLexed]) (by simp [Follow]) (by simp [bound])]
end WaVerif.C24
