import WaVerif.Lemmas.C17La
/-!
# C17 — LoongArch64: kernel-evaluated facts about the hand-written reference table
(kept apart from Props/C17.lean: they depend on the Model only, so regenerating the repo's table does not
re-check these ~80 000 pair comparisons)
-/
set_option maxRecDepth 16384
namespace WaVerif.C17.La

theorem isaTable_wf : ∀ e ∈ isaTable, e.wf = true := by decide

theorem isaTable_pairwiseDisjoint : pairwiseDisjoint isaTable = true := by decide

end WaVerif.C17.La
