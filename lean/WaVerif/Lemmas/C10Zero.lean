import WaVerif.Lemmas.C10Malloc2
/-! # C10 — when does `malloc` return 0 -/
namespace WaVerif.C10

/-- `$heap_new_allocation` has to grow memory and `memory.grow` refuses -/
def GrowFails (s : State) (n : Nat) : Prop :=
  s.heapPtr + 8 + n ≥ s.heapTop ∧ s.pages + (8 + n + 65535) / 65536 > s.cfg.maxPages

instance (s : State) (n : Nat) : Decidable (GrowFails s n) := by unfold GrowFails; exact inferInstance

theorem reuseFixed_none (s : State) (k : Nat) : reuseFixed s k = none ↔ getFx s k = [] := by
  unfold reuseFixed
  split <;> simp_all

theorem reuseVarying_none (s : State) (n : Nat) :
    (reuseVarying s n).2.1 = none ↔ scan n (scanOrder (headAddr s.cfg) s.rover s.free) = .none := by
  unfold reuseVarying
  simp only
  split
  · rename_i h; simp [h]
  · rename_i h; simp [h]
  · rename_i h; simp [h]; split <;> simp

theorem mem_withPrev_of_mem {d : Nat} {l : List FBlk} {b : FBlk} (h : b ∈ l) : ∃ pv, (b, pv) ∈ withPrev d l := by
  induction l generalizing d with
  | nil => cases h
  | cons a r ih =>
    cases h with
    | head => exact ⟨d, by simp [withPrev]⟩
    | tail _ h' =>
      obtain ⟨pv, hp⟩ := ih (d := a.1) h'
      exact ⟨pv, by simp [withPrev, hp]⟩

theorem scan_none_iff_free (s : State) (n : Nat) (hpos : 0 < n) :
    scan n (scanOrder (headAddr s.cfg) s.rover s.free) = .none ↔ ∀ b ∈ s.free, b.2 < n := by
  rw [scan_none]
  constructor
  · intro h b hb
    obtain ⟨pv, hp⟩ := mem_withPrev_of_mem (d := headAddr s.cfg) hb
    have := h (b, pv) (mem_scanOrder.2 (by unfold ringPairs; exact List.mem_cons_of_mem _ hp))
    exact this
  · intro h q hq
    rcases mem_ringPairs (mem_scanOrder.1 hq) with h1 | h1
    · rw [h1]; exact hpos
    · exact h q.1 h1

theorem newAllocation_none {s : State} (h : Inv s) (n : Nat) (hle : n ≤ 1073741824) :
    (newAllocation s n).2.1 = none ↔ GrowFails s n := by
  have hwf := h.wf
  unfold CfgWF at hwf
  have h1 := h.hp_top
  have h2 := h.top
  have h3 := h.pages_le
  have hsum : (s.heapPtr + (8 + n)) % 4294967296 = s.heapPtr + 8 + n := by omega
  unfold newAllocation GrowFails
  simp only [hsum]
  by_cases hg : s.heapPtr + 8 + n ≥ s.heapTop
  · by_cases hm : s.pages + (8 + n + 65535) / 65536 > s.cfg.maxPages
    · simp [hg, hm]
    · simp [hg, hm]
  · simp [hg]

theorem malloc_ret_zero (s : State) (req : Nat) :
    (malloc s req).ret = 0 ↔
      ((s.cfg.cap ≠ 0 ∧ effSize s.cfg req ≤ 80) → reuseFixed s (effList s.cfg req) = none) ∧
      (reuseVarying s (effSize s.cfg req)).2.1 = none ∧ (newAllocation s (effSize s.cfg req)).2.1 = none := by
  unfold malloc
  simp only
  split
  · rename_i s1 b w hf
    split at hf
    · rename_i hc; simp [hc, hf]
    · cases hf
  · rename_i hf
    have hfx : (s.cfg.cap ≠ 0 ∧ effSize s.cfg req ≤ 80) → reuseFixed s (effList s.cfg req) = none := by
      intro hc; simpa [hc] using hf
    split
    · rename_i s1 b w hv; simp [hv]
    · rename_i hv
      split
      · rename_i s2 b w hn; simp [hv, hn]
      · rename_i hn; simp [hv, hn]; intro a b; exact hfx ⟨a, b⟩

/-- the exact failure condition of the code -/
theorem malloc_zero_iff_inv {s : State} (h : Inv s) (req : Nat) (hok : OpOK s.cfg (.malloc req)) :
    (malloc s req).ret = 0 ↔
      ((s.cfg.cap ≠ 0 ∧ effSize s.cfg req ≤ 80) → getFx s (effList s.cfg req) = []) ∧
      (∀ b ∈ s.free, b.2 < effSize s.cfg req) ∧ GrowFails s (effSize s.cfg req) := by
  unfold OpOK at hok
  rw [malloc_ret_zero, reuseFixed_none, reuseVarying_none, scan_none_iff_free s _ (effSize_pos s.cfg req),
    newAllocation_none h _ (effSize_le s.cfg req hok)]

end WaVerif.C10
