import WaVerif.Lemmas.C06
/-!
# C06 — module-level lemmas: lookup, names of the stripped module, `mark` = reachability
-/
namespace WaVerif.C06

set_option linter.unusedSectionVars false

variable {ν : Type} [DecidableEq ν]

theorem lookup_some {m : Module ν} {x : ν} {f : Func ν} (h : m.lookup x = some f) :
    f ∈ m.funcs ∧ f.name = x := by
  unfold Module.lookup at h
  refine ⟨List.mem_of_find?_eq_some h, ?_⟩
  have := List.find?_some h
  simpa using this

theorem find_of_mem_nodup : ∀ (fs : List (Func ν)) (f : Func ν), (fs.map (·.name)).Nodup → f ∈ fs →
    fs.find? (fun g => g.name == f.name) = some f
  | [], _, _, h => by simp at h
  | g :: fs, f, hn, h => by
    simp only [List.map_cons, List.nodup_cons] at hn
    cases List.mem_cons.mp h with
    | inl e => subst e; simp
    | inr h =>
      have hne : ¬ g.name = f.name := by
        intro e
        exact hn.1 (e ▸ List.mem_map.mpr ⟨f, h, rfl⟩)
      have hb : (g.name == f.name) = false := by simp [hne]
      rw [List.find?_cons, hb]
      exact find_of_mem_nodup fs f hn.2 h

theorem funcNames_nodup {m : Module ν} (h : m.names.Nodup) : m.funcNames.Nodup := by
  unfold Module.names at h
  exact (List.nodup_append.mp h).2.1

theorem lookup_of_mem {m : Module ν} (hn : m.names.Nodup) {f : Func ν} (hf : f ∈ m.funcs) :
    m.lookup f.name = some f :=
  find_of_mem_nodup m.funcs f (funcNames_nodup hn) hf

theorem callees_of_mem {m : Module ν} (hn : m.names.Nodup) {f : Func ν} (hf : f ∈ m.funcs) :
    m.callees f.name = callsL f.body := by
  simp [Module.callees, lookup_of_mem hn hf]

theorem callees_sub_names {m : Module ν} (hwf : WF m) (x y : ν) (h : y ∈ m.callees x) : y ∈ m.names := by
  unfold Module.callees at h
  split at h
  · rename_i f hl
    exact hwf.calls_def f (lookup_some hl).1 y h
  · simp at h

theorem mem_funcNames {m : Module ν} {x : ν} : x ∈ m.funcNames ↔ ∃ f ∈ m.funcs, f.name = x := by
  simp [Module.funcNames]

theorem mem_names_stripWith {m : Module ν} {mk : List ν} {x : ν} :
    x ∈ (m.stripWith mk).names ↔ x ∈ m.names ∧ x ∈ mk := by
  simp only [Module.names, Module.funcNames, Module.stripWith, List.mem_append, List.mem_filter,
    List.mem_map, decide_eq_true_eq]
  constructor
  · rintro (⟨h1, h2⟩ | ⟨f, ⟨hf, hm⟩, e⟩)
    · exact ⟨Or.inl h1, h2⟩
    · exact ⟨Or.inr ⟨f, hf, e⟩, e ▸ hm⟩
  · rintro ⟨h1 | ⟨f, hf, e⟩, h2⟩
    · exact Or.inl ⟨h1, h2⟩
    · exact Or.inr ⟨f, ⟨hf, e ▸ h2⟩, e⟩

theorem stripWith_names_sublist (m : Module ν) (mk : List ν) :
    List.Sublist (m.stripWith mk).names m.names := by
  simp only [Module.names, Module.funcNames, Module.stripWith]
  exact List.Sublist.append List.filter_sublist (List.Sublist.map _ List.filter_sublist)

theorem stripWith_roots (m : Module ν) (mk : List ν) : (m.stripWith mk).roots = m.roots := rfl

/-- closure result from the roots with enough fuel = reachability (given well-formedness) -/
theorem close_iff_reach {m : Module ν} (hwf : WF m) {fuel : Nat} (hf : m.names.length ≤ fuel) (x : ν) :
    x ∈ close m.callees fuel m.roots [] ↔ Reach m x := by
  constructor
  · intro h
    exact close_sound m.callees (Reach m) (fun a ha b hb => Reach.step ha hb) fuel m.roots []
      (fun r hr => Reach.root hr) (by simp) x h
  · intro h
    have hc := close_complete m.callees m.names (fun a _ b hb => callees_sub_names hwf a b hb)
      fuel m.roots [] hwf.roots_def (by simp) List.nodup_nil (by simpa using hf) (by simp)
    induction h with
    | root hr => exact hc.1 _ hr
    | step _ hy ih => exact hc.2 _ ih _ hy

theorem mark_iff_reach' {m : Module ν} (hwf : WF m) (x : ν) : x ∈ m.mark ↔ Reach m x :=
  close_iff_reach hwf (Nat.le_refl _) x

theorem reach_mem_names {m : Module ν} (hwf : WF m) {x : ν} (h : Reach m x) : x ∈ m.names := by
  cases h with
  | root hr => exact hwf.roots_def _ hr
  | step _ hy => exact callees_sub_names hwf _ _ hy

end WaVerif.C06
