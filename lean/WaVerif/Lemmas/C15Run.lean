import WaVerif.Lemmas.C15Enc
namespace WaVerif.C15
open WaVerif

theorem ofInt_sub' (w : Nat) (x y : Int) : BitVec.ofInt w (x - y) = BitVec.ofInt w x - BitVec.ofInt w y := by
  rw [Int.sub_eq_add_neg, BitVec.ofInt_add, BitVec.ofInt_neg, BitVec.sub_eq_add_neg]

/-- signed quotient -/
theorem enc_sdiv {t : Go.ITy} (ht : 0 < t.bits) (hs : t.signed = true) {x y : Int}
    (hx : inRange t x) (hy : inRange t y) :
    (enc t x).sdiv (enc t y) = enc t (Int.tdiv x y) := by
  apply BitVec.eq_of_toInt_eq
  rw [BitVec.toInt_sdiv, toInt_enc ht hs hx, toInt_enc ht hs hy]
  unfold enc; rw [BitVec.toInt_ofInt]

theorem enc_srem {t : Go.ITy} (ht : 0 < t.bits) (hs : t.signed = true) {x y : Int}
    (hx : inRange t x) (hy : inRange t y) (hr : inRange t (Int.tmod x y)) :
    (enc t x).srem (enc t y) = enc t (Int.tmod x y) := by
  apply BitVec.eq_of_toInt_eq
  rw [BitVec.toInt_srem, toInt_enc ht hs hx, toInt_enc ht hs hy, toInt_enc ht hs hr]

theorem enc_udiv {t : Go.ITy} (hs : t.signed = false) {x y : Int}
    (hx : inRange t x) (hy : inRange t y) :
    (enc t x) / (enc t y) = enc t (Int.tdiv x y) := by
  obtain ⟨n, rfl, hn⟩ := unsigned_cases hs hx
  obtain ⟨m, rfl, hm⟩ := unsigned_cases hs hy
  rw [← Int.ofNat_tdiv, enc_eq_ofNat, enc_eq_ofNat, enc_eq_ofNat]
  apply BitVec.eq_of_toNat_eq
  rw [BitVec.toNat_udiv]
  simp only [BitVec.toNat_ofNat]
  rw [Nat.mod_eq_of_lt hn, Nat.mod_eq_of_lt hm, Nat.mod_eq_of_lt (Nat.lt_of_le_of_lt (Nat.div_le_self _ _) hn)]

theorem enc_umod {t : Go.ITy} (hs : t.signed = false) {x y : Int}
    (hx : inRange t x) (hy : inRange t y) :
    (enc t x) % (enc t y) = enc t (Int.tmod x y) := by
  obtain ⟨n, rfl, hn⟩ := unsigned_cases hs hx
  obtain ⟨m, rfl, hm⟩ := unsigned_cases hs hy
  rw [← Int.ofNat_tmod, enc_eq_ofNat, enc_eq_ofNat, enc_eq_ofNat]
  apply BitVec.eq_of_toNat_eq
  rw [BitVec.toNat_umod]
  simp only [BitVec.toNat_ofNat]
  rw [Nat.mod_eq_of_lt hn, Nat.mod_eq_of_lt hm, Nat.mod_eq_of_lt (Nat.lt_of_le_of_lt (Nat.mod_le _ _) hn)]

/-- The bridge for the binary operators, at every width and signedness. -/
theorem fold_eq_runtime_bin_lem (t : Go.ITy) (ht : 0 < t.bits) (op : BOp) (x y : Int)
    (hx : inRange t x) (hy : inRange t y) (hr : inRange t (exactBin op x y))
    (hz : op.isDiv = true → y ≠ 0) :
    Go.arith t.signed op.toGo (enc t x) (enc t y) = some (enc t (exactBin op x y)) := by
  cases op <;> simp only [BOp.toGo, Go.arith, exactBin]
  · unfold enc; rw [BitVec.ofInt_add]
  · unfold enc; rw [ofInt_sub']
  · unfold enc; rw [BitVec.ofInt_mul]
  · have hy0 := enc_ne_zero ht hy (hz rfl)
    rw [if_neg hy0]
    cases hs : t.signed
    · simp only [Bool.false_eq_true, if_false]; rw [enc_udiv hs hx hy]
    · simp only [if_true]; rw [enc_sdiv ht hs hx hy]
  · have hy0 := enc_ne_zero ht hy (hz rfl)
    rw [if_neg hy0]
    cases hs : t.signed
    · simp only [Bool.false_eq_true, if_false]; rw [enc_umod hs hx hy]
    · simp only [if_true]; rw [enc_srem ht hs hx hy hr]
  · unfold enc; rw [ofInt_land]
  · unfold enc; rw [ofInt_lor]
  · unfold enc; rw [ofInt_lxor]
  · unfold enc; rw [ofInt_landnot]

end WaVerif.C15
