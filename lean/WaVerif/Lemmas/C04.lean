import WaVerif.Model.C04
import WaVerif.Props.C19
/-! Helper lemmas for C04: codec round trips (on top of C19's LEB128 theorems) and `buildNames`. -/
namespace WaVerif.C04
open WaVerif.C19

theorem decU32_encU32' (v : Nat) (h : U32 v) (rest : Bytes) : decU32 (encU32 v ++ rest) = some (v, rest) := by
  unfold decU32 encU32
  rw [decodeU32_encU v h rest]
  simp

theorem decName_encName' (n : Bytes) (h : U32 n.length) (rest : Bytes) :
    decName (encName n ++ rest) = some (n, rest) := by
  unfold decName encName
  rw [List.append_assoc, decU32_encU32' _ h]
  simp

theorem decMany_encMany {α : Type} (enc : α → Bytes) (dec : Bytes → Option (α × Bytes)) (xs : List α)
    (h : ∀ x ∈ xs, ∀ r, dec (enc x ++ r) = some (x, r)) (rest : Bytes) :
    decMany dec xs.length (encMany enc xs ++ rest) = some (xs, rest) := by
  induction xs with
  | nil => rfl
  | cons x xs ih =>
    have ih' := ih (fun y hy => h y (List.mem_cons_of_mem _ hy))
    simp only [List.length_cons, encMany, List.append_assoc, decMany, h x List.mem_cons_self, ih']

theorem decVec_encVec' {α : Type} (enc : α → Bytes) (dec : Bytes → Option (α × Bytes)) (xs : List α)
    (hl : U32 xs.length) (h : ∀ x ∈ xs, ∀ r, dec (enc x ++ r) = some (x, r)) (rest : Bytes) :
    decVec dec (encVec enc xs ++ rest) = some (xs, rest) := by
  unfold decVec encVec
  rw [List.append_assoc, decU32_encU32' _ hl]
  exact decMany_encMany enc dec xs h rest

theorem decLimits_encLimits' (l : Limits) (hmin : U32 l.min) (hmax : ∀ m, l.max = some m → U32 m) (rest : Bytes) :
    decLimits (encLimits l ++ rest) = some (l, rest) := by
  obtain ⟨mn, mx⟩ := l
  cases mx with
  | none => simp [encLimits, decLimits, decU32_encU32' mn hmin]
  | some m =>
    have hm := hmax m rfl
    simp [encLimits, decLimits, List.append_assoc, decU32_encU32' mn hmin, decU32_encU32' m hm]

theorem decSection_encSection (s : Section) (h : s.WF) (rest : Bytes) :
    decSection (encSection s ++ rest) = some (s, rest) := by
  obtain ⟨id, body⟩ := s
  simp only [encSection, List.cons_append, List.append_assoc, decSection, decU32_encU32' _ h]
  simp

theorem encSection_ne_nil (s : Section) : ∃ b r, encSection s = b :: r := ⟨s.id, _, rfl⟩

theorem decSections_encMany (ss : List Section) (h : ∀ s ∈ ss, s.WF) :
    ∀ fuel, ss.length ≤ fuel → decSections fuel (encMany encSection ss) = some ss := by
  induction ss with
  | nil => intro fuel _; cases fuel <;> rfl
  | cons s ss ih =>
    intro fuel hf
    cases fuel with
    | zero => simp at hf
    | succ f =>
      have ih' := ih (fun y hy => h y (List.mem_cons_of_mem _ hy)) f (by simpa using hf)
      have hs := decSection_encSection s (h s List.mem_cons_self) (encMany encSection ss)
      obtain ⟨b, r, hb⟩ := encSection_ne_nil s
      simp only [encMany]
      rw [hb] at hs ⊢
      simp only [List.cons_append] at hs ⊢
      simp only [decSections, hs, ih']

theorem length_le_encMany (ss : List Section) : ss.length ≤ (encMany encSection ss).length := by
  induction ss with
  | nil => simp [encMany]
  | cons s ss ih =>
    simp only [encMany, encSection, List.length_cons, List.length_append, List.cons_append]
    omega

theorem encU32_small (v : Nat) (h : v < 128) : encU32 v = [v] := by
  unfold encU32
  rw [encU]
  simp [Nat.div_eq_of_lt h, Nat.mod_eq_of_lt h]

/-! ## name section -/

theorem decAssoc_encAssoc (a : Nat × Bytes) (h : U32 a.1 ∧ U32 a.2.length) (rest : Bytes) :
    decAssoc (encAssoc a ++ rest) = some (a, rest) := by
  obtain ⟨i, n⟩ := a
  simp only [encAssoc, decAssoc, List.append_assoc, decU32_encU32' i h.1, decName_encName' n h.2]
  rfl

theorem decNameMap_encNameMap (m : NameMap) (h : NameMap.WF m) (rest : Bytes) :
    decNameMap (encNameMap m ++ rest) = some (m, rest) :=
  decVec_encVec' encAssoc decAssoc m h.1 (fun a ha r => decAssoc_encAssoc a (h.2 a ha) r) rest

theorem decIndirect_encIndirect (a : Nat × NameMap) (h : U32 a.1 ∧ NameMap.WF a.2) (rest : Bytes) :
    decIndirect (encIndirect a ++ rest) = some (a, rest) := by
  obtain ⟨i, m⟩ := a
  simp only [encIndirect, decIndirect, List.append_assoc, decU32_encU32' i h.1, decNameMap_encNameMap m h.2]
  rfl

theorem whole_of {α : Type} (dec : Bytes → Option (α × Bytes)) (bs : Bytes) (x : α)
    (h : dec (bs ++ []) = some (x, [])) : whole dec bs = some x := by
  simp only [List.append_nil] at h
  simp [whole, h]

/-! ## buildNames -/

theorem StrictInc.cons_of_forall_lt (a : Nat) (l : List Nat) (h : ∀ x ∈ l, a < x) (hl : StrictInc l) :
    StrictInc (a :: l) := by
  cases l with
  | nil => trivial
  | cons b r => exact ⟨h b List.mem_cons_self, hl⟩

theorem entriesFrom_bounds (l : List (Option Bytes)) : ∀ start, ∀ a ∈ entriesFrom start l, start ≤ a.1 := by
  induction l with
  | nil => intro s a ha; simp [entriesFrom] at ha
  | cons x r ih =>
    intro s a ha
    cases x with
    | none =>
      have := ih (s + 1) a (by simpa [entriesFrom] using ha)
      omega
    | some n =>
      simp only [entriesFrom, List.mem_cons] at ha
      rcases ha with rfl | ha
      · exact Nat.le_refl _
      · have := ih (s + 1) a ha
        omega

theorem entriesFrom_strictInc (l : List (Option Bytes)) : ∀ start, StrictInc ((entriesFrom start l).map (·.1)) := by
  induction l with
  | nil => intro s; trivial
  | cons x r ih =>
    intro s
    cases x with
    | none => exact ih (s + 1)
    | some n =>
      simp only [entriesFrom, List.map_cons]
      apply StrictInc.cons_of_forall_lt _ _ _ (ih (s + 1))
      intro y hy
      obtain ⟨a, ha, rfl⟩ := List.mem_map.mp hy
      have := entriesFrom_bounds r (s + 1) a ha
      omega

theorem localsFrom_bounds (fs : List FuncDecl) : ∀ start, ∀ e ∈ localsFrom start fs, start ≤ e.1 := by
  induction fs with
  | nil => intro s e he; simp [localsFrom] at he
  | cons f r ih =>
    intro s e he
    simp only [localsFrom, List.mem_cons] at he
    rcases he with rfl | he
    · exact Nat.le_refl _
    · have := ih (s + 1) e he
      omega

theorem localsFrom_strictInc (fs : List FuncDecl) : ∀ start, StrictInc ((localsFrom start fs).map (·.1)) := by
  induction fs with
  | nil => intro s; trivial
  | cons f r ih =>
    intro s
    simp only [localsFrom, List.map_cons]
    apply StrictInc.cons_of_forall_lt _ _ _ (ih (s + 1))
    intro y hy
    obtain ⟨a, ha, rfl⟩ := List.mem_map.mp hy
    have := localsFrom_bounds r (s + 1) a ha
    omega

theorem localsFrom_inner (fs : List FuncDecl) : ∀ start, ∀ e ∈ localsFrom start fs, StrictInc (e.2.map (·.1)) := by
  induction fs with
  | nil => intro s e he; simp [localsFrom] at he
  | cons f r ih =>
    intro s e he
    simp only [localsFrom, List.mem_cons] at he
    rcases he with rfl | he
    · exact entriesFrom_strictInc _ 0
    · exact ih (s + 1) e he

theorem lookup_entriesFrom (l : List (Option Bytes)) : ∀ s i,
    (entriesFrom s l).lookup i = if i < s then none else (l[i - s]?).bind id := by
  induction l with
  | nil => intro s i; simp [entriesFrom, List.lookup]
  | cons x r ih =>
    intro s i
    cases x with
    | none =>
      simp only [entriesFrom, ih (s + 1) i]
      by_cases h1 : i < s
      · simp [h1, show i < s + 1 by omega]
      · by_cases h2 : i = s
        · subst h2; simp
        · have : ¬ i < s + 1 := by omega
          have e : i - s = (i - (s + 1)) + 1 := by omega
          simp [h1, this, e]
    | some n =>
      simp only [entriesFrom, List.lookup]
      by_cases h2 : i = s
      · subst h2; simp
      · have hb : (i == s) = false := by simpa using h2
        simp only [hb, ih (s + 1) i]
        by_cases h1 : i < s
        · simp [h1, show i < s + 1 by omega]
        · have : ¬ i < s + 1 := by omega
          have e : i - s = (i - (s + 1)) + 1 := by omega
          simp [h1, this, e]

theorem lookup_localsFrom (fs : List FuncDecl) : ∀ s f,
    (localsFrom s fs).lookup f = if f < s then none else (fs[f - s]?).map (fun d => entriesFrom 0 (d.params ++ d.locals)) := by
  induction fs with
  | nil => intro s f; simp [localsFrom, List.lookup]
  | cons d r ih =>
    intro s f
    simp only [localsFrom, List.lookup]
    by_cases h2 : f = s
    · subst h2; simp
    · have hb : (f == s) = false := by simpa using h2
      simp only [hb, ih (s + 1) f]
      by_cases h1 : f < s
      · simp [h1, show f < s + 1 by omega]
      · have : ¬ f < s + 1 := by omega
        have e : f - s = (f - (s + 1)) + 1 := by omega
        simp [h1, this, e]

end WaVerif.C04
