import WaVerif.Model.C13Spec
/-! Lemmas about the specification model of C13 (association list in slot order). -/
namespace WaVerif.C13Spec

variable {K V : Type} [DecidableEq K]

omit [DecidableEq K] in
theorem keys_cons (p : K × V) (m : SMap K V) : keys (p :: m) = p.1 :: keys m := rfl

omit [DecidableEq K] in
theorem mem_keys_of_mem {k : K} {v : V} {m : SMap K V} (h : (k, v) ∈ m) : k ∈ keys m :=
  List.mem_map.mpr ⟨(k, v), h, rfl⟩

theorem lookup_eq_none_iff {k : K} {m : SMap K V} : lookup k m = none ↔ k ∉ keys m := by
  induction m with
  | nil => simp [lookup, keys]
  | cons p r ih =>
    obtain ⟨k', v'⟩ := p
    by_cases h : k' = k
    · simp [lookup, keys, h]
    · have h' : ¬ k = k' := fun e => h e.symm
      simp only [lookup, h, if_false, ih, keys_cons, List.mem_cons, h', false_or]

theorem lookup_eq_some_iff {k : K} {v : V} {m : SMap K V} (hn : (keys m).Nodup) :
    lookup k m = some v ↔ (k, v) ∈ m := by
  induction m with
  | nil => simp [lookup]
  | cons p r ih =>
    obtain ⟨k', v'⟩ := p
    rw [keys_cons, List.nodup_cons] at hn
    by_cases h : k' = k
    · subst h
      simp only [lookup, if_true, List.mem_cons, Option.some.injEq, Prod.mk.injEq, true_and]
      constructor
      · intro e; exact Or.inl e.symm
      · rintro (e | e)
        · exact e.symm
        · exact absurd (mem_keys_of_mem e) hn.1
    · simp only [lookup, h, if_false, ih hn.2, List.mem_cons, Prod.mk.injEq]
      constructor
      · exact Or.inr
      · rintro (⟨e, _⟩ | e)
        · exact absurd e.symm h
        · exact e

theorem mem_keys_iff_lookup_isSome {k : K} {m : SMap K V} : k ∈ keys m ↔ (lookup k m).isSome := by
  cases h : lookup k m with
  | none => simp [lookup_eq_none_iff.mp h]
  | some v =>
    simp only [Option.isSome_some, iff_true]
    apply Classical.byContradiction
    intro hc
    rw [lookup_eq_none_iff.mpr hc] at h
    cases h

/-! ### insert -/

theorem lookup_insert (q k : K) (v : V) (m : SMap K V) :
    lookup q (insert k v m) = if q = k then some v else lookup q m := by
  induction m with
  | nil =>
    by_cases h : q = k
    · simp [insert, lookup, h]
    · have h' : ¬ k = q := fun e => h e.symm
      simp [insert, lookup, h, h']
  | cons p r ih =>
    obtain ⟨k', v'⟩ := p
    by_cases hk : k' = k
    · subst hk
      by_cases h : q = k'
      · simp [insert, lookup, h]
      · have h' : ¬ k' = q := fun e => h e.symm
        simp [insert, lookup, h, h']
    · by_cases h : q = k
      · subst h
        simp only [insert, hk, if_false, lookup, ih, if_true]
      · simp only [insert, hk, if_false, lookup, ih, h]

theorem keys_insert (k : K) (v : V) (m : SMap K V) :
    keys (insert k v m) = if k ∈ keys m then keys m else keys m ++ [k] := by
  induction m with
  | nil => simp [insert, keys]
  | cons p r ih =>
    obtain ⟨k', v'⟩ := p
    by_cases hk : k' = k
    · subst hk
      simp [insert, keys]
    · have hk' : ¬ k = k' := fun e => hk e.symm
      simp only [insert, hk, if_false, keys_cons, ih, List.mem_cons, hk', false_or]
      split <;> simp

theorem nodup_keys_insert (k : K) (v : V) {m : SMap K V} (hn : (keys m).Nodup) :
    (keys (insert k v m)).Nodup := by
  rw [keys_insert]
  split
  · exact hn
  · rename_i h
    rw [List.nodup_append]
    refine ⟨hn, by simp, ?_⟩
    intro a ha b hb
    simp only [List.mem_singleton] at hb
    subst hb
    intro e
    exact h (e ▸ ha)

/-- a new key is appended: slot order -/
theorem insert_of_not_mem {k : K} (v : V) {m : SMap K V} (h : k ∉ keys m) : insert k v m = m ++ [(k, v)] := by
  induction m with
  | nil => rfl
  | cons p r ih =>
    obtain ⟨k', v'⟩ := p
    rw [keys_cons, List.mem_cons, not_or] at h
    have hk : ¬ k' = k := fun e => h.1 e.symm
    simp only [insert, hk, if_false, ih h.2, List.cons_append]

/-! ### delete -/

omit [DecidableEq K] in
theorem dropLast_append_of_getLast? {α : Type} {r : List α} {l : α} (h : r.getLast? = some l) : r.dropLast ++ [l] = r := by
  have hne : r ≠ [] := by intro e; simp [e] at h
  have h2 := List.dropLast_concat_getLast hne
  rw [List.getLast?_eq_some_getLast hne] at h
  cases h
  exact h2

theorem filter_ne_of_not_mem {k : K} {m : SMap K V} (h : k ∉ keys m) : m.filter (fun p => p.1 ≠ k) = m := by
  rw [List.filter_eq_self]
  intro p hp
  simp only [ne_eq, decide_not, Bool.not_eq_true', decide_eq_false_iff_not]
  intro e
  exact h (List.mem_map.mpr ⟨p, hp, e⟩)

theorem delete_perm (k : K) {m : SMap K V} (hn : (keys m).Nodup) :
    (delete k m).Perm (m.filter (fun p => p.1 ≠ k)) := by
  induction m with
  | nil => simp [delete]
  | cons p r ih =>
    obtain ⟨k', v'⟩ := p
    rw [keys_cons, List.nodup_cons] at hn
    by_cases hk : k' = k
    · subst hk
      have hf : ((k', v') :: r).filter (fun p => p.1 ≠ k') = r := by
        rw [List.filter_cons]
        simp only [ne_eq, not_true_eq_false, decide_false, Bool.false_eq_true, if_false]
        exact filter_ne_of_not_mem hn.1
      rw [hf]
      simp only [delete, if_true]
      cases hl : r.getLast? with
      | none =>
        have : r = [] := List.getLast?_eq_none_iff.mp hl
        simp [this]
      | some l =>
        have e : r.dropLast ++ [l] = r := dropLast_append_of_getLast? hl
        have : (l :: r.dropLast).Perm (r.dropLast ++ [l]) := (List.perm_append_singleton l r.dropLast).symm
        rw [e] at this
        exact this
    · have : ((k', v') :: r).filter (fun p => p.1 ≠ k) = (k', v') :: r.filter (fun p => p.1 ≠ k) := by
        rw [List.filter_cons]; simp [hk]
      rw [this]
      simp only [delete, hk, if_false]
      exact List.Perm.cons _ (ih hn.2)

theorem nodup_keys_filter {k : K} {m : SMap K V} (hn : (keys m).Nodup) :
    (keys (m.filter (fun p => p.1 ≠ k))).Nodup := by
  have : (m.filter (fun p => p.1 ≠ k)).Sublist m := List.filter_sublist
  exact List.Sublist.nodup (List.Sublist.map Prod.fst this) hn

theorem nodup_keys_delete (k : K) {m : SMap K V} (hn : (keys m).Nodup) : (keys (delete k m)).Nodup := by
  have hp := (delete_perm k hn).map Prod.fst
  exact (List.Perm.nodup_iff hp).mpr (nodup_keys_filter hn)

theorem mem_delete_iff (k : K) {m : SMap K V} (hn : (keys m).Nodup) (p : K × V) :
    p ∈ delete k m ↔ p ∈ m ∧ p.1 ≠ k := by
  rw [(delete_perm k hn).mem_iff, List.mem_filter]
  simp

theorem lookup_delete (q k : K) {m : SMap K V} (hn : (keys m).Nodup) :
    lookup q (delete k m) = if q = k then none else lookup q m := by
  apply Option.ext
  intro v
  rw [lookup_eq_some_iff (nodup_keys_delete k hn), mem_delete_iff k hn]
  by_cases h : q = k
  · simp [h]
  · simp only [h, if_false, lookup_eq_some_iff hn, ne_eq, not_false_eq_true, and_true]

/-- deleting a key that is not the last slot: the last slot moves into its place -/
theorem delete_middle {k : K} (v : V) (a b : SMap K V) (l : K × V) (h : k ∉ keys a) :
    delete k (a ++ (k, v) :: b ++ [l]) = a ++ l :: b := by
  induction a with
  | nil =>
    simp only [List.nil_append, List.cons_append, delete, if_true]
    have : (b ++ [l]).getLast? = some l := by simp
    rw [this]
    simp
  | cons p r ih =>
    obtain ⟨k', v'⟩ := p
    rw [keys_cons, List.mem_cons, not_or] at h
    have hk : ¬ k' = k := fun e => h.1 e.symm
    simp only [List.cons_append, delete, hk, if_false, List.cons.injEq, true_and]
    have := ih h.2
    simp only [List.cons_append, List.append_assoc] at this ⊢
    exact this

/-- deleting the key in the last slot truncates -/
theorem delete_last {k : K} (v : V) (a : SMap K V) (h : k ∉ keys a) : delete k (a ++ [(k, v)]) = a := by
  induction a with
  | nil => simp [delete]
  | cons p r ih =>
    obtain ⟨k', v'⟩ := p
    rw [keys_cons, List.mem_cons, not_or] at h
    have hk : ¬ k' = k := fun e => h.1 e.symm
    simp only [List.cons_append, delete, hk, if_false, ih h.2]

theorem delete_of_not_mem {k : K} {m : SMap K V} (h : k ∉ keys m) : delete k m = m := by
  induction m with
  | nil => rfl
  | cons p r ih =>
    obtain ⟨k', v'⟩ := p
    rw [keys_cons, List.mem_cons, not_or] at h
    have hk : ¬ k' = k := fun e => h.1 e.symm
    simp only [delete, hk, if_false, ih h.2]

/-! ### histories -/

/-- the invariant tying the implementation model to the mathematical map -/
def Agree (m : SMap K V) (f : FMap K V) : Prop := (keys m).Nodup ∧ ∀ q, lookup q m = f q

theorem agree_step {m : SMap K V} {f : FMap K V} (h : Agree m f) (op : Op K V) : Agree (step m op) (fstep f op) := by
  cases op with
  | set k v =>
    refine ⟨nodup_keys_insert k v h.1, fun q => ?_⟩
    simp only [step, fstep, FMap.set, lookup_insert, h.2]
  | del k =>
    refine ⟨nodup_keys_delete k h.1, fun q => ?_⟩
    simp only [step, fstep, FMap.del, lookup_delete q k h.1, h.2]
  | get k => exact h
  | commaOk k => exact h
  | len => exact h
  | range => exact h

theorem agree_foldl (ops : List (Op K V)) {m : SMap K V} {f : FMap K V} (h : Agree m f) :
    Agree (ops.foldl step m) (ops.foldl fstep f) := by
  induction ops generalizing m f with
  | nil => exact h
  | cons op r ih => exact ih (agree_step h op)

theorem agree_run (ops : List (Op K V)) : Agree (run ops) (denote ops) :=
  agree_foldl ops ⟨List.nodup_nil, fun _ => rfl⟩

end WaVerif.C13Spec
