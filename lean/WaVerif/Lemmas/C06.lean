import WaVerif.Model.C06
/-!
# C06 — helper lemmas: the walk, `skipSeen`, the worklist closure `close`, pigeonhole
-/
namespace WaVerif.C06

variable {ν : Type}

/-! ## the walk finds exactly the calls that occur at any depth -/

mutual
theorem Instr.occ_of_mem_calls {f : ν} : (i : Instr ν) → (is : List (Instr ν)) → f ∈ i.calls → Occ f (i :: is)
  | .call g, is, h => by
    simp [Instr.calls] at h; subst h; exact .here
  | .tableSet _, _, h => by simp [Instr.calls] at h
  | .block b, is, h => by
    simp only [Instr.calls] at h; exact .inBlock (occ_of_mem_callsL b h)
  | .loop b, is, h => by
    simp only [Instr.calls] at h; exact .inLoop (occ_of_mem_callsL b h)
  | .ite t e, is, h => by
    simp only [Instr.calls, List.mem_append] at h
    cases h with
    | inl h => exact .inThen (occ_of_mem_callsL t h)
    | inr h => exact .inElse (occ_of_mem_callsL e h)
  | .other, _, h => by simp [Instr.calls] at h
theorem occ_of_mem_callsL {f : ν} : (is : List (Instr ν)) → f ∈ callsL is → Occ f is
  | [], h => by simp [callsL] at h
  | i :: is, h => by
    simp only [callsL, List.mem_append] at h
    cases h with
    | inl h => exact Instr.occ_of_mem_calls i is h
    | inr h => exact .later (occ_of_mem_callsL is h)
end

theorem mem_callsL_of_occ {f : ν} {is : List (Instr ν)} (h : Occ f is) : f ∈ callsL is := by
  induction h with
  | here => simp [callsL, Instr.calls]
  | inBlock _ ih => simp [callsL, Instr.calls, ih]
  | inLoop _ ih => simp [callsL, Instr.calls, ih]
  | inThen _ ih => simp [callsL, Instr.calls, ih]
  | inElse _ ih => simp [callsL, Instr.calls, ih]
  | later _ ih => simp [callsL, ih]

variable [DecidableEq ν]

/-! ## pigeonhole -/

theorem nodup_subset_length_le : ∀ (l u : List ν), l.Nodup → (∀ x ∈ l, x ∈ u) → l.length ≤ u.length
  | [], _, _, _ => by simp
  | a :: t, u, hn, hs => by
    have hau : a ∈ u := hs a (by simp)
    have hnt : t.Nodup := (List.nodup_cons.mp hn).2
    have hat : a ∉ t := (List.nodup_cons.mp hn).1
    have hsub : ∀ x ∈ t, x ∈ u.erase a := by
      intro x hx
      have hxa : x ≠ a := fun e => hat (e ▸ hx)
      exact (List.mem_erase_of_ne hxa).mpr (hs x (by simp [hx]))
    have ih := nodup_subset_length_le t (u.erase a) hnt hsub
    have hl : (u.erase a).length = u.length - 1 := List.length_erase_of_mem hau
    have hpos : 0 < u.length := List.length_pos_of_mem hau
    simp only [List.length_cons]
    omega

/-! ## skipSeen -/

theorem skipSeen_nil {seen : List ν} : ∀ {w : List ν}, skipSeen seen w = [] → ∀ y ∈ w, y ∈ seen
  | [], _, y, hy => by simp at hy
  | x :: w, h, y, hy => by
    simp only [skipSeen] at h
    split at h
    · rename_i hx
      cases List.mem_cons.mp hy with
      | inl e => exact e ▸ hx
      | inr hy => exact skipSeen_nil h y hy
    · cases h

theorem skipSeen_cons {seen : List ν} {x : ν} {rest : List ν} :
    ∀ {w : List ν}, skipSeen seen w = x :: rest →
      x ∉ seen ∧ x ∈ w ∧ (∀ y ∈ w, y ∈ seen ∨ y = x ∨ y ∈ rest) ∧ (∀ y ∈ rest, y ∈ w)
  | [], h => by simp [skipSeen] at h
  | a :: w, h => by
    simp only [skipSeen] at h
    split at h
    · rename_i ha
      have ⟨h1, h2, h3, h4⟩ := skipSeen_cons h
      refine ⟨h1, List.mem_cons_of_mem _ h2, ?_, fun y hy => List.mem_cons_of_mem _ (h4 y hy)⟩
      intro y hy
      cases List.mem_cons.mp hy with
      | inl e => exact Or.inl (e ▸ ha)
      | inr hy => exact h3 y hy
    · rename_i ha
      injection h with e1 e2
      subst e1; subst e2
      refine ⟨ha, by simp, ?_, fun y hy => List.mem_cons_of_mem _ hy⟩
      intro y hy
      cases List.mem_cons.mp hy with
      | inl e => exact Or.inr (Or.inl e)
      | inr hy => exact Or.inr (Or.inr hy)

/-! ## the closure -/

/-- everything ever put in `seen` stays -/
theorem close_mono (succ : ν → List ν) : ∀ (fuel : Nat) (work seen : List ν),
    ∀ x ∈ seen, x ∈ close succ fuel work seen
  | 0, _, _, x, hx => by simpa [close] using hx
  | fuel + 1, work, seen, x, hx => by
    simp only [close]
    split
    · exact hx
    · exact close_mono succ fuel _ _ x (List.mem_cons_of_mem _ hx)

/-- soundness, for any fuel: the result stays inside any `succ`-closed predicate that contains
the work list and the seen list -/
theorem close_sound (succ : ν → List ν) (R : ν → Prop) (hR : ∀ x, R x → ∀ y ∈ succ x, R y) :
    ∀ (fuel : Nat) (work seen : List ν), (∀ x ∈ work, R x) → (∀ x ∈ seen, R x) →
      ∀ x ∈ close succ fuel work seen, R x
  | 0, _, _, _, hs, x, hx => by
    simp only [close] at hx; exact hs x hx
  | fuel + 1, work, seen, hw, hs, x, hx => by
    simp only [close] at hx
    split at hx
    · exact hs x hx
    · rename_i y rest hsk
      have ⟨_, hyw, _, hrest⟩ := skipSeen_cons hsk
      refine close_sound succ R hR fuel _ _ ?_ ?_ x hx
      · intro z hz
        cases List.mem_append.mp hz with
        | inl hz => exact hR y (hw y hyw) z hz
        | inr hz => exact hw z (hrest z hz)
      · intro z hz
        cases List.mem_cons.mp hz with
        | inl e => exact e ▸ hw y hyw
        | inr hz => exact hs z hz

/-- completeness when the fuel covers the part of the universe `U` not yet seen: the result
contains the work list and is closed under `succ` -/
theorem close_complete (succ : ν → List ν) (U : List ν) (hU : ∀ x ∈ U, ∀ y ∈ succ x, y ∈ U) :
    ∀ (fuel : Nat) (work seen : List ν),
      (∀ x ∈ work, x ∈ U) → (∀ x ∈ seen, x ∈ U) → seen.Nodup → U.length ≤ fuel + seen.length →
      (∀ x ∈ seen, ∀ y ∈ succ x, y ∈ seen ∨ y ∈ work) →
      (∀ x ∈ work, x ∈ close succ fuel work seen) ∧
      (∀ x ∈ close succ fuel work seen, ∀ y ∈ succ x, y ∈ close succ fuel work seen)
  | 0, work, seen, hw, hs, hn, hlen, hinv => by
    have hall : ∀ x ∈ U, x ∈ seen := by
      intro x hx
      apply Classical.byContradiction
      intro hxs
      have := nodup_subset_length_le (x :: seen) U (List.nodup_cons.mpr ⟨hxs, hn⟩)
        (by intro z hz; cases List.mem_cons.mp hz with
            | inl e => exact e ▸ hx
            | inr hz => exact hs z hz)
      simp only [List.length_cons] at this
      omega
    simp only [close]
    refine ⟨fun x hx => hall x (hw x hx), ?_⟩
    intro x hx y hy
    cases hinv x hx y hy with
    | inl h => exact h
    | inr h => exact hall y (hw y h)
  | fuel + 1, work, seen, hw, hs, hn, hlen, hinv => by
    simp only [close]
    split
    · rename_i hsk
      have hws := skipSeen_nil hsk
      refine ⟨hws, ?_⟩
      intro x hx y hy
      cases hinv x hx y hy with
      | inl h => exact h
      | inr h => exact hws y h
    · rename_i x rest hsk
      have ⟨hxs, hxw, hsplit, hrest⟩ := skipSeen_cons hsk
      have hxU : x ∈ U := hw x hxw
      have ih := close_complete succ U hU fuel (succ x ++ rest) (x :: seen)
        (by intro z hz
            cases List.mem_append.mp hz with
            | inl hz => exact hU x hxU z hz
            | inr hz => exact hw z (hrest z hz))
        (by intro z hz
            cases List.mem_cons.mp hz with
            | inl e => exact e ▸ hxU
            | inr hz => exact hs z hz)
        (List.nodup_cons.mpr ⟨hxs, hn⟩)
        (by simp only [List.length_cons]; omega)
        (by intro z hz y hy
            cases List.mem_cons.mp hz with
            | inl e =>
              subst e
              exact Or.inr (List.mem_append_left _ hy)
            | inr hz =>
              cases hinv z hz y hy with
              | inl h => exact Or.inl (List.mem_cons_of_mem _ h)
              | inr h =>
                cases hsplit y h with
                | inl h => exact Or.inl (List.mem_cons_of_mem _ h)
                | inr h =>
                  cases h with
                  | inl e => exact Or.inl (e ▸ List.mem_cons_self)
                  | inr h => exact Or.inr (List.mem_append_right _ h))
      refine ⟨?_, ih.2⟩
      intro y hy
      have hmono := close_mono succ fuel (succ x ++ rest) (x :: seen)
      cases hsplit y hy with
      | inl h => exact hmono y (List.mem_cons_of_mem _ h)
      | inr h =>
        cases h with
        | inl e => exact hmono y (e ▸ List.mem_cons_self)
        | inr h => exact ih.1 y (List.mem_append_right _ h)

end WaVerif.C06
