import WaVerif.Lemmas.C10Malloc
/-! # C10 — `reuseFixed`, `reuseVarying`, `newAllocation`, `malloc` preserve the invariant -/
namespace WaVerif.C10

theorem inv_reuseFixed {s : State} {ex : List FBlk} {k : Nat} (h : InvX s ex) (hk : k < 4)
    {s' : State} {b : FBlk} {w : List Nat} (hr : reuseFixed s k = some (s', b, w)) :
    InvX s' (b :: ex) ∧ s'.cfg = s.cfg ∧ s'.live = s.live ∧ b.2 = classSize k := by
  unfold reuseFixed at hr
  split at hr
  · cases hr
  · rename_i p r hg
    simp only [Option.some.injEq, Prod.mk.injEq] at hr
    obtain ⟨h1, h2, _⟩ := hr
    subst h1; subst h2
    refine ⟨?_, by simp, by simp, ?_⟩
    · apply invX_setFx h k hk r
      · intro f; rw [hg]; simp; omega
      · intro c hc; exact h.fxk k hk c (by rw [hg]; exact List.mem_cons_of_mem _ hc)
    · exact h.fxk k hk p (by rw [hg]; simp)

theorem cov_split (x : Nat) (p : FBlk) (n : Nat) (h : n + 8 ≤ p.2) :
    cov x p = cov x (p.1, n) + cov x (p.1 + 8 + n, p.2 - n - 8) := by
  simp only [cov]
  split <;> split <;> split <;> omega

theorem free_mem_all {s : State} {ex : List FBlk} {p : FBlk} (hp : p ∈ s.free) : p ∈ ex ++ allBlocks s := by
  simp [allBlocks, hp]

theorem inv_reuseVarying {s : State} {ex : List FBlk} {n : Nat} (h : InvX s ex) (hn8 : n % 8 = 0) (hpos : 0 < n)
    {s' : State} {b : FBlk} {w : List Nat} (hr : reuseVarying s n = (s', some b, w)) :
    InvX s' (b :: ex) ∧ s'.cfg = s.cfg ∧ s'.live = s.live ∧ b.2 = n := by
  have hbad := h.al8
  simp [allBlocks] at hbad
  unfold reuseVarying at hr
  simp only at hr
  split at hr
  · cases hr
  · -- split
    rename_i p prev hsc
    have hs := scan_split hsc
    have hm := mem_ringPairs (mem_scanOrder.1 hs.1)
    simp only at hm
    have hpf : p ∈ s.free := by
      rcases hm with hm | hm
      · rw [hm] at hs; simp at hs
      · exact hm
    have hp8 := (bad8_zero_iff p).1 (sumf_eq_zero h.al8 p (free_mem_all hpf))
    simp only [Prod.mk.injEq, Option.some.injEq] at hr
    obtain ⟨h1, h2, _⟩ := hr
    subst h1; subst h2
    refine ⟨?_, rfl, rfl, rfl⟩
    apply invX_setFree h
    · intro x
      have := sumf_replaceFirst (cov x) p (p.1 + 8 + n, p.2 - n - 8) s.free hpf
      have := cov_split x p n hs.2
      simp; omega
    · have h1 := sumf_replaceFirst bad8 p (p.1 + 8 + n, p.2 - n - 8) s.free hpf
      have h2 : bad8 (p.1, n) = 0 := by rw [bad8_zero_iff]; simp; omega
      have h3 : bad8 (p.1 + 8 + n, p.2 - n - 8) = 0 := by rw [bad8_zero_iff]; simp; omega
      simp; omega
    · apply sep_replaceFirst p _ s.free h.sep
      · simp; omega
      · simp [bend]; omega
  · -- exact
    rename_i p prev hsc
    have hs := scan_exact hsc
    have hm := mem_ringPairs (mem_scanOrder.1 hs.1)
    simp only at hm
    have hpf : p ∈ s.free := by
      rcases hm with hm | hm
      · rw [hm] at hs; simp at hs; omega
      · exact hm
    have hp8 := (bad8_zero_iff p).1 (sumf_eq_zero h.al8 p (free_mem_all hpf))
    have hbnd := tiles_mem_bounds h.tiling (free_mem_all (ex := ex) hpf)
    have hne : p.1 ≠ headAddr s.cfg := by
      have := hbnd.1
      unfold heapStart headAddr at *; omega
    simp only [hne, if_false, Prod.mk.injEq, Option.some.injEq] at hr
    obtain ⟨h1, h2, _⟩ := hr
    subst h1; subst h2
    refine ⟨?_, rfl, rfl, by omega⟩
    apply invX_setFree h
    · intro x
      have := sumf_erase (cov x) p s.free hpf
      simp; omega
    · have := sumf_erase bad8 p s.free hpf
      simp; omega
    · exact sep_erase p s.free h.sep

end WaVerif.C10

namespace WaVerif.C10

/-- bump allocation of a block `(heapPtr, n)`, with the memory possibly grown -/
theorem invX_bump {s : State} {ex : List FBlk} (h : InvX s ex) (n : Nat) (hn8 : n % 8 = 0) (top' pages' : Nat)
    (htop : top' = pages' * 65536) (hpg : pages' ≤ s.cfg.maxPages) (hlt : s.heapPtr + 8 + n < top') :
    InvX { s with heapPtr := s.heapPtr + 8 + n, heapTop := top', pages := pages', dead := 0 } ((s.heapPtr, n) :: ex) := by
  refine { wf := h.wf, alive := rfl, hp_lo := ?_, hp_top := hlt, hp8 := ?_, top := htop,
           pages_le := hpg, tiling := ?_, al8 := ?_, sep := h.sep, liveReq := h.liveReq,
           liveCls := h.liveCls, fxk := ?_ }
  · have := h.hp_lo; simp only; omega
  · have := h.hp8; simp only; omega
  · intro x
    have h1 := h.tiling x
    have h2 := h.hp_lo
    simp [allBlocks, cov] at *
    split at h1 <;> split <;> split <;> omega
  · have h1 := h.al8
    have h2 := h.hp8
    have : bad8 (s.heapPtr, n) = 0 := by rw [bad8_zero_iff]; simp; omega
    simp [allBlocks] at *
    omega
  · intro k hk c hc
    apply h.fxk k hk c
    rcases k with _|_|_|k <;> simpa [getFx] using hc

theorem inv_newAllocation {s : State} {ex : List FBlk} {n : Nat} (h : InvX s ex) (hn8 : n % 8 = 0)
    (hle : n ≤ 1073741824)
    {s' : State} {b : FBlk} {w : List Nat} (hr : newAllocation s n = (s', some b, w)) :
    InvX s' (b :: ex) ∧ s'.cfg = s.cfg ∧ s'.live = s.live ∧ b.2 = n := by
  have hwf := h.wf
  unfold CfgWF at hwf
  have h1 := h.hp_top
  have h2 := h.top
  have h3 := h.pages_le
  have hd := h.alive
  have hsum : (s.heapPtr + (8 + n)) % 4294967296 = s.heapPtr + 8 + n := by omega
  unfold newAllocation at hr
  simp only [hsum] at hr
  by_cases hg : s.heapPtr + 8 + n ≥ s.heapTop
  · simp only [hg, decide_true, Bool.true_and, if_true] at hr
    split at hr
    · cases hr
    · rename_i hmax
      simp only [decide_eq_true_eq] at hmax
      have hlt : s.heapPtr + 8 + n < 2147483648 := by omega
      simp only [hlt, if_true, Prod.mk.injEq, Option.some.injEq] at hr
      obtain ⟨e1, e2, _⟩ := hr
      subst e1; subst e2
      have := invX_bump h n hn8 (s.heapTop + (8 + n + 65535) / 65536 * 65536) (s.pages + (8 + n + 65535) / 65536)
        (by omega) (by omega) (by omega)
      refine ⟨?_, rfl, rfl, rfl⟩
      simp only [hd] at this ⊢
      exact this
  · have hlt : s.heapPtr + 8 + n < 2147483648 := by omega
    simp only [hg, hlt, decide_false, Bool.false_and, Bool.false_eq_true, ↓reduceIte, Prod.mk.injEq, Option.some.injEq] at hr
    obtain ⟨e1, e2, _⟩ := hr
    subst e1; subst e2
    have := invX_bump h n hn8 s.heapTop s.pages h2 h3 (by omega)
    refine ⟨?_, rfl, rfl, rfl⟩
    simp only [hd] at this ⊢
    exact this

end WaVerif.C10

namespace WaVerif.C10

/-- what `malloc` does, abstractly: nothing (returns 0), or it takes one block `b` of the effective size out of a
list / the bump area (state `s1`, block in transit) and hands it to the caller -/
theorem malloc_cases {s : State} (h : Inv s) (req : Nat) (hok : OpOK s.cfg (.malloc req)) :
    ((malloc s req).ret = 0 ∧ (malloc s req).st = s) ∨
    (∃ s1 b, InvX s1 [b] ∧ s1.cfg = s.cfg ∧ s1.live = s.live ∧ b.2 = effSize s.cfg req ∧
      (malloc s req).st = addLive s1 b req ∧ (malloc s req).ret = b.1 + 8) := by
  unfold OpOK at hok
  have hn8 := effSize_mod8 s.cfg req
  have hpos := effSize_pos s.cfg req
  have hle := effSize_le s.cfg req hok
  unfold malloc
  simp only
  split
  · -- from a fixed list
    rename_i s1 b w hf
    right
    split at hf
    · rename_i hc
      have hk := effList_small s.cfg req hc.1 hc.2
      have := inv_reuseFixed h hk.1 hf
      exact ⟨s1, b, this.1, this.2.1, this.2.2.1, by rw [this.2.2.2, hk.2], rfl, rfl⟩
    · cases hf
  · split
    · rename_i s1 b w hv
      right
      have := inv_reuseVarying h hn8 hpos hv
      exact ⟨s1, b, this.1, this.2.1, this.2.2.1, this.2.2.2, rfl, rfl⟩
    · split
      · rename_i s1 b w hv
        right
        have := inv_newAllocation h hn8 hle hv
        exact ⟨s1, b, this.1, this.2.1, this.2.2.1, this.2.2.2, rfl, rfl⟩
      · left; exact ⟨rfl, rfl⟩

theorem inv_malloc {s : State} (h : Inv s) (req : Nat) (hok : OpOK s.cfg (.malloc req)) :
    Inv (malloc s req).st ∧ (malloc s req).st.cfg = s.cfg := by
  rcases malloc_cases h req hok with ⟨_, h2⟩ | ⟨s1, b, hi, hc, _, hb, hst, _⟩
  · rw [h2]; exact ⟨h, rfl⟩
  · rw [hst]
    refine ⟨invX_addLive hi req ?_ ?_, ?_⟩
    · rw [hb]; exact effSize_ge s.cfg req
    · intro hcap; rw [hb]; rw [hc] at hcap; exact effSize_cls s.cfg req hcap
    · unfold addLive; exact hc

theorem inv_step {s : State} (h : Inv s) (op : Op) (hok : OpOK s.cfg op) :
    Inv (step s op).st ∧ (step s op).st.cfg = s.cfg := by
  unfold step
  have := h.alive
  simp only [this, ne_eq, not_true_eq_false, if_false]
  cases op with
  | malloc req => exact inv_malloc h req hok
  | free ptr => exact inv_free h ptr

theorem inv_init (c : Config) (h : CfgWF c) : Inv (init c) := by
  have hw := h
  unfold CfgWF at hw
  refine { wf := h, alive := rfl, hp_lo := ?_, hp_top := ?_, hp8 := ?_, top := rfl,
           pages_le := hw.2.2.2.2.1, tiling := ?_, al8 := ?_, sep := trivial, liveReq := ?_,
           liveCls := ?_, fxk := ?_ }
  · simp [init, heapStart]
  · simp [init]; omega
  · simp [init]; omega
  · intro x
    have : ¬ (c.heapBase + 48 ≤ x ∧ x < c.heapBase + 48) := by omega
    simp [init, allBlocks, heapStart, this]
  · simp [init, allBlocks]
  · intro b hb; simp [init] at hb
  · intro _ b hb; simp [init] at hb
  · intro k hk b hb
    rcases k with _|_|_|k <;> simp [init, getFx] at hb

theorem inv_run_from {s : State} (h : Inv s) (ops : List Op) (hok : ∀ op ∈ ops, OpOK s.cfg op) :
    Inv (ops.foldl (fun s op => (step s op).st) s) ∧ (ops.foldl (fun s op => (step s op).st) s).cfg = s.cfg := by
  induction ops generalizing s with
  | nil => exact ⟨h, rfl⟩
  | cons op r ih =>
    have h1 := inv_step h op (hok op (by simp))
    have := ih h1.1 (by intro o ho; rw [h1.2]; exact hok o (List.mem_cons_of_mem _ ho))
    simp only [List.foldl]
    exact ⟨this.1, by rw [this.2, h1.2]⟩

/-- the invariant holds after every history of guarded operations -/
theorem inv_run (c : Config) (h : CfgWF c) (ops : List Op) (hok : ∀ op ∈ ops, OpOK c op) : Inv (run c ops) :=
  (inv_run_from (inv_init c h) ops hok).1

end WaVerif.C10
