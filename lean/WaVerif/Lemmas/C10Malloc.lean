import WaVerif.Lemmas.C10Free
/-! # C10 — the `malloc` path preserves the invariant -/
namespace WaVerif.C10

/-! ## size classes -/

theorem align8_mod (n : Nat) : align8 n % 8 = 0 := by unfold align8; omega
theorem align8_ge (n : Nat) : n ≤ align8 n := by unfold align8; omega
theorem align8_lt (n : Nat) : align8 n < n + 8 := by unfold align8; omega

theorem effSize_mod8 (c : Config) (req : Nat) : effSize c req % 8 = 0 := by
  have := align8_mod req
  have := align8_mod (align8 req)
  unfold effSize ptrAndFixedSize
  split
  · simp only; split <;> omega
  · split
    · simp only; split <;> omega
    · split
      · rfl
      · split
        · rfl
        · split <;> rfl

theorem effSize_ge (c : Config) (req : Nat) : req ≤ effSize c req := by
  have := align8_ge req
  have := align8_ge (align8 req)
  unfold effSize ptrAndFixedSize
  split
  · simp only; split <;> omega
  · split
    · simp only; split <;> omega
    · split
      · simp only; omega
      · split
        · simp only; omega
        · split <;> (simp only; omega)

theorem effSize_le (c : Config) (req : Nat) (h : req ≤ 1073741824) : effSize c req ≤ 1073741824 := by
  have h1 : align8 req ≤ 1073741824 := by unfold align8; omega
  have h2 : align8 (align8 req) ≤ 1073741824 := by unfold align8 at *; omega
  unfold effSize ptrAndFixedSize
  split
  · simp only; split <;> omega
  · split
    · simp only; split <;> omega
    · split
      · simp only; omega
      · split
        · simp only; omega
        · split <;> (simp only; omega)

theorem effSize_cls (c : Config) (req : Nat) (hc : c.cap ≠ 0) : ClsSize (effSize c req) := by
  have := align8_ge (align8 req)
  unfold effSize ptrAndFixedSize ClsSize
  simp only [hc, if_false]
  split
  · simp only; split <;> omega
  · split
    · simp
    · split
      · simp
      · split <;> simp

theorem effSize_pos (c : Config) (req : Nat) : 0 < effSize c req := by
  have := align8_ge req
  have := align8_ge (align8 req)
  unfold effSize ptrAndFixedSize
  split
  · simp only; split <;> omega
  · split
    · simp only; split <;> omega
    · split
      · simp only; omega
      · split
        · simp only; omega
        · split <;> (simp only; omega)

theorem effList_small (c : Config) (req : Nat) (hc : c.cap ≠ 0) (h80 : effSize c req ≤ 80) :
    effList c req < 4 ∧ effSize c req = classSize (effList c req) := by
  have hge := align8_ge (align8 req)
  unfold effSize at h80
  unfold effSize effList
  unfold ptrAndFixedSize at *
  simp only [hc, if_false] at *
  by_cases h1 : align8 req > 80
  · simp only [h1, if_true] at h80
    split at h80 <;> omega
  · simp only [h1, if_false]
    split
    · simp [classSize]
    · split
      · simp [classSize]
      · split <;> simp [classSize]

/-! ## the ring scan -/

theorem mem_withPrev {d : Nat} {l : List FBlk} {q : FBlk × Nat} (h : q ∈ withPrev d l) : q.1 ∈ l := by
  induction l generalizing d with
  | nil => cases h
  | cons a r ih =>
    simp only [withPrev] at h
    cases h with
    | head => simp
    | tail _ h' => exact List.mem_cons_of_mem _ (ih h')

theorem mem_ringPairs {hd : Nat} {free : List FBlk} {q : FBlk × Nat} (h : q ∈ ringPairs hd free) :
    q.1 = (hd, 0) ∨ q.1 ∈ free := by
  unfold ringPairs at h
  cases h with
  | head => exact Or.inl rfl
  | tail _ h' => exact Or.inr (mem_withPrev h')

theorem mem_scanOrder {hd rv : Nat} {free : List FBlk} {q : FBlk × Nat} :
    q ∈ scanOrder hd rv free ↔ q ∈ ringPairs hd free := by
  unfold scanOrder
  simp only [List.mem_append, List.mem_filter, decide_eq_true_eq]
  constructor
  · rintro (⟨h, _⟩ | ⟨h, _⟩) <;> exact h
  · intro h
    by_cases hc : rv < q.1.1
    · exact Or.inl ⟨h, hc⟩
    · exact Or.inr ⟨h, by omega⟩

theorem scan_split {n : Nat} {l : List (FBlk × Nat)} {p : FBlk} {prev : Nat} (h : scan n l = .split p prev) :
    (p, prev) ∈ l ∧ n + 8 ≤ p.2 := by
  induction l with
  | nil => simp [scan] at h
  | cons a r ih =>
    obtain ⟨q, pv⟩ := a
    simp only [scan] at h
    split at h
    · injection h with h1 h2; subst h1; subst h2; exact ⟨by simp, by omega⟩
    · split at h
      · cases h
      · have := ih h; exact ⟨List.mem_cons_of_mem _ this.1, this.2⟩

theorem scan_exact {n : Nat} {l : List (FBlk × Nat)} {p : FBlk} {prev : Nat} (h : scan n l = .exact p prev) :
    (p, prev) ∈ l ∧ n ≤ p.2 ∧ p.2 < n + 8 := by
  induction l with
  | nil => simp [scan] at h
  | cons a r ih =>
    obtain ⟨q, pv⟩ := a
    simp only [scan] at h
    split at h
    · cases h
    · split at h
      · injection h with h1 h2; subst h1; subst h2; exact ⟨by simp, by omega, by omega⟩
      · have := ih h; exact ⟨List.mem_cons_of_mem _ this.1, this.2⟩

theorem scan_none {n : Nat} {l : List (FBlk × Nat)} : scan n l = .none ↔ ∀ q ∈ l, q.1.2 < n := by
  induction l with
  | nil => simp [scan]
  | cons a r ih =>
    obtain ⟨q, pv⟩ := a
    simp only [scan]
    split
    · simp; omega
    · split
      · simp; omega
      · rw [ih]; simp; omega

end WaVerif.C10
