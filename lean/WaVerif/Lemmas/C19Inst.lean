import WaVerif.Model.C19
import WaVerif.Lemmas.C19Spec
import WaVerif.Lemmas.C19Dec
/-!
# C19 — helper lemmas: each decoder loop is an instance of `GoSpec`
-/
namespace WaVerif.C19

/-! ## decodeU32 -/

theorem liftU_eq_ok {r : Res Nat} {v n : Nat} : liftU r = .ok ((v : Int), n) ↔ r = .ok (v, n) := by
  cases r with
  | error e => simp [liftU]
  | ok p =>
    obtain ⟨a, b⟩ := p
    simp only [liftU, Except.ok.injEq, Prod.mk.injEq]
    constructor
    · rintro ⟨h1, h2⟩; exact ⟨by omega, h2⟩
    · rintro ⟨h1, h2⟩; exact ⟨by omega, h2⟩


theorem decU32go_big (k : Nat) (hk : 5 ≤ k) (ret : Nat) (bs : List Nat) :
    decU32go k ret bs = .error .overflow := by
  unfold decU32go
  rw [if_pos hk]

theorem decU32goI_spec : GoSpec decU32goI valUI 0 32 5 where
  hK := by omega
  hKpos := by omega
  val_cons := fun b b' t => by simp only [valUI]; exact valU_cons2 b b' t
  nil := by
    intro k ret v m h
    rw [decU32goI, decU32go] at h
    split at h <;> simp [liftU] at h
  big := by
    intro k hk ret bs v m h
    rw [decU32goI, decU32go_big k hk] at h
    simp [liftU] at h
  term := by
    intro k hk ret b rest hb hret
    have hc : k = 0 ∨ k = 1 ∨ k = 2 ∨ k = 3 ∨ k = 4 := by omega
    rcases hc with rfl | rfl | rfl | rfl | rfl
    · exact decU32goI_cterm_0 ret b rest hb hret
    · exact decU32goI_cterm_1 ret b rest hb hret
    · exact decU32goI_cterm_2 ret b rest hb hret
    · exact decU32goI_cterm_3 ret b rest hb hret
    · exact decU32goI_cterm_4 ret b rest hb hret
  step := by
    intro k hk ret b rest hb hret
    have hc : k = 0 ∨ k = 1 ∨ k = 2 ∨ k = 3 := by omega
    rcases hc with rfl | rfl | rfl | rfl
    · exact decU32goI_cstep_0 ret b rest hb hret
    · exact decU32goI_cstep_1 ret b rest hb hret
    · exact decU32goI_cstep_2 ret b rest hb hret
    · exact decU32goI_cstep_3 ret b rest hb hret
  last := by
    intro ret b rest v m hb h
    rw [decU32goI, decU32go, if_neg (by omega)] at h
    simp only [if_neg hb] at h
    rw [decU32go_big _ (by omega)] at h
    simp [liftU] at h

/-! ## decodeS32 -/

theorem decS32go_big (bs : List Nat) : ∀ k ret v m, 5 ≤ k → decS32go k ret bs ≠ .ok (v, m) := by
  induction bs with
  | nil => intro k ret v m _ h; simp [decS32go] at h
  | cons b rest ih =>
    intro k ret v m hk h
    simp only [decS32go] at h
    split at h
    · rw [if_pos (by omega)] at h; cases h
    · exact ih _ _ v m (by omega) h

theorem decS32go_spec : GoSpec decS32go valS (-1) 31 5 where
  hK := by omega
  hKpos := by omega
  val_cons := valS_cons2
  nil := by intro k ret v m h; simp [decS32go] at h
  big := fun k hk ret bs v m => decS32go_big bs k ret v m hk
  term := by
    intro k hk ret b rest hb hret
    have hc : k = 0 ∨ k = 1 ∨ k = 2 ∨ k = 3 ∨ k = 4 := by omega
    rcases hc with rfl | rfl | rfl | rfl | rfl
    · exact decS32go_cterm_0 ret b rest hb hret
    · exact decS32go_cterm_1 ret b rest hb hret
    · exact decS32go_cterm_2 ret b rest hb hret
    · exact decS32go_cterm_3 ret b rest hb hret
    · exact decS32go_cterm_4 ret b rest hb hret
  step := by
    intro k hk ret b rest hb hret
    have hc : k = 0 ∨ k = 1 ∨ k = 2 ∨ k = 3 := by omega
    rcases hc with rfl | rfl | rfl | rfl
    · exact decS32go_cstep_0 ret b rest hb hret
    · exact decS32go_cstep_1 ret b rest hb hret
    · exact decS32go_cstep_2 ret b rest hb hret
    · exact decS32go_cstep_3 ret b rest hb hret
  last := by
    intro ret b rest v m hb h
    simp only [decS32go] at h
    rw [if_neg hb] at h
    exact decS32go_big rest _ _ v m (by omega) h

/-! ## decodeS64 -/

theorem decS64go_big (bs : List Nat) : ∀ k ret v m, 10 ≤ k → decS64go k ret bs ≠ .ok (v, m) := by
  induction bs with
  | nil => intro k ret v m _ h; simp [decS64go] at h
  | cons b rest ih =>
    intro k ret v m hk h
    simp only [decS64go] at h
    split at h
    · rw [if_pos (by omega)] at h; cases h
    · exact ih _ _ v m (by omega) h

theorem decS64go_spec : GoSpec decS64go valS (-1) 63 10 where
  hK := by omega
  hKpos := by omega
  val_cons := valS_cons2
  nil := by intro k ret v m h; simp [decS64go] at h
  big := fun k hk ret bs v m => decS64go_big bs k ret v m hk
  term := by
    intro k hk ret b rest hb hret
    have hc : k = 0 ∨ k = 1 ∨ k = 2 ∨ k = 3 ∨ k = 4 ∨ k = 5 ∨ k = 6 ∨ k = 7 ∨ k = 8 ∨ k = 9 := by omega
    rcases hc with rfl | rfl | rfl | rfl | rfl | rfl | rfl | rfl | rfl | rfl
    · exact decS64go_cterm_0 ret b rest hb hret
    · exact decS64go_cterm_1 ret b rest hb hret
    · exact decS64go_cterm_2 ret b rest hb hret
    · exact decS64go_cterm_3 ret b rest hb hret
    · exact decS64go_cterm_4 ret b rest hb hret
    · exact decS64go_cterm_5 ret b rest hb hret
    · exact decS64go_cterm_6 ret b rest hb hret
    · exact decS64go_cterm_7 ret b rest hb hret
    · exact decS64go_cterm_8 ret b rest hb hret
    · exact decS64go_cterm_9 ret b rest hb hret
  step := by
    intro k hk ret b rest hb hret
    have hc : k = 0 ∨ k = 1 ∨ k = 2 ∨ k = 3 ∨ k = 4 ∨ k = 5 ∨ k = 6 ∨ k = 7 ∨ k = 8 := by omega
    rcases hc with rfl | rfl | rfl | rfl | rfl | rfl | rfl | rfl | rfl
    · exact decS64go_cstep_0 ret b rest hb hret
    · exact decS64go_cstep_1 ret b rest hb hret
    · exact decS64go_cstep_2 ret b rest hb hret
    · exact decS64go_cstep_3 ret b rest hb hret
    · exact decS64go_cstep_4 ret b rest hb hret
    · exact decS64go_cstep_5 ret b rest hb hret
    · exact decS64go_cstep_6 ret b rest hb hret
    · exact decS64go_cstep_7 ret b rest hb hret
    · exact decS64go_cstep_8 ret b rest hb hret
  last := by
    intro ret b rest v m hb h
    simp only [decS64go] at h
    rw [if_neg hb] at h
    exact decS64go_big rest _ _ v m (by omega) h

/-! ## decodeS33 -/

theorem decS33go_spec : GoSpec decS33go valS (-1) 32 5 where
  hK := by omega
  hKpos := by omega
  val_cons := valS_cons2
  nil := by
    intro k ret v m h
    rw [decS33go, decS33loop] at h
    split at h <;> simp [fin33] at h
  big := by
    intro k hk ret bs v m h
    unfold decS33go decS33loop at h
    rw [if_pos (by omega)] at h
    simp [fin33] at h
  term := by
    intro k hk ret b rest hb hret
    have hc : k = 0 ∨ k = 1 ∨ k = 2 ∨ k = 3 ∨ k = 4 := by omega
    rcases hc with rfl | rfl | rfl | rfl | rfl
    · exact decS33go_cterm_0 ret b rest hb hret
    · exact decS33go_cterm_1 ret b rest hb hret
    · exact decS33go_cterm_2 ret b rest hb hret
    · exact decS33go_cterm_3 ret b rest hb hret
    · exact decS33go_cterm_4 ret b rest hb hret
  step := by
    intro k hk ret b rest hb hret
    have hc : k = 0 ∨ k = 1 ∨ k = 2 ∨ k = 3 := by omega
    rcases hc with rfl | rfl | rfl | rfl
    · exact decS33go_cstep_0 ret b rest hb hret
    · exact decS33go_cstep_1 ret b rest hb hret
    · exact decS33go_cstep_2 ret b rest hb hret
    · exact decS33go_cstep_3 ret b rest hb hret
  last := by
    intro ret b rest v m hb h
    rw [decS33go, decS33loop, if_neg (by omega)] at h
    simp only [if_pos (Or.inr (by omega) : b < 128 ∨ 7 * (5 - 1 + 1) ≥ 35), fin33] at h
    rw [if_neg (by omega), if_pos (by omega)] at h
    cases h

end WaVerif.C19
