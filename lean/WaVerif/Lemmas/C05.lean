import WaVerif.Model.C05
/-! Helper lemmas for C05: per-field round trips `X.ofArgs (X.args x) = some x`. -/
namespace WaVerif.C05

/-! ## tokens ↔ trees -/

mutual
theorem unflat_flatten : ∀ (e : SExp) ts cur stk, unflat (flatten e ++ ts) cur stk = unflat ts (e :: cur) stk
  | .atom a, ts, cur, stk => by simp [flatten, unflat]
  | .list l, ts, cur, stk => by
    simp only [flatten, List.cons_append, List.append_assoc, unflat]
    rw [unflat_flattenL l]
    simp [unflat]
theorem unflat_flattenL : ∀ (es : List SExp) ts cur stk, unflat (flattenL es ++ ts) cur stk = unflat ts (es.reverse ++ cur) stk
  | [], ts, cur, stk => by simp [flattenL]
  | e :: es, ts, cur, stk => by
    simp only [flattenL, List.append_assoc]
    rw [unflat_flatten e, unflat_flattenL es]
    simp
end

/-! ## generic -/

theorem mapOpt_map {α β : Type} (f : β → Option α) (g : α → β) (h : ∀ x, f (g x) = some x) (l : List α) :
    mapOpt f (l.map g) = some l := by
  induction l with
  | nil => rfl
  | cons x xs ih => simp [mapOpt, h, ih]

@[simp] theorem natOf_cast (n : Nat) : natOf (n : Int) = some n := by
  simp [natOf]

@[simp] theorem ValTy.ofKw_kw (t : ValTy) : ValTy.ofKw t.kw = some t := by
  cases t <;> simp [ValTy.ofKw, ValTy.kw]

@[simp] theorem ValTy.ofS_toS (t : ValTy) : ValTy.ofS t.toS = some t := by
  simp [ValTy.ofS, ValTy.toS]

@[simp] theorem Idx.ofS_toS (i : Idx) : Idx.ofS i.toS = some i := by
  cases i <;> simp [Idx.ofS, Idx.toS]

@[simp] theorem Num.ofS_toS (n : Num) : Num.ofS n.toS = some n := by
  cases n <;> simp [Num.ofS, Num.toS]

@[simp] theorem ExKind.ofKw_kw (k : ExKind) : ExKind.ofKw k.kw = some k := by
  cases k <;> simp [ExKind.ofKw, ExKind.kw]

theorem foldFields_append {σ : Type} (step : SExp → σ → Option σ) (xs ys : List SExp) (a : σ) :
    foldFields step (xs ++ ys) a = (foldFields step ys a).bind (foldFields step xs) := by
  induction xs with
  | nil => simp [foldFields]
  | cons x xs ih =>
    simp only [List.cons_append, foldFields, ih]
    cases foldFields step ys a <;> simp

theorem foldFields_map {σ α : Type} (step : SExp → σ → Option σ) (g : α → SExp) (upd : α → σ → σ)
    (l : List α) (h : ∀ x ∈ l, ∀ a, step (g x) a = some (upd x a)) (a : σ) :
    foldFields step (l.map g) a = some (l.foldr upd a) := by
  induction l with
  | nil => rfl
  | cons x xs ih =>
    have ih' := ih (fun y hy => h y (List.mem_cons_of_mem _ hy))
    simp [foldFields, ih', h x (List.mem_cons_self)]

/-- all elements are parenthesised lists -/
def AllLists (l : List SExp) : Prop := ∀ x ∈ l, ∃ c, x = .list c

theorem popName_lists (l : List SExp) (h : AllLists l) : popName l = (none, l) := by
  cases l with
  | nil => rfl
  | cons x r =>
    obtain ⟨c, rfl⟩ := h x List.mem_cons_self
    rfl

theorem popName_optName (n : Option String) (l : List SExp) (h : AllLists l) :
    popName (optName n ++ l) = (n, l) := by
  cases n with
  | none => simpa [optName] using popName_lists l h
  | some s => simp [optName, popName]

/-! ## signatures -/

theorem Sig.fold_params (ps : List ValTy) (a : Sig) :
    foldFields Sig.step (ps.map (fun t => L [K "param", t.toS])) a = some { a with params := ps ++ a.params } := by
  rw [foldFields_map Sig.step _ (fun t a => { a with params := t :: a.params })]
  · congr 1
    induction ps with
    | nil => rfl
    | cons p ps ih => simp [List.foldr, ih]
  · intro x _ a
    simp [Sig.step]

theorem Sig.fold_results (rs : List ValTy) (a : Sig) (h : a.results = []) :
    foldFields Sig.step (resultsS rs) a = some { a with results := rs } := by
  cases rs with
  | nil => cases a; simp_all [resultsS, foldFields]
  | cons r rs =>
    have := mapOpt_map ValTy.ofS ValTy.toS ValTy.ofS_toS (r :: rs)
    simp only [List.map_cons] at this
    simp [resultsS, foldFields, Sig.step, h, this]

theorem Sig.ofArgs_args (s : Sig) : Sig.ofArgs s.args = some s := by
  simp [Sig.ofArgs, Sig.args, foldFields_append, Sig.fold_results, Sig.fold_params]

/-! ## simple fields -/

theorem limitsOf_limitsS (mn : Nat) (mx : Option Nat) : limitsOf (limitsS mn mx) = some (mn, mx) := by
  cases mx <;> simp [limitsOf, limitsS]

theorem Import.ofArgs_args (i : Import) : Import.ofArgs i.args = some i := by
  cases i with
  | func m n id sig => simp [Import.ofArgs, Import.args, Sig.ofArgs_args]
  | global m n id ty => simp [Import.ofArgs, Import.args]
  | memory m n id mn mx =>
    cases id <;> cases mx <;> simp [Import.ofArgs, Import.args, optName, popName, limitsS, limitsOf]

theorem Export.ofArgs_args (e : Export) : Export.ofArgs e.args = some e := by
  simp [Export.ofArgs, Export.args]

theorem Memory.ofArgs_args (m : Memory) : Memory.ofArgs m.args = some m := by
  obtain ⟨n, a, mn, mx⟩ := m
  cases n <;> cases a <;> cases mx <;> simp [Memory.ofArgs, Memory.args, optName, popName, popI64, limitsS, limitsOf]

theorem Table.ofArgs_args (t : Table) : Table.ofArgs t.args = some t := by
  obtain ⟨n, mn, mx⟩ := t
  cases n <;> cases mx <;> simp [Table.ofArgs, Table.args, optName, popName, limitsS, tableLimitsOf]

theorem TypeDef.ofArgs_args (t : TypeDef) : TypeDef.ofArgs t.args = some t := by
  obtain ⟨n, sg⟩ := t
  cases n <;> simp [TypeDef.ofArgs, TypeDef.args, optName, popName, Sig.ofArgs_args]

theorem globalTyOf_mut (t : ValTy) : globalTyOf (L [K "mut", t.toS]) = some (true, t) := by
  simp [globalTyOf]

theorem globalTyOf_const (t : ValTy) : globalTyOf t.toS = some (false, t) := by
  simp [globalTyOf, ValTy.toS]

@[simp] theorem popName_valTy (t : ValTy) (r : List SExp) : popName (t.toS :: r) = (none, t.toS :: r) := rfl

theorem Global.ofArgs_args (g : Global) : Global.ofArgs g.args = some g := by
  obtain ⟨n, mu, ty, v⟩ := g
  have hp : ∀ (t : SExp), (t = ty.toS ∨ t = L [K "mut", ty.toS]) → ∀ r, popName (optName n ++ t :: r) = (n, t :: r) := by
    intro t ht r
    cases n with
    | none => rcases ht with rfl | rfl <;> rfl
    | some s => rfl
  cases mu
  · simp only [Global.ofArgs, Global.args, Bool.false_eq_true, if_false]
    rw [hp _ (Or.inl rfl)]
    simp [globalTyOf_const]
  · simp only [Global.ofArgs, Global.args, if_true]
    rw [hp _ (Or.inr rfl)]
    simp [globalTyOf_mut]

theorem Data.ofArgs_args (d : Data) : Data.ofArgs d.args = some d := by
  obtain ⟨n, o, b⟩ := d
  cases n <;> simp [Data.ofArgs, Data.args, optName, popName]

theorem Elem.ofArgs_args (e : Elem) : Elem.ofArgs e.args = some e := by
  obtain ⟨o, fs⟩ := e
  have := mapOpt_map Idx.ofS Idx.toS Idx.ofS_toS fs
  simp [Elem.ofArgs, Elem.args, this]

end WaVerif.C05
