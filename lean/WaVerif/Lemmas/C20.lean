import WaVerif.Model.C20RV
/-!
# C20 — arithmetic lemmas behind the specification's sanity theorems (core Lean only)

* `toInt_extract_high`: the signed reading of the upper half of a `2(m+1)`-bit vector is the floor
  quotient of its signed reading by `2^(m+1)`;
* `bmod_small`: a value whose doubled magnitude is below `2^(2(m+1))` is its own balanced residue;
* `setWidth32_signExtend64`: truncating a sign-extended 32-bit value gives it back.
-/
namespace WaVerif.C20
open BitVec

/-- arithmetic core: for `V < K*K`, `K = 2*H`, the signed reading of the high digit `V / K` equals
the floor quotient of the signed reading of `V` by `K` -/
theorem high_digit_signed (V H : Nat) (hH : 0 < H) (hV : V < (2 * H) * (2 * H)) :
    (if 2 * (V / (2 * H)) < 2 * H then ((V / (2 * H) : Nat) : Int) else ((V / (2 * H) : Nat) : Int) - ((2 * H : Nat) : Int))
      = (if 2 * V < (2 * H) * (2 * H) then (V : Int) else (V : Int) - (((2 * H) * (2 * H) : Nat) : Int)) / ((2 * H : Nat) : Int) := by
  have hK : 0 < 2 * H := by omega
  have hQ : V / (2 * H) < 2 * H := Nat.div_lt_of_lt_mul hV
  have hiff : V / (2 * H) < H ↔ V < H * (2 * H) := Nat.div_lt_iff_lt_mul hK
  have hsq : (2 * H) * (2 * H) = 2 * (H * (2 * H)) := by rw [Nat.mul_assoc]
  have hKne : ((2 * H : Nat) : Int) ≠ 0 := by omega
  by_cases h : 2 * V < (2 * H) * (2 * H)
  · have h1 : V / (2 * H) < H := hiff.2 (by omega)
    rw [if_pos h, if_pos (by omega)]
    exact (Int.natCast_ediv _ _)
  · have h1 : ¬ V / (2 * H) < H := fun hc => by have := hiff.1 hc; omega
    rw [if_neg h, if_neg (by omega)]
    have : (V : Int) - (((2 * H) * (2 * H) : Nat) : Int) = (V : Int) + (-((2 * H : Nat) : Int)) * ((2 * H : Nat) : Int) := by
      rw [Int.natCast_mul, Int.neg_mul, Int.sub_eq_add_neg]
    rw [this, Int.add_mul_ediv_right _ _ hKne, ← Int.natCast_ediv]
    omega

theorem toInt_extract_high (m : Nat) (v : BitVec (2 * (m + 1))) :
    (v.extractLsb' (m + 1) (m + 1)).toInt = v.toInt / ((2 ^ (m + 1) : Nat) : Int) := by
  have hK : 2 ^ (m + 1) = 2 * 2 ^ m := by rw [Nat.pow_succ, Nat.mul_comm]
  have hKK : 2 ^ (2 * (m + 1)) = (2 * 2 ^ m) * (2 * 2 ^ m) := by rw [Nat.two_mul, Nat.pow_add, hK]
  have hV : v.toNat < (2 * 2 ^ m) * (2 * 2 ^ m) := by rw [← hKK]; exact v.isLt
  have hQ : (v.extractLsb' (m + 1) (m + 1)).toNat = v.toNat / (2 * 2 ^ m) := by
    rw [BitVec.extractLsb'_toNat, Nat.shiftRight_eq_div_pow, hK]
    exact Nat.mod_eq_of_lt (Nat.div_lt_of_lt_mul hV)
  rw [BitVec.toInt_eq_toNat_cond, BitVec.toInt_eq_toNat_cond, hQ, hKK, hK]
  exact high_digit_signed v.toNat (2 ^ m) (Nat.two_pow_pos m) hV
/-- a product whose doubled magnitude stays below `2^(2(m+1))` is its own balanced residue -/
theorem bmod_small (m : Nat) (p : Int) (hle : -(2 : Int) ^ (2 * m + 1) ≤ p) (hlt : p < (2 : Int) ^ (2 * m + 1)) :
    p.bmod (2 ^ (2 * (m + 1))) = p := by
  have e : ((2 ^ (2 * (m + 1)) : Nat) : Int) = 2 * (2 : Int) ^ (2 * m + 1) := by
    have : 2 * (m + 1) = (2 * m + 1) + 1 := by omega
    rw [this, Nat.pow_succ, Int.natCast_mul, Int.natCast_pow]; simp [Int.mul_comm]
  apply Int.bmod_eq_of_le_mul_two
  · rw [e]; omega
  · rw [e]; omega

theorem setWidth32_signExtend64 (r : BitVec 32) : (r.signExtend 64).setWidth 32 = r := by
  ext i hi
  simp [BitVec.getLsbD_signExtend, hi]
  omega

end WaVerif.C20
