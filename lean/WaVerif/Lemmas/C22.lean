import WaVerif.Model.C22
/-! # C22 — helper lemmas: slices, toDiffs, UTF-8 lengths, chains, validate/apply on chains (core only) -/
namespace WaVerif.C22

/-! ### slices -/
theorem slice_self {α} (xs : List α) (i : Nat) : slice xs i i = [] := by simp [slice]

theorem drop_eq_slice_append {α} (xs : List α) (i p : Nat) (h : i ≤ p) :
    xs.drop i = slice xs i p ++ xs.drop p := by
  unfold slice
  have : xs.drop p = (xs.drop i).drop (p - i) := by rw [List.drop_drop]; congr 1; omega
  rw [this, List.take_append_drop]

theorem slice_append {α} (xs : List α) (i p j : Nat) (h1 : i ≤ p) (h2 : p ≤ j) :
    slice xs i j = slice xs i p ++ slice xs p j := by
  unfold slice
  have e : j - i = (p - i) + (j - p) := by omega
  rw [e, List.take_add, List.drop_drop]
  congr 2
  congr 1; omega

theorem slice_to_length {α} (xs : List α) (i : Nat) : slice xs i xs.length = xs.drop i := by
  unfold slice
  apply List.take_of_length_le
  simp

/-! ### toDiffs -/
theorem toDiffsGo_head {α} [DecidableEq α] (a b : List α) (alen blen : Nat) :
    ∀ (l : List Diag) (pa pb : Nat), ValidLcsFrom a b pa pb l →
      ∀ d ∈ (toDiffsGo alen blen l pa pb).head?, pa ≤ d.start := by
  intro l
  induction l with
  | nil =>
    intro pa pb _ d hd
    simp only [toDiffsGo] at hd
    split at hd
    · simp at hd; subst hd; simp
    · simp at hd
  | cons x rest ih =>
    intro pa pb hv d hd
    simp only [ValidLcsFrom] at hv
    simp only [toDiffsGo] at hd
    split at hd
    · simp at hd; subst hd; simp
    · have := ih _ _ hv.2.2.2.2.2 d hd
      omega

theorem applyDiffs_shift {α} (a b : List α) (last p : Nat) (ds : List RDiff) (h : last ≤ p)
    (hd : ∀ d ∈ ds.head?, p ≤ d.start) :
    applyDiffs a b last ds = slice a last p ++ applyDiffs a b p ds := by
  cases ds with
  | nil => simp only [applyDiffs]; exact drop_eq_slice_append a last p h
  | cons d rest =>
    have := hd d (by simp)
    simp only [applyDiffs]
    rw [slice_append a last p d.start h this]
    simp [List.append_assoc]

theorem toDiffsGo_correct {α} [DecidableEq α] (a b : List α) :
    ∀ (l : List Diag) (pa pb : Nat), ValidLcsFrom a b pa pb l →
      applyDiffs a b pa (toDiffsGo a.length b.length l pa pb) = b.drop pb := by
  intro l
  induction l with
  | nil =>
    intro pa pb hv
    simp only [ValidLcsFrom] at hv
    simp only [toDiffsGo]
    split
    · simp only [applyDiffs, slice_self, slice_to_length, List.nil_append, List.drop_length, List.append_nil]
    · rename_i hc
      have h1 : pa = a.length := by omega
      have h2 : pb = b.length := by omega
      subst h1 h2
      simp [applyDiffs]
  | cons x rest ih =>
    intro pa pb hv
    simp only [ValidLcsFrom] at hv
    obtain ⟨h1, h2, h3, h4, hm, hrest⟩ := hv
    have ihr := ih _ _ hrest
    have hhead := toDiffsGo_head a b a.length b.length rest _ _ hrest
    have hshift := applyDiffs_shift a b x.x (x.x + x.len) _ (by omega) hhead
    have hmatch : slice a x.x (x.x + x.len) = slice b x.y (x.y + x.len) := by
      unfold slice
      rw [Nat.add_sub_cancel_left, Nat.add_sub_cancel_left]; exact hm
    simp only [toDiffsGo]
    split
    · simp only [applyDiffs, slice_self, List.nil_append]
      rw [hshift, ihr, hmatch, drop_eq_slice_append b pb x.y h2, drop_eq_slice_append b x.y (x.y + x.len) (by omega)]
    · rename_i hc
      have e1 : pa = x.x := by omega
      have e2 : pb = x.y := by omega
      subst e1 e2
      rw [hshift, ihr, hmatch, ← drop_eq_slice_append b x.y (x.y + x.len) (by omega)]


/-! ### UTF-8 lengths -/
theorem length_encodeRune (r : Nat) : (encodeRune r).length = runeLen r := by
  unfold encodeRune runeLen
  split
  · rfl
  · split
    · rfl
    · split <;> rfl

theorem utf8_append (x y : List Nat) : utf8 (x ++ y) = utf8 x ++ utf8 y := by
  simp [utf8]

theorem utf8Len_append (x y : List Nat) : utf8Len (x ++ y) = utf8Len x + utf8Len y := by
  simp [utf8Len]

theorem length_utf8 (x : List Nat) : (utf8 x).length = utf8Len x := by
  induction x with
  | nil => rfl
  | cons r t ih =>
    have : utf8 (r :: t) = encodeRune r ++ utf8 t := by simp [utf8]
    rw [this, List.length_append, ih, length_encodeRune]
    simp [utf8Len]

theorem split3 {α} (a : List α) (i j : Nat) (h : i ≤ j) : a = a.take i ++ slice a i j ++ a.drop j := by
  rw [List.append_assoc, ← drop_eq_slice_append a i j h, List.take_append_drop]

theorem utf8Len_take_le (a : List Nat) (i j : Nat) (h : i ≤ j) : utf8Len (a.take i) ≤ utf8Len (a.take j) := by
  have : a.take j = a.take i ++ slice a i j := by
    unfold slice
    have e : j = i + (j - i) := by omega
    conv => lhs; rw [e, List.take_add]
  rw [this, utf8Len_append]; omega

theorem utf8Len_take_add (a : List Nat) (i j : Nat) (h : i ≤ j) :
    utf8Len (a.take i) + utf8Len (slice a i j) = utf8Len (a.take j) := by
  have : a.take j = a.take i ++ slice a i j := by
    unfold slice
    have e : j = i + (j - i) := by omega
    conv => lhs; rw [e, List.take_add]
  rw [this, utf8Len_append]

theorem utf8Len_take_le_all (a : List Nat) (i : Nat) : utf8Len (a.take i) ≤ utf8Len a := by
  have : a = a.take i ++ a.drop i := (List.take_append_drop i a).symm
  conv => rhs; rw [this, utf8Len_append]
  omega

theorem utf8_drop (a : List Nat) (k : Nat) : (utf8 a).drop (utf8Len (a.take k)) = utf8 (a.drop k) := by
  have : utf8 a = utf8 (a.take k) ++ utf8 (a.drop k) := by rw [← utf8_append, List.take_append_drop]
  rw [this, ← length_utf8]
  simp

theorem utf8_slice (a : List Nat) (i j : Nat) (h : i ≤ j) :
    slice (utf8 a) (utf8Len (a.take i)) (utf8Len (a.take j)) = utf8 (slice a i j) := by
  unfold slice
  rw [utf8_drop]
  have hd : a.drop i = (a.drop i).take (j - i) ++ a.drop j := by
    have := drop_eq_slice_append a i j h
    unfold slice at this; exact this
  have e : utf8Len (a.take j) - utf8Len (a.take i) = (utf8 ((a.drop i).take (j - i))).length := by
    rw [length_utf8]
    have := utf8Len_take_add a i j h
    unfold slice at this; omega
  rw [e]
  have hd' : utf8 (a.drop i) = utf8 ((a.drop i).take (j - i)) ++ utf8 (a.drop j) := by
    rw [← utf8_append, ← hd]
  rw [hd']
  exact List.take_left' rfl

/-! ### chains -/
/-- rune-level diffs in order and in bounds -/
def DiffChain (alen : Nat) : Nat → List RDiff → Prop
  | last, [] => last ≤ alen
  | last, d :: rest => last ≤ d.start ∧ d.start ≤ d.stop ∧ d.stop ≤ alen ∧ DiffChain alen d.stop rest

theorem DiffChain.mono {alen : Nat} {last last' : Nat} {ds : List RDiff} (h : last' ≤ last) :
    DiffChain alen last ds → DiffChain alen last' ds := by
  cases ds with
  | nil => simp only [DiffChain]; omega
  | cons d rest => simp only [DiffChain]; intro ⟨a, b, c, e⟩; exact ⟨by omega, b, c, e⟩

theorem toDiffsGo_chain {α} [DecidableEq α] (a b : List α) :
    ∀ (l : List Diag) (pa pb : Nat), ValidLcsFrom a b pa pb l →
      DiffChain a.length pa (toDiffsGo a.length b.length l pa pb) := by
  intro l
  induction l with
  | nil =>
    intro pa pb hv
    simp only [ValidLcsFrom] at hv
    simp only [toDiffsGo]
    split
    · simp only [DiffChain]; omega
    · simp only [DiffChain]; omega
  | cons x rest ih =>
    intro pa pb hv
    simp only [ValidLcsFrom] at hv
    obtain ⟨h1, h2, h3, h4, hm, hrest⟩ := hv
    have ihr := ih _ _ hrest
    simp only [toDiffsGo]
    split
    · simp only [DiffChain]
      exact ⟨Nat.le_refl _, h1, by omega, DiffChain.mono (by omega) ihr⟩
    · exact DiffChain.mono (by omega) ihr

/-- byte-level edits in order, without overlap, in bounds (`last`: end of the previous edit) -/
def EditChain (srcLen : Int) : Int → List Edit → Prop
  | _, [] => True
  | last, e :: rest => last ≤ e.start ∧ e.start ≤ e.stop ∧ e.stop ≤ srcLen ∧ EditChain srcLen e.stop rest


/-! ### rune diffs → byte edits -/
theorem applyGo_diffRunesGo (a b : List Nat) : ∀ (ds : List RDiff) (last : Nat), DiffChain a.length last ds →
    applyGo (utf8 a) (utf8Len (a.take last)) (diffRunesGo a b last (utf8Len (a.take last)) ds) =
      utf8 (applyDiffs a b last ds) := by
  intro ds
  induction ds with
  | nil => intro last _; simp only [diffRunesGo, applyGo, applyDiffs]; exact utf8_drop a last
  | cons d rest ih =>
    intro last hc
    simp only [DiffChain] at hc
    obtain ⟨h1, h2, h3, hrest⟩ := hc
    have e1 : utf8Len (a.take last) + utf8Len (slice a last d.start) = utf8Len (a.take d.start) := utf8Len_take_add a _ _ h1
    have e2 : utf8Len (a.take d.start) + utf8Len (slice a d.start d.stop) = utf8Len (a.take d.stop) := utf8Len_take_add a _ _ h2
    simp only [diffRunesGo, applyGo, applyDiffs, e1, e2, Int.toNat_natCast]
    rw [ih d.stop hrest, utf8_slice a last d.start h1, utf8_append, utf8_append]

theorem diffRunesGo_chain (a b : List Nat) : ∀ (ds : List RDiff) (last : Nat), DiffChain a.length last ds →
    EditChain (utf8Len a) (utf8Len (a.take last)) (diffRunesGo a b last (utf8Len (a.take last)) ds) := by
  intro ds
  induction ds with
  | nil => intro last _; simp [diffRunesGo, EditChain]
  | cons d rest ih =>
    intro last hc
    simp only [DiffChain] at hc
    obtain ⟨h1, h2, h3, hrest⟩ := hc
    have e1 : utf8Len (a.take last) + utf8Len (slice a last d.start) = utf8Len (a.take d.start) := utf8Len_take_add a _ _ h1
    have e2 : utf8Len (a.take d.start) + utf8Len (slice a d.start d.stop) = utf8Len (a.take d.stop) := utf8Len_take_add a _ _ h2
    simp only [diffRunesGo, EditChain, e1, e2]
    have m1 := utf8Len_take_le a last d.start h1
    have m2 := utf8Len_take_le a d.start d.stop h2
    have m3 := utf8Len_take_le_all a d.stop
    exact ⟨by omega, by omega, by omega, ih d.stop hrest⟩

/-- `x` is the byte offset of a rune boundary of `utf8 a` -/
def OnBoundary (a : List Nat) (x : Int) : Prop := ∃ k, k ≤ a.length ∧ x = (utf8Len (a.take k) : Nat)

theorem diffRunesGo_boundary (a b : List Nat) : ∀ (ds : List RDiff) (last : Nat), DiffChain a.length last ds →
    ∀ e ∈ diffRunesGo a b last (utf8Len (a.take last)) ds, OnBoundary a e.start ∧ OnBoundary a e.stop := by
  intro ds
  induction ds with
  | nil => intro last _ e he; simp [diffRunesGo] at he
  | cons d rest ih =>
    intro last hc e he
    simp only [DiffChain] at hc
    obtain ⟨h1, h2, h3, hrest⟩ := hc
    have e1 : utf8Len (a.take last) + utf8Len (slice a last d.start) = utf8Len (a.take d.start) := utf8Len_take_add a _ _ h1
    have e2 : utf8Len (a.take d.start) + utf8Len (slice a d.start d.stop) = utf8Len (a.take d.stop) := utf8Len_take_add a _ _ h2
    simp only [diffRunesGo, e1, e2, List.mem_cons] at he
    rcases he with rfl | he
    · exact ⟨⟨d.start, by omega, rfl⟩, ⟨d.stop, h3, rfl⟩⟩
    · exact ih d.stop hrest e he

/-! ### validate / apply on a chain -/
def deltaSize : List Edit → Int
  | [] => 0
  | e :: rest => (e.new.length : Int) + e.start - e.stop + deltaSize rest

theorem validateGo_chain (srcLen : Int) : ∀ (es : List Edit) (size last : Int), 0 ≤ last → EditChain srcLen last es →
    validateGo srcLen es size last = .ok (size + deltaSize es) := by
  intro es
  induction es with
  | nil => intro size last _ _; simp [validateGo, deltaSize]
  | cons e rest ih =>
    intro size last h0 hc
    simp only [EditChain] at hc
    obtain ⟨h1, h2, h3, hrest⟩ := hc
    have c1 : (0 ≤ e.start ∧ e.start ≤ e.stop ∧ e.stop ≤ srcLen) := ⟨by omega, h2, h3⟩
    have c2 : ¬ (e.start < last) := by omega
    simp only [validateGo, c1, not_true_eq_false, if_false, c2, deltaSize]
    rw [ih _ _ (by omega) hrest]
    simp only [and_self, not_true_eq_false, if_false, Except.ok.injEq]
    omega

theorem editLE_trans (a b c : Edit) : editLE a b = true → editLE b c = true → editLE a c = true := by
  simp only [editLE, Bool.or_eq_true, Bool.and_eq_true, decide_eq_true_eq]
  intro h1 h2; omega

theorem editLE_total (a b : Edit) : (editLE a b || editLE b a) = true := by
  simp only [editLE, Bool.or_eq_true, Bool.and_eq_true, decide_eq_true_eq]
  omega

theorem pairwise_of_isSortedAdj : ∀ (es : List Edit), isSortedAdj es = true → es.Pairwise (fun a b => editLE a b = true) := by
  intro es
  induction es with
  | nil => intro _; exact List.Pairwise.nil
  | cons a rest ih =>
    intro h
    cases rest with
    | nil => simp
    | cons b rest' =>
      simp only [isSortedAdj, Bool.and_eq_true] at h
      have ihr := ih h.2
      refine List.Pairwise.cons ?_ ihr
      intro c hc
      simp only [List.mem_cons] at hc
      rcases hc with rfl | hc
      · exact h.1
      · exact editLE_trans a b c h.1 (List.rel_of_pairwise_cons ihr hc)

theorem isSortedAdj_of_chain (srcLen : Int) : ∀ (es : List Edit) (last : Int), EditChain srcLen last es → isSortedAdj es = true := by
  intro es
  induction es with
  | nil => intro _ _; rfl
  | cons a rest ih =>
    intro last hc
    cases rest with
    | nil => rfl
    | cons b rest' =>
      simp only [EditChain] at hc
      obtain ⟨h1, h2, h3, hb1, hb2, hb3, hrest⟩ := hc
      simp only [isSortedAdj, Bool.and_eq_true]
      refine ⟨?_, ih a.stop ⟨hb1, hb2, hb3, hrest⟩⟩
      simp only [editLE, Bool.or_eq_true, Bool.and_eq_true, decide_eq_true_eq]
      omega

theorem validate_order (src : List Nat) (es : List Edit) :
    (if isSortedAdj es = true then es else sortEdits es) = sortEdits es := by
  split
  · rename_i h
    exact (List.mergeSort_of_pairwise (pairwise_of_isSortedAdj es h)).symm
  · rfl

theorem length_applyGo (src : List Nat) : ∀ (es : List Edit) (last : Nat), last ≤ src.length →
    EditChain src.length last es →
    ((applyGo src last es).length : Int) = (src.length : Int) - last + deltaSize es := by
  intro es
  induction es with
  | nil => intro last hl _; simp [applyGo, deltaSize]; omega
  | cons e rest ih =>
    intro last hl hc
    simp only [EditChain] at hc
    obtain ⟨h1, h2, h3, hrest⟩ := hc
    have hs : (e.start.toNat : Int) = e.start := Int.toNat_of_nonneg (by omega)
    have ht : (e.stop.toNat : Int) = e.stop := Int.toNat_of_nonneg (by omega)
    have ih' := ih e.stop.toNat (by omega) (by rw [ht]; exact hrest)
    simp only [applyGo, List.length_append, deltaSize, slice, List.length_take, List.length_drop]
    push_cast
    rw [ih']
    omega

theorem apply_of_chain (src : List Nat) (es : List Edit) (hc : EditChain src.length 0 es) :
    apply src es = .ok (applyGo src 0 es) := by
  unfold apply validate
  have hsorted : isSortedAdj es = true := isSortedAdj_of_chain _ es 0 hc
  simp only [hsorted, if_true]
  rw [validateGo_chain _ es _ 0 (Int.le_refl _) hc]
  have := length_applyGo src es 0 (Nat.zero_le _) hc
  simp only
  rw [this]
  simp

theorem chain_of_validateGo (srcLen : Int) : ∀ (es : List Edit) (size last sz : Int), 0 ≤ last →
    validateGo srcLen es size last = .ok sz → EditChain srcLen last es := by
  intro es
  induction es with
  | nil => intro _ _ _ _ _; simp [EditChain]
  | cons e rest ih =>
    intro size last sz h0 hv
    simp only [validateGo] at hv
    split at hv
    · cases hv
    · rename_i hc
      split at hv
      · cases hv
      · rename_i hc2
        have hc' : 0 ≤ e.start ∧ e.start ≤ e.stop ∧ e.stop ≤ srcLen := Decidable.not_not.mp hc
        have := ih _ _ _ (by omega) hv
        simp only [EditChain]
        exact ⟨by omega, hc'.2.1, hc'.2.2, this⟩

theorem validateGo_ne_wrongSize (srcLen : Int) : ∀ (es : List Edit) (size last : Int),
    validateGo srcLen es size last ≠ .error .wrongSize := by
  intro es
  induction es with
  | nil => intro _ _ h; simp [validateGo] at h
  | cons e rest ih =>
    intro size last h
    simp only [validateGo] at h
    split at h
    · cases h
    · split at h
      · cases h
      · exact ih _ _ h

end WaVerif.C22
