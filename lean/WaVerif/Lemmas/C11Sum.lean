import WaVerif.Model.C11RC
/-! generic facts about `(l.map f).sum` under point updates / erasure, and the termination measure of `step`. -/
namespace WaVerif.C11

theorem sum_map_congr {l : List Addr} {f g : Addr → Nat} (h : ∀ a ∈ l, f a = g a) :
    (l.map f).sum = (l.map g).sum := by
  induction l with
  | nil => rfl
  | cons x xs ih =>
    simp only [List.map_cons, List.sum_cons]
    rw [h x (by simp), ih (fun a ha => h a (by simp [ha]))]

theorem sum_map_update_notin {l : List Addr} {f : Addr → Nat} {x : Addr} {v : Nat} (hx : x ∉ l) :
    (l.map fun a => if a = x then v else f a).sum = (l.map f).sum := by
  apply sum_map_congr
  intro a ha
  have : a ≠ x := fun e => hx (e ▸ ha)
  simp [this]

theorem sum_map_update {l : List Addr} {f : Addr → Nat} {x : Addr} {v : Nat} (hn : l.Nodup) (hx : x ∈ l) :
    (l.map fun a => if a = x then v else f a).sum + f x = (l.map f).sum + v := by
  induction l with
  | nil => simp at hx
  | cons y ys ih =>
    have hny : y ∉ ys := (List.nodup_cons.mp hn).1
    have hns : ys.Nodup := (List.nodup_cons.mp hn).2
    simp only [List.map_cons, List.sum_cons]
    by_cases hyx : y = x
    · subst hyx
      rw [sum_map_update_notin hny]
      simp
      omega
    · have hx' : x ∈ ys := by
        rcases List.mem_cons.mp hx with h | h
        · exact absurd h.symm hyx
        · exact h
      have := ih hns hx'
      simp only [hyx, if_false]
      omega

/-- an update never makes the sum smaller than the old sum minus the old value: the form used for the measure -/
theorem sum_map_update_le {l : List Addr} {f : Addr → Nat} {x : Addr} {v : Nat} (hx : x ∈ l) (hv : v ≤ f x) :
    (l.map fun a => if a = x then v else f a).sum + (f x - v) ≤ (l.map f).sum := by
  induction l with
  | nil => simp at hx
  | cons y ys ih =>
    simp only [List.map_cons, List.sum_cons]
    have hmono : (ys.map fun a => if a = x then v else f a).sum ≤ (ys.map f).sum := by
      clear ih hx
      induction ys with
      | nil => simp
      | cons z zs ih2 =>
        simp only [List.map_cons, List.sum_cons]
        by_cases hz : z = x
        · subst hz; simp; omega
        · simp [hz]; omega
    by_cases hyx : y = x
    · subst hyx
      simp
      omega
    · have hx' : x ∈ ys := by
        rcases List.mem_cons.mp hx with h | h
        · exact absurd h.symm hyx
        · exact h
      have := ih hx'
      simp only [hyx, if_false]
      omega

theorem sum_map_erase {l : List Addr} {f : Addr → Nat} {x : Addr} (hx : x ∈ l) :
    ((l.erase x).map f).sum + f x = (l.map f).sum := by
  induction l with
  | nil => simp at hx
  | cons y ys ih =>
    by_cases hyx : y = x
    · subst hyx
      simp [List.erase_cons_head]
      omega
    · have hx' : x ∈ ys := by
        rcases List.mem_cons.mp hx with h | h
        · exact absurd h.symm hyx
        · exact h
      have hne : (y == x) = false := by simp [hyx]
      rw [List.erase_cons_tail (by simp [hyx])]
      simp only [List.map_cons, List.sum_cons]
      have := ih hx'
      omega

/-! ### termination: `mu` strictly decreases -/

theorem mu_decr_le (k : Addr) (c : Cfg) : mu (decr k c) ≤ mu c := by
  unfold decr
  by_cases hk : k ∈ c.st.live
  · simp only [hk, if_true]
    by_cases h1 : (c.st.blk k).rc = 1
    · simp only [h1, if_true]
      -- push: frames gain |kids|+1, the heap loses |kids|+2
      unfold mu
      simp only [St.emit, St.setBlk, List.map_cons, List.sum_cons]
      have hcongr : (c.st.live.map fun a => wBlk (if a = k then (⟨0, []⟩ : Blk) else c.st.blk a)).sum
          = (c.st.live.map fun a => if a = k then 0 else wBlk (c.st.blk a)).sum := by
        apply sum_map_congr
        intro a _
        by_cases h : a = k <;> simp [h, wBlk]
      rw [hcongr]
      have := sum_map_update_le (l := c.st.live) (f := fun a => wBlk (c.st.blk a)) (x := k) (v := 0) hk (Nat.zero_le _)
      have hw : wBlk (c.st.blk k) = (c.st.blk k).kids.length + 2 := by simp [wBlk, h1]
      simp only [hw] at this
      omega
    · simp only [h1, if_false]
      by_cases h0 : (c.st.blk k).rc = 0
      · simp only [h0, if_true]
        unfold mu; simp [St.fail]
      · simp only [h0, if_false]
        unfold mu
        simp only [St.emit, St.setBlk]
        have hcongr : (c.st.live.map fun a => wBlk (if a = k then (⟨(c.st.blk k).rc - 1, (c.st.blk k).kids⟩ : Blk) else c.st.blk a)).sum
            = (c.st.live.map fun a => wBlk (c.st.blk a)).sum := by
          apply sum_map_congr
          intro a _
          by_cases h : a = k
          · subst h
            have : (c.st.blk a).rc - 1 ≠ 0 := by omega
            simp [wBlk, this, h0]
          · simp [h]
        rw [hcongr]
        exact Nat.le_refl _
  · simp only [hk, if_false]
    unfold mu; simp [St.fail]

theorem mu_step_lt (c : Cfg) (h : c.stk ≠ []) : mu (step c) < mu c := by
  unfold step
  match hs : c.stk with
  | [] => exact absurd hs h
  | ⟨none, []⟩ :: rest =>
    simp only
    unfold mu
    simp [hs]
  | ⟨some b, []⟩ :: rest =>
    simp only
    unfold mu
    simp only [hs, List.map_cons, List.sum_cons, List.length_nil]
    unfold St.free
    by_cases hb : b ∈ c.st.live
    · simp only [hb, if_true]
      have := sum_map_erase (l := c.st.live) (f := fun a => wBlk (c.st.blk a)) hb
      omega
    · simp only [hb, if_false, St.fail]
      omega
  | ⟨o, k :: ks⟩ :: rest =>
    simp only
    have h1 := mu_decr_le k { c with stk := ⟨o, ks⟩ :: rest }
    have h2 : mu { c with stk := ⟨o, ks⟩ :: rest } + 1 = mu c := by
      unfold mu
      simp [hs]
      omega
    omega

theorem step_nil (c : Cfg) (h : c.stk = []) : step c = c := by
  unfold step; simp [h]

theorem run_nil (n : Nat) (c : Cfg) (h : c.stk = []) : run n c = c := by
  induction n with
  | zero => rfl
  | succ n ih => simp [run, step_nil c h, ih]

/-- fuel `mu c` always suffices: the release machine stops with an empty stack -/
theorem run_terminates (n : Nat) (c : Cfg) (h : mu c ≤ n) : (run n c).stk = [] := by
  induction n generalizing c with
  | zero =>
    by_cases he : c.stk = []
    · simpa [run] using he
    · have := mu_step_lt c he; omega
  | succ n ih =>
    by_cases he : c.stk = []
    · rw [run_nil _ _ he]; exact he
    · simp only [run]
      apply ih
      have := mu_step_lt c he
      omega

/-! ### the zero loop of HeapAlloc -/

theorem zeroLoop_spec (k ptr : Nat) (m : Mem) (x : Nat) :
    zeroLoop k ptr m x = if ptr ≤ x ∧ x < ptr + 8 * k then 0 else m x := by
  induction k generalizing m with
  | zero =>
    simp only [zeroLoop]
    have : ¬ (ptr ≤ x ∧ x < ptr + 8 * 0) := by omega
    rw [if_neg this]
  | succ k ih =>
    simp only [zeroLoop, ih, store64z]
    by_cases h1 : ptr ≤ x ∧ x < ptr + 8 * k
    · have h2 : ptr ≤ x ∧ x < ptr + 8 * (k + 1) := ⟨h1.1, by omega⟩
      simp [h1, h2]
    · by_cases h3 : ptr + 8 * k ≤ x ∧ x < ptr + 8 * k + 8
      · have h2 : ptr ≤ x ∧ x < ptr + 8 * (k + 1) := ⟨by omega, by omega⟩
        simp [h2, h3]
      · have h2 : ¬ (ptr ≤ x ∧ x < ptr + 8 * (k + 1)) := by omega
        simp [h1, h2, h3]

end WaVerif.C11