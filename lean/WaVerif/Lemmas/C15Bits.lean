import WaVerif.Model.C15
namespace WaVerif.C15
open WaVerif

/-! ### bits of the model's Int bitwise operators -/

theorem testBit_natAndNot (m n i : Nat) : (natAndNot m n).testBit i = (m.testBit i && !n.testBit i) := by
  simp only [natAndNot, Nat.testBit_xor, Nat.testBit_and]
  cases m.testBit i <;> cases n.testBit i <;> rfl

theorem tbit_land (x y : Int) (i : Nat) : tbit (land x y) i = (tbit x i && tbit y i) := by
  cases x <;> cases y <;>
    simp only [land, tbit, testBit_natAndNot, Nat.testBit_and, Nat.testBit_or] <;>
    (rename_i m n; cases m.testBit i <;> cases n.testBit i <;> rfl)

theorem tbit_lor (x y : Int) (i : Nat) : tbit (lor x y) i = (tbit x i || tbit y i) := by
  cases x <;> cases y <;>
    simp only [lor, tbit, testBit_natAndNot, Nat.testBit_and, Nat.testBit_or] <;>
    (rename_i m n; cases m.testBit i <;> cases n.testBit i <;> rfl)

theorem tbit_lxor (x y : Int) (i : Nat) : tbit (lxor x y) i = (tbit x i ^^ tbit y i) := by
  cases x <;> cases y <;>
    simp only [lxor, tbit, Nat.testBit_xor] <;>
    (rename_i m n; cases m.testBit i <;> cases n.testBit i <;> rfl)

theorem tbit_landnot (x y : Int) (i : Nat) : tbit (landnot x y) i = (tbit x i && !tbit y i) := by
  cases x <;> cases y <;>
    simp only [landnot, tbit, testBit_natAndNot, Nat.testBit_and, Nat.testBit_or] <;>
    (rename_i m n; cases m.testBit i <;> cases n.testBit i <;> rfl)

theorem getLsbD_ofInt_tbit (w : Nat) (x : Int) (i : Nat) :
    (BitVec.ofInt w x).getLsbD i = (decide (i < w) && tbit x i) := by
  cases x with
  | ofNat m =>
    show (BitVec.ofInt w (m : Int)).getLsbD i = _
    rw [BitVec.ofInt_natCast, BitVec.getLsbD_ofNat]; rfl
  | negSucc m =>
    rw [BitVec.ofInt_negSucc_eq_not_ofNat, BitVec.getLsbD_not, BitVec.getLsbD_ofNat]
    simp only [tbit]
    cases decide (i < w) <;> cases m.testBit i <;> rfl

theorem ofInt_land (w : Nat) (x y : Int) : BitVec.ofInt w (land x y) = BitVec.ofInt w x &&& BitVec.ofInt w y := by
  apply BitVec.eq_of_getLsbD_eq; intro i _
  simp only [getLsbD_ofInt_tbit, tbit_land, BitVec.getLsbD_and]
  cases decide (i < w) <;> cases tbit x i <;> cases tbit y i <;> rfl

theorem ofInt_lor (w : Nat) (x y : Int) : BitVec.ofInt w (lor x y) = BitVec.ofInt w x ||| BitVec.ofInt w y := by
  apply BitVec.eq_of_getLsbD_eq; intro i _
  simp only [getLsbD_ofInt_tbit, tbit_lor, BitVec.getLsbD_or]
  cases decide (i < w) <;> cases tbit x i <;> cases tbit y i <;> rfl

theorem ofInt_lxor (w : Nat) (x y : Int) : BitVec.ofInt w (lxor x y) = BitVec.ofInt w x ^^^ BitVec.ofInt w y := by
  apply BitVec.eq_of_getLsbD_eq; intro i _
  simp only [getLsbD_ofInt_tbit, tbit_lxor, BitVec.getLsbD_xor]
  cases decide (i < w) <;> cases tbit x i <;> cases tbit y i <;> rfl

theorem ofInt_landnot (w : Nat) (x y : Int) : BitVec.ofInt w (landnot x y) = BitVec.ofInt w x &&& ~~~BitVec.ofInt w y := by
  apply BitVec.eq_of_getLsbD_eq; intro i _
  simp only [getLsbD_ofInt_tbit, tbit_landnot, BitVec.getLsbD_and, BitVec.getLsbD_not]
  cases decide (i < w) <;> cases tbit x i <;> cases tbit y i <;> rfl

end WaVerif.C15
