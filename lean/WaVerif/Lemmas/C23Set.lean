import WaVerif.Lemmas.C23
/-! # C23 — helper lemmas: file lookup, Position congruence, write/read, reachable-set invariant (core only) -/
namespace WaVerif.C23

/-- well-formed file set: what `addFile` maintains and `file` relies on -/
structure SetWF (s : MSet) : Prop where
  size_nonneg : ∀ f ∈ s.files, 0 ≤ f.size
  base_pos : ∀ f ∈ s.files, 1 ≤ f.base
  disjoint : ∀ (i j : Nat) (hi : i < s.files.length) (hj : j < s.files.length), i < j →
    s.files[i].base + s.files[i].size < s.files[j].base

theorem inFile_iff (f : MFile) (p : Int) : inFile f p = true ↔ f.base ≤ p ∧ p ≤ f.base + f.size := by
  simp [inFile]

theorem wf_unique (s : MSet) (hw : SetWF s) (i j : Nat) (hi : i < s.files.length) (hj : j < s.files.length) (p : Int)
    (h1 : inFile s.files[i] p = true) (h2 : inFile s.files[j] p = true) : i = j := by
  rw [inFile_iff] at h1 h2
  rcases Nat.lt_trichotomy i j with h | h | h
  · have := hw.disjoint i j hi hj h; omega
  · exact h
  · have := hw.disjoint j i hj hi h; omega

theorem wf_bases_sorted (s : MSet) (hw : SetWF s) : SortedLE (s.files.map (·.base)) := by
  intro i j hi hj hij
  simp only [List.length_map] at hi hj
  simp only [List.getElem_map]
  rcases Nat.lt_or_ge i j with h | h
  · have := hw.disjoint i j hi hj h
    have := hw.size_nonneg _ (List.getElem_mem hi)
    omega
  · have : i = j := by omega
    subst this; exact Int.le_refl _

/-- the cache holds one of the current files (or nothing): what `addFile`, lookups, the File
methods and — crucially — `Read` must maintain -/
def CacheOK (s : MSet) : Prop := ∀ f, s.last = some f → f ∈ s.files

theorem cacheHit_sound (s : MSet) (p : Int) (f : MFile) (h : cacheHit s p = some f) :
    s.last = some f ∧ inFile f p = true := by
  unfold cacheHit at h
  cases hl : s.last with
  | none => simp [hl] at h
  | some g =>
    simp only [hl] at h
    by_cases hi : inFile g p = true
    · simp only [hi, if_true, Option.some.injEq] at h
      subst h; exact ⟨rfl, hi⟩
    · simp [hi] at h

theorem searchFile_found (s : MSet) (hw : SetWF s) (k : Nat) (hk : k < s.files.length) (p : Int)
    (hin : inFile s.files[k] p = true) : searchFile s p = some s.files[k] := by
  unfold searchFile
  obtain ⟨r, hle, hp, he⟩ := searchEntry_of_part (s.files.map (·.base)) p (wf_bases_sorted s hw)
  rw [he]
  simp only [List.length_map] at hle
  rw [inFile_iff] at hin
  have hkr : k < r := by
    rcases Nat.lt_or_ge k r with h | h
    · exact h
    · have := hp.2 k (by simpa using hk) h
      simp only [List.getElem_map] at this; omega
  have hr1 : r - 1 < s.files.length := by omega
  have hb : s.files[r - 1].base ≤ p := by
    have := hp.1 (r - 1) (by simpa using hr1) (by omega)
    simpa only [List.getElem_map] using this
  have hkeq : k = r - 1 := by
    rcases Nat.lt_or_ge k (r - 1) with h | h
    · have := hw.disjoint k (r - 1) hk hr1 h; omega
    · omega
  have hpos : 0 < r := by omega
  simp only [hpos, dite_true]
  have : s.files[r - 1]? = some s.files[r - 1] := List.getElem?_eq_getElem hr1
  simp only [this]
  subst hkeq
  simp [hin.2]

theorem searchFile_sound (s : MSet) (hw : SetWF s) (p : Int) (f : MFile) (h : searchFile s p = some f) :
    ∃ (k : Nat) (hk : k < s.files.length), s.files[k] = f ∧ inFile f p = true := by
  unfold searchFile at h
  obtain ⟨r, hle, hp, he⟩ := searchEntry_of_part (s.files.map (·.base)) p (wf_bases_sorted s hw)
  rw [he] at h
  simp only [List.length_map] at hle
  by_cases hpos : 0 < r
  · simp only [hpos, dite_true] at h
    have hr1 : r - 1 < s.files.length := by omega
    have : s.files[r - 1]? = some s.files[r - 1] := List.getElem?_eq_getElem hr1
    simp only [this] at h
    have hb : s.files[r - 1].base ≤ p := by
      have := hp.1 (r - 1) (by simpa using hr1) (by omega)
      simpa only [List.getElem_map] using this
    by_cases hu : p ≤ s.files[r - 1].base + s.files[r - 1].size
    · simp only [hu, if_true, Option.some.injEq] at h
      subst h
      exact ⟨r - 1, hr1, rfl, (inFile_iff _ _).mpr ⟨hb, hu⟩⟩
    · simp [hu] at h
  · simp [hpos] at h

theorem lookup_found (s : MSet) (hw : SetWF s) (hc : CacheOK s) (k : Nat) (hk : k < s.files.length) (p : Int)
    (hin : inFile s.files[k] p = true) : (fileLookup s p).1 = some s.files[k] := by
  unfold fileLookup
  cases hch : cacheHit s p with
  | some g =>
    obtain ⟨hl, hin'⟩ := cacheHit_sound s p g hch
    obtain ⟨j, hj, hjg⟩ := List.getElem_of_mem (hc g hl)
    have : j = k := wf_unique s hw j k hj hk p (by rw [hjg]; exact hin') hin
    subst this
    simp [hjg]
  | none => simp [searchFile_found s hw k hk p hin]

theorem lookup_none (s : MSet) (hw : SetWF s) (hc : CacheOK s) (p : Int)
    (hout : ∀ (k : Nat) (hk : k < s.files.length), inFile s.files[k] p = false) : (fileLookup s p).1 = none := by
  unfold fileLookup
  cases hch : cacheHit s p with
  | some g =>
    obtain ⟨hl, hin'⟩ := cacheHit_sound s p g hch
    obtain ⟨j, hj, hjg⟩ := List.getElem_of_mem (hc g hl)
    rw [← hjg, hout j hj] at hin'; cases hin'
  | none =>
    cases hs : searchFile s p with
    | some g =>
      obtain ⟨j, hj, hjg, hin'⟩ := searchFile_sound s hw p g hs
      rw [← hjg, hout j hj] at hin'; cases hin'
    | none => rfl

/-- a lookup leaves a cache that is again one of the files -/
theorem lookup_cache_ok (s : MSet) (hw : SetWF s) (hc : CacheOK s) (p : Int) :
    ∀ f, (fileLookup s p).2 = some f → f ∈ s.files := by
  intro f hf
  unfold fileLookup at hf
  cases hch : cacheHit s p with
  | some g => rw [hch] at hf; exact hc f hf
  | none =>
    rw [hch] at hf
    cases hs : searchFile s p with
    | some g =>
      rw [hs] at hf
      simp only [Option.some.injEq] at hf
      subst hf
      obtain ⟨j, hj, hjg, _⟩ := searchFile_sound s hw p g hs
      exact hjg ▸ List.getElem_mem hj
    | none => rw [hs] at hf; exact hc f hf

/-! ### Position through the lookup -/
theorem position_found (s : MSet) (p : Int) (adj : Bool) (hp : p ≠ 0) (f : MFile)
    (h : (fileLookup s p).1 = some f) : (positionFor s p adj).1 = filePosition f p adj := by
  unfold positionFor
  rcases hfl : fileLookup s p with ⟨a, l⟩
  rw [hfl] at h
  simp only at h
  subst h
  simp [hp]

theorem position_notfound (s : MSet) (p : Int) (adj : Bool) (h : (fileLookup s p).1 = none) :
    (positionFor s p adj).1 = MPosition.zero := by
  unfold positionFor
  rcases hfl : fileLookup s p with ⟨a, l⟩
  rw [hfl] at h
  simp only at h
  subst h
  by_cases hp : p = 0 <;> simp [hp]

/-- what `Position` depends on: name, base, size, line table AND line-info table -/
def core (f : MFile) : String × Int × Int × List Int × List LineInfo := (f.name, f.base, f.size, f.lines, f.infos)

theorem filePosition_core (f g : MFile) (h : core f = core g) (p : Int) (adj : Bool) :
    filePosition f p adj = filePosition g p adj := by
  simp only [core, Prod.mk.injEq] at h
  simp only [filePosition, unpackAdj, h.1, h.2.1, h.2.2.2.1, h.2.2.2.2]

theorem position_congr (s s' : MSet) (hw : SetWF s) (hw' : SetWF s') (hcs : CacheOK s) (hcs' : CacheOK s')
    (hc : s.files.map core = s'.files.map core) (p : Int) (adj : Bool) :
    (positionFor s p adj).1 = (positionFor s' p adj).1 := by
  have hlen : s.files.length = s'.files.length := by
    have := congrArg List.length hc; simpa using this
  have hcore : ∀ (k : Nat) (hk : k < s.files.length), core s.files[k] = core (s'.files[k]'(by omega)) := by
    intro k hk
    have h1 : (s.files.map core)[k]'(by simpa using hk) = core s.files[k] := by simp
    have h2 : (s'.files.map core)[k]'(by simp; omega) = core (s'.files[k]'(by omega)) := by simp
    rw [← h1, ← h2]; simp only [hc]
  by_cases hp : p = 0
  · simp [positionFor, hp]
  by_cases hex : ∃ (k : Nat) (hk : k < s.files.length), inFile s.files[k] p = true
  · obtain ⟨k, hk, hin⟩ := hex
    have hk' : k < s'.files.length := by omega
    have hck := hcore k hk
    have hck' := hck
    simp only [core, Prod.mk.injEq] at hck
    have hin' : inFile s'.files[k] p = true := by
      rw [inFile_iff] at hin ⊢; rw [← hck.2.1, ← hck.2.2.1]; exact hin
    rw [position_found s p adj hp _ (lookup_found s hw hcs k hk p hin),
        position_found s' p adj hp _ (lookup_found s' hw' hcs' k hk' p hin')]
    exact filePosition_core _ _ hck' p adj
  · have hout : ∀ (k : Nat) (hk : k < s.files.length), inFile s.files[k] p = false := by
      intro k hk
      cases h : inFile s.files[k] p with
      | false => rfl
      | true => exact absurd ⟨k, hk, h⟩ hex
    have hout' : ∀ (k : Nat) (hk : k < s'.files.length), inFile s'.files[k] p = false := by
      intro k hk'
      have hk : k < s.files.length := by omega
      have hck := hcore k hk
      simp only [core, Prod.mk.injEq] at hck
      have := hout k hk
      simp only [inFile] at this ⊢
      rw [← hck.2.1, ← hck.2.2.1]; exact this
    rw [position_notfound s p adj (lookup_none s hw hcs p hout), position_notfound s' p adj (lookup_none s' hw' hcs' p hout')]

theorem read_write_files (s : MSet) : (read (write s)).files.map core = s.files.map core := by
  simp [read, write, List.map_map, core, Function.comp_def]

theorem read_cache_ok (ss : SSet) : CacheOK (read ss) := by
  intro f hf; simp [read] at hf

theorem read_write_wf (s : MSet) (hw : SetWF s) : SetWF (read (write s)) := by
  have hf : (read (write s)).files = s.files.map (fun f => ⟨f.name, f.base, f.size, 0, f.lines, f.infos⟩) := by
    simp [read, write, List.map_map, Function.comp_def]
  constructor
  · intro f hf'
    rw [hf] at hf'
    obtain ⟨g, hg, rfl⟩ := List.mem_map.mp hf'
    exact hw.size_nonneg g hg
  · intro f hf'
    rw [hf] at hf'
    obtain ⟨g, hg, rfl⟩ := List.mem_map.mp hf'
    exact hw.base_pos g hg
  · intro i j hi hj hij
    simp only [hf, List.length_map] at hi hj
    simp only [hf, List.getElem_map]
    exact hw.disjoint i j hi hj hij

/-! ### the invariant of reachable file sets -/
structure SetInv (s : MSet) : Prop where
  base_pos : 1 ≤ s.base
  fbase_pos : ∀ f ∈ s.files, 1 ≤ f.base
  size_nonneg : ∀ f ∈ s.files, 0 ≤ f.size
  size_le_cap : ∀ f ∈ s.files, f.size ≤ f.cap
  below : ∀ f ∈ s.files, f.base + f.cap < s.base
  gaps : ∀ (i j : Nat) (hi : i < s.files.length) (hj : j < s.files.length), i < j →
    s.files[i].base + s.files[i].cap < s.files[j].base
  cache : CacheOK s

theorem SetInv.wf {s : MSet} (h : SetInv s) : SetWF s where
  size_nonneg := h.size_nonneg
  base_pos := h.fbase_pos
  disjoint := by
    intro i j hi hj hij
    have := h.gaps i j hi hj hij
    have := h.size_le_cap _ (List.getElem_mem hi)
    omega

theorem newFileSet_inv : SetInv newFileSet := by
  constructor <;> simp [newFileSet, CacheOK]

theorem addFile_inv (s s' : MSet) (name : String) (b sz cp : Int) (h : SetInv s)
    (ha : addFile s name b sz cp = .ok s') : SetInv s' := by
  unfold addFile at ha
  simp only at ha
  generalize hb' : (if b < 0 then s.base else b) = b' at ha
  by_cases hcond : b' < s.base ∨ sz < 0
  · simp [hcond] at ha
  · simp only [hcond, if_false] at ha
    simp only [not_or, Int.not_lt] at hcond
    injection ha with ha
    subst ha
    generalize hc' : (if cp < sz then sz else cp) = c'
    have hcsz : sz ≤ c' := by subst hc'; split <;> omega
    have hbp := h.base_pos
    constructor
    · simp only; omega
    · intro f hf
      simp only [List.mem_append, List.mem_singleton] at hf
      rcases hf with hf | rfl
      · exact h.fbase_pos f hf
      · simp only; omega
    · intro f hf
      simp only [List.mem_append, List.mem_singleton] at hf
      rcases hf with hf | rfl
      · exact h.size_nonneg f hf
      · exact hcond.2
    · intro f hf
      simp only [List.mem_append, List.mem_singleton] at hf
      rcases hf with hf | rfl
      · exact h.size_le_cap f hf
      · exact hcsz
    · intro f hf
      simp only [List.mem_append, List.mem_singleton] at hf
      rcases hf with hf | rfl
      · have := h.below f hf; simp only; omega
      · simp only; omega
    · intro i j hi hj hij
      simp only [List.length_append, List.length_singleton] at hi hj
      simp only [List.getElem_append]
      by_cases hj' : j < s.files.length
      · have hi' : i < s.files.length := by omega
        simp only [hi', hj', dite_true]
        exact h.gaps i j hi' hj' hij
      · have hi' : i < s.files.length := by omega
        simp only [hi', hj', dite_true, dite_false, List.getElem_singleton]
        have := h.below _ (List.getElem_mem hi')
        omega
    · intro f hf
      simp only [Option.some.injEq] at hf
      subst hf
      simp

/-- replacing the `k`-th File object by one with the same base and capacity and a size within
the capacity keeps the invariant (the cache follows the object) -/
theorem updateFile_inv (s : MSet) (k : Nat) (f f' : MFile) (h : SetInv s) (hf : s.files[k]? = some f)
    (hb : f'.base = f.base) (hc : f'.cap = f.cap) (h0 : 0 ≤ f'.size) (hs : f'.size ≤ f'.cap) :
    SetInv (updateFile s k f f') := by
  obtain ⟨hk, hfe⟩ := List.getElem?_eq_some_iff.mp hf
  have hfm : f ∈ s.files := hfe ▸ List.getElem_mem hk
  have hmem : ∀ g ∈ s.files.set k f', g ∈ s.files ∨ g = f' := fun g hg => List.mem_or_eq_of_mem_set hg
  constructor
  · exact h.base_pos
  · intro g hg
    rcases hmem g hg with hg | rfl
    · exact h.fbase_pos g hg
    · rw [hb]; exact h.fbase_pos f hfm
  · intro g hg
    rcases hmem g hg with hg | rfl
    · exact h.size_nonneg g hg
    · exact h0
  · intro g hg
    rcases hmem g hg with hg | rfl
    · exact h.size_le_cap g hg
    · exact hs
  · intro g hg
    rcases hmem g hg with hg | rfl
    · exact h.below g hg
    · have := h.below f hfm
      simp only [updateFile]; rw [hb, hc]; exact this
  · intro i j hi hj hij
    simp only [updateFile, List.length_set] at hi hj
    simp only [updateFile, List.getElem_set]
    have := h.gaps i j hi hj hij
    split <;> split
    · omega
    · rename_i h1 h2; subst h1; rw [hfe] at this; rw [hb, hc]; exact this
    · rename_i h1 h2; subst h2; rw [hfe] at this; rw [hb]; exact this
    · exact this
  · intro g hg
    simp only [updateFile] at hg ⊢
    cases hl : s.last with
    | none => rw [hl] at hg; cases hg
    | some l =>
      rw [hl] at hg
      simp only at hg
      by_cases hlf : l = f
      · simp only [hlf, if_true, Option.some.injEq] at hg
        subst hg
        exact List.mem_set hk _
      · simp only [hlf, if_false, Option.some.injEq] at hg
        subst hg
        obtain ⟨j, hj, hjl⟩ := List.getElem_of_mem (h.cache l hl)
        have hjk : j ≠ k := by
          intro e; subst e; rw [hfe] at hjl; exact hlf hjl.symm
        have : (s.files.set k f')[j]'(by simpa using hj) = l := by
          rw [List.getElem_set]; simp [Ne.symm hjk, hjl]
        exact this ▸ List.getElem_mem _

theorem setContent_inv (s s' : MSet) (k : Nat) (c : List Nat) (h : SetInv s)
    (hs : setContent s k c = .ok s') : SetInv s' := by
  unfold setContent at hs
  split at hs
  · cases hs
  · rename_i f hf
    split at hs
    · cases hs
    · rename_i hcap
      injection hs with hs
      subst hs
      exact updateFile_inv s k f _ h hf rfl rfl (by simp only; omega) (by simp only; omega)

theorem addLineInfo_inv (s s' : MSet) (k : Nat) (li : LineInfo) (h : SetInv s)
    (hs : addLineInfo s k li = .ok s') : SetInv s' := by
  unfold addLineInfo at hs
  split at hs
  · cases hs
  · rename_i f hf
    obtain ⟨hk, hfe⟩ := List.getElem?_eq_some_iff.mp hf
    have hfm : f ∈ s.files := hfe ▸ List.getElem_mem hk
    by_cases hok : infoAccepted f li = true
    · simp only [hok, if_true] at hs
      injection hs with hs
      subst hs
      exact updateFile_inv s k f _ h hf rfl rfl (h.size_nonneg f hfm) (h.size_le_cap f hfm)
    · simp only [hok, if_false] at hs
      injection hs with hs
      subst hs; exact h

end WaVerif.C23
