import WaVerif.Lemmas.C10Zero
/-! # C10 — the write log never touches another live block -/
namespace WaVerif.C10

/-- the 32-bit word stored at address `w` lies entirely outside block `b` (header and payload) -/
def WordOutside (w : Nat) (b : LBlk) : Prop := w + 4 ≤ b.addr ∨ b.addr + 8 + b.size ≤ w

/-- blocks that are not live: in transit or on one of the five lists -/
def nonLive (s : State) (ex : List FBlk) : List FBlk := ex ++ (s.f0 ++ (s.f1 ++ (s.f2 ++ (s.f3 ++ s.free))))

theorem le_one_disj {l1 l2 : List FBlk} (h : ∀ x, sumf (cov x) (l1 ++ l2) ≤ 1) {a b : FBlk}
    (ha : a ∈ l1) (hb : b ∈ l2) (x : Nat) : cov x a + cov x b ≤ 1 := by
  have := sumf_two_mem (cov x) ha hb
  have := h x
  omega

/-- a word inside a non-live block is outside every live block -/
theorem word_in_nonlive {s : State} {ex : List FBlk} (h : InvX s ex) {c : FBlk} (hc : c ∈ nonLive s ex)
    {w : Nat} (h1 : c.1 ≤ w) (h2 : w + 4 ≤ bend c) : ∀ b ∈ s.live, WordOutside w b := by
  intro b hb
  have hle : ∀ x, sumf (cov x) (s.live.map LBlk.blk ++ nonLive s ex) ≤ 1 := by
    intro x
    have := tiles_le_one h.tiling x
    simp [nonLive, allBlocks] at *
    omega
  have hbm : b.blk ∈ s.live.map LBlk.blk := List.mem_map_of_mem hb
  unfold WordOutside
  by_cases hw : b.addr ≤ w
  · by_cases h3 : b.addr + 8 + b.size ≤ w
    · exact Or.inr h3
    · exfalso
      have := le_one_disj hle hbm hc w
      have c1 : cov w c = 1 := by simp [cov, bend] at *; omega
      have c2 : cov w b.blk = 1 := by simp [cov]; omega
      omega
  · by_cases h3 : w + 4 ≤ b.addr
    · exact Or.inl h3
    · exfalso
      have := le_one_disj hle hbm hc b.addr
      have c1 : cov b.addr c = 1 := by simp [cov, bend] at *; omega
      have c2 : cov b.addr b.blk = 1 := by simp [cov]; omega
      omega

/-- a word inside the list heads is outside every live block -/
theorem word_in_heads {s : State} {ex : List FBlk} (h : InvX s ex) {w : Nat} (h1 : w + 4 ≤ heapStart s.cfg) :
    ∀ b ∈ s.live, WordOutside w b := by
  intro b hb
  have hm : b.blk ∈ ex ++ allBlocks s := by
    simp only [allBlocks, List.mem_append]
    exact Or.inr (Or.inl (List.mem_map_of_mem hb))
  have := (tiles_mem_bounds h.tiling hm).1
  exact Or.inl (by simp at this; omega)

/-- a word at or above the bump pointer is outside every live block -/
theorem word_above_heap {s : State} {ex : List FBlk} (h : InvX s ex) {w : Nat} (h1 : s.heapPtr ≤ w) :
    ∀ b ∈ s.live, WordOutside w b := by
  intro b hb
  have hm : b.blk ∈ ex ++ allBlocks s := by
    simp only [allBlocks, List.mem_append]
    exact Or.inr (Or.inl (List.mem_map_of_mem hb))
  have := (tiles_mem_bounds h.tiling hm).2
  exact Or.inr (by simp [bend] at this; omega)

theorem getFx_mem_nonLive {s : State} {ex : List FBlk} {k : Nat} {c : FBlk} (hc : c ∈ getFx s k) : c ∈ nonLive s ex := by
  rcases k with _|_|_|k <;> simp [getFx] at hc <;> simp [nonLive, hc]

theorem free_mem_nonLive {s : State} {ex : List FBlk} {c : FBlk} (hc : c ∈ s.free) : c ∈ nonLive s ex := by
  simp [nonLive, hc]

theorem ex_mem_nonLive {s : State} {ex : List FBlk} {c : FBlk} (hc : c ∈ ex) : c ∈ nonLive s ex := by
  simp [nonLive, hc]

/-- a ring node's header (the head `(hd, 0)` or a free block) is outside every live block -/
theorem ring_header_outside {s : State} {ex : List FBlk} (h : InvX s ex) {a : Nat}
    (ha : a = headAddr s.cfg ∨ ∃ c ∈ s.free, c.1 = a) {w : Nat} (h1 : a ≤ w) (h2 : w + 4 ≤ a + 8) :
    ∀ b ∈ s.live, WordOutside w b := by
  rcases ha with ha | ⟨c, hc, hca⟩
  · apply word_in_heads h
    unfold heapStart; unfold headAddr at ha; omega
  · apply word_in_nonlive h (free_mem_nonLive hc)
    · omega
    · simp [bend]; omega

/-! ## where the ring predecessors come from -/

theorem lastAddr_src (d : Nat) (l : List FBlk) : lastAddr d l = d ∨ ∃ c ∈ l, c.1 = lastAddr d l := by
  induction l generalizing d with
  | nil => exact Or.inl rfl
  | cons a r ih =>
    simp only [lastAddr]
    rcases ih a.1 with h | ⟨c, hc, h⟩
    · exact Or.inr ⟨a, by simp, h.symm⟩
    · exact Or.inr ⟨c, List.mem_cons_of_mem _ hc, h⟩

theorem withPrev_src {d : Nat} {l : List FBlk} {q : FBlk × Nat} (h : q ∈ withPrev d l) :
    q.2 = d ∨ ∃ c ∈ l, c.1 = q.2 := by
  induction l generalizing d with
  | nil => cases h
  | cons a r ih =>
    simp only [withPrev] at h
    cases h with
    | head => exact Or.inl rfl
    | tail _ h' =>
      rcases ih h' with h1 | ⟨c, hc, h1⟩
      · exact Or.inr ⟨a, by simp, h1.symm⟩
      · exact Or.inr ⟨c, List.mem_cons_of_mem _ hc, h1⟩

theorem ringPairs_src {hd : Nat} {free : List FBlk} {q : FBlk × Nat} (h : q ∈ ringPairs hd free) :
    q.2 = hd ∨ ∃ c ∈ free, c.1 = q.2 := by
  unfold ringPairs at h
  cases h with
  | head => exact lastAddr_src hd free
  | tail _ h' => exact withPrev_src h'

theorem predBlk_src (d : FBlk) (a : Nat) (l : List FBlk) : predBlk d a l = d ∨ predBlk d a l ∈ l := by
  induction l generalizing d with
  | nil => exact Or.inl rfl
  | cons b r ih =>
    simp only [predBlk]
    split
    · rcases ih b with h | h
      · exact Or.inr (by rw [h]; simp)
      · exact Or.inr (List.mem_cons_of_mem _ h)
    · exact Or.inl rfl

end WaVerif.C10
