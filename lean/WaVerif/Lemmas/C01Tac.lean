import WaVerif.Model.C01Spec
import Std.Tactic.BVDecide
/-! The uniform tactics used for the emit-table rows (one per row category). -/
namespace WaVerif.C01
open WaVerif WaVerif.Wasm

macro "row_simp" : tactic => `(tactic|
  simp [ArithRowFull, ArithRowExceptOverflow, CmpRow, ShlRowBelow, ShrRowBelow, NegRow, ComplRow, NotRow, ConvRow,
    embed, embedBool, shiftLimit,
    exec, step, pop32, pop64, binop, relop, b2i, Go.arith, Go.cmp, Go.shl, Go.shr, Go.neg, Go.compl, Go.conv])

/-- straight-line rows without traps: after symbolic execution a pure bit-vector identity remains -/
macro "row_tac" : tactic => `(tactic|
  first
  | (row_simp; done)
  | (row_simp; intros; first | rfl | bv_omega | bv_decide))

/-- division / remainder rows: split on the trap conditions on both sides -/
macro "div_tac" : tactic => `(tactic|
  first
  | (row_simp; done)
  | (row_simp
     intros
     repeat' split
     all_goals first
       | rfl
       | (simp_all; done)
       | (simp_all; bv_decide)
       | bv_decide))

/-- shift rows under the count guard -/
macro "shift_tac" : tactic => `(tactic|
  first
  | (row_simp; done)
  | (row_simp
     intro x n h
     rw [Nat.mod_eq_of_lt h]
     all_goals first
     | rfl
     | (simp only [← BitVec.shiftLeft_eq', ← BitVec.ushiftRight_eq', ← BitVec.sshiftRight_eq']; bv_decide)))

end WaVerif.C01
