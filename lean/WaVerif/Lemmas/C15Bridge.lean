import WaVerif.Lemmas.C15Run
namespace WaVerif.C15
open WaVerif

theorem twoPow_eq_ofInt (w s : Nat) : BitVec.twoPow w s = BitVec.ofInt w ((2 : Int) ^ s) := by
  apply BitVec.eq_of_toNat_eq
  rw [BitVec.toNat_twoPow, BitVec.toNat_ofInt]
  have h : ((2 : Int) ^ s) = ((2 ^ s : Nat) : Int) := by simp
  rw [h, ← Int.natCast_emod, Int.toNat_natCast]

/-- `x << s`: no hypothesis needed, both sides wrap identically -/
theorem fold_eq_runtime_shl_lem (t : Go.ITy) (x : Int) (s : Nat) :
    Go.shl (enc t x) s = enc t (exactShift .shl x s) := by
  unfold Go.shl enc exactShift
  rw [BitVec.shiftLeft_eq_mul_twoPow, BitVec.ofInt_mul, twoPow_eq_ofInt]

theorem fold_eq_runtime_shr_lem (t : Go.ITy) (ht : 0 < t.bits) (x : Int) (s : Nat)
    (hx : inRange t x) (hr : inRange t (exactShift .shr x s)) :
    Go.shr t.signed (enc t x) s = enc t (exactShift .shr x s) := by
  unfold Go.shr
  cases hs : t.signed
  · simp only [Bool.false_eq_true, if_false, exactShift] at hr ⊢
    obtain ⟨n, rfl, hn⟩ := unsigned_cases hs hx
    have e : ((n : Int) / 2 ^ s) = ((n / 2 ^ s : Nat) : Int) := by simp
    rw [e, enc_eq_ofNat, enc_eq_ofNat]
    apply BitVec.eq_of_toNat_eq
    rw [BitVec.toNat_ushiftRight]
    simp only [BitVec.toNat_ofNat]
    rw [Nat.mod_eq_of_lt hn, Nat.shiftRight_eq_div_pow, Nat.mod_eq_of_lt (Nat.lt_of_le_of_lt (Nat.div_le_self _ _) hn)]
  · simp only [if_true]
    apply BitVec.eq_of_toInt_eq
    rw [BitVec.toInt_sshiftRight, toInt_enc ht hs hx, toInt_enc ht hs hr]
    simp only [exactShift]
    rw [Int.shiftRight_eq_div_pow]; simp

theorem fold_eq_runtime_cmp_lem (t : Go.ITy) (ht : 0 < t.bits) (c : Go.Cmp) (x y : Int)
    (hx : inRange t x) (hy : inRange t y) :
    Go.cmp t.signed c (enc t x) (enc t y) = exactCmp c x y := by
  have hinj : (enc t x = enc t y) ↔ x = y := by
    constructor
    · intro e
      have := congrArg (dec t) e
      rwa [dec_enc_lem t ht x hx, dec_enc_lem t ht y hy] at this
    · intro e; rw [e]
  have hbeq : (enc t x == enc t y) = decide (x = y) := by
    by_cases h : x = y
    · subst h; simp
    · have : enc t x ≠ enc t y := fun e => h (hinj.mp e)
      simp [h, this]
  have hbne : (enc t x != enc t y) = decide (x ≠ y) := by
    by_cases h : x = y
    · subst h; simp
    · have : enc t x ≠ enc t y := fun e => h (hinj.mp e)
      simp [h, this]
  cases hs : t.signed
  · cases c
    · exact hbeq
    · exact hbne
    all_goals
    obtain ⟨n, rfl, hn⟩ := unsigned_cases hs hx
    obtain ⟨m, rfl, hm⟩ := unsigned_cases hs hy
    have hxn : (enc t (n : Int)).toNat = n := by rw [enc_eq_ofNat]; simp [Nat.mod_eq_of_lt hn]
    have hym : (enc t (m : Int)).toNat = m := by rw [enc_eq_ofNat]; simp [Nat.mod_eq_of_lt hm]
    all_goals simp only [Go.cmp, exactCmp, Bool.false_eq_true, if_false, BitVec.ult_eq_decide, BitVec.ule_eq_decide, hxn, hym]
    all_goals simp
    all_goals omega
  · have hxi := toInt_enc ht hs hx
    have hyi := toInt_enc ht hs hy
    cases c
    · exact hbeq
    · exact hbne
    all_goals simp only [Go.cmp, exactCmp, if_true, BitVec.slt_eq_decide, BitVec.sle_eq_decide, hxi, hyi]

theorem fold_eq_runtime_neg_lem (t : Go.ITy) (x : Int) : Go.neg (enc t x) = enc t (-x) := by
  unfold Go.neg enc; rw [BitVec.ofInt_neg]

theorem ofInt_emod_self (w : Nat) (v : Int) : BitVec.ofInt w (v % 2 ^ w) = BitVec.ofInt w v := by
  apply BitVec.eq_of_toNat_eq
  rw [BitVec.toNat_ofInt, BitVec.toNat_ofInt]
  have h : ((2 ^ w : Nat) : Int) = (2 : Int) ^ w := by simp
  rw [h, Int.emod_emod_of_dvd _ (Int.dvd_refl _)]

/-- `^x`: signed types use `prec = 0`, unsigned types `prec = bits` -/
theorem fold_eq_runtime_not_lem (t : Go.ITy) (x : Int) :
    Go.compl (enc t x) = enc t (exactUn .not x (if t.signed then 0 else t.bits)) := by
  have hbase : Go.compl (enc t x) = enc t (-x - 1) := by
    unfold Go.compl enc
    rw [BitVec.not_eq_neg_add, ofInt_sub', BitVec.ofInt_neg]
    rfl
  rw [hbase]
  unfold exactUn
  cases t.signed
  · simp only [Bool.false_eq_true, if_false]
    by_cases h0 : t.bits = 0
    · rw [if_pos h0]
    · rw [if_neg h0]; unfold enc; rw [ofInt_emod_self]
  · simp

theorem fold_eq_runtime_conv_lem (t1 t2 : Go.ITy) (ht : 0 < t1.bits) (x : Int) (hx : inRange t1 x) :
    Go.conv t1.signed (enc t1 x) t2.bits = enc t2 x := by
  unfold Go.conv
  cases hs : t1.signed
  · simp only [Bool.false_eq_true, if_false]
    obtain ⟨n, rfl, hn⟩ := unsigned_cases hs hx
    rw [enc_eq_ofNat, enc_eq_ofNat]
    apply BitVec.eq_of_toNat_eq
    simp [Nat.mod_eq_of_lt hn]
  · simp only [if_true]
    unfold BitVec.signExtend
    rw [toInt_enc ht hs hx]; rfl

/-! equation lemmas used by the property file (kept here so that Props/C15.lean declares property theorems only) -/
theorem exactUn_not (y : Int) (prec : Nat) : exactUn .not y prec = if prec = 0 then -y - 1 else (-y - 1) % 2 ^ prec := rfl
theorem bind_ok (x : Int) (f : Int → Verdict) : (Verdict.ok x).bind f = f x := rfl
theorem bind_cannot (f : Int → Verdict) : Verdict.cannot.bind f = .cannot := rfl

/-! (forces the equation lemmas of these definitions to be generated in this module) -/
theorem kind_typed_untyped : Kind.typed .untypedInt = false := by simp [Kind.typed]
theorem kind_typed_int : Kind.typed .int = true := by simp [Kind.typed]
theorem bind_divzero (f : Int → Verdict) : Verdict.divzero.bind f = .divzero := by simp [Verdict.bind]
theorem bind_ok' (x : Int) (f : Int → Verdict) : (Verdict.ok x).bind f = f x := by simp [Verdict.bind]
theorem checkAssign_def (word : Nat) (k : Kind) (x : Int) :
    checkAssign word k x = if representableConst word x k then .ok x else .overflow := by unfold checkAssign; rfl
theorem exactUn_pos (y : Int) (p : Nat) : exactUn .pos y p = y := by simp [exactUn]

end WaVerif.C15
