import WaVerif.Model.C25
import WaVerif.Lemmas.C25Stream
/-!
# C25 — helper lemmas (SLIP reader/writer, chunked reader, FCS-16 bit-vector facts)
-/
namespace WaVerif.C25
open WaVerif.Gen.C25 WaVerif.Stream

/-! ## the only facts about the regenerated framing bytes the round trip needs -/

theorem esc_ne_end : cESC ≠ cEND := by decide
theorem escEsc_ne_escEnd : cESC_ESC ≠ cESC_END := by decide

theorem unesc_escEnd : unesc cESC_END = cEND := by simp [unesc]
theorem unesc_escEsc : unesc cESC_ESC = cESC := by simp [unesc, escEsc_ne_escEnd]

/-! ## reader on writer output -/

theorem readGo_end_nil (rest : List Nat) : readGo (cEND :: rest) [] = readGo rest [] := by
  simp [readGo]

theorem readGo_end_cons (rest acc : List Nat) (h : acc ≠ []) :
    readGo (cEND :: rest) acc = (acc, true, rest) := by
  simp [readGo, h]

theorem readGo_stuff (b : Nat) (rest acc : List Nat) :
    readGo (stuff b ++ rest) acc = readGo rest (acc ++ [b]) := by
  unfold stuff
  by_cases h1 : b = cEND
  · subst h1
    simp only [if_true, List.cons_append, List.nil_append]
    rw [readGo]; simp only [esc_ne_end, if_false, if_true]
    rw [unesc_escEnd]
  · by_cases h2 : b = cESC
    · subst h2
      simp only [h1, if_false, if_true, List.cons_append, List.nil_append]
      rw [readGo]; simp only [esc_ne_end, if_false, if_true]
      rw [unesc_escEsc]
    · simp only [h1, h2, if_false, List.cons_append, List.nil_append]
      rw [readGo]; simp only [h1, h2, if_false]

theorem readGo_stuffed (p rest : List Nat) : ∀ acc : List Nat, acc ++ p ≠ [] →
    readGo (p.flatMap stuff ++ cEND :: rest) acc = (acc ++ p, true, rest) := by
  induction p with
  | nil => intro acc h; simp at h; simp [readGo_end_cons _ _ h]
  | cons b p ih =>
    intro acc _
    rw [List.flatMap_cons, List.append_assoc, readGo_stuff, ih (acc ++ [b]) (by simp)]
    simp

/-! ## unfolding `readAll` -/

theorem readAll_complete {s p r : List Nat} (h : readPacket s = (p, true, r)) :
    readAll s = (p :: (readAll r).1, (readAll r).2) := by
  rw [readAll]; split
  · rename_i p' r' h'; rw [h] at h'
    simp only [Prod.mk.injEq, true_and] at h'
    obtain ⟨rfl, rfl⟩ := h'; rfl
  · rename_i p' r' h'; rw [h] at h'; simp at h'

theorem readAll_incomplete {s p r : List Nat} (h : readPacket s = (p, false, r)) :
    readAll s = ([], p) := by
  rw [readAll]; split
  · rename_i p' r' h'; rw [h] at h'; simp at h'
  · rename_i p' r' h'; rw [h] at h'
    simp only [Prod.mk.injEq] at h'; rw [h'.1]

theorem readAllC_complete {s r : Buffered} {p : List Nat} (h : readPacketC s = (p, true, r)) :
    readAllC s = (p :: (readAllC r).1, (readAllC r).2) := by
  rw [readAllC]; split
  · rename_i p' r' h'; rw [h] at h'
    simp only [Prod.mk.injEq, true_and] at h'
    obtain ⟨rfl, rfl⟩ := h'; rfl
  · rename_i p' r' h'; rw [h] at h'; simp at h'

theorem readAllC_incomplete {s r : Buffered} {p : List Nat} (h : readPacketC s = (p, false, r)) :
    readAllC s = ([], p) := by
  rw [readAllC]; split
  · rename_i p' r' h'; rw [h] at h'; simp at h'
  · rename_i p' r' h'; rw [h] at h'
    simp only [Prod.mk.injEq] at h'; rw [h'.1]

/-! ## the chunked reader computes what the flat reader computes -/

theorem readGoC_flat (s : Buffered) (acc : List Nat) (hw : s.WF 1) :
    readGo s.flat acc = ((readGoC s acc).1, (readGoC s acc).2.1, (readGoC s acc).2.2.flat)
    ∧ (readGoC s acc).2.2.WF 1 := by
  fun_induction readGoC s acc
  case case1 hn =>
    rw [Buffered.next_none_flat hw hn]; simp [readGo]
    exact ⟨Buffered.next_none_flat hw hn |>.symm, hw⟩
  case case2 hacc hn =>
    rw [Buffered.next_flat hn, readGo_end_cons _ _ hacc]
    exact ⟨rfl, Buffered.next_wf hw hn⟩
  case case3 hacc hn ih =>
    have hacc' : _ = [] := Classical.not_not.mp hacc
    rw [Buffered.next_flat hn, hacc', readGo_end_nil]
    rw [hacc'] at ih
    exact ih (Buffered.next_wf hw hn)
  case case4 hn2 hn hne =>
    have hw1 := Buffered.next_wf hw hn
    rw [Buffered.next_flat hn, Buffered.next_none_flat hw1 hn2]
    simp [readGo, hne]
    exact ⟨Buffered.next_none_flat hw1 hn2 |>.symm, hw1⟩
  case case5 hn2 hn hne ih =>
    have hw1 := Buffered.next_wf hw hn
    rw [Buffered.next_flat hn, Buffered.next_flat hn2]
    rw [readGo]; simp only [hne, if_false, if_true]
    exact ih (Buffered.next_wf hw1 hn2)
  case case6 hn h1 h2 ih =>
    rw [Buffered.next_flat hn]
    rw [readGo]; simp only [h1, h2, if_false]
    exact ih (Buffered.next_wf hw hn)

theorem readAllC_flat (s : Buffered) (hw : s.WF 1) : readAllC s = readAll s.flat := by
  fun_induction readAllC s
  case case1 p r h ps t hrec ih =>
    have := readGoC_flat _ [] hw
    unfold readPacketC at h
    rw [h] at this
    have hc : readPacket _ = (p, true, r.flat) := this.1
    rw [readAll_complete hc, ← ih this.2, hrec]
  case case2 p r h =>
    have := readGoC_flat _ [] hw
    unfold readPacketC at h
    rw [h] at this
    have hc : readPacket _ = (p, false, r.flat) := this.1
    rw [readAll_incomplete hc]

end WaVerif.C25
