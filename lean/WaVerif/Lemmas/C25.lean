import WaVerif.Model.C25
import WaVerif.Lemmas.C25Stream
/-!
# C25 — helper lemmas (SLIP reader/writer, chunked reader, FCS-16 bit-vector facts)
-/
namespace WaVerif.C25
open WaVerif.Gen.C25 WaVerif.Stream

/-! ## the only facts about the regenerated framing bytes the round trip needs -/

theorem esc_ne_end : cESC ≠ cEND := by decide
theorem escEsc_ne_escEnd : cESC_ESC ≠ cESC_END := by decide

theorem unesc_escEnd : unesc cESC_END = cEND := by simp [unesc]
theorem unesc_escEsc : unesc cESC_ESC = cESC := by simp [unesc, escEsc_ne_escEnd]

/-! ## reader on writer output -/

theorem readGo_end_nil (rest : List Nat) : readGo (cEND :: rest) [] false = readGo rest [] false := by
  rw [readGo]; simp

theorem readGo_end_cons (rest acc : List Nat) (h : acc ≠ []) :
    readGo (cEND :: rest) acc false = (acc, true, rest) := by
  rw [readGo, if_pos rfl, if_pos h]

theorem readGo_esc (c : Nat) (rest acc : List Nat) :
    readGo (cESC :: c :: rest) acc false = readGo rest (acc ++ [unesc c]) false := by
  rw [readGo, if_neg esc_ne_end, if_pos rfl, readGo]

theorem readGo_plain (b : Nat) (rest acc : List Nat) (h1 : b ≠ cEND) (h2 : b ≠ cESC) :
    readGo (b :: rest) acc false = readGo rest (acc ++ [b]) false := by
  rw [readGo, if_neg h1, if_neg h2]

theorem readGo_stuff (b : Nat) (rest acc : List Nat) :
    readGo (stuff b ++ rest) acc false = readGo rest (acc ++ [b]) false := by
  unfold stuff
  by_cases h1 : b = cEND
  · subst h1
    rw [if_pos rfl]
    simp only [List.cons_append, List.nil_append]
    rw [readGo_esc, unesc_escEnd]
  · by_cases h2 : b = cESC
    · subst h2
      rw [if_neg h1, if_pos rfl]
      simp only [List.cons_append, List.nil_append]
      rw [readGo_esc, unesc_escEsc]
    · rw [if_neg h1, if_neg h2]
      simp only [List.cons_append, List.nil_append]
      rw [readGo_plain _ _ _ h1 h2]

theorem readGo_stuffed (p rest : List Nat) : ∀ acc : List Nat, acc ++ p ≠ [] →
    readGo (p.flatMap stuff ++ cEND :: rest) acc false = (acc ++ p, true, rest) := by
  induction p with
  | nil => intro acc h; simp at h; simp [readGo_end_cons _ _ h]
  | cons b p ih =>
    intro acc _
    rw [List.flatMap_cons, List.append_assoc, readGo_stuff, ih (acc ++ [b]) (by simp)]
    simp

/-! ## unfolding `readAll` -/

theorem readAll_complete {s p r : List Nat} (h : readPacket s = (p, true, r)) :
    readAll s = (p :: (readAll r).1, (readAll r).2) := by
  rw [readAll]; split
  · rename_i p' r' h'; rw [h] at h'
    simp only [Prod.mk.injEq, true_and] at h'
    obtain ⟨rfl, rfl⟩ := h'; rfl
  · rename_i p' r' h'; rw [h] at h'; simp at h'

theorem readAll_incomplete {s p r : List Nat} (h : readPacket s = (p, false, r)) :
    readAll s = ([], p) := by
  rw [readAll]; split
  · rename_i p' r' h'; rw [h] at h'; simp at h'
  · rename_i p' r' h'; rw [h] at h'
    simp only [Prod.mk.injEq] at h'; rw [h'.1]

theorem readAllC_complete {s r : Buffered} {p : List Nat} (h : readPacketC s = (p, true, r)) :
    readAllC s = (p :: (readAllC r).1, (readAllC r).2) := by
  rw [readAllC]; split
  · rename_i p' r' h'; rw [h] at h'
    simp only [Prod.mk.injEq, true_and] at h'
    obtain ⟨rfl, rfl⟩ := h'; rfl
  · rename_i p' r' h'; rw [h] at h'; simp at h'

theorem readAllC_incomplete {s r : Buffered} {p : List Nat} (h : readPacketC s = (p, false, r)) :
    readAllC s = ([], p) := by
  rw [readAllC]; split
  · rename_i p' r' h'; rw [h] at h'; simp at h'
  · rename_i p' r' h'; rw [h] at h'
    simp only [Prod.mk.injEq] at h'; rw [h'.1]

/-! ## the chunked reader computes what the flat reader computes -/

theorem readGoC_flat (s : Buffered) (acc : List Nat) (e : Bool) (hw : s.WF 1) :
    readGo s.flat acc e = ((readGoC s acc e).1, (readGoC s acc e).2.1, (readGoC s acc e).2.2.flat)
    ∧ (readGoC s acc e).2.2.WF 1 := by
  fun_induction readGoC s acc e
  case case1 =>
    have hn := ‹Buffered.next 1 _ = none›
    have hf := Buffered.next_none_flat hw hn
    rw [hf]
    refine ⟨?_, hw⟩
    rw [readGo]
  case case2 =>
    rename_i ih
    have hn := ‹Buffered.next 1 _ = some (_, _)›
    rw [Buffered.next_flat hn, readGo]
    exact ih (Buffered.next_wf hw hn)
  case case3 =>
    have hn := ‹Buffered.next 1 _ = some (_, _)›
    obtain rfl : _ = false := Bool.eq_false_iff.mpr ‹¬ _ = true›
    rw [Buffered.next_flat hn, readGo_end_cons _ _ ‹_ ≠ []›]
    exact ⟨rfl, Buffered.next_wf hw hn⟩
  case case4 =>
    rename_i ih
    have hn := ‹Buffered.next 1 _ = some (_, _)›
    obtain rfl : _ = false := Bool.eq_false_iff.mpr ‹¬ _ = true›
    have hacc' : _ = [] := Classical.not_not.mp ‹¬ _ ≠ []›
    rw [hacc'] at ih ⊢
    rw [Buffered.next_flat hn, readGo_end_nil]
    exact ih (Buffered.next_wf hw hn)
  case case5 =>
    rename_i ih
    have hn := ‹Buffered.next 1 _ = some (_, _)›
    obtain rfl : _ = false := Bool.eq_false_iff.mpr ‹¬ _ = true›
    rw [Buffered.next_flat hn, readGo, if_neg esc_ne_end, if_pos rfl]
    exact ih (Buffered.next_wf hw hn)
  case case6 =>
    rename_i h1 h2 ih
    have hn := ‹Buffered.next 1 _ = some (_, _)›
    obtain rfl : _ = false := Bool.eq_false_iff.mpr ‹¬ _ = true›
    rw [Buffered.next_flat hn, readGo_plain _ _ _ h1 h2]
    exact ih (Buffered.next_wf hw hn)

theorem readAllC_flat (s : Buffered) (hw : s.WF 1) : readAllC s = readAll s.flat := by
  fun_induction readAllC s
  case case1 p r h ps t hrec ih =>
    have := readGoC_flat _ [] false hw
    unfold readPacketC at h
    rw [h] at this
    have hc : readPacket _ = (p, true, r.flat) := this.1
    rw [readAll_complete hc, ← ih this.2, hrec]
  case case2 p r h =>
    have := readGoC_flat _ [] false hw
    unfold readPacketC at h
    rw [h] at this
    have hc : readPacket _ = (p, false, r.flat) := this.1
    rw [readAll_incomplete hc]

/-! ## FCS-16: the two appended bytes drive any state to a constant -/

theorem lt16_cases {i : Nat} (h : i < 16) : i = 0 ∨ i = 1 ∨ i = 2 ∨ i = 3 ∨ i = 4 ∨ i = 5 ∨ i = 6 ∨ i = 7 ∨
    i = 8 ∨ i = 9 ∨ i = 10 ∨ i = 11 ∨ i = 12 ∨ i = 13 ∨ i = 14 ∨ i = 15 := by omega

theorem bxor3 (a b : Bool) : (a != (b != a)) = b := by cases a <;> cases b <;> rfl

theorem bv_ofNat_toNat16 (x : BitVec 16) : BitVec.ofNat 16 x.toNat = x := by simp

/-- first appended byte: the table index is always 0xff -/
theorem fcs_idx1 (f : BitVec 16) :
    (f ^^^ ((f ^^^ 0xffff#16) &&& 0xff#16)) &&& 0xff#16 = 0xff#16 := by
  ext i hi
  rcases lt16_cases hi with rfl|rfl|rfl|rfl|rfl|rfl|rfl|rfl|rfl|rfl|rfl|rfl|rfl|rfl|rfl|rfl <;> simp

/-- second appended byte: the table index does not depend on the state -/
theorem fcs_idx2 (f t : BitVec 16) :
    (((f >>> 8) ^^^ t) ^^^ (((f ^^^ 0xffff#16) >>> 8) &&& 0xff#16)) &&& 0xff#16
      = (t ^^^ 0xff#16) &&& 0xff#16 := by
  ext i hi
  rcases lt16_cases hi with rfl|rfl|rfl|rfl|rfl|rfl|rfl|rfl|rfl|rfl|rfl|rfl|rfl|rfl|rfl|rfl <;> simp [bxor3]

theorem fcs_hi (f t : BitVec 16) : ((f >>> 8) ^^^ t) >>> 8 = t >>> 8 := by
  ext i hi
  rcases lt16_cases hi with rfl|rfl|rfl|rfl|rfl|rfl|rfl|rfl|rfl|rfl|rfl|rfl|rfl|rfl|rfl|rfl <;> simp

theorem fcsStep_first (f : BitVec 16) :
    fcsStep f ((f ^^^ 0xffff#16) &&& 0xff#16).toNat = (f >>> 8) ^^^ fcsTab 255 := by
  unfold fcsStep; rw [bv_ofNat_toNat16, fcs_idx1]; rfl

theorem fcsStep_second (f t : BitVec 16) :
    fcsStep ((f >>> 8) ^^^ t) (((f ^^^ 0xffff#16) >>> 8) &&& 0xff#16).toNat
      = (t >>> 8) ^^^ fcsTab ((t ^^^ 0xff#16) &&& 0xff#16).toNat := by
  unfold fcsStep; rw [bv_ofNat_toNat16, fcs_idx2, fcs_hi]

/-- the only place the table VALUES matter: entries 0xff and (T[0xff] ^ 0xff) & 0xff -/
theorem fcs_table_fact :
    (fcsTab 255 >>> 8) ^^^ fcsTab ((fcsTab 255 ^^^ 0xff#16) &&& 0xff#16).toNat
      = BitVec.ofNat 16 cFCS_GOOD := by decide

theorem fcs_two_steps (f : BitVec 16) : (fcsBytes f).foldl fcsStep f = BitVec.ofNat 16 cFCS_GOOD := by
  simp only [fcsBytes, List.foldl_cons, List.foldl_nil]
  rw [fcsStep_first, fcsStep_second, fcs_table_fact]

/-! ## SLIPMUX -/

theorem coap_not_ip : isIp cFRAME_COAP = false := by decide

theorem muxRead_of_complete {s res rest : List Nat} (h : readPacket s = (res, true, rest)) :
    muxRead s = match muxAccept res with
      | some (p, ft) => some (p, ft, rest)
      | none => muxRead rest := by
  rw [muxRead]; split
  · rename_i h'; rw [h] at h'; simp at h'
  · rename_i res' rest' h'; rw [h] at h'
    simp only [Prod.mk.injEq, true_and] at h'
    obtain ⟨rfl, rfl⟩ := h'; rfl

theorem muxRead_of_incomplete {s res rest : List Nat} (h : readPacket s = (res, false, rest)) :
    muxRead s = none := by
  rw [muxRead]; split
  · rfl
  · rename_i res' rest' h'; rw [h] at h'; simp at h'

theorem muxReadAll_some {s p rest : List Nat} {ft : Nat} (h : muxRead s = some (p, ft, rest)) :
    muxReadAll s = (ft, p) :: muxReadAll rest := by
  rw [muxReadAll]; split
  · rename_i h'; rw [h] at h'; simp at h'
  · rename_i p' ft' rest' h'; rw [h] at h'
    simp only [Option.some.injEq, Prod.mk.injEq] at h'
    obtain ⟨rfl, rfl, rfl⟩ := h'; rfl

theorem muxReadAll_none {s : List Nat} (h : muxRead s = none) : muxReadAll s = [] := by
  rw [muxReadAll]; split
  · rfl
  · rename_i p' ft' rest' h'; rw [h] at h'; simp at h'

/-! ### chunked mux reader = flat mux reader -/

theorem muxReadC_flat (s : Buffered) (hw : s.WF 1) :
    (muxReadC s).map (fun r => (r.1, r.2.1, r.2.2.flat)) = muxRead s.flat
    ∧ ∀ r, muxReadC s = some r → r.2.2.WF 1 := by
  fun_induction muxReadC s
  case case1 =>
    have h := ‹readPacketC _ = _›
    have := readGoC_flat _ [] false hw
    unfold readPacketC at h
    rw [h] at this
    have hc : readPacket _ = (_, false, _) := this.1
    rw [muxRead_of_incomplete hc]; simp
  case case2 =>
    rename_i hacc
    have h := ‹readPacketC _ = _›
    have := readGoC_flat _ [] false hw
    unfold readPacketC at h
    rw [h] at this
    have hc : readPacket _ = (_, true, _) := this.1
    rw [muxRead_of_complete hc, hacc]
    refine ⟨by simp, ?_⟩
    intro r hr; simp only [Option.some.injEq] at hr; subst hr; exact this.2
  case case3 =>
    rename_i hacc ih
    have h := ‹readPacketC _ = _›
    have := readGoC_flat _ [] false hw
    unfold readPacketC at h
    rw [h] at this
    have hc : readPacket _ = (_, true, _) := this.1
    rw [muxRead_of_complete hc, hacc]
    exact ih this.2

theorem muxReadAllC_flat (s : Buffered) (hw : s.WF 1) : muxReadAllC s = muxReadAll s.flat := by
  fun_induction muxReadAllC s
  case case1 =>
    have h := ‹muxReadC _ = none›
    have := (muxReadC_flat _ hw).1
    rw [h] at this
    rw [muxReadAll_none this.symm]
  case case2 =>
    rename_i ih
    have h := ‹muxReadC _ = some _›
    have hf := muxReadC_flat _ hw
    rw [h] at hf
    rw [muxReadAll_some hf.1.symm, ih (hf.2 _ rfl)]

end WaVerif.C25
