import WaVerif.Model.C02X64
/-! Characterisation of the Int/Nat-based `idiv` / `div` of the x86-64 model by the bit-vector division
operators, for the dividends the templates build (`cdq`/`cqo` sign fill, zeroed high half). -/
namespace WaVerif.X64

theorem divN_zero_hi {n : Nat} (lo d : BitVec n) :
    divN 0#n lo d = if d = 0#n then none else some (lo / d, lo % d) := by
  unfold divN
  by_cases hd : d = 0#n
  · subst hd; simp
  · have hd' : d.toNat ≠ 0 := by
      intro h; apply hd; apply BitVec.eq_of_toNat_eq; simpa using h
    have hq : lo.toNat / d.toNat < 2 ^ n := Nat.lt_of_le_of_lt (Nat.div_le_self _ _) lo.isLt
    simp only [BitVec.toNat_ofNat, Nat.zero_mod, Nat.zero_mul, Nat.zero_add, hd', if_false, hd]
    rw [if_neg (Nat.not_le.mpr hq)]
    congr 1
    apply Prod.ext
    · apply BitVec.eq_of_toNat_eq
      simp [BitVec.toNat_udiv, Nat.mod_eq_of_lt hq]
    · apply BitVec.eq_of_toNat_eq
      have hm : lo.toNat % d.toNat < 2 ^ n := Nat.lt_of_le_of_lt (Nat.mod_le _ _) lo.isLt
      simp [BitVec.toNat_umod, Nat.mod_eq_of_lt hm]

theorem signfill_num {n : Nat} (hn : 0 < n) (lo : BitVec n) :
    (if lo.msb then BitVec.allOnes n else 0#n).toInt * (2 : Int) ^ n + (lo.toNat : Int) = lo.toInt := by
  rw [BitVec.toInt_eq_msb_cond lo]
  cases h : lo.msb
  · simp
  · simp [BitVec.toInt_allOnes, hn]
    omega

theorem idivN_signfill {n : Nat} (hn : 0 < n) (hi lo d : BitVec n)
    (h : hi = if lo.msb then BitVec.allOnes n else 0#n) :
    idivN hi lo d =
      if d = 0#n then none
      else if lo = BitVec.intMin n ∧ d = -1#n then none
      else some (lo.sdiv d, lo.srem d) := by
  subst h
  unfold idivN
  simp only [signfill_num hn]
  by_cases hd : d = 0#n
  · subst hd; simp
  · have hd' : d.toInt ≠ 0 := by
      intro h0; apply hd
      apply BitVec.eq_of_toInt_eq; simpa using h0
    simp only [hd', hd, if_false]
    by_cases hov : lo = BitVec.intMin n ∧ d = -1#n
    · obtain ⟨h1, h2⟩ := hov
      subst h1; subst h2
      have : (2 : Int) ^ (n - 1) ≤ (BitVec.intMin n).toInt.tdiv (-1#n).toInt := by
        rw [BitVec.toInt_intMin_of_pos hn, BitVec.neg_one_eq_allOnes, BitVec.toInt_allOnes, if_pos hn]
        simp [Int.tdiv_neg]
      simp [this]
    · rw [if_neg hov]
      have hne : lo ≠ BitVec.intMin n ∨ d ≠ -1#n := by
        by_cases h1 : lo = BitVec.intMin n
        · right; intro h2; exact hov ⟨h1, h2⟩
        · left; exact h1
      have hq := BitVec.toInt_sdiv_of_ne_or_ne lo d hne
      have hr := BitVec.toInt_srem lo d
      rw [← hq, ← hr]
      have lb := BitVec.le_toInt (lo.sdiv d)
      have ub := BitVec.toInt_lt (x := lo.sdiv d)
      rw [if_neg (by omega)]
      rw [BitVec.ofInt_toInt, BitVec.ofInt_toInt]

/-- the dividend `cdq` builds (as the symbolic execution presents it) -/
theorem idivN_cdq (a d : BitVec 32) :
    idivN (BitVec.setWidth 32 (if a.msb = true then 4294967295#64 else 0#64)) a d =
      if d = 0#32 then none
      else if a = BitVec.intMin 32 ∧ d = -1#32 then none
      else some (a.sdiv d, a.srem d) := by
  apply idivN_signfill (by decide)
  cases a.msb <;> decide

/-- the dividend `cqo` builds -/
theorem idivN_cqo (a d : BitVec 64) :
    idivN (if a.msb = true then 18446744073709551615#64 else 0#64) a d =
      if d = 0#64 then none
      else if a = BitVec.intMin 64 ∧ d = -1#64 then none
      else some (a.sdiv d, a.srem d) := by
  apply idivN_signfill (by decide)
  cases a.msb <;> decide

end WaVerif.X64
