import WaVerif.Lemmas.C10Defs
/-! # C10 — lemmas about the list surgery of the general free list -/
namespace WaVerif.C10

/-! ## counting through `replaceFirst`, `erase`, `insertFree` -/

theorem sumf_replaceFirst (f : FBlk → Nat) (p q : FBlk) (l : List FBlk) (h : p ∈ l) :
    sumf f (replaceFirst p q l) + f p = sumf f l + f q := by
  induction l with
  | nil => cases h
  | cons a r ih =>
    unfold replaceFirst
    by_cases hap : a = p
    · simp [hap]; omega
    · simp [hap]
      have hr : p ∈ r := by
        cases h with
        | head => exact absurd rfl hap
        | tail _ h' => exact h'
      have := ih hr
      omega

theorem sumf_erase (f : FBlk → Nat) (p : FBlk) (l : List FBlk) (h : p ∈ l) :
    sumf f (l.erase p) + f p = sumf f l := by
  induction l with
  | nil => cases h
  | cons a r ih =>
    by_cases hap : a = p
    · subst hap; simp; omega
    · have hr : p ∈ r := by
        cases h with
        | head => exact absurd rfl hap
        | tail _ h' => exact h'
      have hne : ¬ (a == p) = true := by simp [hap]
      rw [List.erase_cons_tail hne]
      have := ih hr
      simp; omega

theorem cov_join (x : Nat) (a b : FBlk) (h : bend a = b.1) :
    cov x (a.1, a.2 + b.2 + 8) = cov x a + cov x b := by
  simp only [cov, bend] at *
  split <;> split <;> split <;> omega

theorem cov_join3 (x : Nat) (a b c : FBlk) (h1 : bend a = b.1) (h2 : bend b = c.1) :
    cov x (a.1, a.2 + b.2 + 8 + c.2 + 8) = cov x a + cov x b + cov x c := by
  simp only [cov, bend] at *
  split <;> split <;> split <;> split <;> omega

theorem sumf_cov_insertFree (x : Nat) (bp : FBlk) (l : List FBlk) :
    sumf (cov x) (insertFree bp l) = cov x bp + sumf (cov x) l := by
  induction l with
  | nil => simp [insertFree]
  | cons a r ih =>
    unfold insertFree
    split
    · simp
    · split
      · rename_i h
        have := cov_join x bp a h
        simp at this ⊢; omega
      · split
        · rename_i h
          cases r with
          | nil =>
            have := cov_join x a bp h
            simp at this ⊢; omega
          | cons c r' =>
            simp only
            split
            · rename_i h2
              have := cov_join3 x a bp c h h2
              simp at this ⊢; omega
            · have := cov_join x a bp h
              simp at this ⊢; omega
        · simp [ih]; omega

theorem bad8_zero_iff (b : FBlk) : bad8 b = 0 ↔ b.1 % 8 = 0 ∧ b.2 % 8 = 0 := by
  unfold bad8; split <;> simp_all

theorem sumf_bad8_insertFree (bp : FBlk) (l : List FBlk) (hb : bad8 bp = 0) (hl : sumf bad8 l = 0) :
    sumf bad8 (insertFree bp l) = 0 := by
  induction l with
  | nil => simp [insertFree, hb]
  | cons a r ih =>
    have ha : bad8 a = 0 := by simp at hl; omega
    have hr : sumf bad8 r = 0 := by simp at hl; omega
    have hb' := (bad8_zero_iff bp).1 hb
    have ha' := (bad8_zero_iff a).1 ha
    unfold insertFree
    split
    · simp [hb, ha, hr]
    · split
      · have : bad8 (bp.1, bp.2 + a.2 + 8) = 0 := by rw [bad8_zero_iff]; simp; omega
        simp [this, hr]
      · split
        · cases r with
          | nil =>
            have : bad8 (a.1, a.2 + bp.2 + 8) = 0 := by rw [bad8_zero_iff]; simp; omega
            simp [this]
          | cons c r' =>
            have hc : bad8 c = 0 := by simp at hr; omega
            have hr' : sumf bad8 r' = 0 := by simp at hr; omega
            have hc' := (bad8_zero_iff c).1 hc
            simp only
            split
            · have : bad8 (a.1, a.2 + bp.2 + 8 + c.2 + 8) = 0 := by rw [bad8_zero_iff]; simp; omega
              simp [this, hr']
            · have : bad8 (a.1, a.2 + bp.2 + 8) = 0 := by rw [bad8_zero_iff]; simp; omega
              simp [this, hc, hr']
        · simp [ha, ih hr]

/-! ## separation (sorted, disjoint, non-adjacent) -/

/-- `bp` does not overlap any block of the list -/
def Disj (bp : FBlk) (l : List FBlk) : Prop := ∀ a ∈ l, bend bp ≤ a.1 ∨ bend a ≤ bp.1

theorem sep_tail {a : FBlk} {r : List FBlk} (h : Sepd (a :: r)) : Sepd r := by
  cases r with
  | nil => trivial
  | cons b r => exact h.2

theorem sep_head_lt {a : FBlk} {r : List FBlk} (h : Sepd (a :: r)) : ∀ b ∈ r, bend a < b.1 := by
  induction r generalizing a with
  | nil => intro b hb; cases hb
  | cons c r ih =>
    intro b hb
    cases hb with
    | head => exact h.1
    | tail _ hb' =>
      have := ih h.2 b hb'
      have h1 := h.1
      unfold bend at *; omega

theorem sep_cons {a : FBlk} {r : List FBlk} (hr : Sepd r) (h : ∀ b ∈ r, bend a < b.1) : Sepd (a :: r) := by
  cases r with
  | nil => trivial
  | cons c r' => exact ⟨h c (by simp), hr⟩

theorem insert_sep (bp : FBlk) (l : List FBlk) (hs : Sepd l) (hd : Disj bp l) :
    Sepd (insertFree bp l) := by
  induction l with
  | nil => simp [insertFree, Sepd]
  | cons a r ih =>
    have hda := hd a (by simp)
    unfold insertFree
    split
    · exact ⟨by assumption, hs⟩
    · split
      · cases r with
        | nil => trivial
        | cons c r' =>
          refine ⟨?_, hs.2⟩
          have := hs.1
          simp [bend] at *; omega
      · split
        · cases r with
          | nil => trivial
          | cons c r' =>
            simp only
            have hc := hd c (by simp)
            have h1 := hs.1
            split
            · cases r' with
              | nil => trivial
              | cons d r'' =>
                refine ⟨?_, hs.2.2⟩
                have := hs.2.1
                simp [bend] at *; omega
            · refine ⟨?_, hs.2⟩
              simp [bend] at *; omega
        · have hr : Sepd (insertFree bp r) := ih (sep_tail hs) (fun b hb => hd b (by simp [hb]))
          have hlt : bend a < bp.1 := by simp [bend] at *; omega
          cases r with
          | nil => simp [insertFree]; exact ⟨hlt, trivial⟩
          | cons c r' =>
            have hac := hs.1
            unfold insertFree at hr ⊢
            split at hr <;> rename_i h1
            · simp [h1]; exact ⟨hlt, hr⟩
            · split at hr <;> rename_i h2
              · simp [h2]; exact ⟨hlt, hr⟩
              · split at hr <;> rename_i h3
                · simp [h1, h2, h3]
                  cases r' with
                  | nil => simp at hr ⊢; exact ⟨hac, trivial⟩
                  | cons d r'' =>
                    simp only at hr ⊢
                    split at hr <;> rename_i h4
                    · simp [h4]; exact ⟨hac, hr⟩
                    · simp [h4]; exact ⟨hac, hr⟩
                · simp [h1, h2, h3]; exact ⟨hac, hr⟩

theorem sep_erase (p : FBlk) (l : List FBlk) (hs : Sepd l) : Sepd (l.erase p) := by
  induction l with
  | nil => simp; trivial
  | cons a r ih =>
    by_cases hap : a = p
    · subst hap; simp; exact sep_tail hs
    · have hne : ¬ (a == p) = true := by simp [hap]
      rw [List.erase_cons_tail hne]
      apply sep_cons (ih (sep_tail hs))
      intro b hb
      exact sep_head_lt hs b (List.mem_of_mem_erase hb)

/-- replacing a block by one that starts no earlier and ends at the same address -/
theorem sep_replaceFirst (p q : FBlk) (l : List FBlk) (hs : Sepd l) (h1 : p.1 ≤ q.1) (h2 : bend q = bend p) :
    Sepd (replaceFirst p q l) := by
  induction l with
  | nil => trivial
  | cons a r ih =>
    unfold replaceFirst
    by_cases hap : a = p
    · subst hap
      simp
      apply sep_cons (sep_tail hs)
      intro b hb
      have := sep_head_lt hs b hb
      omega
    · simp [hap]
      have hr := ih (sep_tail hs)
      cases r with
      | nil => simp [replaceFirst]; trivial
      | cons c r' =>
        have hac := hs.1
        unfold replaceFirst at hr ⊢
        by_cases hcp : c = p
        · subst hcp
          simp at hr ⊢
          exact ⟨by omega, hr⟩
        · simp [hcp] at hr ⊢
          exact ⟨hac, hr⟩

end WaVerif.C10
